import CnlProofs.Native
import CnlProofs.Scaled
import CnlProofs.Kernels
/-!
# Helper lemmas for C12: `cnl::scale<k>` of a native-tag wrapper nest is `scale<k>` of the integer

`ws` is a nest of `overflow_integer<_, native_overflow_tag>` / `rounding_integer<_, native_rounding_tag>`
layers (`Wrappers ws`: no scaled layer, a scaled_integer has no `scale`).  The model's `scaleWith`
transcribes `overflow_integer.h` / `rounding_integer.h` / `power_value.h` with the wrapper's own operators;
here it is shown to be `scaleInt` on the innermost value, re-wrapped — hence every scaled_integer operation
that changes exponents (alignment of `+ -` and of the comparisons, conversion, compound assignment) over such
a nest is the operation over the bare integer.

`PowWF T k ρ`: the instantiation `power_value<T, |k|, ρ>` is well-formed (it is a `static_assert` /
constant-evaluation failure otherwise, and then the bare expression does not compile either).
Lean core only.
-/
set_option linter.unusedVariables false
set_option linter.unusedSimpArgs false

namespace Cnl.Native
open Cnl Cnl.Layered
open Cnl.ScaledP (sc promote_bits_pos)
open Cnl.KernelsP (pow_inRange)

def Layer.isSc : Layer → Bool
  | .sc _ => true
  | _ => false

/-- a nest of overflow / rounding layers only -/
def Wrappers (ws : List Layer) : Prop := ∀ l ∈ ws, l.isSc = false

instance (ws : List Layer) : Decidable (Wrappers ws) := by unfold Wrappers; exact inferInstance

theorem Wrappers.head {l : Layer} {ws : List Layer} (h : Wrappers (l :: ws)) : l.isSc = false :=
  h l (List.mem_cons_self)

theorem Wrappers.tail {l : Layer} {ws : List Layer} (h : Wrappers (l :: ws)) : Wrappers ws :=
  fun x hx => h x (List.mem_cons_of_mem _ hx)

/-- `power_value<T, |k|, ρ>` is well-formed -/
def PowWF (T : IntTy) (k : Int) (ρ : Nat) : Prop := (powerValueInt T k.natAbs ρ).isOk = true

instance (T : IntTy) (k : Int) (ρ : Nat) : Decidable (PowWF T k ρ) := by unfold PowWF; exact inferInstance

/-- `scale<k, ρ>` is declared for every layer of the nest: `rounding_integer.h` specialises the
scaling down (`k < 0`) for radix 2 only -/
def ScaleDefined (ws : List Layer) (k : Int) (ρ : Nat) : Prop := 0 ≤ k ∨ ρ = 2 ∨ Layer.rd ∉ ws

instance (ws : List Layer) (k : Int) (ρ : Nat) : Decidable (ScaleDefined ws k ρ) := by
  unfold ScaleDefined; exact inferInstance

theorem ScaleDefined.tail {l : Layer} {ws : List Layer} {k : Int} {ρ : Nat} (h : ScaleDefined (l :: ws) k ρ) :
    ScaleDefined ws k ρ := by
  rcases h with h | h | h
  · exact Or.inl h
  · exact Or.inr (Or.inl h)
  · exact Or.inr (Or.inr (fun hx => h (List.mem_cons_of_mem _ hx)))

theorem isOk_iff {α : Type} (r : Res α) : r.isOk = true ↔ ∃ a, r = .ok a := by
  cases r <;> simp [Res.isOk]

theorem PowWF.zero (T : IntTy) (ρ : Nat) : PowWF T 0 ρ := by
  simp [PowWF, powerValueInt, Res.isOk]

/-- radix 2: the exponent is below the digits of the promoted type -/
theorem PowWF.of_lt {T : IntTy} {k : Int} (h : k.natAbs < (promote T).digits) : PowWF T k 2 := by
  unfold PowWF powerValueInt
  by_cases hk : k.natAbs = 0
  · simp [hk, Res.isOk]
  · simp [hk, h, Res.isOk]

/-! ## types of the constant shifts -/

theorem shiftTyWith_wrap (R : RepOps) (layer : Layer) (hl : layer.isSc = false) (a : Ty) (k : Nat) :
    shiftTyWith R (layer.wrap a) k = layer.wrap (R.shlConstTy a k) := by
  cases layer with
  | sc radix => simp [Layer.isSc] at hl
  | ov => rfl
  | rd => rfl

theorem ops_shlConstTy_int (n : Nat) (T : IntTy) (k : Nat) : (ops n).shlConstTy (.int T) k = .int (promote T) := by
  cases n <;> rfl

theorem ops_succ_shlConstTy_wrap (m : Nat) (layer : Layer) (a : Ty) (k : Nat) :
    (ops (m+1)).shlConstTy (layer.wrap a) k = shiftTyWith (ops m) (layer.wrap a) k := by
  cases layer <;> rfl

/-- `nest << constant<k>` has the promoted innermost type -/
theorem shlConstTy_nest (ws : List Layer) (hw : Wrappers ws) : ∀ (n : Nat), ws.length ≤ n → ∀ (T : IntTy) (k : Nat),
    (ops n).shlConstTy (nest ws T) k = nest ws (promote T) := by
  induction ws with
  | nil => intro n _ T k; exact ops_shlConstTy_int n T k
  | cons layer ws ih =>
    intro n hn T k
    cases n with
    | zero => simp at hn
    | succ m =>
      have hm : ws.length ≤ m := by simpa using hn
      simp only [nest]
      rw [ops_succ_shlConstTy_wrap, shiftTyWith_wrap _ _ hw.head, ih hw.tail m hm]

/-! ## `power_value` of a wrapper -/

theorem binWith_nest_int (layer : Layer) (ws : List Layer) (m : Nat) (hm : ws.length ≤ m) (op : BinOp)
    (hs : isShift op = false) (L R : IntTy) (l r : Int) :
    binWith (ops m) op (layer.wrap (nest ws L), l) (.int R, r)
      = (cBin op (L, l) (R, r)).map (fun v => (layer.wrap (nest ws v.1), v.2)) := by
  rw [← ops_succ_bin m op hs]
  exact bin_nest_int (layer :: ws) (m+1) (by simpa using hm) op hs L R l r

theorem binWith_nest (layer : Layer) (ws : List Layer) (m : Nat) (hm : ws.length ≤ m) (op : BinOp)
    (hs : isShift op = false) (L R : IntTy) (l r : Int) :
    binWith (ops m) op (layer.wrap (nest ws L), l) (layer.wrap (nest ws R), r)
      = (cBin op (L, l) (R, r)).map (fun v => (layer.wrap (nest ws v.1), v.2)) := by
  rw [← ops_succ_bin m op hs]
  exact bin_nest (layer :: ws) (m+1) (by simpa using hm) op hs L R l r

/-- a product that cannot overflow: its type is the type of every product of the operand types -/
theorem cBin_mul_zero (A : IntTy) (ρ : Nat) :
    cBin .mul (A, 0) (i32, (ρ : Int)) = .ok (usualArith A i32, 0) := by
  have hb : 1 ≤ (usualArith A i32).bits := ScaledP.usualArith_bits_pos A i32
  have h0 : (usualArith A i32).InRange 0 := Cnl.Rounding.zero_le_max _
  simp only [cBin, IntTy.wrap_id hb h0, Int.zero_mul]
  exact Cnl.arith_ok hb h0

theorem maxOfTy_nest (ws : List Layer) (T : IntTy) : maxOfTy (nest ws T) = .ok (nest ws T, T.max) := by
  simp only [maxOfTy, innermost_nest]

/-- radix ≠ 2: the repeated multiplication by the radix, each step under its assertion -/
theorem powerGo_nest (layer : Layer) (ws : List Layer) (m : Nat) (hm : ws.length ≤ m) (ρ : Nat) :
    ∀ (n : Nat) (A : IntTy) (a : Int) (p : TV), powerValueInt.go ρ n (A, a) = .ok p →
      powerGoWith (ops m) ρ n (layer.wrap (nest ws A), a) = .ok (layer.wrap (nest ws p.1), p.2) := by
  intro n
  induction n with
  | zero =>
    intro A a p h
    simp only [powerValueInt.go, Res.ok.injEq] at h
    subst h; rfl
  | succ n ih =>
    intro A a p h
    simp only [powerValueInt.go] at h
    have hmx := maxOfTy_nest (layer :: ws) (usualArith A i32)
    simp only [nest] at hmx
    simp only [powerGoWith, binWith_nest_int layer ws m hm .mul rfl, cBin_mul_zero, Res.map, Res.bind_ok, hmx,
      binWith_nest_int layer ws m hm .div rfl]
    cases hd : cBin .div (usualArith A i32, (usualArith A i32).max) (i32, (ρ : Int)) with
    | ok bound =>
      simp only [hd] at h
      have hc := cmp_nest (layer :: ws) (m+1) (by simpa using hm) .le A bound.1 a bound.2
      simp only [nest] at hc
      have hc' : cmpWith (ops m) .le (layer.wrap (nest ws A), a) (layer.wrap (nest ws bound.1), bound.2)
          = .ok (cCmp .le (A, a) bound) := hc
      simp only [Res.bind_ok, hc']
      cases hle : cCmp .le (A, a) bound with
      | true =>
        simp only [hle, ite_true] at h
        cases hc2 : cBin .mul (A, a) (i32, (ρ : Int)) with
        | ok v =>
          simp only [hc2] at h
          simp only [Res.bind_ok]
          exact ih v.1 v.2 p h
        | _ => simp [hc2] at h
      | false => simp [hle] at h
    | _ => simp [hd] at h

/-- radix 2: `decltype(s >> constant<digits-1>){1} << constant<k>` -/
theorem cBin_shl_one (T : IntTy) (k : Nat) (hk : k < (promote T).digits) :
    cBin .shl (promote T, 1) (i32, (k : Int)) = .ok (promote T, 2^k) := by
  have hP := promote_bits_pos T
  have hdb := Elastic.digits_le_bits (promote T)
  have hin : (promote T).InRange (2^k) := pow_inRange hk
  have hc : ¬ ((k : Int) < 0 ∨ (k : Int) ≥ ((promote T).bits : Int)) := by omega
  simp only [cBin, Cnl.Rounding.promote_promote, hc, ite_false, Int.one_mul, Int.toNat_natCast, IntTy.wrap_id hP hin]

theorem powerValueWith_nest (layer : Layer) (hl : layer.isSc = false) (ws : List Layer) (hw : Wrappers ws)
    (m : Nat) (hm : ws.length ≤ m) (T : IntTy) (k ρ : Nat) (p : TV) (hp : powerValueInt T k ρ = .ok p) :
    powerValueWith (ops m) (layer.wrap (nest ws T)) k ρ = .ok (layer.wrap (nest ws p.1), p.2) := by
  unfold powerValueWith
  unfold powerValueInt at hp
  by_cases hk : k = 0
  · simp only [hk, ite_true, Res.ok.injEq] at hp ⊢
    subst hp; rfl
  · simp only [hk, ite_false] at hp ⊢
    by_cases h2 : ρ = 2
    · simp only [h2, ite_true] at hp ⊢
      by_cases hd : k < (promote T).digits
      · simp only [hd, ite_true, Res.ok.injEq] at hp
        subst hp
        rw [shiftTyWith_wrap _ _ hl, shlConstTy_nest ws hw m hm, shiftWith_wrap]
        have hsh := shift_nest ws m hm .shl rfl [] (Nat.zero_le _) (promote T) i32 1 (k : Int)
        simp only [nest] at hsh
        simp only [innermost]
        rw [hsh, cBin_shl_one T k hd]
        rfl
      · simp [hd] at hp
    · simp only [h2, ite_false] at hp ⊢
      exact powerGo_nest layer ws m hm ρ k T 1 p hp

/-! ## `scale` -/

theorem cBin_not_ill (op : BinOp) (x y : TV) (msg : String) : cBin op x y ≠ .ill msg := by
  unfold cBin arith
  cases op <;> simp only <;> (repeat' split) <;> simp

theorem illOr_of_not_ill {α β : Type} (r : Res α) (d : Res β) (h : ∀ m, r ≠ .ill m) : illOr r d = d := by
  cases r <;> first | rfl | exact absurd rfl (h _)

/-- … and when the type named is ill-formed exactly when the value is -/
theorem illOr_map {α β γ : Type} (r : Res α) (f : α → β) (g : α → γ) : illOr (r.map f) (r.map g) = r.map g := by
  cases r <;> rfl

theorem ops_scale_int (n : Nat) (k : Int) (ρ : Nat) (T : IntTy) (v : Int) :
    (ops n).scale k ρ (.int T, v) = (scaleInt k ρ (T, v)).map (fun v => (.int v.1, v.2)) := by
  cases n <;> rfl

theorem ops_succ_scale_wrap (m : Nat) (layer : Layer) (a : Ty) (k : Int) (ρ : Nat) (v : Int) :
    (ops (m+1)).scale k ρ (layer.wrap a, v) = scaleWith (ops m) k ρ (layer.wrap a, v) := by
  cases layer <;> rfl

/-- `default_scale` of a wrapper nest is `scale` of the innermost integer -/
theorem defaultScaleWith_nest (layer : Layer) (hl : layer.isSc = false) (ws : List Layer) (hw : Wrappers ws)
    (m : Nat) (hm : ws.length ≤ m) (T : IntTy) (k : Int) (ρ : Nat) (v : Int) (h : PowWF T k ρ) :
    defaultScaleWith (ops m) k ρ (layer.wrap (nest ws T), v)
      = (scaleInt k ρ (T, v)).map (fun v => (layer.wrap (nest ws v.1), v.2)) := by
  obtain ⟨p, hp⟩ := (isOk_iff _).1 h
  unfold defaultScaleWith scaleInt
  by_cases hk : k ≥ 0
  · have e : k.toNat = k.natAbs := by omega
    simp only [hk, ite_true, e, hp, powerValueWith_nest layer hl ws hw m hm T _ ρ p hp, Res.bind_ok]
    exact binWith_nest layer ws m hm .mul rfl T p.1 v p.2
  · have e : (-k).toNat = k.natAbs := by omega
    have hc := cmp_nest_int (layer :: ws) (m+1) (by simpa using hm) .gt p.1 i32 p.2 0
    simp only [nest] at hc
    have hc' : cmpWith (ops m) .gt (layer.wrap (nest ws p.1), p.2) (.int i32, 0) = .ok (cCmp .gt p (i32, 0)) := hc
    simp only [hk, ite_false, e, hp, powerValueWith_nest layer hl ws hw m hm T _ ρ p hp, Res.bind_ok, hc']
    cases hg : cCmp .gt p (i32, 0) with
    | true => simp only [ite_true]; exact binWith_nest layer ws m hm .div rfl T p.1 v p.2
    | false => rfl

/-- **`scale<k, ρ>` of a native wrapper nest** is `scale<k, ρ>` of the innermost integer, re-wrapped:
value, promoted representation type and undefined cases -/
theorem scale_nest (ws : List Layer) (hw : Wrappers ws) : ∀ (n : Nat), ws.length ≤ n →
    ∀ (T : IntTy) (k : Int) (ρ : Nat) (v : Int), PowWF T k ρ → ScaleDefined ws k ρ →
    (ops n).scale k ρ (nest ws T, v) = (scaleInt k ρ (T, v)).map (fun v => (nest ws v.1, v.2)) := by
  induction ws with
  | nil => intro n _ T k ρ v _ _; exact ops_scale_int n k ρ T v
  | cons layer ws ih =>
    intro n hn T k ρ v h hd
    cases n with
    | zero => simp at hn
    | succ m =>
      have hm : ws.length ≤ m := by simpa using hn
      have hl := hw.head
      have ihv := ih hw.tail m hm T k ρ v h hd.tail
      simp only [nest]
      rw [ops_succ_scale_wrap]
      have hdef := defaultScaleWith_nest layer hl ws hw.tail m hm T k ρ v h
      cases layer with
      | sc radix => simp [Layer.isSc] at hl
      | ov =>
        simp only [Layer.wrap, scaleWith] at hdef ⊢
        rw [ihv, hdef]
        exact illOr_map _ _ _
      | rd =>
        simp only [Layer.wrap, scaleWith] at hdef ⊢
        by_cases hk : k ≥ 0
        · simp only [hk, ite_true, ihv, map_map]
        · have h2 : ρ = 2 := by
            rcases hd with hd | hd | hd
            · exact absurd hd hk
            · exact hd
            · exact absurd (List.mem_cons_self) hd
          simp only [hk, ite_false, h2, ite_true]
          rw [h2] at hdef
          exact hdef

/-! ## scaled_integer over a wrapper nest: every exponent-changing operation is the one over the bare integer -/

/-- `scaled_integer<nest ws T, power<e, ρ>>` with representation value `v` -/
abbrev scn (ws : List Layer) (T : IntTy) (e : Int) (ρ : Nat) (v : Int) : Num := (.sc (nest ws T) e ρ, v)

/-- a scaled number over a bare integer put into the nest `ws` -/
def renest (ws : List Layer) (x : Num) : Num :=
  match x.1 with
  | .sc (.int t) e ρ => (.sc (nest ws t) e ρ, x.2)
  | _ => x

theorem renest_sc (ws : List Layer) (T : IntTy) (e : Int) (ρ : Nat) (v : Int) :
    renest ws (sc T e ρ v) = scn ws T e ρ v := rfl

theorem map_bind {α β γ : Type} (x : Res α) (f : α → β) (g : β → Res γ) :
    (x.map f >>= g) = x >>= fun a => g (f a) := by
  cases x <;> rfl

theorem bind_map {α β γ : Type} (x : Res α) (f : α → Res β) (g : β → γ) :
    (x >>= f).map g = x >>= fun a => (f a).map g := by
  cases x <;> rfl

/-- how the wrapper dispatch unfolds for two scaled numbers over the same nest -/
theorem bin_scn_unfold (ws : List Layer) (op : BinOp) (hs : isShift op = false) (L R : IntTy) (eL eR : Int) (ρ : Nat)
    (l r : Int) :
    Layered.bin op (scn ws L eL ρ l) (scn ws R eR ρ r)
      = (Scaled.binOp (ops ws.length) op ρ ⟨(nest ws L, l), eL⟩ ⟨(nest ws R, r), eR⟩).map (wrapSc ρ) := by
  have hlev : level (scn ws L eL ρ l) (scn ws R eR ρ r) = ws.length + 1 := by
    simp [level, Ty.depth, depth_nest]
  have hd : (scn ws L eL ρ l).1.depth = (scn ws R eR ρ r).1.depth := by simp [Ty.depth, depth_nest]
  unfold Layered.bin
  rw [hlev, ops_succ_bin _ op hs]
  simp only [binWith, balance_same _ _ hd, binHeads, ite_true]

theorem cmp_scn_unfold (ws : List Layer) (op : CmpOp) (L R : IntTy) (eL eR : Int) (ρ : Nat) (l r : Int) :
    Layered.cmp op (scn ws L eL ρ l) (scn ws R eR ρ r)
      = Scaled.cmp (ops ws.length) op ρ ⟨(nest ws L, l), eL⟩ ⟨(nest ws R, r), eR⟩ := by
  have hlev : level (scn ws L eL ρ l) (scn ws R eR ρ r) = ws.length + 1 := by
    simp [level, Ty.depth, depth_nest]
  have hd : (scn ws L eL ρ l).1.depth = (scn ws R eR ρ r).1.depth := by simp [Ty.depth, depth_nest]
  unfold Layered.cmp
  rw [hlev]
  show cmpWith (ops ws.length) op _ _ = _
  simp only [cmpWith, balance_same _ _ hd, cmpHeads, ite_true]

theorem cast_scn_unfold (ws : List Layer) (D S : IntTy) (eD eS : Int) (ρ : Nat) (v : Int) :
    Layered.cast (.sc (nest ws D) eD ρ) (scn ws S eS ρ v)
      = (Scaled.convert (ops ws.length) ρ ⟨(nest ws S, v), eS⟩ (nest ws D) eD).map (wrapSc ρ) := by
  have hlev : max (Ty.sc (nest ws D) eD ρ).depth (scn ws S eS ρ v).1.depth = ws.length + 1 := by
    simp [Ty.depth, depth_nest]
  unfold Layered.cast
  rw [hlev, show (ops (ws.length + 1)).cast = castWith (ops ws.length) from rfl]
  simp only [castWith, ite_true]

/-- the representation value of a conversion from exponent `eS` to `eD` over bare integers -/
def cvtVal (D S : IntTy) (eD eS : Int) (ρ : Nat) (v : Int) : Res Int :=
  if eS = eD then .ok (D.wrap v) else scaleInt (eS - eD) ρ (S, v) >>= fun a => .ok (D.wrap a.2)

/-- conversion between scaled numbers over the same nest (any depth, `[]` = bare integers) -/
theorem convert_nest (ws : List Layer) (hw : Wrappers ws) (m : Nat) (hm : ws.length ≤ m) (D S : IntTy) (eD eS : Int)
    (ρ : Nat) (v : Int) (hwf : eS ≠ eD → PowWF S (eS - eD) ρ ∧ ScaleDefined ws (eS - eD) ρ) :
    Scaled.convert (ops m) ρ ⟨(nest ws S, v), eS⟩ (nest ws D) eD
      = (cvtVal D S eD eS ρ v).map (fun w => ⟨(nest ws D, w), eD⟩) := by
  unfold Scaled.convert cvtVal
  by_cases he : eS = eD
  · simp only [he, ite_true, cast_nest ws m hm]; rfl
  · obtain ⟨h1, h2⟩ := hwf he
    simp only [he, ite_false, scale_nest ws hw m hm S _ ρ v h1 h2, map_bind, cast_nest ws m hm]
    cases scaleInt (eS - eD) ρ (S, v) <;> rfl

/-- arithmetic between scaled numbers over the same nest, as an explicit expression over bare integers -/
def binVal (op : BinOp) (L R : IntTy) (eL eR : Int) (ρ : Nat) (l r : Int) : Res (TV × Int) :=
  if eL = eR ∨ Scaled.isZeroDegree op = false then
    (cBin op (L, l) (R, r)).map (fun v => (v, Scaled.resultExp op eL eR))
  else
    scaleInt (eL - min eL eR) ρ (L, l) >>= fun a =>
    scaleInt (eR - min eL eR) ρ (R, r) >>= fun b =>
    (cBin op a b).map (fun v => (v, min eL eR))

theorem min_sub_nonneg_left (a b : Int) : 0 ≤ a - min a b := by omega
theorem min_sub_nonneg_right (a b : Int) : 0 ≤ b - min a b := by omega

theorem binOp_nest (ws : List Layer) (hw : Wrappers ws) (m : Nat) (hm : ws.length ≤ m) (op : BinOp)
    (hs : isShift op = false) (L R : IntTy) (eL eR : Int) (ρ : Nat) (l r : Int)
    (hwf : Scaled.isZeroDegree op = true → eL ≠ eR → PowWF L (eL - min eL eR) ρ ∧ PowWF R (eR - min eL eR) ρ) :
    Scaled.binOp (ops m) op ρ ⟨(nest ws L, l), eL⟩ ⟨(nest ws R, r), eR⟩
      = (binVal op L R eL eR ρ l r).map (fun x => ⟨(nest ws x.1.1, x.1.2), x.2⟩) := by
  unfold Scaled.binOp binVal
  by_cases hd : eL = eR ∨ Scaled.isZeroDegree op = false
  · have hd' : eL = eR ∨ (!Scaled.isZeroDegree op) = true := by
      rcases hd with h | h
      · exact Or.inl h
      · right; simp [h]
    simp only [hd, hd', ite_true, bin_nest ws m hm op hs]
    cases cBin op (L, l) (R, r) <;> rfl
  · have hd' : ¬ (eL = eR ∨ (!Scaled.isZeroDegree op) = true) := by
      intro h; apply hd
      rcases h with h | h
      · exact Or.inl h
      · right; simpa using h
    have hz : Scaled.isZeroDegree op = true := by
      cases hzz : Scaled.isZeroDegree op
      · exact absurd (Or.inr hzz) hd
      · rfl
    have hne : eL ≠ eR := fun h => hd (Or.inl h)
    obtain ⟨hL, hR⟩ := hwf hz hne
    simp only [hd, hd', ite_false,
      scale_nest ws hw m hm L _ ρ l hL (Or.inl (min_sub_nonneg_left eL eR)),
      scale_nest ws hw m hm R _ ρ r hR (Or.inl (min_sub_nonneg_right eL eR)), map_bind, bin_nest ws m hm op hs]
    cases scaleInt (eL - min eL eR) ρ (L, l) <;> try rfl
    cases scaleInt (eR - min eL eR) ρ (R, r) <;> try rfl
    rename_i a b
    obtain ⟨aT, av⟩ := a; obtain ⟨bT, bv⟩ := b
    simp only [Res.bind_ok]
    cases cBin op (aT, av) (bT, bv) <;> rfl

/-- comparison of scaled numbers over the same nest, as an explicit expression over bare integers -/
def cmpVal (op : CmpOp) (L R : IntTy) (eL eR : Int) (ρ : Nat) (l r : Int) : Res Bool :=
  if eL = eR then .ok (cCmp op (L, l) (R, r))
  else if eL < eR then cvtVal (promote R) R eL eR ρ r >>= fun w => .ok (cCmp op (L, l) (promote R, w))
  else cvtVal (promote L) L eR eL ρ l >>= fun w => .ok (cCmp op (promote L, w) (R, r))

theorem cmp_nest_exp (ws : List Layer) (hw : Wrappers ws) (m : Nat) (hm : ws.length ≤ m) (op : CmpOp)
    (L R : IntTy) (eL eR : Int) (ρ : Nat) (l r : Int)
    (hR : eL < eR → PowWF R (eR - eL) ρ) (hL : eR < eL → PowWF L (eL - eR) ρ) :
    Scaled.cmp (ops m) op ρ ⟨(nest ws L, l), eL⟩ ⟨(nest ws R, r), eR⟩ = cmpVal op L R eL eR ρ l r := by
  unfold Scaled.cmp cmpVal
  by_cases he : eL = eR
  · simp only [he, ite_true, cmp_nest ws m hm]
  · simp only [he, ite_false]
    by_cases hlt : eL < eR
    · simp only [hlt, ite_true, shlConstTy_nest ws hw m hm]
      rw [convert_nest ws hw m hm (promote R) R eL eR ρ r (fun _ => ⟨hR hlt, Or.inl (by omega)⟩), map_bind]
      simp only [cmp_nest ws m hm]
    · have hgt : eR < eL := by omega
      simp only [hlt, ite_false, shlConstTy_nest ws hw m hm]
      rw [convert_nest ws hw m hm (promote L) L eR eL ρ l (fun _ => ⟨hL hgt, Or.inl (by omega)⟩), map_bind]
      simp only [cmp_nest ws m hm]

theorem wrappers_nil : Wrappers [] := fun _ h => by cases h

/-! ### the statements: nest = bare, re-wrapped -/

/-- binary `+ - * / % & | ^` between scaled numbers over the same nest, any exponents -/
theorem bin_scn (ws : List Layer) (hw : Wrappers ws) (op : BinOp) (hs : isShift op = false)
    (L R : IntTy) (eL eR : Int) (ρ : Nat) (l r : Int)
    (hwf : Scaled.isZeroDegree op = true → eL ≠ eR → PowWF L (eL - min eL eR) ρ ∧ PowWF R (eR - min eL eR) ρ) :
    Layered.bin op (scn ws L eL ρ l) (scn ws R eR ρ r)
      = (Layered.bin op (sc L eL ρ l) (sc R eR ρ r)).map (renest ws) := by
  have hb := bin_scn_unfold [] op hs L R eL eR ρ l r
  simp only [scn, nest] at hb
  rw [bin_scn_unfold ws op hs, hb, binOp_nest ws hw _ (Nat.le_refl _) op hs L R eL eR ρ l r hwf]
  have h0 := binOp_nest [] wrappers_nil 0 (Nat.le_refl _) op hs L R eL eR ρ l r hwf
  simp only [nest] at h0
  rw [show ops [].length = ops 0 from rfl, h0]
  cases binVal op L R eL eR ρ l r <;> rfl

/-- the six comparisons between scaled numbers over the same nest, any exponents -/
theorem cmp_scn (ws : List Layer) (hw : Wrappers ws) (op : CmpOp) (L R : IntTy) (eL eR : Int) (ρ : Nat) (l r : Int)
    (hR : eL < eR → PowWF R (eR - eL) ρ) (hL : eR < eL → PowWF L (eL - eR) ρ) :
    Layered.cmp op (scn ws L eL ρ l) (scn ws R eR ρ r) = Layered.cmp op (sc L eL ρ l) (sc R eR ρ r) := by
  have hb := cmp_scn_unfold [] op L R eL eR ρ l r
  simp only [scn, nest] at hb
  rw [cmp_scn_unfold ws op, hb, cmp_nest_exp ws hw _ (Nat.le_refl _) op L R eL eR ρ l r hR hL]
  have h0 := cmp_nest_exp [] wrappers_nil 0 (Nat.le_refl _) op L R eL eR ρ l r hR hL
  simp only [nest] at h0
  rw [show ops [].length = ops 0 from rfl, h0]

/-- conversion between scaled numbers over the same nest, any exponents -/
theorem cast_scn (ws : List Layer) (hw : Wrappers ws) (D S : IntTy) (eD eS : Int) (ρ : Nat) (v : Int)
    (hwf : eS ≠ eD → PowWF S (eS - eD) ρ ∧ ScaleDefined ws (eS - eD) ρ) :
    Layered.cast (.sc (nest ws D) eD ρ) (scn ws S eS ρ v)
      = (Layered.cast (.sc (.int D) eD ρ) (sc S eS ρ v)).map (renest ws) := by
  have hb := cast_scn_unfold [] D S eD eS ρ v
  simp only [scn, nest] at hb
  rw [cast_scn_unfold ws, hb, convert_nest ws hw _ (Nat.le_refl _) D S eD eS ρ v hwf]
  have h0 := convert_nest [] wrappers_nil 0 (Nat.le_refl _) D S eD eS ρ v
    (fun h => ⟨(hwf h).1, Or.inr (Or.inr (by simp))⟩)
  simp only [nest] at h0
  rw [show ops [].length = ops 0 from rfl, h0]
  cases cvtVal D S eD eS ρ v <;> rfl

/-! ### compound assignment: the type of the intermediate result -/

theorem cBin_ty (op : BinOp) (hs : isShift op = false) (x y v : TV) (h : cBin op x y = .ok v) :
    v.1 = usualArith x.1 y.1 := by
  unfold cBin arith at h
  cases op <;> first | exact absurd hs (by decide) | skip
  all_goals (simp only at h; (repeat' split at h) <;> first | (cases h; rfl) | cases h)

theorem go_ty (ρ : Nat) : ∀ (n : Nat) (A : IntTy) (a : Int) (p : TV), powerValueInt.go ρ n (A, a) = .ok p →
    p.1 = A ∨ p.1 = promote A := by
  intro n
  induction n with
  | zero =>
    intro A a p h
    simp only [powerValueInt.go, Res.ok.injEq] at h
    subst h; exact Or.inl rfl
  | succ n ih =>
    intro A a p h
    simp only [powerValueInt.go] at h
    cases hd : cBin .div (usualArith A i32, (usualArith A i32).max) (i32, (ρ : Int)) with
    | ok bound =>
      simp only [hd] at h
      cases hle : cCmp .le (A, a) bound with
      | true =>
        simp only [hle, ite_true] at h
        cases hc : cBin .mul (A, a) (i32, (ρ : Int)) with
        | ok v =>
          simp only [hc] at h
          have hv : v.1 = promote A := by rw [cBin_ty .mul rfl _ _ _ hc]; exact Cnl.Rounding.usualArith_i32 A
          rcases ih v.1 v.2 p h with h1 | h1
          · exact Or.inr (by rw [h1, hv])
          · exact Or.inr (by rw [h1, hv, Cnl.Rounding.promote_promote])
        | _ => simp [hc] at h
      | false => simp [hle] at h
    | _ => simp [hd] at h

theorem powerValueInt_ty (S : IntTy) (k ρ : Nat) (p : TV) (h : powerValueInt S k ρ = .ok p) :
    p.1 = S ∨ p.1 = promote S := by
  unfold powerValueInt at h
  by_cases hk : k = 0
  · simp only [hk, ite_true, Res.ok.injEq] at h
    subst h; exact Or.inl rfl
  · simp only [hk, ite_false] at h
    by_cases h2 : ρ = 2
    · simp only [h2, ite_true] at h
      split at h
      · simp only [Res.ok.injEq] at h; subst h; exact Or.inr rfl
      · cases h
    · simp only [h2, ite_false] at h
      exact go_ty ρ k S 1 p h

/-- a scaled representation has the promoted type -/
theorem scaleInt_ty (k : Int) (ρ : Nat) (T : IntTy) (v : Int) (a : TV) (h : scaleInt k ρ (T, v) = .ok a) :
    a.1 = promote T := by
  unfold scaleInt at h
  have key : ∀ (n : Nat) (op : BinOp), isShift op = false →
      (powerValueInt T n ρ >>= fun p => cBin op (T, v) p) = .ok a → a.1 = promote T := by
    intro n op hs h
    cases hp : powerValueInt T n ρ with
    | ok p =>
      rw [hp] at h
      simp only [Res.bind_ok] at h
      rw [cBin_ty op hs _ _ _ h]
      rcases powerValueInt_ty T n ρ p hp with h1 | h1
      · show usualArith T p.1 = _
        rw [h1]; exact Cnl.usualArith_self T
      · show usualArith T p.1 = _
        rw [h1]; exact ScaledP.usualArith_self_promote T
    | _ => rw [hp] at h; cases h
  by_cases hk : k ≥ 0
  · simp only [hk, ite_true] at h; exact key _ .mul rfl h
  · simp only [hk, ite_false] at h
    apply key (-k).toNat .div rfl
    cases hp : powerValueInt T (-k).toNat ρ with
    | ok p =>
      rw [hp] at h
      simp only [Res.bind_ok] at h ⊢
      split at h
      · exact h
      · cases h
    | _ => rw [hp] at h; cases h

theorem resultExp_zeroDegree (op : BinOp) (h : Scaled.isZeroDegree op = true) (eL eR : Int) :
    Scaled.resultExp op eL eR = min eL eR := by
  cases op <;> simp [Scaled.isZeroDegree] at h <;> rfl

/-- type and exponent of `a op b` over bare integers: the common type and the documented exponent -/
theorem binVal_shape (op : BinOp) (hs : isShift op = false) (L R : IntTy) (eL eR : Int) (ρ : Nat) (l r : Int)
    (x : TV × Int) (h : binVal op L R eL eR ρ l r = .ok x) :
    x.1.1 = usualArith L R ∧ x.2 = Scaled.resultExp op eL eR := by
  unfold binVal at h
  by_cases hd : eL = eR ∨ Scaled.isZeroDegree op = false
  · simp only [hd, ite_true] at h
    cases hc : cBin op (L, l) (R, r) with
    | ok v =>
      rw [hc] at h
      simp only [Res.map, Res.bind_ok, Res.ok.injEq] at h
      subst h
      exact ⟨cBin_ty op hs _ _ _ hc, rfl⟩
    | _ => rw [hc] at h; cases h
  · have hz : Scaled.isZeroDegree op = true := by
      cases hzz : Scaled.isZeroDegree op
      · exact absurd (Or.inr hzz) hd
      · rfl
    simp only [hd, ite_false] at h
    cases ha : scaleInt (eL - min eL eR) ρ (L, l) with
    | ok a =>
      cases hb : scaleInt (eR - min eL eR) ρ (R, r) with
      | ok b =>
        rw [ha, hb] at h
        simp only [Res.bind_ok] at h
        cases hc : cBin op a b with
        | ok v =>
          rw [hc] at h
          simp only [Res.map, Res.bind_ok, Res.ok.injEq] at h
          subst h
          refine ⟨?_, (resultExp_zeroDegree op hz eL eR).symm⟩
          rw [cBin_ty op hs _ _ _ hc, scaleInt_ty _ _ _ _ _ ha, scaleInt_ty _ _ _ _ _ hb]
          exact ScaledP.usualArith_promote L R
        | _ => rw [hc] at h; cases h
      | _ => rw [ha, hb] at h; cases h
    | _ => rw [ha] at h; cases h

theorem bin_sc_binVal (op : BinOp) (hs : isShift op = false) (L R : IntTy) (eL eR : Int) (ρ : Nat) (l r : Int) :
    Layered.bin op (sc L eL ρ l) (sc R eR ρ r)
      = (binVal op L R eL eR ρ l r).map (fun x => sc x.1.1 x.2 ρ x.1.2) := by
  have hb := bin_scn_unfold [] op hs L R eL eR ρ l r
  simp only [scn, nest] at hb
  have h0 := binOp_nest [] wrappers_nil 0 (Nat.le_refl _) op hs L R eL eR ρ l r
  rw [hb, show ops [].length = ops 0 from rfl]
  unfold Scaled.binOp binVal
  by_cases hd : eL = eR ∨ Scaled.isZeroDegree op = false
  · have hd' : eL = eR ∨ (!Scaled.isZeroDegree op) = true := by
      rcases hd with h | h
      · exact Or.inl h
      · right; simp [h]
    simp only [hd, hd', ite_true, ops_bin_int]
    cases cBin op (L, l) (R, r) <;> rfl
  · have hd' : ¬ (eL = eR ∨ (!Scaled.isZeroDegree op) = true) := by
      intro h; apply hd
      rcases h with h | h
      · exact Or.inl h
      · right; simpa using h
    simp only [hd, hd', ite_false, ops_scale_int, map_bind, ops_bin_int]
    cases scaleInt (eL - min eL eR) ρ (L, l) <;> try rfl
    cases scaleInt (eR - min eL eR) ρ (R, r) <;> try rfl
    rename_i a b
    obtain ⟨aT, av⟩ := a; obtain ⟨bT, bv⟩ := b
    simp only [Res.bind_ok]
    cases cBin op (aT, av) (bT, bv) <;> rfl

/-- compound assignment `a op= b` between scaled numbers over the same nest, any exponents:
`a = static_cast<A>(a op b)`, where the conversion rescales the intermediate result (of the common type
`usualArith L R`, at the exponent `resultExp op eL eR`) back to `a`'s exponent -/
theorem compound_scn (ws : List Layer) (hw : Wrappers ws) (op : BinOp) (hs : isShift op = false)
    (L R : IntTy) (eL eR : Int) (ρ : Nat) (l r : Int)
    (hwf : Scaled.isZeroDegree op = true → eL ≠ eR → PowWF L (eL - min eL eR) ρ ∧ PowWF R (eR - min eL eR) ρ)
    (hc : Scaled.resultExp op eL eR ≠ eL →
      PowWF (usualArith L R) (Scaled.resultExp op eL eR - eL) ρ ∧ ScaleDefined ws (Scaled.resultExp op eL eR - eL) ρ) :
    Layered.compound op (scn ws L eL ρ l) (scn ws R eR ρ r)
      = (Layered.compound op (sc L eL ρ l) (sc R eR ρ r)).map (renest ws) := by
  unfold Layered.compound
  rw [bin_scn ws hw op hs L R eL eR ρ l r hwf, bin_sc_binVal op hs]
  cases hv : binVal op L R eL eR ρ l r with
  | ok x =>
    obtain ⟨⟨T, w⟩, e⟩ := x
    obtain ⟨h1, h2⟩ := binVal_shape op hs L R eL eR ρ l r _ hv
    simp only at h1 h2
    subst h1; subst h2
    exact cast_scn ws hw L (usualArith L R) eL (Scaled.resultExp op eL eR) ρ w hc
  | _ => rfl

end Cnl.Native
