import CnlSpec.MakeFraction
/-!
# Helper lemmas for C17 (`make_fraction` from floating point)

* fuel monotonicity: once the model returns anything but `diverges`, more fuel returns the same;
  hence the outcome of a terminating evaluation does not depend on the fuel (`makeFraction_unique`);
* every returning branch that tests equality returns a fraction that converts back to the input;
* the determinant invariant of the search and what follows from it (lowest terms).
-/
namespace Cnl.MakeFraction
open Cnl

/-! ## fuel -/

theorem mfLoop_succ (F : Fmt) (I : IntTy) (d : FVal) :
    ∀ (n : Nat) (s : MFState) (r : Res (Frac × Exit)),
      mfLoop F I d n s = r → r ≠ .diverges → mfLoop F I d (n + 1) s = r := by
  intro n
  induction n with
  | zero => intro s r h hr; simp [mfLoop] at h; exact absurd h.symm hr
  | succ n ih =>
    intro s r h hr
    rw [mfLoop] at h
    rw [mfLoop]
    cases hs : mfStep F I d s with
    | ok st =>
      cases st with
      | cont s' => simp only [hs] at h; exact ih s' r h hr
      | ret f e => simp only [hs] at h; exact h
    | ub k => simp only [hs] at h; exact h
    | trap p => simp only [hs] at h; exact h
    | throws p => simp only [hs] at h; exact h
    | unreachable m => simp only [hs] at h; exact h
    | oob i => simp only [hs] at h; exact h
    | diverges => simp only [hs] at h; exact h
    | ill m => simp only [hs] at h; exact h

theorem mfLoop_mono (F : Fmt) (I : IntTy) (d : FVal) (n : Nat) (s : MFState) (r : Res (Frac × Exit))
    (h : mfLoop F I d n s = r) (hr : r ≠ .diverges) : ∀ k, mfLoop F I d (n + k) s = r := by
  intro k
  induction k with
  | zero => exact h
  | succ k ih => exact mfLoop_succ F I d (n + k) s r ih hr

theorem mfPos_mono (F : Fmt) (I : IntTy) (d : FVal) (n : Nat) (r : Res (Frac × Exit))
    (h : mfPos F I d n = r) (hr : r ≠ .diverges) (k : Nat) : mfPos F I d (n + k) = r := by
  unfold mfPos at h ⊢
  cases hi : mfInit F I d with
  | ok st =>
    cases st with
    | cont s =>
      simp only [hi, bind, Res.bind] at h ⊢
      exact mfLoop_mono F I d n s r h hr k
    | ret f e => simp only [hi, bind, Res.bind] at h ⊢; exact h
  | ub k' => simp only [hi, bind, Res.bind] at h ⊢; exact h
  | trap p => simp only [hi, bind, Res.bind] at h ⊢; exact h
  | throws p => simp only [hi, bind, Res.bind] at h ⊢; exact h
  | unreachable m => simp only [hi, bind, Res.bind] at h ⊢; exact h
  | oob i => simp only [hi, bind, Res.bind] at h ⊢; exact h
  | diverges => simp only [hi, bind, Res.bind] at h ⊢; exact h
  | ill m => simp only [hi, bind, Res.bind] at h ⊢; exact h

/-- binding a continuation that never diverges preserves "not diverges ⇒ same with more fuel" -/
theorem bind_ne_diverges {α β : Type} (x : Res α) (f : α → Res β) (h : (x >>= f) ≠ .diverges) : x ≠ .diverges := by
  intro hx; apply h; rw [hx]; rfl

theorem makeFractionX_mono (F : Fmt) (I : IntTy) (d : FVal) (n : Nat) (r : Res (Frac × Exit))
    (h : makeFractionX F I d n = r) (hr : r ≠ .diverges) (k : Nat) : makeFractionX F I d (n + k) = r := by
  unfold makeFractionX at h ⊢
  by_cases hneg : fCmp .lt d F.zero = true
  · simp only [hneg, if_true] at h ⊢
    have hp : mfPos F I d.neg n ≠ .diverges := by
      apply bind_ne_diverges _ _
      rw [h]; exact hr
    rw [mfPos_mono F I d.neg n _ rfl hp k]
    exact h
  · simp only [hneg] at h ⊢
    exact mfPos_mono F I d n r h hr k

theorem makeFraction_mono (F : Fmt) (I : IntTy) (d : FVal) (n : Nat) (r : Res Frac)
    (h : makeFraction F I d n = r) (hr : r ≠ .diverges) (k : Nat) : makeFraction F I d (n + k) = r := by
  unfold makeFraction at h ⊢
  have hx : makeFractionX F I d n ≠ .diverges := by
    intro hx
    apply hr
    rw [← h, hx]
    rfl
  rw [makeFractionX_mono F I d n _ rfl hx k]
  exact h

/-- the outcome of a terminating evaluation does not depend on the fuel -/
theorem makeFraction_unique (F : Fmt) (I : IntTy) (d : FVal) (n m : Nat) (r r' : Res Frac)
    (h : makeFraction F I d n = r) (hr : r ≠ .diverges)
    (h' : makeFraction F I d m = r') (hr' : r' ≠ .diverges) : r = r' := by
  have a := makeFraction_mono F I d n r h hr m
  have b := makeFraction_mono F I d m r' h' hr' n
  rw [Nat.add_comm] at b
  rw [a] at b
  exact b


/-! ## returning branches -/

/-- `fn` returns `true` either through the zero-jump exit or after `static_cast<FP>(f) == d` held -/
theorem fnStep_exit (F : Fmt) (I : IntTy) (d : FVal) (mid : Frac) (fars : Int) (f n f' : Frac) (e : Exit)
    (h : fnStep F I d mid fars f n = .ok (f', some e)) :
    (e = .zeroJump ∧ f' = f) ∨ (e = .jumpEq ∧ fCmp .eq (fracToF F f') d = true) := by
  unfold fnStep at h
  by_cases hf : fars < 3
  · simp [hf, pure] at h
  · simp only [hf, if_false] at h
    cases hj : jumpCount F I d f n with
    | ok n2 =>
      simp only [hj, bind, Res.bind] at h
      by_cases hz : n2 = 0
      · simp [hz, pure] at h
        left; exact ⟨h.2.symm, h.1.symm⟩
      · simp only [hz, if_false] at h
        cases ha : advance I f n n2 with
        | ok f'' =>
          simp only [ha, pure] at h
          by_cases heq : fCmp .eq (fracToF F f'') d = true
          · simp [heq] at h
            right; refine ⟨h.2.symm, ?_⟩; rw [← h.1]; exact heq
          · simp [heq] at h
        | _ => simp [ha] at h
    | _ => simp [hj, bind, Res.bind] at h

/-- exits of the prelude test equality -/
theorem mfInit_exit (F : Fmt) (I : IntTy) (d : FVal) (f : Frac) (e : Exit)
    (h : mfInit F I d = .ok (.ret f e)) : (e = .left0 ∨ e = .right0) ∧ fCmp .eq (fracToF F f) d = true := by
  unfold mfInit at h
  by_cases hm : fCmp .le d (F.ofInt I.max) = false
  · simp [hm] at h
  · simp only [hm, if_false] at h
    cases hl : fToInt I d with
    | ok l =>
      simp only [hl, bind, Res.bind] at h
      cases hr : cBin .add (I, l) (i32, 1) with
      | ok r =>
        simp only [hr, pure] at h
        by_cases h1 : fCmp .eq (fracToF F ⟨l, 1⟩) d = true
        · simp [h1] at h
          refine ⟨Or.inl h.2.symm, ?_⟩; rw [← h.1]; exact h1
        · simp only [h1, if_false] at h
          by_cases h2 : fCmp .eq (fracToF F ⟨castI I r, 1⟩) d = true
          · simp [h2] at h
            refine ⟨Or.inr h.2.symm, ?_⟩; rw [← h.1]; exact h2
          · simp [h2] at h
      | _ => simp [hr] at h
    | _ => simp [hl, bind, Res.bind] at h

/-- a value that is neither below nor above an ordered value equals it -/
theorem fCmp_eq_of_not_lt_gt (x d : FVal) (hl : fCmp .lt x d = false) (hg : fCmp .gt x d = false)
    (ho : (x.cmp? d).isSome = true) : fCmp .eq x d = true := by
  unfold fCmp at *
  cases hc : x.cmp? d with
  | none => simp [hc] at ho
  | some o => cases o <;> simp_all

/-- one iteration returns through the zero-jump exit, after an equality test in `fn`, or with the
mediant that is neither below nor above the input -/
theorem mfStep_exit (F : Fmt) (I : IntTy) (d : FVal) (s : MFState) (f : Frac) (e : Exit)
    (h : mfStep F I d s = .ok (.ret f e)) :
    e = .zeroJump ∨ (e = .jumpEq ∧ fCmp .eq (fracToF F f) d = true) ∨
    (e = .mid ∧ ∃ mid, midOf I s.left s.right = .ok mid ∧ f = ⟨I.wrap mid.num, I.wrap mid.den⟩ ∧
        fCmp .lt (fracToF F mid) d = false ∧ fCmp .gt (fracToF F mid) d = false) := by
  unfold mfStep at h
  cases hm : midOf I s.left s.right with
  | ok mid =>
    simp only [hm, bind, Res.bind] at h
    by_cases hlt : fCmp .lt (fracToF F mid) d = true
    · simp only [hlt, if_true] at h
      cases hfn : fnStep F I d mid s.lefts s.left s.right with
      | ok r =>
        obtain ⟨f', oe⟩ := r
        simp only [hfn] at h
        cases oe with
        | none => simp [pure] at h
        | some e' =>
          simp [pure] at h
          rcases fnStep_exit F I d mid s.lefts s.left s.right f' e' hfn with hz | hj
          · left; rw [← h.2]; exact hz.1
          · right; left; rw [← h.2, ← h.1]; exact hj
      | _ => simp [hfn] at h
    · simp only [hlt] at h
      by_cases hgt : fCmp .gt (fracToF F mid) d = true
      · simp only [hgt, if_true] at h
        cases hfn : fnStep F I d mid s.rights s.right s.left with
        | ok r =>
          obtain ⟨f', oe⟩ := r
          simp only [hfn] at h
          cases oe with
          | none => simp [pure] at h
          | some e' =>
            simp [pure] at h
            rcases fnStep_exit F I d mid s.rights s.right s.left f' e' hfn with hz | hj
            · left; rw [← h.2]; exact hz.1
            · right; left; rw [← h.2, ← h.1]; exact hj
        | _ => simp [hfn] at h
      · simp [hgt, pure] at h
        right; right
        refine ⟨h.2.symm, mid, rfl, h.1.symm, ?_, ?_⟩
        · simpa using hlt
        · simpa using hgt
  | _ => simp [hm, bind, Res.bind] at h


/-! ## the determinant invariant (component types of at least 32 bits: no silent wrap) -/

theorem promote_of_ge (I : IntTy) (h : 32 ≤ I.bits) : promote I = I := by
  unfold promote; simp; omega

theorem usualArith_self (I : IntTy) (h : 32 ≤ I.bits) : usualArith I I = I := by
  unfold usualArith; simp [promote_of_ge I h]

theorem two_pow_bits (b : Nat) (h : 1 ≤ b) : (2 : Int) ^ b = 2 * 2 ^ (b - 1) := by
  have : b = (b - 1) + 1 := by omega
  rw [this, Int.pow_succ]; simp; omega

theorem wrap_inRange (I : IntTy) (hs : I.signed = true) (hb : 1 ≤ I.bits) (v : Int) (h : I.InRange v) :
    I.wrap v = v := by
  unfold IntTy.InRange IntTy.lowest IntTy.max at h
  unfold IntTy.wrap
  simp only [hs, if_true] at h ⊢
  rw [two_pow_bits I.bits hb]
  generalize (2 : Int) ^ (I.bits - 1) = P at h ⊢
  rw [Int.emod_eq_of_lt (by omega) (by omega)]
  omega

/-- `static_cast<int_t>(static_cast<uint_t>(v))` is `v` for `v` in range -/
theorem wrap_uwrap (I : IntTy) (hs : I.signed = true) (hb : 1 ≤ I.bits) (v : Int) (h : I.InRange v) :
    I.wrap ((⟨I.bits, false⟩ : IntTy).wrap v) = v := by
  have hw := wrap_inRange I hs hb v h
  unfold IntTy.wrap at hw ⊢
  simp only [hs, if_true] at hw ⊢
  simp only [Bool.false_eq_true, if_false]
  rw [Int.emod_add_emod]
  exact hw

theorem arith_ok (I : IntTy) (hs : I.signed = true) (x : Int) (tv : TV) (h : arith I x = .ok tv) :
    tv = (I, x) ∧ I.InRange x := by
  unfold arith at h
  simp only [hs, if_true] at h
  by_cases hr : I.InRange x
  · simp [hr] at h; exact ⟨h.symm, hr⟩
  · simp [hr] at h

theorem cBin_add_ok (I : IntTy) (hs : I.signed = true) (hb : 32 ≤ I.bits) (a b : Int) (tv : TV)
    (ha : I.InRange a) (hbb : I.InRange b) (h : cBin .add (I, a) (I, b) = .ok tv) :
    tv = (I, a + b) ∧ I.InRange (a + b) := by
  unfold cBin at h
  simp only [usualArith_self I hb, wrap_inRange I hs (by omega) a ha, wrap_inRange I hs (by omega) b hbb] at h
  exact arith_ok I hs _ tv h

theorem cBin_mul_ok (I : IntTy) (hs : I.signed = true) (hb : 32 ≤ I.bits) (a b : Int) (tv : TV)
    (ha : I.InRange a) (hbb : I.InRange b) (h : cBin .mul (I, a) (I, b) = .ok tv) :
    tv = (I, a * b) ∧ I.InRange (a * b) := by
  unfold cBin at h
  simp only [usualArith_self I hb, wrap_inRange I hs (by omega) a ha, wrap_inRange I hs (by omega) b hbb] at h
  exact arith_ok I hs _ tv h

theorem fToInt_inRange (I : IntTy) (x : FVal) (v : Int) (h : fToInt I x = .ok v) : I.InRange v := by
  cases x with
  | fin s m e =>
    simp only [fToInt, intoRange] at h
    by_cases hr : I.InRange (truncInt s m e)
    · simp [hr] at h; rw [← h]; exact hr
    · simp [hr] at h
  | inf s => simp [fToInt] at h
  | nan => simp [fToInt] at h

def Frac.InRange (I : IntTy) (f : Frac) : Prop := I.InRange f.num ∧ I.InRange f.den

/-- `right.num·left.den − left.num·right.den` -/
def det (l r : Frac) : Int := r.num * l.den - l.num * r.den

/-- the jump length is a value of `int_t` -/
theorem jumpCount_inRange (F : Fmt) (I : IntTy) (d : FVal) (f n : Frac) (n2 : Int)
    (h : jumpCount F I d f n = .ok n2) : I.InRange n2 := by
  unfold jumpCount at h
  simp only at h
  split at h
  · simp at h
  · -- n1
    split at h
    · -- clamp on the denominator
      cases hd : cBin .sub (I, I.max) (I, f.den) with
      | ok diff =>
        simp only [hd, bind, Res.bind] at h
        cases h1 : fToInt I (F.div (F.ofInt diff.2) (F.ofInt n.den)) with
        | ok n1 =>
          simp only [h1] at h
          cases hp : cBin .mul (I, n.num) (I, n1) with
          | ok prod =>
            simp only [hp] at h
            split at h
            · cases ha : cBin .sub (I, I.max) (I, f.num) with
              | ok a =>
                simp only [ha] at h
                cases hb : cBin .sub a (I, n.num) with
                | ok b => simp only [hb] at h; exact fToInt_inRange I _ _ h
                | _ => simp [hb] at h
              | _ => simp [ha] at h
            · simp [pure] at h; rw [← h]; exact fToInt_inRange I _ _ h1
          | _ => simp [hp] at h
        | _ => simp [h1] at h
      | _ => simp [hd, bind, Res.bind] at h
    · cases h1 : fToInt I (F.div (F.sub (F.mul d (F.ofInt f.den)) (F.ofInt f.num)) (F.sub (F.ofInt n.num) (F.mul d (F.ofInt n.den)))) with
      | ok n1 =>
        simp only [h1, bind, Res.bind] at h
        cases hp : cBin .mul (I, n.num) (I, n1) with
        | ok prod =>
          simp only [hp] at h
          split at h
          · cases ha : cBin .sub (I, I.max) (I, f.num) with
            | ok a =>
              simp only [ha] at h
              cases hb : cBin .sub a (I, n.num) with
              | ok b => simp only [hb] at h; exact fToInt_inRange I _ _ h
              | _ => simp [hb] at h
            | _ => simp [ha] at h
          · simp [pure] at h; rw [← h]; exact fToInt_inRange I _ _ h1
        | _ => simp [hp] at h
      | _ => simp [h1, bind, Res.bind] at h


theorem castI_inRange (I : IntTy) (hs : I.signed = true) (hb : 1 ≤ I.bits) (v : Int) (h : I.InRange v) :
    castI I (I, v) = v := by
  simp [castI, convert, wrap_inRange I hs hb v h]

/-- `f += n2 * n` is exact (or undefined) for component types of at least 32 bits -/
theorem advance_ok (I : IntTy) (hs : I.signed = true) (hb : 32 ≤ I.bits) (f n f' : Frac) (n2 : Int)
    (hf : f.InRange I) (hn : n.InRange I) (h2 : I.InRange n2) (h : advance I f n n2 = .ok f') :
    f' = ⟨f.num + n2 * n.num, f.den + n2 * n.den⟩ ∧ f'.InRange I := by
  unfold advance at h
  cases h1 : cBin .mul (I, n2) (I, n.num) with
  | ok pn =>
    simp only [h1, bind, Res.bind] at h
    obtain ⟨e1, r1⟩ := cBin_mul_ok I hs hb _ _ pn h2 hn.1 h1
    subst e1
    cases h3 : cBin .add (I, f.num) (I, n2 * n.num) with
    | ok sn =>
      simp only [h3] at h
      obtain ⟨e3, r3⟩ := cBin_add_ok I hs hb _ _ sn hf.1 r1 h3
      subst e3
      cases h4 : cBin .mul (I, n2) (I, n.den) with
      | ok pd =>
        simp only [h4] at h
        obtain ⟨e4, r4⟩ := cBin_mul_ok I hs hb _ _ pd h2 hn.2 h4
        subst e4
        cases h5 : cBin .add (I, f.den) (I, n2 * n.den) with
        | ok sd =>
          simp only [h5, pure] at h
          obtain ⟨e5, r5⟩ := cBin_add_ok I hs hb _ _ sd hf.2 r4 h5
          subst e5
          rw [castI_inRange I hs (by omega) _ r3, castI_inRange I hs (by omega) _ r5] at h
          injection h with h
          subst h
          exact ⟨rfl, r3, r5⟩
        | _ => simp [h5] at h
      | _ => simp [h4] at h
    | _ => simp [h3] at h
  | _ => simp [h1, bind, Res.bind] at h

/-- `int_t(mid)` is the exact mediant (or the step is undefined / fails an assertion) -/
theorem midOf_ok (I : IntTy) (hs : I.signed = true) (hb : 32 ≤ I.bits) (l r mid : Frac)
    (hl : l.InRange I) (hr : r.InRange I) (h : midOf I l r = .ok mid) :
    (⟨I.wrap mid.num, I.wrap mid.den⟩ : Frac) = ⟨l.num + r.num, l.den + r.den⟩ ∧
      I.InRange (l.num + r.num) ∧ I.InRange (l.den + r.den) := by
  unfold midOf at h
  cases h1 : cBin .add (I, l.num) (I, r.num) with
  | ok sn =>
    simp only [h1, bind, Res.bind] at h
    obtain ⟨e1, r1⟩ := cBin_add_ok I hs hb _ _ sn hl.1 hr.1 h1
    subst e1
    cases h2 : cBin .add (I, l.den) (I, r.den) with
    | ok sd =>
      simp only [h2] at h
      obtain ⟨e2, r2⟩ := cBin_add_ok I hs hb _ _ sd hl.2 hr.2 h2
      subst e2
      simp only [convert, wrap_uwrap I hs (by omega) _ r1, wrap_uwrap I hs (by omega) _ r2] at h
      split at h
      · simp at h
      · split at h
        · simp at h
        · simp [pure] at h
          subst h
          simp only
          rw [wrap_uwrap I hs (by omega) _ r1, wrap_uwrap I hs (by omega) _ r2]
          exact ⟨rfl, r1, r2⟩
    | _ => simp [h2] at h
  | _ => simp [h1, bind, Res.bind] at h

/-- when `fn` returns `false`, the far bound has moved by an integer multiple of the near bound -/
theorem fnStep_cont (F : Fmt) (I : IntTy) (hs : I.signed = true) (hb : 32 ≤ I.bits) (d : FVal)
    (mid : Frac) (fars : Int) (f n f' : Frac) (hf : f.InRange I) (hn : n.InRange I)
    (hm : (⟨I.wrap mid.num, I.wrap mid.den⟩ : Frac) = ⟨f.num + n.num, f.den + n.den⟩)
    (hmr : I.InRange (f.num + n.num) ∧ I.InRange (f.den + n.den))
    (h : fnStep F I d mid fars f n = .ok (f', none)) :
    (∃ k : Int, f' = ⟨f.num + k * n.num, f.den + k * n.den⟩) ∧ f'.InRange I := by
  unfold fnStep at h
  by_cases hfa : fars < 3
  · simp [hfa, pure] at h
    rw [hm] at h
    subst h
    exact ⟨⟨1, by simp⟩, hmr⟩
  · simp only [hfa, if_false] at h
    cases hj : jumpCount F I d f n with
    | ok n2 =>
      simp only [hj, bind, Res.bind] at h
      by_cases hz : n2 = 0
      · simp [hz, pure] at h
      · simp only [hz, if_false] at h
        cases ha : advance I f n n2 with
        | ok f'' =>
          simp only [ha, pure] at h
          obtain ⟨e, r⟩ := advance_ok I hs hb f n f'' n2 hf hn (jumpCount_inRange F I d f n n2 hj) ha
          injection h with h
          injection h with h1 h2
          subst h1
          exact ⟨⟨n2, e⟩, r⟩
        | _ => simp [ha] at h
    | _ => simp [hj, bind, Res.bind] at h

/-- the search invariant: components in range and determinant one -/
structure Inv (I : IntTy) (s : MFState) : Prop where
  left : s.left.InRange I
  right : s.right.InRange I
  det : det s.left s.right = 1

/-- **the determinant invariant is preserved by every continuing iteration** whatever the floating-point
operations return (component types of at least 32 bits, where an out-of-range intermediate is
undefined behaviour rather than a silent wrap) -/
theorem mfStep_inv (F : Fmt) (I : IntTy) (hs : I.signed = true) (hb : 32 ≤ I.bits) (d : FVal)
    (s s' : MFState) (hi : Inv I s) (h : mfStep F I d s = .ok (.cont s')) : Inv I s' := by
  unfold mfStep at h
  cases hm : midOf I s.left s.right with
  | ok mid =>
    simp only [hm, bind, Res.bind] at h
    obtain ⟨hmid, hmr1, hmr2⟩ := midOf_ok I hs hb _ _ mid hi.left hi.right hm
    have hd := hi.det
    unfold MakeFraction.det at hd
    by_cases hlt : fCmp .lt (fracToF F mid) d = true
    · simp only [hlt, if_true] at h
      cases hfn : fnStep F I d mid s.lefts s.left s.right with
      | ok r =>
        obtain ⟨f', oe⟩ := r
        simp only [hfn] at h
        cases oe with
        | some e' => simp [pure] at h
        | none =>
          simp [pure] at h
          obtain ⟨⟨k, hk⟩, hr⟩ := fnStep_cont F I hs hb d mid s.lefts s.left s.right f' hi.left hi.right hmid ⟨hmr1, hmr2⟩ hfn
          subst h
          refine ⟨hr, hi.right, ?_⟩
          simp only [MakeFraction.det, hk]
          grind
      | _ => simp [hfn] at h
    · simp only [hlt] at h
      by_cases hgt : fCmp .gt (fracToF F mid) d = true
      · simp only [hgt, if_true] at h
        have hmid' : (⟨I.wrap mid.num, I.wrap mid.den⟩ : Frac) = ⟨s.right.num + s.left.num, s.right.den + s.left.den⟩ := by
          rw [hmid, Int.add_comm s.left.num, Int.add_comm s.left.den]
        have hmr' : I.InRange (s.right.num + s.left.num) ∧ I.InRange (s.right.den + s.left.den) := by
          rw [Int.add_comm s.right.num, Int.add_comm s.right.den]; exact ⟨hmr1, hmr2⟩
        cases hfn : fnStep F I d mid s.rights s.right s.left with
        | ok r =>
          obtain ⟨f', oe⟩ := r
          simp only [hfn] at h
          cases oe with
          | some e' => simp [pure] at h
          | none =>
            simp [pure] at h
            obtain ⟨⟨k, hk⟩, hr⟩ := fnStep_cont F I hs hb d mid s.rights s.right s.left f' hi.right hi.left hmid' hmr' hfn
            subst h
            refine ⟨hi.left, hr, ?_⟩
            simp only [MakeFraction.det, hk]
            grind
        | _ => simp [hfn] at h
      · simp [hgt, pure] at h
  | _ => simp [hm, bind, Res.bind] at h

theorem one_inRange (I : IntTy) (hs : I.signed = true) (hb : 32 ≤ I.bits) : I.InRange 1 := by
  unfold IntTy.InRange IntTy.lowest IntTy.max
  simp only [hs, if_true]
  have h2 := two_pow_bits (I.bits - 1) (by omega)
  have hp : (0 : Int) < 2 ^ (I.bits - 1 - 1) := Int.pow_pos (by omega)
  omega

theorem usualArith_i32 (I : IntTy) (hs : I.signed = true) (hb : 32 ≤ I.bits) : usualArith I i32 = I := by
  have hp : promote I = I := promote_of_ge I hb
  have hp2 : promote i32 = i32 := by decide
  unfold usualArith
  simp only [hp, hp2, hs]
  have : i32.signed = true := rfl
  simp only [this, beq_self_eq_true, if_true]
  have : i32.bits = 32 := rfl
  simp [this, hb]

/-- the state on entry to the loop satisfies the invariant -/
theorem mfInit_inv (F : Fmt) (I : IntTy) (hs : I.signed = true) (hb : 32 ≤ I.bits) (d : FVal) (s : MFState)
    (h : mfInit F I d = .ok (.cont s)) : Inv I s := by
  unfold mfInit at h
  by_cases hm : fCmp .le d (F.ofInt I.max) = false
  · simp [hm] at h
  · simp only [hm] at h
    cases hl : fToInt I d with
    | ok l =>
      simp only [hl, bind, Res.bind] at h
      have hlr := fToInt_inRange I d l hl
      cases hr : cBin .add (I, l) (i32, 1) with
      | ok r =>
        simp only [hr, pure] at h
        have hr' := hr
        unfold cBin at hr'
        simp only [usualArith_i32 I hs hb, wrap_inRange I hs (by omega) l hlr,
          wrap_inRange I hs (by omega) 1 (one_inRange I hs hb)] at hr'
        obtain ⟨e, rr⟩ := arith_ok I hs _ r hr'
        subst e
        rw [castI_inRange I hs (by omega) _ rr] at h
        by_cases h1 : fCmp .eq (fracToF F ⟨l, 1⟩) d = true
        · simp [h1] at h
        · simp only [h1] at h
          by_cases h2 : fCmp .eq (fracToF F ⟨l + 1, 1⟩) d = true
          · simp [h2] at h
          · simp [h2] at h
            subst h
            exact ⟨⟨hlr, one_inRange I hs hb⟩, ⟨rr, one_inRange I hs hb⟩, by simp [MakeFraction.det]; omega⟩
      | _ => simp [hr] at h
    | _ => simp [hl, bind, Res.bind] at h

/-- determinant one ⇒ both bounds are in lowest terms -/
theorem coprime_of_det (a b c e : Int) (h : c * b - a * e = 1) : Int.gcd a b = 1 ∧ Int.gcd c e = 1 := by
  constructor
  · have h1 : ((Int.gcd a b : Nat) : Int) ∣ a := Int.gcd_dvd_left a b
    have h2 : ((Int.gcd a b : Nat) : Int) ∣ b := Int.gcd_dvd_right a b
    have h3 : ((Int.gcd a b : Nat) : Int) ∣ c * b - a * e :=
      Int.dvd_sub (Int.dvd_trans h2 (Int.dvd_mul_left c b)) (Int.dvd_trans h1 (Int.dvd_mul_right a e))
    rw [h] at h3
    have := Int.eq_one_of_dvd_one (by omega) h3
    omega
  · have h1 : ((Int.gcd c e : Nat) : Int) ∣ c := Int.gcd_dvd_left c e
    have h2 : ((Int.gcd c e : Nat) : Int) ∣ e := Int.gcd_dvd_right c e
    have h3 : ((Int.gcd c e : Nat) : Int) ∣ c * b - a * e :=
      Int.dvd_sub (Int.dvd_trans h1 (Int.dvd_mul_right c b)) (Int.dvd_trans h2 (Int.dvd_mul_left a e))
    rw [h] at h3
    have := Int.eq_one_of_dvd_one (by omega) h3
    omega

end Cnl.MakeFraction
