import CnlModel.Sqrt
import CnlSpec.Sqrt
import Mathlib.Tactic.Ring
import Mathlib.Tactic.Linarith
import Mathlib.Tactic.Positivity
import Mathlib.Algebra.Order.Field.Rat
/-!
# Helper lemmas for C19 (cnl::sqrt)

* the built-in operators of `CnlModel.CInt` on non-negative in-range operands of a promoted type
  are the mathematical operations (`cBin_add_ok`, `cBin_sub_ok`, `cBin_shr_ok`, `cCmp_*_ok`);
* `loop1_spec`: the first loop leaves `bit = 4^(n-1)` (or 0) with `x < 4^n`;
* `loop2_spec`: the second loop under the invariant `root = s·2^n`, `num = x − s²`,
  `x < (s + 2^n)²` and the *linear* overflow invariant
  `root + 4·bit ≤ max+1  ∨  (root = 0 ∧ 2·bit ≤ max+1)`, which is what keeps `root + bit`
  representable in `decltype(root + bit)`;
* `sqrtWith_spec`: the whole function for every digit count and width;
* `sqrtNum_elastic`, `sqrtNum_wide`, `scaled_of_floor`: the wrappers;
* `startShift_cint`: the closed form of the start-bit shift equals the `CInt` evaluation of
  `(digits - 1) & ~1`.
-/
namespace Cnl.SqrtProofs
open Cnl Cnl.Sqrt Cnl.SqrtSpec

theorem promote_of_ge {P : IntTy} (h : 32 ≤ P.bits) : promote P = P := by
  unfold promote; simp; omega

theorem promote_bits (T : IntTy) : 32 ≤ (promote T).bits := by
  by_cases h : T.bits < 32
  · simp [promote, h, i32]
  · simp [promote, h]; omega

theorem usualArith_self {P : IntTy} (h : 32 ≤ P.bits) : usualArith P P = P := by
  unfold usualArith; simp [promote_of_ge h]

theorem max_eq (P : IntTy) : P.max = 2 ^ P.digits - 1 := by
  unfold IntTy.max IntTy.digits; split <;> rfl

theorem lowest_nonpos (P : IntTy) : P.lowest ≤ 0 := by
  unfold IntTy.lowest; split
  · have : (0:Int) < 2 ^ (P.bits - 1) := by positivity
    omega
  · omega

theorem wrap_of_nonneg {P : IntTy} (hb : 1 ≤ P.bits) {v : Int} (h0 : 0 ≤ v) (h1 : v ≤ P.max) : P.wrap v = v := by
  unfold IntTy.wrap
  unfold IntTy.max at h1
  have e : (2:Int) ^ P.bits = 2 * 2 ^ (P.bits - 1) := by
    rw [← pow_succ']; congr 1; omega
  have p : (0:Int) < 2 ^ (P.bits - 1) := by positivity
  by_cases hs : P.signed
  · simp [hs] at h1 ⊢
    rw [Int.emod_eq_of_lt (by omega) (by omega)]; omega
  · simp [hs] at h1 ⊢
    exact Int.emod_eq_of_lt h0 (by omega)

theorem bits_pos {P : IntTy} (h : 32 ≤ P.bits) : 1 ≤ P.bits := by omega

theorem inRange_of_nonneg {P : IntTy} {v : Int} (h0 : 0 ≤ v) (h1 : v ≤ P.max) : P.InRange v :=
  ⟨Int.le_trans (lowest_nonpos P) h0, h1⟩

theorem arith_ok {P : IntTy} (hP : 32 ≤ P.bits) {v : Int} (h0 : 0 ≤ v) (h1 : v ≤ P.max) :
    arith P v = .ok (P, v) := by
  unfold arith
  by_cases hs : P.signed
  · simp [hs, inRange_of_nonneg h0 h1]
  · simp [hs, wrap_of_nonneg (bits_pos hP) h0 h1]

theorem cBin_add_ok {P : IntTy} (hP : 32 ≤ P.bits) {a b : Int} (ha : 0 ≤ a) (hb : 0 ≤ b)
    (h : a + b ≤ P.max) : cBin .add (P, a) (P, b) = .ok (P, a + b) := by
  have h1 := bits_pos hP
  simp only [cBin, usualArith_self hP]
  rw [wrap_of_nonneg h1 ha (by omega), wrap_of_nonneg h1 hb (by omega)]
  exact arith_ok hP (by omega) h

theorem cBin_sub_ok {P : IntTy} (hP : 32 ≤ P.bits) {a b : Int} (hb : 0 ≤ b) (hba : b ≤ a)
    (h : a ≤ P.max) : cBin .sub (P, a) (P, b) = .ok (P, a - b) := by
  have h1 := bits_pos hP
  simp only [cBin, usualArith_self hP]
  rw [wrap_of_nonneg h1 (by omega : 0 ≤ a) h, wrap_of_nonneg h1 hb (by omega)]
  exact arith_ok hP (by omega) (by omega)

theorem cBin_shr_ok {P : IntTy} (hP : 32 ≤ P.bits) (a : Int) (k : Nat) (hk : k < 32) :
    cBin .shr (P, a) (i32, (k : Int)) = .ok (P, a / 2 ^ k) := by
  simp only [cBin, promote_of_ge hP]
  simp
  omega

theorem cCmp_gt_ok {P : IntTy} (hP : 32 ≤ P.bits) {a b : Int} (ha : 0 ≤ a) (ha' : a ≤ P.max)
    (hb : 0 ≤ b) (hb' : b ≤ P.max) : cCmp .gt (P, a) (P, b) = decide (a > b) := by
  have h1 := bits_pos hP
  simp only [cCmp, usualArith_self hP]
  rw [wrap_of_nonneg h1 ha ha', wrap_of_nonneg h1 hb hb']

theorem cCmp_ge_ok {P : IntTy} (hP : 32 ≤ P.bits) {a b : Int} (ha : 0 ≤ a) (ha' : a ≤ P.max)
    (hb : 0 ≤ b) (hb' : b ≤ P.max) : cCmp .ge (P, a) (P, b) = decide (a ≥ b) := by
  have h1 := bits_pos hP
  simp only [cCmp, usualArith_self hP]
  rw [wrap_of_nonneg h1 ha ha', wrap_of_nonneg h1 hb hb']

theorem convert_ok {P : IntTy} (hP : 32 ≤ P.bits) {T : IntTy} {v : Int} (h0 : 0 ≤ v) (h1 : v ≤ P.max) :
    convert P (T, v) = (P, v) := by
  simp [convert, wrap_of_nonneg (bits_pos hP) h0 h1]

theorem cBin_shr2 {P : IntTy} (hP : 32 ≤ P.bits) (a : Int) :
    cBin .shr (P, a) (i32, 2) = .ok (P, a / 4) := by
  have := cBin_shr_ok hP a 2 (by omega)
  simpa using this

theorem cBin_shr1 {P : IntTy} (hP : 32 ≤ P.bits) (a : Int) :
    cBin .shr (P, a) (i32, 1) = .ok (P, a / 2) := by
  have := cBin_shr_ok hP a 1 (by omega)
  simpa using this

/-- value of `bit` when `n` iterations of the second loop remain -/
def bitOf : Nat → Int
  | 0 => 0
  | n+1 => 4 ^ n

theorem bitOf_nonneg (n : Nat) : 0 ≤ bitOf n := by
  cases n <;> simp [bitOf]

theorem bitOf_div4 (n : Nat) : bitOf (n + 1) / 4 = bitOf n := by
  cases n with
  | zero => simp [bitOf]
  | succ n => simp [bitOf, pow_succ]

theorem bitOf_le_succ (n : Nat) : bitOf n ≤ bitOf (n + 1) := by
  have := bitOf_div4 n
  have := bitOf_nonneg (n+1)
  omega

theorem loop1_spec {P : IntTy} (hP : 32 ≤ P.bits) {x : Int} (hx0 : 0 ≤ x) (hx1 : x ≤ P.max) :
    ∀ (m f : Nat), m + 1 ≤ f → bitOf m ≤ P.max → x < 4 ^ m →
      ∃ n, n ≤ m ∧ loop1 (P, x) f (P, bitOf m) = .ok (P, bitOf n) ∧ x < 4 ^ n := by
  intro m
  induction m with
  | zero =>
    intro f hf _ hx
    obtain ⟨f', rfl⟩ : ∃ f', f = f' + 1 := ⟨f - 1, by omega⟩
    refine ⟨0, le_refl _, ?_, hx⟩
    have hc : cCmp .gt (P, bitOf 0) (P, x) = false := by
      rw [cCmp_gt_ok hP (bitOf_nonneg 0) (by simp [bitOf]; omega) hx0 hx1]
      simp [bitOf]; omega
    simp [loop1, hc]
  | succ m ih =>
    intro f hf hb hx
    obtain ⟨f', rfl⟩ : ∃ f', f = f' + 1 := ⟨f - 1, by omega⟩
    have hbm : bitOf m ≤ P.max := Int.le_trans (bitOf_le_succ m) hb
    have hc := cCmp_gt_ok hP (bitOf_nonneg (m + 1)) hb hx0 hx1
    by_cases hgt : bitOf (m + 1) > x
    · obtain ⟨n, hn, h1, h2⟩ := ih f' (by omega) hbm (by simpa [bitOf] using hgt)
      refine ⟨n, by omega, ?_, h2⟩
      simp only [loop1, hc, hgt, decide_true, if_true, cBin_shr2 hP, Res.bind_ok, bitOf_div4,
        convert_ok hP (bitOf_nonneg _) hbm]
      exact h1
    · refine ⟨m + 1, le_refl _, ?_, hx⟩
      simp [loop1, hc, hgt]

theorem loop2_spec {P : IntTy} (hP : 32 ≤ P.bits) {x : Int} (hx1 : x ≤ P.max) :
    ∀ (n f : Nat) (s num root : Int), n + 1 ≤ f → 0 ≤ s → 0 ≤ num →
      root = s * 2 ^ n → num + s * s = x → x < (s + 2 ^ n) * (s + 2 ^ n) →
      (root + 4 * bitOf n ≤ P.max + 1 ∨ (root = 0 ∧ 2 * bitOf n ≤ P.max + 1)) →
      ∃ r, loop2 f (P, bitOf n) (P, num) (P, root) = .ok (P, r) ∧ IsFloorSqrt x r := by
  intro n
  induction n with
  | zero =>
    intro f s num root hf hs hnum hroot hx hlt _
    obtain ⟨f', rfl⟩ : ∃ f', f = f' + 1 := ⟨f - 1, by omega⟩
    refine ⟨s, ?_, hs, ?_, ?_⟩
    · simp [loop2, bitOf, hroot]
    · nlinarith
    · simpa using hlt
  | succ m ih =>
    intro f s num root hf hs hnum hroot hx hlt hov
    obtain ⟨f', rfl⟩ : ∃ f', f = f' + 1 := ⟨f - 1, by omega⟩
    have ht : (0:Int) < 2 ^ m := by positivity
    have h2 : (2:Int) ^ (m + 1) = 2 * 2 ^ m := by ring
    have hbit : bitOf (m + 1) = 2 ^ m * 2 ^ m := by
      simp only [bitOf]; rw [show (4:Int) = 2 * 2 from rfl, mul_pow]
    have hdiv := bitOf_div4 m
    have hb0 := bitOf_nonneg m
    generalize (2:Int) ^ m = t at *
    generalize bitOf (m + 1) = bit at *
    rw [h2] at hroot hlt
    have hbitpos : 1 ≤ bit := by nlinarith
    have hroot0 : 0 ≤ root := by rw [hroot]; positivity
    have hss : 0 ≤ s * s := by positivity
    have hnum1 : num ≤ P.max := by omega
    have hsum : root + bit ≤ P.max := by omega
    have hhalf : root / 2 = s * t := by
      rw [hroot, show s * (2 * t) = (s * t) * 2 by ring]
      exact Int.mul_ediv_cancel _ (by decide)
    have hadd := cBin_add_ok hP hroot0 (by omega : 0 ≤ bit) hsum
    have hcmp := cCmp_ge_ok hP hnum hnum1 (by omega : 0 ≤ root + bit) hsum
    have hbne : bit ≠ 0 := by omega
    by_cases hge : num ≥ root + bit
    · -- the bit is taken
      have hsub := cBin_sub_ok hP (by omega : 0 ≤ root + bit) hge hnum1
      have hadd2 := cBin_add_ok hP (by omega : 0 ≤ root / 2) (by omega : 0 ≤ bit) (by omega : root / 2 + bit ≤ P.max)
      obtain ⟨r, hr, hfl⟩ := ih f' (s + t) (num - (root + bit)) (root / 2 + bit) (by omega) (by omega) (by omega)
        (by rw [hhalf, hbit]; ring) (by rw [← hx, hroot, hbit]; ring)
        (by rw [show s + t + t = s + 2 * t by ring]; exact hlt)
        (by omega)
      refine ⟨r, ?_, hfl⟩
      simp only [loop2, ne_eq, hbne, not_false_eq_true, if_true, hadd, Res.bind_ok, hcmp, hge, decide_true,
        hsub, cBin_shr1 hP, hadd2, cBin_shr2 hP, hdiv,
        convert_ok hP hb0 (by omega : bitOf m ≤ P.max),
        convert_ok hP (by omega : 0 ≤ num - (root + bit)) (by omega : num - (root + bit) ≤ P.max),
        convert_ok hP (by omega : 0 ≤ root / 2 + bit) (by omega : root / 2 + bit ≤ P.max)]
      exact hr
    · -- the bit is not taken
      obtain ⟨r, hr, hfl⟩ := ih f' s num (root / 2) (by omega) hs hnum hhalf hx
        (by rw [← hx]; rw [hroot, hbit] at hge; nlinarith)
        (by omega)
      refine ⟨r, ?_, hfl⟩
      simp only [loop2, ne_eq, hbne, not_false_eq_true, if_true, hadd, Res.bind_ok, hcmp, hge, decide_false,
        cBin_shr1 hP, cBin_shr2 hP, hdiv,
        convert_ok hP hb0 (by omega : bitOf m ≤ P.max),
        convert_ok hP (by omega : 0 ≤ root / 2) (by omega : root / 2 ≤ P.max)]
      exact hr

theorem bitOf_mono {n m : Nat} (h : n ≤ m) : bitOf n ≤ bitOf m := by
  induction h with
  | refl => exact le_refl _
  | step _ ih => exact le_trans ih (bitOf_le_succ _)

theorem startShift_even (D : Nat) : startShift D = 2 * ((D - 1) / 2) := by
  unfold startShift; omega

theorem two_pow_startShift (D : Nat) : (2:Int) ^ startShift D = bitOf ((D - 1) / 2 + 1) := by
  rw [startShift_even, pow_mul]; simp [bitOf]

theorem usualArith_same (T : IntTy) : usualArith T T = promote T := by
  simp [usualArith]

/-- the generic algorithm: for every digit count `D ≥ 1`, every integer type whose promoted type
has at least `D` digits, and every `0 ≤ x < 2^D`, the model returns (no UB, no divergence) the
floor of the square root, in the promoted type -/
theorem sqrtWith_spec (D : Nat) (T : IntTy) (x : Int) (hD : 1 ≤ D) (hDP : D ≤ (promote T).digits)
    (hx0 : 0 ≤ x) (hx : x < 2 ^ D) :
    ∃ r, sqrtWith D T x = .ok (promote T, r) ∧ IsFloorSqrt x r := by
  have hP := promote_bits T
  generalize hPdef : promote T = P at *
  have hmax := max_eq P
  have hpowD : (2:Int) ^ D ≤ 2 ^ P.digits := pow_le_pow_right₀ (by norm_num) hDP
  have hx1 : x ≤ P.max := by omega
  have hk : startShift D + 1 ≤ D := by unfold startShift; omega
  have hk2 : D ≤ startShift D + 2 := by unfold startShift; omega
  have hdig : P.digits ≤ P.bits := by unfold IntTy.digits; split <;> omega
  have hbit0 : (2:Int) ^ startShift D * 2 ≤ 2 ^ D := by
    rw [← pow_succ]; exact pow_le_pow_right₀ (by norm_num) hk
  have hpos : (0:Int) < 2 ^ startShift D := by positivity
  have hbitmax : (2:Int) ^ startShift D ≤ P.max := by omega
  set m0 := (D - 1) / 2 + 1 with hm0
  have hb := two_pow_startShift D
  rw [← hm0] at hb
  have hx4 : x < 4 ^ m0 := by
    have : (4:Int) ^ m0 = 2 ^ (startShift D + 2) := by
      rw [startShift_even, show (4:Int) = 2 ^ 2 from rfl, ← pow_mul]; congr 1
    rw [this]
    exact lt_of_lt_of_le hx (pow_le_pow_right₀ (by norm_num) hk2)
  obtain ⟨n, hn, hl1, hxn⟩ := loop1_spec hP hx0 hx1 m0 (D + 2) (by omega) (by rw [← hb]; exact hbitmax) hx4
  obtain ⟨r, hl2, hfl⟩ := loop2_spec hP hx1 n (D + 2) 0 x 0 (by omega) (le_refl _) hx0 (by simp) (by simp)
    (by simpa [← pow_mul_comm, ← mul_pow] using hxn)
    (Or.inr ⟨rfl, by have := bitOf_mono hn; omega⟩)
  refine ⟨r, ?_, hfl⟩
  have hc : cCmp .ge (T, x) (T, 0) = true := by
    simp only [cCmp, usualArith_same, hPdef]
    rw [wrap_of_nonneg (bits_pos hP) hx0 hx1, wrap_of_nonneg (bits_pos hP) (le_refl _) (by omega)]
    simpa using hx0
  have hpos0 : cPos (T, 0) = .ok (P, 0) := by
    simp [cPos, hPdef, wrap_of_nonneg (bits_pos hP) (le_refl (0:Int)) (by omega)]
  have hshl : cBin .shl (T, 1) (i32, (startShift D : Int)) = .ok (P, bitOf m0) := by
    simp only [cBin, hPdef]
    have : ¬ ((startShift D : Int) < 0 ∨ (startShift D : Int) ≥ (P.bits : Int)) := by omega
    simp only [this, if_false, Int.toNat_natCast, one_mul]
    rw [wrap_of_nonneg (bits_pos hP) (le_of_lt hpos) hbitmax, hb]
  simp only [sqrtWith, hc, if_true, hpos0, Res.bind_ok, hshl, binResultTy, usualArith_self hP,
    convert_ok hP hx0 hx1, hl1, hl2]

/-! ## built-in integers -/

theorem digits_le_promote (T : IntTy) : T.digits ≤ (promote T).digits := by
  by_cases h : T.bits < 32
  · simp only [promote, h, if_true, i32, IntTy.digits]
    split <;> simp <;> omega
  · simp [promote, h]

theorem sqrtInt_spec (T : IntTy) (hD : 1 ≤ T.digits) (x : Int) (hx0 : 0 ≤ x) (hx : x ≤ T.max) :
    ∃ r, sqrtInt T x = .ok (promote T, r) ∧ IsFloorSqrt x r := by
  have := max_eq T
  exact sqrtWith_spec T.digits T x hD (digits_le_promote T) hx0 (by omega)

theorem wrap_of_inRange_signed {P : IntTy} (h1 : 1 ≤ P.bits) (hs : P.signed = true) {x : Int}
    (hr : P.InRange x) : P.wrap x = x := by
  unfold IntTy.wrap
  obtain ⟨hlo, hhi⟩ := hr
  unfold IntTy.lowest at hlo
  unfold IntTy.max at hhi
  have e : (2:Int) ^ P.bits = 2 * 2 ^ (P.bits - 1) := by
    rw [← pow_succ']; congr 1; omega
  simp only [hs, if_true] at hlo hhi ⊢
  rw [Int.emod_eq_of_lt (by omega) (by omega)]; omega

theorem sqrtInt_negative (T : IntTy) (x : Int) (hx : x < 0) (hr : (promote T).InRange x)
    (hs : (promote T).signed = true) :
    sqrtInt T x = .unreachable "sqrt.h assert: x >= Integer{0}" := by
  have h1 : 1 ≤ (promote T).bits := by have := promote_bits T; omega
  have hw : (promote T).wrap x = x := wrap_of_inRange_signed h1 hs hr
  have hw0 : (promote T).wrap 0 = 0 := by
    apply wrap_of_nonneg h1 (le_refl _)
    have := max_eq (promote T)
    have : (0:Int) < 2 ^ (promote T).digits := by positivity
    omega
  have hc : cCmp .ge (T, x) (T, 0) = false := by
    simp only [cCmp, usualArith_same, hw, hw0]
    simpa using hx
  simp [sqrtInt, sqrtWith, hc]

theorem floor_unique {x r r' : Int} (h : IsFloorSqrt x r) (h' : IsFloorSqrt x r') : r = r' := by
  obtain ⟨a0, a1, a2⟩ := h
  obtain ⟨b0, b1, b2⟩ := h'
  by_contra hne
  rcases lt_or_gt_of_ne hne with hlt | hgt
  · have : r + 1 ≤ r' := hlt
    nlinarith
  · have : r' + 1 ≤ r := hgt
    nlinarith

theorem floor_lt_pow {x r : Int} {D : Nat} (h : IsFloorSqrt x r) (hx : x < 2 ^ D) : r < 2 ^ ((D + 1) / 2) := by
  obtain ⟨a0, a1, _⟩ := h
  have hp : (2:Int) ^ D ≤ 2 ^ ((D + 1) / 2) * 2 ^ ((D + 1) / 2) := by
    rw [← pow_add]; exact pow_le_pow_right₀ (by norm_num) (by omega)
  have hpos : (0:Int) < 2 ^ ((D + 1) / 2) := by positivity
  by_contra hge
  have hge' : 2 ^ ((D + 1) / 2) ≤ r := not_lt.mp hge
  nlinarith

/-! ## elastic_integer and wide_integer -/

theorem setDigits_spec {s : Bool} {d : Nat} {R : IntTy} (h : setDigits s d = some R) :
    d ≤ R.digits ∧ R.signed = s ∧ 8 ≤ R.bits ∧ d ≤ (if s then 127 else 128) := by
  unfold setDigits at h
  split_ifs at h <;> simp at h <;> subst h <;>
    simp_all [IntTy.digits, i8, i16, i32, i64, i128, u8, u16, u32, u64, u128] <;> omega

theorem setDigits_some {s : Bool} {d : Nat} (h : d ≤ (if s then 127 else 128)) :
    ∃ R, setDigits s d = some R := by
  unfold setDigits
  cases s <;> simp at h ⊢ <;> split_ifs <;> simp

theorem sqrtNum_elastic (D : Nat) (N R : IntTy) (hR : elasticRep D N = some R) (hD : 1 ≤ D)
    (x : Int) (hx0 : 0 ≤ x) (hx : x < 2 ^ D) :
    ∃ N' r, sqrtNum (.el D (.int N)) x = .ok (.el ((D + 1) / 2) (.int N'), r) ∧ N'.bits = N.bits ∧
      IsFloorSqrt x r ∧ FitsDigits ((D + 1) / 2) r := by
  obtain ⟨hdig, hsg, hb8, hbound⟩ := setDigits_spec hR
  have hDR : D ≤ R.digits := le_trans (le_max_right _ _) hdig
  have hx' : x ≤ R.max := by
    have := max_eq R
    have : (2:Int) ^ D ≤ 2 ^ R.digits := pow_le_pow_right₀ (by norm_num) hDR
    omega
  obtain ⟨r, hs, hfl⟩ := sqrtInt_spec R (by omega) x hx0 hx'
  have hlt := floor_lt_pow hfl hx
  -- the result type's representation exists and holds the value
  have hR' : ∃ R', elasticRep ((D + 1) / 2) ⟨N.bits, (promote R).signed⟩ = some R' := by
    apply setDigits_some
    have hN : N.digits ≤ R.digits := le_trans (le_max_left _ _) hdig
    have hRd : R.digits ≤ R.bits := by unfold IntTy.digits; split <;> omega
    have hNd : N.bits - 1 ≤ N.digits := by unfold IntTy.digits; split <;> omega
    by_cases h32 : R.bits < 32
    · simp only [promote, h32, if_true, i32, IntTy.digits]
      simp; omega
    · have hpr : promote R = R := promote_of_ge (by omega)
      rw [hpr, hsg]
      have : (⟨N.bits, N.signed⟩ : IntTy).digits = N.digits := rfl
      rw [this]
      have : (D + 1) / 2 ≤ D := by omega
      have := le_max_left N.digits D
      have := le_max_right N.digits D
      apply max_le <;> omega
  obtain ⟨R', hR'⟩ := hR'
  obtain ⟨hdig', _, hb8', _⟩ := setDigits_spec hR'
  have hw : R'.wrap r = r := by
    apply wrap_of_nonneg (by omega) hfl.1
    have := max_eq R'
    have : (2:Int) ^ ((D + 1) / 2) ≤ 2 ^ R'.digits :=
      pow_le_pow_right₀ (by norm_num) (le_trans (le_max_right _ _) hdig')
    omega
  refine ⟨⟨N.bits, (promote R).signed⟩, r, ?_, rfl, hfl, hfl.1, hlt⟩
  simp only [sqrtNum, hR, hs, bind, Res.bind, hR', convert, hw]

theorem wideRep_digits {D : Nat} {N R : IntTy} (hN : 1 ≤ N.bits) (hR : wideRep D N = some R) : D ≤ R.digits := by
  have key : ∀ w b : Nat, 1 ≤ b → w ≤ (w + b - 1) / b * b := by
    intro w b hb
    have h1 := Nat.div_add_mod (w + b - 1) b
    have h2 := Nat.mod_lt (w + b - 1) hb
    rw [Nat.mul_comm] at h1
    generalize (w + b - 1) / b * b = q at *
    omega
  unfold wideRep at hR
  cases hs : N.signed
  · simp only [hs, Bool.false_eq_true, if_false] at hR
    by_cases h : D ≤ 128
    · simp only [h, if_true] at hR
      exact le_trans (le_max_right _ _) (setDigits_spec hR).1
    · simp only [h, if_false, Option.some.injEq] at hR
      subst hR
      have := key (D + 0) N.bits hN
      simpa [IntTy.digits] using this
  · simp only [hs, ↓reduceIte] at hR
    by_cases h : D ≤ 127
    · simp only [h, ↓reduceIte] at hR
      exact le_trans (le_max_right _ _) (setDigits_spec hR).1
    · simp only [h, ↓reduceIte, Option.some.injEq] at hR
      subst hR
      have := key (D + 1) N.bits hN
      simp only [IntTy.digits, ↓reduceIte]
      omega

theorem sqrtNum_wide (D : Nat) (N R : IntTy) (hN : 1 ≤ N.bits) (hR : wideRep D N = some R) (h32 : 32 ≤ R.bits)
    (hD : 1 ≤ D) (x : Int) (hx0 : 0 ≤ x) (hx : x < 2 ^ D) :
    ∃ r, sqrtNum (.wd D (.int N)) x = .ok (.wd D (.int N), r) ∧ IsFloorSqrt x r := by
  have hDR := wideRep_digits hN hR
  have hpr : promote R = R := promote_of_ge h32
  obtain ⟨r, hs, hfl⟩ := sqrtWith_spec D R x hD (by rw [hpr]; exact hDR) hx0 hx
  refine ⟨r, ?_, hfl⟩
  have : ¬ R.bits < 32 := by omega
  simp [sqrtNum, hR, this, hs, Res.map, bind, Res.bind]

/-! ## scaled_integer -/

theorem den_sq (r h : Int) (R : Nat) (hR : 1 ≤ R) :
    (den r h R) ^ 2 = ((r * r : Int) : Rat) * (R : Rat) ^ (2 * h) := by
  unfold den
  have hR0 : (R : Rat) ≠ 0 := by
    have : (0 : Rat) < (R : Rat) := by exact_mod_cast hR
    exact ne_of_gt this
  have : ((R : Rat) ^ h) ^ 2 = (R : Rat) ^ (2 * h) := by rw [two_mul, zpow_add₀ hR0, sq]
  rw [mul_pow, this]
  push_cast
  ring

/-- the integer statement about the representations is the scaled statement about the denoted
rationals when the result sits at exactly half the exponent -/
theorem scaled_of_floor (x e : Int) (R : Nat) (hR : 1 ≤ R) (r h : Int) (he : 2 * h = e)
    (hf : IsFloorSqrt x r) : IsScaledFloorSqrt x e R r h := by
  obtain ⟨h0, h1, h2⟩ := hf
  have hR0 : (0 : Rat) < (R : Rat) := by exact_mod_cast hR
  have hpos : (0 : Rat) < (R : Rat) ^ (2 * h) := zpow_pos hR0 _
  refine ⟨he, h0, ?_, ?_⟩
  · rw [den_sq _ _ _ hR, ← he]
    unfold den
    exact mul_le_mul_of_nonneg_right (by exact_mod_cast h1) (le_of_lt hpos)
  · rw [den_sq _ _ _ hR, ← he]
    unfold den
    exact mul_lt_mul_of_pos_right (by exact_mod_cast h2) hpos

theorem sqrtNum_scaled (rep : Ty) (e : Int) (radix : Nat) (he : e % 2 = 0) (x : Int) (t' : Ty) (r : Int)
    (h : sqrtNum rep x = .ok (t', r)) :
    sqrtNum (.sc rep e radix) x = .ok (.sc t' (e / 2) radix, r) := by
  have : e.tdiv 2 = e / 2 := by
    obtain ⟨k, rfl⟩ := Int.dvd_of_emod_eq_zero he
    rw [Int.mul_tdiv_cancel_left _ (by decide), Int.mul_ediv_cancel_left _ (by decide)]
  simp [sqrtNum, he, h, Res.map, bind, Res.bind, this]

/-! ## the start-bit constant -/

theorem xor_one_of_odd (n : Nat) (h : n % 2 = 1) : n ^^^ 1 = n - 1 := by
  apply Nat.eq_of_testBit_eq
  intro i
  rw [Nat.testBit_xor]
  cases i with
  | zero =>
    simp [Nat.testBit_zero, h]
    omega
  | succ i =>
    simp [Nat.testBit_succ]
    congr 1
    omega

theorem and_clear_low (n : Nat) (h : n < 2 ^ 32) : n &&& 4294967294 = n - n % 2 := by
  have e : (4294967294 : Nat) = (2 ^ 32 - 1) ^^^ 1 := by decide
  rw [e, Nat.and_xor_distrib_left, Nat.and_two_pow_sub_one_eq_mod, Nat.mod_eq_of_lt h, Nat.and_one_is_mod]
  rcases Nat.mod_two_eq_zero_or_one n with h0 | h1
  · rw [h0]; simp
  · rw [h1]; exact xor_one_of_odd n h1

/-- the closed form used by the model is the value of the C++ constant expression
`(digits_v<Integer> - 1) & ~1` evaluated in `int`, for every digit count an `int` can hold -/
theorem startShift_cint (D : Nat) (hD : 1 ≤ D) (hD2 : D < 2 ^ 31) :
    startShiftC D = .ok (i32, (startShift D : Int)) := by
  have h32 : 32 ≤ i32.bits := by decide
  have hmax : i32.max = 2147483647 := by decide
  have hsub : cBin .sub (i32, (D : Int)) (i32, 1) = .ok (i32, (D : Int) - 1) :=
    cBin_sub_ok h32 (by omega) (by omega) (by rw [hmax]; omega)
  have hnot : cNot (i32, 1) = .ok (i32, -2) := by decide
  have hlow : i32.lowest = -2147483648 := by decide
  have hw1 : i32.wrap ((D : Int) - 1) = (D : Int) - 1 :=
    wrap_of_nonneg (by decide) (by omega) (by rw [hmax]; omega)
  have hw2 : i32.wrap (-2) = -2 := by decide
  have hb1 : bitPattern i32 ((D : Int) - 1) = D - 1 := by
    unfold bitPattern
    have : ((D : Int) - 1) % 2 ^ i32.bits = (D : Int) - 1 :=
      Int.emod_eq_of_lt (by omega) (by show (D : Int) - 1 < 2 ^ 32; omega)
    rw [this]; omega
  have hb2 : bitPattern i32 (-2) = 4294967294 := by decide
  unfold startShiftC
  rw [hsub, hnot]
  simp only [Res.bind_ok]
  simp only [cBin, usualArith_self h32, hw1, hw2, hb1, hb2]
  rw [and_clear_low (D - 1) (by omega)]
  have hv : i32.wrap (Int.ofNat (D - 1 - (D - 1) % 2)) = (startShift D : Int) := by
    have : (Int.ofNat (D - 1 - (D - 1) % 2)) = (startShift D : Int) := rfl
    rw [this]
    exact wrap_of_nonneg (by decide) (by omega) (by rw [hmax]; unfold startShift; omega)
  rw [hv]

end Cnl.SqrtProofs
