import CnlProofs.Scaled
/-!
# Lemmas for the `quotient()` clause of C02

`Scaled.quotient L eL R eR l r` (model of `cnl::quotient(a, b)` for scaled integers over built-in
representations, radix 2): the dividend is converted to the storage type
`D = set_digits_t<T, max (digits L + digits R) (digits T)>` (`T` the common type of the two
representations), multiplied by `2^(digits R)`, and divided by the divisor's representation.

* `storage_facts` — what `set_digits` guarantees about `D`: signedness of `T`, at least
  `digits L + digits R` and at least `digits T` digits, rank at least `int`, and it absorbs the
  divisor's type (`usualArith D R = D`: the division is computed in `D` itself);
* `scaled_inRange` — the shifted dividend always fits `D`;
* `quotient_eval` — the evaluation under `QuotGuard`;
* `quotient_ub_cases` — without any guard, the only undefined evaluations are those of the division.

Lean core only.
-/
set_option linter.unusedVariables false
set_option linter.unusedSimpArgs false

namespace Cnl.QuotientP
open Cnl Cnl.Spec Cnl.Rounding Cnl.ScaledP Cnl.Scaled

theorem setDigitsInt_eq : setDigitsInt = Elastic.setDigits := rfl

/-- `set_digits` returns a type of the requested signedness with enough digits -/
theorem setDigitsInt_spec {s : Bool} {need : Nat} {t : IntTy} (h : setDigitsInt s need = some t) :
    t.signed = s ∧ need ≤ t.digits ∧ 8 ≤ t.bits :=
  Elastic.setDigits_spec (by rw [← setDigitsInt_eq]; exact h)

/-- … and it is one of the five standard widths -/
theorem setDigitsInt_bits_even {s : Bool} {need : Nat} {t : IntTy} (h : setDigitsInt s need = some t) :
    t.bits % 2 = 0 := by
  simp only [setDigitsInt] at h
  (repeat' split at h) <;>
    first
    | (injection h with h; subst h; simp)
    | (exact absurd h (by simp))

/-- `D` is the storage type of `quotient` on representations `L`, `R` -/
def Storage (L R D : IntTy) : Prop :=
  setDigitsInt (usualArith L R).signed (max (L.digits + R.digits) (usualArith L R).digits) = some D

instance (L R D : IntTy) : Decidable (Storage L R D) := by unfold Storage; exact inferInstance

structure StorageFacts (L R D : IntTy) : Prop where
  sgn : D.signed = (usualArith L R).signed
  dig : L.digits + R.digits ≤ D.digits
  digT : (usualArith L R).digits ≤ D.digits
  bits : 32 ≤ D.bits
  bitsT : (usualArith L R).bits ≤ D.bits
  prom : promote D = D
  absorb : usualArith D R = D
  self : usualArith D D = D

theorem storage_facts {L R D : IntTy} (h : Storage L R D) : StorageFacts L R D := by
  obtain ⟨hs, hd, h8⟩ := setDigitsInt_spec h
  have hT32 := usualArith_bits_ge L R
  have hdig : L.digits + R.digits ≤ D.digits := Nat.le_trans (Nat.le_max_left ..) hd
  have hdigT : (usualArith L R).digits ≤ D.digits := Nat.le_trans (Nat.le_max_right ..) hd
  have hbT : (usualArith L R).bits ≤ D.bits := by
    unfold IntTy.digits at hdigT
    rw [hs] at hdigT
    split at hdigT <;> omega
  have hb : 32 ≤ D.bits := by omega
  have hp : promote D = D := promote_of_ge hb
  have hkT : key (promote R) ≤ key (usualArith L R) := by
    rw [usualArith_key]; split <;> omega
  have hkD : key (usualArith L R) ≤ key D := by
    unfold key; rw [hs]; omega
  refine ⟨hs, hdig, hdigT, hb, hbT, hp, ?_, ?_⟩
  · rw [usualArith_key, hp]
    have : key (promote R) ≤ key D := by omega
    simp only [this, ite_true]
  · rw [usualArith_self, hp]

/-- bounds of a value of `L` in terms of its digits -/
theorem inRange_digits {L : IntTy} {l : Int} (hl : L.InRange l) : -(2^L.digits : Int) ≤ l ∧ l ≤ 2^L.digits - 1 := by
  unfold IntTy.InRange at hl
  rw [IntTy.max_eq, IntTy.lowest_eq] at hl
  have := two_pow_pos L.digits
  split at hl <;> omega

/-- shifting a `dL`-digit value left by `dR` digits gives a `dL + dR`-digit value -/
theorem shl_bounds {dL dR : Nat} {l : Int} (h : -(2^dL : Int) ≤ l ∧ l ≤ 2^dL - 1) :
    -(2^(dL + dR) : Int) ≤ l * 2^dR ∧ l * 2^dR ≤ 2^(dL + dR) - 1 ∧ (0 ≤ l → 0 ≤ l * 2^dR) := by
  have hp := two_pow_pos dR
  have h1 := Int.mul_le_mul_of_nonneg_right h.2 (Int.le_of_lt hp)
  have h2 := Int.mul_le_mul_of_nonneg_right h.1 (Int.le_of_lt hp)
  rw [Int.sub_mul, ← two_pow_add] at h1
  rw [Int.neg_mul, ← two_pow_add] at h2
  refine ⟨h2, by omega, fun h0 => Int.mul_nonneg h0 (Int.le_of_lt hp)⟩

/-- the dividend shifted left by the divisor's digits always fits the storage type: no input can
overflow it -/
theorem scaled_inRange {L R D : IntTy} (h : Storage L R D) {l : Int} (hl : L.InRange l)
    (hw : D.InRange l) : D.InRange (l * 2^R.digits) := by
  have f := storage_facts h
  have hb := shl_bounds (dR := R.digits) (inRange_digits hl)
  apply Elastic.inRange_of_digits' f.dig hb.1 hb.2.1
  intro hs
  apply hb.2.2
  have := hw.1
  unfold IntTy.lowest at this
  simpa [hs] using this

/-- a value of an operand type is a value of the storage type when that is signed or the value is
not negative -/
theorem storage_inRange_left {L R D : IntTy} (h : Storage L R D) (hL : 1 ≤ L.bits) {l : Int} (hl : L.InRange l)
    (hs : (usualArith L R).signed = true ∨ 0 ≤ l) : D.InRange l := by
  have f := storage_facts h
  have hT := inRange_common_of_left (R := R) hL hl hs
  have hd := inRange_digits hT
  apply Elastic.inRange_of_digits' f.digT hd.1 hd.2
  intro hu
  rcases hs with hs | hs
  · rw [← f.sgn, hu] at hs; cases hs
  · exact hs

theorem storage_inRange_right {L R D : IntTy} (h : Storage L R D) (hR : 1 ≤ R.bits) {r : Int} (hr : R.InRange r)
    (hs : (usualArith L R).signed = true ∨ 0 ≤ r) : D.InRange r := by
  have f := storage_facts h
  have hT := inRange_common_of_right (L := L) hR hr hs
  have hd := inRange_digits hT
  apply Elastic.inRange_of_digits' f.digT hd.1 hd.2
  intro hu
  rcases hs with hs | hs
  · rw [← f.sgn, hu] at hs; cases hs
  · exact hs

/-- the guard of `quotient`: both conversions to the storage type keep the values, the divisor is
not zero, and the division is not the overflowing `lowest / -1` (impossible for the standard
widths, see `nov_of_even_bits`) -/
structure QuotGuard (L R D : IntTy) (l r : Int) : Prop where
  wl : D.wrap l = l
  wr : D.wrap r = r
  r0 : r ≠ 0
  nov : ¬ (D.signed = true ∧ l * 2^R.digits = D.lowest ∧ r = -1)

instance (L R D : IntTy) (l r : Int) : Decidable (QuotGuard L R D l r) :=
  if h : D.wrap l = l ∧ D.wrap r = r ∧ r ≠ 0 ∧ ¬ (D.signed = true ∧ l * 2^R.digits = D.lowest ∧ r = -1)
  then isTrue ⟨h.1, h.2.1, h.2.2.1, h.2.2.2⟩
  else isFalse fun g => h ⟨g.wl, g.wr, g.r0, g.nov⟩

/-- the shifted dividend cannot be the lowest value of `D` if that has spare digits -/
theorem nov_of_spare {L R D : IntTy} {l r : Int} (hl : L.InRange l) (hd : L.digits + R.digits < D.digits) :
    ¬ (D.signed = true ∧ l * 2^R.digits = D.lowest ∧ r = -1) := by
  intro ⟨hs, hlow, _⟩
  have hb := shl_bounds (dR := R.digits) (inRange_digits hl)
  rw [IntTy.lowest_eq] at hlow
  simp only [hs, ite_true] at hlow
  have := two_pow_le (show L.digits + R.digits + 1 ≤ D.digits by omega)
  rw [two_pow_succ] at this
  have := two_pow_pos (L.digits + R.digits)
  omega

/-- for operand types with an even number of bits (all the standard ones) `lowest / -1` cannot
arise: two signed operands have an even digit sum, the storage type an odd digit count -/
theorem nov_of_even_bits {L R D : IntTy} (h : Storage L R D) (hLe : L.bits % 2 = 0) (hRe : R.bits % 2 = 0)
    (hL : 1 ≤ L.bits) (hR : 1 ≤ R.bits) {l r : Int} (hl : L.InRange l) (hr : R.InRange r) :
    ¬ (D.signed = true ∧ l * 2^R.digits = D.lowest ∧ r = -1) := by
  intro ⟨hs, hlow, hr1⟩
  have f := storage_facts h
  have hDe := setDigitsInt_bits_even h
  -- `r = -1` needs a signed `R`; a negative dividend needs a signed `L`
  have hRs : R.signed = true := by
    have := hr.1
    unfold IntTy.lowest at this
    cases hh : R.signed with
    | true => rfl
    | false => simp [hh] at this; omega
  have hneg : l * 2^R.digits < 0 := by
    rw [hlow, IntTy.lowest_eq]; simp only [hs, ite_true]
    have := two_pow_pos D.digits; omega
  have hLs : L.signed = true := by
    have := hl.1
    unfold IntTy.lowest at this
    cases hh : L.signed with
    | true => rfl
    | false =>
      simp [hh] at this
      have := Int.mul_nonneg this (Int.le_of_lt (two_pow_pos R.digits))
      omega
  have hspare : L.digits + R.digits < D.digits := by
    have := f.dig
    unfold IntTy.digits at *
    simp only [hs, hLs, hRs, ite_true] at *
    have := f.bits
    omega
  exact nov_of_spare (r := r) hl hspare ⟨hs, hlow, hr1⟩

/-- signed storage: both conversions keep the values -/
theorem QuotGuard.of_signed {L R D : IntTy} (h : Storage L R D) (hL : 1 ≤ L.bits) (hR : 1 ≤ R.bits)
    (hs : (usualArith L R).signed = true) {l r : Int} (hl : L.InRange l) (hr : R.InRange r) (r0 : r ≠ 0)
    (nov : ¬ (l * 2^R.digits = D.lowest ∧ r = -1)) : QuotGuard L R D l r := by
  have f := storage_facts h
  have hb : 1 ≤ D.bits := by have := f.bits; omega
  exact ⟨IntTy.wrap_id hb (storage_inRange_left h hL hl (Or.inl hs)),
    IntTy.wrap_id hb (storage_inRange_right h hR hr (Or.inl hs)), r0, fun hh => nov hh.2⟩

/-- non-negative dividend and positive divisor: the guard holds whatever the signedness -/
theorem QuotGuard.of_nonneg {L R D : IntTy} (h : Storage L R D) (hL : 1 ≤ L.bits) (hR : 1 ≤ R.bits)
    {l r : Int} (hl : L.InRange l) (hr : R.InRange r) (l0 : 0 ≤ l) (r0 : 0 < r) : QuotGuard L R D l r := by
  have f := storage_facts h
  have hb : 1 ≤ D.bits := by have := f.bits; omega
  exact ⟨IntTy.wrap_id hb (storage_inRange_left h hL hl (Or.inr l0)),
    IntTy.wrap_id hb (storage_inRange_right h hR hr (Or.inr (by omega))), by omega, fun hh => by omega⟩

theorem QuotGuard.inl {L R D : IntTy} {l r : Int} (h : Storage L R D) (g : QuotGuard L R D l r) : D.InRange l :=
  (wrap_eq_self_iff _ (by have := (storage_facts h).bits; omega) l).1 g.wl

theorem QuotGuard.inr {L R D : IntTy} {l r : Int} (h : Storage L R D) (g : QuotGuard L R D l r) : D.InRange r :=
  (wrap_eq_self_iff _ (by have := (storage_facts h).bits; omega) r).1 g.wr

/-- `power_value<D, digits R, 2>()` -/
theorem storage_power {L R D : IntTy} (h : Storage L R D) (hLd : 1 ≤ L.digits) :
    powerValueInt D R.digits 2 = .ok (D, 2^R.digits) := by
  have f := storage_facts h
  have hlt : R.digits < D.digits := by have := f.dig; omega
  have hok : PowOk D R.digits 2 := by
    right; simp only [ite_true, f.prom]; exact hlt
  have hfit : (promote D).InRange (pw 2 R.digits) := PowOk.fits (by omega) hok (Or.inr rfl)
  rw [powerValueInt_eq D R.digits 2 (by omega) hok, IntTy.wrap_id (promote_bits_pos D) hfit, f.prom, pw_two]
  simp

theorem storage_pow_inRange {L R D : IntTy} (h : Storage L R D) (hLd : 1 ≤ L.digits) : D.InRange (2^R.digits) := by
  have f := storage_facts h
  have hlt : R.digits < D.digits := by have := f.dig; omega
  have hok : PowOk D R.digits 2 := by
    right; simp only [ite_true, f.prom]; exact hlt
  have hfit : (promote D).InRange (pw 2 R.digits) := PowOk.fits (by omega) hok (Or.inr rfl)
  rw [f.prom, pw_two] at hfit; exact hfit

/-- the quotient of the shifted dividend is a value of the storage type -/
theorem QuotGuard.tdiv_inRange {L R D : IntTy} {l r : Int} (h : Storage L R D) (hl : L.InRange l)
    (g : QuotGuard L R D l r) : D.InRange ((l * 2^R.digits).tdiv r) := by
  have f := storage_facts h
  have hn := scaled_inRange h hl (g.inl h)
  apply Rounding.tdiv_inRange f.bits hn (g.inr h) g.r0
  intro ⟨h1, h2⟩
  have := lowest_eq_of f.bits hn h1
  exact g.nov ⟨this.1, this.2, h2⟩

/-- evaluation of `quotient` under the guard -/
theorem quotient_eval {L R D : IntTy} (hLd : 1 ≤ L.digits) (eL eR : Int) {l r : Int} (hl : L.InRange l)
    (h : Storage L R D) (g : QuotGuard L R D l r) :
    Scaled.quotient L eL R eR l r = .ok (D, eL - eR - R.digits, (l * 2^R.digits).tdiv r) := by
  have f := storage_facts h
  have hb : 1 ≤ D.bits := by have := f.bits; omega
  have hn := scaled_inRange h hl (g.inl h)
  have hp := storage_pow_inRange h hLd
  have hq := g.tdiv_inRange h hl
  have nov := g.nov
  unfold Storage at h
  unfold Scaled.quotient
  simp only [h, storage_power h hLd, Res.bind_ok, Cnl.convert, g.wl]
  have hmul : cBin .mul (D, l) (D, 2^R.digits) = .ok (D, l * 2^R.digits) := by
    simp only [cBin, f.self, IntTy.wrap_id hb (g.inl h), IntTy.wrap_id hb hp]
    exact arith_ok hb hn
  rw [hmul]
  simp only [Res.bind_ok, IntTy.wrap_id hb hn]
  have hdiv : cBin .div (D, l * 2^R.digits) (R, r) = .ok (D, (l * 2^R.digits).tdiv r) := by
    simp only [cBin, f.absorb, IntTy.wrap_id hb hn, g.wr, g.r0, nov, ite_false]
    exact arith_ok hb hq
  rw [hdiv]
  simp only [Res.bind_ok, IntTy.wrap_id hb hq, Res.pure_eq]

/-- with no guard at all: the widening multiplication never overflows; the evaluation is a value,
or one of the two undefined cases of the built-in division -/
theorem quotient_ub_cases {L R D : IntTy} (hLd : 1 ≤ L.digits) (hR : 1 ≤ R.bits) (eL eR : Int) {l r : Int}
    (hl : L.InRange l) (hr : R.InRange r) (h : Storage L R D) :
    (∃ q, Scaled.quotient L eL R eR l r = .ok (D, eL - eR - R.digits, q))
    ∨ Scaled.quotient L eL R eR l r = .ub .divByZero
    ∨ Scaled.quotient L eL R eR l r = .ub .divOverflow := by
  have f := storage_facts h
  have hb : 1 ≤ D.bits := by have := f.bits; omega
  have hL : 1 ≤ L.bits := by unfold IntTy.digits at hLd; split at hLd <;> omega
  cases hs : D.signed with
  | true =>
    have hTs : (usualArith L R).signed = true := by rw [← f.sgn]; exact hs
    have hDl := storage_inRange_left h hL hl (Or.inl hTs)
    have hDr := storage_inRange_right h hR hr (Or.inl hTs)
    by_cases hnov : l * 2^R.digits = D.lowest ∧ r = -1
    · -- lowest / -1
      right; right
      have hn := scaled_inRange h hl hDl
      have hp := storage_pow_inRange h hLd
      have hr0 : r ≠ 0 := by omega
      have hmul : cBin .mul (D, l) (D, 2^R.digits) = .ok (D, l * 2^R.digits) := by
        simp only [cBin, f.self, IntTy.wrap_id hb hDl, IntTy.wrap_id hb hp]
        exact arith_ok hb hn
      have hc : D.signed = true ∧ l * 2^R.digits = D.lowest ∧ r = -1 := ⟨hs, hnov.1, hnov.2⟩
      have hpw := storage_power h hLd
      unfold Storage at h
      unfold Scaled.quotient
      simp only [h, hpw, Res.bind_ok, Cnl.convert, IntTy.wrap_id hb hDl]
      rw [hmul]
      simp only [Res.bind_ok, IntTy.wrap_id hb hn]
      have hdiv : cBin .div (D, l * 2^R.digits) (R, r) = .ub .divOverflow := by
        simp only [cBin, f.absorb, IntTy.wrap_id hb hn, IntTy.wrap_id hb hDr]
        rw [if_neg hr0, if_pos hc]
      rw [hdiv]
      rfl
    · by_cases hr0 : r = 0
      · right; left
        subst hr0
        have hn := scaled_inRange h hl hDl
        have hp := storage_pow_inRange h hLd
        have hmul : cBin .mul (D, l) (D, 2^R.digits) = .ok (D, l * 2^R.digits) := by
          simp only [cBin, f.self, IntTy.wrap_id hb hDl, IntTy.wrap_id hb hp]
          exact arith_ok hb hn
        have hpw := storage_power h hLd
        unfold Storage at h
        unfold Scaled.quotient
        simp only [h, hpw, Res.bind_ok, Cnl.convert, IntTy.wrap_id hb hDl]
        rw [hmul]
        simp only [Res.bind_ok, IntTy.wrap_id hb hn]
        simp only [cBin, f.absorb, IntTy.wrap_id hb hDr, ite_true]
        rfl
      · left
        exact ⟨_, quotient_eval hLd eL eR hl h (QuotGuard.of_signed h hL hR hTs hl hr hr0 hnov)⟩
  | false =>
    -- unsigned storage: every step wraps
    have hp := storage_pow_inRange h hLd
    have hpw := storage_power h hLd
    have hmul : ∀ x : Int, cBin .mul (D, x) (D, 2^R.digits) = .ok (D, D.wrap (D.wrap x * D.wrap (2^R.digits))) := by
      intro x
      simp only [cBin, f.self, arith_unsigned hs]
    by_cases hr0 : D.wrap r = 0
    · right; left
      unfold Storage at h
      unfold Scaled.quotient
      simp only [h, hpw, Res.bind_ok, Cnl.convert]
      rw [hmul]
      simp only [Res.bind_ok]
      simp only [cBin, f.absorb, hr0, ite_true]
      rfl
    · left
      unfold Storage at h
      unfold Scaled.quotient
      simp only [h, hpw, Res.bind_ok, Cnl.convert]
      rw [hmul]
      simp only [Res.bind_ok]
      have hns : ¬ (D.signed = true) := by simp [hs]
      simp only [cBin, f.absorb, hr0, hs, ite_false, false_and, arith_unsigned hs, Bool.false_eq_true]
      exact ⟨_, rfl⟩

/-- the magnitude form of truncation: `|q| ≤ |a / b| < |q| + 1`, multiplied through by `|b|` -/
theorem tdiv_magnitude (a b : Int) (hb : b ≠ 0) :
    (a.tdiv b).natAbs * b.natAbs ≤ a.natAbs ∧ a.natAbs < ((a.tdiv b).natAbs + 1) * b.natAbs := by
  rw [Int.natAbs_tdiv, show a.natAbs.div b.natAbs = a.natAbs / b.natAbs from rfl]
  have h0 : 0 < b.natAbs := by omega
  have h1 := Nat.div_add_mod a.natAbs b.natAbs
  have h2 := Nat.mod_lt a.natAbs h0
  rw [Nat.succ_mul, Nat.mul_comm (a.natAbs / b.natAbs)]
  generalize b.natAbs * (a.natAbs / b.natAbs) = m at *
  omega

end Cnl.QuotientP
