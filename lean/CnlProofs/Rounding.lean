import CnlProofs.CIntLemmas
import CnlModel.Rounding
import CnlSpec.Rounding
/-!
# Lemmas for C08: division under a rounding tag

* `Cnl.Spec`: the division-free characterisation `IsRounded` pins `roundDiv` (existence and uniqueness).
* `Cnl`: the usual arithmetic conversions pick the operand type with the larger `key`; the common
  type absorbs its operands; evaluation lemmas for `intOps` on in-range values.
* `Cnl.Rounding`: each repaired division formula evaluates, without undefined behaviour, to the
  correctly rounded quotient.

Lean core only.
-/
namespace Cnl.Spec

/-- everything `omega` needs to know about truncating division -/
theorem tdiv_tmod_facts (a b : Int) (hb : b ≠ 0) :
    b * a.tdiv b + a.tmod b = a ∧ (0 ≤ a → 0 ≤ a.tmod b ∧ a.tmod b ≤ a) ∧ (a ≤ 0 → a.tmod b ≤ 0 ∧ a ≤ a.tmod b) ∧
    (0 < b → -b < a.tmod b ∧ a.tmod b < b) ∧ (b < 0 → b < a.tmod b ∧ a.tmod b < -b) := by
  have h1 := Int.mul_tdiv_add_tmod a b
  have h2 : 0 ≤ a → 0 ≤ a.tmod b := fun h => Int.tmod_nonneg b h
  have h3 : a ≤ 0 → a.tmod b ≤ 0 := by
    intro h
    have := Int.tmod_nonneg b (a := -a) (by omega)
    rw [Int.neg_tmod] at this; omega
  have h4 : (a.tmod b).natAbs < b.natAbs := by
    rw [Int.natAbs_tmod]
    exact Nat.mod_lt _ (by omega)
  have h5 : (a.tmod b).natAbs ≤ a.natAbs := by
    rw [Int.natAbs_tmod]
    exact Nat.mod_le _ _
  refine ⟨h1, ?_, ?_, ?_, ?_⟩ <;> intro _ <;> omega

theorem ediv_emod_facts (a b : Int) (hb : 0 < b) :
    b * (a / b) + a % b = a ∧ 0 ≤ a % b ∧ a % b < b :=
  ⟨Int.mul_ediv_add_emod a b, Int.emod_nonneg a (by omega), Int.emod_lt_of_pos a hb⟩

theorem fdiv_facts (a b : Int) :
    ∃ m, b * a.fdiv b + m = a ∧ (0 < b → 0 ≤ m ∧ m < b) ∧ (b < 0 → b < m ∧ m ≤ 0) := by
  refine ⟨a.fmod b, Int.mul_fdiv_add_fmod a b, ?_, ?_⟩
  · intro h; exact ⟨Int.fmod_nonneg_of_pos a h, Int.fmod_lt_of_pos a h⟩
  · intro h
    have e : a.fmod b = -((-a).fmod (-b)) := by rw [Int.neg_fmod_neg]; omega
    have := Int.fmod_nonneg_of_pos (-a) (b := -b) (by omega)
    have := Int.fmod_lt_of_pos (-a) (b := -b) (by omega)
    omega

theorem eq_zero_of_natAbs_mul_lt {d b : Int} (h : (d * b).natAbs < b.natAbs) : d = 0 := by
  rw [Int.natAbs_mul] at h
  by_cases hd : d = 0
  · exact hd
  · have : b.natAbs ≤ d.natAbs * b.natAbs := Nat.le_mul_of_pos_left _ (by omega)
    omega

theorem natAbs_le_one_of_natAbs_mul_le {d b : Int} (hb : b ≠ 0) (h : (d * b).natAbs ≤ b.natAbs) : d.natAbs ≤ 1 := by
  rw [Int.natAbs_mul] at h
  by_cases hd : d.natAbs ≤ 1
  · exact hd
  · have : 2 * b.natAbs ≤ d.natAbs * b.natAbs := Nat.mul_le_mul_right _ (by omega)
    omega

theorem roundDiv_truncate (a b : Int) (hb : b ≠ 0) : IsRounded .truncate a b (roundDiv .truncate a b) := by
  have ⟨h1, h2, h3, h4, h5⟩ := tdiv_tmod_facts a b hb
  simp only [IsRounded, roundDiv]
  rw [Int.mul_comm (a.tdiv b) b]
  generalize b * a.tdiv b = p at *
  generalize a.tmod b = r at *
  omega

theorem roundDiv_floor (a b : Int) (hb : b ≠ 0) : IsRounded .floor a b (roundDiv .floor a b) := by
  have ⟨m, h1, h2, h3⟩ := fdiv_facts a b
  simp only [IsRounded, roundDiv]
  rw [Int.add_mul, Int.one_mul, Int.mul_comm (a.fdiv b) b]
  generalize b * a.fdiv b = p at *
  split <;> omega

theorem roundDiv_nearestUp (a b : Int) (hb : b ≠ 0) : IsRounded .nearestUp a b (roundDiv .nearestUp a b) := by
  simp only [IsRounded, roundDiv]
  have ⟨h1, h2, h3⟩ := ediv_emod_facts (2 * a * sgn b + b.natAbs) (2 * (b.natAbs : Int)) (by omega)
  generalize (2 * a * sgn b + b.natAbs) / (2 * (b.natAbs : Int)) = Q at *
  generalize (2 * a * sgn b + b.natAbs) % (2 * (b.natAbs : Int)) = M at *
  by_cases hp : 0 < b
  · have e1 : (b.natAbs : Int) = b := by omega
    have e2 : sgn b = 1 := by simp [sgn]; omega
    rw [e1] at h1 h3; rw [e2] at h1
    simp only [hp, ite_true]
    have : 2 * b * Q = 2 * Q * b := by grind
    have : 2 * (Q + 1) * b = 2 * Q * b + 2 * b := by grind
    generalize 2 * Q * b = p at *
    omega
  · have e1 : (b.natAbs : Int) = -b := by omega
    have e2 : sgn b = -1 := by simp [sgn]; omega
    rw [e1] at h1 h3; rw [e2] at h1
    simp only [hp, ite_false]
    have : 2 * -b * Q = -(2 * Q * b) := by grind
    have : 2 * (Q + 1) * b = 2 * Q * b + 2 * b := by grind
    generalize 2 * Q * b = p at *
    omega


theorem roundDiv_nearestAway (a b : Int) (hb : b ≠ 0) : IsRounded .nearestAway a b (roundDiv .nearestAway a b) := by
  simp only [IsRounded, roundDiv]
  have ⟨h1, h2, h3⟩ := ediv_emod_facts (2 * (a.natAbs : Int) + b.natAbs) (2 * (b.natAbs : Int)) (by omega)
  generalize (2 * (a.natAbs : Int) + b.natAbs) / (2 * (b.natAbs : Int)) = K at *
  generalize (2 * (a.natAbs : Int) + b.natAbs) % (2 * (b.natAbs : Int)) = M at *
  have sa : (a < 0 ∧ sgn a = -1 ∧ (a.natAbs : Int) = -a) ∨ (a = 0 ∧ sgn a = 0) ∨ (0 < a ∧ sgn a = 1 ∧ (a.natAbs : Int) = a) := by
    simp only [sgn]; omega
  have sb : (b < 0 ∧ sgn b = -1 ∧ (b.natAbs : Int) = -b) ∨ (0 < b ∧ sgn b = 1 ∧ (b.natAbs : Int) = b) := by
    simp only [sgn]; omega
  rcases sa with ⟨ha, ea, na⟩ | ⟨ha, ea⟩ | ⟨ha, ea, na⟩ <;> rcases sb with ⟨hb', eb, nb⟩ | ⟨hb', eb, nb⟩ <;>
    rw [ea, eb] <;> (try rw [na] at h1) <;> rw [nb] at h1 h3
  all_goals simp only [Int.neg_mul, Int.one_mul, Int.mul_neg, Int.neg_neg, Int.zero_mul, Int.mul_one] at h1 ⊢
  all_goals (try rw [show 2 * (b * K) = 2 * (K * b) by grind] at h1)
  all_goals (try rw [show 2 * b * K = 2 * (K * b) by grind] at h1)
  all_goals generalize K * b = p at *
  all_goals omega


theorem roundDiv_isRounded (m : RoundMode) (a b : Int) (hb : b ≠ 0) : IsRounded m a b (roundDiv m a b) := by
  cases m
  · exact roundDiv_truncate a b hb
  · exact roundDiv_nearestAway a b hb
  · exact roundDiv_nearestUp a b hb
  · exact roundDiv_floor a b hb

theorem eq_of_mul_close {q q' b : Int} (h : (q * b - q' * b).natAbs < b.natAbs) : q = q' := by
  rw [← Int.sub_mul] at h
  have := eq_zero_of_natAbs_mul_lt h
  omega

theorem isRounded_unique (m : RoundMode) (a b q q' : Int) (h : IsRounded m a b q) (h' : IsRounded m a b q') : q = q' := by
  cases m
  · simp only [IsRounded] at h h'
    apply eq_of_mul_close (b := b)
    generalize q * b = p at *
    generalize q' * b = p' at *
    omega
  · -- nearest, ties away from zero
    simp only [IsRounded] at h h'
    have hb : b ≠ 0 := by
      intro hb; subst hb; simp at h; omega
    have hd : (q - q').natAbs ≤ 1 := by
      apply natAbs_le_one_of_natAbs_mul_le hb
      rw [Int.sub_mul]
      generalize q * b = p at *
      generalize q' * b = p' at *
      omega
    have hcases : q = q' ∨ q = q' + 1 ∨ q' = q + 1 := by omega
    rcases hcases with h0 | h0 | h0
    · exact h0
    · exfalso
      subst h0
      rw [Int.add_mul, Int.one_mul] at h
      have hz : 2 * q' + 1 = 0 := by
        apply eq_zero_of_natAbs_mul_lt (b := b)
        rw [Int.add_mul, Int.one_mul, Int.mul_assoc]
        generalize q' * b = p' at *
        omega
      omega
    · exfalso
      subst h0
      rw [Int.add_mul, Int.one_mul] at h'
      have hz : 2 * q + 1 = 0 := by
        apply eq_zero_of_natAbs_mul_lt (b := b)
        rw [Int.add_mul, Int.one_mul, Int.mul_assoc]
        generalize q * b = p at *
        omega
      omega
  · simp only [IsRounded] at h h'
    apply eq_of_mul_close (b := b)
    rw [show 2 * (q + 1) * b = 2 * (q * b) + 2 * b by grind, Int.mul_assoc] at h
    rw [show 2 * (q' + 1) * b = 2 * (q' * b) + 2 * b by grind, Int.mul_assoc] at h'
    generalize q * b = p at *
    generalize q' * b = p' at *
    by_cases hp : 0 < b <;> simp only [hp, ite_true, ite_false] at h h' <;> omega
  · simp only [IsRounded] at h h'
    apply eq_of_mul_close (b := b)
    rw [Int.add_mul, Int.one_mul] at h h'
    generalize q * b = p at *
    generalize q' * b = p' at *
    by_cases hp : 0 < b <;> simp only [hp, ite_true, ite_false] at h h' <;> omega


theorem roundDiv_eq_of_isRounded {m : RoundMode} {a b q : Int} (hb : b ≠ 0) (h : IsRounded m a b q) :
    roundDiv m a b = q :=
  isRounded_unique m a b _ _ (roundDiv_isRounded m a b hb) h

/-- every mode's characterisation puts `q * b` less than `|b|` away from `a` -/
theorem close_of_isRounded {m : RoundMode} {a b q : Int} (h : IsRounded m a b q) (hb : b ≠ 0) :
    (q * b - a).natAbs < b.natAbs := by
  cases m <;> simp only [IsRounded] at h
  · generalize q * b = p at *; omega
  · generalize q * b = p at *; omega
  · have e1 : 2 * q * b = 2 * (q * b) := by grind
    have e2 : 2 * (q + 1) * b = 2 * (q * b) + 2 * b := by grind
    rw [e1, e2] at h
    generalize q * b = p at *
    split at h <;> omega
  · rw [Int.add_mul, Int.one_mul] at h
    generalize q * b = p at *
    split at h <;> omega

theorem natAbs_le_of_close {q a b : Int} (h : (q * b - a).natAbs < b.natAbs) : q.natAbs ≤ a.natAbs := by
  have h1 : (q * b).natAbs ≤ (q * b - a).natAbs + a.natAbs := by omega
  rw [Int.natAbs_mul] at h1
  have hB : 0 < b.natAbs := by omega
  by_cases hc : q.natAbs ≤ a.natAbs
  · exact hc
  · have h2 : (a.natAbs + 1) * b.natAbs ≤ q.natAbs * b.natAbs := Nat.mul_le_mul_right _ (by omega)
    have h3 : a.natAbs ≤ a.natAbs * b.natAbs := Nat.le_mul_of_pos_right _ hB
    rw [Nat.add_mul, Nat.one_mul] at h2
    omega

end Cnl.Spec

namespace Cnl.Rounding
open Cnl Cnl.Spec
/-- conversion rank with signedness as tie-break: the usual arithmetic conversions pick the
operand type with the larger key -/
def key (t : IntTy) : Nat := 2 * t.bits + (if t.signed then 0 else 1)

theorem key_inj {A B : IntTy} (h : key A = key B) : A = B := by
  obtain ⟨ab, as⟩ := A; obtain ⟨bb, bs⟩ := B
  cases as <;> cases bs <;> simp [key] at h ⊢ <;> omega

theorem usualArith_key (L R : IntTy) :
    usualArith L R = if key (promote R) ≤ key (promote L) then promote L else promote R := by
  unfold usualArith
  generalize promote L = A; generalize promote R = B
  obtain ⟨ab, as⟩ := A; obtain ⟨bb, bs⟩ := B
  cases as <;> cases bs <;> simp [key] <;> (repeat' split) <;> first | rfl | omega | (congr 1; omega) | skip
 

theorem promote_bits_ge32 (A : IntTy) : 32 ≤ (promote A).bits := by
  unfold promote; split
  · simp [i32]
  · omega

theorem promote_of_ge {T : IntTy} (h : 32 ≤ T.bits) : promote T = T := by
  unfold promote; simp; omega

theorem promote_promote (A : IntTy) : promote (promote A) = promote A :=
  promote_of_ge (promote_bits_ge32 A)

theorem usualArith_cases (L R : IntTy) : usualArith L R = promote L ∨ usualArith L R = promote R := by
  rw [usualArith_key]; split <;> simp

theorem usualArith_bits_ge (L R : IntTy) : 32 ≤ (usualArith L R).bits := by
  rcases usualArith_cases L R with h | h <;> rw [h] <;> exact promote_bits_ge32 _

theorem key_promote_ge (A : IntTy) : 64 ≤ key (promote A) := by
  have := promote_bits_ge32 A
  unfold key; omega

theorem usualArith_i32 (A : IntTy) : usualArith A i32 = promote A := by
  rw [usualArith_key]
  have := key_promote_ge A
  have : key (promote i32) = 64 := by decide
  simp only [*, ite_true]

/-- the common type absorbs either operand type -/
theorem usualArith_absorb (L R : IntTy) :
    let T := usualArith L R
    usualArith R T = T ∧ usualArith T R = T ∧ usualArith L T = T ∧ usualArith T L = T ∧ usualArith T T = T := by
  intro T
  have hT : T = if key (promote R) ≤ key (promote L) then promote L else promote R := usualArith_key L R
  have hp : promote T = T := promote_of_ge (usualArith_bits_ge L R)
  refine ⟨?_, ?_, ?_, ?_, ?_⟩ <;> rw [usualArith_key, hp] <;>
    by_cases h : key (promote R) ≤ key (promote L) <;> simp only [h, ite_true, ite_false] at hT <;> rw [hT] <;>
    split <;> first | rfl | (apply key_inj; omega)

theorem inRange_mk {T : IntTy} {v : Int} (h1 : T.lowest ≤ v) (h2 : v ≤ T.max) : T.InRange v := ⟨h1, h2⟩

/-- comparison of mathematical integers -/
def cmpInt (op : CmpOp) (v w : Int) : Bool :=
  match op with
  | .lt => decide (v < w) | .le => decide (v ≤ w) | .gt => decide (v > w)
  | .ge => decide (v ≥ w) | .eq => decide (v = w) | .ne => decide (v ≠ w)

section ev
variable {A B T : IntTy} (h : usualArith A B = T) (hb : 1 ≤ T.bits) {v w : Int}
include h hb

theorem ev_add (hv1 : T.lowest ≤ v) (hv2 : v ≤ T.max) (hw1 : T.lowest ≤ w) (hw2 : w ≤ T.max)
    (he1 : T.lowest ≤ v + w) (he2 : v + w ≤ T.max) :
    intOps.bin .add (.int A, v) (.int B, w) = .ok (.int T, v + w) := by
  simp only [intOps, cBin, h, IntTy.wrap_id hb (inRange_mk hv1 hv2), IntTy.wrap_id hb (inRange_mk hw1 hw2),
    arith_ok hb (inRange_mk he1 he2)]
  rfl

theorem ev_sub (hv1 : T.lowest ≤ v) (hv2 : v ≤ T.max) (hw1 : T.lowest ≤ w) (hw2 : w ≤ T.max)
    (he1 : T.lowest ≤ v - w) (he2 : v - w ≤ T.max) :
    intOps.bin .sub (.int A, v) (.int B, w) = .ok (.int T, v - w) := by
  simp only [intOps, cBin, h, IntTy.wrap_id hb (inRange_mk hv1 hv2), IntTy.wrap_id hb (inRange_mk hw1 hw2),
    arith_ok hb (inRange_mk he1 he2)]
  rfl

theorem ev_div (hv : T.InRange v) (hw : T.InRange w) (h0 : w ≠ 0)
    (hov : ¬(T.signed = true ∧ v = T.lowest ∧ w = -1)) (he : T.InRange (v.tdiv w)) :
    intOps.bin .div (.int A, v) (.int B, w) = .ok (.int T, v.tdiv w) := by
  simp only [intOps, cBin, h, IntTy.wrap_id hb hv, IntTy.wrap_id hb hw, h0, hov, ite_false, arith_ok hb he]
  rfl

theorem ev_mod (hv : T.InRange v) (hw : T.InRange w) (h0 : w ≠ 0)
    (hov : ¬(T.signed = true ∧ v = T.lowest ∧ w = -1)) (he : T.InRange (v.tmod w)) :
    intOps.bin .mod (.int A, v) (.int B, w) = .ok (.int T, v.tmod w) := by
  simp only [intOps, cBin, h, IntTy.wrap_id hb hv, IntTy.wrap_id hb hw, h0, hov, ite_false, arith_ok hb he]
  rfl

theorem ev_cmp (op : CmpOp) (hv1 : T.lowest ≤ v) (hv2 : v ≤ T.max) (hw1 : T.lowest ≤ w) (hw2 : w ≤ T.max) :
    intOps.cmp op (.int A, v) (.int B, w) = .ok (cmpInt op v w) := by
  simp only [intOps, cCmp, h, IntTy.wrap_id hb (inRange_mk hv1 hv2), IntTy.wrap_id hb (inRange_mk hw1 hw2)]
  cases op <;> rfl
end ev

theorem ev_neg {T : IntTy} (hp : promote T = T) (hb : 1 ≤ T.bits) {v : Int}
    (hv1 : T.lowest ≤ v) (hv2 : v ≤ T.max) (he1 : T.lowest ≤ -v) (he2 : -v ≤ T.max) :
    intOps.neg (.int T, v) = .ok (.int T, -v) := by
  simp only [intOps, cNeg, hp, IntTy.wrap_id hb (inRange_mk hv1 hv2), arith_ok hb (inRange_mk he1 he2)]
  rfl

theorem ev_cast {A T : IntTy} (hb : 1 ≤ T.bits) {v : Int} (hv1 : T.lowest ≤ v) (hv2 : v ≤ T.max) :
    intOps.cast (.int T) (.int A, v) = .ok (.int T, v) := by
  simp only [intOps, convert, IntTy.wrap_id hb (inRange_mk hv1 hv2)]

theorem lo_hi (T : IntTy) (h32 : 32 ≤ T.bits) :
    (T.lowest = 0 ∨ T.lowest = -T.max - 1) ∧ 2147483647 ≤ T.max := by
  have hp : (2:Int)^31 ≤ 2^(T.bits - 1) := two_pow_le (by omega)
  have hp' : (2:Int)^(T.bits - 1) ≤ 2^T.bits := two_pow_le (by omega)
  have e31 : (2:Int)^31 = 2147483648 := by decide
  unfold IntTy.lowest IntTy.max
  cases T.signed <;> simp <;> omega

/-- a truncated quotient that does not overflow is in range -/
theorem tdiv_inRange {T : IntTy} (h32 : 32 ≤ T.bits) {a b : Int} (ha : T.InRange a) (hb : T.InRange b)
    (hb0 : b ≠ 0) (hov : ¬(a = -T.max - 1 ∧ b = -1)) : T.InRange (a.tdiv b) := by
  have ⟨hlh, hhi⟩ := lo_hi T h32
  unfold IntTy.InRange at *
  generalize T.lowest = lo at *
  generalize T.max = hi at *
  have h1 := Int.natAbs_tdiv_le_natAbs a b
  by_cases hb1 : b = 1
  · subst hb1; simp; omega
  by_cases hbm1 : b = -1
  · subst hbm1
    rw [show (-1 : Int) = -(1:Int) by rfl, Int.tdiv_neg]; simp; omega
  have h2 : (a.tdiv b).natAbs ≤ a.natAbs / 2 := by
    rw [Int.natAbs_tdiv]
    exact Nat.div_le_div_left (by omega) (by omega)
  rcases hlh with h | h
  · have := Int.tdiv_nonneg (a := a) (b := b) (by omega) (by omega)
    omega
  · omega

/-- the value the nearest-rounding division computes, on mathematical integers -/
def nearestF (a b : Int) : Int :=
  let q := a.tdiv b
  let r := a.tmod b
  let away : Bool :=
    if r < 0 then (if b < 0 then decide (r ≤ b - r) else decide (-r ≥ b + r))
    else (if b < 0 then decide (b + r ≥ -r) else decide (r ≥ b - r))
  if (decide (r ≠ 0) && away) = true then
    (if (decide (a < 0) != decide (b < 0)) = true then q - 1 else q + 1)
  else q

theorem nearestF_eq (a b : Int) (hb : b ≠ 0) : nearestF a b = roundDiv .nearestAway a b := by
  symm
  apply roundDiv_eq_of_isRounded hb
  have ⟨h1, h2, h3, h4, h5⟩ := tdiv_tmod_facts a b hb
  simp only [nearestF, IsRounded]
  generalize a.tdiv b = q at *
  generalize a.tmod b = r at *
  have e1 : (q + 1) * b = b * q + b := by grind
  have e2 : (q - 1) * b = b * q - b := by grind
  have e3 : q * b = b * q := by grind
  by_cases hr : r < 0 <;> by_cases hbn : b < 0 <;> by_cases han : a < 0 <;> by_cases hr0 : r = 0 <;>
    simp only [hr, hbn, han, hr0, ite_true, ite_false, decide_true, decide_false, Bool.true_and, Bool.false_and,
      bne_self_eq_false, Bool.true_bne, Bool.false_bne, Bool.not_false, ne_eq, not_true_eq_false, not_false_eq_true,
      decide_eq_true_eq, Bool.false_eq_true]
  all_goals (try split)
  all_goals (simp only [e1, e2, e3]; generalize b * q = p at *; omega)
/-- the value the ties-to-+infinity division computes, on mathematical integers -/
def tiesUpF (a b : Int) : Int :=
  let q := a.tdiv b
  let r := a.tmod b
  let borrow : Bool := decide (r ≠ 0) && (decide (r < 0) != decide (b < 0))
  let quotient := if borrow = true then q - 1 else q
  let up : Bool :=
    if borrow = true then (if b < 0 then decide (r + b ≤ -r) else decide (r + b ≥ -r))
    else (if b < 0 then decide (r ≤ b - r) else decide (r ≥ b - r))
  if (decide (r ≠ 0) && up) = true then quotient + 1 else quotient

/-- the value the round-toward-−infinity division computes, on mathematical integers -/
def negInfF (a b : Int) : Int :=
  let q := a.tdiv b
  let r := a.tmod b
  if (decide (r ≠ 0) && (decide (r < 0) != decide (b < 0))) = true then q - 1 else q

theorem negInfF_eq (a b : Int) (hb : b ≠ 0) : negInfF a b = roundDiv .floor a b := by
  symm
  apply roundDiv_eq_of_isRounded hb
  have ⟨h1, h2, h3, h4, h5⟩ := tdiv_tmod_facts a b hb
  simp only [negInfF, IsRounded]
  generalize a.tdiv b = q at *
  generalize a.tmod b = r at *
  have e1 : (q + 1) * b = b * q + b := by grind
  have e2 : (q - 1) * b = b * q - b := by grind
  have e2' : (q - 1 + 1) * b = b * q := by grind
  have e3 : q * b = b * q := by grind
  by_cases hr : r < 0 <;> by_cases hbn : b < 0 <;> by_cases hr0 : r = 0 <;>
    simp only [hr, hbn, hr0, ite_true, ite_false, decide_true, decide_false, Bool.true_and, Bool.false_and,
      bne_self_eq_false, Bool.true_bne, Bool.false_bne, Bool.not_false, ne_eq, not_true_eq_false, not_false_eq_true,
      Bool.false_eq_true] <;>
    simp only [e1, e2, e2', e3] <;> generalize b * q = p at * <;> split <;> omega

theorem tiesUpF_eq (a b : Int) (hb : b ≠ 0) : tiesUpF a b = roundDiv .nearestUp a b := by
  symm
  apply roundDiv_eq_of_isRounded hb
  have ⟨h1, h2, h3, h4, h5⟩ := tdiv_tmod_facts a b hb
  simp only [tiesUpF, IsRounded]
  generalize a.tdiv b = q at *
  generalize a.tmod b = r at *
  have e1 : 2 * (q + 1) * b = 2 * (b * q) + 2 * b := by grind
  have e1' : 2 * (q + 1 + 1) * b = 2 * (b * q) + 4 * b := by grind
  have e2 : 2 * (q - 1) * b = 2 * (b * q) - 2 * b := by grind
  have e2' : 2 * (q - 1 + 1) * b = 2 * (b * q) := by grind
  have e2'' : 2 * (q - 1 + 1 + 1) * b = 2 * (b * q) + 2 * b := by grind
  have e3 : 2 * q * b = 2 * (b * q) := by grind
  by_cases hr : r < 0 <;> by_cases hbn : b < 0 <;> by_cases hr0 : r = 0 <;>
    simp only [hr, hbn, hr0, ite_true, ite_false, decide_true, decide_false, Bool.true_and, Bool.false_and,
      bne_self_eq_false, Bool.true_bne, Bool.false_bne, Bool.not_false, ne_eq, not_true_eq_false, not_false_eq_true,
      decide_eq_true_eq, Bool.false_eq_true]
  all_goals (repeat' split)
  all_goals (try simp only [e1, e1', e2, e2', e2'', e3])
  all_goals (generalize b * q = p at *; omega)
theorem zero_le_max (T : IntTy) : T.lowest ≤ 0 ∧ 0 ≤ T.max := by
  have h1 := two_pow_pos (T.bits - 1)
  have h2 := two_pow_pos T.bits
  unfold IntTy.lowest IntTy.max
  cases T.signed <;> simp <;> omega

/-- `x < 0` for a built-in `x` -/
theorem ev_isNeg {A : IntTy} (hA : 1 ≤ A.bits) {v : Int} (hv : A.InRange v) :
    intOps.cmp .lt (.int A, v) (.int i32, 0) = .ok (decide (v < 0)) := by
  have hv' := promote_inRange hA hv
  have hz := zero_le_max (promote A)
  exact ev_cmp (usualArith_i32 A) (promote_bits_ge hA) .lt hv'.1 hv'.2 hz.1 hz.2

theorem divNearest_eval {L R T : IntTy} (hLR : usualArith L R = T) (hL : 1 ≤ L.bits) (hR : 1 ≤ R.bits)
    {a b : Int} (haL : L.InRange a) (hbR : R.InRange b) (haT : T.InRange a) (hbT : T.InRange b)
    (hb0 : b ≠ 0) (hF : T.InRange (nearestF a b)) (hov : ¬(a = -T.max - 1 ∧ b = -1)) :
    divNearest intOps (.int T) (.int L, a) (.int R, b) = .ok (.int T, nearestF a b) := by
  have h32 : 32 ≤ T.bits := hLR ▸ usualArith_bits_ge L R
  have hT1 : 1 ≤ T.bits := by omega
  have ⟨hRT, hTR, _, _, hTT⟩ := hLR ▸ usualArith_absorb L R
  have hpT := promote_of_ge h32
  have hTi : usualArith T i32 = T := by rw [usualArith_i32, hpT]
  have hq := tdiv_inRange h32 haT hbT hb0 hov
  have ⟨hlh, hhi⟩ := lo_hi T h32
  have ⟨f1, f2, f3, f4, f5⟩ := tdiv_tmod_facts a b hb0
  have hov' : ¬(T.signed = true ∧ a = T.lowest ∧ b = -1) := by
    intro ⟨hs, h1, h2⟩; apply hov; refine ⟨?_, h2⟩
    rw [h1]; unfold IntTy.lowest IntTy.max; simp [hs]; omega
  have hr : T.InRange (a.tmod b) := by
    unfold IntTy.InRange at *; omega
  have hdiv := ev_div hLR hT1 haT hbT hb0 hov' hq
  have hmod := ev_mod hLR hT1 haT hbT hb0 hov' hr
  have hxneg := ev_isNeg hL haL
  have hyneg := ev_isNeg hR hbR
  have hrneg := ev_isNeg hT1 hr
  unfold nearestF at hF ⊢
  unfold IntTy.InRange at *
  generalize a.tdiv b = q at *
  generalize a.tmod b = r at *
  simp only [divNearest, lit, hdiv, hmod, hxneg, hyneg, hrneg, Res.bind_ok]
  dsimp only at hF
  have c4 : decide (r ≠ 0) = true ∨ decide (r ≠ 0) = false := by cases decide (r ≠ 0) <;> simp
  have c4r : decide (r ≠ 0) = true → r ≠ 0 := by simp
  by_cases c1 : r < 0 <;> by_cases c2 : b < 0 <;> by_cases c3 : a < 0 <;> rcases c4 with c4 | c4 <;>
    simp only [c1, c2, c3, c4, ite_true, ite_false, decide_true, decide_false, Bool.true_and, Bool.false_and,
      bne_self_eq_false, Bool.true_bne, Bool.false_bne, Bool.not_false,
      Bool.false_eq_true] at hF ⊢ <;>
    simp (disch := omega) only [ev_sub hRT hT1, ev_add hRT hT1, ev_neg hpT hT1, ev_cmp hTT hT1, ev_cmp hTi hT1,
      ev_cast hT1, ev_sub hTi hT1, ev_add hTi hT1, Res.bind_ok, Res.pure_eq, cmpInt, c4, Bool.true_and, Bool.false_and, Bool.false_eq_true, ite_false]
  all_goals
    split <;> rename_i c5 <;> simp only [c5, ite_true] at hF ⊢ <;>
    simp (disch := omega) only [ev_cast hT1, ev_sub hTi hT1, ev_add hTi hT1, Res.bind_ok]
/-- a non-zero remainder means the divisor has magnitude at least two, so the quotient is at most
half the dividend -/
theorem tdiv_half {a b : Int} (hr : a.tmod b ≠ 0) : 2 * (a.tdiv b).natAbs ≤ a.natAbs := by
  by_cases hb0 : b = 0
  · subst hb0; simp
  have h1 : (a.tmod b).natAbs = a.natAbs % b.natAbs := Int.natAbs_tmod a b
  have hb2 : 2 ≤ b.natAbs := by
    by_cases h1' : b.natAbs = 1
    · rw [h1', Nat.mod_one] at h1; omega
    · omega
  have h2 : (a.tdiv b).natAbs ≤ a.natAbs / 2 := by
    rw [Int.natAbs_tdiv]
    exact Nat.div_le_div_left hb2 (by omega)
  omega

theorem divNegInf_eval {L R T : IntTy} (hLR : usualArith L R = T) (hR : 1 ≤ R.bits)
    {a b : Int} (hbR : R.InRange b) (haT : T.InRange a) (hbT : T.InRange b)
    (hb0 : b ≠ 0) (hF : T.InRange (negInfF a b)) (hov : ¬(a = -T.max - 1 ∧ b = -1)) :
    divNegInf intOps (.int T) (.int L, a) (.int R, b) = .ok (.int T, negInfF a b) := by
  have h32 : 32 ≤ T.bits := hLR ▸ usualArith_bits_ge L R
  have hT1 : 1 ≤ T.bits := by omega
  have hpT := promote_of_ge h32
  have hTi : usualArith T i32 = T := by rw [usualArith_i32, hpT]
  have hq := tdiv_inRange h32 haT hbT hb0 hov
  have ⟨hlh, hhi⟩ := lo_hi T h32
  have ⟨f1, f2, f3, f4, f5⟩ := tdiv_tmod_facts a b hb0
  have hov' : ¬(T.signed = true ∧ a = T.lowest ∧ b = -1) := by
    intro ⟨hs, h1, h2⟩; apply hov; refine ⟨?_, h2⟩
    rw [h1]; unfold IntTy.lowest IntTy.max; simp [hs]; omega
  have hr : T.InRange (a.tmod b) := by
    unfold IntTy.InRange at *; omega
  have hdiv := ev_div hLR hT1 haT hbT hb0 hov' hq
  have hmod := ev_mod hLR hT1 haT hbT hb0 hov' hr
  have hyneg := ev_isNeg hR hbR
  have hrneg := ev_isNeg hT1 hr
  unfold negInfF at hF ⊢
  unfold IntTy.InRange at *
  generalize a.tdiv b = q at *
  generalize a.tmod b = r at *
  simp (disch := omega) only [divNegInf, lit, hdiv, hmod, hyneg, hrneg, Res.bind_ok, ev_cast hT1, ev_cmp hTi hT1, cmpInt]
  dsimp only at hF
  split <;> rename_i c5 <;> simp only [c5, ite_true] at hF ⊢ <;>
    simp (disch := omega) only [ev_cast hT1, ev_sub hTi hT1, Res.bind_ok, Res.pure_eq]

theorem divTiesUp_eval {L R T : IntTy} (hLR : usualArith L R = T) (hR : 1 ≤ R.bits)
    {a b : Int} (hbR : R.InRange b) (haT : T.InRange a) (hbT : T.InRange b)
    (hb0 : b ≠ 0) (hF : T.InRange (tiesUpF a b)) (hov : ¬(a = -T.max - 1 ∧ b = -1)) :
    divTiesUp intOps (.int T) (.int L, a) (.int R, b) = .ok (.int T, tiesUpF a b) := by
  have h32 : 32 ≤ T.bits := hLR ▸ usualArith_bits_ge L R
  have hT1 : 1 ≤ T.bits := by omega
  have ⟨hRT, hTR, _, _, hTT⟩ := hLR ▸ usualArith_absorb L R
  have hpT := promote_of_ge h32
  have hTi : usualArith T i32 = T := by rw [usualArith_i32, hpT]
  have hq := tdiv_inRange h32 haT hbT hb0 hov
  have hq2 := tdiv_half (a := a) (b := b)
  have ⟨hlh, hhi⟩ := lo_hi T h32
  have ⟨f1, f2, f3, f4, f5⟩ := tdiv_tmod_facts a b hb0
  have hov' : ¬(T.signed = true ∧ a = T.lowest ∧ b = -1) := by
    intro ⟨hs, h1, h2⟩; apply hov; refine ⟨?_, h2⟩
    rw [h1]; unfold IntTy.lowest IntTy.max; simp [hs]; omega
  have hr : T.InRange (a.tmod b) := by
    unfold IntTy.InRange at *; omega
  have hdiv := ev_div hLR hT1 haT hbT hb0 hov' hq
  have hmod := ev_mod hLR hT1 haT hbT hb0 hov' hr
  have hyneg := ev_isNeg hR hbR
  have hrneg := ev_isNeg hT1 hr
  unfold tiesUpF at hF ⊢
  unfold IntTy.InRange at *
  generalize a.tdiv b = q at *
  generalize a.tmod b = r at *
  simp (disch := omega) only [divTiesUp, lit, hdiv, hmod, hyneg, hrneg, Res.bind_ok, ev_cast hT1, ev_cmp hTi hT1, cmpInt]
  dsimp only at hF
  have c4 : (decide (r ≠ 0) = true ∧ r ≠ 0) ∨ (decide (r ≠ 0) = false ∧ r = 0) := by
    by_cases h : r = 0 <;> simp [h]
  by_cases c1 : r < 0 <;> by_cases c2 : b < 0 <;> rcases c4 with ⟨c4, c4'⟩ | ⟨c4, c4'⟩ <;>
    simp only [c1, c2, c4, ite_true, ite_false, decide_true, decide_false, Bool.true_and, Bool.false_and,
      bne_self_eq_false, Bool.true_bne, Bool.false_bne, Bool.not_false,
      Bool.false_eq_true] at hF ⊢ <;>
    simp (disch := omega) only [ev_sub hRT hT1, ev_add hTR hT1, ev_neg hpT hT1, ev_cmp hTT hT1,
      ev_cast hT1, ev_sub hTi hT1, ev_add hTi hT1, Res.bind_ok, Res.pure_eq, cmpInt]
  all_goals
    split <;> rfl

/-! ## the four modes together -/

/-- the rounding the tag of a `rounding_integer` prescribes -/
def modeOf : RdMode → RoundMode
  | .nat => .truncate | .nrst => .nearestAway | .tpi => .nearestUp | .ninf => .floor

theorem roundDiv_neg_one (m : RoundMode) (a : Int) : roundDiv m a (-1) = -a := by
  apply roundDiv_eq_of_isRounded (by decide)
  cases m <;> simp [IsRounded] <;> omega

/-- division under any rounding tag on built-in operands: the correctly rounded quotient, in the
type of the built-in `/`, with no undefined behaviour on the way -/
theorem binOp_div_eval (mode : RdMode) {L R : IntTy} (hL : 1 ≤ L.bits) (hR : 1 ≤ R.bits)
    {a b : Int} (haL : L.InRange a) (hbR : R.InRange b)
    (haT : (usualArith L R).InRange a) (hbT : (usualArith L R).InRange b) (hb0 : b ≠ 0)
    (hq : (usualArith L R).InRange (roundDiv (modeOf mode) a b)) :
    binOp intOps mode .div (.int L, a) (.int R, b)
      = .ok (.int (usualArith L R), roundDiv (modeOf mode) a b) := by
  have hov : ¬(a = -(usualArith L R).max - 1 ∧ b = -1) := by
    intro ⟨h1, h2⟩
    subst h2
    rw [roundDiv_neg_one, h1] at hq
    have := hq.2
    omega
  have h32 := usualArith_bits_ge L R
  cases mode with
  | nat =>
    have hq' : (usualArith L R).InRange (a.tdiv b) := hq
    have hov' : ¬((usualArith L R).signed = true ∧ a = (usualArith L R).lowest ∧ b = -1) := by
      intro ⟨hs, h1, h2⟩; apply hov; refine ⟨?_, h2⟩
      rw [h1]; unfold IntTy.lowest IntTy.max; simp [hs]; omega
    exact ev_div rfl (by omega) haT hbT hb0 hov' hq'
  | nrst =>
    simp only [modeOf, ← nearestF_eq a b hb0] at hq ⊢
    exact divNearest_eval rfl hL hR haL hbR haT hbT hb0 hq hov
  | tpi =>
    simp only [modeOf, ← tiesUpF_eq a b hb0] at hq ⊢
    exact divTiesUp_eval rfl hR hbR haT hbT hb0 hq hov
  | ninf =>
    simp only [modeOf, ← negInfF_eq a b hb0] at hq ⊢
    exact divNegInf_eval rfl hR hbR haT hbT hb0 hq hov

theorem binOp_other (R : RepOps) (mode : RdMode) (op : BinOp) (x y : Num) (h : op ≠ .div) :
    binOp R mode op x y = R.bin op x y := by
  cases op <;> cases mode <;> first | rfl | exact absurd rfl h

theorem binOp_native_div (R : RepOps) (x y : Num) : binOp R .nat .div x y = R.bin .div x y := rfl
end Cnl.Rounding
