import CnlProofs.Scaled
import CnlProofs.Overflow
import CnlModel.ScaledWrapped
/-!
# Lemmas for C02 over wrapped representations (`CnlModel/ScaledWrapped.lean`)

`/` and `%` on `scaled_integer<overflow_integer<T, tag>, power<e, radix>>` unfold to the tagged operator of the overflow
layer on the two built-in representations; inside the division guard that operator is the built-in one.
-/
namespace Cnl.ScaledWrappedP
open Cnl Cnl.Spec Cnl.Layered Cnl.ScaledP Cnl.ScaledWrapped

theorem bin_scOv (op : BinOp) (hop : op = .div ∨ op = .mod) (tag : OvTag) (L R : IntTy) (eL eR : Int) (ρ : Nat) (l r : Int) :
    Layered.bin op (scOv L tag eL ρ l) (scOv R tag eR ρ r)
      = (Overflow.binOp intOps tag op (.int L, l) (.int R, r)).map
          (fun v => (.sc (.ov v.1 tag) (Scaled.resultExp op eL eR) ρ, v.2)) := by
  rcases hop with rfl | rfl <;>
    simp [Layered.bin, level, Ty.depth, ops, binWith, balance, binHeads, scOv, Scaled.binOp, Scaled.isZeroDegree]
  all_goals (cases Overflow.binOp intOps tag _ (Ty.int L, l) (Ty.int R, r) <;> rfl)

/-- the tagged `/` and `%` on built-in representations, inside the guard -/
theorem ovBinOp_div (tag : OvTag) {L R : IntTy} (hL : 1 ≤ L.bits) (hR : 1 ≤ R.bits)
    (hs : tag ≠ .nat → L.signed = R.signed) {l r : Int} (hl : L.InRange l) (hr : R.InRange r) (g : DivGuard L R l r) :
    Overflow.binOp intOps tag .div (.int L, l) (.int R, r) = .ok (.int (usualArith L R), l.tdiv r) := by
  by_cases ht : tag = .nat
  · subst ht
    simp only [Overflow.binOp, Overflow.binOpOn, intOps, liftTV, cBin_div g]; rfl
  · have h := Overflow.checkedBin_div_eq .builtin ht hL hR (hs ht) hl hr g.r0
    have : Overflow.binOp intOps tag .div (.int L, l) (.int R, r)
        = liftTV (Overflow.checkedBin .builtin tag .div (L, l) (R, r)) := by
      cases tag <;> first | exact absurd rfl ht | rfl
    rw [this, h, Overflow.want_in g.tdiv_inRange]; rfl

theorem ovBinOp_mod (tag : OvTag) {L R : IntTy} {l r : Int} (g : DivGuard L R l r) :
    Overflow.binOp intOps tag .mod (.int L, l) (.int R, r) = .ok (.int (usualArith L R), l.tmod r) := by
  by_cases ht : tag = .nat
  · subst ht
    simp only [Overflow.binOp, Overflow.binOpOn, intOps, liftTV, cBin_mod g]; rfl
  · have htag : (tag == OvTag.nat) = false := by simpa using ht
    have : Overflow.binOp intOps tag .mod (.int L, l) (.int R, r)
        = liftTV (Overflow.checkedBin .builtin tag .mod (L, l) (R, r)) := by
      cases tag <;> first | exact absurd rfl ht | rfl
    rw [this]
    simp [Overflow.checkedBin, htag, Overflow.hasBuiltin, Overflow.isOverflowBin, Overflow.isShift, cBin_mod g, liftTV, Res.map]

end Cnl.ScaledWrappedP
