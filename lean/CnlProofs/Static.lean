import CnlProofs.StaticT
/-!
# Lemmas for C11: the static_number composition is never silently wrong (the `Narrowest = int` instances, histories)

The typed lemmas (every narrowest type, multi-word storage, built-in operands) are in `CnlProofs/StaticT.lean`; this
file derives the instances for `Narrowest = int` — now for every digit count, the storage beyond 127 digits being
the multi-word two's-complement integer of C10 —, the shifts, and the induction over histories (`eval_agrees`).
Lean core only.
-/
namespace Cnl.Static
open Cnl Cnl.Spec Cnl.Elastic Cnl.Rounding

/-! ## ranges -/

theorem toE_inRange {x : SNum} (hx : x.InRange) : (toE x).InRange := hx

theorem typed_inRange {x : SNum} (hx : x.InRange) : (⟨narrowest, x⟩ : TNum).InRange := hx

theorem fits_of_inRange {x : SNum} (hx : x.InRange) : Fits x.digits true x.value := hx

theorem inRange_of_fits_true {d : Nat} {e v : Int} (h : Fits d true v) : (⟨d, e, v⟩ : SNum).InRange := h

theorem exactBinT_int (m : RoundMode) (op : BinOp) (x y : SNum) :
    (exactBinT m op ⟨narrowest, x⟩ ⟨narrowest, y⟩).x = exactBin m op x y := by
  simp [exactBinT, narrowest, i32]

theorem exactBinT_int_inRange {m : RoundMode} {op : BinOp} {x y : SNum}
    (h : (exactBinT m op ⟨narrowest, x⟩ ⟨narrowest, y⟩).InRange) : (exactBin m op x y).InRange := by
  have e := exactBinT_int m op x y
  have hs : (exactBinT m op ⟨narrowest, x⟩ ⟨narrowest, y⟩).n.signed = true := by
    simp [exactBinT, resN, narrowest, i32]
  have h' : Fits (exactBinT m op ⟨narrowest, x⟩ ⟨narrowest, y⟩).x.digits true
      (exactBinT m op ⟨narrowest, x⟩ ⟨narrowest, y⟩).x.value := by
    have h2 := h
    unfold TNum.InRange ENum.InRange TNum.toE at h2
    simp only [hs] at h2
    exact h2
  rw [e] at h'
  exact h'

/-! ## alignment: `scale<k>` -/

theorem rep_facts {D : Nat} {rep : IntTy} (hR : storage narrowest D = some rep) :
    rep.signed = true ∧ D ≤ rep.digits ∧ 1 ≤ rep.bits ∧ rep.digits < rep.bits := by
  have ⟨hs, hd, hb⟩ := storage_spec hR
  have hs' : rep.signed = true := hs
  have hb1 : 1 ≤ rep.bits := by omega
  exact ⟨hs', Nat.le_trans (Nat.le_max_right _ _) hd, hb1, digits_lt_bits hs' hb1⟩

/-- `x << constant<k>` for a signed-`int`-narrowest elastic number: no hypothesis on the digits -/
theorem shl_toE (x : SNum) (k : Nat) (hx : x.InRange) (hwf : ∀ m, elShlConst (toE x) k ≠ .ill m) :
    ∃ n, elShlConst (toE x) k = .ok ⟨x.digits + k, n, x.value * 2^k⟩ := by
  cases hR : storage narrowest (x.digits + k) with
  | none =>
    have : elShlConst (toE x) k = .ill "no storage for the digits" := by simp only [elShlConst, toE, hR]
    exact absurd this (hwf _)
  | some rep =>
    have ⟨hRs', hRd, hb1, _⟩ := rep_facts hR
    have hxR : rep.InRange x.value :=
      inRange_of_fits (by omega) (fits_of_inRange hx) (fun h => by rw [hRs'] at h; cases h)
    have hPs : (promote rep).signed = true := promote_signed_of_signed hRs'
    have hk : ¬((k : Int) < 0 ∨ (k : Int) ≥ (promote rep).bits) := by
      have := promote_bits_le rep
      have := digits_lt_bits hRs' hb1
      omega
    have hs : Fits (x.digits + k) true (x.value * 2^k) := shl_bound (k := k) (fits_of_inRange hx)
    have hsP : (promote rep).InRange (x.value * 2^k) :=
      inRange_of_fits (by have := promote_digits_le hb1; omega) hs (fun h => by rw [hPs] at h; cases h)
    have h1 : elShlConst (toE x) k =
        (match storage ⟨32, true⟩ (x.digits + k) with
         | some F => .ok ⟨x.digits + k, ⟨32, true⟩, F.wrap (x.value * 2^k)⟩
         | none => .ill "no storage for the digits") := by
      simp only [elShlConst, toE, hR, Cnl.convert, IntTy.wrap_id hb1 hxR, cBin, hk, ite_false, Int.toNat_natCast,
        IntTy.wrap_id (promote_bits_ge hb1) hsP, hPs]
      rfl
    have hR' : storage ⟨32, true⟩ (x.digits + k) = some rep := hR
    rw [hR'] at h1
    have hsR : rep.InRange (x.value * 2^k) :=
      inRange_of_fits (by omega) hs (fun h => by rw [hRs'] at h; cases h)
    simp only [IntTy.wrap_id hb1 hsR] at h1
    exact ⟨_, h1⟩

/-- `scale<k>` either multiplies by `2^k` exactly, adding `k` digits, or is ill-formed -/
theorem scaleUp_spec (x : SNum) (k : Nat) (hx : x.InRange) :
    scaleUp x k = .ok ⟨x.digits + k, x.exp - k, x.value * 2^k⟩ ∨ ∃ m, scaleUp x k = .ill m := by
  rcases scaleUpT_spec ⟨narrowest, x⟩ k (typed_inRange hx) with h | ⟨m, h⟩
  · left; simp only [scaleUp, h, map_ok]
  · right; exact ⟨m, by simp only [scaleUp, h, map_ill]⟩

theorem scaleUp_inRange {x : SNum} (k : Nat) (hx : x.InRange) :
    (⟨x.digits + k, x.exp - k, x.value * 2^k⟩ : SNum).InRange :=
  shl_bound (k := k) (fits_of_inRange hx)

/-! ## the operators of a static number -/

theorem binOp_addsub_spec (c : Cfg) (op : BinOp) (hop : op = .add ∨ op = .sub) (x y : SNum)
    (hx : x.InRange) (hy : y.InRange) :
    (Static.binOp c op x y = .ok (exactBin (rmode c.mode) op x y) ∧ (exactBin (rmode c.mode) op x y).InRange) ∨
      ∃ m, Static.binOp c op x y = .ill m := by
  rcases hop with h | h <;> subst h
  · rcases binOpT_add_spec c _ _ (typed_inRange hx) (typed_inRange hy) with ⟨h, hr⟩ | ⟨m, h⟩
    · left; exact ⟨by simp only [Static.binOp, h, map_ok, exactBinT_int], exactBinT_int_inRange hr⟩
    · right; exact ⟨m, by simp only [Static.binOp, h, map_ill]⟩
  · rcases binOpT_sub_spec c _ _ (typed_inRange hx) (typed_inRange hy) with ⟨h, hr⟩ | ⟨m, h⟩
    · left; exact ⟨by simp only [Static.binOp, h, map_ok, exactBinT_int], exactBinT_int_inRange hr⟩
    · right; exact ⟨m, by simp only [Static.binOp, h, map_ill]⟩

theorem binOp_mul_spec (c : Cfg) (x y : SNum) (hx : x.InRange) (hy : y.InRange) :
    (Static.binOp c .mul x y = .ok (exactBin (rmode c.mode) .mul x y) ∧
        (exactBin (rmode c.mode) .mul x y).InRange) ∨
      ∃ m, Static.binOp c .mul x y = .ill m := by
  rcases binOpT_mul_spec c _ _ (typed_inRange hx) (typed_inRange hy) with ⟨h, hr⟩ | ⟨m, h⟩
  · left; exact ⟨by simp only [Static.binOp, h, map_ok, exactBinT_int], exactBinT_int_inRange hr⟩
  · right; exact ⟨m, by simp only [Static.binOp, h, map_ill]⟩

theorem binOp_div_spec (c : Cfg) (x y : SNum) (hx : x.InRange) (hy : y.InRange) (h0 : y.value ≠ 0) :
    (Static.binOp c .div x y = .ok (exactBin (rmode c.mode) .div x y) ∧
        (exactBin (rmode c.mode) .div x y).InRange) ∨
      ∃ m, Static.binOp c .div x y = .ill m := by
  rcases binOpT_div_spec c _ _ (typed_inRange hx) (typed_inRange hy) h0 with ⟨h, hr⟩ | ⟨m, h⟩
  · left; exact ⟨by simp only [Static.binOp, h, map_ok, exactBinT_int], exactBinT_int_inRange hr⟩
  · right; exact ⟨m, by simp only [Static.binOp, h, map_ill]⟩

/-- every operator of a static number on in-range operands: the exact (for `/`: correctly rounded)
result in its declared digits, or an ill-formed instantiation — never a signal, never undefined -/
theorem binOp_spec (c : Cfg) (op : BinOp) (hop : IsArith op) (x y : SNum)
    (hx : x.InRange) (hy : y.InRange) (h0 : op = .div → y.value ≠ 0) :
    (Static.binOp c op x y = .ok (exactBin (rmode c.mode) op x y) ∧ (exactBin (rmode c.mode) op x y).InRange) ∨
      ∃ m, Static.binOp c op x y = .ill m := by
  rcases hop with h | h | h | h
  · exact binOp_addsub_spec c op (.inl h) x y hx hy
  · exact binOp_addsub_spec c op (.inr h) x y hx hy
  · subst h; exact binOp_mul_spec c x y hx hy
  · subst h; exact binOp_div_spec c x y hx hy (h0 rfl)

/-! ## unary minus, comparison -/

theorem neg_spec (x : SNum) (hx : x.InRange) :
    (Static.neg x = .ok ⟨x.digits, x.exp, -x.value⟩ ∧ (⟨x.digits, x.exp, -x.value⟩ : SNum).InRange) ∨
      ∃ m, Static.neg x = .ill m := by
  rcases negT_spec ⟨narrowest, x⟩ (typed_inRange hx) with ⟨h, hf⟩ | ⟨m, h⟩
  · left; exact ⟨by simp only [Static.neg, h, map_ok], hf⟩
  · right; exact ⟨m, by simp only [Static.neg, h, map_ill]⟩

theorem cmp_spec (op : CmpOp) (x y : SNum) (hx : x.InRange) (hy : y.InRange) :
    Static.cmp op x y = .ok (cmpExact op (alignL x.exp y.exp x.value) (alignR x.exp y.exp y.value)) ∨
      ∃ m, Static.cmp op x y = .ill m :=
  cmpT_spec op ⟨narrowest, x⟩ ⟨narrowest, y⟩ (typed_inRange hx) (typed_inRange hy)

/-! ## conversion -/

theorem narrowDigits_fits (c : Cfg) (D : Nat) {v : Int} (h : -(2^D - 1 : Int) ≤ v ∧ v ≤ 2^D - 1) :
    narrowDigits c D v = .ok v := by
  have h1 : ¬ v > 2^D - 1 := by omega
  have h2 : ¬ v < -(2^D - 1 : Int) := by omega
  simp only [narrowDigits, h1, h2, ite_false]

/-- a value the overflow-checked narrowing returns is in range of the destination -/
theorem narrowDigits_inRange (c : Cfg) (D : Nat) (v w : Int) (h : narrowDigits c D v = .ok w) :
    -(2^D - 1 : Int) ≤ w ∧ w ≤ 2^D - 1 := by
  have hp := two_pow_pos D
  unfold narrowDigits at h
  by_cases h1 : v > 2^D - 1
  · simp only [h1, ite_true] at h
    cases ht : c.tag <;> simp only [ht] at h <;> first | cases h; omega | cases h
  · by_cases h2 : v < -(2^D - 1 : Int)
    · simp only [h1, h2, ite_true, ite_false] at h
      cases ht : c.tag <;> simp only [ht] at h <;> first | cases h; omega | cases h
    · simp only [h1, h2, ite_false] at h
      cases h; omega

/-- the overflow-checked narrowing agrees with what the tag prescribes, unless it is ill-formed
(an overflow under the native tag is outside the model) -/
theorem narrowDigits_agrees (c : Cfg) (D : Nat) (E : Int) (w : Int)
    (hwf : ∀ m, narrowDigits c D w ≠ .ill m) :
    Agrees c.tag (narrowDigits c D w >>= fun v => .ok ⟨D, E, v⟩) (idealNarrow c.tag D E w) := by
  unfold narrowDigits idealNarrow at *
  by_cases h1 : w > 2^D - 1
  · simp only [h1, ite_true] at hwf ⊢
    cases ht : c.tag <;> simp only [ht] at hwf ⊢ <;> simp [Agrees] at hwf ⊢
  · by_cases h2 : w < -(2^D - 1 : Int)
    · simp only [h1, h2, ite_true, ite_false] at hwf ⊢
      cases ht : c.tag <;> simp only [ht] at hwf ⊢ <;> simp [Agrees] at hwf ⊢
    · simp only [h1, h2, ite_false, Res.bind_ok]
      exact ⟨rfl, rfl⟩

/-- the conversion is the overflow-checked narrowing of the rescaled value — exactly rescaled when the
exponent does not grow, rounded otherwise (a mixed-type rounding division by `2^k`, whose divisor has
its own storage type) — outside the two open defect classes -/
theorem convert_core (c : Cfg) (D : Nat) (E : Int) (x : SNum) (hx : x.InRange) (hnd : ¬ KnownDefect c E x) :
    convert c D E x = (narrowDigits c D (rescale (rmode c.mode) E x.exp x.value) >>= fun v => .ok ⟨D, E, v⟩) ∨
      ∃ m, convert c D E x = .ill m := by
  rcases convertT_core c narrowest D E ⟨narrowest, x⟩ (typed_inRange hx) (fun h => by cases h) hnd with h | ⟨m, h⟩
  · left
    have hs : narrowest.signed = true := rfl
    simp only [convert, h, hs, narrowTo_true]
    cases narrowDigits c D (rescale (rmode c.mode) E x.exp x.value) <;> rfl
  · right; exact ⟨m, by simp only [convert, h, map_ill]⟩

theorem convert_agrees (c : Cfg) (D : Nat) (E : Int) (x : SNum) (hx : x.InRange) (hnd : ¬ KnownDefect c E x)
    (hwf : ∀ m, convert c D E x ≠ .ill m) :
    Agrees c.tag (convert c D E x) (idealCvt c D E (.val x.exp x.value)) ∧
      ∀ z, convert c D E x = .ok z → z.InRange := by
  rcases convert_core c D E x hx hnd with h | ⟨m, h⟩
  · have hn : ∀ m, narrowDigits c D (rescale (rmode c.mode) E x.exp x.value) ≠ .ill m := by
      intro m hm; rw [hm] at h; exact hwf m h
    rw [h]
    refine ⟨narrowDigits_agrees c D E _ hn, fun z hz => ?_⟩
    cases hv : narrowDigits c D (rescale (rmode c.mode) E x.exp x.value) with
    | ok w =>
      rw [hv] at hz; simp only [Res.bind_ok] at hz; cases hz
      exact narrowDigits_inRange c D _ w hv
    | _ => rw [hv] at hz; cases hz
  · exact absurd h (hwf m)

/-! ## shifts -/

section shifts
open Cnl.Overflow (shl_test_pos shl_test_neg shr_pos_bounds shr_neg_bounds cShr_ev cShl_ev mul_pow_ge mul_pow_le)

theorem fits_shr {D : Nat} {v : Int} (hv : Fits D true v) (j : Nat) : Fits D true (v / 2^j) := by
  have hp := two_pow_pos j
  have hD := two_pow_pos D
  have h := (fits_iff.mp hv).1
  rw [fits_iff]
  refine ⟨?_, fun h => by cases h⟩
  by_cases h0 : 0 ≤ v
  · have ⟨b1, b2⟩ := shr_pos_bounds hp h0; omega
  · have ⟨b1, b2⟩ := shr_neg_bounds hp (show v < 0 by omega); omega

/-- the run-time `>>` of the elastic layer is the floor quotient (counts up to the digit count) -/
theorem elShift_shr_spec {D : Nat} {v : Int} (hv : Fits D true v) {j : Nat} (hj : j ≤ D) :
    elShift .shr D v (j : Int) = .ok (v / 2^j) ∨ ∃ m, elShift .shr D v (j : Int) = .ill m := by
  cases hR : storage narrowest D with
  | none => right; exact ⟨"no storage for the digits", by simp only [elShift, hR]⟩
  | some rep =>
    left
    have ⟨hs, hD, hb1, hlt⟩ := rep_facts hR
    have hpb := promote_bits_le rep
    have hq : rep.InRange (v / 2^j) :=
      inRange_of_fits hD (fits_shr hv j) (fun h => by rw [hs] at h; cases h)
    simp only [elShift, hR, cShr_ev (B := i32) (show j < (promote rep).bits by omega), IntTy.wrap_id hb1 hq]

/-- the run-time `<<` of the elastic layer is exact when the product fits the digits -/
theorem elShift_shl_spec {D : Nat} {v : Int} {j : Nat} (hj : j ≤ D) (hf : Fits D true (v * 2^j)) :
    elShift .shl D v (j : Int) = .ok (v * 2^j) ∨ ∃ m, elShift .shl D v (j : Int) = .ill m := by
  cases hR : storage narrowest D with
  | none => right; exact ⟨"no storage for the digits", by simp only [elShift, hR]⟩
  | some rep =>
    left
    have ⟨hs, hD, hb1, hlt⟩ := rep_facts hR
    have hpb := promote_bits_le rep
    have hq : rep.InRange (v * 2^j) := inRange_of_fits hD hf (fun h => by rw [hs] at h; cases h)
    simp only [elShift, hR, cShl_ev (B := i32) (show j < (promote rep).bits by omega),
      IntTy.wrap_id (promote_bits_ge hb1) (promote_inRange hb1 hq), IntTy.wrap_id hb1 hq]

theorem elNeg_spec {D : Nat} {v : Int} (hv : Fits D true v) :
    elNeg D v = .ok (-v) ∨ ∃ m, elNeg D v = .ill m := by
  rcases elNegE_spec ⟨D, narrowest, v⟩ hv with ⟨h, _⟩ | ⟨m, h⟩
  · left; simp only [elNeg, h]
  · right; exact ⟨"digits exceed the widest integer", by simp only [elNeg, h]⟩

theorem natCast_sub_eq {a b : Nat} (h : b ≤ a) : ((a : Int) - (b : Int)) = ((a - b : Nat) : Int) := by omega

theorem two_pow_split {a b : Nat} (h : b ≤ a) : (2:Int)^a = 2^(a - b) * 2^b := by
  rw [← two_pow_add]; congr 1; omega

theorem bne_zero_eq (q : Int) (P : Prop) [Decidable P] (h : q ≠ 0 ↔ P) : (q != 0) = decide P := by
  by_cases hq : q = 0
  · have : ¬P := fun hp => (h.mpr hp) hq
    simp [hq, this]
  · have : P := h.mp hq
    simp [hq, this]

theorem bne_negone_eq (q : Int) (P : Prop) [Decidable P] (h : q ≠ -1 ↔ P) : (q != -1) = decide P := by
  by_cases hq : q = -1
  · have : ¬P := fun hp => (h.mpr hp) hq
    simp [hq, this]
  · have : P := h.mp hq
    simp [hq, this]

/-- the positive test fires exactly when `x · 2^j` exceeds `2^pd − 1` (`pd` the result's digits) -/
theorem isOverflowShl_pos_spec {pd D : Nat} {x : Int} (hx : Fits D true x) {j : Nat} (h1 : D ≤ pd) (h2 : pd ≤ D + j) :
    isOverflowShl true pd D x (j : Int) = .ok (decide (x * 2^j > 2^pd - 1)) ∨
      ∃ m, isOverflowShl true pd D x (j : Int) = .ill m := by
  have hpj := two_pow_pos j
  have hpp := two_pow_pos pd
  have hb := (fits_iff.mp hx).1
  have hle := two_pow_le h1
  by_cases hx0 : x > 0
  · by_cases hj0 : (j : Int) > 0
    · by_cases hjp : (j : Int) < pd
      · have hjp' : j ≤ pd := by omega
        rcases elShift_shr_spec hx (show pd - j ≤ D by omega) with h | ⟨m, h⟩
        · left
          have ht := shl_test_pos (l := x) (two_pow_pos (pd - j)) hpj hx0
          rw [← two_pow_split hjp'] at ht
          simp only [isOverflowShl, hx0, hj0, hjp, ite_true, natCast_sub_eq hjp', h, Res.bind_ok, Res.pure_eq,
            bne_zero_eq _ _ ht]
        · right; exact ⟨m, by simp only [isOverflowShl, hx0, hj0, hjp, ite_true, natCast_sub_eq hjp', h, bind_ill]⟩
      · left
        have := two_pow_le (show pd ≤ j by omega)
        have := mul_pow_ge hpj (show 1 ≤ x by omega)
        have hgt : x * 2^j > 2^pd - 1 := by omega
        simp only [isOverflowShl, hx0, hj0, hjp, ite_true, ite_false, hgt, decide_true]
    · left
      have hj' : j = 0 := by omega
      subst hj'
      have hng : ¬ x * 2^0 > 2^pd - 1 := by simp; omega
      simp only [isOverflowShl, hx0, hj0, ite_true, ite_false, hng, decide_false]
  · left
    have := (Cnl.Overflow.mul_sign_facts x (2^j)).2.2.2 (by omega) (by omega)
    have hng : ¬ x * 2^j > 2^pd - 1 := by omega
    simp only [isOverflowShl, hx0, ite_true, ite_false, hng, decide_false]

/-- the (repaired) negative test fires exactly when `x · 2^j` is below `−(2^pd − 1)` -/
theorem isOverflowShl_neg_spec {pd D : Nat} {x : Int} (hx : Fits D true x) {j : Nat} (h1 : D ≤ pd) (h2 : pd ≤ D + j) :
    isOverflowShl false pd D x (j : Int) = .ok (decide (x * 2^j < -(2^pd - 1 : Int))) ∨
      ∃ m, isOverflowShl false pd D x (j : Int) = .ill m := by
  have hpj := two_pow_pos j
  have hpp := two_pow_pos pd
  have hb := (fits_iff.mp hx).1
  have hle := two_pow_le h1
  have hf : (false = true) = False := by simp
  by_cases hx0 : x < 0
  · by_cases hj0 : (j : Int) > 0
    · by_cases hjp : (j : Int) < pd
      · have hjp' : j ≤ pd := by omega
        have hnx : Fits D true (-x) := by rw [fits_iff]; exact ⟨by omega, fun h => by cases h⟩
        rcases elNeg_spec hx with hn | ⟨m, hn⟩
        · rcases elShift_shr_spec hnx (show pd - j ≤ D by omega) with h | ⟨m, h⟩
          · left
            have ht := shl_test_pos (l := -x) (two_pow_pos (pd - j)) hpj (by omega)
            rw [← two_pow_split hjp', Int.neg_mul] at ht
            have ht' : -x / 2^(pd - j) ≠ 0 ↔ x * 2^j < -(2^pd - 1 : Int) := by rw [ht]; omega
            simp only [isOverflowShl, hf, ite_false, hx0, hj0, hjp, ite_true, natCast_sub_eq hjp', hn, h, Res.bind_ok,
              Res.pure_eq, bne_zero_eq _ _ ht']
          · right
            exact ⟨m, by simp only [isOverflowShl, hf, ite_false, hx0, hj0, hjp, ite_true, natCast_sub_eq hjp', hn, h,
              Res.bind_ok, bind_ill]⟩
        · right
          exact ⟨m, by simp only [isOverflowShl, hf, ite_false, hx0, hj0, hjp, ite_true, hn, bind_ill]⟩
      · left
        have := two_pow_le (show pd ≤ j by omega)
        have := mul_pow_le hpj (show x ≤ -1 by omega)
        have hlt : x * 2^j < -(2^pd - 1 : Int) := by omega
        simp only [isOverflowShl, hf, hx0, hj0, hjp, ite_true, ite_false, hlt, decide_true]
    · left
      have hj' : j = 0 := by omega
      subst hj'
      have hng : ¬ x * 2^0 < -(2^pd - 1 : Int) := by simp; omega
      simp only [isOverflowShl, hf, hx0, hj0, ite_true, ite_false, hng, decide_false]
  · left
    have := (Cnl.Overflow.mul_sign_facts x (2^j)).1 (by omega) (by omega)
    have hng : ¬ x * 2^j < -(2^pd - 1 : Int) := by omega
    simp only [isOverflowShl, hf, hx0, ite_true, ite_false, hng, decide_false]

/-- the **as-found** negative test, for counts below the digit count, fires exactly when `x · 2^j` is
below `−2^pd`: it lets `−2^pd`, one below the symmetric range, through -/
theorem isOverflowShlNegOrig_spec {pd D : Nat} {x : Int} (hx : Fits D true x) {j : Nat} (h1 : D ≤ pd)
    (h2 : pd ≤ D + j) (hjp : (j : Int) < pd) :
    isOverflowShlNegOrig pd D x (j : Int) = .ok (decide (x * 2^j < -(2^pd : Int))) ∨
      ∃ m, isOverflowShlNegOrig pd D x (j : Int) = .ill m := by
  have hpj := two_pow_pos j
  have hpp := two_pow_pos pd
  have hb := (fits_iff.mp hx).1
  by_cases hx0 : x < 0
  · by_cases hj0 : (j : Int) > 0
    · have hjp' : j ≤ pd := by omega
      rcases elShift_shr_spec hx (show pd - j ≤ D by omega) with h | ⟨m, h⟩
      · left
        have ht := shl_test_neg (l := x) (two_pow_pos (pd - j)) hpj hx0
        rw [← two_pow_split hjp'] at ht
        simp only [isOverflowShlNegOrig, hx0, hj0, hjp, ite_true, natCast_sub_eq hjp', h, Res.bind_ok, Res.pure_eq,
          bne_negone_eq _ _ ht]
      · right; exact ⟨m, by simp only [isOverflowShlNegOrig, hx0, hj0, hjp, ite_true, natCast_sub_eq hjp', h, bind_ill]⟩
    · left
      have hj' : j = 0 := by omega
      subst hj'
      have hD : (2:Int)^D ≤ 2^pd := two_pow_le h1
      have hng : ¬ x * 2^0 < -(2^pd : Int) := by simp; omega
      simp only [isOverflowShlNegOrig, hx0, hj0, ite_true, ite_false, hng, decide_false]
  · left
    have := (Cnl.Overflow.mul_sign_facts x (2^j)).1 (by omega) (by omega)
    have hng : ¬ x * 2^j < -(2^pd : Int) := by omega
    simp only [isOverflowShlNegOrig, hx0, ite_false, hng, decide_false]

theorem react_eq_narrow_pos (c : Cfg) (D : Nat) (E : Int) {w : Int} (ht : c.tag ≠ .nat) (h : w > 2^D - 1) :
    mkS D E (reactDigits c.tag true D) = (narrowDigits c D w >>= fun v => .ok ⟨D, E, v⟩) := by
  simp only [narrowDigits, h, ite_true, mkS, reactDigits]
  cases hc : c.tag <;> first | rfl | exact absurd hc ht

theorem react_eq_narrow_neg (c : Cfg) (D : Nat) (E : Int) {w : Int} (ht : c.tag ≠ .nat) (h1 : ¬ w > 2^D - 1)
    (h2 : w < -(2^D - 1 : Int)) :
    mkS D E (reactDigits c.tag false D) = (narrowDigits c D w >>= fun v => .ok ⟨D, E, v⟩) := by
  simp only [narrowDigits, h1, h2, ite_true, ite_false, mkS, reactDigits]
  cases hc : c.tag <;> first | rfl | exact absurd hc ht

theorem zero_of_fits_of_big {D j : Nat} {v : Int} (hj : D + 1 ≤ j) (hf : Fits D true (v * 2^j)) : v = 0 := by
  have hb := (fits_iff.mp hf).1
  have hpj := two_pow_pos j
  have h2 := two_pow_le hj
  rw [two_pow_succ] at h2
  have hD := two_pow_pos D
  refine Decidable.byContradiction fun hne => ?_
  by_cases hpos : 1 ≤ v
  · have := mul_pow_ge hpj hpos; omega
  · have := mul_pow_le hpj (show v ≤ -1 by omega); omega

/-- **`x << n`, run-time count `n ≥ 0`**: the overflow-checked narrowing of the exact product
`x · 2^n` into the operand's own digits (flagged iff outside `±(2^D − 1)`, then the tag's
reaction), in the operand's exponent — or an ill-formed instantiation / the native tag -/
theorem shiftRT_shl_core (c : Cfg) (x : SNum) (j : Nat) (hx : x.InRange) :
    shiftRT c .shl x (j : Int) =
        (narrowDigits c x.digits (x.value * 2^j) >>= fun v => .ok ⟨x.digits, x.exp, v⟩) ∨
      ∃ m, shiftRT c .shl x (j : Int) = .ill m := by
  by_cases ht : c.tag = .nat
  · right; exact ⟨"native tag: not modelled", by simp only [shiftRT, checkedShl, ht, ite_true]⟩
  · have hxf := fits_of_inRange hx
    rcases isOverflowShl_pos_spec hxf (Nat.le_refl _) (Nat.le_add_right _ j) with hp | ⟨m, hp⟩
    · by_cases hgt : x.value * 2^j > 2^x.digits - 1
      · left
        simp only [shiftRT, checkedShl, ht, ite_false, hp, Res.bind_ok, hgt, decide_true, ite_true]
        exact react_eq_narrow_pos c _ _ ht hgt
      · rcases isOverflowShl_neg_spec hxf (Nat.le_refl _) (Nat.le_add_right _ j) with hn | ⟨m, hn⟩
        · by_cases hlt : x.value * 2^j < -(2^x.digits - 1 : Int)
          · left
            simp only [shiftRT, checkedShl, ht, ite_false, hp, hn, Res.bind_ok, hgt, hlt, decide_true, decide_false,
              ite_true, Bool.false_eq_true]
            exact react_eq_narrow_neg c _ _ ht hgt hlt
          · have hfit : Fits x.digits true (x.value * 2^j) := by
              rw [fits_iff]; exact ⟨by omega, fun h => by cases h⟩
            rw [narrowDigits_fits c x.digits (v := x.value * 2^j) ⟨by omega, by omega⟩]
            by_cases hbig : (j : Int) ≥ ((max (x.digits + 1) (x.digits + 1) : Nat) : Int)
            · left
              rw [Nat.max_self] at hbig
              have hx0 : x.value = 0 := zero_of_fits_of_big (by omega) hfit
              have hnl : ¬ x.value < 0 := by omega
              simp only [shiftRT, checkedShl, ht, ite_false, hp, hn, Res.bind_ok, hgt, hlt, decide_false,
                Bool.false_eq_true, Nat.max_self, hbig, ite_true, hnl]
              rw [hx0, Int.zero_mul]
            · rw [Nat.max_self] at hbig
              rcases elShift_shl_spec (show j ≤ x.digits by omega) hfit with h | ⟨m, h⟩
              · left
                simp only [shiftRT, checkedShl, ht, ite_false, hp, hn, Res.bind_ok, hgt, hlt, decide_false,
                  Bool.false_eq_true, Nat.max_self, hbig, h, mkS, Res.map]
              · right
                exact ⟨m, by simp only [shiftRT, checkedShl, ht, ite_false, hp, hn, Res.bind_ok, hgt, hlt, decide_false,
                  Bool.false_eq_true, Nat.max_self, hbig, h, mkS, Res.map, bind_ill]⟩
        · right
          exact ⟨m, by simp only [shiftRT, checkedShl, ht, ite_false, hp, hn, Res.bind_ok, hgt, decide_false,
            Bool.false_eq_true, bind_ill]⟩
    · right; exact ⟨m, by simp only [shiftRT, checkedShl, ht, ite_false, hp, bind_ill]⟩

theorem ediv_two_pow_of_small {D j : Nat} {v : Int} (hv : Fits D true v) (hj : D ≤ j) :
    v / 2^j = if v < 0 then -1 else 0 := by
  have hb := (fits_iff.mp hv).1
  have hpj := two_pow_pos j
  have h2 := two_pow_le hj
  by_cases h0 : v < 0
  · simp only [h0, ite_true]
    have h1 : v / 2^j < 0 := Int.ediv_neg_of_neg_of_pos h0 hpj
    have h3 : -1 ≤ v / 2^j := Int.le_ediv_of_mul_le hpj (by omega)
    omega
  · simp only [h0, ite_false]
    exact Int.ediv_eq_zero_of_lt (by omega) (by omega)

/-- **`x >> n`, run-time count `n ≥ 0`**: `⌊x / 2^n⌋` in the operand's digits and exponent; no signal -/
theorem shiftRT_shr_core (c : Cfg) (x : SNum) (j : Nat) (hx : x.InRange) :
    shiftRT c .shr x (j : Int) = .ok ⟨x.digits, x.exp, x.value / 2^j⟩ ∨ ∃ m, shiftRT c .shr x (j : Int) = .ill m := by
  by_cases ht : c.tag = .nat
  · right; exact ⟨"native tag: not modelled", by simp only [shiftRT, ht, ite_true]⟩
  · have hxf := fits_of_inRange hx
    by_cases hbig : (j : Int) ≥ ((x.digits + 1 : Nat) : Int)
    · left
      simp only [shiftRT, ht, ite_false, hbig, ite_true, ediv_two_pow_of_small hxf (show x.digits ≤ j by omega)]
    · rcases elShift_shr_spec hxf (show j ≤ x.digits by omega) with h | ⟨m, h⟩
      · left; simp only [shiftRT, ht, ite_false, hbig, h, mkS, Res.map, Res.bind_ok]
      · right; exact ⟨m, by simp only [shiftRT, ht, ite_false, hbig, h, mkS, Res.map, bind_ill]⟩

theorem shr_inRange {x : SNum} (hx : x.InRange) (j : Nat) : (⟨x.digits, x.exp, x.value / 2^j⟩ : SNum).InRange :=
  fits_shr (fits_of_inRange hx) j

/-- **`x << constant<k>` on a static_integer**: exact, `k` more digits; neither overflow test fires -/
theorem shiftConstInt_shl_core (c : Cfg) (x : SNum) (k : Nat) (hx : x.InRange) :
    shiftConstInt c .shl x k = .ok ⟨x.digits + k, x.exp, x.value * 2^k⟩ ∨ ∃ m, shiftConstInt c .shl x k = .ill m := by
  by_cases ht : c.tag = .nat
  · right; exact ⟨"native tag: not modelled", by simp only [shiftConstInt, checkedShl, ht, ite_true]⟩
  · have hxf := fits_of_inRange hx
    have hfit := (fits_iff.mp (shl_bound (k := k) hxf)).1
    have hgt : ¬ x.value * 2^k > 2^(x.digits + k) - 1 := by omega
    have hlt : ¬ x.value * 2^k < -(2^(x.digits + k) - 1 : Int) := by omega
    have hbig : ¬ (k : Int) ≥ ((max (x.digits + k + 1) (x.digits + 1) : Nat) : Int) := by
      have := Nat.le_max_left (x.digits + k + 1) (x.digits + 1); omega
    rcases isOverflowShl_pos_spec hxf (Nat.le_add_right _ k) (Nat.le_refl _) with hp | ⟨m, hp⟩
    · rcases isOverflowShl_neg_spec hxf (Nat.le_add_right _ k) (Nat.le_refl _) with hn | ⟨m, hn⟩
      · by_cases hwf : ∀ m, elShlConst (toE x) k ≠ .ill m
        · left
          obtain ⟨n, h⟩ := shl_toE x k hx hwf
          simp only [shiftConstInt, checkedShl, ht, ite_false, hp, hn, Res.bind_ok, hgt, hlt, decide_false,
            Bool.false_eq_true, hbig, h]
        · right
          have ⟨m, hm⟩ : ∃ m, elShlConst (toE x) k = .ill m := Classical.not_forall_not.mp hwf
          exact ⟨"digits exceed the widest integer", by
            simp only [shiftConstInt, checkedShl, ht, ite_false, hp, hn, Res.bind_ok, hgt, hlt, decide_false,
              Bool.false_eq_true, hbig, hm]⟩
      · right
        exact ⟨m, by simp only [shiftConstInt, checkedShl, ht, ite_false, hp, hn, Res.bind_ok, hgt, decide_false,
          Bool.false_eq_true, bind_ill]⟩
    · right; exact ⟨m, by simp only [shiftConstInt, checkedShl, ht, ite_false, hp, bind_ill]⟩

/-- `x >> constant<k>` of the elastic layer (`k <` digits): `⌊x / 2^k⌋` in `digits − k` digits -/
theorem elShrConst_spec (x : SNum) (k : Nat) (hx : x.InRange) (hk : k < x.digits) :
    (∃ n, elShrConst (toE x) k = .ok ⟨x.digits - k, n, x.value / 2^k⟩) ∨ ∃ m, elShrConst (toE x) k = .ill m := by
  cases hR : storage narrowest x.digits with
  | none => right; exact ⟨"no storage for the digits", by simp only [elShrConst, toE, hR]⟩
  | some rep =>
    have ⟨hRs, hRd, hb1, _⟩ := rep_facts hR
    have hPs : (promote rep).signed = true := promote_signed_of_signed hRs
    have hxR : rep.InRange x.value :=
      inRange_of_fits (by omega) (fits_of_inRange hx) (fun h => by rw [hRs] at h; cases h)
    have hk' : ¬((k : Int) < 0 ∨ (k : Int) ≥ (promote rep).bits) := by
      have := promote_bits_le rep
      have := digits_le_bits rep
      omega
    have h1 : elShrConst (toE x) k =
        (match storage ⟨32, true⟩ (x.digits - k) with
         | some F => .ok ⟨x.digits - k, ⟨32, true⟩, F.wrap (x.value / 2^k)⟩
         | none => .ill "no storage for the digits") := by
      simp only [elShrConst, toE, hR, Cnl.convert, IntTy.wrap_id hb1 hxR, cBin, hk', ite_false, Int.toNat_natCast, hPs]
      rfl
    cases hF : storage ⟨32, true⟩ (x.digits - k) with
    | none => right; exact ⟨_, by rw [h1, hF]⟩
    | some F =>
      left
      have ⟨hFs, hFd, hFb1, _⟩ := rep_facts (D := x.digits - k) hF
      have ⟨b1, b2, _⟩ := shr_bound (fits_of_inRange hx) (Nat.le_of_lt hk)
      have hsF : F.InRange (x.value / 2^k) :=
        inRange_of_digits' hFd b1 b2 (fun h => by rw [hFs] at h; cases h)
      rw [hF] at h1
      simp only [IntTy.wrap_id hFb1 hsF] at h1
      exact ⟨_, h1⟩

/-- **`x >> constant<k>` on a static_integer** (`k <` digits): `⌊x / 2^k⌋` in `digits − k` digits -/
theorem shiftConstInt_shr_core (c : Cfg) (x : SNum) (k : Nat) (hx : x.InRange) (hk : k < x.digits) :
    shiftConstInt c .shr x k = .ok ⟨x.digits - k, x.exp, x.value / 2^k⟩ ∨ ∃ m, shiftConstInt c .shr x k = .ill m := by
  by_cases ht : c.tag = .nat
  · right; exact ⟨"native tag: not modelled", by simp only [shiftConstInt, ht, ite_true]⟩
  · have hk' : ¬ k > x.digits := by omega
    rcases elShrConst_spec x k hx hk with ⟨n, h⟩ | ⟨m, h⟩
    · left
      simp only [shiftConstInt, ht, ite_false, hk', h]
    · right
      exact ⟨"digits exceed the widest integer", by simp only [shiftConstInt, ht, ite_false, hk', h]⟩

/-- outside the open class the constant right shift stays within the digits it declares -/
theorem shrConst_inRange {x : SNum} (hx : x.InRange) {k : Nat} (hk : k < x.digits) (hc : ¬ ShrBelowRange k x) :
    (⟨x.digits - k, x.exp, x.value / 2^k⟩ : SNum).InRange := by
  have ⟨b1, b2, _⟩ := shr_bound (fits_of_inRange hx) (Nat.le_of_lt hk)
  unfold ShrBelowRange at hc
  show -(2^(x.digits - k) - 1 : Int) ≤ x.value / 2^k ∧ x.value / 2^k ≤ 2^(x.digits - k) - 1
  exact ⟨by omega, b2⟩

end shifts

/-! ## histories -/

theorem bind_of_not_ok {α : Type} (r : Res α) (h : ∀ x, r ≠ .ok x) (f : α → Res α) : (r >>= f) = r := by
  cases r <;> first | rfl | exact absurd rfl (h _)

theorem agrees_ok {tag : OvTag} {x : SNum} {i : Ideal} (h : Agrees tag (.ok x) i) : i = .val x.exp x.value := by
  cases i <;> simp only [Agrees] at h
  obtain ⟨rfl, rfl⟩ := h; rfl

theorem agrees_not_ok {tag : OvTag} {r : Res SNum} {i : Ideal} (h : Agrees tag r i) (hr : ∀ x, r ≠ .ok x) :
    ∃ p, i = .signal p := by
  cases i with
  | signal p => exact ⟨p, rfl⟩
  | val e v => cases r <;> first | exact absurd rfl (hr _) | simp only [Agrees] at h
  | undef => cases r <;> simp only [Agrees] at h

theorem idealBin_signal_left (m : RoundMode) (op : BinOp) (p : Bool) (ib : Ideal) :
    idealBin m op (.signal p) ib = .signal p := by cases ib <;> rfl

theorem idealBin_val (m : RoundMode) (op : BinOp) (hop : IsArith op) (x y : SNum) (h0 : op = .div → y.value ≠ 0) :
    idealBin m op (.val x.exp x.value) (.val y.exp y.value)
      = .val (exactBin m op x y).exp (exactBin m op x y).value := by
  rcases hop with h | h | h | h <;> subst h
  · rfl
  · rfl
  · rfl
  · simp only [idealBin, h0 rfl, ite_false, exactBin]

/-- one binary node of a history -/
theorem bin_node (c : Cfg) (op : BinOp) (hop : IsArith op) (ma mb : Res SNum) (ia ib : Ideal)
    (ha : Agrees c.tag ma ia ∧ ∀ z, ma = .ok z → z.InRange)
    (hb : (∀ m, mb ≠ .ill m) → Agrees c.tag mb ib ∧ ∀ z, mb = .ok z → z.InRange)
    (h0 : op = .div → onOk mb (fun y => y.value ≠ 0))
    (hwf : ∀ m, (ma >>= fun x => mb >>= fun y => Static.binOp c op x y) ≠ .ill m) :
    Agrees c.tag (ma >>= fun x => mb >>= fun y => Static.binOp c op x y) (idealBin (rmode c.mode) op ia ib) ∧
      ∀ z, (ma >>= fun x => mb >>= fun y => Static.binOp c op x y) = .ok z → z.InRange := by
  by_cases hma : ∃ x, ma = .ok x
  · obtain ⟨x, rfl⟩ := hma
    have hx := ha.2 x rfl
    rw [agrees_ok ha.1]
    simp only [Res.bind_ok] at hwf ⊢
    have hmb : ∀ m, mb ≠ .ill m := by intro m hm; rw [hm] at hwf; exact hwf m rfl
    have hb := hb hmb
    by_cases hmb' : ∃ y, mb = .ok y
    · obtain ⟨y, rfl⟩ := hmb'
      have hy := hb.2 y rfl
      rw [agrees_ok hb.1]
      simp only [Res.bind_ok] at hwf ⊢
      have h0' : op = .div → y.value ≠ 0 := fun h => h0 h
      rcases binOp_spec c op hop x y hx hy h0' with ⟨h1, hr⟩ | ⟨m, h1⟩
      · rw [h1, idealBin_val _ op hop x y h0']
        exact ⟨⟨rfl, rfl⟩, fun z hz => by cases hz; exact hr⟩
      · exact absurd h1 (hwf m)
    · have hmb'' : ∀ y, mb ≠ .ok y := fun y h => hmb' ⟨y, h⟩
      obtain ⟨p, rfl⟩ := agrees_not_ok hb.1 hmb''
      rw [bind_of_not_ok mb hmb'']
      refine ⟨hb.1, fun z hz => absurd hz (hmb'' z)⟩
  · have hma' : ∀ x, ma ≠ .ok x := fun x h => hma ⟨x, h⟩
    obtain ⟨p, rfl⟩ := agrees_not_ok ha.1 hma'
    rw [bind_of_not_ok ma hma', idealBin_signal_left]
    exact ⟨ha.1, fun z hz => absurd hz (hma' z)⟩

/-- one unary node -/
theorem un_node (c : Cfg) (f : SNum → Res SNum) (g : Ideal → Ideal) (hg : ∀ p, g (.signal p) = .signal p)
    (ma : Res SNum) (ia : Ideal)
    (ha : Agrees c.tag ma ia ∧ ∀ z, ma = .ok z → z.InRange)
    (hf : ∀ x, ma = .ok x → x.InRange → (∀ m, f x ≠ .ill m) →
      Agrees c.tag (f x) (g (.val x.exp x.value)) ∧ ∀ z, f x = .ok z → z.InRange)
    (hwf : ∀ m, (ma >>= f) ≠ .ill m) :
    Agrees c.tag (ma >>= f) (g ia) ∧ ∀ z, (ma >>= f) = .ok z → z.InRange := by
  by_cases hma : ∃ x, ma = .ok x
  · obtain ⟨x, rfl⟩ := hma
    rw [agrees_ok ha.1]
    exact hf x rfl (ha.2 x rfl) hwf
  · have hma' : ∀ x, ma ≠ .ok x := fun x h => hma ⟨x, h⟩
    obtain ⟨p, rfl⟩ := agrees_not_ok ha.1 hma'
    rw [bind_of_not_ok ma hma', hg]
    exact ⟨ha.1, fun z hz => absurd hz (hma' z)⟩

theorem neg_agrees (c : Cfg) (x : SNum) (hx : x.InRange) (hwf : ∀ m, Static.neg x ≠ .ill m) :
    Agrees c.tag (Static.neg x) (idealNeg (.val x.exp x.value)) ∧ ∀ z, Static.neg x = .ok z → z.InRange := by
  rcases neg_spec x hx with ⟨h, hr⟩ | ⟨m, h⟩
  · rw [h]; exact ⟨⟨rfl, rfl⟩, fun z hz => by cases hz; exact hr⟩
  · exact absurd h (hwf m)

/-! ### the shift nodes agree with the ideal evaluation -/

theorem shl_agrees (c : Cfg) (x : SNum) (k : Nat) (hx : x.InRange) (hwf : ∀ m, shiftRT c .shl x (k : Int) ≠ .ill m) :
    Agrees c.tag (shiftRT c .shl x (k : Int)) (idealShl c.tag x.digits k (.val x.exp x.value)) ∧
      ∀ z, shiftRT c .shl x (k : Int) = .ok z → z.InRange := by
  rcases shiftRT_shl_core c x k hx with h | ⟨m, h⟩
  · have hn : ∀ m, narrowDigits c x.digits (x.value * 2^k) ≠ .ill m := by
      intro m hm; rw [hm] at h; exact hwf m h
    rw [h]
    refine ⟨narrowDigits_agrees c x.digits x.exp _ hn, fun z hz => ?_⟩
    cases hv : narrowDigits c x.digits (x.value * 2^k) with
    | ok w =>
      rw [hv] at hz; simp only [Res.bind_ok] at hz; cases hz
      exact narrowDigits_inRange c x.digits _ w hv
    | _ => rw [hv] at hz; cases hz
  · exact absurd h (hwf m)

theorem shr_agrees (c : Cfg) (x : SNum) (k : Nat) (hx : x.InRange) (hwf : ∀ m, shiftRT c .shr x (k : Int) ≠ .ill m) :
    Agrees c.tag (shiftRT c .shr x (k : Int)) (idealShr k (.val x.exp x.value)) ∧
      ∀ z, shiftRT c .shr x (k : Int) = .ok z → z.InRange := by
  rcases shiftRT_shr_core c x k hx with h | ⟨m, h⟩
  · rw [h]; exact ⟨⟨rfl, rfl⟩, fun z hz => by cases hz; exact shr_inRange hx k⟩
  · exact absurd h (hwf m)

theorem shlN_agrees (c : Cfg) (x : SNum) (k : Int) (hx : x.InRange) :
    Agrees c.tag (shiftConstNum .shl x k) (idealMoveExp k (.val x.exp x.value)) ∧
      ∀ z, shiftConstNum .shl x k = .ok z → z.InRange :=
  ⟨⟨rfl, rfl⟩, fun z hz => by cases hz; exact hx⟩

theorem shlI_agrees (c : Cfg) (x : SNum) (k : Nat) (hx : x.InRange) (hwf : ∀ m, shiftConstInt c .shl x k ≠ .ill m) :
    Agrees c.tag (shiftConstInt c .shl x k) (idealShlWiden k (.val x.exp x.value)) ∧
      ∀ z, shiftConstInt c .shl x k = .ok z → z.InRange := by
  rcases shiftConstInt_shl_core c x k hx with h | ⟨m, h⟩
  · rw [h]; exact ⟨⟨rfl, rfl⟩, fun z hz => by cases hz; exact shl_bound (k := k) (fits_of_inRange hx)⟩
  · exact absurd h (hwf m)

theorem shrI_agrees (c : Cfg) (x : SNum) (k : Nat) (hx : x.InRange) (hk : k < x.digits) (hc : ¬ ShrBelowRange k x)
    (hwf : ∀ m, shiftConstInt c .shr x k ≠ .ill m) :
    Agrees c.tag (shiftConstInt c .shr x k) (idealShr k (.val x.exp x.value)) ∧
      ∀ z, shiftConstInt c .shr x k = .ok z → z.InRange := by
  rcases shiftConstInt_shr_core c x k hx hk with h | ⟨m, h⟩
  · rw [h]; exact ⟨⟨rfl, rfl⟩, fun z hz => by cases hz; exact shrConst_inRange hx hk hc⟩
  · exact absurd h (hwf m)

/-- **histories**: under the side conditions, the model's evaluation agrees with the ideal one, and
a returned value is in range of its digits -/
theorem eval_agrees (c : Cfg) (e : SExpr) (hs : SideOK c e) (hwf : ∀ m, evalModel c e ≠ .ill m) :
    Agrees c.tag (evalModel c e) (evalIdeal c e) ∧ ∀ z, evalModel c e = .ok z → z.InRange := by
  induction e with
  | lit x => exact ⟨⟨rfl, rfl⟩, fun z hz => by cases hz; exact hs⟩
  | add a b iha ihb =>
    have hwa : ∀ m, evalModel c a ≠ .ill m := by
      intro m hm; apply hwf m; simp only [evalModel, hm, bind_ill]
    exact bin_node c .add (.inl rfl) _ _ _ _ (iha hs.1 hwa) (ihb hs.2) (fun h => by cases h) hwf
  | sub a b iha ihb =>
    have hwa : ∀ m, evalModel c a ≠ .ill m := by
      intro m hm; apply hwf m; simp only [evalModel, hm, bind_ill]
    exact bin_node c .sub (.inr (.inl rfl)) _ _ _ _ (iha hs.1 hwa) (ihb hs.2) (fun h => by cases h) hwf
  | mul a b iha ihb =>
    have hwa : ∀ m, evalModel c a ≠ .ill m := by
      intro m hm; apply hwf m; simp only [evalModel, hm, bind_ill]
    exact bin_node c .mul (.inr (.inr (.inl rfl))) _ _ _ _ (iha hs.1 hwa) (ihb hs.2) (fun h => by cases h) hwf
  | div a b iha ihb =>
    have hwa : ∀ m, evalModel c a ≠ .ill m := by
      intro m hm; apply hwf m; simp only [evalModel, hm, bind_ill]
    exact bin_node c .div (.inr (.inr (.inr rfl))) _ _ _ _ (iha hs.1 hwa) (ihb hs.2.1) (fun _ => hs.2.2) hwf
  | neg a iha =>
    have hwa : ∀ m, evalModel c a ≠ .ill m := by
      intro m hm; apply hwf m; simp only [evalModel, hm, bind_ill]
    exact un_node c Static.neg idealNeg (fun _ => rfl) _ _ (iha hs hwa)
      (fun x _ hx hw => neg_agrees c x hx hw) hwf
  | cvt D E a iha =>
    have hwa : ∀ m, evalModel c a ≠ .ill m := by
      intro m hm; apply hwf m; simp only [evalModel, hm, bind_ill]
    refine un_node c (convert c D E) (idealCvt c D E) (fun _ => rfl) _ _ (iha hs.1 hwa)
      (fun x hxe hx hw => convert_agrees c D E x hx ?_ hw) hwf
    have h := hs.2
    rw [hxe] at h
    exact h
  | shl D k a iha =>
    have hwa : ∀ m, evalModel c a ≠ .ill m := by
      intro m hm; apply hwf m; simp only [evalModel, hm, bind_ill]
    refine un_node c (fun x => shiftRT c .shl x (k : Int)) (idealShl c.tag D k) (fun _ => rfl) _ _ (iha hs.1 hwa)
      (fun x hxe hx hw => ?_) hwf
    have h := hs.2
    rw [hxe] at h
    have hD : x.digits = D := h
    rw [← hD]
    exact shl_agrees c x k hx hw
  | shr k a iha =>
    have hwa : ∀ m, evalModel c a ≠ .ill m := by
      intro m hm; apply hwf m; simp only [evalModel, hm, bind_ill]
    exact un_node c (fun x => shiftRT c .shr x (k : Int)) (idealShr k) (fun _ => rfl) _ _ (iha hs hwa)
      (fun x _ hx hw => shr_agrees c x k hx hw) hwf
  | shlN k a iha =>
    have hwa : ∀ m, evalModel c a ≠ .ill m := by
      intro m hm; apply hwf m; simp only [evalModel, hm, bind_ill]
    exact un_node c (fun x => shiftConstNum .shl x k) (idealMoveExp k) (fun _ => rfl) _ _ (iha hs hwa)
      (fun x _ hx _ => shlN_agrees c x k hx) hwf
  | shlI k a iha =>
    have hwa : ∀ m, evalModel c a ≠ .ill m := by
      intro m hm; apply hwf m; simp only [evalModel, hm, bind_ill]
    exact un_node c (fun x => shiftConstInt c .shl x k) (idealShlWiden k) (fun _ => rfl) _ _ (iha hs hwa)
      (fun x _ hx hw => shlI_agrees c x k hx hw) hwf
  | shrI k a iha =>
    have hwa : ∀ m, evalModel c a ≠ .ill m := by
      intro m hm; apply hwf m; simp only [evalModel, hm, bind_ill]
    refine un_node c (fun x => shiftConstInt c .shr x k) (idealShr k) (fun _ => rfl) _ _ (iha hs.1 hwa)
      (fun x hxe hx hw => ?_) hwf
    have h := hs.2
    rw [hxe] at h
    exact shrI_agrees c x k hx h.1 h.2 hw

/-! ## comparison: the alignment exponent does not matter -/

theorem cmpExact_mul_pos (op : CmpOp) (a b p : Int) (hp : 0 < p) :
    cmpExact op (a * p) (b * p) = cmpExact op a b := by
  have lt_iff : ∀ u v : Int, u * p < v * p ↔ u < v := fun u v =>
    ⟨fun h => Int.lt_of_mul_lt_mul_right h (Int.le_of_lt hp), fun h => Int.mul_lt_mul_of_pos_right h hp⟩
  have le_iff : ∀ u v : Int, u * p ≤ v * p ↔ u ≤ v := fun u v =>
    ⟨fun h => Int.le_of_mul_le_mul_right h hp, fun h => Int.mul_le_mul_of_nonneg_right h (Int.le_of_lt hp)⟩
  have eq_iff : ∀ u v : Int, u * p = v * p ↔ u = v := fun u v =>
    ⟨fun h => Int.eq_of_mul_eq_mul_right (by omega) h, fun h => by rw [h]⟩
  cases op <;> simp only [cmpExact, GT.gt, GE.ge, ne_eq, lt_iff, le_iff, eq_iff]

/-- comparing at the smaller exponent is comparing at any common exponent: the order of `v · 2^e` -/
theorem cmp_common_exponent (op : CmpOp) (x y : SNum) (e0 : Int) (h1 : e0 ≤ x.exp) (h2 : e0 ≤ y.exp) :
    cmpExact op (alignL x.exp y.exp x.value) (alignR x.exp y.exp y.value)
      = cmpExact op (x.value * 2^(x.exp - e0).toNat) (y.value * 2^(y.exp - e0).toNat) := by
  have ex : (x.exp - e0).toNat = (x.exp - min x.exp y.exp).toNat + (min x.exp y.exp - e0).toNat := by omega
  have ey : (y.exp - e0).toNat = (y.exp - min x.exp y.exp).toNat + (min x.exp y.exp - e0).toNat := by omega
  rw [ex, ey, two_pow_add, two_pow_add, ← Int.mul_assoc, ← Int.mul_assoc,
    cmpExact_mul_pos op _ _ _ (two_pow_pos _)]
  rfl

end Cnl.Static
