import CnlProofs.Elastic
import CnlProofs.Rounding
import CnlProofs.Overflow
import CnlModel.StaticExpr
import CnlSpec.Static
/-!
# Lemmas for C11: the static_number composition is never silently wrong

Per node: the representation operator under a rounding tag is the built-in one except for `/`
(`repOp_eq_cBin`), so `+ - *` are the elastic operators of C05 on operands aligned by `<< constant`
(`scaleUp_spec`); `/` is the rounding division of C08 in a storage type that holds both operands
(`elDiv_spec`); the conversion is an exact rescaling or a rounding division by `2^k`, followed by the
overflow-checked narrowing (`convert_spec`).  Histories: induction over `SExpr` (`eval_agrees`).
Lean core only.
-/
namespace Cnl.Static
open Cnl Cnl.Spec Cnl.Elastic Cnl.Rounding

/-! ## `Res` plumbing -/

@[simp] theorem bind_trap {α β : Type} (p : Bool) (f : α → Res β) : ((Res.trap p : Res α) >>= f) = .trap p := rfl
@[simp] theorem bind_throws {α β : Type} (p : Bool) (f : α → Res β) : ((Res.throws p : Res α) >>= f) = .throws p := rfl
@[simp] theorem bind_unreachable {α β : Type} (m : String) (f : α → Res β) :
    ((Res.unreachable m : Res α) >>= f) = .unreachable m := rfl
@[simp] theorem bind_oob {α β : Type} (i : Nat) (f : α → Res β) : ((Res.oob i : Res α) >>= f) = .oob i := rfl
@[simp] theorem bind_diverges {α β : Type} (f : α → Res β) : ((Res.diverges : Res α) >>= f) = .diverges := rfl
@[simp] theorem bind_ill {α β : Type} (m : String) (f : α → Res β) : ((Res.ill m : Res α) >>= f) = .ill m := rfl

theorem rmode_eq_modeOf (m : RdMode) : rmode m = modeOf m := by cases m <;> rfl

/-! ## ranges -/

theorem toE_inRange {x : SNum} (hx : x.InRange) : (toE x).InRange := hx

theorem fits_of_inRange {x : SNum} (hx : x.InRange) : Fits x.digits true x.value := hx

theorem inRange_of_fits_true {d : Nat} {e v : Int} (h : Fits d true v) : (⟨d, e, v⟩ : SNum).InRange := h

/-! ## alignment: `scale<k>` -/

/-- `x << constant<k>` for a signed-`int`-narrowest elastic number: no hypothesis on the digits -/
theorem shl_toE (x : SNum) (k : Nat) (hx : x.InRange) (hwf : ∀ m, shlConst (toE x) k ≠ .ill m) :
    ∃ n, shlConst (toE x) k = .ok ⟨x.digits + k, n, x.value * 2^k⟩ := by
  cases hR : repTy (x.digits + k) narrowest with
  | none =>
    have : shlConst (toE x) k = .ill "digits exceed the widest integer" := by simp only [shlConst, toE, hR]
    exact absurd this (hwf _)
  | some rep =>
    have ⟨hRs, hRd, hRb⟩ := setDigits_spec hR
    have hRs' : rep.signed = true := hRs
    have hb1 : 1 ≤ rep.bits := by omega
    have hxR : rep.InRange x.value :=
      inRange_of_fits (by omega) (fits_of_inRange hx) (fun h => by rw [hRs'] at h; cases h)
    have hPs : (promote rep).signed = true := promote_signed_of_signed hRs'
    have hk : ¬((k : Int) < 0 ∨ (k : Int) ≥ (promote rep).bits) := by
      have := promote_bits_le rep
      have := digits_lt_bits hRs' hb1
      omega
    have hs : Fits (x.digits + k) true (x.value * 2^k) := shl_bound (k := k) (fits_of_inRange hx)
    have hsP : (promote rep).InRange (x.value * 2^k) :=
      inRange_of_fits (by have := promote_digits_le hb1; omega) hs (fun h => by rw [hPs] at h; cases h)
    have h1 : shlConst (toE x) k =
        (match repTy (x.digits + k) ⟨32, true⟩ with
         | some F => .ok ⟨x.digits + k, ⟨32, true⟩, F.wrap (x.value * 2^k)⟩
         | none => .ill "digits exceed the widest integer") := by
      simp only [shlConst, toE, hR, Cnl.convert, IntTy.wrap_id hb1 hxR, cBin, hk, ite_false, Int.toNat_natCast,
        IntTy.wrap_id (promote_bits_ge hb1) hsP, hPs]
      rfl
    have hR' : repTy (x.digits + k) ⟨32, true⟩ = some rep := hR
    rw [hR'] at h1
    have hsR : rep.InRange (x.value * 2^k) :=
      inRange_of_fits (by omega) hs (fun h => by rw [hRs'] at h; cases h)
    simp only [IntTy.wrap_id hb1 hsR] at h1
    exact ⟨_, h1⟩

/-- `scale<k>` either multiplies by `2^k` exactly, adding `k` digits, or is ill-formed -/
theorem scaleUp_spec (x : SNum) (k : Nat) (hx : x.InRange) :
    scaleUp x k = .ok ⟨x.digits + k, x.exp - k, x.value * 2^k⟩ ∨ ∃ m, scaleUp x k = .ill m := by
  by_cases hk : k = 0
  · subst hk; left
    simp [scaleUp]
  · by_cases hwf : ∀ m, shlConst (toE x) k ≠ .ill m
    · obtain ⟨n, h⟩ := shl_toE x k hx hwf
      left; simp only [scaleUp, hk, ite_false, h]
    · right
      have ⟨m, hm⟩ : ∃ m, shlConst (toE x) k = .ill m := Classical.not_forall_not.mp hwf
      exact ⟨"digits exceed the widest integer", by simp only [scaleUp, hk, ite_false, hm]⟩

theorem scaleUp_inRange {x : SNum} (k : Nat) (hx : x.InRange) :
    (⟨x.digits + k, x.exp - k, x.value * 2^k⟩ : SNum).InRange :=
  shl_bound (k := k) (fits_of_inRange hx)

/-! ## the representation operator under a rounding tag -/

theorem repOp_eq_cBin (c : Cfg) (op : BinOp) (h : op ≠ .div) (a b : TV) : repOp c op a b = cBin op a b := by
  obtain ⟨ta, va⟩ := a
  obtain ⟨tb, vb⟩ := b
  unfold repOp
  rw [binOp_other intOps c.mode op _ _ h]
  simp only [intOps, liftTV, Res.map]
  cases cBin op (ta, va) (tb, vb) <;> rfl

theorem binOpWith_congr {r1 r2 : BinOp → TV → TV → Res TV} (op : BinOp) (x y : ENum)
    (h : ∀ a b, r1 op a b = r2 op a b) : binOpWith r1 op x y = binOpWith r2 op x y := by
  unfold binOpWith; simp only [h]


/-! ## rounded quotients -/

theorem isRounded_close {m : RoundMode} {a b q : Int} (_hb : b ≠ 0) (h : IsRounded m a b q) :
    (a - q * b).natAbs < b.natAbs := by
  cases m with
  | truncate => exact h.1
  | floor =>
    simp only [IsRounded] at h
    rw [Int.add_mul, Int.one_mul] at h
    generalize q * b = X at *
    split at h <;> omega
  | nearestUp =>
    simp only [IsRounded] at h
    rw [Int.mul_assoc, Int.mul_assoc, Int.add_mul, Int.one_mul] at h
    generalize q * b = X at *
    split at h <;> omega
  | nearestAway =>
    simp only [IsRounded] at h
    generalize q * b = X at *
    omega

theorem natAbs_le_of_close {a b q : Int} (h : (a - q * b).natAbs < b.natAbs) : q.natAbs ≤ a.natAbs := by
  have hm : (q * b).natAbs = q.natAbs * b.natAbs := Int.natAbs_mul ..
  refine Decidable.byContradiction fun hc => ?_
  have h1 : (a.natAbs + 1) * b.natAbs ≤ q.natAbs * b.natAbs := Nat.mul_le_mul_right _ (by omega)
  have h2 : a.natAbs * 1 ≤ a.natAbs * b.natAbs := Nat.mul_le_mul_left _ (by omega)
  rw [Nat.add_mul, Nat.one_mul] at h1
  generalize q * b = X at *
  generalize q.natAbs * b.natAbs = P at *
  generalize a.natAbs * b.natAbs = R at *
  omega

/-- a quotient by a non-zero integer, rounded in any mode, is no larger in magnitude than the dividend -/
theorem roundDiv_natAbs_le (m : RoundMode) (a b : Int) (hb : b ≠ 0) : (roundDiv m a b).natAbs ≤ a.natAbs :=
  natAbs_le_of_close (isRounded_close hb (roundDiv_isRounded m a b hb))

theorem roundDiv_fits (m : RoundMode) {d : Nat} {a b : Int} (hb : b ≠ 0) (ha : Fits d true a) :
    Fits d true (roundDiv m a b) := by
  have h := roundDiv_natAbs_le m a b hb
  have := natAbs_le_of_bound ha
  exact bound_of_natAbs_le (by omega)

theorem repOp_div (c : Cfg) {O : IntTy} (hO : 1 ≤ O.bits) {a b : Int} (ha : O.InRange a) (hb : O.InRange b)
    (hb0 : b ≠ 0) (hq : (promote O).InRange (roundDiv (modeOf c.mode) a b)) :
    repOp c .div (O, a) (O, b) = .ok (promote O, roundDiv (modeOf c.mode) a b) := by
  have h := binOp_div_eval c.mode hO hO ha hb (by rw [usualArith_self]; exact promote_inRange hO ha)
    (by rw [usualArith_self]; exact promote_inRange hO hb) hb0 (by rw [usualArith_self]; exact hq)
  rw [usualArith_self] at h
  simp only [repOp, h]

/-! ## `/`: the rounding division in a storage type that holds both operands -/

theorem elDiv_spec (c : Cfg) (x y : SNum) (hx : x.InRange) (hy : y.InRange) (h0 : y.value ≠ 0) :
    binOpWith (repOp c) .div (toE x) (toE y) = .ok ⟨x.digits, i32, roundDiv (modeOf c.mode) x.value y.value⟩ ∨
      ∃ m, binOpWith (repOp c) .div (toE x) (toE y) = .ill m := by
  have hi : (⟨max i32.bits i32.bits, i32.signed || i32.signed⟩ : IntTy) = i32 := by decide
  cases hR : repTy x.digits i32 with
  | none => right; refine ⟨"result digits exceed the widest integer", ?_⟩; simp only [binOpWith, toE, policy, narrowest, hi, hR]
  | some R =>
    have ⟨hRs, hRd, hRb⟩ := setDigits_spec hR
    have hRs' : R.signed = true := hRs
    cases hO : setDigits R.signed (operandDigits R x.digits y.digits) with
    | none => right; refine ⟨"operand digits exceed the widest integer", ?_⟩; simp only [binOpWith, toE, policy, narrowest, hi, hR, hO]
    | some O =>
      left
      have ⟨hOs, hOd, hOb⟩ := setDigits_spec hO
      have hOs' : O.signed = true := by rw [hOs, hRs']
      unfold operandDigits at hOd
      have hO1 : 1 ≤ O.bits := by omega
      have hPs : (promote O).signed = true := promote_signed_of_signed hOs'
      have hxO : O.InRange x.value :=
        inRange_of_fits (by omega) (fits_of_inRange hx) (fun h => by rw [hOs'] at h; cases h)
      have hyO : O.InRange y.value :=
        inRange_of_fits (by omega) (fits_of_inRange hy) (fun h => by rw [hOs'] at h; cases h)
      have hq := roundDiv_fits (modeOf c.mode) h0 (fits_of_inRange hx)
      have hqP : (promote O).InRange (roundDiv (modeOf c.mode) x.value y.value) :=
        inRange_of_fits (by have := promote_digits_le hO1; omega) hq (fun h => by rw [hPs] at h; cases h)
      have hqR : R.InRange (roundDiv (modeOf c.mode) x.value y.value) :=
        inRange_of_fits (by omega) hq (fun h => by rw [hRs'] at h; cases h)
      have hF : repTy x.digits ⟨i32.bits, true⟩ = some R := hR
      simp only [binOpWith, toE, policy, narrowest, hi, hR, hO, Cnl.convert, IntTy.wrap_id hO1 hxO,
        IntTy.wrap_id hO1 hyO, repOp_div c hO1 hxO hyO h0 hqP, hPs,
        hF, IntTy.wrap_id (by omega : 1 ≤ R.bits) hqR]
      rfl

/-! ## `+ - *`: the elastic operators of C05 -/

/-- the exact value of `+ - *` -/
def exact3 (op : BinOp) (a b : Int) : Int :=
  match op with
  | .add => a + b
  | .sub => a - b
  | _ => a * b

def digits3 (op : BinOp) (a b : Nat) : Nat :=
  match op with
  | .mul => prodDigits a b
  | _ => max a b + 1

/-- `+ - *` of the elastic layer on two in-range operands: exact, in the policy's digits -/
theorem elBin_spec (c : Cfg) (op : BinOp) (hop : op = .add ∨ op = .sub ∨ op = .mul) (a b : SNum)
    (ha : a.InRange) (hb : b.InRange) :
    (∃ n, binOpWith (repOp c) op (toE a) (toE b)
        = .ok ⟨digits3 op a.digits b.digits, n, exact3 op a.value b.value⟩ ∧
        Fits (digits3 op a.digits b.digits) true (exact3 op a.value b.value)) ∨
      ∃ m, binOpWith (repOp c) op (toE a) (toE b) = .ill m := by
  have hnd : op ≠ .div := by rcases hop with h | h | h <;> subst h <;> decide
  rw [binOpWith_congr op _ _ (repOp_eq_cBin c op hnd), ← binOp_eq_binOpWith]
  by_cases hwf : ∀ m, Elastic.binOp op (toE a) (toE b) ≠ .ill m
  · left
    rcases hop with h | h | h <;> subst h
    · obtain ⟨d, sg, n, hp, h1, he, _⟩ := binOp_wf .add (toE a) (toE b) ha hb (by simp) hwf
      simp only [AOp.toBin, policy, toE, narrowest, Option.some.injEq, Prod.mk.injEq] at hp
      obtain ⟨rfl, rfl⟩ := hp
      exact ⟨n, h1, he⟩
    · obtain ⟨d, sg, n, hp, h1, he, _⟩ := binOp_wf .sub (toE a) (toE b) ha hb (by simp) hwf
      simp only [AOp.toBin, policy, toE, narrowest, Option.some.injEq, Prod.mk.injEq] at hp
      obtain ⟨rfl, rfl⟩ := hp
      exact ⟨n, h1, he⟩
    · obtain ⟨d, sg, n, hp, h1, he, _⟩ := binOp_wf .mul (toE a) (toE b) ha hb (by simp) hwf
      simp only [AOp.toBin, policy, toE, narrowest, Option.some.injEq, Prod.mk.injEq] at hp
      obtain ⟨rfl, rfl⟩ := hp
      exact ⟨n, h1, he⟩
  · right
    exact Classical.not_forall_not.mp hwf

/-! ## the operators of a static number -/

theorem binOp_addsub_spec (c : Cfg) (op : BinOp) (hop : op = .add ∨ op = .sub) (x y : SNum)
    (hx : x.InRange) (hy : y.InRange) :
    (Static.binOp c op x y = .ok (exactBin (rmode c.mode) op x y) ∧ (exactBin (rmode c.mode) op x y).InRange) ∨
      ∃ m, Static.binOp c op x y = .ill m := by
  have hb : Static.binOp c op x y =
      (scaleUp x (x.exp - min x.exp y.exp).toNat >>= fun a =>
       scaleUp y (y.exp - min x.exp y.exp).toNat >>= fun b =>
       binOpWith (repOp c) op (toE a) (toE b) >>= fun z =>
       .ok ⟨z.digits, min x.exp y.exp, z.value⟩) := by
    rcases hop with h | h <;> subst h <;> rfl
  rw [hb]
  rcases scaleUp_spec x (x.exp - min x.exp y.exp).toNat hx with h1 | ⟨m, h1⟩
  · rcases scaleUp_spec y (y.exp - min x.exp y.exp).toNat hy with h2 | ⟨m, h2⟩
    · rcases elBin_spec c op (by rcases hop with h | h <;> simp [h]) _ _
          (scaleUp_inRange (x.exp - min x.exp y.exp).toNat hx)
          (scaleUp_inRange (y.exp - min x.exp y.exp).toNat hy) with ⟨n, h3, hf⟩ | ⟨m, h3⟩
      · left
        simp only [h1, h2, h3, Res.bind_ok]
        rcases hop with h | h <;> subst h <;> exact ⟨rfl, hf⟩
      · right; exact ⟨m, by simp only [h1, h2, h3, Res.bind_ok, bind_ill]⟩
    · right; exact ⟨m, by simp only [h1, h2, Res.bind_ok, bind_ill]⟩
  · right; exact ⟨m, by simp only [h1, bind_ill]⟩

theorem binOp_mul_spec (c : Cfg) (x y : SNum) (hx : x.InRange) (hy : y.InRange) :
    (Static.binOp c .mul x y = .ok (exactBin (rmode c.mode) .mul x y) ∧
        (exactBin (rmode c.mode) .mul x y).InRange) ∨
      ∃ m, Static.binOp c .mul x y = .ill m := by
  have hb : Static.binOp c .mul x y =
      (binOpWith (repOp c) .mul (toE x) (toE y) >>= fun z => .ok ⟨z.digits, x.exp + y.exp, z.value⟩) := rfl
  rw [hb]
  rcases elBin_spec c .mul (by simp) x y hx hy with ⟨n, h3, hf⟩ | ⟨m, h3⟩
  · left; simp only [h3, Res.bind_ok]; exact ⟨rfl, hf⟩
  · right; exact ⟨m, by simp only [h3, bind_ill]⟩

theorem binOp_div_spec (c : Cfg) (x y : SNum) (hx : x.InRange) (hy : y.InRange) (h0 : y.value ≠ 0) :
    (Static.binOp c .div x y = .ok (exactBin (rmode c.mode) .div x y) ∧
        (exactBin (rmode c.mode) .div x y).InRange) ∨
      ∃ m, Static.binOp c .div x y = .ill m := by
  have hb : Static.binOp c .div x y =
      (binOpWith (repOp c) .div (toE x) (toE y) >>= fun z => .ok ⟨z.digits, x.exp - y.exp, z.value⟩) := rfl
  rw [hb]
  rcases elDiv_spec c x y hx hy h0 with h3 | ⟨m, h3⟩
  · left; simp only [h3, Res.bind_ok, rmode_eq_modeOf]
    exact ⟨rfl, roundDiv_fits _ h0 (fits_of_inRange hx)⟩
  · right; exact ⟨m, by simp only [h3, bind_ill]⟩

/-- every operator of a static number on in-range operands: the exact (for `/`: correctly rounded)
result in its declared digits, or an ill-formed instantiation — never a signal, never undefined -/
theorem binOp_spec (c : Cfg) (op : BinOp) (hop : IsArith op) (x y : SNum)
    (hx : x.InRange) (hy : y.InRange) (h0 : op = .div → y.value ≠ 0) :
    (Static.binOp c op x y = .ok (exactBin (rmode c.mode) op x y) ∧ (exactBin (rmode c.mode) op x y).InRange) ∨
      ∃ m, Static.binOp c op x y = .ill m := by
  rcases hop with h | h | h | h
  · exact binOp_addsub_spec c op (.inl h) x y hx hy
  · exact binOp_addsub_spec c op (.inr h) x y hx hy
  · subst h; exact binOp_mul_spec c x y hx hy
  · subst h; exact binOp_div_spec c x y hx hy (h0 rfl)

/-! ## unary minus, comparison -/

theorem neg_spec (x : SNum) (hx : x.InRange) :
    (Static.neg x = .ok ⟨x.digits, x.exp, -x.value⟩ ∧ (⟨x.digits, x.exp, -x.value⟩ : SNum).InRange) ∨
      ∃ m, Static.neg x = .ill m := by
  by_cases hwf : ∀ m, Elastic.neg (toE x) ≠ .ill m
  · left
    have ⟨h1, hf⟩ := neg_wf (toE x) hx hwf
    exact ⟨by simp only [Static.neg, h1]; rfl, hf⟩
  · right
    have ⟨m, hm⟩ : ∃ m, Elastic.neg (toE x) = .ill m := Classical.not_forall_not.mp hwf
    exact ⟨"digits exceed the widest integer", by simp only [Static.neg, hm]⟩

theorem cmp_spec (op : CmpOp) (x y : SNum) (hx : x.InRange) (hy : y.InRange) :
    Static.cmp op x y = .ok (cmpExact op (alignL x.exp y.exp x.value) (alignR x.exp y.exp y.value)) ∨
      ∃ m, Static.cmp op x y = .ill m := by
  have hb : Static.cmp op x y =
      (scaleUp x (x.exp - min x.exp y.exp).toNat >>= fun a =>
       scaleUp y (y.exp - min x.exp y.exp).toNat >>= fun b => Elastic.cmp op (toE a) (toE b)) := rfl
  rw [hb]
  rcases scaleUp_spec x (x.exp - min x.exp y.exp).toNat hx with h1 | ⟨m, h1⟩
  · rcases scaleUp_spec y (y.exp - min x.exp y.exp).toNat hy with h2 | ⟨m, h2⟩
    · simp only [h1, h2, Res.bind_ok]
      by_cases hwf : ∀ m, Elastic.cmp op
          (toE ⟨x.digits + (x.exp - min x.exp y.exp).toNat, x.exp - ((x.exp - min x.exp y.exp).toNat : Nat),
            x.value * 2^(x.exp - min x.exp y.exp).toNat⟩)
          (toE ⟨y.digits + (y.exp - min x.exp y.exp).toNat, y.exp - ((y.exp - min x.exp y.exp).toNat : Nat),
            y.value * 2^(y.exp - min x.exp y.exp).toNat⟩) ≠ .ill m
      · left
        exact cmp_wf op _ _ (scaleUp_inRange (x.exp - min x.exp y.exp).toNat hx)
          (scaleUp_inRange (y.exp - min x.exp y.exp).toNat hy) hwf
      · right; exact Classical.not_forall_not.mp hwf
    · right; exact ⟨m, by simp only [h1, h2, Res.bind_ok, bind_ill]⟩
  · right; exact ⟨m, by simp only [h1, bind_ill]⟩

/-! ## conversion -/

theorem narrowDigits_fits (c : Cfg) (D : Nat) {v : Int} (h : -(2^D - 1 : Int) ≤ v ∧ v ≤ 2^D - 1) :
    narrowDigits c D v = .ok v := by
  have h1 : ¬ v > 2^D - 1 := by omega
  have h2 : ¬ v < -(2^D - 1 : Int) := by omega
  simp only [narrowDigits, h1, h2, ite_false]

/-- a value the overflow-checked narrowing returns is in range of the destination -/
theorem narrowDigits_inRange (c : Cfg) (D : Nat) (v w : Int) (h : narrowDigits c D v = .ok w) :
    -(2^D - 1 : Int) ≤ w ∧ w ≤ 2^D - 1 := by
  have hp := two_pow_pos D
  unfold narrowDigits at h
  by_cases h1 : v > 2^D - 1
  · simp only [h1, ite_true] at h
    cases ht : c.tag <;> simp only [ht] at h <;> first | cases h; omega | cases h
  · by_cases h2 : v < -(2^D - 1 : Int)
    · simp only [h1, h2, ite_true, ite_false] at h
      cases ht : c.tag <;> simp only [ht] at h <;> first | cases h; omega | cases h
    · simp only [h1, h2, ite_false] at h
      cases h; omega

/-- the overflow-checked narrowing agrees with what the tag prescribes, unless it is ill-formed
(an overflow under the native tag is outside the model) -/
theorem narrowDigits_agrees (c : Cfg) (D : Nat) (E : Int) (w : Int)
    (hwf : ∀ m, narrowDigits c D w ≠ .ill m) :
    Agrees c.tag (narrowDigits c D w >>= fun v => .ok ⟨D, E, v⟩) (idealNarrow c.tag D E w) := by
  unfold narrowDigits idealNarrow at *
  by_cases h1 : w > 2^D - 1
  · simp only [h1, ite_true] at hwf ⊢
    cases ht : c.tag <;> simp only [ht] at hwf ⊢ <;> simp [Agrees] at hwf ⊢
  · by_cases h2 : w < -(2^D - 1 : Int)
    · simp only [h1, h2, ite_true, ite_false] at hwf ⊢
      cases ht : c.tag <;> simp only [ht] at hwf ⊢ <;> simp [Agrees] at hwf ⊢
    · simp only [h1, h2, ite_false, Res.bind_ok]
      exact ⟨rfl, rfl⟩

theorem two_pow_inRange {t : IntTy} {k : Nat} (hs : t.signed = true) (hk : k < t.digits) : t.InRange (2^k) := by
  have h1 : (2:Int)^(k+1) ≤ 2^t.digits := two_pow_le (by omega)
  rw [two_pow_succ] at h1
  have hp := two_pow_pos k
  unfold IntTy.InRange
  rw [IntTy.max_eq, IntTy.lowest_eq]
  simp only [hs, ite_true]
  omega

/-- the common type of two signed types is signed and has at least the digits of each -/
theorem usualArith_signed {L R : IntTy} (hL : L.signed = true) (hR : R.signed = true)
    (hLb : 1 ≤ L.bits) (hRb : 1 ≤ R.bits) :
    (usualArith L R).signed = true ∧ L.digits ≤ (usualArith L R).digits ∧ R.digits ≤ (usualArith L R).digits := by
  have pLs := promote_signed_of_signed hL
  have pRs := promote_signed_of_signed hR
  have dL := promote_digits_le hLb
  have dR := promote_digits_le hRb
  have bL := IntTy.bits_eq_digits_succ pLs (promote_bits_ge hLb)
  have bR := IntTy.bits_eq_digits_succ pRs (promote_bits_ge hRb)
  rw [usualArith_key]
  simp only [key, pLs, pRs, ite_true]
  split
  · exact ⟨pLs, dL, by omega⟩
  · exact ⟨pRs, by omega, dR⟩

/-- division under a rounding tag on operands of two different storage types -/
theorem repOp_div_mixed (c : Cfg) {L R : IntTy} (hL : 1 ≤ L.bits) (hR : 1 ≤ R.bits) {a b : Int}
    (haL : L.InRange a) (hbR : R.InRange b) (haT : (usualArith L R).InRange a) (hbT : (usualArith L R).InRange b)
    (hb0 : b ≠ 0) (hq : (usualArith L R).InRange (roundDiv (modeOf c.mode) a b)) :
    repOp c .div (L, a) (R, b) = .ok (usualArith L R, roundDiv (modeOf c.mode) a b) := by
  have h := binOp_div_eval c.mode hL hR haL hbR haT hbT hb0 hq
  simp only [repOp, h]

/-- the conversion is the overflow-checked narrowing of the rescaled value — exactly rescaled when the
exponent does not grow, rounded otherwise (a mixed-type rounding division by `2^k`, whose divisor has
its own storage type) — outside the two open defect classes -/
theorem convert_core (c : Cfg) (D : Nat) (E : Int) (x : SNum) (hx : x.InRange) (hnd : ¬ KnownDefect c E x) :
    convert c D E x = (narrowDigits c D (rescale (rmode c.mode) E x.exp x.value) >>= fun v => .ok ⟨D, E, v⟩) ∨
      ∃ m, convert c D E x = .ill m := by
  by_cases hE : E ≤ x.exp
  · have hb : convert c D E x =
        (scaleUp x (x.exp - E).toNat >>= fun a => narrowDigits c D a.value >>= fun v => .ok ⟨D, E, v⟩) := by
      simp only [convert, hE, ite_true]; rfl
    rw [hb]
    rcases scaleUp_spec x (x.exp - E).toNat hx with h1 | ⟨m, h1⟩
    · left; simp only [h1, Res.bind_ok, rescale, hE, ite_true]
    · right; exact ⟨m, by simp only [h1, bind_ill]⟩
  · have hlt : x.exp < E := by omega
    have hk : (E - x.exp).toNat ≤ x.digits := by
      refine Decidable.byContradiction fun h => hnd (.inl ⟨hlt, by omega⟩)
    have hq : (roundDiv (rmode c.mode) x.value (2^(E - x.exp).toNat)).natAbs
        ≤ 2^(x.digits - (E - x.exp).toNat) - 1 := by
      refine Decidable.byContradiction fun h => hnd (.inr ⟨hlt, hk, by omega⟩)
    have hk' : ¬ (E - x.exp).toNat > x.digits := by omega
    cases hR : repTy x.digits narrowest with
    | none => right; exact ⟨"digits exceed the widest integer", by simp only [convert, hE, ite_false, hR]⟩
    | some rep =>
      cases hDr : repTy (1 + (E - x.exp).toNat) narrowest with
      | none =>
        right
        exact ⟨"digits exceed the widest integer", by simp only [convert, hE, ite_false, hR, hk', hDr]⟩
      | some drep =>
        left
        have ⟨hRs, hRd, hRb⟩ := setDigits_spec hR
        have hRs' : rep.signed = true := hRs
        have hb1 : 1 ≤ rep.bits := by omega
        have ⟨hDs, hDd, hDb⟩ := setDigits_spec hDr
        have hDs' : drep.signed = true := hDs
        have hd1 : 1 ≤ drep.bits := by omega
        have ⟨hTs, hTL, hTR⟩ := usualArith_signed hRs' hDs' hb1 hd1
        have hxR : rep.InRange x.value :=
          inRange_of_fits (by omega) (fits_of_inRange hx) (fun h => by rw [hRs'] at h; cases h)
        have hxT : (usualArith rep drep).InRange x.value :=
          inRange_of_fits (by omega) (fits_of_inRange hx) (fun h => by rw [hTs] at h; cases h)
        have hpR : drep.InRange (2^(E - x.exp).toNat) := two_pow_inRange hDs' (by omega)
        have hpT : (usualArith rep drep).InRange (2^(E - x.exp).toNat) := two_pow_inRange hTs (by omega)
        have hp0 : (2:Int)^(E - x.exp).toNat ≠ 0 := by have := two_pow_pos (E - x.exp).toNat; omega
        have hqf := roundDiv_fits (modeOf c.mode) hp0 (fits_of_inRange hx)
        have hqT : (usualArith rep drep).InRange (roundDiv (modeOf c.mode) x.value (2^(E - x.exp).toNat)) :=
          inRange_of_fits (by omega) hqf (fun h => by rw [hTs] at h; cases h)
        have hmid : -(2^(x.digits - (E - x.exp).toNat) - 1 : Int) ≤ roundDiv (modeOf c.mode) x.value (2^(E - x.exp).toNat) ∧
            roundDiv (modeOf c.mode) x.value (2^(E - x.exp).toNat) ≤ 2^(x.digits - (E - x.exp).toNat) - 1 := by
          rw [rmode_eq_modeOf] at hq
          have := Nat.two_pow_pos (x.digits - (E - x.exp).toNat)
          exact bound_of_natAbs_le (by omega)
        simp only [convert, hE, ite_false, hR, hk', hDr, repOp_div_mixed c hb1 hd1 hxR hpR hxT hpT hp0 hqT,
          Res.bind_ok, narrowDigits_fits c _ hmid, rescale, rmode_eq_modeOf]
        rfl

theorem convert_agrees (c : Cfg) (D : Nat) (E : Int) (x : SNum) (hx : x.InRange) (hnd : ¬ KnownDefect c E x)
    (hwf : ∀ m, convert c D E x ≠ .ill m) :
    Agrees c.tag (convert c D E x) (idealCvt c D E (.val x.exp x.value)) ∧
      ∀ z, convert c D E x = .ok z → z.InRange := by
  rcases convert_core c D E x hx hnd with h | ⟨m, h⟩
  · have hn : ∀ m, narrowDigits c D (rescale (rmode c.mode) E x.exp x.value) ≠ .ill m := by
      intro m hm; rw [hm] at h; exact hwf m h
    rw [h]
    refine ⟨narrowDigits_agrees c D E _ hn, fun z hz => ?_⟩
    cases hv : narrowDigits c D (rescale (rmode c.mode) E x.exp x.value) with
    | ok w =>
      rw [hv] at hz; simp only [Res.bind_ok] at hz; cases hz
      exact narrowDigits_inRange c D _ w hv
    | _ => rw [hv] at hz; cases hz
  · exact absurd h (hwf m)

/-! ## shifts -/

section shifts
open Cnl.Overflow (shl_test_pos shl_test_neg shr_pos_bounds shr_neg_bounds cShr_ev cShl_ev mul_pow_ge mul_pow_le)

theorem rep_facts {D : Nat} {rep : IntTy} (hR : repTy D narrowest = some rep) :
    rep.signed = true ∧ D ≤ rep.digits ∧ 1 ≤ rep.bits ∧ rep.digits < rep.bits := by
  have ⟨hs, hd, hb⟩ := setDigits_spec hR
  have hs' : rep.signed = true := hs
  have hb1 : 1 ≤ rep.bits := by omega
  exact ⟨hs', Nat.le_trans (Nat.le_max_right _ _) hd, hb1, digits_lt_bits hs' hb1⟩

theorem fits_shr {D : Nat} {v : Int} (hv : Fits D true v) (j : Nat) : Fits D true (v / 2^j) := by
  have hp := two_pow_pos j
  have hD := two_pow_pos D
  have h := (fits_iff.mp hv).1
  rw [fits_iff]
  refine ⟨?_, fun h => by cases h⟩
  by_cases h0 : 0 ≤ v
  · have ⟨b1, b2⟩ := shr_pos_bounds hp h0; omega
  · have ⟨b1, b2⟩ := shr_neg_bounds hp (show v < 0 by omega); omega

/-- the run-time `>>` of the elastic layer is the floor quotient (counts up to the digit count) -/
theorem elShift_shr_spec {D : Nat} {v : Int} (hv : Fits D true v) {j : Nat} (hj : j ≤ D) :
    elShift .shr D v (j : Int) = .ok (v / 2^j) ∨ ∃ m, elShift .shr D v (j : Int) = .ill m := by
  cases hR : repTy D narrowest with
  | none => right; exact ⟨"digits exceed the widest integer", by simp only [elShift, hR]⟩
  | some rep =>
    left
    have ⟨hs, hD, hb1, hlt⟩ := rep_facts hR
    have hpb := promote_bits_le rep
    have hq : rep.InRange (v / 2^j) :=
      inRange_of_fits hD (fits_shr hv j) (fun h => by rw [hs] at h; cases h)
    simp only [elShift, hR, cShr_ev (B := i32) (show j < (promote rep).bits by omega), IntTy.wrap_id hb1 hq]

/-- the run-time `<<` of the elastic layer is exact when the product fits the digits -/
theorem elShift_shl_spec {D : Nat} {v : Int} {j : Nat} (hj : j ≤ D) (hf : Fits D true (v * 2^j)) :
    elShift .shl D v (j : Int) = .ok (v * 2^j) ∨ ∃ m, elShift .shl D v (j : Int) = .ill m := by
  cases hR : repTy D narrowest with
  | none => right; exact ⟨"digits exceed the widest integer", by simp only [elShift, hR]⟩
  | some rep =>
    left
    have ⟨hs, hD, hb1, hlt⟩ := rep_facts hR
    have hpb := promote_bits_le rep
    have hq : rep.InRange (v * 2^j) := inRange_of_fits hD hf (fun h => by rw [hs] at h; cases h)
    simp only [elShift, hR, cShl_ev (B := i32) (show j < (promote rep).bits by omega),
      IntTy.wrap_id (promote_bits_ge hb1) (promote_inRange hb1 hq), IntTy.wrap_id hb1 hq]

theorem elNeg_spec {D : Nat} {v : Int} (hv : Fits D true v) :
    elNeg D v = .ok (-v) ∨ ∃ m, elNeg D v = .ill m := by
  cases hR : repTy D narrowest with
  | none =>
    right
    have : Elastic.neg ⟨D, narrowest, v⟩ = .ill "digits exceed the widest integer" := by
      have hR' : repTy D ⟨narrowest.bits, true⟩ = none := hR
      simp only [Elastic.neg, hR']
    exact ⟨"digits exceed the widest integer", by simp only [elNeg, this]⟩
  | some rep =>
    left
    have h := (neg_core ⟨D, narrowest, v⟩ hv (rep := rep) hR).1
    simp only [elNeg, h]

theorem natCast_sub_eq {a b : Nat} (h : b ≤ a) : ((a : Int) - (b : Int)) = ((a - b : Nat) : Int) := by omega

theorem two_pow_split {a b : Nat} (h : b ≤ a) : (2:Int)^a = 2^(a - b) * 2^b := by
  rw [← two_pow_add]; congr 1; omega

theorem bne_zero_eq (q : Int) (P : Prop) [Decidable P] (h : q ≠ 0 ↔ P) : (q != 0) = decide P := by
  by_cases hq : q = 0
  · have : ¬P := fun hp => (h.mpr hp) hq
    simp [hq, this]
  · have : P := h.mp hq
    simp [hq, this]

theorem bne_negone_eq (q : Int) (P : Prop) [Decidable P] (h : q ≠ -1 ↔ P) : (q != -1) = decide P := by
  by_cases hq : q = -1
  · have : ¬P := fun hp => (h.mpr hp) hq
    simp [hq, this]
  · have : P := h.mp hq
    simp [hq, this]

/-- the positive test fires exactly when `x · 2^j` exceeds `2^pd − 1` (`pd` the result's digits) -/
theorem isOverflowShl_pos_spec {pd D : Nat} {x : Int} (hx : Fits D true x) {j : Nat} (h1 : D ≤ pd) (h2 : pd ≤ D + j) :
    isOverflowShl true pd D x (j : Int) = .ok (decide (x * 2^j > 2^pd - 1)) ∨
      ∃ m, isOverflowShl true pd D x (j : Int) = .ill m := by
  have hpj := two_pow_pos j
  have hpp := two_pow_pos pd
  have hb := (fits_iff.mp hx).1
  have hle := two_pow_le h1
  by_cases hx0 : x > 0
  · by_cases hj0 : (j : Int) > 0
    · by_cases hjp : (j : Int) < pd
      · have hjp' : j ≤ pd := by omega
        rcases elShift_shr_spec hx (show pd - j ≤ D by omega) with h | ⟨m, h⟩
        · left
          have ht := shl_test_pos (l := x) (two_pow_pos (pd - j)) hpj hx0
          rw [← two_pow_split hjp'] at ht
          simp only [isOverflowShl, hx0, hj0, hjp, ite_true, natCast_sub_eq hjp', h, Res.bind_ok, Res.pure_eq,
            bne_zero_eq _ _ ht]
        · right; exact ⟨m, by simp only [isOverflowShl, hx0, hj0, hjp, ite_true, natCast_sub_eq hjp', h, bind_ill]⟩
      · left
        have := two_pow_le (show pd ≤ j by omega)
        have := mul_pow_ge hpj (show 1 ≤ x by omega)
        have hgt : x * 2^j > 2^pd - 1 := by omega
        simp only [isOverflowShl, hx0, hj0, hjp, ite_true, ite_false, hgt, decide_true]
    · left
      have hj' : j = 0 := by omega
      subst hj'
      have hng : ¬ x * 2^0 > 2^pd - 1 := by simp; omega
      simp only [isOverflowShl, hx0, hj0, ite_true, ite_false, hng, decide_false]
  · left
    have := (Cnl.Overflow.mul_sign_facts x (2^j)).2.2.2 (by omega) (by omega)
    have hng : ¬ x * 2^j > 2^pd - 1 := by omega
    simp only [isOverflowShl, hx0, ite_true, ite_false, hng, decide_false]

/-- the (repaired) negative test fires exactly when `x · 2^j` is below `−(2^pd − 1)` -/
theorem isOverflowShl_neg_spec {pd D : Nat} {x : Int} (hx : Fits D true x) {j : Nat} (h1 : D ≤ pd) (h2 : pd ≤ D + j) :
    isOverflowShl false pd D x (j : Int) = .ok (decide (x * 2^j < -(2^pd - 1 : Int))) ∨
      ∃ m, isOverflowShl false pd D x (j : Int) = .ill m := by
  have hpj := two_pow_pos j
  have hpp := two_pow_pos pd
  have hb := (fits_iff.mp hx).1
  have hle := two_pow_le h1
  have hf : (false = true) = False := by simp
  by_cases hx0 : x < 0
  · by_cases hj0 : (j : Int) > 0
    · by_cases hjp : (j : Int) < pd
      · have hjp' : j ≤ pd := by omega
        have hnx : Fits D true (-x) := by rw [fits_iff]; exact ⟨by omega, fun h => by cases h⟩
        rcases elNeg_spec hx with hn | ⟨m, hn⟩
        · rcases elShift_shr_spec hnx (show pd - j ≤ D by omega) with h | ⟨m, h⟩
          · left
            have ht := shl_test_pos (l := -x) (two_pow_pos (pd - j)) hpj (by omega)
            rw [← two_pow_split hjp', Int.neg_mul] at ht
            have ht' : -x / 2^(pd - j) ≠ 0 ↔ x * 2^j < -(2^pd - 1 : Int) := by rw [ht]; omega
            simp only [isOverflowShl, hf, ite_false, hx0, hj0, hjp, ite_true, natCast_sub_eq hjp', hn, h, Res.bind_ok,
              Res.pure_eq, bne_zero_eq _ _ ht']
          · right
            exact ⟨m, by simp only [isOverflowShl, hf, ite_false, hx0, hj0, hjp, ite_true, natCast_sub_eq hjp', hn, h,
              Res.bind_ok, bind_ill]⟩
        · right
          exact ⟨m, by simp only [isOverflowShl, hf, ite_false, hx0, hj0, hjp, ite_true, hn, bind_ill]⟩
      · left
        have := two_pow_le (show pd ≤ j by omega)
        have := mul_pow_le hpj (show x ≤ -1 by omega)
        have hlt : x * 2^j < -(2^pd - 1 : Int) := by omega
        simp only [isOverflowShl, hf, hx0, hj0, hjp, ite_true, ite_false, hlt, decide_true]
    · left
      have hj' : j = 0 := by omega
      subst hj'
      have hng : ¬ x * 2^0 < -(2^pd - 1 : Int) := by simp; omega
      simp only [isOverflowShl, hf, hx0, hj0, ite_true, ite_false, hng, decide_false]
  · left
    have := (Cnl.Overflow.mul_sign_facts x (2^j)).1 (by omega) (by omega)
    have hng : ¬ x * 2^j < -(2^pd - 1 : Int) := by omega
    simp only [isOverflowShl, hf, hx0, ite_true, ite_false, hng, decide_false]

/-- the **as-found** negative test, for counts below the digit count, fires exactly when `x · 2^j` is
below `−2^pd`: it lets `−2^pd`, one below the symmetric range, through -/
theorem isOverflowShlNegOrig_spec {pd D : Nat} {x : Int} (hx : Fits D true x) {j : Nat} (h1 : D ≤ pd)
    (h2 : pd ≤ D + j) (hjp : (j : Int) < pd) :
    isOverflowShlNegOrig pd D x (j : Int) = .ok (decide (x * 2^j < -(2^pd : Int))) ∨
      ∃ m, isOverflowShlNegOrig pd D x (j : Int) = .ill m := by
  have hpj := two_pow_pos j
  have hpp := two_pow_pos pd
  have hb := (fits_iff.mp hx).1
  by_cases hx0 : x < 0
  · by_cases hj0 : (j : Int) > 0
    · have hjp' : j ≤ pd := by omega
      rcases elShift_shr_spec hx (show pd - j ≤ D by omega) with h | ⟨m, h⟩
      · left
        have ht := shl_test_neg (l := x) (two_pow_pos (pd - j)) hpj hx0
        rw [← two_pow_split hjp'] at ht
        simp only [isOverflowShlNegOrig, hx0, hj0, hjp, ite_true, natCast_sub_eq hjp', h, Res.bind_ok, Res.pure_eq,
          bne_negone_eq _ _ ht]
      · right; exact ⟨m, by simp only [isOverflowShlNegOrig, hx0, hj0, hjp, ite_true, natCast_sub_eq hjp', h, bind_ill]⟩
    · left
      have hj' : j = 0 := by omega
      subst hj'
      have hD : (2:Int)^D ≤ 2^pd := two_pow_le h1
      have hng : ¬ x * 2^0 < -(2^pd : Int) := by simp; omega
      simp only [isOverflowShlNegOrig, hx0, hj0, ite_true, ite_false, hng, decide_false]
  · left
    have := (Cnl.Overflow.mul_sign_facts x (2^j)).1 (by omega) (by omega)
    have hng : ¬ x * 2^j < -(2^pd : Int) := by omega
    simp only [isOverflowShlNegOrig, hx0, ite_false, hng, decide_false]

theorem react_eq_narrow_pos (c : Cfg) (D : Nat) (E : Int) {w : Int} (ht : c.tag ≠ .nat) (h : w > 2^D - 1) :
    mkS D E (reactDigits c.tag true D) = (narrowDigits c D w >>= fun v => .ok ⟨D, E, v⟩) := by
  simp only [narrowDigits, h, ite_true, mkS, reactDigits]
  cases hc : c.tag <;> first | rfl | exact absurd hc ht

theorem react_eq_narrow_neg (c : Cfg) (D : Nat) (E : Int) {w : Int} (ht : c.tag ≠ .nat) (h1 : ¬ w > 2^D - 1)
    (h2 : w < -(2^D - 1 : Int)) :
    mkS D E (reactDigits c.tag false D) = (narrowDigits c D w >>= fun v => .ok ⟨D, E, v⟩) := by
  simp only [narrowDigits, h1, h2, ite_true, ite_false, mkS, reactDigits]
  cases hc : c.tag <;> first | rfl | exact absurd hc ht

theorem zero_of_fits_of_big {D j : Nat} {v : Int} (hj : D + 1 ≤ j) (hf : Fits D true (v * 2^j)) : v = 0 := by
  have hb := (fits_iff.mp hf).1
  have hpj := two_pow_pos j
  have h2 := two_pow_le hj
  rw [two_pow_succ] at h2
  have hD := two_pow_pos D
  refine Decidable.byContradiction fun hne => ?_
  by_cases hpos : 1 ≤ v
  · have := mul_pow_ge hpj hpos; omega
  · have := mul_pow_le hpj (show v ≤ -1 by omega); omega

/-- **`x << n`, run-time count `n ≥ 0`**: the overflow-checked narrowing of the exact product
`x · 2^n` into the operand's own digits (flagged iff outside `±(2^D − 1)`, then the tag's
reaction), in the operand's exponent — or an ill-formed instantiation / the native tag -/
theorem shiftRT_shl_core (c : Cfg) (x : SNum) (j : Nat) (hx : x.InRange) :
    shiftRT c .shl x (j : Int) =
        (narrowDigits c x.digits (x.value * 2^j) >>= fun v => .ok ⟨x.digits, x.exp, v⟩) ∨
      ∃ m, shiftRT c .shl x (j : Int) = .ill m := by
  by_cases ht : c.tag = .nat
  · right; exact ⟨"native tag: not modelled", by simp only [shiftRT, checkedShl, ht, ite_true]⟩
  · have hxf := fits_of_inRange hx
    rcases isOverflowShl_pos_spec hxf (Nat.le_refl _) (Nat.le_add_right _ j) with hp | ⟨m, hp⟩
    · by_cases hgt : x.value * 2^j > 2^x.digits - 1
      · left
        simp only [shiftRT, checkedShl, ht, ite_false, hp, Res.bind_ok, hgt, decide_true, ite_true]
        exact react_eq_narrow_pos c _ _ ht hgt
      · rcases isOverflowShl_neg_spec hxf (Nat.le_refl _) (Nat.le_add_right _ j) with hn | ⟨m, hn⟩
        · by_cases hlt : x.value * 2^j < -(2^x.digits - 1 : Int)
          · left
            simp only [shiftRT, checkedShl, ht, ite_false, hp, hn, Res.bind_ok, hgt, hlt, decide_true, decide_false,
              ite_true, Bool.false_eq_true]
            exact react_eq_narrow_neg c _ _ ht hgt hlt
          · have hfit : Fits x.digits true (x.value * 2^j) := by
              rw [fits_iff]; exact ⟨by omega, fun h => by cases h⟩
            rw [narrowDigits_fits c x.digits (v := x.value * 2^j) ⟨by omega, by omega⟩]
            by_cases hbig : (j : Int) ≥ ((max (x.digits + 1) (x.digits + 1) : Nat) : Int)
            · left
              rw [Nat.max_self] at hbig
              have hx0 : x.value = 0 := zero_of_fits_of_big (by omega) hfit
              have hnl : ¬ x.value < 0 := by omega
              simp only [shiftRT, checkedShl, ht, ite_false, hp, hn, Res.bind_ok, hgt, hlt, decide_false,
                Bool.false_eq_true, Nat.max_self, hbig, ite_true, hnl]
              rw [hx0, Int.zero_mul]
            · rw [Nat.max_self] at hbig
              rcases elShift_shl_spec (show j ≤ x.digits by omega) hfit with h | ⟨m, h⟩
              · left
                simp only [shiftRT, checkedShl, ht, ite_false, hp, hn, Res.bind_ok, hgt, hlt, decide_false,
                  Bool.false_eq_true, Nat.max_self, hbig, h, mkS, Res.map]
              · right
                exact ⟨m, by simp only [shiftRT, checkedShl, ht, ite_false, hp, hn, Res.bind_ok, hgt, hlt, decide_false,
                  Bool.false_eq_true, Nat.max_self, hbig, h, mkS, Res.map, bind_ill]⟩
        · right
          exact ⟨m, by simp only [shiftRT, checkedShl, ht, ite_false, hp, hn, Res.bind_ok, hgt, decide_false,
            Bool.false_eq_true, bind_ill]⟩
    · right; exact ⟨m, by simp only [shiftRT, checkedShl, ht, ite_false, hp, bind_ill]⟩

theorem ediv_two_pow_of_small {D j : Nat} {v : Int} (hv : Fits D true v) (hj : D ≤ j) :
    v / 2^j = if v < 0 then -1 else 0 := by
  have hb := (fits_iff.mp hv).1
  have hpj := two_pow_pos j
  have h2 := two_pow_le hj
  by_cases h0 : v < 0
  · simp only [h0, ite_true]
    have h1 : v / 2^j < 0 := Int.ediv_neg_of_neg_of_pos h0 hpj
    have h3 : -1 ≤ v / 2^j := Int.le_ediv_of_mul_le hpj (by omega)
    omega
  · simp only [h0, ite_false]
    exact Int.ediv_eq_zero_of_lt (by omega) (by omega)

/-- **`x >> n`, run-time count `n ≥ 0`**: `⌊x / 2^n⌋` in the operand's digits and exponent; no signal -/
theorem shiftRT_shr_core (c : Cfg) (x : SNum) (j : Nat) (hx : x.InRange) :
    shiftRT c .shr x (j : Int) = .ok ⟨x.digits, x.exp, x.value / 2^j⟩ ∨ ∃ m, shiftRT c .shr x (j : Int) = .ill m := by
  by_cases ht : c.tag = .nat
  · right; exact ⟨"native tag: not modelled", by simp only [shiftRT, ht, ite_true]⟩
  · have hxf := fits_of_inRange hx
    by_cases hbig : (j : Int) ≥ ((x.digits + 1 : Nat) : Int)
    · left
      simp only [shiftRT, ht, ite_false, hbig, ite_true, ediv_two_pow_of_small hxf (show x.digits ≤ j by omega)]
    · rcases elShift_shr_spec hxf (show j ≤ x.digits by omega) with h | ⟨m, h⟩
      · left; simp only [shiftRT, ht, ite_false, hbig, h, mkS, Res.map, Res.bind_ok]
      · right; exact ⟨m, by simp only [shiftRT, ht, ite_false, hbig, h, mkS, Res.map, bind_ill]⟩

theorem shr_inRange {x : SNum} (hx : x.InRange) (j : Nat) : (⟨x.digits, x.exp, x.value / 2^j⟩ : SNum).InRange :=
  fits_shr (fits_of_inRange hx) j

/-- **`x << constant<k>` on a static_integer**: exact, `k` more digits; neither overflow test fires -/
theorem shiftConstInt_shl_core (c : Cfg) (x : SNum) (k : Nat) (hx : x.InRange) :
    shiftConstInt c .shl x k = .ok ⟨x.digits + k, x.exp, x.value * 2^k⟩ ∨ ∃ m, shiftConstInt c .shl x k = .ill m := by
  by_cases ht : c.tag = .nat
  · right; exact ⟨"native tag: not modelled", by simp only [shiftConstInt, checkedShl, ht, ite_true]⟩
  · have hxf := fits_of_inRange hx
    have hfit := (fits_iff.mp (shl_bound (k := k) hxf)).1
    have hgt : ¬ x.value * 2^k > 2^(x.digits + k) - 1 := by omega
    have hlt : ¬ x.value * 2^k < -(2^(x.digits + k) - 1 : Int) := by omega
    have hbig : ¬ (k : Int) ≥ ((max (x.digits + k + 1) (x.digits + 1) : Nat) : Int) := by
      have := Nat.le_max_left (x.digits + k + 1) (x.digits + 1); omega
    rcases isOverflowShl_pos_spec hxf (Nat.le_add_right _ k) (Nat.le_refl _) with hp | ⟨m, hp⟩
    · rcases isOverflowShl_neg_spec hxf (Nat.le_add_right _ k) (Nat.le_refl _) with hn | ⟨m, hn⟩
      · by_cases hwf : ∀ m, shlConst (toE x) k ≠ .ill m
        · left
          obtain ⟨n, h⟩ := shl_toE x k hx hwf
          simp only [shiftConstInt, checkedShl, ht, ite_false, hp, hn, Res.bind_ok, hgt, hlt, decide_false,
            Bool.false_eq_true, hbig, h]
        · right
          have ⟨m, hm⟩ : ∃ m, shlConst (toE x) k = .ill m := Classical.not_forall_not.mp hwf
          exact ⟨"digits exceed the widest integer", by
            simp only [shiftConstInt, checkedShl, ht, ite_false, hp, hn, Res.bind_ok, hgt, hlt, decide_false,
              Bool.false_eq_true, hbig, hm]⟩
      · right
        exact ⟨m, by simp only [shiftConstInt, checkedShl, ht, ite_false, hp, hn, Res.bind_ok, hgt, decide_false,
          Bool.false_eq_true, bind_ill]⟩
    · right; exact ⟨m, by simp only [shiftConstInt, checkedShl, ht, ite_false, hp, bind_ill]⟩

/-- **`x >> constant<k>` on a static_integer** (`k <` digits): `⌊x / 2^k⌋` in `digits − k` digits -/
theorem shiftConstInt_shr_core (c : Cfg) (x : SNum) (k : Nat) (hx : x.InRange) (hk : k < x.digits) :
    shiftConstInt c .shr x k = .ok ⟨x.digits - k, x.exp, x.value / 2^k⟩ ∨ ∃ m, shiftConstInt c .shr x k = .ill m := by
  by_cases ht : c.tag = .nat
  · right; exact ⟨"native tag: not modelled", by simp only [shiftConstInt, ht, ite_true]⟩
  · have hk' : ¬ k > x.digits := by omega
    by_cases hwf : ∀ m, shrConst (toE x) k ≠ .ill m
    · left
      obtain ⟨n, h, _⟩ := shrConst_wf (toE x) k hx hk hwf
      simp only [shiftConstInt, ht, ite_false, hk', h]
      rfl
    · right
      have ⟨m, hm⟩ : ∃ m, shrConst (toE x) k = .ill m := Classical.not_forall_not.mp hwf
      exact ⟨"digits exceed the widest integer", by simp only [shiftConstInt, ht, ite_false, hk', hm]⟩

/-- outside the open class the constant right shift stays within the digits it declares -/
theorem shrConst_inRange {x : SNum} (hx : x.InRange) {k : Nat} (hk : k < x.digits) (hc : ¬ ShrBelowRange k x) :
    (⟨x.digits - k, x.exp, x.value / 2^k⟩ : SNum).InRange := by
  have ⟨b1, b2, _⟩ := shr_bound (fits_of_inRange hx) (Nat.le_of_lt hk)
  unfold ShrBelowRange at hc
  show -(2^(x.digits - k) - 1 : Int) ≤ x.value / 2^k ∧ x.value / 2^k ≤ 2^(x.digits - k) - 1
  exact ⟨by omega, b2⟩

end shifts

/-! ## histories -/

theorem bind_of_not_ok {α : Type} (r : Res α) (h : ∀ x, r ≠ .ok x) (f : α → Res α) : (r >>= f) = r := by
  cases r <;> first | rfl | exact absurd rfl (h _)

theorem agrees_ok {tag : OvTag} {x : SNum} {i : Ideal} (h : Agrees tag (.ok x) i) : i = .val x.exp x.value := by
  cases i <;> simp only [Agrees] at h
  obtain ⟨rfl, rfl⟩ := h; rfl

theorem agrees_not_ok {tag : OvTag} {r : Res SNum} {i : Ideal} (h : Agrees tag r i) (hr : ∀ x, r ≠ .ok x) :
    ∃ p, i = .signal p := by
  cases i with
  | signal p => exact ⟨p, rfl⟩
  | val e v => cases r <;> first | exact absurd rfl (hr _) | simp only [Agrees] at h
  | undef => cases r <;> simp only [Agrees] at h

theorem idealBin_signal_left (m : RoundMode) (op : BinOp) (p : Bool) (ib : Ideal) :
    idealBin m op (.signal p) ib = .signal p := by cases ib <;> rfl

theorem idealBin_val (m : RoundMode) (op : BinOp) (hop : IsArith op) (x y : SNum) (h0 : op = .div → y.value ≠ 0) :
    idealBin m op (.val x.exp x.value) (.val y.exp y.value)
      = .val (exactBin m op x y).exp (exactBin m op x y).value := by
  rcases hop with h | h | h | h <;> subst h
  · rfl
  · rfl
  · rfl
  · simp only [idealBin, h0 rfl, ite_false, exactBin]

/-- one binary node of a history -/
theorem bin_node (c : Cfg) (op : BinOp) (hop : IsArith op) (ma mb : Res SNum) (ia ib : Ideal)
    (ha : Agrees c.tag ma ia ∧ ∀ z, ma = .ok z → z.InRange)
    (hb : (∀ m, mb ≠ .ill m) → Agrees c.tag mb ib ∧ ∀ z, mb = .ok z → z.InRange)
    (h0 : op = .div → onOk mb (fun y => y.value ≠ 0))
    (hwf : ∀ m, (ma >>= fun x => mb >>= fun y => Static.binOp c op x y) ≠ .ill m) :
    Agrees c.tag (ma >>= fun x => mb >>= fun y => Static.binOp c op x y) (idealBin (rmode c.mode) op ia ib) ∧
      ∀ z, (ma >>= fun x => mb >>= fun y => Static.binOp c op x y) = .ok z → z.InRange := by
  by_cases hma : ∃ x, ma = .ok x
  · obtain ⟨x, rfl⟩ := hma
    have hx := ha.2 x rfl
    rw [agrees_ok ha.1]
    simp only [Res.bind_ok] at hwf ⊢
    have hmb : ∀ m, mb ≠ .ill m := by intro m hm; rw [hm] at hwf; exact hwf m rfl
    have hb := hb hmb
    by_cases hmb' : ∃ y, mb = .ok y
    · obtain ⟨y, rfl⟩ := hmb'
      have hy := hb.2 y rfl
      rw [agrees_ok hb.1]
      simp only [Res.bind_ok] at hwf ⊢
      have h0' : op = .div → y.value ≠ 0 := fun h => h0 h
      rcases binOp_spec c op hop x y hx hy h0' with ⟨h1, hr⟩ | ⟨m, h1⟩
      · rw [h1, idealBin_val _ op hop x y h0']
        exact ⟨⟨rfl, rfl⟩, fun z hz => by cases hz; exact hr⟩
      · exact absurd h1 (hwf m)
    · have hmb'' : ∀ y, mb ≠ .ok y := fun y h => hmb' ⟨y, h⟩
      obtain ⟨p, rfl⟩ := agrees_not_ok hb.1 hmb''
      rw [bind_of_not_ok mb hmb'']
      refine ⟨hb.1, fun z hz => absurd hz (hmb'' z)⟩
  · have hma' : ∀ x, ma ≠ .ok x := fun x h => hma ⟨x, h⟩
    obtain ⟨p, rfl⟩ := agrees_not_ok ha.1 hma'
    rw [bind_of_not_ok ma hma', idealBin_signal_left]
    exact ⟨ha.1, fun z hz => absurd hz (hma' z)⟩

/-- one unary node -/
theorem un_node (c : Cfg) (f : SNum → Res SNum) (g : Ideal → Ideal) (hg : ∀ p, g (.signal p) = .signal p)
    (ma : Res SNum) (ia : Ideal)
    (ha : Agrees c.tag ma ia ∧ ∀ z, ma = .ok z → z.InRange)
    (hf : ∀ x, ma = .ok x → x.InRange → (∀ m, f x ≠ .ill m) →
      Agrees c.tag (f x) (g (.val x.exp x.value)) ∧ ∀ z, f x = .ok z → z.InRange)
    (hwf : ∀ m, (ma >>= f) ≠ .ill m) :
    Agrees c.tag (ma >>= f) (g ia) ∧ ∀ z, (ma >>= f) = .ok z → z.InRange := by
  by_cases hma : ∃ x, ma = .ok x
  · obtain ⟨x, rfl⟩ := hma
    rw [agrees_ok ha.1]
    exact hf x rfl (ha.2 x rfl) hwf
  · have hma' : ∀ x, ma ≠ .ok x := fun x h => hma ⟨x, h⟩
    obtain ⟨p, rfl⟩ := agrees_not_ok ha.1 hma'
    rw [bind_of_not_ok ma hma', hg]
    exact ⟨ha.1, fun z hz => absurd hz (hma' z)⟩

theorem neg_agrees (c : Cfg) (x : SNum) (hx : x.InRange) (hwf : ∀ m, Static.neg x ≠ .ill m) :
    Agrees c.tag (Static.neg x) (idealNeg (.val x.exp x.value)) ∧ ∀ z, Static.neg x = .ok z → z.InRange := by
  rcases neg_spec x hx with ⟨h, hr⟩ | ⟨m, h⟩
  · rw [h]; exact ⟨⟨rfl, rfl⟩, fun z hz => by cases hz; exact hr⟩
  · exact absurd h (hwf m)

/-! ### the shift nodes agree with the ideal evaluation -/

theorem shl_agrees (c : Cfg) (x : SNum) (k : Nat) (hx : x.InRange) (hwf : ∀ m, shiftRT c .shl x (k : Int) ≠ .ill m) :
    Agrees c.tag (shiftRT c .shl x (k : Int)) (idealShl c.tag x.digits k (.val x.exp x.value)) ∧
      ∀ z, shiftRT c .shl x (k : Int) = .ok z → z.InRange := by
  rcases shiftRT_shl_core c x k hx with h | ⟨m, h⟩
  · have hn : ∀ m, narrowDigits c x.digits (x.value * 2^k) ≠ .ill m := by
      intro m hm; rw [hm] at h; exact hwf m h
    rw [h]
    refine ⟨narrowDigits_agrees c x.digits x.exp _ hn, fun z hz => ?_⟩
    cases hv : narrowDigits c x.digits (x.value * 2^k) with
    | ok w =>
      rw [hv] at hz; simp only [Res.bind_ok] at hz; cases hz
      exact narrowDigits_inRange c x.digits _ w hv
    | _ => rw [hv] at hz; cases hz
  · exact absurd h (hwf m)

theorem shr_agrees (c : Cfg) (x : SNum) (k : Nat) (hx : x.InRange) (hwf : ∀ m, shiftRT c .shr x (k : Int) ≠ .ill m) :
    Agrees c.tag (shiftRT c .shr x (k : Int)) (idealShr k (.val x.exp x.value)) ∧
      ∀ z, shiftRT c .shr x (k : Int) = .ok z → z.InRange := by
  rcases shiftRT_shr_core c x k hx with h | ⟨m, h⟩
  · rw [h]; exact ⟨⟨rfl, rfl⟩, fun z hz => by cases hz; exact shr_inRange hx k⟩
  · exact absurd h (hwf m)

theorem shlN_agrees (c : Cfg) (x : SNum) (k : Int) (hx : x.InRange) :
    Agrees c.tag (shiftConstNum .shl x k) (idealMoveExp k (.val x.exp x.value)) ∧
      ∀ z, shiftConstNum .shl x k = .ok z → z.InRange :=
  ⟨⟨rfl, rfl⟩, fun z hz => by cases hz; exact hx⟩

theorem shlI_agrees (c : Cfg) (x : SNum) (k : Nat) (hx : x.InRange) (hwf : ∀ m, shiftConstInt c .shl x k ≠ .ill m) :
    Agrees c.tag (shiftConstInt c .shl x k) (idealShlWiden k (.val x.exp x.value)) ∧
      ∀ z, shiftConstInt c .shl x k = .ok z → z.InRange := by
  rcases shiftConstInt_shl_core c x k hx with h | ⟨m, h⟩
  · rw [h]; exact ⟨⟨rfl, rfl⟩, fun z hz => by cases hz; exact shl_bound (k := k) (fits_of_inRange hx)⟩
  · exact absurd h (hwf m)

theorem shrI_agrees (c : Cfg) (x : SNum) (k : Nat) (hx : x.InRange) (hk : k < x.digits) (hc : ¬ ShrBelowRange k x)
    (hwf : ∀ m, shiftConstInt c .shr x k ≠ .ill m) :
    Agrees c.tag (shiftConstInt c .shr x k) (idealShr k (.val x.exp x.value)) ∧
      ∀ z, shiftConstInt c .shr x k = .ok z → z.InRange := by
  rcases shiftConstInt_shr_core c x k hx hk with h | ⟨m, h⟩
  · rw [h]; exact ⟨⟨rfl, rfl⟩, fun z hz => by cases hz; exact shrConst_inRange hx hk hc⟩
  · exact absurd h (hwf m)

/-- **histories**: under the side conditions, the model's evaluation agrees with the ideal one, and
a returned value is in range of its digits -/
theorem eval_agrees (c : Cfg) (e : SExpr) (hs : SideOK c e) (hwf : ∀ m, evalModel c e ≠ .ill m) :
    Agrees c.tag (evalModel c e) (evalIdeal c e) ∧ ∀ z, evalModel c e = .ok z → z.InRange := by
  induction e with
  | lit x => exact ⟨⟨rfl, rfl⟩, fun z hz => by cases hz; exact hs⟩
  | add a b iha ihb =>
    have hwa : ∀ m, evalModel c a ≠ .ill m := by
      intro m hm; apply hwf m; simp only [evalModel, hm, bind_ill]
    exact bin_node c .add (.inl rfl) _ _ _ _ (iha hs.1 hwa) (ihb hs.2) (fun h => by cases h) hwf
  | sub a b iha ihb =>
    have hwa : ∀ m, evalModel c a ≠ .ill m := by
      intro m hm; apply hwf m; simp only [evalModel, hm, bind_ill]
    exact bin_node c .sub (.inr (.inl rfl)) _ _ _ _ (iha hs.1 hwa) (ihb hs.2) (fun h => by cases h) hwf
  | mul a b iha ihb =>
    have hwa : ∀ m, evalModel c a ≠ .ill m := by
      intro m hm; apply hwf m; simp only [evalModel, hm, bind_ill]
    exact bin_node c .mul (.inr (.inr (.inl rfl))) _ _ _ _ (iha hs.1 hwa) (ihb hs.2) (fun h => by cases h) hwf
  | div a b iha ihb =>
    have hwa : ∀ m, evalModel c a ≠ .ill m := by
      intro m hm; apply hwf m; simp only [evalModel, hm, bind_ill]
    exact bin_node c .div (.inr (.inr (.inr rfl))) _ _ _ _ (iha hs.1 hwa) (ihb hs.2.1) (fun _ => hs.2.2) hwf
  | neg a iha =>
    have hwa : ∀ m, evalModel c a ≠ .ill m := by
      intro m hm; apply hwf m; simp only [evalModel, hm, bind_ill]
    exact un_node c Static.neg idealNeg (fun _ => rfl) _ _ (iha hs hwa)
      (fun x _ hx hw => neg_agrees c x hx hw) hwf
  | cvt D E a iha =>
    have hwa : ∀ m, evalModel c a ≠ .ill m := by
      intro m hm; apply hwf m; simp only [evalModel, hm, bind_ill]
    refine un_node c (convert c D E) (idealCvt c D E) (fun _ => rfl) _ _ (iha hs.1 hwa)
      (fun x hxe hx hw => convert_agrees c D E x hx ?_ hw) hwf
    have h := hs.2
    rw [hxe] at h
    exact h
  | shl D k a iha =>
    have hwa : ∀ m, evalModel c a ≠ .ill m := by
      intro m hm; apply hwf m; simp only [evalModel, hm, bind_ill]
    refine un_node c (fun x => shiftRT c .shl x (k : Int)) (idealShl c.tag D k) (fun _ => rfl) _ _ (iha hs.1 hwa)
      (fun x hxe hx hw => ?_) hwf
    have h := hs.2
    rw [hxe] at h
    have hD : x.digits = D := h
    rw [← hD]
    exact shl_agrees c x k hx hw
  | shr k a iha =>
    have hwa : ∀ m, evalModel c a ≠ .ill m := by
      intro m hm; apply hwf m; simp only [evalModel, hm, bind_ill]
    exact un_node c (fun x => shiftRT c .shr x (k : Int)) (idealShr k) (fun _ => rfl) _ _ (iha hs hwa)
      (fun x _ hx hw => shr_agrees c x k hx hw) hwf
  | shlN k a iha =>
    have hwa : ∀ m, evalModel c a ≠ .ill m := by
      intro m hm; apply hwf m; simp only [evalModel, hm, bind_ill]
    exact un_node c (fun x => shiftConstNum .shl x k) (idealMoveExp k) (fun _ => rfl) _ _ (iha hs hwa)
      (fun x _ hx _ => shlN_agrees c x k hx) hwf
  | shlI k a iha =>
    have hwa : ∀ m, evalModel c a ≠ .ill m := by
      intro m hm; apply hwf m; simp only [evalModel, hm, bind_ill]
    exact un_node c (fun x => shiftConstInt c .shl x k) (idealShlWiden k) (fun _ => rfl) _ _ (iha hs hwa)
      (fun x _ hx hw => shlI_agrees c x k hx hw) hwf
  | shrI k a iha =>
    have hwa : ∀ m, evalModel c a ≠ .ill m := by
      intro m hm; apply hwf m; simp only [evalModel, hm, bind_ill]
    refine un_node c (fun x => shiftConstInt c .shr x k) (idealShr k) (fun _ => rfl) _ _ (iha hs.1 hwa)
      (fun x hxe hx hw => ?_) hwf
    have h := hs.2
    rw [hxe] at h
    exact shrI_agrees c x k hx h.1 h.2 hw

/-! ## comparison: the alignment exponent does not matter -/

theorem cmpExact_mul_pos (op : CmpOp) (a b p : Int) (hp : 0 < p) :
    cmpExact op (a * p) (b * p) = cmpExact op a b := by
  have lt_iff : ∀ u v : Int, u * p < v * p ↔ u < v := fun u v =>
    ⟨fun h => Int.lt_of_mul_lt_mul_right h (Int.le_of_lt hp), fun h => Int.mul_lt_mul_of_pos_right h hp⟩
  have le_iff : ∀ u v : Int, u * p ≤ v * p ↔ u ≤ v := fun u v =>
    ⟨fun h => Int.le_of_mul_le_mul_right h hp, fun h => Int.mul_le_mul_of_nonneg_right h (Int.le_of_lt hp)⟩
  have eq_iff : ∀ u v : Int, u * p = v * p ↔ u = v := fun u v =>
    ⟨fun h => Int.eq_of_mul_eq_mul_right (by omega) h, fun h => by rw [h]⟩
  cases op <;> simp only [cmpExact, GT.gt, GE.ge, ne_eq, lt_iff, le_iff, eq_iff]

/-- comparing at the smaller exponent is comparing at any common exponent: the order of `v · 2^e` -/
theorem cmp_common_exponent (op : CmpOp) (x y : SNum) (e0 : Int) (h1 : e0 ≤ x.exp) (h2 : e0 ≤ y.exp) :
    cmpExact op (alignL x.exp y.exp x.value) (alignR x.exp y.exp y.value)
      = cmpExact op (x.value * 2^(x.exp - e0).toNat) (y.value * 2^(y.exp - e0).toNat) := by
  have ex : (x.exp - e0).toNat = (x.exp - min x.exp y.exp).toNat + (min x.exp y.exp - e0).toNat := by omega
  have ey : (y.exp - e0).toNat = (y.exp - min x.exp y.exp).toNat + (min x.exp y.exp - e0).toNat := by omega
  rw [ex, ey, two_pow_add, two_pow_add, ← Int.mul_assoc, ← Int.mul_assoc,
    cmpExact_mul_pos op _ _ _ (two_pow_pos _)]
  rfl

end Cnl.Static
