import CnlProofs.Exp2Tab16b_0
import CnlProofs.Exp2Tab16b_1
import CnlProofs.Exp2Tab16b_2
import CnlProofs.Exp2Tab16b_3
/-!
# Kernel-checked table for `i16_m8`: all 65 536 inputs (four parts checked in parallel modules)
-/
open Cnl Cnl.Exp2 Cnl.Exp2Proofs
namespace Cnl.Exp2Tab16b

theorem table : ∀ rep, (Fmt.rep ⟨16, true, -8⟩).InRange rep → boundOK ⟨16, true, -8⟩ 2 rep = true := by
  intro rep h
  have hl : lowestF (Fmt.rep ⟨16, true, -8⟩) = (Fmt.rep ⟨16, true, -8⟩).lowest := lowestF_eq _
  have h1 : (Fmt.rep ⟨16, true, -8⟩).lowest ≤ rep := h.1
  have h2 : rep ≤ (Fmt.rep ⟨16, true, -8⟩).max := h.2
  have hlo : (Fmt.rep ⟨16, true, -8⟩).lowest = -32768 := by decide
  have hhi : (Fmt.rep ⟨16, true, -8⟩).max = 32767 := by decide
  rw [hlo] at h1 hl; rw [hhi] at h2
  by_cases c1 : rep < -32768 + 16384
  · exact sweep_spec part0 rep (by rw [hl]; omega) (by rw [hl]; omega)
  · by_cases c2 : rep < -32768 + 32768
    · exact sweep_spec part1 rep (by rw [hl]; omega) (by rw [hl]; omega)
    · by_cases c3 : rep < -32768 + 49152
      · exact sweep_spec part2 rep (by rw [hl]; omega) (by rw [hl]; omega)
      · exact sweep_spec part3 rep (by rw [hl]; omega) (by rw [hl]; omega)

end Cnl.Exp2Tab16b
