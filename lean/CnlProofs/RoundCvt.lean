import CnlProofs.CIntLemmas
import CnlProofs.Rounding
import CnlProofs.Scaled
import CnlModel.RoundCvt
import CnlSpec.RoundCvt
/-!
# Lemmas for C09: narrowing conversions under a rounding tag

* `Cnl.Spec`: the shift-and-bias formulas of the code are the roundings of `CnlSpec.RoundCvt`;
* `Cnl.RoundCvtP`: step-by-step evaluation of `RoundCvt.scaledToScaled`.

Lean core only.
-/
set_option linter.unusedVariables false
set_option linter.unusedSimpArgs false

namespace Cnl.Spec

theorem two_pow_pred {k : Nat} (hk : 0 < k) : (2:Int)^k = 2 * 2^(k-1) := by
  obtain ⟨j, rfl⟩ : ∃ j, k = j + 1 := ⟨k - 1, by omega⟩
  simp only [Nat.add_sub_cancel]
  exact two_pow_succ j

/-- `(v + 2^(k-1)) >> k = ⌊v/2^k + 1/2⌋` -/
theorem shift_bias_eq (v : Int) {k : Nat} (hk : 0 < k) :
    (v + 2^(k-1)) / 2^k = roundShift .nearestUp v k := by
  unfold roundShift
  simp only
  rw [two_pow_succ k]
  have hp := two_pow_pos k
  have e : 2 * v + 2^k = 2 * (v + 2^(k-1)) := by rw [two_pow_pred hk]; omega
  rw [e, Int.mul_ediv_mul_of_pos _ _ (by decide : (0:Int) < 2)]

/-- floor and truncation agree on non-negative values -/
theorem tdiv_eq_ediv_of_nonneg {a b : Int} (ha : 0 ≤ a) : a.tdiv b = a / b := by
  exact Int.tdiv_eq_ediv_of_nonneg ha

/-- `trunc((v ± 2^(k-1)) / 2^k)` (sign of the bias = sign of `v`) is nearest, ties away from zero -/
theorem trunc_bias_eq (v : Int) {k : Nat} (hk : 0 < k) :
    (if 0 ≤ v then v + 2^(k-1) else v - 2^(k-1)).tdiv (2^k) = roundShift .nearestAway v k := by
  unfold roundShift
  simp only
  rw [two_pow_succ k]
  have hp := two_pow_pos (k-1)
  have e2 := two_pow_pred hk
  by_cases h : 0 ≤ v
  · simp only [h, ite_true]
    have hn : ((v.natAbs : Nat) : Int) = v := by omega
    have e : 2 * (v.natAbs : Int) + 2^k = 2 * (v + 2^(k-1)) := by rw [hn, e2]; omega
    rw [e, Int.mul_ediv_mul_of_pos _ _ (by decide : (0:Int) < 2), Int.tdiv_eq_ediv_of_nonneg (by omega)]
    unfold sgn
    by_cases h0 : v = 0
    · subst h0
      simp only [Int.zero_add, Int.lt_irrefl, ite_false, ite_true, Int.zero_mul]
      rw [e2]
      exact Int.ediv_eq_zero_of_lt (by omega) (by omega)
    · have : ¬ v < 0 := by omega
      simp only [this, h0, ite_false, Int.one_mul]
  · simp only [h, ite_false]
    have hn : ((v.natAbs : Nat) : Int) = -v := by omega
    have e : 2 * (v.natAbs : Int) + 2^k = 2 * (-v + 2^(k-1)) := by rw [hn, e2]; omega
    rw [e, Int.mul_ediv_mul_of_pos _ _ (by decide : (0:Int) < 2)]
    have : v < 0 := by omega
    unfold sgn
    simp only [this, ite_true]
    have e3 : v - 2^(k-1) = -(-v + 2^(k-1)) := by omega
    rw [e3, Int.neg_tdiv, Int.tdiv_eq_ediv_of_nonneg (by omega)]
    omega

/-- the integer formulas are the rounded quotients of `CnlSpec.Rounding` with divisor `2^k` -/
theorem roundShift_eq_roundDiv (m : RoundMode) (v : Int) (k : Nat) :
    roundShift m v k = roundDiv m v (2^k) := by
  have hp := two_pow_pos k
  have hs : sgn ((2:Int)^k) = 1 := by
    unfold sgn
    have h1 : ¬ (2:Int)^k < 0 := by omega
    have h2 : ¬ (2:Int)^k = 0 := by omega
    simp only [h1, h2, ite_false]
  have hn : (((2:Int)^k).natAbs : Int) = 2^k := by omega
  cases m with
  | truncate => rfl
  | floor =>
    show v / 2^k = v.fdiv (2^k)
    rw [Int.fdiv_eq_ediv_of_nonneg _ (Int.le_of_lt hp)]
  | nearestUp =>
    show (2 * v + 2^k) / 2^(k+1) = (2 * v * sgn (2^k) + ((2:Int)^k).natAbs) / (2 * (((2:Int)^k).natAbs : Int))
    rw [hs, hn, two_pow_succ, Int.mul_one]
  | nearestAway =>
    show sgn v * ((2 * (v.natAbs : Int) + 2^k) / 2^(k+1))
      = sgn v * sgn (2^k) * ((2 * (v.natAbs : Int) + ((2:Int)^k).natAbs) / (2 * (((2:Int)^k).natAbs : Int)))
    rw [hs, hn, two_pow_succ, Int.mul_one]

/-- `roundShift` satisfies the division-free characterisation of the rounding mode -/
theorem roundShift_isRounded (m : RoundMode) (v : Int) (k : Nat) :
    IsRoundedShift m v k (roundShift m v k) := by
  unfold IsRoundedShift
  rw [roundShift_eq_roundDiv]
  have hp := two_pow_pos k
  exact roundDiv_isRounded m v (2^k) (by omega)

end Cnl.Spec

namespace Cnl.RoundCvtP
open Cnl Cnl.Spec Cnl.Rounding Cnl.ScaledP Cnl.RoundCvt

/-! ## pieces of `scaledToScaled` -/

theorem two_pow_inRange {T : IntTy} {k : Nat} (h : k < T.digits) : T.InRange (2^k) := by
  have hz := zero_le_max T
  have hp := two_pow_pos k
  refine ⟨by omega, ?_⟩
  rw [IntTy.max_eq]
  exact two_pow_lt_iff.2 h

theorem powerValueInt_two (S : IntTy) {k : Nat} (hk : 0 < k) (h : k < (promote S).digits) :
    powerValueInt S k 2 = .ok (promote S, 2^k) := by
  have hk0 : k ≠ 0 := by omega
  simp only [powerValueInt, hk0, ite_false, ite_true, h]

/-- `static_cast<input>(from_rep<result>(1))`: the destination unit `2^k` expressed in the source
type — reduced modulo `2^bits` of the source representation -/
theorem unit_eval (S D : IntTy) (eS eD : Int) (h : eS < eD) (hk : (eD - eS).toNat < (promote D).digits) :
    Scaled.convert intOps 2 ⟨(.int D, 1), eD⟩ (.int S) eS
      = .ok ⟨(.int S, S.wrap (2^(eD - eS).toNat)), eS⟩ := by
  have hne : eD ≠ eS := by omega
  have hge : eD - eS ≥ 0 := by omega
  have hk0 : 0 < (eD - eS).toNat := by omega
  have hb := promote_bits_pos D
  have h32 := promote_bits_ge32 D
  have hr := two_pow_inRange hk
  have h1 : (promote D).InRange 1 := by
    have := lo_hi (promote D) h32
    constructor <;> omega
  simp only [Scaled.convert, hne, ite_false, intOps, liftTV, scaleInt, hge, ite_true,
    powerValueInt_two D hk0 hk, Res.bind_ok, cBin, usualArith_self_promote,
    IntTy.wrap_id hb h1, IntTy.wrap_id hb hr, Int.one_mul, arith_ok hb hr, Res.map, convert]
  rfl

theorem promote_two_inRange (S : IntTy) : (promote S).InRange 2 := by
  have := lo_hi (promote S) (promote_bits_ge32 S)
  constructor <;> omega

theorem digits_lt_promote {S : IntTy} (hS : 1 ≤ S.bits) {k : Nat} (h : k < S.digits) : k < (promote S).digits :=
  Nat.lt_of_lt_of_le h (promote_digits_le hS)

theorem two_pow_tdiv_two {k : Nat} (hk : 0 < k) : ((2:Int)^k).tdiv 2 = 2^(k-1) := by
  rw [two_pow_pred hk, Int.mul_tdiv_cancel_left _ (by decide)]

/-- `half() = static_cast<input>(from_rep<result>(1)) / 2` when the unit fits the source type -/
theorem half_eval (S : IntTy) (hS : 1 ≤ S.bits) {k : Nat} (hk : 0 < k) (hkS : k < S.digits) :
    intOps.bin .div (.int S, S.wrap (2^k)) (.int i32, 2) = .ok (.int (promote S), 2^(k-1)) := by
  have hb := promote_bits_pos S
  rw [IntTy.wrap_id hS (two_pow_inRange hkS)]
  have hr := two_pow_inRange (digits_lt_promote hS hkS)
  have hr' : (promote S).InRange (2^(k-1)) := two_pow_inRange (by have := digits_lt_promote hS hkS; omega)
  have := ev_div (usualArith_i32 S) hb hr (promote_two_inRange S) (by decide) (by omega)
    (by rw [two_pow_tdiv_two hk]; exact hr')
  rw [this, two_pow_tdiv_two hk]

/-- `from + half()` in the promoted source type, when the sum is representable there -/
theorem bias_add_eval (S : IntTy) (hS : 1 ≤ S.bits) {v h : Int} (hv : S.InRange v)
    (hh : (promote S).InRange h) (hsum : (promote S).InRange (v + h)) :
    intOps.bin .add (.int S, v) (.int (promote S), h) = .ok (.int (promote S), v + h) := by
  have hb := promote_bits_pos S
  have hv' := promote_inRange hS hv
  exact ev_add (usualArith_self_promote S) hb hv'.1 hv'.2 hh.1 hh.2 hsum.1 hsum.2

theorem digits_le_bits (T : IntTy) : T.digits ≤ T.bits := by
  unfold IntTy.digits; split <;> omega

/-- tie_to_pos_inf, scaled → coarser scaled -/
theorem tpi_eval (S D : IntTy) (eS eD : Int) (v : Int) (hS : 1 ≤ S.bits) (h : eS < eD)
    (hkD : (eD - eS).toNat < (promote D).digits) (hkS : (eD - eS).toNat < S.digits)
    (hv : S.InRange v) (hsum : (promote S).InRange (v + 2^((eD - eS).toNat - 1))) :
    scaledToScaled .tpi S eS D eD v
      = .ok (D, D.wrap ((v + 2^((eD - eS).toNat - 1)) / 2^(eD - eS).toNat)) := by
  have hk0 : 0 < (eD - eS).toNat := by omega
  have hle : ¬ eD ≤ eS := by omega
  have hkP := digits_lt_promote hS hkS
  have hr' : (promote S).InRange (2^((eD - eS).toNat - 1)) := two_pow_inRange (by omega)
  have hsh : ¬ (((eD - eS).toNat : Int) < 0 ∨ ((eD - eS).toNat : Int) ≥ (promote (promote S)).bits) := by
    rw [promote_promote]
    have := digits_le_bits (promote S)
    omega
  simp only [scaledToScaled, hle, ite_false, unit_eval S D eS eD h hkD, Res.bind_ok,
    half_eval S hS hk0 hkS, bias_add_eval S hS hv hr' hsum, cBin, hsh, Int.toNat_natCast, Res.pure_eq]

/-- neg_inf, scaled → coarser scaled: one arithmetic right shift of the representation -/
theorem ninf_eval (S D : IntTy) (eS eD : Int) (v : Int) (h : eS < eD)
    (hk : (eD - eS).toNat < (promote S).bits) :
    scaledToScaled .ninf S eS D eD v = .ok (promote S, v / 2^(eD - eS).toNat) := by
  have hle : ¬ eD ≤ eS := by omega
  have hsh : ¬ (((eD - eS).toNat : Int) < 0 ∨ ((eD - eS).toNat : Int) ≥ (promote S).bits) := by omega
  simp only [scaledToScaled, hle, ite_false, cBin, hsh, Int.toNat_natCast, Res.bind_ok, Res.pure_eq]

/-! ## the comparison `from >= 0` of the nearest conversion -/

/-- the instantiation of `from >= 0` (a scaled integer against the `int` zero, exponent 0) is
well-formed and free of overflow: the operand with the larger exponent is shifted to the smaller -/
def CmpZeroOk (S : IntTy) (eS : Int) (v : Int) : Prop :=
  if eS = 0 then True
  else if eS < 0 then (-eS).toNat < 31
  else eS.toNat < (promote S).digits ∧ ((promote S).signed = true → (promote S).InRange (v * 2^eS.toNat))

instance (S : IntTy) (eS : Int) (v : Int) : Decidable (CmpZeroOk S eS v) := by
  unfold CmpZeroOk; exact inferInstance

theorem zero_inRange (T : IntTy) : T.InRange 0 := zero_le_max T

theorem cmp_zero_same (S : IntTy) (hS : 1 ≤ S.bits) {v : Int} (hv : S.InRange v) :
    intOps.cmp .ge (.int S, v) (.int i32, 0) = .ok (decide (v ≥ 0)) := by
  have hv' := promote_inRange hS hv
  have hz := zero_inRange (promote S)
  exact ev_cmp (usualArith_i32 S) (promote_bits_pos S) .ge hv'.1 hv'.2 hz.1 hz.2

/-- scaling the constant zero is well-formed for shifts below the digits of the type -/
theorem scale_zero (T : IntTy) (hp : promote T = T) (hb : 1 ≤ T.bits) {j : Int} (hj : 0 < j)
    (hk : j.toNat < T.digits) : scaleInt j 2 (T, 0) = .ok (T, 0) := by
  have hge : j ≥ 0 := by omega
  have hk0 : 0 < j.toNat := by omega
  have hk' : j.toNat < (promote T).digits := by rw [hp]; exact hk
  have h := powerValueInt_two T hk0 hk'
  rw [hp] at h
  have hu : usualArith T T = T := by rw [usualArith_self, hp]
  simp only [scaleInt, hge, ite_true, h, Res.bind_ok, cBin, hu, IntTy.wrap_id hb (zero_inRange T),
    Int.zero_mul, arith_ok hb (zero_inRange T)]

theorem cmp_zero_neg (S : IntTy) (hS : 1 ≤ S.bits) {eS v : Int} (hv : S.InRange v) (he : eS < 0)
    (hok : (-eS).toNat < 31) :
    Scaled.cmp intOps .ge 2 ⟨(.int S, v), eS⟩ ⟨(.int i32, 0), 0⟩ = .ok (decide (v ≥ 0)) := by
  have hne : ¬ eS = 0 := by omega
  have hne' : ¬ (0:Int) = eS := by omega
  have hpi : promote i32 = i32 := by decide
  have hb : 1 ≤ i32.bits := by decide
  have hd : i32.digits = 31 := by decide
  have hsc := scale_zero i32 hpi hb (j := 0 - eS) (by omega) (by rw [hd]; omega)
  have hw : i32.wrap 0 = 0 := IntTy.wrap_id hb (zero_inRange i32)
  simp only [Scaled.cmp, hne, he, ite_false, ite_true, Scaled.convert, hne', intOps, liftTV, hsc,
    Res.bind_ok, Res.pure_eq, hpi, Res.map, convert, hw]
  exact cmp_zero_same S hS hv

theorem cmp_zero_pos (S : IntTy) (hS : 1 ≤ S.bits) {eS v : Int} (hv : S.InRange v) (he : 0 < eS)
    (hk : eS.toNat < (promote S).digits)
    (hfit : (promote S).signed = true → (promote S).InRange (v * 2^eS.toNat)) :
    Scaled.cmp intOps .ge 2 ⟨(.int S, v), eS⟩ ⟨(.int i32, 0), 0⟩ = .ok (decide (v ≥ 0)) := by
  have hne : ¬ eS = 0 := by omega
  have hlt : ¬ eS < 0 := by omega
  have hb := promote_bits_pos S
  have hw : PowOk S (eS - 0).toNat 2 := by right; simpa using hk
  have e0 : (eS - 0).toNat = eS.toNat := by simp
  have hsc := scaleInt_up_eq S hS (eS - 0) (by omega) 2 (by decide) hw v hv
  rw [e0, pw_two, IntTy.wrap_id hb (two_pow_inRange hk)] at hsc
  have hpp := two_pow_pos eS.toNat
  by_cases hs : (promote S).signed = true
  · rw [arith_ok hb (hfit hs)] at hsc
    have hr := hfit hs
    have hz := zero_inRange (promote S)
    have hc := ev_cmp (A := promote S) (B := i32) (usualArith_i32 (promote S)) (by rw [promote_promote]; exact hb) .ge
      (by rw [promote_promote]; exact hr.1) (by rw [promote_promote]; exact hr.2)
      (by rw [promote_promote]; exact hz.1) (by rw [promote_promote]; exact hz.2)
    have hd : decide (v * 2^eS.toNat ≥ 0) = decide (v ≥ 0) := by
      apply decide_eq_decide.2
      constructor
      · intro h1
        apply Decidable.byContradiction; intro h2
        have := Int.mul_lt_mul_of_pos_right (show v < 0 by omega) hpp
        omega
      · intro h1; exact Int.mul_nonneg h1 (Int.le_of_lt hpp)
    simp only [Scaled.cmp, hne, hlt, ite_false, Scaled.convert, intOps, liftTV, hsc, Res.bind_ok, Res.pure_eq, Res.map,
      convert, IntTy.wrap_id hb hr] at hc ⊢
    rw [hc]; simp only [cmpInt, hd]
  · have hs' : (promote S).signed = false := by simpa using hs
    rw [arith_unsigned hs'] at hsc
    have ⟨hSu, hPS⟩ := promote_unsigned hs'
    have hv0 : 0 ≤ v := by
      have := hv.1; rw [IntTy.lowest_eq] at this; simpa [hSu] using this
    have hr := wrap_inRange (promote S) hb (v * 2^eS.toNat)
    have hr0 : 0 ≤ (promote S).wrap (v * 2^eS.toNat) := by
      have := hr.1; rw [IntTy.lowest_eq] at this; simpa [hs'] using this
    have hz := zero_inRange (promote S)
    have hc := ev_cmp (A := promote S) (B := i32) (usualArith_i32 (promote S)) (by rw [promote_promote]; exact hb) .ge
      (by rw [promote_promote]; exact hr.1) (by rw [promote_promote]; exact hr.2)
      (by rw [promote_promote]; exact hz.1) (by rw [promote_promote]; exact hz.2)
    simp only [Scaled.cmp, hne, hlt, ite_false, Scaled.convert, intOps, liftTV, hsc, Res.bind_ok, Res.pure_eq, Res.map,
      convert, wrap_wrap] at hc ⊢
    rw [hc]; simp only [cmpInt, ge_iff_le, hr0, hv0]

/-- `from >= 0` evaluates to the sign test of the representation -/
theorem cmp_zero_eval (S : IntTy) (hS : 1 ≤ S.bits) {eS v : Int} (hv : S.InRange v) (hok : CmpZeroOk S eS v) :
    Scaled.cmp intOps .ge 2 ⟨(.int S, v), eS⟩ ⟨(.int i32, 0), 0⟩ = .ok (decide (v ≥ 0)) := by
  unfold CmpZeroOk at hok
  by_cases h0 : eS = 0
  · subst h0
    simp only [Scaled.cmp, ite_true]
    exact cmp_zero_same S hS hv
  · simp only [h0, ite_false] at hok
    by_cases hn : eS < 0
    · simp only [hn, ite_true] at hok
      exact cmp_zero_neg S hS hv hn hok
    · simp only [hn, ite_false] at hok
      exact cmp_zero_pos S hS hv (by omega) hok.1 hok.2

/-! ## nearest, scaled → coarser scaled -/

/-- the truncating `static_cast<result>(from ± half)`: `scale<-k>` divides by `2^k` toward zero -/
theorem down_eval (P D : IntTy) (hp : promote P = P) (hb : 1 ≤ P.bits) (eS eD : Int) (h : eS < eD)
    (hk : (eD - eS).toNat < P.digits) {s : Int} (hs : P.InRange s) :
    Scaled.convert intOps 2 ⟨(.int P, s), eS⟩ (.int D) eD
      = .ok ⟨(.int D, D.wrap (s.tdiv (2^(eD - eS).toNat))), eD⟩ := by
  have hne : ¬ eS = eD := by omega
  have hw : PowFits P (-(eS - eD)).toNat 2 := by
    unfold PowFits; rw [hp, pw_two]
    have : (-(eS - eD)).toNat = (eD - eS).toNat := by congr 1; omega
    rw [this]; exact two_pow_inRange hk
  have hsc := scaleInt_down P hb (eS - eD) (by omega) 2 (by decide) hw s hs
  have e : (-(eS - eD)).toNat = (eD - eS).toNat := by congr 1; omega
  rw [hp, pw_two, e] at hsc
  simp only [Scaled.convert, hne, ite_false, intOps, liftTV, hsc, Res.bind_ok, Res.pure_eq, Res.map, convert]

/-- nearest, scaled → coarser scaled -/
theorem nrst_eval (S D : IntTy) (eS eD : Int) (v : Int) (hS : 1 ≤ S.bits) (h : eS < eD)
    (hkD : (eD - eS).toNat < (promote D).digits) (hkS : (eD - eS).toNat < S.digits)
    (hv : S.InRange v) (hcmp : CmpZeroOk S eS v)
    (hsum : (promote S).InRange (if 0 ≤ v then v + 2^((eD - eS).toNat - 1) else v - 2^((eD - eS).toNat - 1))) :
    scaledToScaled .nrst S eS D eD v
      = .ok (D, D.wrap ((if 0 ≤ v then v + 2^((eD - eS).toNat - 1) else v - 2^((eD - eS).toNat - 1)).tdiv
                  (2^(eD - eS).toNat))) := by
  have hk0 : 0 < (eD - eS).toNat := by omega
  have hle : ¬ eD ≤ eS := by omega
  have hkP := digits_lt_promote hS hkS
  have hb := promote_bits_pos S
  have hpp := promote_promote S
  have hr' : (promote S).InRange (2^((eD - eS).toNat - 1)) := two_pow_inRange (by omega)
  have hp := two_pow_pos ((eD - eS).toNat - 1)
  by_cases h0 : 0 ≤ v
  · have hd : decide (v ≥ 0) = true := by simpa using h0
    simp only [h0, ite_true] at hsum ⊢
    simp only [scaledToScaled, hle, ite_false, unit_eval S D eS eD h hkD, Res.bind_ok,
      half_eval S hS hk0 hkS, cmp_zero_eval S hS hv hcmp, hd, ite_true, Res.pure_eq,
      bias_add_eval S hS hv hr' hsum, down_eval (promote S) D hpp hb eS eD h hkP hsum]
  · have hd : decide (v ≥ 0) = false := by simpa using h0
    simp only [h0, ite_false] at hsum ⊢
    -- only a signed source can be negative
    have hsg : (promote S).signed = true := by
      apply Decidable.byContradiction; intro hn
      have hn' : (promote S).signed = false := by simpa using hn
      have ⟨hSu, _⟩ := promote_unsigned hn'
      have := hv.1; rw [IntTy.lowest_eq] at this; simp [hSu] at this; omega
    have hlo : (promote S).lowest ≤ -(2:Int)^((eD - eS).toNat - 1) := by
      have := (lo_hi (promote S) (promote_bits_ge32 S)).1
      have hl : (promote S).lowest < 0 := by rw [IntTy.lowest_eq]; simp [hsg]; exact two_pow_pos _
      have := hr'.2
      omega
    have hmax : -(2:Int)^((eD - eS).toNat - 1) ≤ (promote S).max := by have := hr'.2; omega
    have hneg := ev_neg hpp hb hr'.1 hr'.2 hlo hmax
    have hsum' : (promote S).InRange (v + -(2:Int)^((eD - eS).toNat - 1)) := by
      rw [← Int.sub_eq_add_neg]; exact hsum
    have hadd := bias_add_eval S hS hv ⟨hlo, hmax⟩ hsum'
    rw [← Int.sub_eq_add_neg] at hadd
    simp only [scaledToScaled, hle, ite_false, unit_eval S D eS eD h hkD, Res.bind_ok,
      half_eval S hS hk0 hkS, cmp_zero_eval S hS hv hcmp, hd, Bool.false_eq_true, Res.pure_eq,
      hneg, hadd, down_eval (promote S) D hpp hb eS eD h hkP hsum]

/-! ## conversions that lose no digits -/

/-- the native conversion, as `scaledToScaled` returns it -/
def plain (S : IntTy) (eS : Int) (D : IntTy) (eD : Int) (v : Int) : Res TV :=
  (Scaled.convert intOps 2 ⟨(.int S, v), eS⟩ (.int D) eD).map (fun r => (D, r.rep.2))

theorem nat_eq_plain (S D : IntTy) (eS eD : Int) (v : Int) :
    scaledToScaled .nat S eS D eD v = plain S eS D eD v := by
  simp only [scaledToScaled, plain]; split <;> rfl

/-- when `eD ≤ eS` every rounding mode is the native conversion -/
theorem noloss_eq_plain (mode : RdMode) (S D : IntTy) (eS eD : Int) (v : Int) (h : eD ≤ eS) :
    scaledToScaled mode S eS D eD v = plain S eS D eD v := by
  simp only [scaledToScaled, plain, h, ite_true]

/-- the native widening conversion multiplies by `2^(eS - eD)` in the promoted source type -/
theorem plain_up_eval (S D : IntTy) (eS eD : Int) (v : Int) (hS : 1 ≤ S.bits) (h : eD ≤ eS)
    (hw : eS = eD ∨ (eS - eD).toNat < (promote S).digits) (hv : S.InRange v)
    (hfit : (promote S).InRange (v * 2^(eS - eD).toNat)) :
    plain S eS D eD v = .ok (D, D.wrap (v * 2^(eS - eD).toNat)) := by
  by_cases he : eS = eD
  · subst he
    simp only [plain, Scaled.convert, ite_true, intOps, Res.bind_ok, Res.pure_eq, Res.map, convert,
      Int.sub_self, Int.toNat_zero, Int.pow_zero, Int.mul_one]
  · have hk : (eS - eD).toNat < (promote S).digits := by rcases hw with hw | hw; exact absurd hw he; exact hw
    have hpw : PowOk S (eS - eD).toNat 2 := by right; simpa using hk
    have hsc := scaleInt_up S hS (eS - eD) (by omega) 2 (by decide) hpw v hv (by rw [pw_two]; exact hfit)
    rw [pw_two] at hsc
    simp only [plain, Scaled.convert, he, ite_false, intOps, liftTV, hsc, Res.bind_ok, Res.pure_eq, Res.map, convert]

/-- the native narrowing conversion divides by `2^k` toward zero -/
theorem nat_down_eval (S D : IntTy) (eS eD : Int) (v : Int) (hS : 1 ≤ S.bits) (h : eS < eD)
    (hk : (eD - eS).toNat < (promote S).digits) (hv : S.InRange v) :
    scaledToScaled .nat S eS D eD v = .ok (D, D.wrap (v.tdiv (2^(eD - eS).toNat))) := by
  have hne : ¬ eS = eD := by omega
  have e : (-(eS - eD)).toNat = (eD - eS).toNat := by congr 1; omega
  have hw : PowFits S (-(eS - eD)).toNat 2 := by
    unfold PowFits; rw [pw_two, e]; exact two_pow_inRange hk
  have hsc := scaleInt_down S hS (eS - eD) (by omega) 2 (by decide) hw v hv
  rw [pw_two, e] at hsc
  rw [nat_eq_plain]
  simp only [plain, Scaled.convert, hne, ite_false, intOps, liftTV, hsc, Res.bind_ok, Res.pure_eq, Res.map, convert]

end Cnl.RoundCvtP

/-!
# Floating-point sources

Facts about `CnlModel.CFloat` used by C09: values whose significand fits the precision round to
themselves (`roundND_exact`, `ofDyadic_exact`), integer-valued numbers (`IntRep`) add exactly, and
the home-made `floor` of the rounding conversions (`floorEmul`) is the floor whenever `|⌊x⌋| < 2^prec`.
-/
namespace Cnl.FloatP
open Cnl Cnl.Spec

/-- signed significand -/
def sval (s : Bool) (m : Nat) : Int := if s then -(m : Int) else m

theorem roundHalfEven_exact (q d : Nat) (hd : 0 < d) : roundHalfEven (q * d) d = q := by
  have h1 : q * d / d = q := Nat.mul_div_cancel q hd
  have h2 : q * d % d = 0 := Nat.mul_mod_left ..
  simp only [roundHalfEven, h1, h2, Nat.mul_zero, hd, ite_true]

theorem log2_mul_two_pow {N : Nat} (hN : N ≠ 0) (t : Nat) : (N * 2^t).log2 = N.log2 + t := by
  have hp : 0 < 2^t := Nat.two_pow_pos t
  have hne : N * 2^t ≠ 0 := by
    intro h; rcases Nat.mul_eq_zero.1 h with h | h <;> omega
  rw [Nat.log2_eq_iff hne]
  have h1 := Nat.log2_self_le hN
  have h2 := Nat.lt_log2_self (n := N)
  constructor
  · rw [Nat.pow_add]; exact Nat.mul_le_mul_right _ h1
  · rw [show N.log2 + t + 1 = (N.log2 + 1) + t by omega, Nat.pow_add]
    exact Nat.mul_lt_mul_of_pos_right h2 hp

theorem ilog2Q_pow2 {n : Nat} (hn : n ≠ 0) (b : Nat) : ilog2Q n (2^b) = (n.log2 : Int) - b := by
  have h1 := Nat.log2_self_le hn
  unfold ilog2Q
  simp only [Nat.log2_two_pow]
  have hok : (if 0 ≤ (n.log2 : Int) - b then decide (2^b * 2^((n.log2 : Int) - b).toNat ≤ n)
      else decide (2^b ≤ n * 2^(-((n.log2 : Int) - b)).toNat)) = true := by
    split
    · rename_i h
      have e : ((n.log2 : Int) - b).toNat = n.log2 - b := by omega
      rw [e, ← Nat.pow_add, show b + (n.log2 - b) = n.log2 by omega]
      simpa using h1
    · rename_i h
      have e : (-((n.log2 : Int) - b)).toNat = b - n.log2 := by omega
      rw [e]
      have : 2^b = 2^n.log2 * 2^(b - n.log2) := by rw [← Nat.pow_add]; congr 1; omega
      rw [this]
      simpa using Nat.mul_le_mul_right _ h1
  simp only [hok, ite_true]


theorem log2_lt_prec {N p : Nat} (hN : N ≠ 0) (hlt : N < 2^p) : N.log2 < p := (Nat.log2_lt hN).2 hlt

/-- a value `N · 2^(t-b)` whose significand `N` fits the precision and whose binade is in the normal
range rounds to itself (in canonical form) -/
theorem roundND_exact (f : Fmt) (neg : Bool) {N : Nat} (hN : N ≠ 0) (hlt : N < 2^f.prec) (t b : Nat)
    (hmin : f.emin ≤ (N.log2 : Int) + t - b) (hmax : (N.log2 : Int) + t - b ≤ f.emax) :
    f.roundND neg (N * 2^t) (2^b)
      = .fin neg (N * 2^(f.prec - 1 - N.log2)) ((N.log2 : Int) + t - b - ((f.prec : Int) - 1)) := by
  have hL := log2_lt_prec hN hlt
  have hne : N * 2^t ≠ 0 := by
    have := Nat.two_pow_pos t
    intro h; rcases Nat.mul_eq_zero.1 h with h | h <;> omega
  have hlog : ilog2Q (N * 2^t) (2^b) = (N.log2 : Int) + t - b := by
    rw [ilog2Q_pow2 hne, log2_mul_two_pow hN]; omega
  have hnotlt : ¬ ((N.log2 : Int) + t - b < f.emin) := by omega
  -- the rounded significand
  have hm : (if 0 ≤ (N.log2 : Int) + t - b - ((f.prec : Int) - 1)
        then roundHalfEven (N * 2^t) (2^b * 2^((N.log2 : Int) + t - b - ((f.prec : Int) - 1)).toNat)
        else roundHalfEven (N * 2^t * 2^(-((N.log2 : Int) + t - b - ((f.prec : Int) - 1))).toNat) (2^b))
      = N * 2^(f.prec - 1 - N.log2) := by
    split
    · rename_i h
      have e : N * 2^t = (N * 2^(f.prec - 1 - N.log2)) * (2^b * 2^((N.log2 : Int) + t - b - ((f.prec : Int) - 1)).toNat) := by
        rw [Nat.mul_assoc, ← Nat.pow_add, ← Nat.pow_add]; congr 2; omega
      rw [e]
      exact roundHalfEven_exact _ _ (Nat.mul_pos (Nat.two_pow_pos _) (Nat.two_pow_pos _))
    · rename_i h
      have e : N * 2^t * 2^(-((N.log2 : Int) + t - b - ((f.prec : Int) - 1))).toNat = (N * 2^(f.prec - 1 - N.log2)) * 2^b := by
        rw [Nat.mul_assoc, Nat.mul_assoc, ← Nat.pow_add, ← Nat.pow_add]; congr 2; omega
      rw [e]
      exact roundHalfEven_exact _ _ (Nat.two_pow_pos _)
  have hmlt : N * 2^(f.prec - 1 - N.log2) ≠ 2^f.prec := by
    have h2 := Nat.lt_log2_self (n := N)
    have : N * 2^(f.prec - 1 - N.log2) < 2^(N.log2 + 1) * 2^(f.prec - 1 - N.log2) :=
      Nat.mul_lt_mul_of_pos_right h2 (Nat.two_pow_pos _)
    rw [← Nat.pow_add, show N.log2 + 1 + (f.prec - 1 - N.log2) = f.prec by omega] at this
    omega
  have hnotmax : ¬ (f.emax < (N.log2 : Int) + t - b - ((f.prec : Int) - 1) + ((f.prec : Int) - 1)) := by omega
  simp only [Fmt.roundND, hne, ite_false, hlog, hnotlt, hm, hmlt, hnotmax]


/-- the format has at least two significand bits and holds the integers below `2^prec` as normal numbers -/
def FmtOk (f : Fmt) : Prop := 2 ≤ f.prec ∧ f.emin ≤ 0 ∧ (f.prec : Int) - 1 ≤ f.emax

instance (f : Fmt) : Decidable (FmtOk f) := by unfold FmtOk; exact inferInstance

theorem fmtOk_binary32 : FmtOk binary32 := by decide
theorem fmtOk_binary64 : FmtOk binary64 := by decide
theorem fmtOk_x87ext : FmtOk x87ext := by decide

theorem ofDyadic_exact (f : Fmt) (neg : Bool) {N : Nat} (hN : N ≠ 0) (hlt : N < 2^f.prec) (e : Int)
    (hmin : f.emin ≤ (N.log2 : Int) + e) (hmax : (N.log2 : Int) + e ≤ f.emax) :
    f.ofDyadic neg N e = .fin neg (N * 2^(f.prec - 1 - N.log2)) ((N.log2 : Int) + e - ((f.prec : Int) - 1)) := by
  unfold Fmt.ofDyadic
  split
  · rename_i h
    have := roundND_exact f neg hN hlt e.toNat 0 (by omega) (by omega)
    rw [Nat.pow_zero] at this
    rw [this]; congr 1; omega
  · rename_i h
    have := roundND_exact f neg hN hlt 0 (-e).toNat (by omega) (by omega)
    rw [Nat.pow_zero, Nat.mul_one] at this
    rw [this]; congr 1; omega

/-- `x` is a finite value equal to the integer `a`, with a non-positive quantum exponent -/
def IntRep (x : FVal) (a : Int) : Prop :=
  ∃ s M E, x = .fin s M E ∧ E ≤ 0 ∧ sval s M = a * 2^(-E).toNat

theorem sval_mul (s : Bool) (m k : Nat) : sval s (m * k) = sval s m * (k : Int) := by
  unfold sval; split
  · rw [Int.natCast_mul, Int.neg_mul]
  · rw [Int.natCast_mul]

theorem natCast_two_pow (k : Nat) : ((2^k : Nat) : Int) = 2^k := by
  rw [Int.natCast_pow]; rfl

/-- rounding the integer `±N` (written over any power-of-two denominator) is exact -/
theorem roundND_intRep (f : Fmt) (hf : FmtOk f) (neg : Bool) {N : Nat} (hN : N ≠ 0) (hlt : N < 2^f.prec) (j : Nat) :
    IntRep (f.roundND neg (N * 2^j) (2^j)) (sval neg N) := by
  obtain ⟨h1, h2, h3⟩ := hf
  have hL := log2_lt_prec hN hlt
  rw [roundND_exact f neg hN hlt j j (by omega) (by omega)]
  refine ⟨neg, _, _, rfl, by omega, ?_⟩
  rw [sval_mul, natCast_two_pow]
  congr 2; omega

theorem ofInt_intRep (f : Fmt) (hf : FmtOk f) (a : Int) (ha : a.natAbs < 2^f.prec) : IntRep (f.ofInt a) a := by
  by_cases h0 : a = 0
  · subst h0
    refine ⟨false, 0, f.qmin, by simp [Fmt.ofInt, Fmt.roundND], ?_, by simp [sval]⟩
    obtain ⟨h1, h2, h3⟩ := hf
    unfold Fmt.qmin; omega
  · have hN : a.natAbs ≠ 0 := by omega
    have := roundND_intRep f hf (decide (a < 0)) hN ha 0
    rw [Nat.pow_zero, Nat.mul_one] at this
    unfold Fmt.ofInt
    have e : sval (decide (a < 0)) a.natAbs = a := by
      unfold sval; by_cases h : a < 0 <;> simp [h] <;> omega
    rw [e] at this; exact this

theorem neg_intRep {x : FVal} {a : Int} (h : IntRep x a) : IntRep x.neg (-a) := by
  obtain ⟨s, M, E, rfl, hE, hv⟩ := h
  refine ⟨!s, M, E, rfl, hE, ?_⟩
  rw [Int.neg_mul, ← hv]
  unfold sval; cases s <;> simp

theorem truncInt_intRep {s : Bool} {M : Nat} {E : Int} {a : Int} (hE : E ≤ 0)
    (hv : sval s M = a * 2^(-E).toNat) : truncInt s M E = a := by
  unfold truncInt
  by_cases h0 : 0 ≤ E
  · have : E = 0 := by omega
    subst this
    simp [sval] at hv ⊢
    exact hv
  · simp only [h0, ite_false]
    have hp := two_pow_pos (-E).toNat
    -- M = |a| * 2^j
    have hM : (M : Int) = (a.natAbs : Int) * 2^(-E).toNat := by
      unfold sval at hv
      by_cases ha : 0 ≤ a
      · have : 0 ≤ a * 2^(-E).toNat := Int.mul_nonneg ha (Int.le_of_lt hp)
        have hn : (a.natAbs : Int) = a := by omega
        rw [hn]
        cases s <;> simp at hv <;> omega
      · have : a * 2^(-E).toNat < 0 := Int.mul_neg_of_neg_of_pos (by omega) hp
        have hn : (a.natAbs : Int) = -a := by omega
        rw [hn, Int.neg_mul]
        cases s <;> simp at hv <;> omega
    have hM' : M = a.natAbs * 2^(-E).toNat := by
      have : ((a.natAbs * 2^(-E).toNat : Nat) : Int) = (a.natAbs : Int) * 2^(-E).toNat := by
        rw [Int.natCast_mul, natCast_two_pow]
      omega
    rw [hM', Nat.mul_div_cancel _ (Nat.two_pow_pos _)]
    -- sign
    unfold sval at hv
    cases s <;> simp at hv ⊢
    · -- non-negative
      have : 0 ≤ a := by
        apply Decidable.byContradiction; intro hn
        have : a * 2^(-E).toNat < 0 := Int.mul_neg_of_neg_of_pos (by omega) hp
        omega
      omega
    · have : a ≤ 0 := by
        apply Decidable.byContradiction; intro hn
        have : 0 < a * 2^(-E).toNat := Int.mul_pos (by omega) hp
        omega
      omega


theorem scaled_eq (s : Bool) (m : Nat) (e q : Int) : FVal.scaled s m e q = sval s m * 2^(e - q).toNat := by
  unfold FVal.scaled sval
  simp only [Int.natCast_mul, natCast_two_pow]
  split <;> simp [Int.neg_mul]

theorem scaled_intRep {s : Bool} {M : Nat} {E : Int} {a : Int} (hE : E ≤ 0)
    (hv : sval s M = a * 2^(-E).toNat) {q : Int} (hq : q ≤ E) :
    FVal.scaled s M E q = a * 2^(-q).toNat := by
  rw [scaled_eq, hv, Int.mul_assoc, ← Int.pow_add]; congr 2; omega

theorem sval_sign_natAbs (a : Int) : sval (decide (a < 0)) a.natAbs = a := by
  unfold sval; by_cases h : a < 0 <;> simp [h] <;> omega

theorem qmin_le_zero {f : Fmt} (hf : FmtOk f) : f.qmin ≤ 0 := by
  obtain ⟨h1, h2, h3⟩ := hf; unfold Fmt.qmin; omega

/-- the sum of two integer-valued numbers is exact when it is below `2^prec` in magnitude -/
theorem add_intRep (f : Fmt) (hf : FmtOk f) {x y : FVal} {a b : Int} (hx : IntRep x a) (hy : IntRep y b)
    (hab : (a + b).natAbs < 2^f.prec) : IntRep (f.add x y) (a + b) := by
  obtain ⟨s1, M1, E1, rfl, hE1, hv1⟩ := hx
  obtain ⟨s2, M2, E2, rfl, hE2, hv2⟩ := hy
  have hq1 : (if E1 ≤ E2 then E1 else E2) ≤ E1 := by split <;> omega
  have hq2 : (if E1 ≤ E2 then E1 else E2) ≤ E2 := by split <;> omega
  simp only [Fmt.add]
  generalize (if E1 ≤ E2 then E1 else E2) = q at hq1 hq2 ⊢
  rw [scaled_intRep hE1 hv1 hq1, scaled_intRep hE2 hv2 hq2, ← Int.add_mul]
  have hp := two_pow_pos (-q).toNat
  by_cases h0 : a + b = 0
  · rw [h0, Int.zero_mul]
    simp only [ite_true]
    exact ⟨_, 0, f.qmin, rfl, qmin_le_zero hf, by simp [sval]⟩
  · have hc0 : (a + b) * 2^(-q).toNat ≠ 0 := by
      intro h; rcases Int.mul_eq_zero.1 h with h | h <;> omega
    simp only [hc0, ite_false]
    have hN : (a + b).natAbs ≠ 0 := by omega
    have hneg : decide ((a + b) * 2^(-q).toNat < 0) = decide (a + b < 0) := by
      apply decide_eq_decide.2
      constructor
      · intro h
        apply Decidable.byContradiction; intro hn
        have := Int.mul_nonneg (show 0 ≤ a + b by omega) (Int.le_of_lt hp)
        omega
      · intro h; exact Int.mul_neg_of_neg_of_pos h hp
    have habs : ((a + b) * 2^(-q).toNat).natAbs = (a + b).natAbs * 2^(-q).toNat := by
      rw [Int.natAbs_mul, Int.natAbs_pow]; rfl
    rw [hneg, habs]
    have key := roundND_intRep f hf (decide (a + b < 0)) hN hab (-q).toNat
    rw [sval_sign_natAbs] at key
    unfold Fmt.ofDyadic
    by_cases hq0 : 0 ≤ q
    · have : q = 0 := by omega
      subst this
      simp only [Int.le_refl, ite_true, Int.neg_zero, Int.toNat_zero, Nat.pow_zero, Nat.mul_one] at key ⊢
      exact key
    · simp only [hq0, ite_false]
      exact key


/-! ## comparisons -/

theorem fCmp_lt_fin (s1 : Bool) (m1 : Nat) (e1 : Int) (s2 : Bool) (m2 : Nat) (e2 : Int) :
    fCmp .lt (.fin s1 m1 e1) (.fin s2 m2 e2)
      = decide (FVal.scaled s1 m1 e1 (if e1 ≤ e2 then e1 else e2) < FVal.scaled s2 m2 e2 (if e1 ≤ e2 then e1 else e2)) := by
  simp only [fCmp, FVal.cmp?]
  generalize FVal.scaled s1 m1 e1 _ = a
  generalize FVal.scaled s2 m2 e2 _ = b
  by_cases h : a < b
  · simp [h]
  · by_cases h' : a = b <;> simp [h, h']

theorem fCmp_ge_fin (s1 : Bool) (m1 : Nat) (e1 : Int) (s2 : Bool) (m2 : Nat) (e2 : Int) :
    fCmp .ge (.fin s1 m1 e1) (.fin s2 m2 e2)
      = decide (FVal.scaled s1 m1 e1 (if e1 ≤ e2 then e1 else e2) ≥ FVal.scaled s2 m2 e2 (if e1 ≤ e2 then e1 else e2)) := by
  simp only [fCmp, FVal.cmp?]
  generalize FVal.scaled s1 m1 e1 _ = a
  generalize FVal.scaled s2 m2 e2 _ = b
  by_cases h : a < b
  · have h2 : ¬ b ≤ a := by omega
    simp [h, h2]
  · have h2 : b ≤ a := by omega
    by_cases h' : a = b
    · subst h'; simp
    · simp [h, h', h2]

theorem mul_two_pow_lt_iff (a b : Int) (k : Nat) : a * 2^k < b * 2^k ↔ a < b := by
  have hp := two_pow_pos k
  constructor
  · intro h; exact Int.lt_of_mul_lt_mul_right h (Int.le_of_lt hp)
  · intro h; exact Int.mul_lt_mul_of_pos_right h hp

/-- `x < 0` -/
theorem fCmp_lt_zero (f : Fmt) (s : Bool) (m : Nat) (e : Int) :
    fCmp .lt (.fin s m e) (f.ofInt 0) = decide (sval s m < 0) := by
  have h0 : f.ofInt 0 = .fin false 0 f.qmin := by simp [Fmt.ofInt, Fmt.roundND]
  rw [h0, fCmp_lt_fin, scaled_eq, scaled_eq]
  apply decide_eq_decide.2
  have : sval false 0 = 0 := by simp [sval]
  rw [this, Int.zero_mul]
  have := mul_two_pow_lt_iff (sval s m) 0 (e - if e ≤ f.qmin then e else f.qmin).toNat
  rw [Int.zero_mul] at this
  exact this

/-- the truncated integer part in terms of the signed significand -/
theorem truncInt_eq (s : Bool) (m : Nat) (e : Int) :
    truncInt s m e = if 0 ≤ e then sval s m * 2^e.toNat else (sval s m).tdiv (2^(-e).toNat) := by
  unfold truncInt sval
  by_cases h : 0 ≤ e
  · simp only [h, ite_true, Int.natCast_mul, natCast_two_pow]
    cases s <;> simp [Int.neg_mul]
  · simp only [h, ite_false]
    have : ((m / 2^(-e).toNat : Nat) : Int) = (m : Int).tdiv (2^(-e).toNat) := by
      rw [Int.natCast_ediv, natCast_two_pow, Int.tdiv_eq_ediv_of_nonneg (by omega)]
    rw [this]
    cases s <;> simp [Int.neg_tdiv]

/-- `x < trunc x`, for the integer part held as an `IntRep` -/
theorem fCmp_lt_trunc (s : Bool) (m : Nat) (e : Int) {xw : FVal} (hw : IntRep xw (truncInt s m e)) :
    fCmp .lt (.fin s m e) xw = decide (e < 0 ∧ (sval s m).tmod (2^(-e).toNat) < 0) := by
  obtain ⟨s2, M2, E2, rfl, hE2, hv2⟩ := hw
  rw [fCmp_lt_fin]
  have hq1 : (if e ≤ E2 then e else E2) ≤ e := by split <;> omega
  have hq2 : (if e ≤ E2 then e else E2) ≤ E2 := by split <;> omega
  generalize (if e ≤ E2 then e else E2) = q at hq1 hq2 ⊢
  rw [scaled_intRep hE2 hv2 hq2, scaled_eq, truncInt_eq]
  apply decide_eq_decide.2
  by_cases h : 0 ≤ e
  · simp only [h, ite_true]
    have e1 : sval s m * 2^e.toNat * 2^(-q).toNat = sval s m * 2^(e - q).toNat := by
      rw [Int.mul_assoc, ← Int.pow_add]; congr 2; omega
    rw [e1]
    constructor
    · intro h'; omega
    · intro h'; omega
  · simp only [h, ite_false]
    have e1 : (2:Int)^(-q).toNat = 2^(-e).toNat * 2^(e - q).toNat := by
      rw [← Int.pow_add]; congr 1; omega
    rw [e1, ← Int.mul_assoc, mul_two_pow_lt_iff]
    have hp := two_pow_pos (-e).toNat
    have hf := tdiv_tmod_facts (sval s m) (2^(-e).toNat) (by omega)
    rw [Int.mul_comm] at hf
    constructor
    · intro h'; exact ⟨by omega, by omega⟩
    · intro h'; omega

theorem ediv_eq_tdiv_sub (a p : Int) (hp : 0 < p) :
    a / p = a.tdiv p - (if a.tmod p < 0 then 1 else 0) := by
  have hf := tdiv_tmod_facts a p (by omega)
  have := (Int.ediv_emod_unique (a := a) (b := p) (q := a.tdiv p - (if a.tmod p < 0 then 1 else 0))
    (r := a.tmod p + (if a.tmod p < 0 then p else 0)) hp).2
  refine (this ⟨?_, ?_, ?_⟩).1
  · split
    · rw [Int.mul_sub, Int.mul_one]; omega
    · rw [Int.sub_zero]; omega
  · split <;> omega
  · split <;> omega


/-! ## the home-made `floor` -/

/-- the `floor_residual` condition: `x < 0 && x < x_whole` -/
def residual (s : Bool) (m : Nat) (e : Int) : Int :=
  if sval s m < 0 ∧ (e < 0 ∧ (sval s m).tmod (2^(-e).toNat) < 0) then 1 else 0

theorem floor_eq_trunc_sub (s : Bool) (m : Nat) (e : Int) :
    roundDyadic .floor (sval s m) e = truncInt s m e - residual s m e := by
  unfold roundDyadic residual
  rw [truncInt_eq]
  by_cases h : 0 ≤ e
  · have : ¬ e < 0 := by omega
    simp only [h, ite_true, this, false_and, and_false, ite_false, Int.sub_zero]
  · have he : e < 0 := by omega
    simp only [h, ite_false, he, true_and]
    have hp := two_pow_pos (-e).toNat
    show sval s m / 2^(-e).toNat = _
    rw [ediv_eq_tdiv_sub _ _ hp]
    have hf := tdiv_tmod_facts (sval s m) (2^(-e).toNat) (by omega)
    by_cases ht : (sval s m).tmod (2^(-e).toNat) < 0
    · have : sval s m < 0 := by
        apply Decidable.byContradiction; intro hn
        have := hf.2.1 (by omega); omega
      simp only [ht, this, and_self, ite_true]
    · simp only [ht, and_false, ite_false]

theorem residual_cases (s : Bool) (m : Nat) (e : Int) :
    residual s m e = 0 ∨ (residual s m e = 1 ∧ truncInt s m e ≤ 0) := by
  unfold residual
  split
  · rename_i h
    right; refine ⟨rfl, ?_⟩
    rw [truncInt_eq]
    have he : ¬ 0 ≤ e := by omega
    simp only [he, ite_false]
    have hp := two_pow_pos (-e).toNat
    have := Int.tdiv_nonneg (a := -(sval s m)) (b := 2^(-e).toNat) (by omega) (by omega)
    rw [Int.neg_tdiv] at this
    omega
  · left; rfl

theorem floorEmul_intRep (f : Fmt) (hf : FmtOk f) (D : IntTy) (hDb : 1 ≤ D.bits) (hD1 : D.InRange 1)
    (s : Bool) (m : Nat) (e : Int) (htr : D.InRange (truncInt s m e))
    (hsmall : (roundDyadic .floor (sval s m) e).natAbs < 2^f.prec) :
    ∃ y, RoundCvt.floorEmul f D (.fin s m e) = .ok y ∧ IntRep y (roundDyadic .floor (sval s m) e) := by
  have hfl := floor_eq_trunc_sub s m e
  have hrc := residual_cases s m e
  have hwsmall : (truncInt s m e).natAbs < 2^f.prec := by omega
  have hw := ofInt_intRep f hf (truncInt s m e) hwsmall
  have hcond : (fCmp .lt (.fin s m e) (f.ofInt 0) && fCmp .lt (.fin s m e) (f.ofInt (truncInt s m e)))
      = decide (sval s m < 0 ∧ (e < 0 ∧ (sval s m).tmod (2^(-e).toNat) < 0)) := by
    rw [fCmp_lt_zero, fCmp_lt_trunc s m e hw]; simp only [Bool.decide_and]
  have hres : (if (fCmp .lt (.fin s m e) (f.ofInt 0) && fCmp .lt (.fin s m e) (f.ofInt (truncInt s m e))) = true
      then (1:Int) else 0) = residual s m e := by
    rw [hcond]; unfold residual; simp only [decide_eq_true_eq]
  have hrr : D.InRange (residual s m e) := by
    rcases hrc with h | h
    · rw [h]; exact RoundCvtP.zero_inRange D
    · rw [h.1]; exact hD1
  have hp1 : (1:Nat) < 2^f.prec := by
    have : 2^1 ≤ 2^f.prec := Nat.pow_le_pow_right (by decide) (Nat.le_trans (by decide) hf.1)
    omega
  have hrsmall : (residual s m e).natAbs < 2^f.prec := by
    rcases hrc with h | h
    · rw [h]; simp; exact Nat.two_pow_pos _
    · rw [h.1]; exact hp1
  have hr := neg_intRep (ofInt_intRep f hf (residual s m e) hrsmall)
  have hsum := add_intRep f hf hw hr (by rw [← Int.sub_eq_add_neg, ← hfl]; exact hsmall)
  refine ⟨f.sub (f.ofInt (truncInt s m e)) (f.ofInt (residual s m e)), ?_, ?_⟩
  · simp only [RoundCvt.floorEmul, fToInt, intoRange, htr, ite_true, Res.bind_ok, hres, IntTy.wrap_id hDb hrr,
      Res.pure_eq]
  · rw [hfl, Int.sub_eq_add_neg]; exact hsum

/-- `static_cast<D>` of an integer-valued number -/
theorem fToInt_intRep (D : IntTy) {y : FVal} {a : Int} (h : IntRep y a) : fToInt D y = intoRange D a := by
  obtain ⟨s, M, E, rfl, hE, hv⟩ := h
  simp only [fToInt, truncInt_intRep hE hv]

end Cnl.FloatP

namespace Cnl.FloatP
open Cnl Cnl.Spec

/-! ## rounding a dyadic value, re-expressed at a finer quantum -/

theorem sgn_mul_pos (v : Int) {c : Int} (hc : 0 < c) : sgn (v * c) = sgn v := by
  unfold sgn
  by_cases h : v < 0
  · have := Int.mul_neg_of_neg_of_pos h hc
    simp only [h, this, ite_true]
  · by_cases h0 : v = 0
    · subst h0; simp
    · have := Int.mul_pos (show 0 < v by omega) hc
      have h1 : ¬ v * c < 0 := by omega
      have h2 : ¬ v * c = 0 := by omega
      simp only [h, h0, h1, h2, ite_false]

theorem roundShift_zero (m : RoundMode) (v : Int) : roundShift m v 0 = v := by
  cases m <;> simp only [roundShift, Int.pow_zero, Int.zero_add, Int.pow_one]
  · exact Int.tdiv_one v
  · unfold sgn
    by_cases h : v < 0
    · simp only [h, ite_true]; omega
    · by_cases h0 : v = 0
      · subst h0; simp
      · simp only [h, h0, ite_false]; omega
  · omega
  · exact Int.ediv_one v

theorem roundShift_mul_pow (m : RoundMode) (v : Int) (k c : Nat) :
    roundShift m (v * 2^c) (k + c) = roundShift m v k := by
  have hc := two_pow_pos c
  have e1 : (2:Int)^(k + c) = 2^k * 2^c := Int.pow_add ..
  have e2 : (2:Int)^(k + c + 1) = 2^(k+1) * 2^c := by rw [← Int.pow_add]; congr 1; omega
  cases m <;> simp only [roundShift]
  · rw [e1, Int.mul_tdiv_mul_of_pos_left _ _ hc]
  · rw [sgn_mul_pos v hc, e1, e2]
    have : (2 * ((v * 2^c).natAbs : Int) + 2^k * 2^c) = (2 * (v.natAbs : Int) + 2^k) * 2^c := by
      rw [Int.natAbs_mul, Int.natCast_mul, Int.add_mul]
      have : (((2:Int)^c).natAbs : Int) = 2^c := by omega
      rw [this, Int.mul_assoc]
    rw [this, Int.mul_ediv_mul_of_pos_left _ _ hc]
  · rw [e1, e2]
    have : 2 * (v * 2^c) + 2^k * 2^c = (2 * v + 2^k) * 2^c := by rw [Int.add_mul, Int.mul_assoc]
    rw [this, Int.mul_ediv_mul_of_pos_left _ _ hc]
  · rw [e1, Int.mul_ediv_mul_of_pos_left _ _ hc]

/-- `a · 2^e` rounded = `(a · 2^(e-q)) / 2^(-q)` rounded, for any quantum `2^q` below both -/
theorem roundDyadic_rescale (m : RoundMode) (a : Int) {e q : Int} (hq : q ≤ e) (hq0 : q ≤ 0) :
    roundDyadic m a e = roundShift m (a * 2^(e - q).toNat) (-q).toNat := by
  unfold roundDyadic
  by_cases h : 0 ≤ e
  · simp only [h, ite_true]
    have e1 : (2:Int)^(e - q).toNat = 2^e.toNat * 2^(-q).toNat := by rw [← Int.pow_add]; congr 1; omega
    have := roundShift_mul_pow m (a * 2^e.toNat) 0 (-q).toNat
    rw [Nat.zero_add, roundShift_zero] at this
    rw [e1, ← Int.mul_assoc, this]
  · simp only [h, ite_false]
    have := roundShift_mul_pow m a (-e).toNat (e - q).toNat
    have e2 : (-e).toNat + (e - q).toNat = (-q).toNat := by omega
    rw [e2] at this
    exact this.symm


/-! ## conversions that add a bias of one half before flooring / truncating -/

/-- the quantum at which `x`, `y` and `1/2` are all integers -/
def biasQ (e e' : Int) : Int := min e (min e' (-1))

/-- `y = (-1)^s' m' 2^e'` is exactly `x + b/2` for `x = (-1)^s m 2^e` (`b = ±1`): the biased sum was
not rounded.  Stated in units of `2^(biasQ e e')`; decidable. -/
def ExactBias (s : Bool) (m : Nat) (e : Int) (s' : Bool) (m' : Nat) (e' : Int) (b : Int) : Prop :=
  sval s' m' * 2^(e' - biasQ e e').toNat = sval s m * 2^(e - biasQ e e').toNat + b * 2^(-1 - biasQ e e').toNat

instance (s : Bool) (m : Nat) (e : Int) (s' : Bool) (m' : Nat) (e' : Int) (b : Int) :
    Decidable (ExactBias s m e s' m' e' b) := by unfold ExactBias; exact inferInstance

theorem biasQ_le (e e' : Int) : biasQ e e' ≤ e ∧ biasQ e e' ≤ e' ∧ biasQ e e' ≤ -1 := by
  unfold biasQ; omega

/-- flooring an exact `x + 1/2` rounds `x` to nearest, ties toward +∞ -/
theorem floor_exactBias {s : Bool} {m : Nat} {e : Int} {s' : Bool} {m' : Nat} {e' : Int}
    (h : ExactBias s m e s' m' e' 1) :
    roundDyadic .floor (sval s' m') e' = roundDyadic .nearestUp (sval s m) e := by
  obtain ⟨h1, h2, h3⟩ := biasQ_le e e'
  unfold ExactBias at h
  generalize biasQ e e' = q at *
  rw [roundDyadic_rescale .floor _ h2 (by omega), roundDyadic_rescale .nearestUp _ h1 (by omega), h, Int.one_mul]
  have hk : 0 < (-q).toNat := by omega
  have := shift_bias_eq (sval s m * 2^(e - q).toNat) hk
  have e1 : (-1 - q).toNat = (-q).toNat - 1 := by omega
  rw [e1]; exact this

/-- truncating an exact `x ± 1/2` (sign of `x`) rounds `x` to nearest, ties away from zero -/
theorem trunc_exactBias {s : Bool} {m : Nat} {e : Int} {s' : Bool} {m' : Nat} {e' : Int}
    (h : ExactBias s m e s' m' e' (if 0 ≤ sval s m then 1 else -1)) :
    truncInt s' m' e' = roundDyadic .nearestAway (sval s m) e := by
  obtain ⟨h1, h2, h3⟩ := biasQ_le e e'
  unfold ExactBias at h
  generalize biasQ e e' = q at *
  have ht : truncInt s' m' e' = roundDyadic .truncate (sval s' m') e' := by
    rw [truncInt_eq]; rfl
  rw [ht, roundDyadic_rescale .truncate _ h2 (by omega), roundDyadic_rescale .nearestAway _ h1 (by omega), h]
  have hk : 0 < (-q).toNat := by omega
  have hp := two_pow_pos (e - q).toNat
  have := trunc_bias_eq (sval s m * 2^(e - q).toNat) hk
  have e1 : (-1 - q).toNat = (-q).toNat - 1 := by omega
  rw [e1, ← this]
  by_cases h0 : 0 ≤ sval s m
  · have : 0 ≤ sval s m * 2^(e - q).toNat := Int.mul_nonneg h0 (Int.le_of_lt hp)
    simp only [h0, this, ite_true, Int.one_mul]
    rfl
  · have : ¬ 0 ≤ sval s m * 2^(e - q).toNat := by
      have := Int.mul_neg_of_neg_of_pos (show sval s m < 0 by omega) hp
      omega
    simp only [h0, this, ite_false, Int.neg_mul, Int.one_mul]
    rw [← Int.sub_eq_add_neg]
    rfl

/-- `x >= 0` -/
theorem fCmp_ge_zero (f : Fmt) (s : Bool) (m : Nat) (e : Int) :
    fCmp .ge (.fin s m e) (f.ofInt 0) = decide (0 ≤ sval s m) := by
  have h0 : f.ofInt 0 = .fin false 0 f.qmin := by simp [Fmt.ofInt, Fmt.roundND]
  rw [h0, fCmp_ge_fin, scaled_eq, scaled_eq]
  apply decide_eq_decide.2
  have : sval false 0 = 0 := by simp [sval]
  rw [this, Int.zero_mul]
  have hp := two_pow_pos (e - if e ≤ f.qmin then e else f.qmin).toNat
  constructor
  · intro h
    apply Decidable.byContradiction; intro hn
    have := Int.mul_neg_of_neg_of_pos (show sval s m < 0 by omega) hp
    omega
  · intro h; exact Int.mul_nonneg h (Int.le_of_lt hp)


/-! ## `floatToInt` -/

theorem trunc_inRange_of_floor (D : IntTy) (s : Bool) (m : Nat) (e : Int)
    (h : D.InRange (roundDyadic .floor (sval s m) e)) : D.InRange (truncInt s m e) := by
  have hfl := floor_eq_trunc_sub s m e
  have hz := RoundCvtP.zero_inRange D
  unfold IntTy.InRange at *
  rcases residual_cases s m e with hr | hr
  · rw [hr] at hfl; omega
  · rw [hr.1] at hfl; omega

theorem truncInt_eq_roundDyadic (s : Bool) (m : Nat) (e : Int) :
    truncInt s m e = roundDyadic .truncate (sval s m) e := by rw [truncInt_eq]; rfl

/-- neg_inf: the home-made floor, then the cast -/
theorem float_ninf_eval (f : Fmt) (hf : FmtOk f) (D : IntTy) (hDb : 1 ≤ D.bits) (hD1 : D.InRange 1)
    (s : Bool) (m : Nat) (e : Int) (hfloor : D.InRange (roundDyadic .floor (sval s m) e))
    (hsmall : (roundDyadic .floor (sval s m) e).natAbs < 2^f.prec) :
    RoundCvt.floatToInt .ninf f D (.fin s m e) = .ok (roundDyadic .floor (sval s m) e) := by
  obtain ⟨y, hy, hrep⟩ := floorEmul_intRep f hf D hDb hD1 s m e (trunc_inRange_of_floor D s m e hfloor) hsmall
  simp only [RoundCvt.floatToInt, hy, Res.bind_ok, fToInt_intRep D hrep, intoRange, hfloor, ite_true]

/-- tie_to_pos_inf: floor of the biased sum `y = x + .5` computed in the source format -/
theorem float_tpi_eval (f : Fmt) (hf : FmtOk f) (D : IntTy) (hDb : 1 ≤ D.bits) (hD1 : D.InRange 1)
    (x : FVal) (s' : Bool) (m' : Nat) (e' : Int) (hy : f.add x (f.ofDyadic false 1 (-1)) = .fin s' m' e')
    (hfloor : D.InRange (roundDyadic .floor (sval s' m') e'))
    (hsmall : (roundDyadic .floor (sval s' m') e').natAbs < 2^f.prec) :
    RoundCvt.floatToInt .tpi f D x = .ok (roundDyadic .floor (sval s' m') e') := by
  have := float_ninf_eval f hf D hDb hD1 s' m' e' hfloor hsmall
  simp only [RoundCvt.floatToInt, hy] at this ⊢
  exact this

/-- nearest: truncation of the biased sum `x ± .5L` computed in long double -/
theorem float_nrst_eval (f : Fmt) (D : IntTy) (s : Bool) (m : Nat) (e : Int) (s' : Bool) (m' : Nat) (e' : Int)
    (hy : (if 0 ≤ sval s m then x87ext.add (x87ext.cvt (.fin s m e)) (x87ext.ofDyadic false 1 (-1))
           else x87ext.sub (x87ext.cvt (.fin s m e)) (x87ext.ofDyadic false 1 (-1))) = .fin s' m' e') :
    RoundCvt.floatToInt .nrst f D (.fin s m e) = intoRange D (truncInt s' m' e') := by
  simp only [RoundCvt.floatToInt, fCmp_ge_zero, decide_eq_true_eq, hy, fToInt]

end Cnl.FloatP

namespace Cnl.FloatP
open Cnl Cnl.Spec

/-! ## integral values of magnitude `≥ 2^(prec-1)`: `Source(Destination(x))` is `x` itself -/

theorem qmin_neg {f : Fmt} (hf : FmtOk f) : f.qmin < 0 := by
  obtain ⟨h1, h2, h3⟩ := hf; unfold Fmt.qmin; omega

theorem log2_normal {m p : Nat} (hp : 1 ≤ p) (h1 : 2^(p-1) ≤ m) (h2 : m < 2^p) : m.log2 = p - 1 := by
  have hm : m ≠ 0 := by have := Nat.two_pow_pos (p-1); omega
  rw [Nat.log2_eq_iff hm, show p - 1 + 1 = p by omega]
  exact ⟨h1, h2⟩

theorem sval_neg_iff (s : Bool) {m : Nat} (hm : m ≠ 0) : decide (sval s m < 0) = s := by
  unfold sval; cases s <;> simp <;> omega

theorem natAbs_sval (s : Bool) (m : Nat) : (sval s m).natAbs = m := by
  unfold sval; cases s <;> simp

/-- rounding the value of a normal canonical number returns it -/
theorem roundND_self (f : Fmt) (hf : FmtOk f) (s : Bool) {m : Nat} (e : Int)
    (h1 : 2^(f.prec-1) ≤ m) (h2 : m < 2^f.prec) (hlo : f.qmin ≤ e) (hhi : e + ((f.prec : Int) - 1) ≤ f.emax)
    (t b : Nat) (htb : (t : Int) - b = e) :
    f.roundND s (m * 2^t) (2^b) = .fin s m e := by
  have hp : 1 ≤ f.prec := Nat.le_trans (by decide) hf.1
  have hm : m ≠ 0 := by have := Nat.two_pow_pos (f.prec-1); omega
  have hL := log2_normal hp h1 h2
  have hq : f.qmin = f.emin - ((f.prec : Int) - 1) := rfl
  rw [roundND_exact f s hm h2 t b (by rw [hL]; omega) (by rw [hL]; omega), hL, Nat.sub_self, Nat.pow_zero, Nat.mul_one]
  congr 1; omega

theorem ofInt_self (f : Fmt) (hf : FmtOk f) (s : Bool) {m : Nat} {e : Int} (he : 0 ≤ e)
    (h1 : 2^(f.prec-1) ≤ m) (h2 : m < 2^f.prec) (hhi : e + ((f.prec : Int) - 1) ≤ f.emax) :
    f.ofInt (sval s m * 2^e.toNat) = .fin s m e := by
  have hm : m ≠ 0 := by have := Nat.two_pow_pos (f.prec-1); omega
  have hp := two_pow_pos e.toNat
  unfold Fmt.ofInt
  have habs : (sval s m * 2^e.toNat).natAbs = m * 2^e.toNat := by
    rw [Int.natAbs_mul, natAbs_sval, Int.natAbs_pow]; rfl
  have hneg : decide (sval s m * 2^e.toNat < 0) = s := by
    have h' : decide (sval s m * 2^e.toNat < 0) = decide (sval s m < 0) := by
      apply decide_eq_decide.2
      have := mul_two_pow_lt_iff (sval s m) 0 e.toNat
      rw [Int.zero_mul] at this; exact this
    rw [h', sval_neg_iff s hm]
  rw [habs, hneg]
  have := roundND_self f hf s e h1 h2 (by have := qmin_neg hf; omega) hhi e.toNat 0 (by omega)
  rw [Nat.pow_zero] at this; exact this

theorem sub_zero_self (f : Fmt) (hf : FmtOk f) (s : Bool) {m : Nat} {e : Int}
    (h1 : 2^(f.prec-1) ≤ m) (h2 : m < 2^f.prec) (hlo : f.qmin ≤ e) (hhi : e + ((f.prec : Int) - 1) ≤ f.emax) :
    f.sub (.fin s m e) (f.ofInt 0) = .fin s m e := by
  have hm : m ≠ 0 := by have := Nat.two_pow_pos (f.prec-1); omega
  have hqn := qmin_neg hf
  have h0 : f.ofInt 0 = .fin false 0 f.qmin := by simp [Fmt.ofInt, Fmt.roundND]
  have hq : (if e ≤ f.qmin then e else f.qmin) = f.qmin := by split <;> omega
  have hp := two_pow_pos (e - f.qmin).toNat
  have hz : FVal.scaled true 0 f.qmin f.qmin = 0 := by simp [FVal.scaled]
  have hc0 : sval s m * 2^(e - f.qmin).toNat ≠ 0 := by
    intro h; rcases Int.mul_eq_zero.1 h with h | h
    · have := natAbs_sval s m; rw [h] at this; simp at this; omega
    · omega
  have habs : (sval s m * 2^(e - f.qmin).toNat).natAbs = m * 2^(e - f.qmin).toNat := by
    rw [Int.natAbs_mul, natAbs_sval, Int.natAbs_pow]; rfl
  have hneg : decide (sval s m * 2^(e - f.qmin).toNat < 0) = s := by
    have h' : decide (sval s m * 2^(e - f.qmin).toNat < 0) = decide (sval s m < 0) := by
      apply decide_eq_decide.2
      have := mul_two_pow_lt_iff (sval s m) 0 (e - f.qmin).toNat
      rw [Int.zero_mul] at this; exact this
    rw [h', sval_neg_iff s hm]
  have hnq : ¬ 0 ≤ f.qmin := by omega
  simp only [Fmt.sub, h0, FVal.neg, Fmt.add, hq, scaled_eq s m, hz, Int.add_zero, hc0, ite_false, habs, hneg,
    Bool.not_false, Fmt.ofDyadic, hnq]
  exact roundND_self f hf s e h1 h2 hlo hhi _ _ (by omega)

theorem fCmp_lt_self (x : FVal) : fCmp .lt x x = false := by
  cases x with
  | fin s m e => rw [fCmp_lt_fin]; simp
  | inf b => simp [fCmp, FVal.cmp?]
  | nan => simp [fCmp, FVal.cmp?]

/-- neg_inf on an integral value held as a normal number with non-negative exponent -/
theorem float_ninf_eval_large (f : Fmt) (hf : FmtOk f) (D : IntTy) (hDb : 1 ≤ D.bits)
    (s : Bool) (m : Nat) (e : Int) (he : 0 ≤ e)
    (h1 : 2^(f.prec-1) ≤ m) (h2 : m < 2^f.prec) (hhi : e + ((f.prec : Int) - 1) ≤ f.emax)
    (hfloor : D.InRange (roundDyadic .floor (sval s m) e)) :
    RoundCvt.floatToInt .ninf f D (.fin s m e) = .ok (roundDyadic .floor (sval s m) e) := by
  have hfl : roundDyadic .floor (sval s m) e = sval s m * 2^e.toNat := by simp [roundDyadic, he]
  have htr : truncInt s m e = sval s m * 2^e.toNat := by rw [truncInt_eq]; simp [he]
  rw [hfl] at hfloor ⊢
  have hlo : f.qmin ≤ e := by have := qmin_neg hf; omega
  simp only [RoundCvt.floatToInt, RoundCvt.floorEmul, fToInt, htr, intoRange, hfloor, ite_true, Res.bind_ok,
    ofInt_self f hf s he h1 h2 hhi, fCmp_lt_self, Bool.and_false, Bool.false_eq_true, ite_false,
    IntTy.wrap_id hDb (RoundCvtP.zero_inRange D), sub_zero_self f hf s h1 h2 hlo hhi, Res.pure_eq]


theorem ediv_natAbs_lt {a p : Int} (hp : 0 < p) {B : Nat} (h : a.natAbs < B) : (a / p).natAbs < B := by
  by_cases ha : 0 ≤ a
  · have h1 := Int.ediv_nonneg ha (Int.le_of_lt hp)
    have h2 := Int.ediv_le_self p ha
    omega
  · have h1 : a ≤ a / p := by
      apply Int.le_ediv_of_mul_le hp
      have := Int.mul_le_mul_of_nonpos_left (a := a) (b := p) (c := 1) (by omega) (by omega)
      omega
    have h2 : a / p < 0 := Int.ediv_neg_of_neg_of_pos (by omega) hp
    omega

/-- neg_inf, every canonical finite source value -/
theorem float_ninf_canonical (f : Fmt) (hf : FmtOk f) (D : IntTy) (hDb : 1 ≤ D.bits) (hD1 : D.InRange 1)
    (s : Bool) (m : Nat) (e : Int) (hc : f.Canonical (.fin s m e) = true)
    (hfloor : D.InRange (roundDyadic .floor (sval s m) e)) :
    RoundCvt.floatToInt .ninf f D (.fin s m e) = .ok (roundDyadic .floor (sval s m) e) := by
  simp only [Fmt.Canonical, Bool.and_eq_true, Bool.or_eq_true, decide_eq_true_eq] at hc
  obtain ⟨⟨⟨hm, hlo⟩, hhi⟩, hnorm⟩ := hc
  by_cases hs : (roundDyadic .floor (sval s m) e).natAbs < 2^f.prec
  · exact float_ninf_eval f hf D hDb hD1 s m e hfloor hs
  · have he : 0 ≤ e := by
      apply Decidable.byContradiction; intro hn
      apply hs
      have : roundDyadic .floor (sval s m) e = sval s m / 2^(-e).toNat := by simp [roundDyadic, hn, roundShift]
      rw [this]
      exact ediv_natAbs_lt (two_pow_pos _) (by rw [natAbs_sval]; exact hm)
    have h1 : 2^(f.prec-1) ≤ m := by
      rcases hnorm with h | h
      · exact h
      · have := qmin_neg hf; omega
    exact float_ninf_eval_large f hf D hDb s m e he h1 hm hhi hfloor


/-- tie_to_pos_inf with a canonical biased sum -/
theorem float_tpi_eval_canonical (f : Fmt) (hf : FmtOk f) (D : IntTy) (hDb : 1 ≤ D.bits) (hD1 : D.InRange 1)
    (x : FVal) (s' : Bool) (m' : Nat) (e' : Int) (hy : f.add x (f.ofDyadic false 1 (-1)) = .fin s' m' e')
    (hc : f.Canonical (.fin s' m' e') = true)
    (hfloor : D.InRange (roundDyadic .floor (sval s' m') e')) :
    RoundCvt.floatToInt .tpi f D x = .ok (roundDyadic .floor (sval s' m') e') := by
  have := float_ninf_canonical f hf D hDb hD1 s' m' e' hc hfloor
  simp only [RoundCvt.floatToInt, hy] at this ⊢
  exact this

end Cnl.FloatP
