import CnlProofs.CIntLemmas
import CnlProofs.Rounding
import CnlProofs.Scaled
import CnlModel.RoundCvt
import CnlSpec.RoundCvt
/-!
# Lemmas for C09: narrowing conversions under a rounding tag

* `Cnl.Spec`: the shift-and-bias formulas of the code are the roundings of `CnlSpec.RoundCvt`;
* `Cnl.RoundCvtP`: step-by-step evaluation of `RoundCvt.scaledToScaled`.
* `Cnl.FloatP`: floating sources — exact roundings (`roundND_exact`), the home-made floor, the long
  double bias of the nearest conversion (`biased_roundND`, `roundND_bias_core`, `float_nrst_narrow`),
  exactness of `power_value<Float>` for radix 2 (`powerValueF_two`) and float → scaled
  (`fromFloat_eval`, `fromFloat_subnormal`, `fromFloat_fits`).

Lean core only.
-/
set_option linter.unusedVariables false
set_option linter.unusedSimpArgs false

namespace Cnl.Spec

theorem two_pow_pred {k : Nat} (hk : 0 < k) : (2:Int)^k = 2 * 2^(k-1) := by
  obtain ⟨j, rfl⟩ : ∃ j, k = j + 1 := ⟨k - 1, by omega⟩
  simp only [Nat.add_sub_cancel]
  exact two_pow_succ j

/-- `(v + 2^(k-1)) >> k = ⌊v/2^k + 1/2⌋` -/
theorem shift_bias_eq (v : Int) {k : Nat} (hk : 0 < k) :
    (v + 2^(k-1)) / 2^k = roundShift .nearestUp v k := by
  unfold roundShift
  simp only
  rw [two_pow_succ k]
  have hp := two_pow_pos k
  have e : 2 * v + 2^k = 2 * (v + 2^(k-1)) := by rw [two_pow_pred hk]; omega
  rw [e, Int.mul_ediv_mul_of_pos _ _ (by decide : (0:Int) < 2)]

/-- floor and truncation agree on non-negative values -/
theorem tdiv_eq_ediv_of_nonneg {a b : Int} (ha : 0 ≤ a) : a.tdiv b = a / b := by
  exact Int.tdiv_eq_ediv_of_nonneg ha

/-- `trunc((v ± 2^(k-1)) / 2^k)` (sign of the bias = sign of `v`) is nearest, ties away from zero -/
theorem trunc_bias_eq (v : Int) {k : Nat} (hk : 0 < k) :
    (if 0 ≤ v then v + 2^(k-1) else v - 2^(k-1)).tdiv (2^k) = roundShift .nearestAway v k := by
  unfold roundShift
  simp only
  rw [two_pow_succ k]
  have hp := two_pow_pos (k-1)
  have e2 := two_pow_pred hk
  by_cases h : 0 ≤ v
  · simp only [h, ite_true]
    have hn : ((v.natAbs : Nat) : Int) = v := by omega
    have e : 2 * (v.natAbs : Int) + 2^k = 2 * (v + 2^(k-1)) := by rw [hn, e2]; omega
    rw [e, Int.mul_ediv_mul_of_pos _ _ (by decide : (0:Int) < 2), Int.tdiv_eq_ediv_of_nonneg (by omega)]
    unfold sgn
    by_cases h0 : v = 0
    · subst h0
      simp only [Int.zero_add, Int.lt_irrefl, ite_false, ite_true, Int.zero_mul]
      rw [e2]
      exact Int.ediv_eq_zero_of_lt (by omega) (by omega)
    · have : ¬ v < 0 := by omega
      simp only [this, h0, ite_false, Int.one_mul]
  · simp only [h, ite_false]
    have hn : ((v.natAbs : Nat) : Int) = -v := by omega
    have e : 2 * (v.natAbs : Int) + 2^k = 2 * (-v + 2^(k-1)) := by rw [hn, e2]; omega
    rw [e, Int.mul_ediv_mul_of_pos _ _ (by decide : (0:Int) < 2)]
    have : v < 0 := by omega
    unfold sgn
    simp only [this, ite_true]
    have e3 : v - 2^(k-1) = -(-v + 2^(k-1)) := by omega
    rw [e3, Int.neg_tdiv, Int.tdiv_eq_ediv_of_nonneg (by omega)]
    omega

/-- the integer formulas are the rounded quotients of `CnlSpec.Rounding` with divisor `2^k` -/
theorem roundShift_eq_roundDiv (m : RoundMode) (v : Int) (k : Nat) :
    roundShift m v k = roundDiv m v (2^k) := by
  have hp := two_pow_pos k
  have hs : sgn ((2:Int)^k) = 1 := by
    unfold sgn
    have h1 : ¬ (2:Int)^k < 0 := by omega
    have h2 : ¬ (2:Int)^k = 0 := by omega
    simp only [h1, h2, ite_false]
  have hn : (((2:Int)^k).natAbs : Int) = 2^k := by omega
  cases m with
  | truncate => rfl
  | floor =>
    show v / 2^k = v.fdiv (2^k)
    rw [Int.fdiv_eq_ediv_of_nonneg _ (Int.le_of_lt hp)]
  | nearestUp =>
    show (2 * v + 2^k) / 2^(k+1) = (2 * v * sgn (2^k) + ((2:Int)^k).natAbs) / (2 * (((2:Int)^k).natAbs : Int))
    rw [hs, hn, two_pow_succ, Int.mul_one]
  | nearestAway =>
    show sgn v * ((2 * (v.natAbs : Int) + 2^k) / 2^(k+1))
      = sgn v * sgn (2^k) * ((2 * (v.natAbs : Int) + ((2:Int)^k).natAbs) / (2 * (((2:Int)^k).natAbs : Int)))
    rw [hs, hn, two_pow_succ, Int.mul_one]

/-- `roundShift` satisfies the division-free characterisation of the rounding mode -/
theorem roundShift_isRounded (m : RoundMode) (v : Int) (k : Nat) :
    IsRoundedShift m v k (roundShift m v k) := by
  unfold IsRoundedShift
  rw [roundShift_eq_roundDiv]
  have hp := two_pow_pos k
  exact roundDiv_isRounded m v (2^k) (by omega)

end Cnl.Spec

namespace Cnl.RoundCvtP
open Cnl Cnl.Spec Cnl.Rounding Cnl.ScaledP Cnl.RoundCvt

/-! ## pieces of `scaledToScaled` -/

theorem two_pow_inRange {T : IntTy} {k : Nat} (h : k < T.digits) : T.InRange (2^k) := by
  have hz := zero_le_max T
  have hp := two_pow_pos k
  refine ⟨by omega, ?_⟩
  rw [IntTy.max_eq]
  exact two_pow_lt_iff.2 h

theorem powerValueInt_two (S : IntTy) {k : Nat} (hk : 0 < k) (h : k < (promote S).digits) :
    powerValueInt S k 2 = .ok (promote S, 2^k) := by
  have hk0 : k ≠ 0 := by omega
  simp only [powerValueInt, hk0, ite_false, ite_true, h]

/-- `static_cast<input>(from_rep<result>(1))`: the destination unit `2^k` expressed in the source
type — reduced modulo `2^bits` of the source representation -/
theorem unit_eval (S D : IntTy) (eS eD : Int) (h : eS < eD) (hk : (eD - eS).toNat < (promote D).digits) :
    Scaled.convert intOps 2 ⟨(.int D, 1), eD⟩ (.int S) eS
      = .ok ⟨(.int S, S.wrap (2^(eD - eS).toNat)), eS⟩ := by
  have hne : eD ≠ eS := by omega
  have hge : eD - eS ≥ 0 := by omega
  have hk0 : 0 < (eD - eS).toNat := by omega
  have hb := promote_bits_pos D
  have h32 := promote_bits_ge32 D
  have hr := two_pow_inRange hk
  have h1 : (promote D).InRange 1 := by
    have := lo_hi (promote D) h32
    constructor <;> omega
  simp only [Scaled.convert, hne, ite_false, intOps, liftTV, scaleInt, hge, ite_true,
    powerValueInt_two D hk0 hk, Res.bind_ok, cBin, usualArith_self_promote,
    IntTy.wrap_id hb h1, IntTy.wrap_id hb hr, Int.one_mul, arith_ok hb hr, Res.map, convert]
  rfl

theorem promote_two_inRange (S : IntTy) : (promote S).InRange 2 := by
  have := lo_hi (promote S) (promote_bits_ge32 S)
  constructor <;> omega

theorem digits_lt_promote {S : IntTy} (hS : 1 ≤ S.bits) {k : Nat} (h : k < S.digits) : k < (promote S).digits :=
  Nat.lt_of_lt_of_le h (promote_digits_le hS)

theorem two_pow_tdiv_two {k : Nat} (hk : 0 < k) : ((2:Int)^k).tdiv 2 = 2^(k-1) := by
  rw [two_pow_pred hk, Int.mul_tdiv_cancel_left _ (by decide)]

/-- `half() = static_cast<input>(from_rep<result>(1)) / 2` when the unit fits the source type -/
theorem half_eval (S : IntTy) (hS : 1 ≤ S.bits) {k : Nat} (hk : 0 < k) (hkS : k < S.digits) :
    intOps.bin .div (.int S, S.wrap (2^k)) (.int i32, 2) = .ok (.int (promote S), 2^(k-1)) := by
  have hb := promote_bits_pos S
  rw [IntTy.wrap_id hS (two_pow_inRange hkS)]
  have hr := two_pow_inRange (digits_lt_promote hS hkS)
  have hr' : (promote S).InRange (2^(k-1)) := two_pow_inRange (by have := digits_lt_promote hS hkS; omega)
  have := ev_div (usualArith_i32 S) hb hr (promote_two_inRange S) (by decide) (by omega)
    (by rw [two_pow_tdiv_two hk]; exact hr')
  rw [this, two_pow_tdiv_two hk]

/-- `from + half()` in the promoted source type, when the sum is representable there -/
theorem bias_add_eval (S : IntTy) (hS : 1 ≤ S.bits) {v h : Int} (hv : S.InRange v)
    (hh : (promote S).InRange h) (hsum : (promote S).InRange (v + h)) :
    intOps.bin .add (.int S, v) (.int (promote S), h) = .ok (.int (promote S), v + h) := by
  have hb := promote_bits_pos S
  have hv' := promote_inRange hS hv
  exact ev_add (usualArith_self_promote S) hb hv'.1 hv'.2 hh.1 hh.2 hsum.1 hsum.2

theorem digits_le_bits (T : IntTy) : T.digits ≤ T.bits := by
  unfold IntTy.digits; split <;> omega

/-- tie_to_pos_inf, scaled → coarser scaled -/
theorem tpi_eval (S D : IntTy) (eS eD : Int) (v : Int) (hS : 1 ≤ S.bits) (h : eS < eD)
    (hkD : (eD - eS).toNat < (promote D).digits) (hkS : (eD - eS).toNat < S.digits)
    (hv : S.InRange v) (hsum : (promote S).InRange (v + 2^((eD - eS).toNat - 1))) :
    scaledToScaled .tpi S eS D eD v
      = .ok (D, D.wrap ((v + 2^((eD - eS).toNat - 1)) / 2^(eD - eS).toNat)) := by
  have hk0 : 0 < (eD - eS).toNat := by omega
  have hle : ¬ eD ≤ eS := by omega
  have hkP := digits_lt_promote hS hkS
  have hr' : (promote S).InRange (2^((eD - eS).toNat - 1)) := two_pow_inRange (by omega)
  have hsh : ¬ (((eD - eS).toNat : Int) < 0 ∨ ((eD - eS).toNat : Int) ≥ (promote (promote S)).bits) := by
    rw [promote_promote]
    have := digits_le_bits (promote S)
    omega
  simp only [scaledToScaled, hle, ite_false, unit_eval S D eS eD h hkD, Res.bind_ok,
    half_eval S hS hk0 hkS, bias_add_eval S hS hv hr' hsum, cBin, hsh, Int.toNat_natCast, Res.pure_eq]

/-- neg_inf, scaled → coarser scaled: one arithmetic right shift of the representation -/
theorem ninf_eval (S D : IntTy) (eS eD : Int) (v : Int) (h : eS < eD)
    (hk : (eD - eS).toNat < (promote S).bits) :
    scaledToScaled .ninf S eS D eD v = .ok (promote S, v / 2^(eD - eS).toNat) := by
  have hle : ¬ eD ≤ eS := by omega
  have hsh : ¬ (((eD - eS).toNat : Int) < 0 ∨ ((eD - eS).toNat : Int) ≥ (promote S).bits) := by omega
  simp only [scaledToScaled, hle, ite_false, cBin, hsh, Int.toNat_natCast, Res.bind_ok, Res.pure_eq]

/-! ## the comparison `from >= 0` of the nearest conversion -/

/-- the instantiation of `from >= 0` (a scaled integer against the `int` zero, exponent 0) is
well-formed and free of overflow: the operand with the larger exponent is shifted to the smaller -/
def CmpZeroOk (S : IntTy) (eS : Int) (v : Int) : Prop :=
  if eS = 0 then True
  else if eS < 0 then (-eS).toNat < 31
  else eS.toNat < (promote S).digits ∧ ((promote S).signed = true → (promote S).InRange (v * 2^eS.toNat))

instance (S : IntTy) (eS : Int) (v : Int) : Decidable (CmpZeroOk S eS v) := by
  unfold CmpZeroOk; exact inferInstance

theorem zero_inRange (T : IntTy) : T.InRange 0 := zero_le_max T

theorem cmp_zero_same (S : IntTy) (hS : 1 ≤ S.bits) {v : Int} (hv : S.InRange v) :
    intOps.cmp .ge (.int S, v) (.int i32, 0) = .ok (decide (v ≥ 0)) := by
  have hv' := promote_inRange hS hv
  have hz := zero_inRange (promote S)
  exact ev_cmp (usualArith_i32 S) (promote_bits_pos S) .ge hv'.1 hv'.2 hz.1 hz.2

/-- scaling the constant zero is well-formed for shifts below the digits of the type -/
theorem scale_zero (T : IntTy) (hp : promote T = T) (hb : 1 ≤ T.bits) {j : Int} (hj : 0 < j)
    (hk : j.toNat < T.digits) : scaleInt j 2 (T, 0) = .ok (T, 0) := by
  have hge : j ≥ 0 := by omega
  have hk0 : 0 < j.toNat := by omega
  have hk' : j.toNat < (promote T).digits := by rw [hp]; exact hk
  have h := powerValueInt_two T hk0 hk'
  rw [hp] at h
  have hu : usualArith T T = T := by rw [usualArith_self, hp]
  simp only [scaleInt, hge, ite_true, h, Res.bind_ok, cBin, hu, IntTy.wrap_id hb (zero_inRange T),
    Int.zero_mul, arith_ok hb (zero_inRange T)]

theorem cmp_zero_neg (S : IntTy) (hS : 1 ≤ S.bits) {eS v : Int} (hv : S.InRange v) (he : eS < 0)
    (hok : (-eS).toNat < 31) :
    Scaled.cmp intOps .ge 2 ⟨(.int S, v), eS⟩ ⟨(.int i32, 0), 0⟩ = .ok (decide (v ≥ 0)) := by
  have hne : ¬ eS = 0 := by omega
  have hne' : ¬ (0:Int) = eS := by omega
  have hpi : promote i32 = i32 := by decide
  have hb : 1 ≤ i32.bits := by decide
  have hd : i32.digits = 31 := by decide
  have hsc := scale_zero i32 hpi hb (j := 0 - eS) (by omega) (by rw [hd]; omega)
  have hw : i32.wrap 0 = 0 := IntTy.wrap_id hb (zero_inRange i32)
  simp only [Scaled.cmp, hne, he, ite_false, ite_true, Scaled.convert, hne', intOps, liftTV, hsc,
    Res.bind_ok, Res.pure_eq, hpi, Res.map, convert, hw]
  exact cmp_zero_same S hS hv

theorem cmp_zero_pos (S : IntTy) (hS : 1 ≤ S.bits) {eS v : Int} (hv : S.InRange v) (he : 0 < eS)
    (hk : eS.toNat < (promote S).digits)
    (hfit : (promote S).signed = true → (promote S).InRange (v * 2^eS.toNat)) :
    Scaled.cmp intOps .ge 2 ⟨(.int S, v), eS⟩ ⟨(.int i32, 0), 0⟩ = .ok (decide (v ≥ 0)) := by
  have hne : ¬ eS = 0 := by omega
  have hlt : ¬ eS < 0 := by omega
  have hb := promote_bits_pos S
  have hw : PowOk S (eS - 0).toNat 2 := by right; simpa using hk
  have e0 : (eS - 0).toNat = eS.toNat := by simp
  have hsc := scaleInt_up_eq S hS (eS - 0) (by omega) 2 (by decide) hw v hv
  rw [e0, pw_two, IntTy.wrap_id hb (two_pow_inRange hk)] at hsc
  have hpp := two_pow_pos eS.toNat
  by_cases hs : (promote S).signed = true
  · rw [arith_ok hb (hfit hs)] at hsc
    have hr := hfit hs
    have hz := zero_inRange (promote S)
    have hc := ev_cmp (A := promote S) (B := i32) (usualArith_i32 (promote S)) (by rw [promote_promote]; exact hb) .ge
      (by rw [promote_promote]; exact hr.1) (by rw [promote_promote]; exact hr.2)
      (by rw [promote_promote]; exact hz.1) (by rw [promote_promote]; exact hz.2)
    have hd : decide (v * 2^eS.toNat ≥ 0) = decide (v ≥ 0) := by
      apply decide_eq_decide.2
      constructor
      · intro h1
        apply Decidable.byContradiction; intro h2
        have := Int.mul_lt_mul_of_pos_right (show v < 0 by omega) hpp
        omega
      · intro h1; exact Int.mul_nonneg h1 (Int.le_of_lt hpp)
    simp only [Scaled.cmp, hne, hlt, ite_false, Scaled.convert, intOps, liftTV, hsc, Res.bind_ok, Res.pure_eq, Res.map,
      convert, IntTy.wrap_id hb hr] at hc ⊢
    rw [hc]; simp only [cmpInt, hd]
  · have hs' : (promote S).signed = false := by simpa using hs
    rw [arith_unsigned hs'] at hsc
    have ⟨hSu, hPS⟩ := promote_unsigned hs'
    have hv0 : 0 ≤ v := by
      have := hv.1; rw [IntTy.lowest_eq] at this; simpa [hSu] using this
    have hr := wrap_inRange (promote S) hb (v * 2^eS.toNat)
    have hr0 : 0 ≤ (promote S).wrap (v * 2^eS.toNat) := by
      have := hr.1; rw [IntTy.lowest_eq] at this; simpa [hs'] using this
    have hz := zero_inRange (promote S)
    have hc := ev_cmp (A := promote S) (B := i32) (usualArith_i32 (promote S)) (by rw [promote_promote]; exact hb) .ge
      (by rw [promote_promote]; exact hr.1) (by rw [promote_promote]; exact hr.2)
      (by rw [promote_promote]; exact hz.1) (by rw [promote_promote]; exact hz.2)
    simp only [Scaled.cmp, hne, hlt, ite_false, Scaled.convert, intOps, liftTV, hsc, Res.bind_ok, Res.pure_eq, Res.map,
      convert, wrap_wrap] at hc ⊢
    rw [hc]; simp only [cmpInt, ge_iff_le, hr0, hv0]

/-- `from >= 0` evaluates to the sign test of the representation -/
theorem cmp_zero_eval (S : IntTy) (hS : 1 ≤ S.bits) {eS v : Int} (hv : S.InRange v) (hok : CmpZeroOk S eS v) :
    Scaled.cmp intOps .ge 2 ⟨(.int S, v), eS⟩ ⟨(.int i32, 0), 0⟩ = .ok (decide (v ≥ 0)) := by
  unfold CmpZeroOk at hok
  by_cases h0 : eS = 0
  · subst h0
    simp only [Scaled.cmp, ite_true]
    exact cmp_zero_same S hS hv
  · simp only [h0, ite_false] at hok
    by_cases hn : eS < 0
    · simp only [hn, ite_true] at hok
      exact cmp_zero_neg S hS hv hn hok
    · simp only [hn, ite_false] at hok
      exact cmp_zero_pos S hS hv (by omega) hok.1 hok.2

/-! ## nearest, scaled → coarser scaled -/

/-- the truncating `static_cast<result>(from ± half)`: `scale<-k>` divides by `2^k` toward zero -/
theorem down_eval (P D : IntTy) (hp : promote P = P) (hb : 1 ≤ P.bits) (eS eD : Int) (h : eS < eD)
    (hk : (eD - eS).toNat < P.digits) {s : Int} (hs : P.InRange s) :
    Scaled.convert intOps 2 ⟨(.int P, s), eS⟩ (.int D) eD
      = .ok ⟨(.int D, D.wrap (s.tdiv (2^(eD - eS).toNat))), eD⟩ := by
  have hne : ¬ eS = eD := by omega
  have hw : PowFits P (-(eS - eD)).toNat 2 := by
    unfold PowFits; rw [hp, pw_two]
    have : (-(eS - eD)).toNat = (eD - eS).toNat := by congr 1; omega
    rw [this]; exact two_pow_inRange hk
  have hsc := scaleInt_down P hb (eS - eD) (by omega) 2 (by decide) hw s hs
  have e : (-(eS - eD)).toNat = (eD - eS).toNat := by congr 1; omega
  rw [hp, pw_two, e] at hsc
  simp only [Scaled.convert, hne, ite_false, intOps, liftTV, hsc, Res.bind_ok, Res.pure_eq, Res.map, convert]

/-- nearest, scaled → coarser scaled -/
theorem nrst_eval (S D : IntTy) (eS eD : Int) (v : Int) (hS : 1 ≤ S.bits) (h : eS < eD)
    (hkD : (eD - eS).toNat < (promote D).digits) (hkS : (eD - eS).toNat < S.digits)
    (hv : S.InRange v) (hcmp : CmpZeroOk S eS v)
    (hsum : (promote S).InRange (if 0 ≤ v then v + 2^((eD - eS).toNat - 1) else v - 2^((eD - eS).toNat - 1))) :
    scaledToScaled .nrst S eS D eD v
      = .ok (D, D.wrap ((if 0 ≤ v then v + 2^((eD - eS).toNat - 1) else v - 2^((eD - eS).toNat - 1)).tdiv
                  (2^(eD - eS).toNat))) := by
  have hk0 : 0 < (eD - eS).toNat := by omega
  have hle : ¬ eD ≤ eS := by omega
  have hkP := digits_lt_promote hS hkS
  have hb := promote_bits_pos S
  have hpp := promote_promote S
  have hr' : (promote S).InRange (2^((eD - eS).toNat - 1)) := two_pow_inRange (by omega)
  have hp := two_pow_pos ((eD - eS).toNat - 1)
  by_cases h0 : 0 ≤ v
  · have hd : decide (v ≥ 0) = true := by simpa using h0
    simp only [h0, ite_true] at hsum ⊢
    simp only [scaledToScaled, hle, ite_false, unit_eval S D eS eD h hkD, Res.bind_ok,
      half_eval S hS hk0 hkS, cmp_zero_eval S hS hv hcmp, hd, ite_true, Res.pure_eq,
      bias_add_eval S hS hv hr' hsum, down_eval (promote S) D hpp hb eS eD h hkP hsum]
  · have hd : decide (v ≥ 0) = false := by simpa using h0
    simp only [h0, ite_false] at hsum ⊢
    -- only a signed source can be negative
    have hsg : (promote S).signed = true := by
      apply Decidable.byContradiction; intro hn
      have hn' : (promote S).signed = false := by simpa using hn
      have ⟨hSu, _⟩ := promote_unsigned hn'
      have := hv.1; rw [IntTy.lowest_eq] at this; simp [hSu] at this; omega
    have hlo : (promote S).lowest ≤ -(2:Int)^((eD - eS).toNat - 1) := by
      have := (lo_hi (promote S) (promote_bits_ge32 S)).1
      have hl : (promote S).lowest < 0 := by rw [IntTy.lowest_eq]; simp [hsg]; exact two_pow_pos _
      have := hr'.2
      omega
    have hmax : -(2:Int)^((eD - eS).toNat - 1) ≤ (promote S).max := by have := hr'.2; omega
    have hneg := ev_neg hpp hb hr'.1 hr'.2 hlo hmax
    have hsum' : (promote S).InRange (v + -(2:Int)^((eD - eS).toNat - 1)) := by
      rw [← Int.sub_eq_add_neg]; exact hsum
    have hadd := bias_add_eval S hS hv ⟨hlo, hmax⟩ hsum'
    rw [← Int.sub_eq_add_neg] at hadd
    simp only [scaledToScaled, hle, ite_false, unit_eval S D eS eD h hkD, Res.bind_ok,
      half_eval S hS hk0 hkS, cmp_zero_eval S hS hv hcmp, hd, Bool.false_eq_true, Res.pure_eq,
      hneg, hadd, down_eval (promote S) D hpp hb eS eD h hkP hsum]

/-! ## conversions that lose no digits -/

/-- the native conversion, as `scaledToScaled` returns it -/
def plain (S : IntTy) (eS : Int) (D : IntTy) (eD : Int) (v : Int) : Res TV :=
  (Scaled.convert intOps 2 ⟨(.int S, v), eS⟩ (.int D) eD).map (fun r => (D, r.rep.2))

theorem nat_eq_plain (S D : IntTy) (eS eD : Int) (v : Int) :
    scaledToScaled .nat S eS D eD v = plain S eS D eD v := by
  simp only [scaledToScaled, plain]; split <;> rfl

/-- when `eD ≤ eS` every rounding mode is the native conversion -/
theorem noloss_eq_plain (mode : RdMode) (S D : IntTy) (eS eD : Int) (v : Int) (h : eD ≤ eS) :
    scaledToScaled mode S eS D eD v = plain S eS D eD v := by
  simp only [scaledToScaled, plain, h, ite_true]

/-- the native widening conversion multiplies by `2^(eS - eD)` in the promoted source type -/
theorem plain_up_eval (S D : IntTy) (eS eD : Int) (v : Int) (hS : 1 ≤ S.bits) (h : eD ≤ eS)
    (hw : eS = eD ∨ (eS - eD).toNat < (promote S).digits) (hv : S.InRange v)
    (hfit : (promote S).InRange (v * 2^(eS - eD).toNat)) :
    plain S eS D eD v = .ok (D, D.wrap (v * 2^(eS - eD).toNat)) := by
  by_cases he : eS = eD
  · subst he
    simp only [plain, Scaled.convert, ite_true, intOps, Res.bind_ok, Res.pure_eq, Res.map, convert,
      Int.sub_self, Int.toNat_zero, Int.pow_zero, Int.mul_one]
  · have hk : (eS - eD).toNat < (promote S).digits := by rcases hw with hw | hw; exact absurd hw he; exact hw
    have hpw : PowOk S (eS - eD).toNat 2 := by right; simpa using hk
    have hsc := scaleInt_up S hS (eS - eD) (by omega) 2 (by decide) hpw v hv (by rw [pw_two]; exact hfit)
    rw [pw_two] at hsc
    simp only [plain, Scaled.convert, he, ite_false, intOps, liftTV, hsc, Res.bind_ok, Res.pure_eq, Res.map, convert]

/-- the native narrowing conversion divides by `2^k` toward zero -/
theorem nat_down_eval (S D : IntTy) (eS eD : Int) (v : Int) (hS : 1 ≤ S.bits) (h : eS < eD)
    (hk : (eD - eS).toNat < (promote S).digits) (hv : S.InRange v) :
    scaledToScaled .nat S eS D eD v = .ok (D, D.wrap (v.tdiv (2^(eD - eS).toNat))) := by
  have hne : ¬ eS = eD := by omega
  have e : (-(eS - eD)).toNat = (eD - eS).toNat := by congr 1; omega
  have hw : PowFits S (-(eS - eD)).toNat 2 := by
    unfold PowFits; rw [pw_two, e]; exact two_pow_inRange hk
  have hsc := scaleInt_down S hS (eS - eD) (by omega) 2 (by decide) hw v hv
  rw [pw_two, e] at hsc
  rw [nat_eq_plain]
  simp only [plain, Scaled.convert, hne, ite_false, intOps, liftTV, hsc, Res.bind_ok, Res.pure_eq, Res.map, convert]

end Cnl.RoundCvtP

/-!
# Floating-point sources

Facts about `CnlModel.CFloat` used by C09: values whose significand fits the precision round to
themselves (`roundND_exact`, `ofDyadic_exact`), integer-valued numbers (`IntRep`) add exactly, and
the home-made `floor` of the rounding conversions (`floorEmul`) is the floor whenever `|⌊x⌋| < 2^prec`.
-/
namespace Cnl.FloatP
open Cnl Cnl.Spec

/-- signed significand -/
def sval (s : Bool) (m : Nat) : Int := if s then -(m : Int) else m

theorem roundHalfEven_exact (q d : Nat) (hd : 0 < d) : roundHalfEven (q * d) d = q := by
  have h1 : q * d / d = q := Nat.mul_div_cancel q hd
  have h2 : q * d % d = 0 := Nat.mul_mod_left ..
  simp only [roundHalfEven, h1, h2, Nat.mul_zero, hd, ite_true]

theorem log2_mul_two_pow {N : Nat} (hN : N ≠ 0) (t : Nat) : (N * 2^t).log2 = N.log2 + t := by
  have hp : 0 < 2^t := Nat.two_pow_pos t
  have hne : N * 2^t ≠ 0 := by
    intro h; rcases Nat.mul_eq_zero.1 h with h | h <;> omega
  rw [Nat.log2_eq_iff hne]
  have h1 := Nat.log2_self_le hN
  have h2 := Nat.lt_log2_self (n := N)
  constructor
  · rw [Nat.pow_add]; exact Nat.mul_le_mul_right _ h1
  · rw [show N.log2 + t + 1 = (N.log2 + 1) + t by omega, Nat.pow_add]
    exact Nat.mul_lt_mul_of_pos_right h2 hp

theorem ilog2Q_pow2 {n : Nat} (hn : n ≠ 0) (b : Nat) : ilog2Q n (2^b) = (n.log2 : Int) - b := by
  have h1 := Nat.log2_self_le hn
  unfold ilog2Q
  simp only [Nat.log2_two_pow]
  have hok : (if 0 ≤ (n.log2 : Int) - b then decide (2^b * 2^((n.log2 : Int) - b).toNat ≤ n)
      else decide (2^b ≤ n * 2^(-((n.log2 : Int) - b)).toNat)) = true := by
    split
    · rename_i h
      have e : ((n.log2 : Int) - b).toNat = n.log2 - b := by omega
      rw [e, ← Nat.pow_add, show b + (n.log2 - b) = n.log2 by omega]
      simpa using h1
    · rename_i h
      have e : (-((n.log2 : Int) - b)).toNat = b - n.log2 := by omega
      rw [e]
      have : 2^b = 2^n.log2 * 2^(b - n.log2) := by rw [← Nat.pow_add]; congr 1; omega
      rw [this]
      simpa using Nat.mul_le_mul_right _ h1
  simp only [hok, ite_true]


theorem log2_lt_prec {N p : Nat} (hN : N ≠ 0) (hlt : N < 2^p) : N.log2 < p := (Nat.log2_lt hN).2 hlt

/-- a value `N · 2^(t-b)` whose significand `N` fits the precision and whose binade is in the normal
range rounds to itself (in canonical form) -/
theorem roundND_exact (f : Fmt) (neg : Bool) {N : Nat} (hN : N ≠ 0) (hlt : N < 2^f.prec) (t b : Nat)
    (hmin : f.emin ≤ (N.log2 : Int) + t - b) (hmax : (N.log2 : Int) + t - b ≤ f.emax) :
    f.roundND neg (N * 2^t) (2^b)
      = .fin neg (N * 2^(f.prec - 1 - N.log2)) ((N.log2 : Int) + t - b - ((f.prec : Int) - 1)) := by
  have hL := log2_lt_prec hN hlt
  have hne : N * 2^t ≠ 0 := by
    have := Nat.two_pow_pos t
    intro h; rcases Nat.mul_eq_zero.1 h with h | h <;> omega
  have hlog : ilog2Q (N * 2^t) (2^b) = (N.log2 : Int) + t - b := by
    rw [ilog2Q_pow2 hne, log2_mul_two_pow hN]; omega
  have hnotlt : ¬ ((N.log2 : Int) + t - b < f.emin) := by omega
  -- the rounded significand
  have hm : (if 0 ≤ (N.log2 : Int) + t - b - ((f.prec : Int) - 1)
        then roundHalfEven (N * 2^t) (2^b * 2^((N.log2 : Int) + t - b - ((f.prec : Int) - 1)).toNat)
        else roundHalfEven (N * 2^t * 2^(-((N.log2 : Int) + t - b - ((f.prec : Int) - 1))).toNat) (2^b))
      = N * 2^(f.prec - 1 - N.log2) := by
    split
    · rename_i h
      have e : N * 2^t = (N * 2^(f.prec - 1 - N.log2)) * (2^b * 2^((N.log2 : Int) + t - b - ((f.prec : Int) - 1)).toNat) := by
        rw [Nat.mul_assoc, ← Nat.pow_add, ← Nat.pow_add]; congr 2; omega
      rw [e]
      exact roundHalfEven_exact _ _ (Nat.mul_pos (Nat.two_pow_pos _) (Nat.two_pow_pos _))
    · rename_i h
      have e : N * 2^t * 2^(-((N.log2 : Int) + t - b - ((f.prec : Int) - 1))).toNat = (N * 2^(f.prec - 1 - N.log2)) * 2^b := by
        rw [Nat.mul_assoc, Nat.mul_assoc, ← Nat.pow_add, ← Nat.pow_add]; congr 2; omega
      rw [e]
      exact roundHalfEven_exact _ _ (Nat.two_pow_pos _)
  have hmlt : N * 2^(f.prec - 1 - N.log2) ≠ 2^f.prec := by
    have h2 := Nat.lt_log2_self (n := N)
    have : N * 2^(f.prec - 1 - N.log2) < 2^(N.log2 + 1) * 2^(f.prec - 1 - N.log2) :=
      Nat.mul_lt_mul_of_pos_right h2 (Nat.two_pow_pos _)
    rw [← Nat.pow_add, show N.log2 + 1 + (f.prec - 1 - N.log2) = f.prec by omega] at this
    omega
  have hnotmax : ¬ (f.emax < (N.log2 : Int) + t - b - ((f.prec : Int) - 1) + ((f.prec : Int) - 1)) := by omega
  simp only [Fmt.roundND, hne, ite_false, hlog, hnotlt, hm, hmlt, hnotmax]


/-- the format has at least two significand bits and holds the integers below `2^prec` as normal numbers -/
def FmtOk (f : Fmt) : Prop := 2 ≤ f.prec ∧ f.emin ≤ 0 ∧ (f.prec : Int) - 1 ≤ f.emax

instance (f : Fmt) : Decidable (FmtOk f) := by unfold FmtOk; exact inferInstance

theorem fmtOk_binary32 : FmtOk binary32 := by decide
theorem fmtOk_binary64 : FmtOk binary64 := by decide
theorem fmtOk_x87ext : FmtOk x87ext := by decide

theorem ofDyadic_exact (f : Fmt) (neg : Bool) {N : Nat} (hN : N ≠ 0) (hlt : N < 2^f.prec) (e : Int)
    (hmin : f.emin ≤ (N.log2 : Int) + e) (hmax : (N.log2 : Int) + e ≤ f.emax) :
    f.ofDyadic neg N e = .fin neg (N * 2^(f.prec - 1 - N.log2)) ((N.log2 : Int) + e - ((f.prec : Int) - 1)) := by
  unfold Fmt.ofDyadic
  split
  · rename_i h
    have := roundND_exact f neg hN hlt e.toNat 0 (by omega) (by omega)
    rw [Nat.pow_zero] at this
    rw [this]; congr 1; omega
  · rename_i h
    have := roundND_exact f neg hN hlt 0 (-e).toNat (by omega) (by omega)
    rw [Nat.pow_zero, Nat.mul_one] at this
    rw [this]; congr 1; omega

/-- `x` is a finite value equal to the integer `a`, with a non-positive quantum exponent -/
def IntRep (x : FVal) (a : Int) : Prop :=
  ∃ s M E, x = .fin s M E ∧ E ≤ 0 ∧ sval s M = a * 2^(-E).toNat

theorem sval_mul (s : Bool) (m k : Nat) : sval s (m * k) = sval s m * (k : Int) := by
  unfold sval; split
  · rw [Int.natCast_mul, Int.neg_mul]
  · rw [Int.natCast_mul]

theorem natCast_two_pow (k : Nat) : ((2^k : Nat) : Int) = 2^k := by
  rw [Int.natCast_pow]; rfl

/-- rounding the integer `±N` (written over any power-of-two denominator) is exact -/
theorem roundND_intRep (f : Fmt) (hf : FmtOk f) (neg : Bool) {N : Nat} (hN : N ≠ 0) (hlt : N < 2^f.prec) (j : Nat) :
    IntRep (f.roundND neg (N * 2^j) (2^j)) (sval neg N) := by
  obtain ⟨h1, h2, h3⟩ := hf
  have hL := log2_lt_prec hN hlt
  rw [roundND_exact f neg hN hlt j j (by omega) (by omega)]
  refine ⟨neg, _, _, rfl, by omega, ?_⟩
  rw [sval_mul, natCast_two_pow]
  congr 2; omega

theorem ofInt_intRep (f : Fmt) (hf : FmtOk f) (a : Int) (ha : a.natAbs < 2^f.prec) : IntRep (f.ofInt a) a := by
  by_cases h0 : a = 0
  · subst h0
    refine ⟨false, 0, f.qmin, by simp [Fmt.ofInt, Fmt.roundND], ?_, by simp [sval]⟩
    obtain ⟨h1, h2, h3⟩ := hf
    unfold Fmt.qmin; omega
  · have hN : a.natAbs ≠ 0 := by omega
    have := roundND_intRep f hf (decide (a < 0)) hN ha 0
    rw [Nat.pow_zero, Nat.mul_one] at this
    unfold Fmt.ofInt
    have e : sval (decide (a < 0)) a.natAbs = a := by
      unfold sval; by_cases h : a < 0 <;> simp [h] <;> omega
    rw [e] at this; exact this

theorem neg_intRep {x : FVal} {a : Int} (h : IntRep x a) : IntRep x.neg (-a) := by
  obtain ⟨s, M, E, rfl, hE, hv⟩ := h
  refine ⟨!s, M, E, rfl, hE, ?_⟩
  rw [Int.neg_mul, ← hv]
  unfold sval; cases s <;> simp

theorem truncInt_intRep {s : Bool} {M : Nat} {E : Int} {a : Int} (hE : E ≤ 0)
    (hv : sval s M = a * 2^(-E).toNat) : truncInt s M E = a := by
  unfold truncInt
  by_cases h0 : 0 ≤ E
  · have : E = 0 := by omega
    subst this
    simp [sval] at hv ⊢
    exact hv
  · simp only [h0, ite_false]
    have hp := two_pow_pos (-E).toNat
    -- M = |a| * 2^j
    have hM : (M : Int) = (a.natAbs : Int) * 2^(-E).toNat := by
      unfold sval at hv
      by_cases ha : 0 ≤ a
      · have : 0 ≤ a * 2^(-E).toNat := Int.mul_nonneg ha (Int.le_of_lt hp)
        have hn : (a.natAbs : Int) = a := by omega
        rw [hn]
        cases s <;> simp at hv <;> omega
      · have : a * 2^(-E).toNat < 0 := Int.mul_neg_of_neg_of_pos (by omega) hp
        have hn : (a.natAbs : Int) = -a := by omega
        rw [hn, Int.neg_mul]
        cases s <;> simp at hv <;> omega
    have hM' : M = a.natAbs * 2^(-E).toNat := by
      have : ((a.natAbs * 2^(-E).toNat : Nat) : Int) = (a.natAbs : Int) * 2^(-E).toNat := by
        rw [Int.natCast_mul, natCast_two_pow]
      omega
    rw [hM', Nat.mul_div_cancel _ (Nat.two_pow_pos _)]
    -- sign
    unfold sval at hv
    cases s <;> simp at hv ⊢
    · -- non-negative
      have : 0 ≤ a := by
        apply Decidable.byContradiction; intro hn
        have : a * 2^(-E).toNat < 0 := Int.mul_neg_of_neg_of_pos (by omega) hp
        omega
      omega
    · have : a ≤ 0 := by
        apply Decidable.byContradiction; intro hn
        have : 0 < a * 2^(-E).toNat := Int.mul_pos (by omega) hp
        omega
      omega


theorem scaled_eq (s : Bool) (m : Nat) (e q : Int) : FVal.scaled s m e q = sval s m * 2^(e - q).toNat := by
  unfold FVal.scaled sval
  simp only [Int.natCast_mul, natCast_two_pow]
  split <;> simp [Int.neg_mul]

theorem scaled_intRep {s : Bool} {M : Nat} {E : Int} {a : Int} (hE : E ≤ 0)
    (hv : sval s M = a * 2^(-E).toNat) {q : Int} (hq : q ≤ E) :
    FVal.scaled s M E q = a * 2^(-q).toNat := by
  rw [scaled_eq, hv, Int.mul_assoc, ← Int.pow_add]; congr 2; omega

theorem sval_sign_natAbs (a : Int) : sval (decide (a < 0)) a.natAbs = a := by
  unfold sval; by_cases h : a < 0 <;> simp [h] <;> omega

theorem qmin_le_zero {f : Fmt} (hf : FmtOk f) : f.qmin ≤ 0 := by
  obtain ⟨h1, h2, h3⟩ := hf; unfold Fmt.qmin; omega

/-- the sum of two integer-valued numbers is exact when it is below `2^prec` in magnitude -/
theorem add_intRep (f : Fmt) (hf : FmtOk f) {x y : FVal} {a b : Int} (hx : IntRep x a) (hy : IntRep y b)
    (hab : (a + b).natAbs < 2^f.prec) : IntRep (f.add x y) (a + b) := by
  obtain ⟨s1, M1, E1, rfl, hE1, hv1⟩ := hx
  obtain ⟨s2, M2, E2, rfl, hE2, hv2⟩ := hy
  have hq1 : (if E1 ≤ E2 then E1 else E2) ≤ E1 := by split <;> omega
  have hq2 : (if E1 ≤ E2 then E1 else E2) ≤ E2 := by split <;> omega
  simp only [Fmt.add]
  generalize (if E1 ≤ E2 then E1 else E2) = q at hq1 hq2 ⊢
  rw [scaled_intRep hE1 hv1 hq1, scaled_intRep hE2 hv2 hq2, ← Int.add_mul]
  have hp := two_pow_pos (-q).toNat
  by_cases h0 : a + b = 0
  · rw [h0, Int.zero_mul]
    simp only [ite_true]
    exact ⟨_, 0, f.qmin, rfl, qmin_le_zero hf, by simp [sval]⟩
  · have hc0 : (a + b) * 2^(-q).toNat ≠ 0 := by
      intro h; rcases Int.mul_eq_zero.1 h with h | h <;> omega
    simp only [hc0, ite_false]
    have hN : (a + b).natAbs ≠ 0 := by omega
    have hneg : decide ((a + b) * 2^(-q).toNat < 0) = decide (a + b < 0) := by
      apply decide_eq_decide.2
      constructor
      · intro h
        apply Decidable.byContradiction; intro hn
        have := Int.mul_nonneg (show 0 ≤ a + b by omega) (Int.le_of_lt hp)
        omega
      · intro h; exact Int.mul_neg_of_neg_of_pos h hp
    have habs : ((a + b) * 2^(-q).toNat).natAbs = (a + b).natAbs * 2^(-q).toNat := by
      rw [Int.natAbs_mul, Int.natAbs_pow]; rfl
    rw [hneg, habs]
    have key := roundND_intRep f hf (decide (a + b < 0)) hN hab (-q).toNat
    rw [sval_sign_natAbs] at key
    unfold Fmt.ofDyadic
    by_cases hq0 : 0 ≤ q
    · have : q = 0 := by omega
      subst this
      simp only [Int.le_refl, ite_true, Int.neg_zero, Int.toNat_zero, Nat.pow_zero, Nat.mul_one] at key ⊢
      exact key
    · simp only [hq0, ite_false]
      exact key


/-! ## comparisons -/

theorem fCmp_lt_fin (s1 : Bool) (m1 : Nat) (e1 : Int) (s2 : Bool) (m2 : Nat) (e2 : Int) :
    fCmp .lt (.fin s1 m1 e1) (.fin s2 m2 e2)
      = decide (FVal.scaled s1 m1 e1 (if e1 ≤ e2 then e1 else e2) < FVal.scaled s2 m2 e2 (if e1 ≤ e2 then e1 else e2)) := by
  simp only [fCmp, FVal.cmp?]
  generalize FVal.scaled s1 m1 e1 _ = a
  generalize FVal.scaled s2 m2 e2 _ = b
  by_cases h : a < b
  · simp [h]
  · by_cases h' : a = b <;> simp [h, h']

theorem fCmp_ge_fin (s1 : Bool) (m1 : Nat) (e1 : Int) (s2 : Bool) (m2 : Nat) (e2 : Int) :
    fCmp .ge (.fin s1 m1 e1) (.fin s2 m2 e2)
      = decide (FVal.scaled s1 m1 e1 (if e1 ≤ e2 then e1 else e2) ≥ FVal.scaled s2 m2 e2 (if e1 ≤ e2 then e1 else e2)) := by
  simp only [fCmp, FVal.cmp?]
  generalize FVal.scaled s1 m1 e1 _ = a
  generalize FVal.scaled s2 m2 e2 _ = b
  by_cases h : a < b
  · have h2 : ¬ b ≤ a := by omega
    simp [h, h2]
  · have h2 : b ≤ a := by omega
    by_cases h' : a = b
    · subst h'; simp
    · simp [h, h', h2]

theorem mul_two_pow_lt_iff (a b : Int) (k : Nat) : a * 2^k < b * 2^k ↔ a < b := by
  have hp := two_pow_pos k
  constructor
  · intro h; exact Int.lt_of_mul_lt_mul_right h (Int.le_of_lt hp)
  · intro h; exact Int.mul_lt_mul_of_pos_right h hp

/-- `x < 0` -/
theorem fCmp_lt_zero (f : Fmt) (s : Bool) (m : Nat) (e : Int) :
    fCmp .lt (.fin s m e) (f.ofInt 0) = decide (sval s m < 0) := by
  have h0 : f.ofInt 0 = .fin false 0 f.qmin := by simp [Fmt.ofInt, Fmt.roundND]
  rw [h0, fCmp_lt_fin, scaled_eq, scaled_eq]
  apply decide_eq_decide.2
  have : sval false 0 = 0 := by simp [sval]
  rw [this, Int.zero_mul]
  have := mul_two_pow_lt_iff (sval s m) 0 (e - if e ≤ f.qmin then e else f.qmin).toNat
  rw [Int.zero_mul] at this
  exact this

/-- the truncated integer part in terms of the signed significand -/
theorem truncInt_eq (s : Bool) (m : Nat) (e : Int) :
    truncInt s m e = if 0 ≤ e then sval s m * 2^e.toNat else (sval s m).tdiv (2^(-e).toNat) := by
  unfold truncInt sval
  by_cases h : 0 ≤ e
  · simp only [h, ite_true, Int.natCast_mul, natCast_two_pow]
    cases s <;> simp [Int.neg_mul]
  · simp only [h, ite_false]
    have : ((m / 2^(-e).toNat : Nat) : Int) = (m : Int).tdiv (2^(-e).toNat) := by
      rw [Int.natCast_ediv, natCast_two_pow, Int.tdiv_eq_ediv_of_nonneg (by omega)]
    rw [this]
    cases s <;> simp [Int.neg_tdiv]

/-- `x < trunc x`, for the integer part held as an `IntRep` -/
theorem fCmp_lt_trunc (s : Bool) (m : Nat) (e : Int) {xw : FVal} (hw : IntRep xw (truncInt s m e)) :
    fCmp .lt (.fin s m e) xw = decide (e < 0 ∧ (sval s m).tmod (2^(-e).toNat) < 0) := by
  obtain ⟨s2, M2, E2, rfl, hE2, hv2⟩ := hw
  rw [fCmp_lt_fin]
  have hq1 : (if e ≤ E2 then e else E2) ≤ e := by split <;> omega
  have hq2 : (if e ≤ E2 then e else E2) ≤ E2 := by split <;> omega
  generalize (if e ≤ E2 then e else E2) = q at hq1 hq2 ⊢
  rw [scaled_intRep hE2 hv2 hq2, scaled_eq, truncInt_eq]
  apply decide_eq_decide.2
  by_cases h : 0 ≤ e
  · simp only [h, ite_true]
    have e1 : sval s m * 2^e.toNat * 2^(-q).toNat = sval s m * 2^(e - q).toNat := by
      rw [Int.mul_assoc, ← Int.pow_add]; congr 2; omega
    rw [e1]
    constructor
    · intro h'; omega
    · intro h'; omega
  · simp only [h, ite_false]
    have e1 : (2:Int)^(-q).toNat = 2^(-e).toNat * 2^(e - q).toNat := by
      rw [← Int.pow_add]; congr 1; omega
    rw [e1, ← Int.mul_assoc, mul_two_pow_lt_iff]
    have hp := two_pow_pos (-e).toNat
    have hf := tdiv_tmod_facts (sval s m) (2^(-e).toNat) (by omega)
    rw [Int.mul_comm] at hf
    constructor
    · intro h'; exact ⟨by omega, by omega⟩
    · intro h'; omega

theorem ediv_eq_tdiv_sub (a p : Int) (hp : 0 < p) :
    a / p = a.tdiv p - (if a.tmod p < 0 then 1 else 0) := by
  have hf := tdiv_tmod_facts a p (by omega)
  have := (Int.ediv_emod_unique (a := a) (b := p) (q := a.tdiv p - (if a.tmod p < 0 then 1 else 0))
    (r := a.tmod p + (if a.tmod p < 0 then p else 0)) hp).2
  refine (this ⟨?_, ?_, ?_⟩).1
  · split
    · rw [Int.mul_sub, Int.mul_one]; omega
    · rw [Int.sub_zero]; omega
  · split <;> omega
  · split <;> omega


/-! ## the home-made `floor` -/

/-- the `floor_residual` condition: `x < 0 && x < x_whole` -/
def residual (s : Bool) (m : Nat) (e : Int) : Int :=
  if sval s m < 0 ∧ (e < 0 ∧ (sval s m).tmod (2^(-e).toNat) < 0) then 1 else 0

theorem floor_eq_trunc_sub (s : Bool) (m : Nat) (e : Int) :
    roundDyadic .floor (sval s m) e = truncInt s m e - residual s m e := by
  unfold roundDyadic residual
  rw [truncInt_eq]
  by_cases h : 0 ≤ e
  · have : ¬ e < 0 := by omega
    simp only [h, ite_true, this, false_and, and_false, ite_false, Int.sub_zero]
  · have he : e < 0 := by omega
    simp only [h, ite_false, he, true_and]
    have hp := two_pow_pos (-e).toNat
    show sval s m / 2^(-e).toNat = _
    rw [ediv_eq_tdiv_sub _ _ hp]
    have hf := tdiv_tmod_facts (sval s m) (2^(-e).toNat) (by omega)
    by_cases ht : (sval s m).tmod (2^(-e).toNat) < 0
    · have : sval s m < 0 := by
        apply Decidable.byContradiction; intro hn
        have := hf.2.1 (by omega); omega
      simp only [ht, this, and_self, ite_true]
    · simp only [ht, and_false, ite_false]

theorem residual_cases (s : Bool) (m : Nat) (e : Int) :
    residual s m e = 0 ∨ (residual s m e = 1 ∧ truncInt s m e ≤ 0) := by
  unfold residual
  split
  · rename_i h
    right; refine ⟨rfl, ?_⟩
    rw [truncInt_eq]
    have he : ¬ 0 ≤ e := by omega
    simp only [he, ite_false]
    have hp := two_pow_pos (-e).toNat
    have := Int.tdiv_nonneg (a := -(sval s m)) (b := 2^(-e).toNat) (by omega) (by omega)
    rw [Int.neg_tdiv] at this
    omega
  · left; rfl

theorem floorEmul_intRep (f : Fmt) (hf : FmtOk f) (D : IntTy) (hDb : 1 ≤ D.bits) (hD1 : D.InRange 1)
    (s : Bool) (m : Nat) (e : Int) (htr : D.InRange (truncInt s m e))
    (hsmall : (roundDyadic .floor (sval s m) e).natAbs < 2^f.prec) :
    ∃ y, RoundCvt.floorEmul f D (.fin s m e) = .ok y ∧ IntRep y (roundDyadic .floor (sval s m) e) := by
  have hfl := floor_eq_trunc_sub s m e
  have hrc := residual_cases s m e
  have hwsmall : (truncInt s m e).natAbs < 2^f.prec := by omega
  have hw := ofInt_intRep f hf (truncInt s m e) hwsmall
  have hcond : (fCmp .lt (.fin s m e) (f.ofInt 0) && fCmp .lt (.fin s m e) (f.ofInt (truncInt s m e)))
      = decide (sval s m < 0 ∧ (e < 0 ∧ (sval s m).tmod (2^(-e).toNat) < 0)) := by
    rw [fCmp_lt_zero, fCmp_lt_trunc s m e hw]; simp only [Bool.decide_and]
  have hres : (if (fCmp .lt (.fin s m e) (f.ofInt 0) && fCmp .lt (.fin s m e) (f.ofInt (truncInt s m e))) = true
      then (1:Int) else 0) = residual s m e := by
    rw [hcond]; unfold residual; simp only [decide_eq_true_eq]
  have hrr : D.InRange (residual s m e) := by
    rcases hrc with h | h
    · rw [h]; exact RoundCvtP.zero_inRange D
    · rw [h.1]; exact hD1
  have hp1 : (1:Nat) < 2^f.prec := by
    have : 2^1 ≤ 2^f.prec := Nat.pow_le_pow_right (by decide) (Nat.le_trans (by decide) hf.1)
    omega
  have hrsmall : (residual s m e).natAbs < 2^f.prec := by
    rcases hrc with h | h
    · rw [h]; simp; exact Nat.two_pow_pos _
    · rw [h.1]; exact hp1
  have hr := neg_intRep (ofInt_intRep f hf (residual s m e) hrsmall)
  have hsum := add_intRep f hf hw hr (by rw [← Int.sub_eq_add_neg, ← hfl]; exact hsmall)
  refine ⟨f.sub (f.ofInt (truncInt s m e)) (f.ofInt (residual s m e)), ?_, ?_⟩
  · simp only [RoundCvt.floorEmul, fToInt, intoRange, htr, ite_true, Res.bind_ok, hres, IntTy.wrap_id hDb hrr,
      Res.pure_eq]
  · rw [hfl, Int.sub_eq_add_neg]; exact hsum

/-- `static_cast<D>` of an integer-valued number -/
theorem fToInt_intRep (D : IntTy) {y : FVal} {a : Int} (h : IntRep y a) : fToInt D y = intoRange D a := by
  obtain ⟨s, M, E, rfl, hE, hv⟩ := h
  simp only [fToInt, truncInt_intRep hE hv]

end Cnl.FloatP

namespace Cnl.FloatP
open Cnl Cnl.Spec

/-! ## rounding a dyadic value, re-expressed at a finer quantum -/

theorem sgn_mul_pos (v : Int) {c : Int} (hc : 0 < c) : sgn (v * c) = sgn v := by
  unfold sgn
  by_cases h : v < 0
  · have := Int.mul_neg_of_neg_of_pos h hc
    simp only [h, this, ite_true]
  · by_cases h0 : v = 0
    · subst h0; simp
    · have := Int.mul_pos (show 0 < v by omega) hc
      have h1 : ¬ v * c < 0 := by omega
      have h2 : ¬ v * c = 0 := by omega
      simp only [h, h0, h1, h2, ite_false]

theorem roundShift_zero (m : RoundMode) (v : Int) : roundShift m v 0 = v := by
  cases m <;> simp only [roundShift, Int.pow_zero, Int.zero_add, Int.pow_one]
  · exact Int.tdiv_one v
  · unfold sgn
    by_cases h : v < 0
    · simp only [h, ite_true]; omega
    · by_cases h0 : v = 0
      · subst h0; simp
      · simp only [h, h0, ite_false]; omega
  · omega
  · exact Int.ediv_one v

theorem roundShift_mul_pow (m : RoundMode) (v : Int) (k c : Nat) :
    roundShift m (v * 2^c) (k + c) = roundShift m v k := by
  have hc := two_pow_pos c
  have e1 : (2:Int)^(k + c) = 2^k * 2^c := Int.pow_add ..
  have e2 : (2:Int)^(k + c + 1) = 2^(k+1) * 2^c := by rw [← Int.pow_add]; congr 1; omega
  cases m <;> simp only [roundShift]
  · rw [e1, Int.mul_tdiv_mul_of_pos_left _ _ hc]
  · rw [sgn_mul_pos v hc, e1, e2]
    have : (2 * ((v * 2^c).natAbs : Int) + 2^k * 2^c) = (2 * (v.natAbs : Int) + 2^k) * 2^c := by
      rw [Int.natAbs_mul, Int.natCast_mul, Int.add_mul]
      have : (((2:Int)^c).natAbs : Int) = 2^c := by omega
      rw [this, Int.mul_assoc]
    rw [this, Int.mul_ediv_mul_of_pos_left _ _ hc]
  · rw [e1, e2]
    have : 2 * (v * 2^c) + 2^k * 2^c = (2 * v + 2^k) * 2^c := by rw [Int.add_mul, Int.mul_assoc]
    rw [this, Int.mul_ediv_mul_of_pos_left _ _ hc]
  · rw [e1, Int.mul_ediv_mul_of_pos_left _ _ hc]

/-- `a · 2^e` rounded = `(a · 2^(e-q)) / 2^(-q)` rounded, for any quantum `2^q` below both -/
theorem roundDyadic_rescale (m : RoundMode) (a : Int) {e q : Int} (hq : q ≤ e) (hq0 : q ≤ 0) :
    roundDyadic m a e = roundShift m (a * 2^(e - q).toNat) (-q).toNat := by
  unfold roundDyadic
  by_cases h : 0 ≤ e
  · simp only [h, ite_true]
    have e1 : (2:Int)^(e - q).toNat = 2^e.toNat * 2^(-q).toNat := by rw [← Int.pow_add]; congr 1; omega
    have := roundShift_mul_pow m (a * 2^e.toNat) 0 (-q).toNat
    rw [Nat.zero_add, roundShift_zero] at this
    rw [e1, ← Int.mul_assoc, this]
  · simp only [h, ite_false]
    have := roundShift_mul_pow m a (-e).toNat (e - q).toNat
    have e2 : (-e).toNat + (e - q).toNat = (-q).toNat := by omega
    rw [e2] at this
    exact this.symm


/-! ## conversions that add a bias of one half before flooring / truncating -/

/-- the quantum at which `x`, `y` and `1/2` are all integers -/
def biasQ (e e' : Int) : Int := min e (min e' (-1))

/-- `y = (-1)^s' m' 2^e'` is exactly `x + b/2` for `x = (-1)^s m 2^e` (`b = ±1`): the biased sum was
not rounded.  Stated in units of `2^(biasQ e e')`; decidable. -/
def ExactBias (s : Bool) (m : Nat) (e : Int) (s' : Bool) (m' : Nat) (e' : Int) (b : Int) : Prop :=
  sval s' m' * 2^(e' - biasQ e e').toNat = sval s m * 2^(e - biasQ e e').toNat + b * 2^(-1 - biasQ e e').toNat

instance (s : Bool) (m : Nat) (e : Int) (s' : Bool) (m' : Nat) (e' : Int) (b : Int) :
    Decidable (ExactBias s m e s' m' e' b) := by unfold ExactBias; exact inferInstance

theorem biasQ_le (e e' : Int) : biasQ e e' ≤ e ∧ biasQ e e' ≤ e' ∧ biasQ e e' ≤ -1 := by
  unfold biasQ; omega

/-- flooring an exact `x + 1/2` rounds `x` to nearest, ties toward +∞ -/
theorem floor_exactBias {s : Bool} {m : Nat} {e : Int} {s' : Bool} {m' : Nat} {e' : Int}
    (h : ExactBias s m e s' m' e' 1) :
    roundDyadic .floor (sval s' m') e' = roundDyadic .nearestUp (sval s m) e := by
  obtain ⟨h1, h2, h3⟩ := biasQ_le e e'
  unfold ExactBias at h
  generalize biasQ e e' = q at *
  rw [roundDyadic_rescale .floor _ h2 (by omega), roundDyadic_rescale .nearestUp _ h1 (by omega), h, Int.one_mul]
  have hk : 0 < (-q).toNat := by omega
  have := shift_bias_eq (sval s m * 2^(e - q).toNat) hk
  have e1 : (-1 - q).toNat = (-q).toNat - 1 := by omega
  rw [e1]; exact this

/-- truncating an exact `x ± 1/2` (sign of `x`) rounds `x` to nearest, ties away from zero -/
theorem trunc_exactBias {s : Bool} {m : Nat} {e : Int} {s' : Bool} {m' : Nat} {e' : Int}
    (h : ExactBias s m e s' m' e' (if 0 ≤ sval s m then 1 else -1)) :
    truncInt s' m' e' = roundDyadic .nearestAway (sval s m) e := by
  obtain ⟨h1, h2, h3⟩ := biasQ_le e e'
  unfold ExactBias at h
  generalize biasQ e e' = q at *
  have ht : truncInt s' m' e' = roundDyadic .truncate (sval s' m') e' := by
    rw [truncInt_eq]; rfl
  rw [ht, roundDyadic_rescale .truncate _ h2 (by omega), roundDyadic_rescale .nearestAway _ h1 (by omega), h]
  have hk : 0 < (-q).toNat := by omega
  have hp := two_pow_pos (e - q).toNat
  have := trunc_bias_eq (sval s m * 2^(e - q).toNat) hk
  have e1 : (-1 - q).toNat = (-q).toNat - 1 := by omega
  rw [e1, ← this]
  by_cases h0 : 0 ≤ sval s m
  · have : 0 ≤ sval s m * 2^(e - q).toNat := Int.mul_nonneg h0 (Int.le_of_lt hp)
    simp only [h0, this, ite_true, Int.one_mul]
    rfl
  · have : ¬ 0 ≤ sval s m * 2^(e - q).toNat := by
      have := Int.mul_neg_of_neg_of_pos (show sval s m < 0 by omega) hp
      omega
    simp only [h0, this, ite_false, Int.neg_mul, Int.one_mul]
    rw [← Int.sub_eq_add_neg]
    rfl

/-- `x >= 0` -/
theorem fCmp_ge_zero (f : Fmt) (s : Bool) (m : Nat) (e : Int) :
    fCmp .ge (.fin s m e) (f.ofInt 0) = decide (0 ≤ sval s m) := by
  have h0 : f.ofInt 0 = .fin false 0 f.qmin := by simp [Fmt.ofInt, Fmt.roundND]
  rw [h0, fCmp_ge_fin, scaled_eq, scaled_eq]
  apply decide_eq_decide.2
  have : sval false 0 = 0 := by simp [sval]
  rw [this, Int.zero_mul]
  have hp := two_pow_pos (e - if e ≤ f.qmin then e else f.qmin).toNat
  constructor
  · intro h
    apply Decidable.byContradiction; intro hn
    have := Int.mul_neg_of_neg_of_pos (show sval s m < 0 by omega) hp
    omega
  · intro h; exact Int.mul_nonneg h (Int.le_of_lt hp)


/-! ## `floatToInt` -/

theorem trunc_inRange_of_floor (D : IntTy) (s : Bool) (m : Nat) (e : Int)
    (h : D.InRange (roundDyadic .floor (sval s m) e)) : D.InRange (truncInt s m e) := by
  have hfl := floor_eq_trunc_sub s m e
  have hz := RoundCvtP.zero_inRange D
  unfold IntTy.InRange at *
  rcases residual_cases s m e with hr | hr
  · rw [hr] at hfl; omega
  · rw [hr.1] at hfl; omega

theorem truncInt_eq_roundDyadic (s : Bool) (m : Nat) (e : Int) :
    truncInt s m e = roundDyadic .truncate (sval s m) e := by rw [truncInt_eq]; rfl

/-- neg_inf: the home-made floor, then the cast -/
theorem float_ninf_eval (f : Fmt) (hf : FmtOk f) (D : IntTy) (hDb : 1 ≤ D.bits) (hD1 : D.InRange 1)
    (s : Bool) (m : Nat) (e : Int) (hfloor : D.InRange (roundDyadic .floor (sval s m) e))
    (hsmall : (roundDyadic .floor (sval s m) e).natAbs < 2^f.prec) :
    RoundCvt.floatToInt .ninf f D (.fin s m e) = .ok (roundDyadic .floor (sval s m) e) := by
  obtain ⟨y, hy, hrep⟩ := floorEmul_intRep f hf D hDb hD1 s m e (trunc_inRange_of_floor D s m e hfloor) hsmall
  simp only [RoundCvt.floatToInt, hy, Res.bind_ok, fToInt_intRep D hrep, intoRange, hfloor, ite_true]

/-- tie_to_pos_inf: floor of the biased sum `y = x + .5` computed in the source format -/
theorem float_tpi_eval (f : Fmt) (hf : FmtOk f) (D : IntTy) (hDb : 1 ≤ D.bits) (hD1 : D.InRange 1)
    (x : FVal) (s' : Bool) (m' : Nat) (e' : Int) (hy : f.add x (f.ofDyadic false 1 (-1)) = .fin s' m' e')
    (hfloor : D.InRange (roundDyadic .floor (sval s' m') e'))
    (hsmall : (roundDyadic .floor (sval s' m') e').natAbs < 2^f.prec) :
    RoundCvt.floatToInt .tpi f D x = .ok (roundDyadic .floor (sval s' m') e') := by
  have := float_ninf_eval f hf D hDb hD1 s' m' e' hfloor hsmall
  simp only [RoundCvt.floatToInt, hy] at this ⊢
  exact this

/-- nearest: truncation of the biased sum `x ± .5L` computed in long double -/
theorem float_nrst_eval (f : Fmt) (D : IntTy) (s : Bool) (m : Nat) (e : Int) (s' : Bool) (m' : Nat) (e' : Int)
    (hy : (if 0 ≤ sval s m then x87ext.add (x87ext.cvt (.fin s m e)) (x87ext.ofDyadic false 1 (-1))
           else x87ext.sub (x87ext.cvt (.fin s m e)) (x87ext.ofDyadic false 1 (-1))) = .fin s' m' e') :
    RoundCvt.floatToInt .nrst f D (.fin s m e) = intoRange D (truncInt s' m' e') := by
  simp only [RoundCvt.floatToInt, fCmp_ge_zero, decide_eq_true_eq, hy, fToInt]

end Cnl.FloatP

namespace Cnl.FloatP
open Cnl Cnl.Spec

/-! ## integral values of magnitude `≥ 2^(prec-1)`: `Source(Destination(x))` is `x` itself -/

theorem qmin_neg {f : Fmt} (hf : FmtOk f) : f.qmin < 0 := by
  obtain ⟨h1, h2, h3⟩ := hf; unfold Fmt.qmin; omega

theorem log2_normal {m p : Nat} (hp : 1 ≤ p) (h1 : 2^(p-1) ≤ m) (h2 : m < 2^p) : m.log2 = p - 1 := by
  have hm : m ≠ 0 := by have := Nat.two_pow_pos (p-1); omega
  rw [Nat.log2_eq_iff hm, show p - 1 + 1 = p by omega]
  exact ⟨h1, h2⟩

theorem sval_neg_iff (s : Bool) {m : Nat} (hm : m ≠ 0) : decide (sval s m < 0) = s := by
  unfold sval; cases s <;> simp <;> omega

theorem natAbs_sval (s : Bool) (m : Nat) : (sval s m).natAbs = m := by
  unfold sval; cases s <;> simp

/-- rounding the value of a normal canonical number returns it -/
theorem roundND_self (f : Fmt) (hf : FmtOk f) (s : Bool) {m : Nat} (e : Int)
    (h1 : 2^(f.prec-1) ≤ m) (h2 : m < 2^f.prec) (hlo : f.qmin ≤ e) (hhi : e + ((f.prec : Int) - 1) ≤ f.emax)
    (t b : Nat) (htb : (t : Int) - b = e) :
    f.roundND s (m * 2^t) (2^b) = .fin s m e := by
  have hp : 1 ≤ f.prec := Nat.le_trans (by decide) hf.1
  have hm : m ≠ 0 := by have := Nat.two_pow_pos (f.prec-1); omega
  have hL := log2_normal hp h1 h2
  have hq : f.qmin = f.emin - ((f.prec : Int) - 1) := rfl
  rw [roundND_exact f s hm h2 t b (by rw [hL]; omega) (by rw [hL]; omega), hL, Nat.sub_self, Nat.pow_zero, Nat.mul_one]
  congr 1; omega

theorem ofInt_self (f : Fmt) (hf : FmtOk f) (s : Bool) {m : Nat} {e : Int} (he : 0 ≤ e)
    (h1 : 2^(f.prec-1) ≤ m) (h2 : m < 2^f.prec) (hhi : e + ((f.prec : Int) - 1) ≤ f.emax) :
    f.ofInt (sval s m * 2^e.toNat) = .fin s m e := by
  have hm : m ≠ 0 := by have := Nat.two_pow_pos (f.prec-1); omega
  have hp := two_pow_pos e.toNat
  unfold Fmt.ofInt
  have habs : (sval s m * 2^e.toNat).natAbs = m * 2^e.toNat := by
    rw [Int.natAbs_mul, natAbs_sval, Int.natAbs_pow]; rfl
  have hneg : decide (sval s m * 2^e.toNat < 0) = s := by
    have h' : decide (sval s m * 2^e.toNat < 0) = decide (sval s m < 0) := by
      apply decide_eq_decide.2
      have := mul_two_pow_lt_iff (sval s m) 0 e.toNat
      rw [Int.zero_mul] at this; exact this
    rw [h', sval_neg_iff s hm]
  rw [habs, hneg]
  have := roundND_self f hf s e h1 h2 (by have := qmin_neg hf; omega) hhi e.toNat 0 (by omega)
  rw [Nat.pow_zero] at this; exact this

theorem sub_zero_self (f : Fmt) (hf : FmtOk f) (s : Bool) {m : Nat} {e : Int}
    (h1 : 2^(f.prec-1) ≤ m) (h2 : m < 2^f.prec) (hlo : f.qmin ≤ e) (hhi : e + ((f.prec : Int) - 1) ≤ f.emax) :
    f.sub (.fin s m e) (f.ofInt 0) = .fin s m e := by
  have hm : m ≠ 0 := by have := Nat.two_pow_pos (f.prec-1); omega
  have hqn := qmin_neg hf
  have h0 : f.ofInt 0 = .fin false 0 f.qmin := by simp [Fmt.ofInt, Fmt.roundND]
  have hq : (if e ≤ f.qmin then e else f.qmin) = f.qmin := by split <;> omega
  have hp := two_pow_pos (e - f.qmin).toNat
  have hz : FVal.scaled true 0 f.qmin f.qmin = 0 := by simp [FVal.scaled]
  have hc0 : sval s m * 2^(e - f.qmin).toNat ≠ 0 := by
    intro h; rcases Int.mul_eq_zero.1 h with h | h
    · have := natAbs_sval s m; rw [h] at this; simp at this; omega
    · omega
  have habs : (sval s m * 2^(e - f.qmin).toNat).natAbs = m * 2^(e - f.qmin).toNat := by
    rw [Int.natAbs_mul, natAbs_sval, Int.natAbs_pow]; rfl
  have hneg : decide (sval s m * 2^(e - f.qmin).toNat < 0) = s := by
    have h' : decide (sval s m * 2^(e - f.qmin).toNat < 0) = decide (sval s m < 0) := by
      apply decide_eq_decide.2
      have := mul_two_pow_lt_iff (sval s m) 0 (e - f.qmin).toNat
      rw [Int.zero_mul] at this; exact this
    rw [h', sval_neg_iff s hm]
  have hnq : ¬ 0 ≤ f.qmin := by omega
  simp only [Fmt.sub, h0, FVal.neg, Fmt.add, hq, scaled_eq s m, hz, Int.add_zero, hc0, ite_false, habs, hneg,
    Bool.not_false, Fmt.ofDyadic, hnq]
  exact roundND_self f hf s e h1 h2 hlo hhi _ _ (by omega)

theorem fCmp_lt_self (x : FVal) : fCmp .lt x x = false := by
  cases x with
  | fin s m e => rw [fCmp_lt_fin]; simp
  | inf b => simp [fCmp, FVal.cmp?]
  | nan => simp [fCmp, FVal.cmp?]

/-- neg_inf on an integral value held as a normal number with non-negative exponent -/
theorem float_ninf_eval_large (f : Fmt) (hf : FmtOk f) (D : IntTy) (hDb : 1 ≤ D.bits)
    (s : Bool) (m : Nat) (e : Int) (he : 0 ≤ e)
    (h1 : 2^(f.prec-1) ≤ m) (h2 : m < 2^f.prec) (hhi : e + ((f.prec : Int) - 1) ≤ f.emax)
    (hfloor : D.InRange (roundDyadic .floor (sval s m) e)) :
    RoundCvt.floatToInt .ninf f D (.fin s m e) = .ok (roundDyadic .floor (sval s m) e) := by
  have hfl : roundDyadic .floor (sval s m) e = sval s m * 2^e.toNat := by simp [roundDyadic, he]
  have htr : truncInt s m e = sval s m * 2^e.toNat := by rw [truncInt_eq]; simp [he]
  rw [hfl] at hfloor ⊢
  have hlo : f.qmin ≤ e := by have := qmin_neg hf; omega
  simp only [RoundCvt.floatToInt, RoundCvt.floorEmul, fToInt, htr, intoRange, hfloor, ite_true, Res.bind_ok,
    ofInt_self f hf s he h1 h2 hhi, fCmp_lt_self, Bool.and_false, Bool.false_eq_true, ite_false,
    IntTy.wrap_id hDb (RoundCvtP.zero_inRange D), sub_zero_self f hf s h1 h2 hlo hhi, Res.pure_eq]


theorem ediv_natAbs_lt {a p : Int} (hp : 0 < p) {B : Nat} (h : a.natAbs < B) : (a / p).natAbs < B := by
  by_cases ha : 0 ≤ a
  · have h1 := Int.ediv_nonneg ha (Int.le_of_lt hp)
    have h2 := Int.ediv_le_self p ha
    omega
  · have h1 : a ≤ a / p := by
      apply Int.le_ediv_of_mul_le hp
      have := Int.mul_le_mul_of_nonpos_left (a := a) (b := p) (c := 1) (by omega) (by omega)
      omega
    have h2 : a / p < 0 := Int.ediv_neg_of_neg_of_pos (by omega) hp
    omega

/-- neg_inf, every canonical finite source value -/
theorem float_ninf_canonical (f : Fmt) (hf : FmtOk f) (D : IntTy) (hDb : 1 ≤ D.bits) (hD1 : D.InRange 1)
    (s : Bool) (m : Nat) (e : Int) (hc : f.Canonical (.fin s m e) = true)
    (hfloor : D.InRange (roundDyadic .floor (sval s m) e)) :
    RoundCvt.floatToInt .ninf f D (.fin s m e) = .ok (roundDyadic .floor (sval s m) e) := by
  simp only [Fmt.Canonical, Bool.and_eq_true, Bool.or_eq_true, decide_eq_true_eq] at hc
  obtain ⟨⟨⟨hm, hlo⟩, hhi⟩, hnorm⟩ := hc
  by_cases hs : (roundDyadic .floor (sval s m) e).natAbs < 2^f.prec
  · exact float_ninf_eval f hf D hDb hD1 s m e hfloor hs
  · have he : 0 ≤ e := by
      apply Decidable.byContradiction; intro hn
      apply hs
      have : roundDyadic .floor (sval s m) e = sval s m / 2^(-e).toNat := by simp [roundDyadic, hn, roundShift]
      rw [this]
      exact ediv_natAbs_lt (two_pow_pos _) (by rw [natAbs_sval]; exact hm)
    have h1 : 2^(f.prec-1) ≤ m := by
      rcases hnorm with h | h
      · exact h
      · have := qmin_neg hf; omega
    exact float_ninf_eval_large f hf D hDb s m e he h1 hm hhi hfloor


/-- tie_to_pos_inf with a canonical biased sum -/
theorem float_tpi_eval_canonical (f : Fmt) (hf : FmtOk f) (D : IntTy) (hDb : 1 ≤ D.bits) (hD1 : D.InRange 1)
    (x : FVal) (s' : Bool) (m' : Nat) (e' : Int) (hy : f.add x (f.ofDyadic false 1 (-1)) = .fin s' m' e')
    (hc : f.Canonical (.fin s' m' e') = true)
    (hfloor : D.InRange (roundDyadic .floor (sval s' m') e')) :
    RoundCvt.floatToInt .tpi f D x = .ok (roundDyadic .floor (sval s' m') e') := by
  have := float_ninf_canonical f hf D hDb hD1 s' m' e' hc hfloor
  simp only [RoundCvt.floatToInt, hy] at this ⊢
  exact this

end Cnl.FloatP

namespace Cnl.FloatP
open Cnl Cnl.Spec

/-! ## nearest: the long double bias -/

/-- a source format whose values are all long double values (`float`, `double`) -/
def Narrow (f : Fmt) : Prop := (1 ≤ f.prec ∧ f.prec ≤ 53) ∧ -16382 ≤ f.qmin ∧ f.emax ≤ 16383

instance (f : Fmt) : Decidable (Narrow f) := by unfold Narrow; exact inferInstance

theorem narrow_binary32 : Narrow binary32 := by decide
theorem narrow_binary64 : Narrow binary64 := by decide

theorem half_x87 : x87ext.ofDyadic false 1 (-1) = .fin false (2^63) (-64) := by decide +kernel

theorem pow_split {a b c : Nat} (h : a = b + c) : 2^a = 2^b * 2^c := by rw [h, Nat.pow_add]

theorem sval_add (s : Bool) (a b : Nat) : sval s (a + b) = sval s a + sval s b := by
  unfold sval; cases s <;> simp <;> omega

theorem sval_zero (s : Bool) : sval s 0 = 0 := by unfold sval; cases s <;> simp

/-- sum of two finite numbers of the same sign (or with a zero first operand) -/
theorem add_same_sign (f : Fmt) (s1 s2 : Bool) (M1 M2 : Nat) (E1 E2 : Int) (hs : s1 = s2 ∨ M1 = 0) (hM2 : M2 ≠ 0) :
    f.add (.fin s1 M1 E1) (.fin s2 M2 E2)
      = f.ofDyadic s2 (M1 * 2^(E1 - (if E1 ≤ E2 then E1 else E2)).toNat + M2 * 2^(E2 - (if E1 ≤ E2 then E1 else E2)).toNat)
          (if E1 ≤ E2 then E1 else E2) := by
  simp only [Fmt.add]
  generalize (if E1 ≤ E2 then E1 else E2) = q
  rw [scaled_eq, scaled_eq]
  have e1 : sval s1 M1 = sval s2 M1 := by
    rcases hs with h | h
    · rw [h]
    · rw [h, sval_zero, sval_zero]
  have hc : sval s1 M1 * 2^(E1 - q).toNat + sval s2 M2 * 2^(E2 - q).toNat
      = sval s2 (M1 * 2^(E1 - q).toNat + M2 * 2^(E2 - q).toNat) := by
    rw [e1, sval_add, sval_mul, sval_mul, natCast_two_pow, natCast_two_pow]
  rw [hc]
  have hpos : M1 * 2^(E1 - q).toNat + M2 * 2^(E2 - q).toNat ≠ 0 := by
    have := Nat.mul_pos (Nat.pos_of_ne_zero hM2) (Nat.two_pow_pos (E2 - q).toNat)
    omega
  generalize M1 * 2^(E1 - q).toNat + M2 * 2^(E2 - q).toNat = n at hpos ⊢
  have h0 : sval s2 n ≠ 0 := by
    intro h; have := natAbs_sval s2 n; rw [h] at this; simp at this; omega
  simp only [h0, ite_false, natAbs_sval, sval_neg_iff s2 hpos]

theorem x87_prec : x87ext.prec = 64 := rfl
theorem x87_emin : x87ext.emin = -16382 := rfl
theorem x87_emax : x87ext.emax = 16383 := rfl
theorem x87_qmin : x87ext.qmin = -16445 := by decide

/-- a canonical non-zero `float`/`double` value widened to long double -/
theorem cvt_x87 (f : Fmt) (hn : Narrow f) (s : Bool) (m : Nat) (e : Int)
    (hc : f.Canonical (.fin s m e) = true) (hm : m ≠ 0) :
    x87ext.cvt (.fin s m e) = .fin s (m * 2^(63 - m.log2)) ((m.log2 : Int) + e - 63) := by
  simp only [Fmt.Canonical, Bool.and_eq_true, Bool.or_eq_true, decide_eq_true_eq] at hc
  obtain ⟨⟨⟨hlt, hlo⟩, hhi⟩, hnorm⟩ := hc
  obtain ⟨⟨hp1, hp⟩, hq, hmax⟩ := hn
  have hL := log2_lt_prec hm hlt
  have hlt64 : m < 2^x87ext.prec := by
    rw [x87_prec]
    exact Nat.lt_of_lt_of_le hlt (Nat.pow_le_pow_right (by decide) (by omega))
  have := ofDyadic_exact x87ext s hm hlt64 e (by rw [x87_emin]; omega) (by rw [x87_emax]; omega)
  rw [x87_prec] at this
  exact this

theorem cvt_x87_zero (s : Bool) (e : Int) : x87ext.cvt (.fin s 0 e) = .fin s 0 (-16445) := by
  simp only [Fmt.cvt, Fmt.ofDyadic, Fmt.roundND, Nat.zero_mul, ite_true, ite_self, x87_qmin]

/-- adding `±0.5L` to a long double of the same sign (or to a zero) -/
theorem add_half_x87 (s s0 : Bool) (M : Nat) (E : Int) (hs : s = s0 ∨ M = 0) :
    ∃ k : Nat, 64 ≤ k ∧ -(k:Int) ≤ E ∧ -(k:Int) = (if E ≤ -64 then E else -64) ∧
      x87ext.add (.fin s M E) (.fin s0 (2^63) (-64))
        = x87ext.roundND s0 (M * 2^(E + k).toNat + 2^(k-1)) (2^k) := by
  rw [add_same_sign x87ext s s0 M (2^63) E (-64) hs (by decide)]
  have hq1 : (if E ≤ -64 then E else -64) ≤ E := by split <;> omega
  have hq2 : (if E ≤ -64 then E else -64) ≤ -64 := by split <;> omega
  generalize (if E ≤ -64 then E else -64) = q at hq1 hq2 ⊢
  refine ⟨(-q).toNat, by omega, by omega, by omega, ?_⟩
  have hq0 : ¬ 0 ≤ q := by omega
  simp only [Fmt.ofDyadic, hq0, ite_false]
  have e1 : (E - q).toNat = (E + ((-q).toNat : Int)).toNat := by omega
  have e2 : 2^63 * 2^(-64 - q).toNat = 2^((-q).toNat - 1) := by
    rw [← Nat.pow_add]; congr 1; omega
  rw [e1, e2]

/-- the biased sum `x ± .5L` of the nearest conversion is one rounding of `(m 2^j + 2^(k-1)) / 2^k` -/
theorem biased_roundND (f : Fmt) (hn : Narrow f) (s : Bool) (m : Nat) (e : Int)
    (hc : f.Canonical (.fin s m e) = true) :
    ∃ k j : Nat, 64 ≤ k ∧ (j:Int) - k = e ∧
      (if 0 ≤ sval s m then x87ext.add (x87ext.cvt (.fin s m e)) (x87ext.ofDyadic false 1 (-1))
        else x87ext.sub (x87ext.cvt (.fin s m e)) (x87ext.ofDyadic false 1 (-1)))
        = x87ext.roundND (decide (sval s m < 0)) (m * 2^j + 2^(k-1)) (2^k) := by
  rw [half_x87]
  by_cases hm : m = 0
  · subst hm
    have hlo : f.qmin ≤ e := by
      simp only [Fmt.Canonical, Bool.and_eq_true, Bool.or_eq_true, decide_eq_true_eq] at hc
      exact hc.1.1.2
    have hq := hn.2.1
    rw [cvt_x87_zero, sval_zero]
    simp only [Int.le_refl, ite_true, Int.lt_irrefl, decide_false]
    obtain ⟨k, hk, hkE, hkq, h⟩ := add_half_x87 s false 0 (-16445) (Or.inr rfl)
    simp only [Int.reduceNeg, Int.reduceLE, ite_true] at hkq
    refine ⟨k, (e + k).toNat, hk, by omega, ?_⟩
    rw [h, Nat.zero_mul, Nat.zero_mul]
  · rw [cvt_x87 f hn s m e hc hm]
    simp only [Fmt.Canonical, Bool.and_eq_true, Bool.or_eq_true, decide_eq_true_eq] at hc
    obtain ⟨⟨⟨hlt, hlo⟩, hhi⟩, hnorm⟩ := hc
    have hL := log2_lt_prec hm hlt
    have hp := hn.1.2
    have hsub : ∀ x : FVal, x87ext.sub x (.fin false (2^63) (-64)) = x87ext.add x (.fin true (2^63) (-64)) := by
      intro x; rfl
    have hs0 : decide (sval s m < 0) = s := sval_neg_iff s hm
    have hbr : (if 0 ≤ sval s m then x87ext.add (.fin s (m * 2^(63 - m.log2)) ((m.log2 : Int) + e - 63)) (.fin false (2^63) (-64))
        else x87ext.sub (.fin s (m * 2^(63 - m.log2)) ((m.log2 : Int) + e - 63)) (.fin false (2^63) (-64)))
        = x87ext.add (.fin s (m * 2^(63 - m.log2)) ((m.log2 : Int) + e - 63)) (.fin s (2^63) (-64)) := by
      rw [hsub]
      cases s
      · have : 0 ≤ sval false m := by simp [sval]
        simp only [this, ite_true]
      · have : ¬ 0 ≤ sval true m := by simp [sval]; omega
        simp only [this, ite_false]
    rw [hbr, hs0]
    obtain ⟨k, hk, hkE, hkq, h⟩ := add_half_x87 s s (m * 2^(63 - m.log2)) ((m.log2 : Int) + e - 63) (Or.inl rfl)
    have hke : -(k:Int) ≤ e := by
      rw [hkq]; split <;> omega
    refine ⟨k, (e + k).toNat, hk, by omega, ?_⟩
    rw [h, Nat.mul_assoc, ← Nat.pow_add]
    congr 4
    omega

/-- regime (i): the biased sum has at most 64 significant bits -/
theorem core_exact (neg : Bool) (N t k : Nat) (hN : N ≠ 0) (hlt : N < 2^64) (h63 : 63 ≤ N.log2 + t)
    (hlo : -16382 ≤ (N.log2 : Int) + t - k) (hhi : (N.log2 : Int) + t - k ≤ 16383) :
    ∃ m' e', x87ext.roundND neg (N * 2^t) (2^k) = .fin neg m' e' ∧ -(k:Int) ≤ e' ∧
      m' * 2^(e' + k).toNat = N * 2^t := by
  have hL : N.log2 < 64 := log2_lt_prec hN hlt
  have := roundND_exact x87ext neg hN (by rw [x87_prec]; exact hlt) t k (by rw [x87_emin]; exact hlo)
    (by rw [x87_emax]; exact hhi)
  rw [x87_prec] at this
  refine ⟨_, _, this, by omega, ?_⟩
  rw [Nat.mul_assoc, ← Nat.pow_add]
  congr 2; omega

theorem rhe_bounds (a d : Nat) : a / d ≤ roundHalfEven a d ∧ roundHalfEven a d ≤ a / d + 1 := by
  unfold roundHalfEven
  simp only
  split
  · omega
  · split
    · omega
    · split <;> omega

theorem rhe_floor (X D r : Nat) (hr : r < D) (h : 2 * r < D ∨ (2 * r = D ∧ X % 2 = 0)) :
    roundHalfEven (X * D + r) D = X := by
  have hD : 0 < D := by omega
  have h1 : (X * D + r) / D = X := by
    rw [Nat.add_comm, Nat.add_mul_div_right _ _ hD, Nat.div_eq_of_lt hr, Nat.zero_add]
  have h2 : (X * D + r) % D = r := by
    rw [Nat.add_comm, Nat.add_mul_mod_self_right, Nat.mod_eq_of_lt hr]
  simp only [roundHalfEven, h1, h2]
  rcases h with h | ⟨h, hx⟩
  · simp only [h, ite_true]
  · have a1 : ¬ 2 * r < D := by omega
    have a2 : ¬ D < 2 * r := by omega
    simp only [a1, a2, ite_false, hx, ite_true]

/-- one rounding into long double of `n / 2^k` in the normal range, without carry -/
theorem roundND_x87 (neg : Bool) (n k : Nat) (hn : n ≠ 0) (E : Int) (hE : (n.log2 : Int) - k = E)
    (hmin : -16382 ≤ E) (hmax : E ≤ 16383) (mr : Nat)
    (hmr : (if 0 ≤ E - 63 then roundHalfEven n (2^k * 2^(E - 63).toNat)
            else roundHalfEven (n * 2^(-(E - 63)).toNat) (2^k)) = mr) (hne : mr ≠ 2^64) :
    x87ext.roundND neg n (2^k) = .fin neg mr (E - 63) := by
  have hnotlt : ¬ E < -16382 := by omega
  have hnotmax : ¬ (16383 < E - 63 + 63) := by omega
  have h63 : ((64:Nat) : Int) - 1 = 63 := by decide
  simp only [Fmt.roundND, hn, ite_false, ilog2Q_pow2 hn, hE, x87_prec, x87_emin, x87_emax, hnotlt, h63, hmr, hne,
    hnotmax]

theorem norm_sig {m : Nat} (hm0 : m ≠ 0) {c : Nat} (hc : m.log2 ≤ c) :
    2^c ≤ m * 2^(c - m.log2) ∧ m * 2^(c - m.log2) < 2^(c+1) := by
  have h1 := Nat.log2_self_le hm0
  have h2 := Nat.lt_log2_self (n := m)
  have hp := Nat.two_pow_pos (c - m.log2)
  constructor
  · rw [pow_split (show c = m.log2 + (c - m.log2) by omega)]
    exact Nat.mul_le_mul_right _ h1
  · rw [pow_split (show c + 1 = (m.log2 + 1) + (c - m.log2) by omega)]
    exact Nat.mul_lt_mul_of_pos_right h2 hp

/-- regime (iii): `|x| ≥ 2^63` is an even integer; `x ± .5L` rounds back to `x` -/
theorem core_large (neg : Bool) (m j k : Nat) (hm0 : m ≠ 0) (hm : m < 2^53) (hk : 64 ≤ k) (hjk : k ≤ j + 1)
    (hL : 64 ≤ m.log2 + (j + 1 - k)) (hhi : (m.log2 : Int) + j - k ≤ 16383) :
    ∃ m' e', x87ext.roundND neg (m * 2^j + 2^(k-1)) (2^k) = .fin neg m' e' ∧ -(k:Int) ≤ e' ∧
      (m' * 2^(e' + k).toNat) / 2^k = (m * 2^j + 2^(k-1)) / 2^k := by
  have hL53 : m.log2 < 53 := log2_lt_prec hm0 hm
  obtain ⟨hX1, hX2⟩ := norm_sig hm0 (show m.log2 ≤ 63 by omega)
  have hXe : (m * 2^(63 - m.log2)) % 2 = 0 := by
    rw [pow_split (show 63 - m.log2 = (62 - m.log2) + 1 by omega), ← Nat.mul_assoc]
    exact Nat.mul_mod_left ..
  have hn : m * 2^j = (m * 2^(63 - m.log2)) * 2^((m.log2 + (j + 1 - k) - 64) + k) := by
    rw [Nat.mul_assoc, ← Nat.pow_add]; congr 2; omega
  generalize m * 2^(63 - m.log2) = X at hX1 hX2 hXe hn
  generalize hsh : m.log2 + (j + 1 - k) - 64 = sh at hn
  rw [hn]
  have hr : 2^(k-1) < 2^(sh + k) := Nat.pow_lt_pow_right (by decide) (by omega)
  have h2r : 2 * 2^(k-1) = 2^k := by rw [pow_split (show k = 1 + (k-1) by omega)]
  have hcase : 2 * 2^(k-1) < 2^(sh + k) ∨ (2 * 2^(k-1) = 2^(sh + k) ∧ X % 2 = 0) := by
    rw [h2r]
    by_cases h0 : sh = 0
    · right; subst h0; exact ⟨by rw [Nat.zero_add], hXe⟩
    · left; exact Nat.pow_lt_pow_right (by decide) (by omega)
  have hD := Nat.two_pow_pos (sh + k)
  have hne : X * 2^(sh + k) + 2^(k-1) ≠ 0 := by have := Nat.two_pow_pos (k-1); omega
  have hlog : (X * 2^(sh + k) + 2^(k-1)).log2 = 63 + (sh + k) := by
    rw [Nat.log2_eq_iff hne]
    constructor
    · have e : 2^(63 + (sh + k)) = 2^63 * 2^(sh + k) := Nat.pow_add ..
      rw [e]
      have := Nat.mul_le_mul_right (2^(sh + k)) hX1
      omega
    · have e : 2^(63 + (sh + k) + 1) = 2^64 * 2^(sh + k) := by
        rw [show 63 + (sh + k) + 1 = 64 + (sh + k) by omega]; exact Nat.pow_add ..
      rw [e]
      have := Nat.mul_le_mul_right (2^(sh + k)) (show X + 1 ≤ 2^64 by omega)
      rw [Nat.add_mul, Nat.one_mul] at this
      omega
  have hres := roundND_x87 neg (X * 2^(sh + k) + 2^(k-1)) k hne ((63 + sh : Nat) : Int) (by rw [hlog]; omega)
    (by omega) (by omega) X
    (by
      have h0 : (0:Int) ≤ ((63 + sh : Nat) : Int) - 63 := by omega
      have e1 : (((63 + sh : Nat) : Int) - 63).toNat = sh := by omega
      rw [if_pos h0, e1, ← Nat.pow_add, Nat.add_comm k sh]
      exact rhe_floor X _ _ hr hcase)
    (by omega)
  refine ⟨X, _, hres, by omega, ?_⟩
  have e2 : (((63 + sh : Nat) : Int) - 63 + k).toNat = sh + k := by omega
  rw [e2, Nat.pow_add, ← Nat.mul_assoc, Nat.mul_div_cancel _ (Nat.two_pow_pos k),
    Nat.add_comm, Nat.add_mul_div_right _ _ (Nat.two_pow_pos k),
    Nat.div_eq_of_lt (Nat.pow_lt_pow_right (by decide) (by omega)), Nat.zero_add]

/-- regime (ii): `|x| < 2^-12`; the sum rounds, but stays in `[0.5, 0.5 + 2^-11]` -/
theorem core_tiny (neg : Bool) (m j k : Nat) (hm : m < 2^53) (hjk : j + 64 < k) :
    ∃ m' e', x87ext.roundND neg (m * 2^j + 2^(k-1)) (2^k) = .fin neg m' e' ∧ -(k:Int) ≤ e' ∧
      (m' * 2^(e' + k).toNat) / 2^k = (m * 2^j + 2^(k-1)) / 2^k := by
  have hu := Nat.two_pow_pos (k - 12)
  have e1 : 2^(k-1) = 2048 * 2^(k-12) := by rw [pow_split (show k - 1 = 11 + (k - 12) by omega)]
  have e2 : 2^k = 4096 * 2^(k-12) := by rw [pow_split (show k = 12 + (k - 12) by omega)]
  have hb : m * 2^j < 2^(k-12) := by
    have h1 : m * 2^j < 2^53 * 2^j := Nat.mul_lt_mul_of_pos_right hm (Nat.two_pow_pos j)
    have h2 : 2^53 * 2^j ≤ 2^(k-12) := by
      rw [← Nat.pow_add]; exact Nat.pow_le_pow_right (by decide) (by omega)
    omega
  generalize m * 2^j = r at hb
  have hne : r + 2^(k-1) ≠ 0 := by omega
  have hlog : (r + 2^(k-1)).log2 = k - 1 := by
    rw [Nat.log2_eq_iff hne, show k - 1 + 1 = k by omega]
    constructor <;> omega
  have hd := Nat.two_pow_pos k
  obtain ⟨hr1, hr2⟩ := rhe_bounds ((r + 2^(k-1)) * 2^64) (2^k)
  have hq1 : 2^63 ≤ (r + 2^(k-1)) * 2^64 / 2^k := by
    rw [Nat.le_div_iff_mul_le hd]; omega
  have hq2 : (r + 2^(k-1)) * 2^64 / 2^k < 2^63 + 2^52 := by
    rw [Nat.div_lt_iff_lt_mul hd]; omega
  have hres := roundND_x87 neg (r + 2^(k-1)) k hne (-1) (by rw [hlog]; omega) (by omega) (by omega)
    (roundHalfEven ((r + 2^(k-1)) * 2^64) (2^k)) (by simp) (by omega)
  refine ⟨_, _, hres, by omega, ?_⟩
  generalize roundHalfEven ((r + 2^(k-1)) * 2^64) (2^k) = mr at hr1 hr2
  have e3 : ((-1:Int) - 63 + k).toNat = k - 64 := by omega
  have hW : mr * 2^(k - 64) < 2^k := by
    rw [pow_split (show k = 64 + (k - 64) by omega)]
    exact Nat.mul_lt_mul_of_pos_right (by omega) (Nat.two_pow_pos _)
  rw [e3, Nat.div_eq_of_lt hW, Nat.div_eq_of_lt (by omega)]

/-- one rounding of the biased sum `(m 2^j + 2^(k-1)) / 2^k`, `m < 2^53`, into long double never
changes its integer part -/
theorem roundND_bias_core (neg : Bool) (m j k : Nat) (hm : m < 2^53) (hk : 64 ≤ k)
    (hhi : (m.log2 : Int) + j - k ≤ 16383) :
    ∃ m' e', x87ext.roundND neg (m * 2^j + 2^(k-1)) (2^k) = .fin neg m' e' ∧ -(k:Int) ≤ e' ∧
      (m' * 2^(e' + k).toNat) / 2^k = (m * 2^j + 2^(k-1)) / 2^k := by
  by_cases hm0 : m = 0
  · subst hm0
    have h1 : Nat.log2 1 = 0 := by decide
    obtain ⟨m', e', h, he, hW⟩ := core_exact neg 1 (k-1) k (by decide) (by decide) (by rw [h1]; omega)
      (by rw [h1]; omega) (by rw [h1]; omega)
    rw [Nat.one_mul] at h hW
    exact ⟨m', e', by rw [Nat.zero_mul, Nat.zero_add]; exact h, he, by rw [Nat.zero_mul, Nat.zero_add, hW]⟩
  have hL53 : m.log2 < 53 := log2_lt_prec hm0 hm
  by_cases h1 : j + 64 < k
  · exact core_tiny neg m j k hm h1
  by_cases h2 : j + 1 < k
  · -- -64 ≤ e < -1
    have hp := Nat.two_pow_pos (k - 1 - j)
    have hN : m + 2^(k-1-j) ≠ 0 := by omega
    have hle : 2^(k-1-j) ≤ 2^63 := Nat.pow_le_pow_right (by decide) (by omega)
    have hlt : m + 2^(k-1-j) < 2^64 := by omega
    have hL1 : k - 1 - j ≤ (m + 2^(k-1-j)).log2 := (Nat.le_log2 hN).2 (by omega)
    have hL2 : (m + 2^(k-1-j)).log2 < 64 := log2_lt_prec hN hlt
    obtain ⟨m', e', h, he, hW⟩ := core_exact neg (m + 2^(k-1-j)) j k hN hlt (by omega) (by omega) (by omega)
    have en : (m + 2^(k-1-j)) * 2^j = m * 2^j + 2^(k-1) := by
      rw [Nat.add_mul, ← Nat.pow_add]; congr 2; omega
    rw [en] at h hW
    exact ⟨m', e', h, he, by rw [hW]⟩
  by_cases h3 : m.log2 + (j + 1 - k) ≤ 63
  · -- -1 ≤ e, |x| < 2^63
    have hN : m * 2^(j+1-k) + 1 ≠ 0 := by omega
    have hlt : m * 2^(j+1-k) + 1 < 2^64 := by
      by_cases ha : j + 1 - k = 0
      · rw [ha]; omega
      · have hy : m * 2^(j+1-k-1) < 2^63 := by
          have := Nat.mul_lt_mul_of_pos_right (Nat.lt_log2_self (n := m)) (Nat.two_pow_pos (j+1-k-1))
          rw [← Nat.pow_add] at this
          exact Nat.lt_of_lt_of_le this (Nat.pow_le_pow_right (by decide) (by omega))
        have : m * 2^(j+1-k) = 2 * (m * 2^(j+1-k-1)) := by
          rw [pow_split (show j + 1 - k = 1 + (j + 1 - k - 1) by omega)]
          rw [← Nat.mul_assoc, ← Nat.mul_assoc, Nat.mul_comm m 2]
        omega
    have hL2 : (m * 2^(j+1-k) + 1).log2 < 64 := log2_lt_prec hN hlt
    obtain ⟨m', e', h, he, hW⟩ := core_exact neg (m * 2^(j+1-k) + 1) (k-1) k hN hlt (by omega) (by omega) (by omega)
    have en : (m * 2^(j+1-k) + 1) * 2^(k-1) = m * 2^j + 2^(k-1) := by
      rw [Nat.add_mul, Nat.one_mul, Nat.mul_assoc, ← Nat.pow_add]; congr 3; omega
    rw [en] at h hW
    exact ⟨m', e', h, he, by rw [hW]⟩
  · exact core_large neg m j k hm0 hm hk (by omega) (by omega) (by omega)

theorem sval_tdiv (s : Bool) (W d : Nat) : (sval s W).tdiv (d : Int) = sval s (W / d) := by
  unfold sval
  cases s
  · simp only [Bool.false_eq_true, ite_false]
    rw [Int.natCast_ediv, Int.tdiv_eq_ediv_of_nonneg (by omega)]
  · simp only [ite_true]
    rw [Int.neg_tdiv, Int.natCast_ediv, Int.tdiv_eq_ediv_of_nonneg (by omega)]

/-- truncating a value with the integer part of the biased sum is nearest, ties away from zero -/
theorem nearest_trunc (s : Bool) (m : Nat) (e : Int) (k j : Nat) (hje : (j:Int) - k = e) (hk : 1 ≤ k)
    (m' : Nat) (e' : Int) (hek : -(k:Int) ≤ e')
    (hW : (m' * 2^(e' + k).toNat) / 2^k = (m * 2^j + 2^(k-1)) / 2^k) :
    truncInt (decide (sval s m < 0)) m' e' = roundDyadic .nearestAway (sval s m) e := by
  rw [truncInt_eq_roundDyadic, roundDyadic_rescale .truncate _ hek (show -(k:Int) ≤ 0 by omega),
    roundDyadic_rescale .nearestAway _ (show -(k:Int) ≤ e by omega) (show -(k:Int) ≤ 0 by omega)]
  have e1 : (e' - -(k:Int)).toNat = (e' + k).toNat := by omega
  have e2 : (e - -(k:Int)).toNat = j := by omega
  have e3 : (- -(k:Int)).toNat = k := by omega
  rw [e1, e2, e3]
  simp only [roundShift]
  rw [← natCast_two_pow (e' + k).toNat, ← sval_mul, ← natCast_two_pow k, sval_tdiv, hW,
    ← natCast_two_pow j, ← sval_mul, natAbs_sval, ← natCast_two_pow (k+1)]
  have hdiv : (2 * ((m * 2^j : Nat) : Int) + ((2^k : Nat) : Int)) / ((2^(k+1) : Nat) : Int)
      = (((m * 2^j + 2^(k-1)) / 2^k : Nat) : Int) := by
    have : 2 * ((m * 2^j : Nat) : Int) + ((2^k : Nat) : Int) = ((2 * (m * 2^j + 2^(k-1)) : Nat) : Int) := by
      rw [pow_split (show k = 1 + (k - 1) by omega)]
      omega
    rw [this, pow_split (show k + 1 = 1 + k by omega), ← Int.natCast_ediv, Nat.pow_one,
      Nat.mul_div_mul_left _ _ (by decide : 0 < 2)]
  rw [hdiv]
  by_cases hm0 : m = 0
  · subst hm0
    have : (0 * 2^j + 2^(k-1)) / 2^k = 0 := by
      rw [Nat.zero_mul, Nat.zero_add]; exact Nat.div_eq_of_lt (Nat.pow_lt_pow_right (by decide) (by omega))
    rw [this, sval_zero]; simp
  · have hpos : m * 2^j ≠ 0 := by
      have := Nat.mul_pos (Nat.pos_of_ne_zero hm0) (Nat.two_pow_pos j); omega
    rw [sval_neg_iff s hm0]
    generalize (m * 2^j + 2^(k-1)) / 2^k = Y
    unfold sgn sval
    cases s
    · have h1 : ¬ ((m * 2^j : Nat) : Int) < 0 := by omega
      have h2 : ¬ ((m * 2^j : Nat) : Int) = 0 := by omega
      simp only [Bool.false_eq_true, ite_false, h1, h2, Int.one_mul]
    · have h1 : -((m * 2^j : Nat) : Int) < 0 := by omega
      simp only [ite_true, h1]; omega

/-- nearest, every canonical `float` / `double` value: the long double bias is harmless -/
theorem float_nrst_narrow (f : Fmt) (hn : Narrow f) (D : IntTy) (s : Bool) (m : Nat) (e : Int)
    (hc : f.Canonical (.fin s m e) = true) (hfit : D.InRange (roundDyadic .nearestAway (sval s m) e)) :
    RoundCvt.floatToInt .nrst f D (.fin s m e) = .ok (roundDyadic .nearestAway (sval s m) e) := by
  obtain ⟨k, j, hk, hje, hb⟩ := biased_roundND f hn s m e hc
  simp only [Fmt.Canonical, Bool.and_eq_true, Bool.or_eq_true, decide_eq_true_eq] at hc
  obtain ⟨⟨⟨hlt, hlo⟩, hhi⟩, hnorm⟩ := hc
  obtain ⟨⟨hp1, hp⟩, hq, hmax⟩ := hn
  have hm53 : m < 2^53 := Nat.lt_of_lt_of_le hlt (Nat.pow_le_pow_right (by decide) hp)
  have hL : (m.log2 : Int) + j - k ≤ 16383 := by
    by_cases hm0 : m = 0
    · subst hm0; have : Nat.log2 0 = 0 := by decide
      rw [this]; omega
    · have := log2_lt_prec hm0 hlt; omega
  obtain ⟨m', e', hr, hek, hW⟩ := roundND_bias_core (decide (sval s m < 0)) m j k hm53 hk hL
  rw [float_nrst_eval f D s m e _ m' e' (hb.trans hr), nearest_trunc s m e k j hje (by omega) m' e' hek hW]
  simp only [intoRange, hfit, ite_true]

end Cnl.FloatP

namespace Cnl.FloatP
open Cnl Cnl.Spec Cnl.ScaledFloat

/-! ## floating point → scaled: `power_value<Float>` for radix 2 is exact -/

/-- `2^e` as a normal number of the format -/
def pow2F (f : Fmt) (e : Int) : FVal := .fin false (2^(f.prec - 1)) (e - ((f.prec : Int) - 1))

theorem log2_one : Nat.log2 1 = 0 := by decide

/-- a significand that fits the precision, times any power of two, in the normal range: exact -/
theorem ofDyadic_exact_mul (f : Fmt) (neg : Bool) {N : Nat} (hN : N ≠ 0) (hlt : N < 2^f.prec) (t : Nat) (e : Int)
    (hmin : f.emin ≤ (N.log2 : Int) + e + t) (hmax : (N.log2 : Int) + e + t ≤ f.emax) :
    f.ofDyadic neg (N * 2^t) e
      = .fin neg (N * 2^(f.prec - 1 - N.log2)) ((N.log2 : Int) + e + t - ((f.prec : Int) - 1)) := by
  unfold Fmt.ofDyadic
  split
  · rename_i h
    have := roundND_exact f neg hN hlt (t + e.toNat) 0 (by omega) (by omega)
    rw [Nat.pow_zero] at this
    rw [Nat.mul_assoc, ← Nat.pow_add, this]; congr 1; omega
  · rename_i h
    have := roundND_exact f neg hN hlt t (-e).toNat (by omega) (by omega)
    rw [this]; congr 1; omega

theorem mul_pow2F (f : Fmt) (hf : FmtOk f) (a b : Int) (hmin : f.emin ≤ a + b) (hmax : a + b ≤ f.emax) :
    f.mul (pow2F f a) (pow2F f b) = pow2F f (a + b) := by
  obtain ⟨h1, h2, h3⟩ := hf
  have hlt : 1 < 2^f.prec := by
    have : 2^1 ≤ 2^f.prec := Nat.pow_le_pow_right (by decide) (by omega)
    omega
  have := ofDyadic_exact_mul f false (N := 1) (by decide) hlt ((f.prec - 1) + (f.prec - 1))
    (a - ((f.prec : Int) - 1) + (b - ((f.prec : Int) - 1))) (by rw [log2_one]; omega) (by rw [log2_one]; omega)
  rw [Nat.one_mul, Nat.one_mul, log2_one, Nat.sub_zero] at this
  simp only [pow2F, Fmt.mul, bne_self_eq_false, ← Nat.pow_add]
  rw [this]; congr 1; omega

theorem ofInt_one_pow2F (f : Fmt) (hf : FmtOk f) : f.ofInt 1 = pow2F f 0 := by
  obtain ⟨h1, h2, h3⟩ := hf
  have hlt : 1 < 2^f.prec := by
    have : 2^1 ≤ 2^f.prec := Nat.pow_le_pow_right (by decide) (by omega)
    omega
  have := roundND_exact f false (N := 1) (by decide) hlt 0 0 (by rw [log2_one]; omega) (by rw [log2_one]; omega)
  rw [Nat.pow_zero, Nat.one_mul, Nat.one_mul, log2_one, Nat.sub_zero] at this
  simp only [Fmt.ofInt, pow2F]
  rw [show (1:Int).natAbs = 1 from rfl, show decide ((1:Int) < 0) = false from rfl, this]; congr 1

theorem ofInt_two_pow2F (f : Fmt) (hf : FmtOk f) : f.ofInt ((2:Nat):Int) = pow2F f 1 := by
  obtain ⟨h1, h2, h3⟩ := hf
  have hlt : 1 < 2^f.prec := by
    have : 2^1 ≤ 2^f.prec := Nat.pow_le_pow_right (by decide) (by omega)
    omega
  have := roundND_exact f false (N := 1) (by decide) hlt 1 0 (by rw [log2_one]; omega) (by rw [log2_one]; omega)
  rw [Nat.pow_zero, Nat.one_mul, Nat.one_mul, log2_one, Nat.sub_zero] at this
  simp only [Fmt.ofInt, pow2F]
  rw [show (((2:Nat):Int)).natAbs = 2^1 from rfl, show decide (((2:Nat):Int) < 0) = false from rfl, this]; congr 1

/-- repeated squaring of 2 is exact -/
theorem powPos_two (f : Fmt) (hf : FmtOk f) (fuel : Nat) : ∀ e : Nat, e ≤ fuel → (e : Int) ≤ f.emax →
    powPos f 2 fuel e = pow2F f e := by
  induction fuel with
  | zero =>
    intro e he _
    have : e = 0 := by omega
    subst this
    exact ofInt_one_pow2F f hf
  | succ n ih =>
    intro e he hmax
    have hmin := hf.2.1
    by_cases h0 : e = 0
    · subst h0; simp only [powPos, ite_true]; exact ofInt_one_pow2F f hf
    · by_cases hev : e % 2 = 0
      · simp only [powPos, h0, ite_false, hev, ite_true]
        rw [ih (e / 2) (by omega) (by omega), mul_pow2F f hf _ _ (by omega) (by omega)]
        congr 1; omega
      · simp only [powPos, h0, ite_false, hev]
        rw [ih (e - 1) (by omega) (by omega), ofInt_two_pow2F f hf, mul_pow2F f hf _ _ (by omega) (by omega)]
        congr 1; omega

theorem div_one_pow2F (f : Fmt) (hf : FmtOk f) (k : Nat) (hmin : f.emin ≤ -(k:Int)) :
    f.div (pow2F f 0) (pow2F f k) = pow2F f (-(k:Int)) := by
  obtain ⟨h1, h2, h3⟩ := hf
  have hlt : 1 < 2^f.prec := by
    have : 2^1 ≤ 2^f.prec := Nat.pow_le_pow_right (by decide) (by omega)
    omega
  have hp := Nat.two_pow_pos (f.prec - 1)
  have hm2 : 2^(f.prec - 1) ≠ 0 := by omega
  by_cases hk : k = 0
  · subst hk
    have := roundND_exact f false (N := 1) (by decide) hlt (f.prec - 1) (f.prec - 1) (by rw [log2_one]; omega)
      (by rw [log2_one]; omega)
    rw [Nat.one_mul, Nat.one_mul, log2_one, Nat.sub_zero] at this
    simp only [pow2F, Fmt.div, hm2, ite_false, bne_self_eq_false]
    have h0 : (0:Int) ≤ 0 - ((f.prec:Int) - 1) - (((0:Nat):Int) - ((f.prec:Int) - 1)) := by omega
    have e0 : (0 - ((f.prec:Int) - 1) - (((0:Nat):Int) - ((f.prec:Int) - 1))).toNat = 0 := by omega
    rw [if_pos h0, e0, Nat.pow_zero, Nat.mul_one, this]; congr 1; omega
  · have := roundND_exact f false (N := 1) (by decide) hlt (f.prec - 1) (f.prec - 1 + k) (by rw [log2_one]; omega)
      (by rw [log2_one]; omega)
    rw [Nat.one_mul, Nat.one_mul, log2_one, Nat.sub_zero] at this
    simp only [pow2F, Fmt.div, hm2, ite_false, bne_self_eq_false]
    have h0 : ¬ (0:Int) ≤ 0 - ((f.prec:Int) - 1) - ((k:Int) - ((f.prec:Int) - 1)) := by omega
    have e0 : (-(0 - ((f.prec:Int) - 1) - ((k:Int) - ((f.prec:Int) - 1)))).toNat = k := by omega
    rw [if_neg h0, e0, ← Nat.pow_add, this]; congr 1; omega

/-- `power_value<Float, e, 2>()` is exactly `2^e` whenever `2^e` and `2^|e|` are normal numbers -/
theorem powerValueF_two (f : Fmt) (hf : FmtOk f) (e : Int) (hmin : f.emin ≤ e) (hmax : e ≤ f.emax)
    (hneg : -e ≤ f.emax) : powerValueF f 2 e = pow2F f e := by
  unfold powerValueF
  by_cases h0 : e = 0
  · subst h0; simp only [ite_true, fone]; exact ofInt_one_pow2F f hf
  · by_cases hp : e > 0
    · simp only [h0, ite_false, hp, ite_true]
      rw [powPos_two f hf _ _ (by omega) (by omega)]; congr 1; omega
    · simp only [h0, ite_false, hp, fone]
      rw [powPos_two f hf _ _ (by omega) (by omega), ofInt_one_pow2F f hf, div_one_pow2F f hf _ (by omega)]
      congr 1; omega

/-- the product `x · 2^(-eD)` is zero or a normal number of the format -/
def ScaleOk (f : Fmt) (eD : Int) (m : Nat) (e : Int) : Prop :=
  m = 0 ∨ (m < 2^f.prec ∧ f.emin ≤ (m.log2 : Int) + e - eD ∧ (m.log2 : Int) + e - eD ≤ f.emax)

instance (f : Fmt) (eD : Int) (m : Nat) (e : Int) : Decidable (ScaleOk f eD m e) := by
  unfold ScaleOk; exact inferInstance

/-- `2^(-eD)` and `2^eD` are normal numbers of the format -/
def PowF (f : Fmt) (eD : Int) : Prop := f.emin ≤ -eD ∧ -eD ≤ f.emax ∧ eD ≤ f.emax

instance (f : Fmt) (eD : Int) : Decidable (PowF f eD) := by unfold PowF; exact inferInstance

theorem truncInt_zero (s : Bool) (E : Int) : truncInt s 0 E = 0 := by
  unfold truncInt; cases s <;> simp

/-- the integer part depends on the value only -/
theorem truncInt_scale (s : Bool) (M c : Nat) (E : Int) : truncInt s (M * 2^c) (E - c) = truncInt s M E := by
  rw [truncInt_eq_roundDyadic, truncInt_eq_roundDyadic]
  have hq1 : min (E - c) 0 ≤ E - c := by omega
  have hq2 : min (E - c) 0 ≤ E := by omega
  have hq0 : min (E - c) 0 ≤ 0 := by omega
  generalize min (E - c) 0 = q at hq1 hq2 hq0
  rw [roundDyadic_rescale .truncate _ hq1 hq0, roundDyadic_rescale .truncate _ hq2 hq0, sval_mul, natCast_two_pow,
    Int.mul_assoc, ← Int.pow_add]
  congr 3; omega

theorem ofDyadic_zero (f : Fmt) (neg : Bool) (e : Int) : f.ofDyadic neg 0 e = .fin neg 0 f.qmin := by
  simp only [Fmt.ofDyadic, Fmt.roundND, Nat.zero_mul, ite_true, ite_self]

/-- float → scaled, native: the product with the exact power of two is exact, then truncated -/
theorem fromFloat_eval (f : Fmt) (hf : FmtOk f) (D : IntTy) (eD : Int) (hp : PowF f eD)
    (s : Bool) (m : Nat) (e : Int) (hx : ScaleOk f eD m e) :
    fromFloat f 2 D eD (.fin s m e) = intoRange D (roundDyadic .truncate (sval s m) (e - eD)) := by
  obtain ⟨hp1, hp2, hp3⟩ := hp
  rw [← truncInt_eq_roundDyadic]
  unfold fromFloat
  rw [powerValueF_two f hf (-eD) hp1 hp2 (by omega)]
  simp only [pow2F, Fmt.mul, Bool.bne_false]
  rcases hx with hm | ⟨hlt, hlo, hhi⟩
  · subst hm
    rw [Nat.zero_mul, ofDyadic_zero]
    simp only [fToInt, truncInt_zero]
  · by_cases hm : m = 0
    · subst hm
      rw [Nat.zero_mul, ofDyadic_zero]
      simp only [fToInt, truncInt_zero]
    · have hL := log2_lt_prec hm hlt
      rw [ofDyadic_exact_mul f s hm hlt (f.prec - 1) _ (by omega) (by omega)]
      simp only [fToInt]
      have ee : (m.log2 : Int) + (e + (-eD - ((f.prec : Int) - 1))) + ((f.prec - 1 : Nat) : Int) - ((f.prec : Int) - 1)
          = (e - eD) - ((f.prec - 1 - m.log2 : Nat) : Int) := by omega
      rw [ee, truncInt_scale]

/-- truncation toward zero and the floor agree on non-negative values and on exact multiples -/
def TruncIsFloor (a : Int) (k : Int) : Prop := 0 ≤ a ∨ 0 ≤ k ∨ a % 2^(-k).toNat = 0

instance (a k : Int) : Decidable (TruncIsFloor a k) := by unfold TruncIsFloor; exact inferInstance

theorem trunc_eq_floor {a k : Int} (h : TruncIsFloor a k) :
    roundDyadic .truncate a k = roundDyadic .floor a k := by
  unfold roundDyadic
  by_cases hk : 0 ≤ k
  · simp only [hk, ite_true]
  · simp only [hk, ite_false, roundShift]
    rcases h with h | h | h
    · exact Int.tdiv_eq_ediv_of_nonneg h
    · exact absurd h hk
    · exact Int.tdiv_eq_ediv_of_dvd (Int.dvd_of_emod_eq_zero h)

/-- `floatToScaled` in terms of `fromFloat` of the biased sum -/
theorem floatToScaled_nrst_eq (f : Fmt) (D : IntTy) (eD : Int) (s : Bool) (m : Nat) (e : Int) :
    RoundCvt.floatToScaled .nrst f D eD (.fin s m e)
      = fromFloat f 2 D eD (if 0 ≤ sval s m then f.add (.fin s m e) (powerValueF f 2 (eD - 1))
          else f.sub (.fin s m e) (powerValueF f 2 (eD - 1))) := by
  simp only [RoundCvt.floatToScaled, fCmp_ge_zero, decide_eq_true_eq]

end Cnl.FloatP

namespace Cnl.FloatP
open Cnl Cnl.Spec Cnl.ScaledFloat

/-- a product `x · 2^(-eD)` below the normal range: the multiplication may round, but the result stays
below one unit, like the exact product -/
theorem fromFloat_subnormal (f : Fmt) (hf : FmtOk f) (hneg : f.emin < 0) (D : IntTy) (eD : Int) (hp : PowF f eD)
    (s : Bool) (m : Nat) (e : Int) (hm : m ≠ 0) (hlt : m < 2^f.prec) (hsub : (m.log2 : Int) + e - eD < f.emin) :
    fromFloat f 2 D eD (.fin s m e) = intoRange D (roundDyadic .truncate (sval s m) (e - eD)) := by
  obtain ⟨hp1, hp2, hp3⟩ := hp
  obtain ⟨h1, h2, h3⟩ := hf
  have hL := log2_lt_prec hm hlt
  have hq : f.qmin = f.emin - ((f.prec : Int) - 1) := rfl
  -- the exact truncation is zero
  have hspec : roundDyadic .truncate (sval s m) (e - eD) = 0 := by
    have hk : ¬ 0 ≤ e - eD := by omega
    simp only [roundDyadic, hk, ite_false, roundShift]
    rw [← natCast_two_pow, sval_tdiv]
    have : m / 2^(-(e - eD)).toNat = 0 := by
      apply Nat.div_eq_of_lt
      exact Nat.lt_of_lt_of_le (Nat.lt_log2_self (n := m)) (Nat.pow_le_pow_right (by decide) (by omega))
    rw [this, sval_zero]
  rw [hspec]
  unfold fromFloat
  rw [powerValueF_two f ⟨h1, h2, h3⟩ (-eD) hp1 hp2 (by omega)]
  simp only [pow2F, Fmt.mul, Bool.bne_false, Fmt.ofDyadic]
  have hE : ¬ 0 ≤ e + (-eD - ((f.prec : Int) - 1)) := by omega
  rw [if_neg hE]
  have hn0 : m * 2^(f.prec - 1) ≠ 0 := by
    have := Nat.mul_pos (Nat.pos_of_ne_zero hm) (Nat.two_pow_pos (f.prec - 1)); omega
  have hlog : ilog2Q (m * 2^(f.prec - 1)) (2^(-(e + (-eD - ((f.prec : Int) - 1)))).toNat) = (m.log2 : Int) + e - eD := by
    rw [ilog2Q_pow2 hn0, log2_mul_two_pow hm]; omega
  have hsh : ¬ 0 ≤ f.emin - ((f.prec : Int) - 1) := by omega
  simp only [Fmt.roundND, hn0, ite_false, hlog, hsub, ite_true, hsh]
  generalize hb : (-(e + (-eD - ((f.prec : Int) - 1)))).toNat = b
  generalize hc : (-(f.emin - ((f.prec : Int) - 1))).toNat = c
  obtain ⟨hr1, hr2⟩ := rhe_bounds (m * 2^(f.prec - 1) * 2^c) (2^b)
  have hquot : m * 2^(f.prec - 1) * 2^c / 2^b < 2^(f.prec - 1) := by
    rw [Nat.div_lt_iff_lt_mul (Nat.two_pow_pos b), Nat.mul_assoc, ← Nat.pow_add, ← Nat.pow_add]
    have h2' := Nat.mul_lt_mul_of_pos_right (Nat.lt_log2_self (n := m)) (Nat.two_pow_pos (f.prec - 1 + c))
    rw [← Nat.pow_add] at h2'
    exact Nat.lt_of_lt_of_le h2' (Nat.pow_le_pow_right (by decide) (by omega))
  generalize roundHalfEven (m * 2^(f.prec - 1) * 2^c) (2^b) = mr at hr1 hr2
  have hpp : 2^f.prec = 2 * 2^(f.prec - 1) := by rw [pow_split (show f.prec = 1 + (f.prec - 1) by omega)]
  have hp0 := Nat.two_pow_pos (f.prec - 1)
  have hne : mr ≠ 2^f.prec := by omega
  have hnm : ¬ f.emax < f.emin - ((f.prec : Int) - 1) + ((f.prec : Int) - 1) := by omega
  simp only [hne, ite_false, hnm, fToInt]
  congr 1
  simp only [truncInt, hsh, ite_false, hc]
  have : mr / 2^c = 0 := by
    apply Nat.div_eq_of_lt
    have : 2^(f.prec - 1) < 2^c := Nat.pow_lt_pow_right (by decide) (by omega)
    omega
  rw [this]; cases s <;> simp

/-- the product `x · 2^(-eD)` does not overflow the format (`m` a significand of the format) -/
def ScaleFits (f : Fmt) (eD : Int) (m : Nat) (e : Int) : Prop :=
  m < 2^f.prec ∧ (m = 0 ∨ (m.log2 : Int) + e - eD ≤ f.emax)

instance (f : Fmt) (eD : Int) (m : Nat) (e : Int) : Decidable (ScaleFits f eD m e) := by
  unfold ScaleFits; exact inferInstance

/-- float → scaled, native: truncation of the exact product, for every significand of the format -/
theorem fromFloat_fits (f : Fmt) (hf : FmtOk f) (hneg : f.emin < 0) (D : IntTy) (eD : Int) (hp : PowF f eD)
    (s : Bool) (m : Nat) (e : Int) (hx : ScaleFits f eD m e) :
    fromFloat f 2 D eD (.fin s m e) = intoRange D (roundDyadic .truncate (sval s m) (e - eD)) := by
  obtain ⟨hlt, hhi⟩ := hx
  by_cases hm : m = 0
  · exact fromFloat_eval f hf D eD hp s m e (Or.inl hm)
  · have hhi' : (m.log2 : Int) + e - eD ≤ f.emax := by
      rcases hhi with h | h
      · exact absurd h hm
      · exact h
    by_cases hn : f.emin ≤ (m.log2 : Int) + e - eD
    · exact fromFloat_eval f hf D eD hp s m e (Or.inr ⟨hlt, hn, hhi'⟩)
    · exact fromFloat_subnormal f hf hneg D eD hp s m e hm hlt (by omega)

end Cnl.FloatP
