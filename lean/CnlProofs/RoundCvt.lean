import CnlProofs.CIntLemmas
import CnlProofs.Rounding
import CnlProofs.Scaled
import CnlModel.RoundCvt
import CnlSpec.RoundCvt
/-!
# Lemmas for C09: narrowing conversions under a rounding tag

* `Cnl.Spec`: the shift-and-bias formulas of the code are the roundings of `CnlSpec.RoundCvt`;
* `Cnl.RoundCvtP`: step-by-step evaluation of `RoundCvt.scaledToScaled`.

Lean core only.
-/
set_option linter.unusedVariables false
set_option linter.unusedSimpArgs false

namespace Cnl.Spec

theorem two_pow_pred {k : Nat} (hk : 0 < k) : (2:Int)^k = 2 * 2^(k-1) := by
  obtain ⟨j, rfl⟩ : ∃ j, k = j + 1 := ⟨k - 1, by omega⟩
  simp only [Nat.add_sub_cancel]
  exact two_pow_succ j

/-- `(v + 2^(k-1)) >> k = ⌊v/2^k + 1/2⌋` -/
theorem shift_bias_eq (v : Int) {k : Nat} (hk : 0 < k) :
    (v + 2^(k-1)) / 2^k = roundShift .nearestUp v k := by
  unfold roundShift
  simp only
  rw [two_pow_succ k]
  have hp := two_pow_pos k
  have e : 2 * v + 2^k = 2 * (v + 2^(k-1)) := by rw [two_pow_pred hk]; omega
  rw [e, Int.mul_ediv_mul_of_pos _ _ (by decide : (0:Int) < 2)]

/-- floor and truncation agree on non-negative values -/
theorem tdiv_eq_ediv_of_nonneg {a b : Int} (ha : 0 ≤ a) : a.tdiv b = a / b := by
  exact Int.tdiv_eq_ediv_of_nonneg ha

/-- `trunc((v ± 2^(k-1)) / 2^k)` (sign of the bias = sign of `v`) is nearest, ties away from zero -/
theorem trunc_bias_eq (v : Int) {k : Nat} (hk : 0 < k) :
    (if 0 ≤ v then v + 2^(k-1) else v - 2^(k-1)).tdiv (2^k) = roundShift .nearestAway v k := by
  unfold roundShift
  simp only
  rw [two_pow_succ k]
  have hp := two_pow_pos (k-1)
  have e2 := two_pow_pred hk
  by_cases h : 0 ≤ v
  · simp only [h, ite_true]
    have hn : ((v.natAbs : Nat) : Int) = v := by omega
    have e : 2 * (v.natAbs : Int) + 2^k = 2 * (v + 2^(k-1)) := by rw [hn, e2]; omega
    rw [e, Int.mul_ediv_mul_of_pos _ _ (by decide : (0:Int) < 2), Int.tdiv_eq_ediv_of_nonneg (by omega)]
    unfold sgn
    by_cases h0 : v = 0
    · subst h0
      simp only [Int.zero_add, Int.lt_irrefl, ite_false, ite_true, Int.zero_mul]
      rw [e2]
      exact Int.ediv_eq_zero_of_lt (by omega) (by omega)
    · have : ¬ v < 0 := by omega
      simp only [this, h0, ite_false, Int.one_mul]
  · simp only [h, ite_false]
    have hn : ((v.natAbs : Nat) : Int) = -v := by omega
    have e : 2 * (v.natAbs : Int) + 2^k = 2 * (-v + 2^(k-1)) := by rw [hn, e2]; omega
    rw [e, Int.mul_ediv_mul_of_pos _ _ (by decide : (0:Int) < 2)]
    have : v < 0 := by omega
    unfold sgn
    simp only [this, ite_true]
    have e3 : v - 2^(k-1) = -(-v + 2^(k-1)) := by omega
    rw [e3, Int.neg_tdiv, Int.tdiv_eq_ediv_of_nonneg (by omega)]
    omega

/-- the integer formulas are the rounded quotients of `CnlSpec.Rounding` with divisor `2^k` -/
theorem roundShift_eq_roundDiv (m : RoundMode) (v : Int) (k : Nat) :
    roundShift m v k = roundDiv m v (2^k) := by
  have hp := two_pow_pos k
  have hs : sgn ((2:Int)^k) = 1 := by
    unfold sgn
    have h1 : ¬ (2:Int)^k < 0 := by omega
    have h2 : ¬ (2:Int)^k = 0 := by omega
    simp only [h1, h2, ite_false]
  have hn : (((2:Int)^k).natAbs : Int) = 2^k := by omega
  cases m with
  | truncate => rfl
  | floor =>
    show v / 2^k = v.fdiv (2^k)
    rw [Int.fdiv_eq_ediv_of_nonneg _ (Int.le_of_lt hp)]
  | nearestUp =>
    show (2 * v + 2^k) / 2^(k+1) = (2 * v * sgn (2^k) + ((2:Int)^k).natAbs) / (2 * (((2:Int)^k).natAbs : Int))
    rw [hs, hn, two_pow_succ, Int.mul_one]
  | nearestAway =>
    show sgn v * ((2 * (v.natAbs : Int) + 2^k) / 2^(k+1))
      = sgn v * sgn (2^k) * ((2 * (v.natAbs : Int) + ((2:Int)^k).natAbs) / (2 * (((2:Int)^k).natAbs : Int)))
    rw [hs, hn, two_pow_succ, Int.mul_one]

/-- `roundShift` satisfies the division-free characterisation of the rounding mode -/
theorem roundShift_isRounded (m : RoundMode) (v : Int) (k : Nat) :
    IsRoundedShift m v k (roundShift m v k) := by
  unfold IsRoundedShift
  rw [roundShift_eq_roundDiv]
  have hp := two_pow_pos k
  exact roundDiv_isRounded m v (2^k) (by omega)

end Cnl.Spec

namespace Cnl.RoundCvtP
open Cnl Cnl.Spec Cnl.Rounding Cnl.ScaledP Cnl.RoundCvt

/-! ## pieces of `scaledToScaled` -/

theorem two_pow_inRange {T : IntTy} {k : Nat} (h : k < T.digits) : T.InRange (2^k) := by
  have hz := zero_le_max T
  have hp := two_pow_pos k
  refine ⟨by omega, ?_⟩
  rw [IntTy.max_eq]
  exact two_pow_lt_iff.2 h

theorem powerValueInt_two (S : IntTy) {k : Nat} (hk : 0 < k) (h : k < (promote S).digits) :
    powerValueInt S k 2 = .ok (promote S, 2^k) := by
  have hk0 : k ≠ 0 := by omega
  simp only [powerValueInt, hk0, ite_false, ite_true, h]

/-- `static_cast<input>(from_rep<result>(1))`: the destination unit `2^k` expressed in the source
type — reduced modulo `2^bits` of the source representation -/
theorem unit_eval (S D : IntTy) (eS eD : Int) (h : eS < eD) (hk : (eD - eS).toNat < (promote D).digits) :
    Scaled.convert intOps 2 ⟨(.int D, 1), eD⟩ (.int S) eS
      = .ok ⟨(.int S, S.wrap (2^(eD - eS).toNat)), eS⟩ := by
  have hne : eD ≠ eS := by omega
  have hge : eD - eS ≥ 0 := by omega
  have hk0 : 0 < (eD - eS).toNat := by omega
  have hb := promote_bits_pos D
  have h32 := promote_bits_ge32 D
  have hr := two_pow_inRange hk
  have h1 : (promote D).InRange 1 := by
    have := lo_hi (promote D) h32
    constructor <;> omega
  simp only [Scaled.convert, hne, ite_false, intOps, liftTV, scaleInt, hge, ite_true,
    powerValueInt_two D hk0 hk, Res.bind_ok, cBin, usualArith_self_promote,
    IntTy.wrap_id hb h1, IntTy.wrap_id hb hr, Int.one_mul, arith_ok hb hr, Res.map, convert]
  rfl

theorem promote_two_inRange (S : IntTy) : (promote S).InRange 2 := by
  have := lo_hi (promote S) (promote_bits_ge32 S)
  constructor <;> omega

theorem digits_lt_promote {S : IntTy} (hS : 1 ≤ S.bits) {k : Nat} (h : k < S.digits) : k < (promote S).digits :=
  Nat.lt_of_lt_of_le h (promote_digits_le hS)

theorem two_pow_tdiv_two {k : Nat} (hk : 0 < k) : ((2:Int)^k).tdiv 2 = 2^(k-1) := by
  rw [two_pow_pred hk, Int.mul_tdiv_cancel_left _ (by decide)]

/-- `half() = static_cast<input>(from_rep<result>(1)) / 2` when the unit fits the source type -/
theorem half_eval (S : IntTy) (hS : 1 ≤ S.bits) {k : Nat} (hk : 0 < k) (hkS : k < S.digits) :
    intOps.bin .div (.int S, S.wrap (2^k)) (.int i32, 2) = .ok (.int (promote S), 2^(k-1)) := by
  have hb := promote_bits_pos S
  rw [IntTy.wrap_id hS (two_pow_inRange hkS)]
  have hr := two_pow_inRange (digits_lt_promote hS hkS)
  have hr' : (promote S).InRange (2^(k-1)) := two_pow_inRange (by have := digits_lt_promote hS hkS; omega)
  have := ev_div (usualArith_i32 S) hb hr (promote_two_inRange S) (by decide) (by omega)
    (by rw [two_pow_tdiv_two hk]; exact hr')
  rw [this, two_pow_tdiv_two hk]

/-- `from + half()` in the promoted source type, when the sum is representable there -/
theorem bias_add_eval (S : IntTy) (hS : 1 ≤ S.bits) {v h : Int} (hv : S.InRange v)
    (hh : (promote S).InRange h) (hsum : (promote S).InRange (v + h)) :
    intOps.bin .add (.int S, v) (.int (promote S), h) = .ok (.int (promote S), v + h) := by
  have hb := promote_bits_pos S
  have hv' := promote_inRange hS hv
  exact ev_add (usualArith_self_promote S) hb hv'.1 hv'.2 hh.1 hh.2 hsum.1 hsum.2

theorem digits_le_bits (T : IntTy) : T.digits ≤ T.bits := by
  unfold IntTy.digits; split <;> omega

/-- tie_to_pos_inf, scaled → coarser scaled -/
theorem tpi_eval (S D : IntTy) (eS eD : Int) (v : Int) (hS : 1 ≤ S.bits) (h : eS < eD)
    (hkD : (eD - eS).toNat < (promote D).digits) (hkS : (eD - eS).toNat < S.digits)
    (hv : S.InRange v) (hsum : (promote S).InRange (v + 2^((eD - eS).toNat - 1))) :
    scaledToScaled .tpi S eS D eD v
      = .ok (D, D.wrap ((v + 2^((eD - eS).toNat - 1)) / 2^(eD - eS).toNat)) := by
  have hk0 : 0 < (eD - eS).toNat := by omega
  have hle : ¬ eD ≤ eS := by omega
  have hkP := digits_lt_promote hS hkS
  have hr' : (promote S).InRange (2^((eD - eS).toNat - 1)) := two_pow_inRange (by omega)
  have hsh : ¬ (((eD - eS).toNat : Int) < 0 ∨ ((eD - eS).toNat : Int) ≥ (promote (promote S)).bits) := by
    rw [promote_promote]
    have := digits_le_bits (promote S)
    omega
  simp only [scaledToScaled, hle, ite_false, unit_eval S D eS eD h hkD, Res.bind_ok,
    half_eval S hS hk0 hkS, bias_add_eval S hS hv hr' hsum, cBin, hsh, Int.toNat_natCast, Res.pure_eq]

/-- neg_inf, scaled → coarser scaled: one arithmetic right shift of the representation -/
theorem ninf_eval (S D : IntTy) (eS eD : Int) (v : Int) (h : eS < eD)
    (hk : (eD - eS).toNat < (promote S).bits) :
    scaledToScaled .ninf S eS D eD v = .ok (promote S, v / 2^(eD - eS).toNat) := by
  have hle : ¬ eD ≤ eS := by omega
  have hsh : ¬ (((eD - eS).toNat : Int) < 0 ∨ ((eD - eS).toNat : Int) ≥ (promote S).bits) := by omega
  simp only [scaledToScaled, hle, ite_false, cBin, hsh, Int.toNat_natCast, Res.bind_ok, Res.pure_eq]

/-! ## the comparison `from >= 0` of the nearest conversion -/

/-- the instantiation of `from >= 0` (a scaled integer against the `int` zero, exponent 0) is
well-formed and free of overflow: the operand with the larger exponent is shifted to the smaller -/
def CmpZeroOk (S : IntTy) (eS : Int) (v : Int) : Prop :=
  if eS = 0 then True
  else if eS < 0 then (-eS).toNat < 31
  else eS.toNat < (promote S).digits ∧ ((promote S).signed = true → (promote S).InRange (v * 2^eS.toNat))

instance (S : IntTy) (eS : Int) (v : Int) : Decidable (CmpZeroOk S eS v) := by
  unfold CmpZeroOk; exact inferInstance

theorem zero_inRange (T : IntTy) : T.InRange 0 := zero_le_max T

theorem cmp_zero_same (S : IntTy) (hS : 1 ≤ S.bits) {v : Int} (hv : S.InRange v) :
    intOps.cmp .ge (.int S, v) (.int i32, 0) = .ok (decide (v ≥ 0)) := by
  have hv' := promote_inRange hS hv
  have hz := zero_inRange (promote S)
  exact ev_cmp (usualArith_i32 S) (promote_bits_pos S) .ge hv'.1 hv'.2 hz.1 hz.2

/-- scaling the constant zero is well-formed for shifts below the digits of the type -/
theorem scale_zero (T : IntTy) (hp : promote T = T) (hb : 1 ≤ T.bits) {j : Int} (hj : 0 < j)
    (hk : j.toNat < T.digits) : scaleInt j 2 (T, 0) = .ok (T, 0) := by
  have hge : j ≥ 0 := by omega
  have hk0 : 0 < j.toNat := by omega
  have hk' : j.toNat < (promote T).digits := by rw [hp]; exact hk
  have h := powerValueInt_two T hk0 hk'
  rw [hp] at h
  have hu : usualArith T T = T := by rw [usualArith_self, hp]
  simp only [scaleInt, hge, ite_true, h, Res.bind_ok, cBin, hu, IntTy.wrap_id hb (zero_inRange T),
    Int.zero_mul, arith_ok hb (zero_inRange T)]

theorem cmp_zero_neg (S : IntTy) (hS : 1 ≤ S.bits) {eS v : Int} (hv : S.InRange v) (he : eS < 0)
    (hok : (-eS).toNat < 31) :
    Scaled.cmp intOps .ge 2 ⟨(.int S, v), eS⟩ ⟨(.int i32, 0), 0⟩ = .ok (decide (v ≥ 0)) := by
  have hne : ¬ eS = 0 := by omega
  have hne' : ¬ (0:Int) = eS := by omega
  have hpi : promote i32 = i32 := by decide
  have hb : 1 ≤ i32.bits := by decide
  have hd : i32.digits = 31 := by decide
  have hsc := scale_zero i32 hpi hb (j := 0 - eS) (by omega) (by rw [hd]; omega)
  have hw : i32.wrap 0 = 0 := IntTy.wrap_id hb (zero_inRange i32)
  simp only [Scaled.cmp, hne, he, ite_false, ite_true, Scaled.convert, hne', intOps, liftTV, hsc,
    Res.bind_ok, Res.pure_eq, hpi, Res.map, convert, hw]
  exact cmp_zero_same S hS hv

theorem cmp_zero_pos (S : IntTy) (hS : 1 ≤ S.bits) {eS v : Int} (hv : S.InRange v) (he : 0 < eS)
    (hk : eS.toNat < (promote S).digits)
    (hfit : (promote S).signed = true → (promote S).InRange (v * 2^eS.toNat)) :
    Scaled.cmp intOps .ge 2 ⟨(.int S, v), eS⟩ ⟨(.int i32, 0), 0⟩ = .ok (decide (v ≥ 0)) := by
  have hne : ¬ eS = 0 := by omega
  have hlt : ¬ eS < 0 := by omega
  have hb := promote_bits_pos S
  have hw : PowOk S (eS - 0).toNat 2 := by right; simpa using hk
  have e0 : (eS - 0).toNat = eS.toNat := by simp
  have hsc := scaleInt_up_eq S hS (eS - 0) (by omega) 2 (by decide) hw v hv
  rw [e0, pw_two, IntTy.wrap_id hb (two_pow_inRange hk)] at hsc
  have hpp := two_pow_pos eS.toNat
  by_cases hs : (promote S).signed = true
  · rw [arith_ok hb (hfit hs)] at hsc
    have hr := hfit hs
    have hz := zero_inRange (promote S)
    have hc := ev_cmp (A := promote S) (B := i32) (usualArith_i32 (promote S)) (by rw [promote_promote]; exact hb) .ge
      (by rw [promote_promote]; exact hr.1) (by rw [promote_promote]; exact hr.2)
      (by rw [promote_promote]; exact hz.1) (by rw [promote_promote]; exact hz.2)
    have hd : decide (v * 2^eS.toNat ≥ 0) = decide (v ≥ 0) := by
      apply decide_eq_decide.2
      constructor
      · intro h1
        apply Decidable.byContradiction; intro h2
        have := Int.mul_lt_mul_of_pos_right (show v < 0 by omega) hpp
        omega
      · intro h1; exact Int.mul_nonneg h1 (Int.le_of_lt hpp)
    simp only [Scaled.cmp, hne, hlt, ite_false, Scaled.convert, intOps, liftTV, hsc, Res.bind_ok, Res.pure_eq, Res.map,
      convert, IntTy.wrap_id hb hr] at hc ⊢
    rw [hc]; simp only [cmpInt, hd]
  · have hs' : (promote S).signed = false := by simpa using hs
    rw [arith_unsigned hs'] at hsc
    have ⟨hSu, hPS⟩ := promote_unsigned hs'
    have hv0 : 0 ≤ v := by
      have := hv.1; rw [IntTy.lowest_eq] at this; simpa [hSu] using this
    have hr := wrap_inRange (promote S) hb (v * 2^eS.toNat)
    have hr0 : 0 ≤ (promote S).wrap (v * 2^eS.toNat) := by
      have := hr.1; rw [IntTy.lowest_eq] at this; simpa [hs'] using this
    have hz := zero_inRange (promote S)
    have hc := ev_cmp (A := promote S) (B := i32) (usualArith_i32 (promote S)) (by rw [promote_promote]; exact hb) .ge
      (by rw [promote_promote]; exact hr.1) (by rw [promote_promote]; exact hr.2)
      (by rw [promote_promote]; exact hz.1) (by rw [promote_promote]; exact hz.2)
    simp only [Scaled.cmp, hne, hlt, ite_false, Scaled.convert, intOps, liftTV, hsc, Res.bind_ok, Res.pure_eq, Res.map,
      convert, wrap_wrap] at hc ⊢
    rw [hc]; simp only [cmpInt, ge_iff_le, hr0, hv0]

/-- `from >= 0` evaluates to the sign test of the representation -/
theorem cmp_zero_eval (S : IntTy) (hS : 1 ≤ S.bits) {eS v : Int} (hv : S.InRange v) (hok : CmpZeroOk S eS v) :
    Scaled.cmp intOps .ge 2 ⟨(.int S, v), eS⟩ ⟨(.int i32, 0), 0⟩ = .ok (decide (v ≥ 0)) := by
  unfold CmpZeroOk at hok
  by_cases h0 : eS = 0
  · subst h0
    simp only [Scaled.cmp, ite_true]
    exact cmp_zero_same S hS hv
  · simp only [h0, ite_false] at hok
    by_cases hn : eS < 0
    · simp only [hn, ite_true] at hok
      exact cmp_zero_neg S hS hv hn hok
    · simp only [hn, ite_false] at hok
      exact cmp_zero_pos S hS hv (by omega) hok.1 hok.2

/-! ## nearest, scaled → coarser scaled -/

/-- the truncating `static_cast<result>(from ± half)`: `scale<-k>` divides by `2^k` toward zero -/
theorem down_eval (P D : IntTy) (hp : promote P = P) (hb : 1 ≤ P.bits) (eS eD : Int) (h : eS < eD)
    (hk : (eD - eS).toNat < P.digits) {s : Int} (hs : P.InRange s) :
    Scaled.convert intOps 2 ⟨(.int P, s), eS⟩ (.int D) eD
      = .ok ⟨(.int D, D.wrap (s.tdiv (2^(eD - eS).toNat))), eD⟩ := by
  have hne : ¬ eS = eD := by omega
  have hw : PowFits P (-(eS - eD)).toNat 2 := by
    unfold PowFits; rw [hp, pw_two]
    have : (-(eS - eD)).toNat = (eD - eS).toNat := by congr 1; omega
    rw [this]; exact two_pow_inRange hk
  have hsc := scaleInt_down P hb (eS - eD) (by omega) 2 (by decide) hw s hs
  have e : (-(eS - eD)).toNat = (eD - eS).toNat := by congr 1; omega
  rw [hp, pw_two, e] at hsc
  simp only [Scaled.convert, hne, ite_false, intOps, liftTV, hsc, Res.bind_ok, Res.pure_eq, Res.map, convert]

/-- nearest, scaled → coarser scaled -/
theorem nrst_eval (S D : IntTy) (eS eD : Int) (v : Int) (hS : 1 ≤ S.bits) (h : eS < eD)
    (hkD : (eD - eS).toNat < (promote D).digits) (hkS : (eD - eS).toNat < S.digits)
    (hv : S.InRange v) (hcmp : CmpZeroOk S eS v)
    (hsum : (promote S).InRange (if 0 ≤ v then v + 2^((eD - eS).toNat - 1) else v - 2^((eD - eS).toNat - 1))) :
    scaledToScaled .nrst S eS D eD v
      = .ok (D, D.wrap ((if 0 ≤ v then v + 2^((eD - eS).toNat - 1) else v - 2^((eD - eS).toNat - 1)).tdiv
                  (2^(eD - eS).toNat))) := by
  have hk0 : 0 < (eD - eS).toNat := by omega
  have hle : ¬ eD ≤ eS := by omega
  have hkP := digits_lt_promote hS hkS
  have hb := promote_bits_pos S
  have hpp := promote_promote S
  have hr' : (promote S).InRange (2^((eD - eS).toNat - 1)) := two_pow_inRange (by omega)
  have hp := two_pow_pos ((eD - eS).toNat - 1)
  by_cases h0 : 0 ≤ v
  · have hd : decide (v ≥ 0) = true := by simpa using h0
    simp only [h0, ite_true] at hsum ⊢
    simp only [scaledToScaled, hle, ite_false, unit_eval S D eS eD h hkD, Res.bind_ok,
      half_eval S hS hk0 hkS, cmp_zero_eval S hS hv hcmp, hd, ite_true, Res.pure_eq,
      bias_add_eval S hS hv hr' hsum, down_eval (promote S) D hpp hb eS eD h hkP hsum]
  · have hd : decide (v ≥ 0) = false := by simpa using h0
    simp only [h0, ite_false] at hsum ⊢
    -- only a signed source can be negative
    have hsg : (promote S).signed = true := by
      apply Decidable.byContradiction; intro hn
      have hn' : (promote S).signed = false := by simpa using hn
      have ⟨hSu, _⟩ := promote_unsigned hn'
      have := hv.1; rw [IntTy.lowest_eq] at this; simp [hSu] at this; omega
    have hlo : (promote S).lowest ≤ -(2:Int)^((eD - eS).toNat - 1) := by
      have := (lo_hi (promote S) (promote_bits_ge32 S)).1
      have hl : (promote S).lowest < 0 := by rw [IntTy.lowest_eq]; simp [hsg]; exact two_pow_pos _
      have := hr'.2
      omega
    have hmax : -(2:Int)^((eD - eS).toNat - 1) ≤ (promote S).max := by have := hr'.2; omega
    have hneg := ev_neg hpp hb hr'.1 hr'.2 hlo hmax
    have hsum' : (promote S).InRange (v + -(2:Int)^((eD - eS).toNat - 1)) := by
      rw [← Int.sub_eq_add_neg]; exact hsum
    have hadd := bias_add_eval S hS hv ⟨hlo, hmax⟩ hsum'
    rw [← Int.sub_eq_add_neg] at hadd
    simp only [scaledToScaled, hle, ite_false, unit_eval S D eS eD h hkD, Res.bind_ok,
      half_eval S hS hk0 hkS, cmp_zero_eval S hS hv hcmp, hd, Bool.false_eq_true, Res.pure_eq,
      hneg, hadd, down_eval (promote S) D hpp hb eS eD h hkP hsum]

/-! ## conversions that lose no digits -/

/-- the native conversion, as `scaledToScaled` returns it -/
def plain (S : IntTy) (eS : Int) (D : IntTy) (eD : Int) (v : Int) : Res TV :=
  (Scaled.convert intOps 2 ⟨(.int S, v), eS⟩ (.int D) eD).map (fun r => (D, r.rep.2))

theorem nat_eq_plain (S D : IntTy) (eS eD : Int) (v : Int) :
    scaledToScaled .nat S eS D eD v = plain S eS D eD v := by
  simp only [scaledToScaled, plain]; split <;> rfl

/-- when `eD ≤ eS` every rounding mode is the native conversion -/
theorem noloss_eq_plain (mode : RdMode) (S D : IntTy) (eS eD : Int) (v : Int) (h : eD ≤ eS) :
    scaledToScaled mode S eS D eD v = plain S eS D eD v := by
  simp only [scaledToScaled, plain, h, ite_true]

/-- the native widening conversion multiplies by `2^(eS - eD)` in the promoted source type -/
theorem plain_up_eval (S D : IntTy) (eS eD : Int) (v : Int) (hS : 1 ≤ S.bits) (h : eD ≤ eS)
    (hw : eS = eD ∨ (eS - eD).toNat < (promote S).digits) (hv : S.InRange v)
    (hfit : (promote S).InRange (v * 2^(eS - eD).toNat)) :
    plain S eS D eD v = .ok (D, D.wrap (v * 2^(eS - eD).toNat)) := by
  by_cases he : eS = eD
  · subst he
    simp only [plain, Scaled.convert, ite_true, intOps, Res.bind_ok, Res.pure_eq, Res.map, convert,
      Int.sub_self, Int.toNat_zero, Int.pow_zero, Int.mul_one]
  · have hk : (eS - eD).toNat < (promote S).digits := by rcases hw with hw | hw; exact absurd hw he; exact hw
    have hpw : PowOk S (eS - eD).toNat 2 := by right; simpa using hk
    have hsc := scaleInt_up S hS (eS - eD) (by omega) 2 (by decide) hpw v hv (by rw [pw_two]; exact hfit)
    rw [pw_two] at hsc
    simp only [plain, Scaled.convert, he, ite_false, intOps, liftTV, hsc, Res.bind_ok, Res.pure_eq, Res.map, convert]

/-- the native narrowing conversion divides by `2^k` toward zero -/
theorem nat_down_eval (S D : IntTy) (eS eD : Int) (v : Int) (hS : 1 ≤ S.bits) (h : eS < eD)
    (hk : (eD - eS).toNat < (promote S).digits) (hv : S.InRange v) :
    scaledToScaled .nat S eS D eD v = .ok (D, D.wrap (v.tdiv (2^(eD - eS).toNat))) := by
  have hne : ¬ eS = eD := by omega
  have e : (-(eS - eD)).toNat = (eD - eS).toNat := by congr 1; omega
  have hw : PowFits S (-(eS - eD)).toNat 2 := by
    unfold PowFits; rw [pw_two, e]; exact two_pow_inRange hk
  have hsc := scaleInt_down S hS (eS - eD) (by omega) 2 (by decide) hw v hv
  rw [pw_two, e] at hsc
  rw [nat_eq_plain]
  simp only [plain, Scaled.convert, hne, ite_false, intOps, liftTV, hsc, Res.bind_ok, Res.pure_eq, Res.map, convert]

end Cnl.RoundCvtP
