import CnlProofs.Elastic
import CnlProofs.Overflow
import CnlProofs.Scaled
import CnlModel.ElasticScaled
/-!
# Lemmas for C05: elastic_scaled_integer = scaled_integer<elastic_integer<D, N>, power<E>>

Step-by-step evaluation of `CnlModel/ElasticScaled.lean`:

* `scaleUpE_core` / `scaleUp_core`  — `scale<k>` (`k ≥ 0`) on an elastic representation multiplies by
  `2^k` exactly: the multiplication runs in the storage of the `D + k`-digit result and cannot
  overflow;
* `scaleDown_core`                  — `scale<-k>` divides by `1 << k` computed in the storage of
  `elastic_integer<1 + k, N>`: the shift is defined, positive, and the quotient is the truncated one;
* `binOp_addsub_core`, `binOp_mdm_core`, `neg_core`, `cmp_core` — the operators reduce to the
  elastic ones of `CnlProofs/Elastic.lean` on the aligned operands.

Lean core only.
-/
namespace Cnl.ElasticScaled
open Cnl Cnl.Elastic Cnl.Spec

/-! ## storage selection is monotone in the digits -/

theorem setDigits_some_iff (s : Bool) (need : Nat) :
    (∃ t, setDigits s need = some t) ↔ need ≤ (if s then 127 else 128) := by
  cases s <;> simp only [setDigits, Bool.false_eq_true, ite_false, ite_true] <;>
    (repeat' split) <;> simp <;> omega

theorem repTy_mono {D D' : Nat} {n : IntTy} {t' : IntTy} (h : repTy D' n = some t') (hle : D ≤ D') :
    ∃ t, repTy D n = some t := by
  unfold repTy at *
  have h' := (setDigits_some_iff n.signed _).1 ⟨_, h⟩
  exact (setDigits_some_iff n.signed _).2 (by omega)

/-- `2^k` is a value of every type with more than `k` digits -/
theorem two_pow_inRange {T : IntTy} {k : Nat} (h : k < T.digits) : T.InRange (2^k) := by
  have hf : Fits (k + 1) false (2^k) := by
    unfold Fits
    have := two_pow_pos k
    rw [two_pow_succ]
    simp only [Bool.false_eq_true, ite_false]
    omega
  exact inRange_of_fits (by omega) hf (fun _ => rfl)

theorem fits_zero_digits {s : Bool} {v : Int} (h : Fits 0 s v) : v = 0 := by
  have := (fits_iff.mp h).1
  simp at this
  omega

/-! ## `scale<k>`, `k ≥ 0` -/

/-- the multiplication by `2^k` in the storage type of the `D + k`-digit result is exact -/
theorem scaleUpE_core (x : ENum) (k : Nat) (hx : x.InRange) {rrep : IntTy}
    (hR : repTy (x.digits + k) x.narrowest = some rrep) :
    scaleUpE x k = .ok ⟨x.digits + k, x.narrowest, x.value * 2^k⟩ ∧
      Fits (x.digits + k) x.narrowest.signed (x.value * 2^k) := by
  obtain ⟨rep, hrep⟩ := repTy_mono hR (Nat.le_add_right _ k)
  have ⟨hRs, hRd, hRb⟩ := setDigits_spec hR
  have hb1 : 1 ≤ rrep.bits := by omega
  have hP := promote_bits_ge hb1
  have hPd := promote_digits_le hb1
  have hPs : (promote rrep).signed = false → x.narrowest.signed = false :=
    fun h => by rw [← hRs]; exact (promote_unsigned h).1
  have hxR : rrep.InRange x.value := inRange_of_fits (by omega) hx (fun h => by rw [← hRs]; exact h)
  have hs := shl_bound (k := k) hx
  have hsR : rrep.InRange (x.value * 2^k) := inRange_of_fits (by omega) hs (fun h => by rw [← hRs]; exact h)
  have hsP : (promote rrep).InRange (x.value * 2^k) := inRange_of_fits (by omega) hs hPs
  -- the power: a value of the promoted storage type unless `D = 0`, where the other factor is zero
  have hprod : x.value * (promote rrep).wrap (2^k) = x.value * 2^k := by
    by_cases hd : x.digits = 0
    · have : x.value = 0 := fits_zero_digits (by have := hx; unfold ENum.InRange at this; rw [hd] at this; exact this)
      rw [this, Int.zero_mul, Int.zero_mul]
    · rw [IntTy.wrap_id hP (two_pow_inRange (by omega))]
  refine ⟨?_, hs⟩
  simp only [scaleUpE, hrep, hR, convert, IntTy.wrap_id hb1 hxR, cBin, usualArith_self,
    IntTy.wrap_id hP (promote_inRange hb1 hxR), hprod, arith_ok hP hsP, Res.bind_ok, Res.pure_eq,
    IntTy.wrap_id hb1 hsR]

theorem scaleUpE_ill (x : ENum) (k : Nat) (hR : repTy (x.digits + k) x.narrowest = none) :
    ∃ m, scaleUpE x k = .ill m := by
  unfold scaleUpE
  rw [hR]
  cases repTy x.digits x.narrowest <;> exact ⟨_, rfl⟩

/-- the value a scaled elastic number takes when it is brought to `k` more fractional digits -/
def shifted (x : ESNum) (k : Nat) : ESNum := ⟨x.digits + k, x.narrowest, x.exp - k, x.value * 2^k⟩

theorem shifted_zero (x : ESNum) : shifted x 0 = x := by
  cases x; simp [shifted]

theorem scaleUp_core (x : ESNum) (k : Nat) (hx : x.InRange)
    (hR : k = 0 ∨ ∃ r, repTy (x.digits + k) x.narrowest = some r) :
    scaleUp x k = .ok (shifted x k) ∧ (shifted x k).InRange := by
  by_cases hk : k = 0
  · subst hk
    rw [shifted_zero]
    exact ⟨by simp only [scaleUp, ite_true], hx⟩
  · obtain ⟨r, hr⟩ : ∃ r, repTy (x.toE.digits + k) x.toE.narrowest = some r := by
      rcases hR with h | h
      · exact absurd h hk
      · exact h
    have ⟨h1, h2⟩ := scaleUpE_core x.toE k hx hr
    exact ⟨by simp only [scaleUp, hk, ite_false, h1, Res.bind_ok, Res.pure_eq]; rfl, h2⟩

theorem scaleUp_wf (x : ESNum) (k : Nat) (hx : x.InRange) (hwf : ∀ m, scaleUp x k ≠ .ill m) :
    scaleUp x k = .ok (shifted x k) ∧ (shifted x k).InRange := by
  apply scaleUp_core x k hx
  by_cases hk : k = 0
  · exact Or.inl hk
  · right
    cases hR : repTy (x.digits + k) x.narrowest with
    | some r => exact ⟨r, rfl⟩
    | none =>
      obtain ⟨m, hm⟩ := scaleUpE_ill x.toE k hR
      exact absurd (by simp only [scaleUp, hk, ite_false, hm]; rfl) (hwf m)

/-! ## `scale<-k>` -/

theorem tdiv_bound {D k : Nat} {s : Bool} {v : Int} (h : Fits D s v) (hk : k ≤ D) :
    Fits (D - k) s (v.tdiv (2^k)) := by
  rw [fits_iff] at h ⊢
  obtain ⟨⟨h1, h2⟩, h3⟩ := h
  have hq := two_pow_pos k
  have e : (2:Int)^D = 2^(D-k) * 2^k := by rw [← two_pow_add]; congr 1; omega
  refine ⟨?_, fun hs => Int.tdiv_nonneg (h3 hs) (Int.le_of_lt hq)⟩
  -- |v| < 2^(D-k) * 2^k, hence |v tdiv 2^k| < 2^(D-k)
  apply bound_of_natAbs_le
  have hv : v.natAbs < 2^(D-k) * 2^k := by
    have : ((2^(D-k) * 2^k : Nat) : Int) = (2:Int)^(D-k) * 2^k := by simp
    omega
  rw [Int.natAbs_tdiv]
  have : ((2:Int)^k).natAbs = 2^k := by
    have : (((2:Int)^k).natAbs : Int) = ((2^k : Nat) : Int) := by simp
    exact_mod_cast this
  rw [this]
  exact Nat.succ_le_of_lt ((Nat.div_lt_iff_lt_mul (Nat.two_pow_pos k)).2 hv)

/-- `scale<-k>`: the divisor `divisor_rep{1} << k` is `2^k` (defined and positive, because the
storage of `elastic_integer<1 + k, N>` has more than `k` digits), and the quotient is the truncated
one, in `D - k` digits -/
theorem scaleDown_core (x : ENum) (k : Nat) (hx : x.InRange) (hk : k ≤ x.digits) {rep drep rrep : IntTy}
    (hRep : repTy x.digits x.narrowest = some rep)
    (hD : repTy (1 + k) x.narrowest = some drep)
    (hRr : repTy (x.digits - k) x.narrowest = some rrep) :
    scaleDown x k = .ok ⟨x.digits - k, x.narrowest, x.value.tdiv (2^k)⟩ ∧
      Fits (x.digits - k) x.narrowest.signed (x.value.tdiv (2^k)) := by
  have ⟨hAs, hAd, hAb⟩ := setDigits_spec hRep
  have ⟨hDs, hDd, hDb⟩ := setDigits_spec hD
  have ⟨hRs, hRd, hRb⟩ := setDigits_spec hRr
  have ha1 : 1 ≤ rep.bits := by omega
  have hd1 : 1 ≤ drep.bits := by omega
  have hr1 : 1 ≤ rrep.bits := by omega
  -- the divisor
  have hPd := promote_digits_le hd1
  have hPb := promote_bits_ge hd1
  have hkP : k < (promote drep).digits := by omega
  have hsh : ¬((k : Int) < 0 ∨ (k : Int) ≥ (promote drep).bits) := by
    have := digits_le_bits (promote drep)
    omega
  have hpw : (promote drep).InRange (2^k) := two_pow_inRange hkP
  have hdiv : cBin .shl (drep, 1) (i32, (k : Int)) = .ok (promote drep, 2^k) := by
    simp only [cBin, hsh, ite_false, Int.toNat_natCast, Int.one_mul, IntTy.wrap_id hPb hpw]
  -- the division, in the common type of the storage and the promoted divisor type
  have hxA : rep.InRange x.value := inRange_of_fits (by omega) hx (fun h => by rw [← hAs]; exact h)
  have hsame : rep.signed = (promote drep).signed ∨ x.narrowest.signed = false := by
    by_cases hn : x.narrowest.signed = true
    · left; rw [hAs, hn, promote_signed_of_signed (by rw [hDs, hn])]
    · right; simpa using hn
  have hT32 := Rounding.usualArith_bits_ge rep (promote drep)
  have hTb : 1 ≤ (usualArith rep (promote drep)).bits := by omega
  have hxT : (usualArith rep (promote drep)).InRange x.value := by
    apply Overflow.fits_left _ hxA
    intro hu
    rcases Overflow.usualArith_unsigned hu with ⟨_, e⟩ | ⟨_, e⟩
    · exact e
    · rw [hAs, ← hDs]; exact (promote_unsigned e).1
  have hpT : (usualArith rep (promote drep)).InRange (2^k) := by
    have hz := Rounding.zero_le_max (usualArith rep (promote drep))
    have hp := two_pow_pos k
    exact ⟨by omega, Overflow.le_max_right hpw⟩
  have hp := two_pow_pos k
  have h0 : ¬ ((2:Int)^k = 0) := by omega
  have hov : ¬((usualArith rep (promote drep)).signed = true ∧
      x.value = (usualArith rep (promote drep)).lowest ∧ (2:Int)^k = -1) := fun h => by omega
  have hqT := ScaledP.tdiv_pos_inRange hxT hp
  have hq : cBin .div (rep, x.value) (promote drep, 2^k)
      = .ok (usualArith rep (promote drep), x.value.tdiv (2^k)) := by
    simp only [cBin, IntTy.wrap_id hTb hxT, IntTy.wrap_id hTb hpT, h0, hov, ite_false, arith_ok hTb hqT]
  -- into the result storage
  have hf := tdiv_bound hx hk
  have hqR : rrep.InRange (x.value.tdiv (2^k)) := inRange_of_fits (by omega) hf (fun h => by rw [← hRs]; exact h)
  refine ⟨?_, hf⟩
  have hnk : ¬ (k ≥ x.digits + 1) := by omega
  simp only [scaleDown, hnk, ite_false, hRep, hD, hRr, hdiv, hq, Res.bind_ok, Res.pure_eq, convert,
    IntTy.wrap_id hr1 hqR]

theorem scaleDown_wf (x : ENum) (k : Nat) (hx : x.InRange) (hk : k ≤ x.digits)
    (hwf : ∀ m, scaleDown x k ≠ .ill m) :
    scaleDown x k = .ok ⟨x.digits - k, x.narrowest, x.value.tdiv (2^k)⟩ ∧
      Fits (x.digits - k) x.narrowest.signed (x.value.tdiv (2^k)) := by
  have hnk : ¬ (k ≥ x.digits + 1) := by omega
  cases hRep : repTy x.digits x.narrowest with
  | none =>
    exact absurd (by simp only [scaleDown, hnk, ite_false, hRep]) (hwf "digits exceed the widest integer")
  | some rep =>
    cases hD : repTy (1 + k) x.narrowest with
    | none =>
      exact absurd (by simp only [scaleDown, hnk, ite_false, hRep, hD]) (hwf "digits exceed the widest integer")
    | some drep =>
      obtain ⟨rrep, hRr⟩ := repTy_mono hRep (Nat.sub_le x.digits k)
      exact scaleDown_core x k hx hk hRep hD hRr

/-! ## operators -/

theorem bind_ill {α β : Type} (m : String) (f : α → Res β) : ((Res.ill m : Res α) >>= f) = .ill m := rfl

/-- left and right shift counts of the alignment to the smaller exponent -/
def kL (x y : ESNum) : Nat := (x.exp - min x.exp y.exp).toNat
def kR (x y : ESNum) : Nat := (y.exp - min x.exp y.exp).toNat

theorem binOp_addsub_eq (op : BinOp) (h : op = .add ∨ op = .sub) (x y : ESNum) :
    binOp op x y = (scaleUp x (kL x y) >>= fun a => scaleUp y (kR x y) >>= fun b =>
      Elastic.binOp op a.toE b.toE >>= fun z => pure (ofE z (min x.exp y.exp))) := by
  rcases h with rfl | rfl <;> rfl

theorem toE_InRange {x : ESNum} (h : x.InRange) : x.toE.InRange := h

/-- `+` and `-`: the elastic operator on the operands aligned to the smaller exponent -/
theorem binOp_addsub_core (op : AOp) (hop : op = .add ∨ op = .sub) (x y : ESNum)
    (hx : x.InRange) (hy : y.InRange) (hwf : ∀ m, binOp (AOp.toBin op) x y ≠ .ill m) :
    ∃ d sg n, policy (AOp.toBin op) (x.digits + kL x y) x.narrowest.signed (y.digits + kR x y) y.narrowest.signed
        = some (d, sg) ∧
      binOp (AOp.toBin op) x y = .ok ⟨d, n, min x.exp y.exp,
        exact op (x.value * 2^(kL x y)) (y.value * 2^(kR x y))⟩ ∧
      Fits d sg (exact op (x.value * 2^(kL x y)) (y.value * 2^(kR x y))) ∧ (n.signed = false → sg = false) := by
  have hb : AOp.toBin op = .add ∨ AOp.toBin op = .sub := by rcases hop with rfl | rfl <;> simp [AOp.toBin]
  have heq := binOp_addsub_eq (AOp.toBin op) hb x y
  have ⟨ha, hai⟩ := scaleUp_wf x (kL x y) hx (fun m hm => hwf m (by rw [heq, hm]; rfl))
  rw [ha, Res.bind_ok] at heq
  have ⟨hbv, hbi⟩ := scaleUp_wf y (kR x y) hy (fun m hm => hwf m (by rw [heq, hm]; rfl))
  rw [hbv, Res.bind_ok] at heq
  have h0 : (op = .div ∨ op = .mod) → (shifted y (kR x y)).toE.value ≠ 0 := by
    rcases hop with rfl | rfl <;> intro h <;> rcases h with h | h <;> cases h
  obtain ⟨d, sg, n, hp, h1, he, hs⟩ := binOp_wf op (shifted x (kL x y)).toE (shifted y (kR x y)).toE hai hbi h0
    (fun m hm => hwf m (by rw [heq, hm]; rfl))
  refine ⟨d, sg, n, hp, ?_, he, hs⟩
  rw [heq, h1]; rfl

/-- `*`, `/`, `%`: the elastic operator on the representations; only the exponent differs -/
theorem binOp_mdm_core (op : AOp) (hop : op = .mul ∨ op = .div ∨ op = .mod) (x y : ESNum)
    (hx : x.InRange) (hy : y.InRange) (h0 : (op = .div ∨ op = .mod) → y.value ≠ 0)
    (hwf : ∀ m, binOp (AOp.toBin op) x y ≠ .ill m) :
    ∃ d sg n, policy (AOp.toBin op) x.digits x.narrowest.signed y.digits y.narrowest.signed = some (d, sg) ∧
      binOp (AOp.toBin op) x y = .ok ⟨d, n,
        (match op with | .mul => x.exp + y.exp | .div => x.exp - y.exp | _ => x.exp),
        exact op x.value y.value⟩ ∧
      Fits d sg (exact op x.value y.value) ∧ (n.signed = false → sg = false) := by
  have heq : binOp (AOp.toBin op) x y = (Elastic.binOp (AOp.toBin op) x.toE y.toE >>= fun z =>
      pure (ofE z (match op with | .mul => x.exp + y.exp | .div => x.exp - y.exp | _ => x.exp))) := by
    rcases hop with rfl | rfl | rfl <;> rfl
  obtain ⟨d, sg, n, hp, h1, he, hs⟩ := binOp_wf op x.toE y.toE hx hy h0
    (fun m hm => hwf m (by rw [heq, hm]; rfl))
  refine ⟨d, sg, n, hp, ?_, he, hs⟩
  rw [heq, h1]; rfl

/-- exponent of the result of a binary operator -/
def resultExp (op : AOp) (ex ey : Int) : Int :=
  match op with
  | .add | .sub => min ex ey
  | .mul => ex + ey
  | .div => ex - ey
  | .mod => ex

/-- digits by which the operands are widened before the operator runs (`+`, `-` only) -/
def opKL (op : AOp) (x y : ESNum) : Nat := match op with | .add | .sub => kL x y | _ => 0
def opKR (op : AOp) (x y : ESNum) : Nat := match op with | .add | .sub => kR x y | _ => 0

/-- exact representation of the result: for `+`, `-` in units of `2^(min exponents)` -/
def resultValue (op : AOp) (x y : ESNum) : Int :=
  match op with
  | .add | .sub => exact op (x.value * 2^(kL x y)) (y.value * 2^(kR x y))
  | _ => exact op x.value y.value

/-- all five operators whenever the instantiation is well-formed -/
theorem binOp_wf (op : AOp) (x y : ESNum) (hx : x.InRange) (hy : y.InRange)
    (h0 : (op = .div ∨ op = .mod) → y.value ≠ 0)
    (hwf : ∀ m, binOp (AOp.toBin op) x y ≠ .ill m) :
    ∃ d sg n, policy (AOp.toBin op) (x.digits + opKL op x y) x.narrowest.signed
          (y.digits + opKR op x y) y.narrowest.signed = some (d, sg) ∧
      binOp (AOp.toBin op) x y = .ok ⟨d, n, resultExp op x.exp y.exp, resultValue op x y⟩ ∧
      Fits d sg (resultValue op x y) ∧ (n.signed = false → sg = false) := by
  cases op with
  | add => exact binOp_addsub_core .add (Or.inl rfl) x y hx hy hwf
  | sub => exact binOp_addsub_core .sub (Or.inr rfl) x y hx hy hwf
  | mul => exact binOp_mdm_core .mul (Or.inl rfl) x y hx hy h0 hwf
  | div => exact binOp_mdm_core .div (Or.inr (Or.inl rfl)) x y hx hy h0 hwf
  | mod => exact binOp_mdm_core .mod (Or.inr (Or.inr rfl)) x y hx hy h0 hwf

theorem neg_core (x : ESNum) (hx : x.InRange) (hwf : ∀ m, neg x ≠ .ill m) :
    neg x = .ok ⟨x.digits, ⟨x.narrowest.bits, true⟩, x.exp, -x.value⟩ ∧ Fits x.digits true (-x.value) := by
  have heq : neg x = (Elastic.neg x.toE >>= fun z => pure (ofE z x.exp)) := rfl
  have ⟨h1, hf⟩ := neg_wf x.toE hx (fun m hm => hwf m (by rw [heq, hm]; rfl))
  refine ⟨?_, hf⟩
  rw [heq, h1]; rfl

theorem cmp_core (op : CmpOp) (x y : ESNum) (hx : x.InRange) (hy : y.InRange)
    (hwf : ∀ m, cmp op x y ≠ .ill m) :
    cmp op x y = .ok (cmpExact op (x.value * 2^(kL x y)) (y.value * 2^(kR x y))) := by
  have heq : cmp op x y = (scaleUp x (kL x y) >>= fun a => scaleUp y (kR x y) >>= fun b =>
      Elastic.cmp op a.toE b.toE) := rfl
  have ⟨ha, hai⟩ := scaleUp_wf x (kL x y) hx (fun m hm => hwf m (by rw [heq, hm]; rfl))
  rw [ha, Res.bind_ok] at heq
  have ⟨hbv, hbi⟩ := scaleUp_wf y (kR x y) hy (fun m hm => hwf m (by rw [heq, hm]; rfl))
  rw [hbv, Res.bind_ok] at heq
  rw [heq]
  exact cmp_wf op _ _ hai hbi (fun m hm => hwf m (by rw [heq, hm]))

/-! ## comparison of aligned representations is comparison of the denoted values -/

theorem mul_two_pow_lt (a b : Int) (j : Nat) : a * 2^j < b * 2^j ↔ a < b := by
  have hp := two_pow_pos j
  constructor
  · intro h; exact Int.lt_of_mul_lt_mul_right h (Int.le_of_lt hp)
  · intro h; exact Int.mul_lt_mul_of_pos_right h hp

theorem cmpExact_scale (op : CmpOp) (a b : Int) (j : Nat) :
    cmpExact op (a * 2^j) (b * 2^j) = cmpExact op a b := by
  have h1 := mul_two_pow_lt a b j
  have h2 := mul_two_pow_lt b a j
  cases op <;> simp only [cmpExact, decide_eq_decide] <;> omega

/-- with any common unit `2^e0` not above either exponent, the aligned representations compare as
the integers `value · 2^(exp − e0)`: as the denoted values `value · 2^exp` -/
theorem cmpExact_aligned (op : CmpOp) (x y : ESNum) (e0 : Int) (hx0 : e0 ≤ x.exp) (hy0 : e0 ≤ y.exp) :
    cmpExact op (x.value * 2^(kL x y)) (y.value * 2^(kR x y))
      = cmpExact op (x.value * 2^(x.exp - e0).toNat) (y.value * 2^(y.exp - e0).toNat) := by
  have e1 : (x.exp - e0).toNat = kL x y + (min x.exp y.exp - e0).toNat := by unfold kL; omega
  have e2 : (y.exp - e0).toNat = kR x y + (min x.exp y.exp - e0).toNat := by unfold kR; omega
  rw [e1, e2, two_pow_add, two_pow_add, ← Int.mul_assoc, ← Int.mul_assoc, cmpExact_scale]

end Cnl.ElasticScaled
