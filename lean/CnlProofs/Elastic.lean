import CnlProofs.CIntLemmas
import CnlModel.Elastic
import CnlSpec.Arith
/-! Lemmas for C05: elastic_integer arithmetic is exact and stays within its declared digits. -/
namespace Cnl.Elastic
open Cnl Cnl.Spec

/-- the model's operator for a spec operator -/
def AOp.toBin : AOp → BinOp
  | .add => .add | .sub => .sub | .mul => .mul | .div => .div | .mod => .mod

/-- a built-in operator applied to two in-range values of the same type `O` returns the exact
result in the promoted type, provided that result is in range of the promoted type -/
theorem cBin_same_exact (O : IntTy) (hb : 1 ≤ O.bits) (op : AOp) (a b : Int)
    (ha : O.InRange a) (hb' : O.InRange b)
    (he : (promote O).InRange (exact op a b))
    (hdiv : (op = .div ∨ op = .mod) → b ≠ 0 ∧ ¬(a = (promote O).lowest ∧ b = -1)) :
    cBin (AOp.toBin op) (O, a) (O, b) = .ok (promote O, exact op a b) := by
  have hP := promote_bits_ge hb
  have wa : (promote O).wrap a = a := IntTy.wrap_id hP (promote_inRange hb ha)
  have wb : (promote O).wrap b = b := IntTy.wrap_id hP (promote_inRange hb hb')
  cases op with
  | add => simp only [AOp.toBin, cBin, usualArith_self, wa, wb]; exact arith_ok hP he
  | sub => simp only [AOp.toBin, cBin, usualArith_self, wa, wb]; exact arith_ok hP he
  | mul => simp only [AOp.toBin, cBin, usualArith_self, wa, wb]; exact arith_ok hP he
  | div =>
    have ⟨h0, h1⟩ := hdiv (Or.inl rfl)
    simp only [AOp.toBin, cBin, usualArith_self, wa, wb, h0, ite_false]
    have : ¬((promote O).signed = true ∧ a = (promote O).lowest ∧ b = -1) := fun h => h1 h.2
    simp only [this, ite_false]; exact arith_ok hP he
  | mod =>
    have ⟨h0, h1⟩ := hdiv (Or.inr rfl)
    simp only [AOp.toBin, cBin, usualArith_self, wa, wb, h0, ite_false]
    have : ¬((promote O).signed = true ∧ a = (promote O).lowest ∧ b = -1) := fun h => h1 h.2
    simp only [this, ite_false]; exact arith_ok hP he

/-- `set_digits` returns a type of the requested signedness with enough digits -/
theorem setDigits_spec {s : Bool} {need : Nat} {t : IntTy} (h : setDigits s need = some t) :
    t.signed = s ∧ need ≤ t.digits ∧ 8 ≤ t.bits := by
  cases s <;> simp only [setDigits, Bool.false_eq_true, ite_false, ite_true] at h <;>
    (repeat' split at h) <;>
    first
    | (injection h with h; subst h; simp [IntTy.digits]; omega)
    | (exact absurd h (by simp))

end Cnl.Elastic
