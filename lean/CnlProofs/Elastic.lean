import CnlProofs.CIntLemmas
import CnlModel.Elastic
import CnlSpec.Arith
/-! Lemmas for C05: elastic_integer arithmetic is exact and stays within its declared digits. -/
namespace Cnl.Elastic
open Cnl Cnl.Spec

/-- the model's operator for a spec operator -/
def AOp.toBin : AOp → BinOp
  | .add => .add | .sub => .sub | .mul => .mul | .div => .div | .mod => .mod

/-- a built-in operator applied to two in-range values of the same type `O` returns the exact
result in the promoted type, provided that result is in range of the promoted type -/
theorem cBin_same_exact (O : IntTy) (hb : 1 ≤ O.bits) (op : AOp) (a b : Int)
    (ha : O.InRange a) (hb' : O.InRange b)
    (he : (promote O).InRange (exact op a b))
    (hdiv : (op = .div ∨ op = .mod) → b ≠ 0 ∧ ¬(a = (promote O).lowest ∧ b = -1)) :
    cBin (AOp.toBin op) (O, a) (O, b) = .ok (promote O, exact op a b) := by
  have hP := promote_bits_ge hb
  have wa : (promote O).wrap a = a := IntTy.wrap_id hP (promote_inRange hb ha)
  have wb : (promote O).wrap b = b := IntTy.wrap_id hP (promote_inRange hb hb')
  cases op with
  | add => simp only [AOp.toBin, cBin, usualArith_self, wa, wb]; exact arith_ok hP he
  | sub => simp only [AOp.toBin, cBin, usualArith_self, wa, wb]; exact arith_ok hP he
  | mul => simp only [AOp.toBin, cBin, usualArith_self, wa, wb]; exact arith_ok hP he
  | div =>
    have ⟨h0, h1⟩ := hdiv (Or.inl rfl)
    simp only [AOp.toBin, cBin, usualArith_self, wa, wb, h0, ite_false]
    have : ¬((promote O).signed = true ∧ a = (promote O).lowest ∧ b = -1) := fun h => h1 h.2
    simp only [this, ite_false]; exact arith_ok hP he
  | mod =>
    have ⟨h0, h1⟩ := hdiv (Or.inr rfl)
    simp only [AOp.toBin, cBin, usualArith_self, wa, wb, h0, ite_false]
    have : ¬((promote O).signed = true ∧ a = (promote O).lowest ∧ b = -1) := fun h => h1 h.2
    simp only [this, ite_false]; exact arith_ok hP he

/-- `set_digits` returns a type of the requested signedness with enough digits -/
theorem setDigits_spec {s : Bool} {need : Nat} {t : IntTy} (h : setDigits s need = some t) :
    t.signed = s ∧ need ≤ t.digits ∧ 8 ≤ t.bits := by
  cases s <;> simp only [setDigits, Bool.false_eq_true, ite_false, ite_true] at h <;>
    (repeat' split at h) <;>
    first
    | (injection h with h; subst h; simp [IntTy.digits]; omega)
    | (exact absurd h (by simp))

/-! ## Digit rules: the exact result needs at most the digits the policy declares -/

theorem natAbs_le_of_bound {D : Nat} {v : Int} (h : -(2^D - 1 : Int) ≤ v ∧ v ≤ 2^D - 1) :
    v.natAbs + 1 ≤ 2^D := by
  have : ((2^D : Nat) : Int) = (2:Int)^D := by simp
  omega

theorem bound_of_natAbs_le {D : Nat} {v : Int} (h : v.natAbs + 1 ≤ 2^D) :
    -(2^D - 1 : Int) ≤ v ∧ v ≤ 2^D - 1 := by
  have : ((2^D : Nat) : Int) = (2:Int)^D := by simp
  omega
def Fits (D : Nat) (s : Bool) (v : Int) : Prop :=
  (if s then -(2^D - 1 : Int) else 0) ≤ v ∧ v ≤ 2^D - 1
theorem fits_iff {D s v} : Fits D s v ↔ (-(2^D - 1 : Int) ≤ v ∧ v ≤ 2^D - 1) ∧ (s = false → 0 ≤ v) := by
  unfold Fits
  have := two_pow_pos D
  cases s <;> simp <;> omega
def mulDigits (a b : Nat) : Nat := max 1 ((if a = 1 then 0 else a) + (if b = 1 then 0 else b))
theorem two_pow_max_l (a b : Nat) : (2:Int)^a ≤ 2^(max a b) := two_pow_le (Nat.le_max_left ..)
theorem two_pow_max_r (a b : Nat) : (2:Int)^b ≤ 2^(max a b) := two_pow_le (Nat.le_max_right ..)
theorem add_bound {a b : Nat} {l r : Int} (hl : -(2^a - 1 : Int) ≤ l ∧ l ≤ 2^a - 1)
    (hr : -(2^b - 1 : Int) ≤ r ∧ r ≤ 2^b - 1) :
    -(2^(max a b + 1) - 1 : Int) ≤ l + r ∧ l + r ≤ 2^(max a b + 1) - 1 := by
  have h1 := two_pow_max_l a b
  have h2 := two_pow_max_r a b
  rw [two_pow_succ]
  generalize (2:Int)^(max a b) = m at *
  generalize (2:Int)^a = p at *
  generalize (2:Int)^b = q at *
  omega

theorem sub_bound {a b : Nat} {l r : Int} (hl : -(2^a - 1 : Int) ≤ l ∧ l ≤ 2^a - 1)
    (hr : -(2^b - 1 : Int) ≤ r ∧ r ≤ 2^b - 1) :
    -(2^(max a b + 1) - 1 : Int) ≤ l - r ∧ l - r ≤ 2^(max a b + 1) - 1 := by
  have h1 := two_pow_max_l a b
  have h2 := two_pow_max_r a b
  rw [two_pow_succ]
  generalize (2:Int)^(max a b) = m at *
  generalize (2:Int)^a = p at *
  generalize (2:Int)^b = q at *
  omega

theorem sub_bound_unsigned {a b : Nat} {l r : Int} (hl : 0 ≤ l ∧ l ≤ 2^a - 1)
    (hr : 0 ≤ r ∧ r ≤ 2^b - 1) :
    -(2^(max a b) - 1 : Int) ≤ l - r ∧ l - r ≤ 2^(max a b) - 1 := by
  have h1 := two_pow_max_l a b
  have h2 := two_pow_max_r a b
  generalize (2:Int)^(max a b) = m at *
  generalize (2:Int)^a = p at *
  generalize (2:Int)^b = q at *
  omega
theorem nat_mul_bound {m n A B : Nat} (hm : m + 1 ≤ A) (hn : n + 1 ≤ B) : m * n + 1 ≤ A * B := by
  have h := Nat.mul_le_mul hm hn
  have e : (m + 1) * (n + 1) = m * n + m + n + 1 := by
    rw [Nat.add_mul, Nat.mul_add, Nat.one_mul, Nat.mul_one]; omega
  omega

theorem nat_le_one_mul {m n : Nat} (hm : m ≤ 1) : m * n ≤ n := by
  have := Nat.mul_le_mul_right n hm
  omega

theorem mul_bound_nat {a b m n : Nat} (hm : m + 1 ≤ 2^a) (hn : n + 1 ≤ 2^b) :
    m * n + 1 ≤ 2^(mulDigits a b) := by
  unfold mulDigits
  by_cases ha : a = 1
  · subst ha
    have h1 : m * n ≤ n := nat_le_one_mul (by omega)
    by_cases hb : b = 1
    · subst hb; simp; omega
    · simp only [hb, ite_true, ite_false, Nat.zero_add]
      have : 2^b ≤ 2^(max 1 b) := Nat.pow_le_pow_right (by decide) (Nat.le_max_right ..)
      omega
  · by_cases hb : b = 1
    · subst hb
      have h1 : m * n ≤ m := by rw [Nat.mul_comm]; exact nat_le_one_mul (by omega)
      simp only [ha, ite_true, ite_false, Nat.add_zero]
      have : 2^a ≤ 2^(max 1 a) := Nat.pow_le_pow_right (by decide) (Nat.le_max_right ..)
      omega
    · simp only [ha, hb, ite_false]
      have h := nat_mul_bound hm hn
      rw [← Nat.pow_add] at h
      have : 2^(a+b) ≤ 2^(max 1 (a+b)) := Nat.pow_le_pow_right (by decide) (Nat.le_max_right ..)
      omega

theorem mul_bound {a b : Nat} {l r : Int} (hl : -(2^a - 1 : Int) ≤ l ∧ l ≤ 2^a - 1)
    (hr : -(2^b - 1 : Int) ≤ r ∧ r ≤ 2^b - 1) :
    -(2^(mulDigits a b) - 1 : Int) ≤ l * r ∧ l * r ≤ 2^(mulDigits a b) - 1 := by
  apply bound_of_natAbs_le
  rw [Int.natAbs_mul]
  exact mul_bound_nat (natAbs_le_of_bound hl) (natAbs_le_of_bound hr)
theorem div_bound {a : Nat} {l r : Int} (hl : -(2^a - 1 : Int) ≤ l ∧ l ≤ 2^a - 1) :
    -(2^a - 1 : Int) ≤ l.tdiv r ∧ l.tdiv r ≤ 2^a - 1 := by
  apply bound_of_natAbs_le
  have := Int.natAbs_tdiv_le_natAbs l r
  have := natAbs_le_of_bound hl
  omega
theorem mod_bound {a b : Nat} {l r : Int} (hl : -(2^a - 1 : Int) ≤ l ∧ l ≤ 2^a - 1)
    (hr : -(2^b - 1 : Int) ≤ r ∧ r ≤ 2^b - 1) (h0 : r ≠ 0) :
    -(2^(min a b) - 1 : Int) ≤ l.tmod r ∧ l.tmod r ≤ 2^(min a b) - 1 := by
  apply bound_of_natAbs_le
  have hl' := natAbs_le_of_bound hl
  have hr' := natAbs_le_of_bound hr
  rw [Int.natAbs_tmod]
  have h1 : l.natAbs % r.natAbs < r.natAbs := Nat.mod_lt _ (by omega)
  have h2 : l.natAbs % r.natAbs ≤ l.natAbs := Nat.mod_le _ _
  by_cases hab : a ≤ b
  · rw [Nat.min_eq_left hab]; omega
  · rw [Nat.min_eq_right (by omega)]; omega

theorem or_false_iff' {a b : Bool} (h : (a || b) = false) : a = false ∧ b = false := by
  cases a <;> cases b <;> simp_all

/-- the exact result of every operator needs at most the digits, and has the signedness, that
`policy` declares -/
theorem exact_fits (op : AOp) {dL dR : Nat} {sL sR : Bool} {l r : Int} {d : Nat} {sg : Bool}
    (hl : Fits dL sL l) (hr : Fits dR sR r) (h0 : op = .mod → r ≠ 0)
    (hp : policy (AOp.toBin op) dL sL dR sR = some (d, sg)) : Fits d sg (exact op l r) := by
  rw [fits_iff] at hl hr ⊢
  obtain ⟨hl, hl0⟩ := hl
  obtain ⟨hr, hr0⟩ := hr
  cases op with
  | add =>
    simp only [AOp.toBin, policy, Option.some.injEq, Prod.mk.injEq] at hp
    obtain ⟨rfl, rfl⟩ := hp
    refine ⟨add_bound hl hr, fun h => ?_⟩
    have ⟨h1, h2⟩ := or_false_iff' h
    have := hl0 h1; have := hr0 h2
    simp only [exact]; omega
  | sub =>
    simp only [AOp.toBin, policy, Option.some.injEq, Prod.mk.injEq] at hp
    obtain ⟨rfl, rfl⟩ := hp
    refine ⟨?_, fun h => absurd h (by decide)⟩
    by_cases hs : (sL || sR) = true
    · simp only [hs, ite_true]; exact sub_bound hl hr
    · have hs' : (sL || sR) = false := by simpa using hs
      have ⟨h1, h2⟩ := or_false_iff' hs'
      simp only [hs']
      exact sub_bound_unsigned ⟨hl0 h1, hl.2⟩ ⟨hr0 h2, hr.2⟩
  | mul =>
    simp only [AOp.toBin, policy, Option.some.injEq, Prod.mk.injEq] at hp
    obtain ⟨rfl, rfl⟩ := hp
    refine ⟨mul_bound hl hr, fun h => ?_⟩
    have ⟨h1, h2⟩ := or_false_iff' h
    exact Int.mul_nonneg (hl0 h1) (hr0 h2)
  | div =>
    simp only [AOp.toBin, policy, Option.some.injEq, Prod.mk.injEq] at hp
    obtain ⟨rfl, rfl⟩ := hp
    refine ⟨div_bound hl, fun h => ?_⟩
    have ⟨h1, h2⟩ := or_false_iff' h
    exact Int.tdiv_nonneg (hl0 h1) (hr0 h2)
  | mod =>
    simp only [AOp.toBin, policy, Option.some.injEq, Prod.mk.injEq] at hp
    obtain ⟨rfl, rfl⟩ := hp
    refine ⟨mod_bound hl hr (h0 rfl), fun h => ?_⟩
    have ⟨h1, h2⟩ := or_false_iff' h
    exact Int.tmod_nonneg _ (hl0 h1)

/-! ## Binary operators -/

theorem ENum.inRange_iff (x : ENum) : x.InRange ↔ Fits x.digits x.narrowest.signed x.value := Iff.rfl

/-- a value that fits `D` digits with signedness `s` is in range of every type with at least `D`
digits that is signed whenever `s` is -/
theorem inRange_of_fits {t : IntTy} {D : Nat} {s : Bool} {v : Int} (hD : D ≤ t.digits)
    (h : Fits D s v) (hs : t.signed = false → s = false) : t.InRange v := by
  rw [fits_iff] at h
  exact IntTy.inRange_of_digits hD h.1.1 h.1.2 (fun ht => h.2 (hs ht))

theorem Fits.mono {D s v} (h : Fits D s v) {s' : Bool} (hs : s' = false → s = false) : Fits D s' v := by
  rw [fits_iff] at h ⊢
  exact ⟨h.1, fun h' => h.2 (hs h')⟩

/-- signedness of the policy result is at least that of each operand -/
theorem policy_signed (op : AOp) {dL dR : Nat} {sL sR : Bool} {d : Nat} {sg : Bool}
    (hp : policy (AOp.toBin op) dL sL dR sR = some (d, sg)) (h : sg = false) : sL = false ∧ sR = false := by
  cases op <;> simp only [AOp.toBin, policy, Option.some.injEq, Prod.mk.injEq] at hp <;>
    obtain ⟨_, rfl⟩ := hp <;> first | exact or_false_iff' h | exact absurd h (by decide)

theorem policy_some (op : AOp) (dL dR : Nat) (sL sR : Bool) :
    ∃ d sg, policy (AOp.toBin op) dL sL dR sR = some (d, sg) := by
  cases op <;> exact ⟨_, _, rfl⟩

/-- `binOp` up to the last storage selection: the operands convert unchanged into the operand
representation and the built-in operator returns the exact result, which fits the policy's digits -/
theorem binOp_step (op : AOp) (x y : ENum) (hx : x.InRange) (hy : y.InRange)
    (h0 : (op = .div ∨ op = .mod) → y.value ≠ 0)
    {d : Nat} {sg : Bool} {R O : IntTy}
    (hp : policy (AOp.toBin op) x.digits x.narrowest.signed y.digits y.narrowest.signed = some (d, sg))
    (hR : repTy d ⟨max x.narrowest.bits y.narrowest.bits, sg⟩ = some R)
    (hO : setDigits R.signed (operandDigits R x.digits y.digits) = some O) :
    binOp (AOp.toBin op) x y =
        (match repTy d ⟨x.narrowest.bits, (promote O).signed⟩ with
         | none => .ill "result digits exceed the widest integer"
         | some F => .ok ⟨d, ⟨x.narrowest.bits, (promote O).signed⟩, F.wrap (exact op x.value y.value)⟩) ∧
      Fits d sg (exact op x.value y.value) ∧ ((promote O).signed = false → sg = false) := by
  have ⟨hRs, hRd, _⟩ := setDigits_spec hR
  have ⟨hOs, hOd, hOb⟩ := setDigits_spec hO
  simp only at hRs
  have hOb1 : 1 ≤ O.bits := by omega
  unfold operandDigits at hOd
  have hOsg : O.signed = false → sg = false := fun h => by rw [← hRs, ← hOs]; exact h
  have hPsg : (promote O).signed = false → sg = false := fun h => hOsg (promote_unsigned h).1
  -- operands convert unchanged
  have hxO : O.InRange x.value := inRange_of_fits (by omega) hx (fun h => (policy_signed op hp (hOsg h)).1)
  have hyO : O.InRange y.value := inRange_of_fits (by omega) hy (fun h => (policy_signed op hp (hOsg h)).2)
  -- the exact result
  have he : Fits d sg (exact op x.value y.value) := exact_fits op hx hy (fun h => h0 (Or.inr h)) hp
  have hdP : d ≤ (promote O).digits := by have := promote_digits_le hOb1; omega
  have heP : (promote O).InRange (exact op x.value y.value) := inRange_of_fits hdP he hPsg
  have hdiv : (op = .div ∨ op = .mod) → y.value ≠ 0 ∧ ¬(x.value = (promote O).lowest ∧ y.value = -1) := by
    intro h
    refine ⟨h0 h, fun ⟨h1, h2⟩ => ?_⟩
    have hyP := (promote_inRange hOb1 hyO).1
    rw [IntTy.lowest_eq] at hyP h1
    have hx' := ((fits_iff.mp hx).1).1
    have hpw : (2:Int)^x.digits ≤ 2^(promote O).digits := two_pow_le (by have := promote_digits_le hOb1; omega)
    by_cases hs : (promote O).signed = true
    · simp only [hs, ite_true] at h1; omega
    · simp only [hs] at hyP; simp at hyP; omega
  have hc := cBin_same_exact O hOb1 op x.value y.value hxO hyO heP hdiv
  refine ⟨?_, he, hPsg⟩
  simp only [binOp, hp, hR, hO, convert, IntTy.wrap_id hOb1 hxO, IntTy.wrap_id hOb1 hyO, hc]
  rfl

/-- `binOp` when the three storage selections succeed: the exact result, in the policy's digits -/
theorem binOp_core (op : AOp) (x y : ENum) (hx : x.InRange) (hy : y.InRange)
    (h0 : (op = .div ∨ op = .mod) → y.value ≠ 0)
    {d : Nat} {sg : Bool} {R O F : IntTy}
    (hp : policy (AOp.toBin op) x.digits x.narrowest.signed y.digits y.narrowest.signed = some (d, sg))
    (hR : repTy d ⟨max x.narrowest.bits y.narrowest.bits, sg⟩ = some R)
    (hO : setDigits R.signed (operandDigits R x.digits y.digits) = some O)
    (hF : repTy d ⟨x.narrowest.bits, (promote O).signed⟩ = some F) :
    binOp (AOp.toBin op) x y = .ok ⟨d, ⟨x.narrowest.bits, (promote O).signed⟩, exact op x.value y.value⟩ ∧
      Fits d sg (exact op x.value y.value) ∧ ((promote O).signed = false → sg = false) := by
  have ⟨h1, he, hPsg⟩ := binOp_step op x y hx hy h0 hp hR hO
  have ⟨hFs, hFd, hFb⟩ := setDigits_spec hF
  simp only at hFs
  have heF : F.InRange (exact op x.value y.value) :=
    inRange_of_fits (by omega) he (fun h => hPsg (by rw [← hFs]; exact h))
  refine ⟨?_, he, hPsg⟩
  rw [h1]; simp only [hF, IntTy.wrap_id (by omega : 1 ≤ F.bits) heF]

/-- `binOp` whenever the result type exists (the instantiation is well-formed) -/
theorem binOp_wf (op : AOp) (x y : ENum) (hx : x.InRange) (hy : y.InRange)
    (h0 : (op = .div ∨ op = .mod) → y.value ≠ 0)
    (hwf : ∀ m, binOp (AOp.toBin op) x y ≠ .ill m) :
    ∃ d sg n, policy (AOp.toBin op) x.digits x.narrowest.signed y.digits y.narrowest.signed = some (d, sg) ∧
      binOp (AOp.toBin op) x y = .ok ⟨d, n, exact op x.value y.value⟩ ∧
      Fits d sg (exact op x.value y.value) ∧ (n.signed = false → sg = false) := by
  obtain ⟨d, sg, hp⟩ := policy_some op x.digits y.digits x.narrowest.signed y.narrowest.signed
  cases hR : repTy d ⟨max x.narrowest.bits y.narrowest.bits, sg⟩ with
  | none =>
    have : binOp (AOp.toBin op) x y = .ill "result digits exceed the widest integer" := by
      simp only [binOp, hp, hR]
    exact absurd this (hwf _)
  | some R =>
    cases hO : setDigits R.signed (operandDigits R x.digits y.digits) with
    | none =>
      have : binOp (AOp.toBin op) x y = .ill "operand digits exceed the widest integer" := by
        simp only [binOp, hp, hR, hO]
      exact absurd this (hwf _)
    | some O =>
      cases hF : repTy d ⟨x.narrowest.bits, (promote O).signed⟩ with
      | none =>
        have ⟨h1, _, _⟩ := binOp_step op x y hx hy h0 hp hR hO
        rw [hF] at h1
        exact absurd h1 (hwf _)
      | some F =>
        have ⟨h1, he, hs⟩ := binOp_core op x y hx hy h0 hp hR hO hF
        exact ⟨d, sg, _, hp, h1, he, hs⟩

/-! ## Unary minus and shifts by a constant -/

/-- unary minus when the storage selection succeeds -/
theorem neg_core (x : ENum) (hx : x.InRange) {rep : IntTy}
    (hR : repTy x.digits ⟨x.narrowest.bits, true⟩ = some rep) :
    neg x = .ok ⟨x.digits, ⟨x.narrowest.bits, true⟩, -x.value⟩ ∧ Fits x.digits true (-x.value) := by
  have ⟨hRs, hRd, hRb⟩ := setDigits_spec hR
  simp only at hRs
  have hb1 : 1 ≤ rep.bits := by omega
  have hxR : rep.InRange x.value := inRange_of_fits (by omega) hx (fun h => by rw [hRs] at h; cases h)
  have hP := promote_bits_ge hb1
  have hPs := promote_signed_of_signed hRs
  have hn : Fits x.digits true (-x.value) := by
    have := (fits_iff.mp hx).1
    rw [fits_iff]; refine ⟨by omega, fun h => by cases h⟩
  have hnP : (promote rep).InRange (-x.value) :=
    inRange_of_fits (by have := promote_digits_le hb1; omega) hn (fun h => by rw [hPs] at h; cases h)
  have hnR : rep.InRange (-x.value) := inRange_of_fits (by omega) hn (fun h => by rw [hRs] at h; cases h)
  refine ⟨?_, hn⟩
  simp only [neg, hR, convert, IntTy.wrap_id hb1 hxR, cNeg, IntTy.wrap_id hP (promote_inRange hb1 hxR),
    arith_ok hP hnP, IntTy.wrap_id hb1 hnR]

theorem neg_wf (x : ENum) (hx : x.InRange) (hwf : ∀ m, neg x ≠ .ill m) :
    neg x = .ok ⟨x.digits, ⟨x.narrowest.bits, true⟩, -x.value⟩ ∧ Fits x.digits true (-x.value) := by
  cases hR : repTy x.digits ⟨x.narrowest.bits, true⟩ with
  | none =>
    have : neg x = .ill "digits exceed the widest integer" := by simp only [neg, hR]
    exact absurd this (hwf _)
  | some rep => exact neg_core x hx hR

theorem shl_bound {D k : Nat} {s : Bool} {v : Int} (h : Fits D s v) : Fits (D + k) s (v * 2^k) := by
  rw [fits_iff] at h ⊢
  obtain ⟨⟨h1, h2⟩, h3⟩ := h
  have hq := two_pow_pos k
  have e : (2:Int)^(D+k) = 2^D * 2^k := two_pow_add D k
  have u := Int.mul_le_mul_of_nonneg_right h2 (Int.le_of_lt hq)
  have l := Int.mul_le_mul_of_nonneg_right h1 (Int.le_of_lt hq)
  rw [Int.sub_mul, Int.one_mul] at u
  rw [Int.neg_mul, Int.sub_mul, Int.one_mul] at l
  rw [e]
  refine ⟨?_, fun hs => Int.mul_nonneg (h3 hs) (Int.le_of_lt hq)⟩
  generalize (2:Int)^D * 2^k = m at *
  generalize v * 2^k = w at *
  omega

theorem promote_bits_le (t : IntTy) : t.bits ≤ (promote t).bits := by
  unfold promote; split
  · simp [i32]; omega
  · exact Nat.le_refl _

theorem digits_le_bits (t : IntTy) : t.digits ≤ t.bits := by
  unfold IntTy.digits; split <;> omega

theorem digits_lt_bits {t : IntTy} (hs : t.signed = true) (hb : 1 ≤ t.bits) : t.digits < t.bits := by
  unfold IntTy.digits; simp [hs]; omega

theorem shlConst_step (x : ENum) (k : Nat) (hx : x.InRange) (hd : 1 ≤ x.digits) {rep : IntTy}
    (hR : repTy (x.digits + k) x.narrowest = some rep) :
    shlConst x k =
      (match repTy (x.digits + k) ⟨x.narrowest.bits, (promote rep).signed⟩ with
       | some F => .ok ⟨x.digits + k, ⟨x.narrowest.bits, (promote rep).signed⟩, F.wrap (x.value * 2^k)⟩
       | none => .ill "digits exceed the widest integer") ∧
      ((promote rep).signed = false → x.narrowest.signed = false) := by
  have ⟨hRs, hRd, hRb⟩ := setDigits_spec hR
  have hb1 : 1 ≤ rep.bits := by omega
  have hPs : (promote rep).signed = false → x.narrowest.signed = false :=
    fun h => by rw [← hRs]; exact (promote_unsigned h).1
  have hxR : rep.InRange x.value := inRange_of_fits (by omega) hx (fun h => by rw [← hRs]; exact h)
  have hk : ¬((k : Int) < 0 ∨ (k : Int) ≥ (promote rep).bits) := by
    have := promote_bits_le rep
    have := digits_le_bits rep
    omega
  have hs := shl_bound (k := k) hx
  have hsP : (promote rep).InRange (x.value * 2^k) :=
    inRange_of_fits (by have := promote_digits_le hb1; omega) hs hPs
  refine ⟨?_, hPs⟩
  simp only [shlConst, hR, convert, IntTy.wrap_id hb1 hxR, cBin, hk, ite_false, Int.toNat_natCast,
    IntTy.wrap_id (promote_bits_ge hb1) hsP]
  rfl


/-- `x << constant<k>` whenever the result type exists: `x · 2^k` in `digits + k` digits -/
theorem shlConst_wf (x : ENum) (k : Nat) (hx : x.InRange) (hd : 1 ≤ x.digits)
    (hwf : ∀ m, shlConst x k ≠ .ill m) :
    ∃ n, shlConst x k = .ok ⟨x.digits + k, n, x.value * 2^k⟩ ∧
      (n.signed = false → x.narrowest.signed = false) := by
  cases hR : repTy (x.digits + k) x.narrowest with
  | none =>
    have : shlConst x k = .ill "digits exceed the widest integer" := by simp only [shlConst, hR]
    exact absurd this (hwf _)
  | some rep =>
    have ⟨h1, hPs⟩ := shlConst_step x k hx hd hR
    cases hF : repTy (x.digits + k) ⟨x.narrowest.bits, (promote rep).signed⟩ with
    | none => rw [hF] at h1; exact absurd h1 (hwf _)
    | some F =>
      have ⟨hFs, hFd, hFb⟩ := setDigits_spec hF
      simp only at hFs
      have hsF : F.InRange (x.value * 2^k) :=
        inRange_of_fits (by omega) (shl_bound (k := k) hx) (fun h => hPs (by rw [← hFs]; exact h))
      rw [hF] at h1
      simp only [IntTy.wrap_id (by omega : 1 ≤ F.bits) hsF] at h1
      exact ⟨_, h1, hPs⟩

/-- floor division by `2^k` removes `k` digits, except that the most negative quotient is
`-2^(D-k)`, one below the symmetric range -/
theorem shr_bound {D k : Nat} {s : Bool} {v : Int} (h : Fits D s v) (hk : k ≤ D) :
    -(2^(D-k) : Int) ≤ v / 2^k ∧ v / 2^k ≤ 2^(D-k) - 1 ∧ (s = false → 0 ≤ v / 2^k) := by
  rw [fits_iff] at h
  obtain ⟨⟨h1, h2⟩, h3⟩ := h
  have hq := two_pow_pos k
  have e : (2:Int)^D = 2^(D-k) * 2^k := by rw [← two_pow_add]; congr 1; omega
  rw [e] at h1 h2
  refine ⟨?_, ?_, fun hs => Int.ediv_nonneg (h3 hs) (Int.le_of_lt hq)⟩
  · apply Int.le_ediv_of_mul_le hq
    rw [Int.neg_mul]
    generalize (2:Int)^(D-k) * 2^k = m at *
    omega
  · have : v / 2^k < 2^(D-k) := Int.ediv_lt_of_lt_mul hq (by omega)
    omega

/-- in range of every type with at least `D` digits, allowing the asymmetric lowest value -/
theorem inRange_of_digits' {t : IntTy} {D : Nat} {v : Int} (hD : D ≤ t.digits)
    (hlo : -(2^D : Int) ≤ v) (hhi : v ≤ 2^D - 1) (hs : t.signed = false → 0 ≤ v) : t.InRange v := by
  have hp := two_pow_le hD
  unfold IntTy.InRange
  rw [IntTy.max_eq, IntTy.lowest_eq]
  constructor
  · split
    · omega
    · rename_i h; exact hs (by simpa using h)
  · omega

theorem shrConst_step (x : ENum) (k : Nat) (hx : x.InRange) (hk : k < x.digits) {rep : IntTy}
    (hR : repTy x.digits x.narrowest = some rep) :
    shrConst x k =
      (match repTy (x.digits - k) ⟨x.narrowest.bits, (promote rep).signed⟩ with
       | some F => .ok ⟨x.digits - k, ⟨x.narrowest.bits, (promote rep).signed⟩, F.wrap (x.value / 2^k)⟩
       | none => .ill "digits exceed the widest integer") ∧
      ((promote rep).signed = false → x.narrowest.signed = false) := by
  have ⟨hRs, hRd, hRb⟩ := setDigits_spec hR
  have hb1 : 1 ≤ rep.bits := by omega
  have hPs : (promote rep).signed = false → x.narrowest.signed = false :=
    fun h => by rw [← hRs]; exact (promote_unsigned h).1
  have hxR : rep.InRange x.value := inRange_of_fits (by omega) hx (fun h => by rw [← hRs]; exact h)
  have hk' : ¬((k : Int) < 0 ∨ (k : Int) ≥ (promote rep).bits) := by
    have := promote_bits_le rep
    have := digits_le_bits rep
    omega
  refine ⟨?_, hPs⟩
  simp only [shrConst, hR, convert, IntTy.wrap_id hb1 hxR, cBin, hk', ite_false, Int.toNat_natCast]
  rfl

/-- `x >> constant<k>` whenever the result type exists: `⌊x / 2^k⌋` in `digits - k` digits -/
theorem shrConst_wf (x : ENum) (k : Nat) (hx : x.InRange) (hk : k < x.digits)
    (hwf : ∀ m, shrConst x k ≠ .ill m) :
    ∃ n, shrConst x k = .ok ⟨x.digits - k, n, x.value / 2^k⟩ ∧
      (n.signed = false → x.narrowest.signed = false) := by
  cases hR : repTy x.digits x.narrowest with
  | none =>
    have : shrConst x k = .ill "digits exceed the widest integer" := by simp only [shrConst, hR]
    exact absurd this (hwf _)
  | some rep =>
    have ⟨h1, hPs⟩ := shrConst_step x k hx hk hR
    cases hF : repTy (x.digits - k) ⟨x.narrowest.bits, (promote rep).signed⟩ with
    | none => rw [hF] at h1; exact absurd h1 (hwf _)
    | some F =>
      have ⟨hFs, hFd, hFb⟩ := setDigits_spec hF
      simp only at hFs
      have ⟨b1, b2, b3⟩ := shr_bound hx (Nat.le_of_lt hk)
      have hsF : F.InRange (x.value / 2^k) :=
        inRange_of_digits' (by omega) b1 b2 (fun h => b3 (hPs (by rw [← hFs]; exact h)))
      rw [hF] at h1
      simp only [IntTy.wrap_id (by omega : 1 ≤ F.bits) hsF] at h1
      exact ⟨_, h1, hPs⟩

/-! ## Comparison -/

/-- the exact comparison of two mathematical integers -/
def cmpExact (op : CmpOp) (l r : Int) : Bool :=
  match op with
  | .lt => decide (l < r)
  | .le => decide (l ≤ r)
  | .gt => decide (l > r)
  | .ge => decide (l ≥ r)
  | .eq => decide (l = r)
  | .ne => decide (l ≠ r)

/-- comparing two in-range values of one type compares the values -/
theorem cCmp_same_exact (O : IntTy) (hb : 1 ≤ O.bits) (op : CmpOp) (a b : Int)
    (ha : O.InRange a) (hb' : O.InRange b) : cCmp op (O, a) (O, b) = cmpExact op a b := by
  have hP := promote_bits_ge hb
  have wa : (promote O).wrap a = a := IntTy.wrap_id hP (promote_inRange hb ha)
  have wb : (promote O).wrap b = b := IntTy.wrap_id hP (promote_inRange hb hb')
  cases op <;> simp only [cCmp, cmpExact, usualArith_self, wa, wb]

/-- the common type of two narrowest types of signedness `s` is unsigned only if `s` is -/
theorem commonType_unsigned {a b : Nat} {s : Bool}
    (h : (commonType ⟨a, s⟩ ⟨b, s⟩).signed = false) : s = false := by
  cases s with
  | false => rfl
  | true =>
    exfalso
    unfold commonType usualArith at h
    have h1 : (promote ⟨a, true⟩).signed = true := promote_signed_of_signed rfl
    have h2 : (promote ⟨b, true⟩).signed = true := promote_signed_of_signed rfl
    simp only [h1, h2, beq_self_eq_true, ite_true] at h
    split at h
    · simp at h
    · split at h <;> simp_all

theorem cmp_core (op : CmpOp) (x y : ENum) (hx : x.InRange) (hy : y.InRange) {rep : IntTy}
    (hR : repTy (max x.digits y.digits)
      (commonType ⟨x.narrowest.bits, x.narrowest.signed || y.narrowest.signed⟩
                  ⟨y.narrowest.bits, x.narrowest.signed || y.narrowest.signed⟩) = some rep) :
    cmp op x y = .ok (cmpExact op x.value y.value) := by
  have ⟨hRs, hRd, hRb⟩ := setDigits_spec hR
  have hb1 : 1 ≤ rep.bits := by omega
  have hs : rep.signed = false → x.narrowest.signed = false ∧ y.narrowest.signed = false :=
    fun h => or_false_iff' (commonType_unsigned (by rw [← hRs]; exact h))
  have hxR : rep.InRange x.value := inRange_of_fits (by omega) hx (fun h => (hs h).1)
  have hyR : rep.InRange y.value := inRange_of_fits (by omega) hy (fun h => (hs h).2)
  simp only [cmp, hR, convert, IntTy.wrap_id hb1 hxR, IntTy.wrap_id hb1 hyR,
    cCmp_same_exact rep hb1 op _ _ hxR hyR]

theorem cmp_wf (op : CmpOp) (x y : ENum) (hx : x.InRange) (hy : y.InRange)
    (hwf : ∀ m, cmp op x y ≠ .ill m) : cmp op x y = .ok (cmpExact op x.value y.value) := by
  cases hR : repTy (max x.digits y.digits)
      (commonType ⟨x.narrowest.bits, x.narrowest.signed || y.narrowest.signed⟩
                  ⟨y.narrowest.bits, x.narrowest.signed || y.narrowest.signed⟩) with
  | none =>
    have : cmp op x y = .ill "digits exceed the widest integer" := by simp only [cmp, hR]
    exact absurd this (hwf _)
  | some rep => exact cmp_core op x y hx hy hR

end Cnl.Elastic
