import CnlProofs.Exp2
/-!
# Kernel-checked tables: EVERY input of every 8-bit format with an integer bit (exponents −7…+2 unsigned, −6…+2 signed)

`tab_<fmt> : sweep f (boundOK f B) 0 256 = true` — on all 256 representations: if the true `⌊2^x·2^(−E)⌋` fits the type,
the model returns a value (no undefined behaviour) within `B` units of it.  `B` is the exact maximum: `att_<fmt>` exhibits an
input that attains it.  (`int8_t` with exponents +1, +2: as found, `static_cast<Rep>(floor(x))` wrapped there, finding
`C20.exp2_positive_exponent_floor_wraps`; since the repair the tables `tab_i8_p1`, `tab_i8_p2` hold, and `orig_i8_p1` records that
the as-found definition fails the same sweep.)
-/
open Cnl Cnl.Exp2 Cnl.Exp2Proofs
namespace Cnl.Exp2Tab8
set_option maxRecDepth 100000

theorem tab_u8_m7 : sweep ⟨8, false, -7⟩ (boundOK ⟨8, false, -7⟩ 2) 0 256 = true := by decide +kernel
theorem att_u8_m7 : (List.range 256).any (fun i => attains ⟨8, false, -7⟩ 2 ((i : Int) + lowestF (Fmt.rep ⟨8, false, -7⟩))) = true := by decide +kernel
theorem tab_u8_m6 : sweep ⟨8, false, -6⟩ (boundOK ⟨8, false, -6⟩ 2) 0 256 = true := by decide +kernel
theorem att_u8_m6 : (List.range 256).any (fun i => attains ⟨8, false, -6⟩ 2 ((i : Int) + lowestF (Fmt.rep ⟨8, false, -6⟩))) = true := by decide +kernel
theorem tab_u8_m5 : sweep ⟨8, false, -5⟩ (boundOK ⟨8, false, -5⟩ 2) 0 256 = true := by decide +kernel
theorem att_u8_m5 : (List.range 256).any (fun i => attains ⟨8, false, -5⟩ 2 ((i : Int) + lowestF (Fmt.rep ⟨8, false, -5⟩))) = true := by decide +kernel
theorem tab_u8_m4 : sweep ⟨8, false, -4⟩ (boundOK ⟨8, false, -4⟩ 2) 0 256 = true := by decide +kernel
theorem att_u8_m4 : (List.range 256).any (fun i => attains ⟨8, false, -4⟩ 2 ((i : Int) + lowestF (Fmt.rep ⟨8, false, -4⟩))) = true := by decide +kernel
theorem tab_u8_m3 : sweep ⟨8, false, -3⟩ (boundOK ⟨8, false, -3⟩ 1) 0 256 = true := by decide +kernel
theorem att_u8_m3 : (List.range 256).any (fun i => attains ⟨8, false, -3⟩ 1 ((i : Int) + lowestF (Fmt.rep ⟨8, false, -3⟩))) = true := by decide +kernel
theorem tab_u8_m2 : sweep ⟨8, false, -2⟩ (boundOK ⟨8, false, -2⟩ 1) 0 256 = true := by decide +kernel
theorem att_u8_m2 : (List.range 256).any (fun i => attains ⟨8, false, -2⟩ 1 ((i : Int) + lowestF (Fmt.rep ⟨8, false, -2⟩))) = true := by decide +kernel
theorem tab_u8_m1 : sweep ⟨8, false, -1⟩ (boundOK ⟨8, false, -1⟩ 1) 0 256 = true := by decide +kernel
theorem att_u8_m1 : (List.range 256).any (fun i => attains ⟨8, false, -1⟩ 1 ((i : Int) + lowestF (Fmt.rep ⟨8, false, -1⟩))) = true := by decide +kernel
theorem tab_u8_p0 : sweep ⟨8, false, 0⟩ (boundOK ⟨8, false, 0⟩ 0) 0 256 = true := by decide +kernel
theorem att_u8_p0 : (List.range 256).any (fun i => attains ⟨8, false, 0⟩ 0 ((i : Int) + lowestF (Fmt.rep ⟨8, false, 0⟩))) = true := by decide +kernel
theorem tab_u8_p1 : sweep ⟨8, false, 1⟩ (boundOK ⟨8, false, 1⟩ 1) 0 256 = true := by decide +kernel
theorem att_u8_p1 : (List.range 256).any (fun i => attains ⟨8, false, 1⟩ 1 ((i : Int) + lowestF (Fmt.rep ⟨8, false, 1⟩))) = true := by decide +kernel
theorem tab_u8_p2 : sweep ⟨8, false, 2⟩ (boundOK ⟨8, false, 2⟩ 1) 0 256 = true := by decide +kernel
theorem att_u8_p2 : (List.range 256).any (fun i => attains ⟨8, false, 2⟩ 1 ((i : Int) + lowestF (Fmt.rep ⟨8, false, 2⟩))) = true := by decide +kernel
theorem tab_i8_m6 : sweep ⟨8, true, -6⟩ (boundOK ⟨8, true, -6⟩ 1) 0 256 = true := by decide +kernel
theorem att_i8_m6 : (List.range 256).any (fun i => attains ⟨8, true, -6⟩ 1 ((i : Int) + lowestF (Fmt.rep ⟨8, true, -6⟩))) = true := by decide +kernel
theorem tab_i8_m5 : sweep ⟨8, true, -5⟩ (boundOK ⟨8, true, -5⟩ 1) 0 256 = true := by decide +kernel
theorem att_i8_m5 : (List.range 256).any (fun i => attains ⟨8, true, -5⟩ 1 ((i : Int) + lowestF (Fmt.rep ⟨8, true, -5⟩))) = true := by decide +kernel
theorem tab_i8_m4 : sweep ⟨8, true, -4⟩ (boundOK ⟨8, true, -4⟩ 1) 0 256 = true := by decide +kernel
theorem att_i8_m4 : (List.range 256).any (fun i => attains ⟨8, true, -4⟩ 1 ((i : Int) + lowestF (Fmt.rep ⟨8, true, -4⟩))) = true := by decide +kernel
theorem tab_i8_m3 : sweep ⟨8, true, -3⟩ (boundOK ⟨8, true, -3⟩ 1) 0 256 = true := by decide +kernel
theorem att_i8_m3 : (List.range 256).any (fun i => attains ⟨8, true, -3⟩ 1 ((i : Int) + lowestF (Fmt.rep ⟨8, true, -3⟩))) = true := by decide +kernel
theorem tab_i8_m2 : sweep ⟨8, true, -2⟩ (boundOK ⟨8, true, -2⟩ 1) 0 256 = true := by decide +kernel
theorem att_i8_m2 : (List.range 256).any (fun i => attains ⟨8, true, -2⟩ 1 ((i : Int) + lowestF (Fmt.rep ⟨8, true, -2⟩))) = true := by decide +kernel
theorem tab_i8_m1 : sweep ⟨8, true, -1⟩ (boundOK ⟨8, true, -1⟩ 1) 0 256 = true := by decide +kernel
theorem att_i8_m1 : (List.range 256).any (fun i => attains ⟨8, true, -1⟩ 1 ((i : Int) + lowestF (Fmt.rep ⟨8, true, -1⟩))) = true := by decide +kernel
theorem tab_i8_p0 : sweep ⟨8, true, 0⟩ (boundOK ⟨8, true, 0⟩ 1) 0 256 = true := by decide +kernel
theorem att_i8_p0 : (List.range 256).any (fun i => attains ⟨8, true, 0⟩ 1 ((i : Int) + lowestF (Fmt.rep ⟨8, true, 0⟩))) = true := by decide +kernel
theorem tab_i8_p1 : sweep ⟨8, true, 1⟩ (boundOK ⟨8, true, 1⟩ 1) 0 256 = true := by decide +kernel
theorem att_i8_p1 : (List.range 256).any (fun i => attains ⟨8, true, 1⟩ 1 ((i : Int) + lowestF (Fmt.rep ⟨8, true, 1⟩))) = true := by decide +kernel
theorem tab_i8_p2 : sweep ⟨8, true, 2⟩ (boundOK ⟨8, true, 2⟩ 1) 0 256 = true := by decide +kernel
theorem att_i8_p2 : (List.range 256).any (fun i => attains ⟨8, true, 2⟩ 1 ((i : Int) + lowestF (Fmt.rep ⟨8, true, 2⟩))) = true := by decide +kernel

/-- AS FOUND the same sweep fails on `int8_t, power<1>`: some negative input whose true result is 0 does not even yield a value -/
theorem orig_i8_p1 : (List.range 128).any (fun i => match exp2Orig ⟨8, true, 1⟩ ((i : Int) - 128) with | .ok _ => false | _ => true) = true := by
  decide +kernel

end Cnl.Exp2Tab8
