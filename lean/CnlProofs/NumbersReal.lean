import Mathlib.Analysis.Real.Pi.Bounds
import Mathlib.Analysis.Complex.ExponentialBounds
import Mathlib.NumberTheory.Harmonic.EulerMascheroni
import Mathlib.Analysis.SpecialFunctions.Log.Base
import CnlProofs.Numbers
/-!
# CnlProofs.NumbersReal — the stored `<numbers>` constants against the TRUE real constants (Mathlib)

`CnlProofs.Numbers` compares the generated table of stored representations with a 60-digit decimal reference (numerical).
Here the comparison is with the real numbers themselves: `Real.pi`, `Real.exp 1`, `Real.log 2`, `Real.log 10`, `1 / Real.log 2`,
`1 / Real.log 10`, `1 / Real.pi`, `1 / √π`, `√2`, `√3`, `1 / √3`, `(1 + √5) / 2`, `Real.eulerMascheroniConstant`.

Method.  For each constant `K` a rational enclosure `lo ≤ K ≤ hi` is PROVED (`Encl.Holds`):
* π: Mathlib's `Real.pi_gt_d20`, `Real.pi_lt_d20` (20 decimals);
* e: Mathlib's `Real.exp_one_near_20` (|e − r| ≤ 10^−20);
* ln 2: 70 terms of `−log(1 − ½) = Σ (½)^k / k` with Mathlib's remainder bound `Real.abs_log_sub_add_sum_range_le` (error ≤ 2^−70;
  Mathlib's own `log_two_near_10` has only 10 digits, not enough for 64-bit formats);
* ln 10 = 3·ln 2 + ln(5/4), the latter from 30 terms of the same series at 1/5 (error ≤ 5^−30/4);
* log2e = 1/ln 2, log10e = 1/ln 10, 1/π: reciprocals of the enclosures; 1/√π, √2, √3, 1/√3, φ: squares compared;
* γ: `eulerMascheroniSeq (2^14 − 1) < γ < eulerMascheroniSeq' (2^14)` (Mathlib), i.e. `H₁₆₃₈₃ − 14 ln 2 < γ < H₁₆₃₈₄ − 14 ln 2` — a window of
  width 2^−14 (the harmonic numbers are evaluated by the kernel as exact fractions): Mathlib has no sharper handle on γ than these two
  O(1/n) sequences, so only the entries with at most 14 fractional bits are reachable.
Then a decidable check on natural numbers (`chk`: `(c−1)·2^E < lo ∧ hi < (c+1)·2^E`, cross-multiplied) is evaluated by the kernel over the
whole generated list of entries of that constant (`decide +kernel` on `List.all`), and lifted to ℝ by `within1_of_chk`.

Nothing under `CnlModel`/`CnlDriver` imports this module.
-/
open Cnl Cnl.NumbersProofs Real

namespace Cnl.NumbersReal

/-- table entry: (signed 0/1, bits of Rep, −Exponent, stored representation) -/
abbrev Entry := Nat × Nat × Nat × Nat

/-- C20 (constants) for one entry, over the real numbers: the stored value `c·2^E` is less than one unit `2^E` away from `K` -/
def Within1 (K : ℝ) (e : Entry) : Prop :=
  ((entryRep e : ℝ) - 1) * (2 : ℝ) ^ (entryExp e) < K ∧ K < ((entryRep e : ℝ) + 1) * (2 : ℝ) ^ (entryExp e)

/-- the real number each name of the table stands for -/
noncomputable def trueValue (name : String) : Option ℝ :=
  if name = "e" then some (exp 1)
  else if name = "log2e" then some (1 / log 2)
  else if name = "log10e" then some (1 / log 10)
  else if name = "pi" then some π
  else if name = "inv_pi" then some (1 / π)
  else if name = "inv_sqrtpi" then some (1 / √π)
  else if name = "ln2" then some (log 2)
  else if name = "ln10" then some (log 10)
  else if name = "sqrt2" then some (√2)
  else if name = "sqrt3" then some (√3)
  else if name = "inv_sqrt3" then some (1 / √3)
  else if name = "egamma" then some eulerMascheroniConstant
  else if name = "phi" then some ((1 + √5) / 2)
  else none

/-- rational enclosure `ln/ld ≤ K ≤ hn/hd` -/
structure Encl where
  ln : Nat
  ld : Nat
  hn : Nat
  hd : Nat

def Encl.Holds (b : Encl) (K : ℝ) : Prop :=
  0 < b.ld ∧ 0 < b.hd ∧ (b.ln : ℝ) / b.ld ≤ K ∧ K ≤ (b.hn : ℝ) / b.hd

/-- `(c − 1)·2^(−f) < ln/ld` and `hn/hd < (c + 1)·2^(−f)`, cross-multiplied in ℕ -/
def chk (b : Encl) (e : Entry) : Bool :=
  decide (e.2.2.2 * b.ld < b.ln * 2 ^ e.2.2.1 + b.ld) && decide (b.hn * 2 ^ e.2.2.1 < (e.2.2.2 + 1) * b.hd)

/-- the lifting lemma: a proved enclosure and a passed check give the real inequality -/
theorem within1_of_chk {b : Encl} {K : ℝ} (hK : b.Holds K) {e : Entry} (h : chk b e = true) : Within1 K e := by
  obtain ⟨s, w, f, c⟩ := e
  obtain ⟨hld, hhd, hlo, hhi⟩ := hK
  simp only [chk, Bool.and_eq_true, decide_eq_true_eq] at h
  obtain ⟨h1, h2⟩ := h
  have h1' : (c : ℝ) * b.ld < b.ln * 2 ^ f + b.ld := by exact_mod_cast h1
  have h2' : (b.hn : ℝ) * 2 ^ f < ((c : ℝ) + 1) * b.hd := by exact_mod_cast h2
  have hp : (0 : ℝ) < 2 ^ f := by positivity
  have hld' : (0 : ℝ) < b.ld := by exact_mod_cast hld
  have hhd' : (0 : ℝ) < b.hd := by exact_mod_cast hhd
  simp only [Within1, entryRep, entryExp, Int.cast_natCast, zpow_neg, zpow_natCast]
  constructor
  · calc ((c : ℝ) - 1) * (2 ^ f)⁻¹ < b.ln / b.ld := by
          rw [← div_eq_mul_inv, div_lt_div_iff₀ hp hld']; linarith
      _ ≤ K := hlo
  · calc K ≤ b.hn / b.hd := hhi
      _ < ((c : ℝ) + 1) * (2 ^ f)⁻¹ := by
          rw [← div_eq_mul_inv, div_lt_div_iff₀ hhd' hp]; linarith

theorem within1_of_all {b : Encl} {K : ℝ} (hK : b.Holds K) {l : List Entry} {p : Entry → Bool}
    (h : l.all (fun e => !p e || chk b e) = true) : ∀ e ∈ l, p e = true → Within1 K e := by
  intro e he hp
  have := List.all_eq_true.mp h e he
  rw [hp] at this
  exact within1_of_chk hK (by simpa using this)

theorem Encl.holds_of {b : Encl} {K lo hi : ℝ} (hld : 0 < b.ld) (hhd : 0 < b.hd)
    (h1 : (b.ln : ℝ) / b.ld ≤ lo) (h2 : hi ≤ (b.hn : ℝ) / b.hd) (hlo : lo ≤ K) (hhi : K ≤ hi) : b.Holds K :=
  ⟨hld, hhd, h1.trans hlo, hhi.trans h2⟩

/-! ## the enclosures -/

def piEncl : Encl := ⟨314159265358979323846, 10 ^ 20, 314159265358979323847, 10 ^ 20⟩
def eEncl : Encl := ⟨27182818284590452353458, 10 ^ 22, 27182818284590452353659, 10 ^ 22⟩
def ln2Encl : Encl := ⟨69314718055994530941637, 10 ^ 23, 69314718055994530941807, 10 ^ 23⟩
def ln10Encl : Encl := ⟨230258509299404568401512, 10 ^ 23, 230258509299404568402077, 10 ^ 23⟩
def log2eEncl : Encl := ⟨144269504088896340735818, 10 ^ 23, 144269504088896340736172, 10 ^ 23⟩
def log10eEncl : Encl := ⟨43429448190325182765060, 10 ^ 23, 43429448190325182765168, 10 ^ 23⟩
def invPiEncl : Encl := ⟨3183098861837906715370, 10 ^ 22, 3183098861837906715381, 10 ^ 22⟩
def invSqrtPiEncl : Encl := ⟨5641895835477562869474, 10 ^ 22, 5641895835477562869484, 10 ^ 22⟩
def sqrt2Encl : Encl := ⟨14142135623730950488016887, 10 ^ 25, 14142135623730950488016888, 10 ^ 25⟩
def sqrt3Encl : Encl := ⟨17320508075688772935274463, 10 ^ 25, 17320508075688772935274464, 10 ^ 25⟩
def invSqrt3Encl : Encl := ⟨5773502691896257645091487, 10 ^ 25, 5773502691896257645091488, 10 ^ 25⟩
def phiEncl : Encl := ⟨32360679774997896964091736, 2 * 10 ^ 25, 32360679774997896964091737, 2 * 10 ^ 25⟩
def egammaEncl : Encl := ⟨57718514, 10 ^ 8, 57724619, 10 ^ 8⟩

theorem pi_holds : piEncl.Holds π :=
  Encl.holds_of (lo := 3.14159265358979323846) (hi := 3.14159265358979323847)
    (by norm_num [piEncl]) (by norm_num [piEncl]) (by norm_num [piEncl]) (by norm_num [piEncl])
    pi_gt_d20.le pi_lt_d20.le

theorem e_holds : eEncl.Holds (exp 1) := by
  have h := abs_sub_le_iff.1 exp_one_near_20
  exact Encl.holds_of (lo := 363916618873 / 133877442384 - 1 / 10 ^ 20) (hi := 363916618873 / 133877442384 + 1 / 10 ^ 20)
    (by norm_num [eEncl]) (by norm_num [eEncl]) (by norm_num [eEncl]) (by norm_num [eEncl])
    (by linarith [h.2]) (by linarith [h.1])

/-- 70 terms of the series of `−log(1 − ½)`: `|log 2 − S₇₀| ≤ 2^−70` -/
theorem log_two_bounds :
    (69314718055994530941637 : ℝ) / 10 ^ 23 ≤ log 2 ∧ log 2 ≤ 69314718055994530941807 / 10 ^ 23 := by
  have t : |(2⁻¹ : ℝ)| = 2⁻¹ := abs_of_pos (by norm_num)
  have z := Real.abs_log_sub_add_sum_range_le (show |(2⁻¹ : ℝ)| < 1 by rw [t]; norm_num) 70
  have hs : ∑ i ∈ Finset.range 70, (2⁻¹ : ℝ) ^ (i + 1) / ((i : ℝ) + 1) =
      81026204946914272618346609082102250801114907729 / 116896104058966015646750947554978314987992252416 := by
    norm_num [Finset.sum_range_succ]
  have he : (2⁻¹ : ℝ) ^ (70 + 1) / (1 - 2⁻¹) = 1 / 2 ^ 70 := by norm_num
  rw [t, hs, he, show (1 : ℝ) - 2⁻¹ = 2⁻¹ by norm_num, log_inv] at z
  obtain ⟨z1, z2⟩ := abs_le.1 z
  have n1 : (69314718055994530941637 : ℝ) / 10 ^ 23 ≤
      81026204946914272618346609082102250801114907729 / 116896104058966015646750947554978314987992252416 - 1 / 2 ^ 70 := by
    norm_num
  have n2 : (81026204946914272618346609082102250801114907729 : ℝ) / 116896104058966015646750947554978314987992252416 + 1 / 2 ^ 70 ≤
      69314718055994530941807 / 10 ^ 23 := by
    norm_num
  constructor <;> linarith

/-- 30 terms of the series of `−log(1 − 1/5)`: `|log(5/4) − S₃₀| ≤ 5^−30/4` -/
theorem log_five_quarters_bounds :
    (22314355131420975576601 : ℝ) / 10 ^ 23 ≤ log (5 / 4) ∧ log (5 / 4) ≤ 22314355131420975576656 / 10 ^ 23 := by
  have t : |(5⁻¹ : ℝ)| = 5⁻¹ := abs_of_pos (by norm_num)
  have z := Real.abs_log_sub_add_sum_range_le (show |(5⁻¹ : ℝ)| < 1 by rw [t]; norm_num) 30
  have hs : ∑ i ∈ Finset.range 30, (5⁻¹ : ℝ) ^ (i + 1) / ((i : ℝ) + 1) =
      1257216089470559139639707640251 / 5634113475680351257324218750000 := by
    norm_num [Finset.sum_range_succ]
  have he : (5⁻¹ : ℝ) ^ (30 + 1) / (1 - 5⁻¹) = 1 / (4 * 5 ^ 30) := by norm_num
  rw [t, hs, he, show (1 : ℝ) - 5⁻¹ = (5 / 4)⁻¹ by norm_num, log_inv] at z
  obtain ⟨z1, z2⟩ := abs_le.1 z
  have n1 : (22314355131420975576601 : ℝ) / 10 ^ 23 ≤
      1257216089470559139639707640251 / 5634113475680351257324218750000 - 1 / (4 * 5 ^ 30) := by
    norm_num
  have n2 : (1257216089470559139639707640251 : ℝ) / 5634113475680351257324218750000 + 1 / (4 * 5 ^ 30) ≤
      22314355131420975576656 / 10 ^ 23 := by
    norm_num
  constructor <;> linarith

theorem log_ten_eq : log 10 = 3 * log 2 + log (5 / 4) := by
  rw [show (10 : ℝ) = 2 ^ 3 * (5 / 4) by norm_num, log_mul (by norm_num) (by norm_num), log_pow]
  norm_num

theorem log_ten_bounds :
    (230258509299404568401512 : ℝ) / 10 ^ 23 ≤ log 10 ∧ log 10 ≤ 230258509299404568402077 / 10 ^ 23 := by
  obtain ⟨a1, a2⟩ := log_two_bounds
  obtain ⟨b1, b2⟩ := log_five_quarters_bounds
  rw [log_ten_eq]
  constructor <;> linarith

theorem ln2_holds : ln2Encl.Holds (log 2) :=
  Encl.holds_of (by norm_num [ln2Encl]) (by norm_num [ln2Encl]) (by norm_num [ln2Encl]) (by norm_num [ln2Encl])
    log_two_bounds.1 log_two_bounds.2

theorem ln10_holds : ln10Encl.Holds (log 10) :=
  Encl.holds_of (by norm_num [ln10Encl]) (by norm_num [ln10Encl]) (by norm_num [ln10Encl]) (by norm_num [ln10Encl])
    log_ten_bounds.1 log_ten_bounds.2

/-- reciprocal of an enclosure `0 < a ≤ K ≤ b` -/
theorem inv_bounds {K a b lo hi : ℝ} (ha : 0 < a) (h1 : a ≤ K) (h2 : K ≤ b) (hlo : lo * b ≤ 1) (hhi : 1 ≤ hi * a) :
    lo ≤ 1 / K ∧ 1 / K ≤ hi := by
  have hK : 0 < K := lt_of_lt_of_le ha h1
  have hb : 0 < b := lt_of_lt_of_le hK h2
  constructor
  · calc lo ≤ 1 / b := by rw [le_div_iff₀ hb]; exact hlo
      _ ≤ 1 / K := one_div_le_one_div_of_le hK h2
  · calc 1 / K ≤ 1 / a := one_div_le_one_div_of_le ha h1
      _ ≤ hi := by rw [div_le_iff₀ ha]; exact hhi

theorem log2e_holds : log2eEncl.Holds (1 / log 2) := by
  have h := inv_bounds (lo := 144269504088896340735818 / 10 ^ 23) (hi := 144269504088896340736172 / 10 ^ 23)
    (by norm_num) log_two_bounds.1 log_two_bounds.2 (by norm_num) (by norm_num)
  exact Encl.holds_of (by norm_num [log2eEncl]) (by norm_num [log2eEncl]) (by norm_num [log2eEncl]) (by norm_num [log2eEncl])
    h.1 h.2

theorem log10e_holds : log10eEncl.Holds (1 / log 10) := by
  have h := inv_bounds (lo := 43429448190325182765060 / 10 ^ 23) (hi := 43429448190325182765168 / 10 ^ 23)
    (by norm_num) log_ten_bounds.1 log_ten_bounds.2 (by norm_num) (by norm_num)
  exact Encl.holds_of (by norm_num [log10eEncl]) (by norm_num [log10eEncl]) (by norm_num [log10eEncl]) (by norm_num [log10eEncl])
    h.1 h.2

theorem inv_pi_bounds : (3183098861837906715370 : ℝ) / 10 ^ 22 ≤ 1 / π ∧ 1 / π ≤ 3183098861837906715381 / 10 ^ 22 :=
  inv_bounds (a := 3.14159265358979323846) (b := 3.14159265358979323847)
    (by norm_num) pi_gt_d20.le pi_lt_d20.le (by norm_num) (by norm_num)

theorem invPi_holds : invPiEncl.Holds (1 / π) :=
  Encl.holds_of (by norm_num [invPiEncl]) (by norm_num [invPiEncl]) (by norm_num [invPiEncl]) (by norm_num [invPiEncl])
    inv_pi_bounds.1 inv_pi_bounds.2

/-- square root of an enclosure -/
theorem sqrt_bounds {x lo hi : ℝ} (hlo : 0 < lo) (hhi : 0 ≤ hi) (h1 : lo ^ 2 ≤ x) (h2 : x ≤ hi ^ 2) : lo ≤ √x ∧ √x ≤ hi :=
  ⟨(Real.le_sqrt' hlo).2 h1, Real.sqrt_le_iff.2 ⟨hhi, h2⟩⟩

theorem one_div_sqrt (x : ℝ) : 1 / √x = √(1 / x) := by
  rw [one_div, one_div, Real.sqrt_inv]

theorem invSqrtPi_holds : invSqrtPiEncl.Holds (1 / √π) := by
  obtain ⟨p1, p2⟩ := inv_bounds (lo := 1 / 3.14159265358979323847) (hi := 1 / 3.14159265358979323846)
    (a := 3.14159265358979323846) (b := 3.14159265358979323847)
    (by norm_num) pi_gt_d20.le pi_lt_d20.le (by norm_num) (by norm_num)
  have h := sqrt_bounds (x := 1 / π) (lo := 5641895835477562869474 / 10 ^ 22) (hi := 5641895835477562869484 / 10 ^ 22)
    (by norm_num) (by norm_num) (le_trans (by norm_num) p1) (le_trans p2 (by norm_num))
  rw [one_div_sqrt]
  exact Encl.holds_of (by norm_num [invSqrtPiEncl]) (by norm_num [invSqrtPiEncl]) (by norm_num [invSqrtPiEncl])
    (by norm_num [invSqrtPiEncl]) h.1 h.2

theorem sqrt2_holds : sqrt2Encl.Holds (√2) := by
  have h := sqrt_bounds (x := 2) (lo := 14142135623730950488016887 / 10 ^ 25) (hi := 14142135623730950488016888 / 10 ^ 25)
    (by norm_num) (by norm_num) (by norm_num) (by norm_num)
  exact Encl.holds_of (by norm_num [sqrt2Encl]) (by norm_num [sqrt2Encl]) (by norm_num [sqrt2Encl]) (by norm_num [sqrt2Encl])
    h.1 h.2

theorem sqrt3_holds : sqrt3Encl.Holds (√3) := by
  have h := sqrt_bounds (x := 3) (lo := 17320508075688772935274463 / 10 ^ 25) (hi := 17320508075688772935274464 / 10 ^ 25)
    (by norm_num) (by norm_num) (by norm_num) (by norm_num)
  exact Encl.holds_of (by norm_num [sqrt3Encl]) (by norm_num [sqrt3Encl]) (by norm_num [sqrt3Encl]) (by norm_num [sqrt3Encl])
    h.1 h.2

theorem invSqrt3_holds : invSqrt3Encl.Holds (1 / √3) := by
  have h := sqrt_bounds (x := 1 / 3) (lo := 5773502691896257645091487 / 10 ^ 25) (hi := 5773502691896257645091488 / 10 ^ 25)
    (by norm_num) (by norm_num) (by norm_num) (by norm_num)
  rw [one_div_sqrt]
  exact Encl.holds_of (by norm_num [invSqrt3Encl]) (by norm_num [invSqrt3Encl]) (by norm_num [invSqrt3Encl])
    (by norm_num [invSqrt3Encl]) h.1 h.2

theorem phi_holds : phiEncl.Holds ((1 + √5) / 2) := by
  have h := sqrt_bounds (x := 5) (lo := 22360679774997896964091736 / 10 ^ 25) (hi := 22360679774997896964091737 / 10 ^ 25)
    (by norm_num) (by norm_num) (by norm_num) (by norm_num)
  exact Encl.holds_of (lo := (1 + 22360679774997896964091736 / 10 ^ 25) / 2) (hi := (1 + 22360679774997896964091737 / 10 ^ 25) / 2)
    (by norm_num [phiEncl]) (by norm_num [phiEncl]) (by norm_num [phiEncl]) (by norm_num [phiEncl])
    (by linarith [h.1]) (by linarith [h.2])

/-! ### γ: `H₁₆₃₈₃ − 14 ln 2 < γ < H₁₆₃₈₄ − 14 ln 2` -/

/-- the harmonic number `Hₙ` as numerator and denominator (denominator `n!`), structurally recursive -/
def harmNat : Nat → Nat × Nat
  | 0 => (0, 1)
  | n + 1 => ((harmNat n).1 * (n + 1) + (harmNat n).2, (harmNat n).2 * (n + 1))

theorem harmNat_pos (n : Nat) : 0 < (harmNat n).2 := by
  induction n with
  | zero => simp [harmNat]
  | succ n ih => simp only [harmNat]; positivity

theorem harmonic_eq (n : Nat) : ((harmonic n : ℚ) : ℝ) = ((harmNat n).1 : ℝ) / ((harmNat n).2 : ℝ) := by
  induction n with
  | zero => simp [harmNat]
  | succ n ih =>
    have hp : ((harmNat n).2 : ℝ) ≠ 0 := by exact_mod_cast (harmNat_pos n).ne'
    have hn : ((n : ℝ) + 1) ≠ 0 := by positivity
    rw [harmonic_succ]
    push_cast
    rw [ih]
    simp only [harmNat]
    push_cast
    field_simp

set_option maxRecDepth 100000 in
theorem harm16384_le : (harmNat 16384).1 * 10 ^ 10 ≤ 102813067101 * (harmNat 16384).2 := by decide +kernel
set_option maxRecDepth 100000 in
theorem harm16383_ge : 102812456748 * (harmNat 16383).2 ≤ (harmNat 16383).1 * 10 ^ 10 := by decide +kernel

theorem egamma_holds : egammaEncl.Holds eulerMascheroniConstant := by
  have hlo := eulerMascheroniSeq_lt_eulerMascheroniConstant 16383
  have hhi := eulerMascheroniConstant_lt_eulerMascheroniSeq' 16384
  have l16384 : log 16384 = 14 * log 2 := by
    rw [show (16384 : ℝ) = 2 ^ 14 by norm_num, log_pow]; norm_num
  simp only [eulerMascheroniSeq, eulerMascheroniSeq'] at hlo hhi
  rw [if_neg (by norm_num)] at hhi
  rw [harmonic_eq] at hlo hhi
  rw [show ((16383 : ℕ) : ℝ) + 1 = 16384 by norm_num, l16384] at hlo
  rw [show ((16384 : ℕ) : ℝ) = 16384 by norm_num, l16384] at hhi
  have p4 : (0 : ℝ) < ((harmNat 16384).2 : ℝ) := by exact_mod_cast harmNat_pos 16384
  have p3 : (0 : ℝ) < ((harmNat 16383).2 : ℝ) := by exact_mod_cast harmNat_pos 16383
  have a4 : ((harmNat 16384).1 : ℝ) / ((harmNat 16384).2 : ℝ) ≤ 102813067101 / 10 ^ 10 := by
    rw [div_le_div_iff₀ p4 (by norm_num)]; exact_mod_cast harm16384_le
  have a3 : (102812456748 : ℝ) / 10 ^ 10 ≤ ((harmNat 16383).1 : ℝ) / ((harmNat 16383).2 : ℝ) := by
    rw [div_le_div_iff₀ (by norm_num) p3]; exact_mod_cast harm16383_ge
  obtain ⟨b1, b2⟩ := log_two_bounds
  exact Encl.holds_of (lo := 102812456748 / 10 ^ 10 - 14 * (69314718055994530941807 / 10 ^ 23))
    (hi := 102813067101 / 10 ^ 10 - 14 * (69314718055994530941637 / 10 ^ 23))
    (by norm_num [egammaEncl]) (by norm_num [egammaEncl]) (by norm_num [egammaEncl]) (by norm_num [egammaEncl])
    (by linarith) (by linarith)

/-! ## the kernel-evaluated checks over the generated table -/

def every (b : Encl) (l : List Entry) : Bool := l.all (chk b)

theorem pi_chk : every piEncl Generated.numbers_pi = true := by decide +kernel
theorem e_chk : every eEncl Generated.numbers_e = true := by decide +kernel
theorem ln2_chk : every ln2Encl Generated.numbers_ln2 = true := by decide +kernel
theorem ln10_chk : every ln10Encl Generated.numbers_ln10 = true := by decide +kernel
theorem log2e_chk : every log2eEncl Generated.numbers_log2e = true := by decide +kernel
theorem log10e_chk : every log10eEncl Generated.numbers_log10e = true := by decide +kernel
theorem inv_pi_chk : every invPiEncl Generated.numbers_inv_pi = true := by decide +kernel
theorem inv_sqrtpi_chk : every invSqrtPiEncl Generated.numbers_inv_sqrtpi = true := by decide +kernel
theorem sqrt2_chk : every sqrt2Encl Generated.numbers_sqrt2 = true := by decide +kernel
theorem sqrt3_chk : every sqrt3Encl Generated.numbers_sqrt3 = true := by decide +kernel
theorem inv_sqrt3_chk : every invSqrt3Encl Generated.numbers_inv_sqrt3 = true := by decide +kernel
theorem phi_chk : every phiEncl Generated.numbers_phi = true := by decide +kernel

/-- γ: the entries with at most `egammaBits` fractional bits -/
abbrev egammaBits : Nat := 14
theorem egamma_chk :
    Generated.numbers_egamma.all (fun e => !decide (e.2.2.1 ≤ egammaBits) || chk egammaEncl e) = true := by decide +kernel

theorem within1_of_every {b : Encl} {K : ℝ} (hK : b.Holds K) {l : List Entry} (h : every b l = true) :
    ∀ e ∈ l, Within1 K e :=
  fun e he => within1_of_chk hK (List.all_eq_true.mp h e he)

theorem pi_within1 : ∀ e ∈ Generated.numbers_pi, Within1 π e := within1_of_every pi_holds pi_chk
theorem e_within1 : ∀ e ∈ Generated.numbers_e, Within1 (exp 1) e := within1_of_every e_holds e_chk
theorem ln2_within1 : ∀ e ∈ Generated.numbers_ln2, Within1 (log 2) e := within1_of_every ln2_holds ln2_chk
theorem ln10_within1 : ∀ e ∈ Generated.numbers_ln10, Within1 (log 10) e := within1_of_every ln10_holds ln10_chk
theorem log2e_within1 : ∀ e ∈ Generated.numbers_log2e, Within1 (1 / log 2) e := within1_of_every log2e_holds log2e_chk
theorem log10e_within1 : ∀ e ∈ Generated.numbers_log10e, Within1 (1 / log 10) e := within1_of_every log10e_holds log10e_chk
theorem inv_pi_within1 : ∀ e ∈ Generated.numbers_inv_pi, Within1 (1 / π) e := within1_of_every invPi_holds inv_pi_chk
theorem inv_sqrtpi_within1 : ∀ e ∈ Generated.numbers_inv_sqrtpi, Within1 (1 / √π) e :=
  within1_of_every invSqrtPi_holds inv_sqrtpi_chk
theorem sqrt2_within1 : ∀ e ∈ Generated.numbers_sqrt2, Within1 (√2) e := within1_of_every sqrt2_holds sqrt2_chk
theorem sqrt3_within1 : ∀ e ∈ Generated.numbers_sqrt3, Within1 (√3) e := within1_of_every sqrt3_holds sqrt3_chk
theorem inv_sqrt3_within1 : ∀ e ∈ Generated.numbers_inv_sqrt3, Within1 (1 / √3) e :=
  within1_of_every invSqrt3_holds inv_sqrt3_chk
theorem phi_within1 : ∀ e ∈ Generated.numbers_phi, Within1 ((1 + √5) / 2) e := within1_of_every phi_holds phi_chk
theorem egamma_within1 : ∀ e ∈ Generated.numbers_egamma, e.2.2.1 ≤ egammaBits → Within1 eulerMascheroniConstant e :=
  fun e he hb => within1_of_all egamma_holds egamma_chk e he (by simpa using hb)

/-- an entry is reached by the real-number theorems: everything except γ beyond `egammaBits` fractional bits -/
@[reducible] def Covered (name : String) (e : Entry) : Prop := name = "egamma" → e.2.2.1 ≤ egammaBits

/-- all thirteen constants, every generated entry (γ: up to 14 fractional bits): the model stores the tabulated representation
and it is less than one unit away from the true real constant -/
theorem all_within1 (name : String) (es : List Entry) (hmem : (name, es) ∈ Generated.numbers) (K : ℝ)
    (hK : trueValue name = some K) (e : Entry) (he : e ∈ es) (hc : Covered name e) : Within1 K e := by
  simp only [Generated.numbers, List.mem_cons, Prod.mk.injEq, List.not_mem_nil, or_false] at hmem
  rcases hmem with h | h | h | h | h | h | h | h | h | h | h | h | h <;> obtain ⟨rfl, rfl⟩ := h <;>
    simp only [trueValue, String.reduceEq, if_true, if_false, Option.some.injEq] at hK <;> subst hK
  · exact e_within1 e he
  · exact log2e_within1 e he
  · exact log10e_within1 e he
  · exact pi_within1 e he
  · exact inv_pi_within1 e he
  · exact inv_sqrtpi_within1 e he
  · exact ln2_within1 e he
  · exact ln10_within1 e he
  · exact sqrt2_within1 e he
  · exact sqrt3_within1 e he
  · exact inv_sqrt3_within1 e he
  · exact egamma_within1 e he (hc rfl)
  · exact phi_within1 e he

/-- the model reproduces every entry (from `NumbersProofs.model_eq`), per entry -/
theorem stored_eq (name : String) (es : List Entry) (hmem : (name, es) ∈ Generated.numbers) (e : Entry) (he : e ∈ es) :
    Numbers.stored name (entryTy e) (entryExp e) = .ok (entryRep e) := by
  have h := model_eq
  unfold allEntries at h
  have h1 := List.all_eq_true.mp h (name, es) hmem
  have h2 := List.all_eq_true.mp h1 e he
  simpa using h2

end Cnl.NumbersReal
