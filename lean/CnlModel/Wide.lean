import CnlModel.CInt
/-!
# CnlModel.Wide — `cnl::wide_integer` over the vendored multi-limb `uintwide_t`

A value is a `List Nat` of `n` limbs of `w` bits, least significant limb first.  Every routine
of `include/cnl/_impl/ckormanyos/uintwide_t.h` that the operators of `cnl::wide_integer` reach is
transcribed as a structural recursion over the limb list with explicit carries; the limb width
`w` and the limb count are *arguments*, so the theorems of `CnlProperties/C10.lean` quantify over
all of them.  `lo`/`hi`/`dbl` are the code's `make_lo`/`make_hi`/arithmetic in `double_limb_type`
(wrapping at `2^(2w)`).

Transcription notes (what the C++ does, not what it should do):
* `a / 0` is `numeric_limits::max()` and `a % 0` is `0` (no trap) — `operator/=`, `eval_divide_knuth`.
* shifts by a *signed* count `≥ width` fill with the sign (`>>`) or zero (`<<`); by an *unsigned*
  count `≥ width` they fill with zero in both directions; negative counts shift the other way.
* multiplication of exactly four limbs uses the unrolled `eval_multiply_n_by_n_to_lo_part`
  (`mulUnary` = the `eval_mul_unary` overload for fewer than 129 limbs).
* `≥ 129` limbs (`number_of_limbs_karatsuba_threshold`) select the other `eval_mul_unary` overload:
  `eval_multiply_kara_n_by_n_to_2n`, **transcribed** as `kara` — same recursion (`nh = n / 2`), same leaf rule
  (`n ≤ 48` or, since the repair 38967ec, `n` odd → `eval_multiply_n_by_n_to_2n`), same carry/borrow propagation,
  and the same *memory*: the routine works in place on the result array `r` (2n limbs) and the scratch array `t`
  (4n limbs), which `eval_mul_unary` declares without initialising them.  `kara` therefore takes and returns the
  contents of both arrays, and `opMulWith` takes their initial contents as an argument (`opMul` = zero-filled).
  `karaOrig`/`opMulWithOrig` are the routine **before** the repair: when the limb count was halved down to an *odd*
  count above the cutoff (`karaOddSplit`), `nh = (n-1)/2` dropped the top limb of both operands and never wrote
  `r[n-1]`, `r[2n-1]`, which were then *read*: the product was wrong and depended on the initial contents
  (kernel-checked in `CnlProperties/C10.lean`).  `opMul` dispatches on the limb count as the overload set does.
* Knuth division (`divKnuth`) is Algorithm D with the multiplicative normalisation
  `d = 2^w / (v₁ + 1)`, including the `q̂` decrement loop (fuel `2^w + 1`; `none` = loop did not end)
  and the add-back step; `KStats` reports how often each fired.
* `toChars` is `cnl::to_chars` (charconv/to_chars.h) composed from the wide operators (`value / 10`,
  `value - quotient * 10`); it only instantiates for *signed* multi-limb `wide_integer`.
* conversion to/from floating point is transcribed in `CnlModel/WideFloat.lean`.
Lean core only.
-/
namespace Cnl.Wide

abbrev Limbs := List Nat

/-- value of a limb list -/
def toNat (w : Nat) : Limbs → Nat
  | [] => 0
  | x :: xs => x + 2^w * toNat w xs

/-- the `n` low limbs of `v` -/
def ofNat (w : Nat) : Nat → Nat → Limbs
  | 0, _ => []
  | n+1, v => v % 2^w :: ofNat w n (v / 2^w)

/-- every limb is below `2^w` -/
def WF (w : Nat) (a : Limbs) : Prop := ∀ x ∈ a, x < 2^w

def zeros (n : Nat) : Limbs := List.replicate n 0

/-- `uintwide_t<w·n, limb of w bits, void, signed>` -/
structure Fmt where
  w : Nat
  n : Nat
  signed : Bool
deriving DecidableEq, Repr

/-- the width `N` of the two's-complement integer -/
def Fmt.N (f : Fmt) : Nat := f.w * f.n

/-! ## storage rule: `wide_tag<Digits, Narrowest>::rep` (wide_tag/definition.h, wide-integer.h) -/

inductive Storage where
  | builtin (t : IntTy)
  | multi (f : Fmt)
deriving DecidableEq, Repr

/-- `_impl::max_digits<Narrowest>`: digits of the widest built-in of that signedness (128-bit) -/
def maxDigits (narrowest : IntTy) : Nat := if narrowest.signed then 127 else 128

/-- `set_digits_t<Narrowest, d>`: the narrowest built-in of the same signedness with `≥ d` digits -/
def setDigits (narrowest : IntTy) (d : Nat) : IntTy :=
  let need := d + (if narrowest.signed then 1 else 0)
  let bits := if need ≤ 8 then 8 else if need ≤ 16 then 16 else if need ≤ 32 then 32 else if need ≤ 64 then 64 else 128
  ⟨bits, narrowest.signed⟩

/-- `make_uintwide<Digits, Narrowest>`: limb = unsigned narrowest, width rounded up to whole limbs -/
def storage (digits : Nat) (narrowest : IntTy) : Storage :=
  if digits > maxDigits narrowest then
    let minWidth := digits + (if narrowest.signed then 1 else 0)
    let limbWidth := narrowest.bits
    let minLimbs := (minWidth + limbWidth - 1) / limbWidth
    .multi ⟨limbWidth, minLimbs, narrowest.signed⟩
  else .builtin (setDigits narrowest (Nat.max narrowest.digits digits))

/-! ## limb and double-limb arithmetic -/

/-- `make_lo` / `static_cast<limb_type>` -/
def lo (w x : Nat) : Nat := x % 2^w
/-- `make_hi` of a double-limb value -/
def hi (w x : Nat) : Nat := x / 2^w % 2^w
/-- reduction to `double_limb_type` -/
def dbl (w x : Nat) : Nat := x % 2^(2*w)

/-- `eval_add_n(r, u, v, count, carry_in)`; `count` = length of the shorter list -/
def addN (w : Nat) : Limbs → Limbs → Nat → Limbs × Nat
  | u :: us, v :: vs, c =>
    let t := dbl w (u + v + c)
    let r := addN w us vs (hi w t)
    (lo w t :: r.1, r.2)
  | _, _, c => ([], c)

/-- `eval_subtract_n(r, u, v, count, borrow_in)` -/
def subN (w : Nat) : Limbs → Limbs → Bool → Limbs × Bool
  | u :: us, v :: vs, b =>
    let t := dbl w (u + 2^(2*w) - v - (if b then 1 else 0))
    let r := subN w us vs (hi w t != 0)
    (lo w t :: r.1, r.2)
  | _, _, b => ([], b)

/-- the loop of `eval_multiply_1d` -/
def mul1dLoop (w : Nat) (b : Nat) : Limbs → Nat → Limbs × Nat
  | [], c => ([], c)
  | a :: as, c =>
    let t := dbl w (c + dbl w (a * b))
    let r := mul1dLoop w b as (hi w t)
    (lo w t :: r.1, r.2)

/-- `eval_multiply_1d(r, a, b, count)`: `r = a·b` and the carry limb -/
def mul1d (w : Nat) (a : Limbs) (b : Nat) : Limbs × Nat :=
  if b = 0 then (zeros a.length, 0)
  else
    let r := mul1dLoop w b a 0
    (r.1, lo w r.2)

/-- inner loop of the schoolbook low-part product: `r[i+j] += a_i·b_j` for the limbs `r` still has -/
def mulRow (w : Nat) (ai : Nat) : Limbs → Limbs → Nat → Limbs
  | bj :: bs, rk :: rs, c =>
    let c1 := dbl w (c + dbl w (ai * bj))
    let c2 := dbl w (c1 + rk)
    lo w c2 :: mulRow w ai bs rs (hi w c2)
  | [], rs, _ => rs
  | _, [], _ => []

/-- outer loop: `r` is the not yet final part `r[i..count)` -/
def mulLoAux (w : Nat) : Limbs → Limbs → Limbs → Limbs
  | [], _, r => r
  | ai :: as, b, r =>
    match (if ai ≠ 0 then mulRow w ai b r 0 else r) with
    | [] => []
    | r0 :: rt => r0 :: mulLoAux w as b rt

/-- generic `eval_multiply_n_by_n_to_lo_part` -/
def mulLo (w : Nat) (a b : Limbs) : Limbs := mulLoAux w a b (zeros a.length)

/-- the unrolled `eval_multiply_n_by_n_to_lo_part` for exactly four limbs -/
def mulLo4 (w : Nat) (a0 a1 a2 a3 b0 b1 b2 b3 : Nat) : Limbs :=
  let a0b0 := dbl w (a0 * b0)
  let a0b1 := dbl w (a0 * b1)
  let a1b0 := dbl w (a1 * b0)
  let a1b1 := dbl w (a1 * b1)
  if a2 = 0 ∧ b2 = 0 ∧ a3 = 0 ∧ b3 = 0 then
    let r1 := dbl w (hi w a0b0 + lo w a1b0 + lo w a0b1)
    let r2 := dbl w (hi w r1 + lo w a1b1 + hi w a0b1 + hi w a1b0)
    let r3 := lo w (hi w r2 + hi w a1b1)
    [lo w a0b0, lo w r1, lo w r2, r3]
  else
    let a0b2 := dbl w (a0 * b2)
    let a2b0 := dbl w (a2 * b0)
    let r1 := dbl w (hi w a0b0 + lo w a1b0 + lo w a0b1)
    let r2 := dbl w (hi w r1 + lo w a2b0 + lo w a1b1 + lo w a0b2 + hi w a1b0 + hi w a0b1)
    let r3 := lo w (hi w r2 + lo w (dbl w (a3 * b0)) + lo w (dbl w (a2 * b1)) + lo w (dbl w (a1 * b2))
                    + lo w (dbl w (a0 * b3)) + hi w a2b0 + hi w a1b1 + hi w a0b2)
    [lo w a0b0, lo w r1, lo w r2, r3]

/-- `eval_mul_unary`, the overload for fewer than 129 limbs: schoolbook low part (unrolled for four limbs) -/
def mulUnary (w : Nat) (a b : Limbs) : Limbs :=
  match a, b with
  | [a0, a1, a2, a3], [b0, b1, b2, b3] => mulLo4 w a0 a1 a2 a3 b0 b1 b2 b3
  | _, _ => mulLo w a b

/-! ## not, increment, decrement, negate -/

def bitNot (w : Nat) (a : Limbs) : Limbs := a.map (fun x => 2^w - 1 - x % 2^w)

/-- `preincrement`: `do ++*it while (*it++ == 0 && it != end)` -/
def preinc (w : Nat) : Limbs → Limbs
  | [] => []
  | x :: xs =>
    let y := (x + 1) % 2^w
    if y = 0 then y :: preinc w xs else y :: xs

/-- `predecrement` -/
def predec (w : Nat) : Limbs → Limbs
  | [] => []
  | x :: xs =>
    let y := (x + 2^w - 1) % 2^w
    if y = 2^w - 1 then y :: predec w xs else y :: xs

def negate (w : Nat) (a : Limbs) : Limbs := preinc w (bitNot w a)

/-! ## tests and comparison -/

def isZero (a : Limbs) : Bool := a.all (· == 0)

/-- most significant limb (`values.back()`) -/
def topLimb : Limbs → Nat
  | [] => 0
  | [x] => x
  | _ :: xs => topLimb xs

/-- `is_neg`: the top bit of the top limb, for signed formats only -/
def isNeg (f : Fmt) (a : Limbs) : Bool := f.signed && (topLimb a / 2^(f.w - 1) % 2 == 1)

/-- `compare_ranges`: the most significant differing limb decides -/
def cmpRanges : Limbs → Limbs → Int
  | x :: xs, y :: ys =>
    let c := cmpRanges xs ys
    if c ≠ 0 then c else if x = y then 0 else if x > y then 1 else -1
  | _, _ => 0

/-- `compare` -/
def compare (f : Fmt) (a b : Limbs) : Int :=
  let an := isNeg f a
  let bn := isNeg f b
  if an && !bn then -1 else if !an && bn then 1 else cmpRanges a b

def cmpOp (f : Fmt) (op : CmpOp) (a b : Limbs) : Bool :=
  let c := compare f a b
  match op with
  | .eq => c == 0 | .lt => c == -1 | .gt => c == 1 | .ne => c != 0 | .le => decide (c ≤ 0) | .ge => decide (c ≥ 0)

/-! ## bitwise -/

def bitAnd (a b : Limbs) : Limbs := List.zipWith (· &&& ·) a b
def bitOr (a b : Limbs) : Limbs := List.zipWith (· ||| ·) a b
def bitXor (a b : Limbs) : Limbs := List.zipWith (· ^^^ ·) a b

/-! ## shifts -/

/-- bit part of `shl`, from limb `offset` upwards; `prev` = `part_from_previous_value` -/
def shlBits (w s : Nat) : Limbs → Nat → Limbs
  | [], _ => []
  | t :: ts, prev => (lo w (t * 2^s) ||| prev) :: shlBits w s ts (t / 2^(w - s))

/-- `shl(n)` for `0 < n < width` -/
def shl (w : Nat) (a : Limbs) (k : Nat) : Limbs :=
  let offset := k / w
  let s := k % w
  let moved := zeros offset ++ a.take (a.length - offset)
  if s ≠ 0 then moved.take offset ++ shlBits w s (moved.drop offset) 0 else moved

/-- bit part of `shr` from limb `n-1-offset` downwards; returns the limbs and the `prev` for the next lower limb -/
def shrBits (w s : Nat) (init : Nat) : Limbs → Limbs × Nat
  | [] => ([], init)
  | t :: ts =>
    let r := shrBits w s init ts
    ((t / 2^s ||| r.2) :: r.1, lo w (t * 2^(w - s)))

/-- `shr(n)` for `0 < n < width`; negative signed values are filled with ones -/
def shr (f : Fmt) (a : Limbs) (k : Nat) : Limbs :=
  let w := f.w
  let offset := k / w
  let s := k % w
  let neg := isNeg f a
  let fill := if neg then 2^w - 1 else 0
  let low := a.drop offset
  if s ≠ 0 then
    let init := if neg then lo w ((2^w - 1) * 2^(w - s)) else 0
    (shrBits w s init low).1 ++ List.replicate (a.length - low.length) fill
  else low ++ List.replicate (a.length - low.length) fill

/-- the unsigned-count overloads (also reached from a negative signed count) -/
def shrU (f : Fmt) (a : Limbs) (k : Nat) : Limbs :=
  if k = 0 then a else if k ≥ f.N then zeros a.length else shr f a k
def shlU (f : Fmt) (a : Limbs) (k : Nat) : Limbs :=
  if k = 0 then a else if k ≥ f.N then zeros a.length else shl f.w a k

/-- `operator<<=(n)`; `sgn` = the count's type is signed -/
def shlOp (f : Fmt) (a : Limbs) (k : Int) (sgn : Bool) : Limbs :=
  if sgn && k < 0 then shrU f a (-k).toNat
  else if k = 0 then a
  else if k.toNat ≥ f.N then zeros a.length
  else shl f.w a k.toNat
/-- `operator>>=(n)` -/
def shrOp (f : Fmt) (a : Limbs) (k : Int) (sgn : Bool) : Limbs :=
  if sgn && k < 0 then shlU f a (-k).toNat
  else if k = 0 then a
  else if k.toNat ≥ f.N then
    (if sgn then List.replicate a.length (if isNeg f a then 2^f.w - 1 else 0) else zeros a.length)
  else shr f a k.toNat

/-- `rep << cnl::constant<K>` (`_impl/wide-integer.h`, also the `K_c` literals, and `<<=` with a constant, which is routed
through the binary operator): forwards `rep << K` with `K` of the constant's value type (`sgn`: that type is signed;
`cnl::intmax_t` for the literals) — the whole count, not a narrowed one -/
def shlConst (f : Fmt) (a : Limbs) (K : Int) (sgn : Bool) : Limbs := shlOp f a K sgn
/-- `rep >> cnl::constant<K>` -/
def shrConst (f : Fmt) (a : Limbs) (K : Int) (sgn : Bool) : Limbs := shrOp f a K sgn

/-! ## division -/

/-- loop of `eval_divide_by_single_limb` from the top limb down: (quotient limbs, `long_numerator`, `hi_part`) -/
def divShortAux (w d : Nat) : Limbs → Limbs × Nat × Nat
  | [] => ([], 0, 0)
  | x :: xs =>
    let r := divShortAux w d xs
    let ln := dbl w (x + dbl w (dbl w (r.2.1 + 2^(2*w) - dbl w (d * r.2.2)) * 2^w))
    let q := lo w (ln / d)
    (q :: r.1, ln, q)

/-- `eval_divide_by_single_limb(d, u_offset, &remainder)`: quotient limbs and the remainder limb -/
def divShort (w d : Nat) (uOffset : Nat) (a : Limbs) : Limbs × Nat :=
  let cnt := a.length - uOffset
  let r := divShortAux w d (a.take cnt)
  let q := r.1 ++ a.drop cnt
  let ln := dbl w (q.headD 0 + dbl w (dbl w (r.2.1 + 2^(2*w) - dbl w (d * r.2.2)) * 2^w))
  (q, lo w (ln / 2^w))

/-- number of zero limbs at the top -/
def topZeros : Limbs → Nat
  | [] => 0
  | x :: xs =>
    let k := topZeros xs
    if k = xs.length ∧ x = 0 then k + 1 else k

structure KStats where
  qhatDec : Nat := 0
  addBack : Nat := 0
deriving Repr, DecidableEq

/-- the `q̂` decrement loop of step D3 -/
def qhatAdjust (w vTop vNext uj2 : Nat) : Nat → Nat → Nat → Nat → Option (Nat × Nat)
  | 0, _, _, _ => none
  | fuel+1, qhat, t, decs =>
    if hi w t ≠ 0 ∨ dbl w (vNext * qhat) ≤ dbl w (dbl w (t * 2^w) + uj2) then some (qhat, decs)
    else qhatAdjust w vTop vNext uj2 fuel ((qhat + 2^w - 1) % 2^w) (dbl w (t + vTop)) (decs + 1)

/-- steps D3–D7 for the `k+1` remaining quotient digits; returns `uu`, the digits (low first) and statistics -/
def knuthLoop (w : Nat) (vv : Limbs) (nn : Nat) : Nat → Limbs → Option (Limbs × Limbs × KStats)
  | 0, uu => some (uu, [], {})
  | k+1, uu =>
    let uj := nn + k
    let ujv := uu.getD uj 0
    let uj1 := uu.getD (uj - 1) 0
    let uj2 := uu.getD (uj - 2) 0
    let vTop := vv.getD (nn - 1) 0
    let vNext := vv.getD (nn - 2) 0
    let ujj1 := dbl w (dbl w (ujv * 2^w) + uj1)
    let qhat0 := if ujv = vTop then 2^w - 1 else lo w (ujj1 / vTop)
    let t0 := dbl w (ujj1 + 2^(2*w) - dbl w (qhat0 * vTop))
    match qhatAdjust w vTop vNext uj2 (2^w + 1) qhat0 t0 0 with
    | none => none
    | some (qhat, decs) =>
      let m := mul1d w vv qhat
      let nv := m.1 ++ [m.2]
      let window := (uu.drop k).take (nn + 1)
      let s := subN w window nv false
      let qw : Nat × Limbs :=
        if s.2 then ((qhat + 2^w - 1) % 2^w, (addN w (s.1.take nn) vv 0).1 ++ s.1.drop nn) else (qhat, s.1)
      let uu' := uu.take k ++ qw.2 ++ uu.drop (k + nn + 1)
      match knuthLoop w vv nn k uu' with
      | none => none
      | some (uuF, qs, st) =>
        some (uuF, qs ++ [qw.1], { qhatDec := st.qhatDec + decs, addBack := st.addBack + (if s.2 then 1 else 0) })

/-- un-normalising short division of the remainder by `d`, from the top limb down: (limbs, `previous_u`) -/
def unnormalise (w d : Nat) : Limbs → Limbs × Nat
  | [] => ([], 0)
  | x :: xs =>
    let r := unnormalise w d xs
    let t := dbl w (x + dbl w (r.2 * 2^w))
    let q := lo w (t / d)
    (q :: r.1, lo w (dbl w (t + 2^(2*w) - dbl w (d * q))))

/-- which path `eval_divide_knuth` took -/
inductive DivPath where
  | byZero | zeroNum | less | equal | single | knuth
deriving DecidableEq, Repr

structure DivOut where
  q : Limbs
  r : Limbs
  path : DivPath
  stats : KStats := {}
deriving Repr

/-- all-ones, or all-ones without the sign bit: `limits_helper_max(is_signed)` -/
def repMax (f : Fmt) : Limbs :=
  if f.signed then ofNat f.w f.n (2^(f.N - 1) - 1) else List.replicate f.n (2^f.w - 1)
/-- `limits_helper_lowest(is_signed)` -/
def repLowest (f : Fmt) : Limbs :=
  if f.signed then ofNat f.w f.n (2^(f.N - 1)) else zeros f.n

/-- `eval_divide_knuth(other, &remainder)` on non-negative operands of `n` limbs; `maxv` is what a zero
divisor yields.  `none` = the `q̂` loop did not terminate within its fuel. -/
def divKnuth (w : Nat) (u v : Limbs) (maxv : Limbs) : Option DivOut :=
  let n := u.length
  let uOff := topZeros u
  let vOff := topZeros v
  if vOff = n then some ⟨maxv, zeros n, .byZero, {}⟩
  else if uOff = n then some ⟨u, zeros n, .zeroNum, {}⟩
  else
    let c := cmpRanges u v
    if c = -1 then some ⟨zeros n, u, .less, {}⟩
    else if c = 0 then some ⟨1 :: zeros (n - 1), zeros n, .equal, {}⟩
    else if vOff + 1 = n then
      let r := divShort w (v.headD 0) uOff u
      some ⟨r.1, r.2 :: zeros (n - 1), .single, {}⟩
    else
      let nU := n - uOff
      let nn := n - vOff
      let d := lo w (2^w / (v.getD (nn - 1) 0 + 1))
      let uu : Limbs := if d > 1 then (let m := mul1d w (u.take nU) d; m.1 ++ [m.2]) else u.take nU ++ [0]
      let vv : Limbs := if d > 1 then (mul1d w (v.take nn) d).1 else v.take nn
      let m := nU - nn
      match knuthLoop w vv nn (m + 1) uu with
      | none => none
      | some (uuF, qs, st) =>
        let q := qs ++ zeros (n - (m + 1))
        let r := if d = 1 then uuF.take nn ++ zeros (n - nn) else (unnormalise w d (uuF.take nn)).1 ++ zeros (n - nn)
        some ⟨q, r, .knuth, st⟩

/-- the unsigned view used by `operator/=` and `operator%=` for negative operands -/
def Fmt.unsignedView (f : Fmt) : Fmt := { f with signed := false }

/-- `operator/=` (operands are distinct objects) -/
def opDiv (f : Fmt) (a b : Limbs) : Option DivOut :=
  if isZero b then some ⟨repMax f, zeros f.n, .byZero, {}⟩
  else
    let an := isNeg f a
    let bn := isNeg f b
    if an || bn then
      let a' := if an then negate f.w a else a
      let b' := if bn then negate f.w b else b
      match divKnuth f.w a' b' (repMax f.unsignedView) with
      | none => none
      | some o => some { o with q := if an != bn then negate f.w o.q else o.q }
    else divKnuth f.w a b (repMax f)

/-- `operator%=`: the remainder takes the sign of the numerator -/
def opMod (f : Fmt) (a b : Limbs) : Option DivOut :=
  let an := isNeg f a
  let bn := isNeg f b
  if an || bn then
    let a' := if an then negate f.w a else a
    let b' := if bn then negate f.w b else b
    match divKnuth f.w a' b' (repMax f.unsignedView) with
    | none => none
    | some o => some { o with r := if an then negate f.w o.r else o.r }
  else divKnuth f.w a b (repMax f)

/-! ## Karatsuba multiplication (`eval_mul_unary` for `≥ 129` limbs), transcribed with its memory -/

/-- `number_of_limbs_karatsuba_threshold` -/
def karaThreshold : Nat := 129
/-- the schoolbook cutoff inside `eval_multiply_kara_n_by_n_to_2n` -/
def karaCutoff : Nat := 48

/-- `xs[off .. off+len)` -/
def slice (xs : Limbs) (off len : Nat) : Limbs := (xs.drop off).take len
/-- write `ys` into `xs` at offset `off` -/
def splice (xs : Limbs) (off : Nat) (ys : Limbs) : Limbs := xs.take off ++ ys ++ xs.drop (off + ys.length)
/-- exactly `len` limbs: `xs`, zero-padded or truncated -/
def fitTo (len : Nat) (xs : Limbs) : Limbs := (xs ++ zeros (len - xs.length)).take len

/-- inner loop of `eval_multiply_n_by_n_to_2n` for one `a_i`: `r[i+j] += a_i·b_j`, then `r[i+count] = carry` -/
def mulRowFull (w : Nat) (ai : Nat) : Limbs → Limbs → Nat → Limbs
  | bj :: bs, rk :: rs, c =>
    let c1 := dbl w (c + dbl w (ai * bj))
    let c2 := dbl w (c1 + rk)
    lo w c2 :: mulRowFull w ai bs rs (hi w c2)
  | [], _ :: rs, c => lo w c :: rs
  | _, [], _ => []

def mul2nAux (w : Nat) : Limbs → Limbs → Limbs → Limbs
  | [], _, r => r
  | ai :: as, b, r =>
    match (if ai ≠ 0 then mulRowFull w ai b r 0 else r) with
    | [] => []
    | r0 :: rt => r0 :: mul2nAux w as b rt

/-- `eval_multiply_n_by_n_to_2n(r, a, b, count)`: the full `2·count`-limb schoolbook product -/
def mul2n (w : Nat) (a b : Limbs) : Limbs := mul2nAux w a b (zeros (2 * a.length))

/-- `eval_multiply_kara_propagate_carry(t, n, carry)` on the `n` limbs given -/
def karaCarry (w : Nat) : Limbs → Nat → Limbs
  | [], _ => []
  | x :: xs, c =>
    if c = 0 then x :: xs
    else
      let uv := dbl w (x + c)
      lo w uv :: karaCarry w xs (hi w uv)

/-- `eval_multiply_kara_propagate_borrow(t, n, has_borrow)` -/
def karaBorrow (w : Nat) : Limbs → Bool → Limbs
  | [], _ => []
  | x :: xs, b =>
    if !b then x :: xs
    else
      let uv := dbl w (x + 2^(2*w) - 1)
      lo w uv :: karaBorrow w xs (hi w uv != 0)

/-- the splitting branch of `eval_multiply_kara_n_by_n_to_2n` (`n > 48`): `a0`, `a1`, `b0`, `b1` are the `nh = n / 2`
limbs at `a`, `a + nh`, `b`, `b + nh`; `rec` is the routine itself (one level down).  Kept separate so that what the
branch reads of its operands is explicit: nothing but these four slices. -/
def karaSplit (w : Nat) (rec : Nat → Limbs → Limbs → Limbs → Limbs → Limbs × Limbs)
    (n : Nat) (a0 a1 b0 b1 r t : Limbs) : Limbs × Limbs :=
  let nh := n / 2
  -- Step 1: a1*b1 -> r2 = r + n,  a0*b0 -> r0 = r,  r[0..2n) -> t0
  let c1 := rec nh a1 b1 (slice r n (2 * nh)) t
  let r := splice r n c1.1
  let c2 := rec nh a0 b0 (slice r 0 (2 * nh)) c1.2
  let r := splice r 0 c2.1
  let t := splice c2.2 0 (r.take (2 * n))
  -- Step 2: r1 += t2 ; r1 += t0   (r1 = r + nh, n limbs; carries go into r3 = r + n + nh, nh limbs)
  let s := addN w (slice r nh n) (slice t n n) 0
  let r := splice r nh s.1
  let r := splice r (n + nh) (karaCarry w (slice r (n + nh) nh) s.2)
  let s := addN w (slice r nh n) (slice t 0 n) 0
  let r := splice r nh s.1
  let r := splice r (n + nh) (karaCarry w (slice r (n + nh) nh) s.2)
  -- Step 3: |a1-a0| -> t0 (left untouched when equal)
  let ca := cmpRanges a1 a0
  let t := if ca = 1 then splice t 0 (subN w a1 a0 false).1
           else if ca = -1 then splice t 0 (subN w a0 a1 false).1 else t
  -- Step 4: |b0-b1| -> t1 = t + nh
  let cb := cmpRanges b0 b1
  let t := if cb = 1 then splice t nh (subN w b0 b1 false).1
           else if cb = -1 then splice t nh (subN w b1 b0 false).1 else t
  -- Step 5: t0*t1 -> t2 = t + n, scratch t4 = t + 2n
  let c3 := rec nh (slice t 0 nh) (slice t nh nh) (slice t n (2 * nh)) (t.drop (2 * n))
  let t := (splice t n c3.1).take (2 * n) ++ c3.2
  -- Step 6: r1 ±= t2 (n limbs)
  if ca * cb = 1 then
    let s := addN w (slice r nh n) (slice t n n) 0
    let r := splice r nh s.1
    (splice r (n + nh) (karaCarry w (slice r (n + nh) nh) s.2), t)
  else if ca * cb = -1 then
    let s := subN w (slice r nh n) (slice t n n) false
    let r := splice r nh s.1
    (splice r (n + nh) (karaBorrow w (slice r (n + nh) nh) s.2), t)
  else (r, t)

/-- `eval_multiply_kara_n_by_n_to_2n(r, a, b, n, t)` as repaired in 38967ec: schoolbook at or below the cutoff
**and for odd limb counts**, so only even counts are ever split.  `a`, `b`: the `n` limbs at the operand pointers;
`r`: the `2n` limbs at the result pointer (contents on entry); `t`: the scratch storage from pointer `t`
to its end.  Returns the contents of `r` and `t` on exit.  The first argument is recursion fuel (`≥ log₂ n`). -/
def kara (w : Nat) : Nat → Nat → Limbs → Limbs → Limbs → Limbs → Limbs × Limbs
  | 0, _, _, _, r, t => (r, t)
  | fuel+1, n, a, b, r, t =>
    if n ≤ karaCutoff ∨ n % 2 ≠ 0 then (splice r 0 (mul2n w (a.take n) (b.take n)), t)
    else
      let nh := n / 2
      karaSplit w (kara w fuel) n (slice a 0 nh) (slice a nh nh) (slice b 0 nh) (slice b nh nh) r t

/-- the routine **before** 38967ec: every count above the cutoff is split with `nh = n / 2`, odd ones too (then
the top limb of each operand is dropped and `r[n-1]`, `r[2n-1]` are read without having been written) -/
def karaOrig (w : Nat) : Nat → Nat → Limbs → Limbs → Limbs → Limbs → Limbs × Limbs
  | 0, _, _, _, r, t => (r, t)
  | fuel+1, n, a, b, r, t =>
    if n ≤ karaCutoff then (splice r 0 (mul2n w (a.take n) (b.take n)), t)
    else
      let nh := n / 2
      karaSplit w (karaOrig w fuel) n (slice a 0 nh) (slice a nh nh) (slice b 0 nh) (slice b nh nh) r t

/-- the Karatsuba overload of `eval_mul_unary`: `init` = the contents the two local arrays `result`
(2n limbs) and `t` (4n limbs) happen to have (the code does not initialise them — harmless for the repaired
routine, which writes every limb before reading it); the low `n` limbs of `result` are copied back -/
def mulKaratsuba (w : Nat) (init : Limbs × Limbs) (a b : Limbs) : Limbs :=
  let n := a.length
  (kara w n n a b (fitTo (2 * n) init.1) (fitTo (4 * n) init.2)).1.take n

/-- the same over the unrepaired routine -/
def mulKaratsubaOrig (w : Nat) (init : Limbs × Limbs) (a b : Limbs) : Limbs :=
  let n := a.length
  (karaOrig w n n a b (fitTo (2 * n) init.1) (fitTo (4 * n) init.2)).1.take n

def karaOddSplitAux : Nat → Nat → Bool
  | 0, _ => false
  | fuel+1, n => decide (n > karaCutoff) && (n % 2 == 1 || karaOddSplitAux fuel (n / 2))

/-- halving the limb count reaches an odd count above the schoolbook cutoff: in the unrepaired routine that level
split into two halves of `(n-1)/2` limbs, dropped the top limb of each operand and read two limbs it never wrote -/
def karaOddSplit (n : Nat) : Bool := karaOddSplitAux n n

/-- the instantiations whose `*` was defective before 38967ec: Karatsuba is selected and met an odd split -/
def karaDefect (n : Nat) : Bool := decide (n ≥ karaThreshold) && karaOddSplit n

/-! ## the binary operators as `cnl::wide_integer` reaches them (`uintwide_t(u).operator op=(v)`) -/

def opAdd (w : Nat) (a b : Limbs) : Limbs := (addN w a b 0).1
def opSub (w : Nat) (a b : Limbs) : Limbs := (subN w a b false).1
/-- `operator*=`: the overload set of `eval_mul_unary` dispatches on the limb count; `init` is only
looked at by the Karatsuba overload (its uninitialised local arrays) -/
def opMulWith (w : Nat) (init : Limbs × Limbs) (a b : Limbs) : Limbs :=
  if a.length ≥ karaThreshold then mulKaratsuba w init a b else mulUnary w a b
/-- `operator*=` with zero-filled local arrays -/
def opMul (w : Nat) (a b : Limbs) : Limbs := opMulWith w ([], []) a b
/-- `operator*=` before the repair 38967ec -/
def opMulWithOrig (w : Nat) (init : Limbs × Limbs) (a b : Limbs) : Limbs :=
  if a.length ≥ karaThreshold then mulKaratsubaOrig w init a b else mulUnary w a b

def binOp (f : Fmt) (op : BinOp) (a b : Limbs) : Res Limbs :=
  match op with
  | .add => .ok (opAdd f.w a b)
  | .sub => .ok (opSub f.w a b)
  | .mul => .ok (opMul f.w a b)
  | .div => match opDiv f a b with
    | some o => .ok o.q
    | none => .diverges
  | .mod => match opMod f a b with
    | some o => .ok o.r
    | none => .diverges
  | .band => .ok (bitAnd a b)
  | .bor => .ok (bitOr a b)
  | .bxor => .ok (bitXor a b)
  | .shl => .ill "shift by a multi-limb count"
  | .shr => .ill "shift by a multi-limb count"

/-! ## conversions from and to built-in integers -/

/-- constructor from an unsigned built-in value `v < 2^bits` -/
def fromUnsigned (f : Fmt) (bits : Nat) (v : Nat) : Limbs :=
  if bits ≤ f.w then (v :: zeros (f.n - 1)).take f.n
  else
    -- limbs are taken while `index < n` and `shift < bits`
    let cnt := Nat.min f.n ((bits + f.w - 1) / f.w)
    ofNat f.w cnt v ++ zeros (f.n - cnt)

/-- constructor from a signed built-in value of type `t` -/
def fromSigned (f : Fmt) (t : IntTy) (v : Int) : Limbs :=
  let neg := v < 0
  let u := (if neg then (-v) % 2^t.bits else v % 2^t.bits).toNat
  let r := fromUnsigned f t.bits u
  if neg then negate f.w r else r

def fromBuiltin (f : Fmt) (t : IntTy) (v : Int) : Limbs :=
  if t.signed then fromSigned f t v else fromUnsigned f t.bits v.toNat

/-- `extract_builtin_integral_type<T>()`: the low limbs that fit the unsigned counterpart of `T` -/
def extract (f : Fmt) (t : IntTy) (a : Limbs) : Int :=
  let ratio := t.bits / f.w
  if ratio < 2 then t.wrap (a.headD 0)
  else t.wrap ((toNat f.w (a.take (Nat.min ratio a.length))) % 2^t.bits)

/-- `explicit operator IntegralType()` -/
def toBuiltin (f : Fmt) (t : IntTy) (a : Limbs) : Int :=
  if !isNeg f a then extract f t a
  else t.wrap (-(extract f t (negate f.w a)))

/-! ## decimal text: `wr_string(base 10)` by repeated short division -/

def digitsLoop (w : Nat) : Nat → Limbs → List Char → List Char
  | 0, _, acc => acc
  | fuel+1, t, acc =>
    if isZero t then acc
    else
      let q := (divShort w (lo w 10) 0 t).1
      let t10 := (mul1d w q (lo w 10)).1
      let digit := lo w ((subN w t t10 false).1.headD 0)
      digitsLoop w fuel q (Char.ofNat (digit + 48) :: acc)

def wrDec (f : Fmt) (a : Limbs) : String :=
  let neg := isNeg f a
  let t := if neg then negate f.w a else a
  let ds := if isZero t then ['0'] else digitsLoop f.w (f.N + 1) t []
  String.ofList (if neg then '-' :: ds else ds)

/-! ## `cnl::to_chars` on a wide_integer (charconv/to_chars.h): recursion on `value / 10`, digit = `value - quotient * 10` -/

def toCharsNatural (f : Fmt) : Nat → Limbs → List Char → Option (List Char)
  | 0, _, _ => none
  | fuel+1, v, acc =>
    let ten := fromBuiltin f i32 10
    match opDiv f v ten with
    | none => none
    | some o =>
      let rem := opSub f.w v (opMul f.w o.q ten)
      let c := Char.ofNat (48 + (toBuiltin f i32 rem).toNat)
      if isZero o.q then some (c :: acc) else toCharsNatural f fuel o.q (c :: acc)

/-- `cnl::to_chars(first, last, value)` with room for the whole numeral (`to_chars_non_zero`): a negative value is
divided by ten *before* the sign changes (`quotient = value / 10`, digits of `-quotient`, last digit
`-(value - quotient * 10)`), so the most negative number of the storage is printed too -/
def toChars (f : Fmt) (a : Limbs) : Option String :=
  if isZero a then some "0"
  else if isNeg f a then
    let ten := fromBuiltin f i32 10
    match opDiv f a ten with
    | none => none
    | some o =>
      let rem := opSub f.w a (opMul f.w o.q ten)
      let c := Char.ofNat (48 + (toBuiltin f i32 (negate f.w rem)).toNat)
      if isZero o.q then some (String.ofList ['-', c])
      else (toCharsNatural f (f.N + 1) (negate f.w o.q) []).map (fun ds => String.ofList ('-' :: ds ++ [c]))
  else (toCharsNatural f (f.N + 1) a []).map String.ofList

/-- `cnl::to_chars(first, first + len, value)`: every `*ptr = …` is guarded by `ptr == last`, the call fails with
`value_too_large` exactly when the numeral is longer than the buffer -/
def toCharsBuf (f : Fmt) (len : Nat) (a : Limbs) : Option (Option String) :=
  (toChars f a).map fun s => if s.length ≤ len then some s else none

/-- number of decimal digits of `n` (`1` for zero) -/
def decLen (n : Nat) : Nat := (Nat.toDigits 10 n).length

/-- `to_chars_capacity<wide_integer<digits, _>>{}()` (base ten): `int(digits * ln2 / ln10) + 1` characters and one
for the sign of a signed type.  The C++ evaluates the product in `double`; `digits·log₁₀2` stays away from
an integer for every `digits ≤ 4096` by more than `5·10⁻⁵` (nearest: 2136 ↦ 643.00007), so the truncation equals the exact
`⌊digits·log₁₀2⌋ = decLen (2^digits) - 1` there. -/
def toCharsCapacity (digits : Nat) (signed : Bool) : Nat := decLen (2^digits) + (if signed then 1 else 0)

/-! ## numeric_limits<wide_integer<Digits, Narrowest>> -/

/-- `numeric_limits<rep>::digits` -/
def Fmt.digits (f : Fmt) : Nat := if f.signed then f.N - 1 else f.N

def limMax (f : Fmt) (digits : Nat) : Limbs := shrOp f (repMax f) (Int.ofNat (f.digits - digits)) true
def limLowest (f : Fmt) (digits : Nat) : Limbs := shrOp f (repLowest f) (Int.ofNat (f.digits - digits)) true
def limMin (f : Fmt) : Limbs := fromBuiltin f i32 1

/-! ## signed reading of a limb list and checked division -/

/-- the two's-complement value of the limb list in format `f` -/
def toInt (f : Fmt) (a : Limbs) : Int :=
  if f.signed ∧ toNat f.w a ≥ 2^(f.N - 1) then (toNat f.w a : Int) - 2^f.N else toNat f.w a

/-- Knuth division of non-negative operands with its result checked: `q·b + r = a ∧ r < b` -/
def divChecked (w : Nat) (a b : Limbs) : Option (Nat × Nat) :=
  match divKnuth w a b [] with
  | none => none
  | some o =>
    let q := toNat w o.q
    let r := toNat w o.r
    if q * toNat w b + r = toNat w a ∧ r < toNat w b then some (q, r) else none

end Cnl.Wide
