import CnlModel.CInt
/-!
# CnlModel.Charconv — `cnl::to_chars` for integers and `scaled_integer`, with the buffer explicit

Transcribed from (file names relative to `/repo/include/cnl/_impl`)

* `charconv/to_chars.h` — `itoc`, `to_chars_natural`, `to_chars_positive`, `to_chars_non_zero`,
  `to_chars`, `to_chars_static`;
* `charconv/to_chars_capacity.h`, `scaled_integer/to_chars_capacity.h` — the capacity formulas;
* `charconv/descale.h` — `descale<Significand, 10, false>` (both loops);
* `scaled_integer/to_chars.h` — `solve_fixed`, `solve_scientific`, both `fill`s,
  `to_chars_positive`, `to_chars_non_zero`, `to_chars`.

A buffer is `(len, cells)`; a cell is `none` while untouched.  `Buf.write i c` returns `oob i` when
`i ≥ len`, so an out-of-range write is a *value* of the model.  Everything a theorem reasons about is
written functionally: a `fill` is the concatenation of its segments, written with `Buf.put`, which is
`oob` iff the segments do not fit.  `CNL_ASSERT` failures are `unreachable` (that is what a debug
build does, and what the verification hook reports in a release build).

The model follows the *repaired* code (`fix:` commits, see `findings/C13.json`): `Layout.choose`
requires a positive digit count before preferring the scientific layout, the non-negative-exponent
loop of `descale` divides when the significand is out of headroom, a failed integer conversion
returns `last`, `to_chars_capacity<integer>` depends on the base, the headroom test of `descale` is made
for the factor the loop really multiplies by (`headroomRadix`), and a negative integer is printed by
splitting off its last digit before the sign is changed (`negToChars`), so that the most negative value
of a type has a numeral.  The unrepaired variants are kept
(`chooseOrig`, `descalePosOrig`, `natResultOrig`, `intCapacityOrig`, `descaleTenOrig`, `intToCharsOrig`,
`scaledToCharsWithOrig`) for the refutation theorems in `CnlProperties/C13.lean`, `C14.lean`.
-/
namespace Cnl.Charconv
open Cnl

/-! ## buffer -/

structure Buf where
  len : Nat
  cells : List (Option Char)
deriving Repr, DecidableEq

def Buf.fresh (len : Nat) : Buf := ⟨len, List.replicate len none⟩

/-- `*p = c` -/
def Buf.write (b : Buf) (i : Nat) (c : Char) : Res Buf :=
  if i < b.len then .ok ⟨b.len, b.cells.set i (some c)⟩ else .oob i

/-- consecutive writes of `cs` starting at `i` (every `*out++ = …` sequence, `std::copy`, `std::fill_n`):
`oob` iff the characters do not fit; the first cell out of range is reported -/
def Buf.put (b : Buf) (i : Nat) (cs : List Char) : Res Buf :=
  if i + cs.length ≤ b.len then
    .ok ⟨b.len, b.cells.take i ++ cs.map some ++ b.cells.drop (i + cs.length)⟩
  else .oob (max i b.len)

/-- result of a `to_chars` call: `ptr = none` is a null pointer -/
structure TCR where
  ptr : Option Nat
  ok : Bool
  buf : Buf
deriving Repr, DecidableEq

/-! ## integers (`charconv/to_chars.h`) -/

/-- `itoc` -/
def itoc (v : Nat) : Char := if v < 10 then Char.ofNat (48 + v) else Char.ofNat (97 + v - 10)

/-- the digits `to_chars_natural` emits for `v > 0`, most significant first (the recursion descends on
`value / base` and writes on the way back).  `fuel` only bounds the recursion; `v` itself suffices. -/
def natDigitsF (base : Nat) : Nat → Nat → List Char
  | 0, _ => []
  | fuel + 1, v =>
    if v / base = 0 then [itoc (v % base)] else natDigitsF base fuel (v / base) ++ [itoc (v % base)]

def natDigits (base v : Nat) : List Char := natDigitsF base v v

/-- the writes of `to_chars_natural`: before every digit `next_ptr == last` is tested — with `==`, so a
start beyond `last` would write out of range (the model keeps that possibility: `Buf.write`) -/
def natWrite : List Char → Buf → Nat → Res (Option Nat × Buf)
  | [], b, p => .ok (some p, b)
  | d :: ds, b, p =>
    if p = b.len then .ok (none, b)
    else match b.write p d with
      | .ok b' => natWrite ds b' (p + 1)
      | .oob i => .oob i
      | _ => .oob p

/-- integer `to_chars_positive` as first written: `{natural_last, natural_last ? errc{} : value_too_large}` —
a null pointer on failure -/
def natResultOrig (r : Option Nat × Buf) : TCR :=
  match r.1 with
  | some p => ⟨some p, true, r.2⟩
  | none => ⟨none, false, r.2⟩

/-- repaired: `{natural_last ? natural_last : last, …}` -/
def natResult (r : Option Nat × Buf) : TCR :=
  match r.1 with
  | some p => ⟨some p, true, r.2⟩
  | none => ⟨some r.2.len, false, r.2⟩

/-- integer `to_chars_positive(first, last, value, base)` -/
def natToChars (b : Buf) (first : Nat) (v base : Nat) : Res TCR :=
  match natWrite (natDigits base v) b first with
  | .ok r => .ok (natResult r)
  | .oob i => .oob i
  | _ => .oob first

/-- the negative branch of `to_chars_non_zero` after the repair (`first` is the cell after the sign):
`quotient = value / base` (truncating, so `-base < value - quotient*base ≤ 0`), the digits of `-quotient`
by `to_chars_natural` unless it is zero, then the digit `-(value - quotient*base)`.
None of these operations can leave the promoted type of `value` (`negative_branch_in_range` in
`CnlProperties/C13.lean`), so they are written with exact integers. -/
def negToChars (b : Buf) (first : Nat) (v : Int) (base : Nat) : Res TCR :=
  let q := v.tdiv base
  let d := itoc (-(v.tmod base)).toNat
  match (if q = 0 then Res.ok (some first, b) else natWrite (natDigits base (-q).toNat) b first) with
  | .ok (some p, b1) =>
    -- `last_digit_ptr == last`
    if p = b1.len then .ok ⟨some b1.len, false, b1⟩
    else match b1.write p d with
      | .ok b2 => .ok ⟨some (p + 1), true, b2⟩
      | .oob i => .oob i
      | _ => .oob p
  -- `last_digit_ptr == nullptr`
  | .ok (none, b1) => .ok ⟨some b1.len, false, b1⟩
  | .oob i => .oob i
  | _ => .oob first

/-- `cnl::to_chars(first, last, value, base)` for a built-in integer type `T` (any width) on the buffer
`b` with `first = 0`, `last = b.len` -/
def intToChars (T : IntTy) (b : Buf) (v : Int) (base : Nat) : Res TCR :=
  if base < 2 ∨ base > 36 then .unreachable "assert: base" else
  if v = 0 then
    if b.len = 0 then .ok ⟨some b.len, false, b⟩
    else match b.write 0 '0' with
      | .ok b' => .ok ⟨some 1, true, b'⟩
      | _ => .oob 0
  else if T.signed ∧ v < 0 then
    if b.len < 2 then .ok ⟨some b.len, false, b⟩
    else match b.write 0 '-' with
      | .ok b' => negToChars b' 1 v base
      | _ => .oob 0
  else natToChars b 0 v.toNat base

/-- as found: the negative branch negated the value — `CNL_ASSERT(-max <= value)` first, so the most negative
value of a type of `int`'s width or more had no numeral (undefined negation in a release build) -/
def intToCharsOrig (T : IntTy) (b : Buf) (v : Int) (base : Nat) : Res TCR :=
  if base < 2 ∨ base > 36 then .unreachable "assert: base" else
  if v = 0 then
    if b.len = 0 then .ok ⟨some b.len, false, b⟩
    else match b.write 0 '0' with
      | .ok b' => .ok ⟨some 1, true, b'⟩
      | _ => .oob 0
  else if T.signed ∧ v < 0 then
    if b.len < 2 then .ok ⟨some b.len, false, b⟩
    else match b.write 0 '-' with
      | .ok b' =>
        -- CNL_ASSERT(-numeric_limits<decltype(-value)>::max() <= value): the most negative value of the
        -- promoted type is not supported (and `-value` would be undefined)
        let P := promote T
        if v < -P.max then .unreachable "assert: most negative value" else
        natToChars b' 1 (-v).toNat base
      | _ => .oob 0
  else natToChars b 0 v.toNat base

/-- the canonical numeral of an integer in `base` -/
def intText (base : Nat) (v : Int) : List Char :=
  if v = 0 then ['0'] else if v < 0 then '-' :: natDigits base (-v).toNat else natDigits base v.toNat

/-- `to_chars_capacity<integer>` as first written — the base is ignored:
`signedness + int(digits * ln2 / ln10) + 1` (the code evaluates this in `double`; `30103/100000`
reproduces the compiled constants — `cap` lines of the harness) -/
def intCapacityOrig (T : IntTy) (_base : Nat) : Nat := (if T.signed then 1 else 0) + T.digits * 30103 / 100000 + 1

/-- the table `digits_per_bit[base]`: `100000 * log(2) / log(base)`, rounded up, for base 2…9 -/
def digitsPerBit : Nat → Nat
  | 2 => 100000 | 3 => 63093 | 4 => 50000 | 5 => 43068 | 6 => 38686 | 7 => 35621 | 8 => 33334 | 9 => 31547
  | _ => 0

/-- repaired `to_chars_capacity<integer>{}(base)`: below ten the number of digits is estimated per base;
from ten on the decimal formula is kept (a number has no more digits in a greater base) -/
def intCapacityB (T : IntTy) (base : Nat) : Nat :=
  (if T.signed then 1 else 0) +
    (if base < 10 then T.digits * digitsPerBit base / 100000 + 1 else T.digits * 30103 / 100000 + 1)

/-- `to_chars_capacity<integer>{}()` (base ten) -/
def intCapacity (T : IntTy) : Nat := (if T.signed then 1 else 0) + T.digits * 30103 / 100000 + 1

/-! ## `descale` (`charconv/descale.h`), `Significand` type `S`, `OutRadix = 10`, `Precise = false` -/

/-- `descale_headroom_radix<10, InExponent, InRadix>` for `InExponent ≥ 0`: the greatest factor that loop multiplies
or divides the significand by — the input radix if that is greater than ten (the loop for negative input
exponents multiplies by ten: its headroom radix is ten) -/
def headroomRadix (inRadix : Nat) : Nat := max 10 inRadix

/-- the `oob` lambda: chosen by the sign of the *input*; `H` is the headroom radix
(`-max / H` and `max / H` in the code; as found `H` was always the output radix, ten) -/
def oobSig (S : IntTy) (H : Int) (neg : Bool) (n : Int) : Bool :=
  if neg then decide (n < -(S.max / H)) else decide (n > S.max / H)

/-- `significand *= k` in the type `S` -/
def mulS (S : IntTy) (a : Int) (k : Nat) : Res Int :=
  match arith S (a * k) with
  | .ok v => .ok v.2
  | .ub u => .ub u
  | _ => .ub .signedOverflow

/-- state after `descale`: significand, decimal exponent, number of lossy divisions taken -/
structure Desc where
  sig : Int
  exp : Int
  lossy : Nat
deriving Repr, DecidableEq

/-- `InExponent < 0` loop; `ie` is `-in_exponent` (divisions still to do) -/
def descaleNeg (S : IntTy) (neg : Bool) (inRadix : Nat) : Nat → Int → Int → Nat → Nat → Res Desc
  | 0, _, _, _, _ => .diverges
  | _ + 1, sig, x, 0, k => .ok ⟨sig, x, k⟩
  | fuel + 1, sig, x, ie + 1, k =>
    if sig.tmod inRadix ≠ 0 ∧ oobSig S 10 neg sig = false then
      match mulS S sig 10 with
      | .ok s' => descaleNeg S neg inRadix fuel s' (x - 1) (ie + 1) k
      | .ub u => .ub u
      | _ => .diverges
    else
      descaleNeg S neg inRadix fuel (sig.tdiv inRadix) x ie (if sig.tmod inRadix ≠ 0 then k + 1 else k)

/-- `InExponent ≥ 0` loop after the repairs: divide by the output radix also when out of headroom; `H` is the
headroom radix of the `oob` test -/
def descalePos (S : IntTy) (H : Int) (neg : Bool) (inRadix : Nat) : Nat → Int → Int → Nat → Nat → Res Desc
  | 0, _, _, _, _ => .diverges
  | fuel + 1, sig, x, ie, k =>
    if ie = 0 ∧ sig.tmod 10 ≠ 0 then .ok ⟨sig, x, k⟩
    else if sig.tmod 10 = 0 ∨ oobSig S H neg sig = true then
      descalePos S H neg inRadix fuel (sig.tdiv 10) (x + 1) ie (if sig.tmod 10 ≠ 0 then k + 1 else k)
    else
      match mulS S sig inRadix with
      -- an unsigned product that wraps to zero (as found: input radix above ten) is divided by ten for ever
      | .ok s' => if s' = 0 then .diverges else descalePos S H neg inRadix fuel s' x (ie - 1) k
      | .ub u => .ub u
      | _ => .diverges

/-- the loop as first written: when the significand is out of headroom and not a multiple of ten
nothing changes any more — it never terminates (detected exactly, not by fuel) -/
def descalePosOrig (S : IntTy) (neg : Bool) (inRadix : Nat) : Nat → Int → Int → Nat → Res Desc
  | 0, _, _, _ => .diverges
  | fuel + 1, sig, x, ie =>
    if ie = 0 ∧ sig.tmod 10 ≠ 0 then .ok ⟨sig, x, 0⟩
    else if sig.tmod 10 = 0 then descalePosOrig S neg inRadix fuel (sig.tdiv 10) (x + 1) ie
    else if oobSig S 10 neg sig = true then .diverges
    else
      match mulS S sig inRadix with
      | .ok s' => descalePosOrig S neg inRadix fuel s' x (ie - 1)
      | .ub u => .ub u
      | _ => .diverges

/-- a bound on the number of iterations: every division or multiplication by the input radix
consumes one unit of `ie`, and between two of them the magnitude moves monotonically inside the type -/
def descaleFuel (S : IntTy) (ie : Nat) : Nat := (ie + 1) * (2 ^ S.bits + 2) + 1

/-- `descale<S, 10, false>(input, power<inExp, inRadix>)` -/
def descale (S : IntTy) (input : Int) (inExp : Int) (inRadix : Nat) : Res Desc :=
  if input = 0 then .ok ⟨0, 0, 0⟩
  else
    let neg := decide (input < 0)
    let sig := S.wrap input
    if inExp < 0 then descaleNeg S neg inRadix (descaleFuel S inExp.natAbs) sig 0 inExp.natAbs 0
    else descalePos S (headroomRadix inRadix) neg inRadix (descaleFuel S inExp.natAbs) sig 0 inExp.natAbs 0

/-- as found (after the termination repair, before the headroom repair): the headroom test was made for a
multiplication by the OUTPUT radix, ten, whatever the input radix -/
def descaleTenOrig (S : IntTy) (input : Int) (inExp : Int) (inRadix : Nat) : Res Desc :=
  if input = 0 then .ok ⟨0, 0, 0⟩
  else
    let neg := decide (input < 0)
    let sig := S.wrap input
    if inExp < 0 then descaleNeg S neg inRadix (descaleFuel S inExp.natAbs) sig 0 inExp.natAbs 0
    else descalePos S 10 neg inRadix (descaleFuel S inExp.natAbs) sig 0 inExp.natAbs 0

def descaleOrig (S : IntTy) (input : Int) (inExp : Int) (inRadix : Nat) : Res Desc :=
  if input = 0 then .ok ⟨0, 0, 0⟩
  else
    let neg := decide (input < 0)
    let sig := S.wrap input
    if inExp < 0 then descaleNeg S neg inRadix (descaleFuel S inExp.natAbs) sig 0 inExp.natAbs 0
    else descalePosOrig S neg inRadix (descaleFuel S inExp.natAbs) sig 0 inExp.natAbs

/-! ## layout arithmetic (`scaled_integer/to_chars.h`) -/

/-- the part of `descaled_info` the layout depends on -/
structure Info where
  numSig : Int      -- num_significand_digits
  exponent : Int
  maxChars : Int
  expChars : Int    -- length of the decimal text of `exponent + numSig - 1`
deriving Repr, DecidableEq

structure Fixed where
  numSig : Int
  numChars : Int
  leadingZeros : Int
  trailingZeros : Int
  hasRadix : Bool
deriving Repr, DecidableEq

def solveFixed (i : Info) : Fixed :=
  let numInt := i.numSig + i.exponent
  if numInt > i.maxChars then ⟨0, 0, 0, 0, false⟩ else
  let leading := max 0 (-numInt)
  let hasRadix := decide (i.exponent < 0)
  let trailing := max 0 i.exponent
  let unbounded := i.numSig + leading + (if hasRadix then 1 else 0) + trailing
  let cut := max 0 (unbounded - i.maxChars)
  ⟨i.numSig - cut, unbounded - cut, leading, trailing, hasRadix⟩

structure Sci where
  numSig : Int
  numChars : Int
deriving Repr, DecidableEq

def solveSci (i : Info) : Sci :=
  let unbounded := i.numSig + 1 + 1 + i.expChars
  let cut := max 0 (unbounded - i.maxChars)
  ⟨i.numSig - cut, unbounded - cut⟩

inductive Choice where
  | sci (s : Sci)
  | fixed (f : Fixed)
  | tooLarge
deriving Repr, DecidableEq

/-- `std::tuple{a, b} > std::tuple{c, d}` -/
def tupGt (a b c d : Int) : Bool := decide (a > c) || (decide (a = c) && decide (b > d))

/-- the selection in `to_chars_positive` as first written -/
def chooseOrig (i : Info) : Choice :=
  let s := solveSci i
  let f := solveFixed i
  if tupGt s.numSig (-s.numChars) f.numSig (-f.numChars) then .sci s
  else if f.numSig > 0 then .fixed f else .tooLarge

/-- repaired: the scientific layout is preferred only if it has at least one digit -/
def choose (i : Info) : Choice :=
  let s := solveSci i
  let f := solveFixed i
  if s.numSig > 0 ∧ tupGt s.numSig (-s.numChars) f.numSig (-f.numChars) = true then .sci s
  else if f.numSig > 0 then .fixed f else .tooLarge

/-- `std::copy(begin + from, begin + to, out)`: the characters copied; a reversed range is not a range -/
def slice (ds : List Char) (lo hi : Int) : Option (List Char) :=
  if lo ≤ hi then some ((ds.take hi.toNat).drop lo.toNat) else none

/-- characters written by `fill(info, scientific_solution)`: first digit, '.', the remaining kept digits,
'e', the exponent text -/
def sciText (ds : List Char) (s : Sci) (expText : List Char) : Option (List Char) :=
  match slice ds 1 s.numSig with
  | some rest => some (ds.take 1 ++ ['.'] ++ rest ++ ['e'] ++ expText)
  | none => none

/-- characters written by `fill(info, fixed_solution)`; `room` = `output_end - output_begin` -/
def fixedText (ds : List Char) (exponent : Int) (f : Fixed) (room : Int) : Option (List Char) :=
  let n : Int := ds.length
  let nInt := max 0 (n + min 0 exponent)
  let intPart := ds.take nInt.toNat
  if f.trailingZeros ≠ 0 then some (intPart ++ List.replicate f.trailingZeros.toNat '0')
  else if nInt < room then
    match slice ds nInt f.numSig with
    | some frac =>
      some (intPart ++ (if f.hasRadix then ['.'] else []) ++ List.replicate f.leadingZeros.toNat '0' ++ frac)
    | none => none
  else some intPart

/-- a `fill`: write the text at `first`, then the closing assertions
`out == output_begin + num_chars`, `out <= output_end` -/
def fillText (b : Buf) (first : Nat) (text : Option (List Char)) (numChars : Int) : Res TCR :=
  match text with
  | none => .oob b.len
  | some t =>
    match b.put first t with
    | .ok b' =>
      if (t.length : Int) ≠ numChars then .unreachable "assert: out == output_begin + num_chars"
      else .ok ⟨some (first + t.length), true, b'⟩
    | .oob i => .oob i
    | _ => .oob b.len

/-- `_impl::to_chars_positive(first, last, significand_digits, exponent)`; `pick` is the layout selection -/
def toCharsPositiveWith (pick : Info → Choice) (b : Buf) (first : Nat) (ds : List Char) (exponent : Int) : Res TCR :=
  let n : Int := ds.length
  let expText := intText 10 (exponent + n - 1)
  let info : Info := ⟨n, exponent, (b.len : Int) - first, expText.length⟩
  match pick info with
  | .sci s =>
    if s.numSig ≤ 0 then .unreachable "assert: scientific_solution.num_significand_digits > 0"
    else fillText b first (sciText ds s expText) s.numChars
  | .fixed f => fillText b first (fixedText ds exponent f info.maxChars) f.numChars
  | .tooLarge => .ok ⟨some b.len, false, b⟩

def toCharsPositive := toCharsPositiveWith choose

/-- `significand_type`: `Rep` when it has more than 63 digits, else `int64_t` -/
def sigTy (T : IntTy) : IntTy := if T.digits > 63 then T else i64

/-- `cnl::to_chars(first, last, scaled_integer<T, power<e, radix>>{rep})` on a fresh buffer of `len` cells -/
def scaledToCharsWith (pick : Info → Choice) (dsc : IntTy → Int → Int → Nat → Res Desc)
    (T : IntTy) (e : Int) (radix : Nat) (len : Nat) (rep : Int) : Res TCR :=
  let b := Buf.fresh len
  if len = 0 then .ok ⟨some 0, false, b⟩
  else if rep = 0 then
    match b.write 0 '0' with
    | .ok b' => .ok ⟨some 1, true, b'⟩
    | _ => .oob 0
  else
    let S := sigTy T
    match dsc S rep e radix with
    | .ok d =>
      if d.sig = 0 then .unreachable "assert: descaled.significand"
      -- to_chars_static<10>(significand): every value of the significand type has a numeral (since the repair)
      else
        let ds := natDigits 10 d.sig.natAbs
        if d.sig < 0 then
          match b.write 0 '-' with
          | .ok b' => toCharsPositiveWith pick b' 1 ds d.exp
          | _ => .oob 0
        else toCharsPositiveWith pick b 0 ds d.exp
    | .ub u => .ub u
    | .diverges => .diverges
    | .unreachable m => .unreachable m
    | _ => .diverges

/-- as found: `to_chars_static<10>(significand)` did not support the most negative value of the significand type -/
def scaledToCharsWithOrig (pick : Info → Choice) (dsc : IntTy → Int → Int → Nat → Res Desc)
    (T : IntTy) (e : Int) (radix : Nat) (len : Nat) (rep : Int) : Res TCR :=
  let b := Buf.fresh len
  if len = 0 then .ok ⟨some 0, false, b⟩
  else if rep = 0 then
    match b.write 0 '0' with
    | .ok b' => .ok ⟨some 1, true, b'⟩
    | _ => .oob 0
  else
    let S := sigTy T
    match dsc S rep e radix with
    | .ok d =>
      if d.sig = 0 then .unreachable "assert: descaled.significand"
      else if S.signed ∧ d.sig < -S.max then .unreachable "assert: most negative value"
      else
        let ds := natDigits 10 d.sig.natAbs
        if d.sig < 0 then
          match b.write 0 '-' with
          | .ok b' => toCharsPositiveWith pick b' 1 ds d.exp
          | _ => .oob 0
        else toCharsPositiveWith pick b 0 ds d.exp
    | .ub u => .ub u
    | .diverges => .diverges
    | .unreachable m => .unreachable m
    | _ => .diverges

def scaledToChars := scaledToCharsWith choose descale
def scaledToCharsOrig := scaledToCharsWithOrig chooseOrig descaleOrig
/-- the routine between the repairs: repaired layout and loop, as-found headroom test and negation -/
def scaledToCharsTenOrig := scaledToCharsWithOrig choose descaleTenOrig

/-! ## capacity of `scaled_integer` (`scaled_integer/to_chars_capacity.h`) -/

/-- `used_digits(n)`: bit length -/
def usedDigits (n : Nat) : Nat := if n = 0 then 0 else n.log2 + 1

def numDigitsFromBinary (n : Int) (radix : Nat) : Int :=
  match radix with
  | 2 => n
  | 8 => (n + 2).tdiv 3
  | 10 => (n * 1000 + 3322).tdiv 3321
  | 16 => (n + 3).tdiv 4
  | r => let d : Int := usedDigits (r - 1); (n + d - 1).tdiv d

def numDigitsToBinary (n : Int) (radix : Nat) : Int :=
  match radix with
  | 2 => n
  | 8 => n * 3
  | 10 => (n * 3322 + 678).tdiv 1000
  | 16 => n * 4
  | r => n * usedDigits (r - 1)

/-- `to_chars_capacity<scaled_integer<T, power<e, radix>>>{}()` -/
def scaledCapacity (T : IntTy) (e : Int) (radix : Nat) : Int :=
  let fractionalDigits := max (-e) 0
  let signChars : Int := if T.signed then 1 else 0
  let sigBits : Int := (T.digits : Int) - fractionalDigits
  let trailBits := numDigitsToBinary (max 0 e) radix
  let integerChars := numDigitsFromBinary (sigBits + trailBits) 10
  let radixChars : Int := if fractionalDigits > 0 then 1 else 0
  signChars + integerChars + radixChars + max 0 fractionalDigits

/-! ## fixed-capacity variants -/

/-- characters `[0, p)` of a successful result -/
def TCR.text (r : TCR) : List Char :=
  match r.ptr with
  | some p => (r.buf.cells.take p).map (fun c => c.getD '#')
  | none => []

/-- `to_chars_static(value)`: `to_chars` into `capacity` cells, then the three assertions;
the text (the array is then padded with NULs up to `capacity + 1`) -/
def staticText (cap : Int) (run : Nat → Res TCR) : Res (List Char) :=
  if cap < 0 then .ill "negative array size" else
  match run cap.toNat with
  | .ok r =>
    if r.ok = false then .unreachable "assert: dynamic_result.ec == std::errc{}"
    else match r.ptr with
      | some p => if p = 0 ∨ p > cap.toNat then .unreachable "assert: dynamic_result.ptr" else .ok r.text
      | none => .unreachable "assert: dynamic_result.ptr > chars_begin"
  | .ub u => .ub u
  | .unreachable m => .unreachable m
  | .oob i => .oob i
  | .diverges => .diverges
  | _ => .diverges

def intStaticText (T : IntTy) (v : Int) : Res (List Char) :=
  staticText (intCapacity T) (fun len => intToChars T (Buf.fresh len) v 10)

/-- `to_chars_static<Base>(value)` for an integer; `cap` is `to_chars_capacity<T>{}(Base)` -/
def intStaticTextBaseWith (cap : IntTy → Nat → Nat) (T : IntTy) (base : Nat) (v : Int) : Res (List Char) :=
  if base < 2 then .ill "to_chars_capacity: base" else
  staticText (cap T base) (fun len => intToChars T (Buf.fresh len) v base)

def intStaticTextBase := intStaticTextBaseWith intCapacityB
/-- as found: the capacity does not depend on the base -/
def intStaticTextBaseOrig := intStaticTextBaseWith intCapacityOrig

def scaledStaticText (T : IntTy) (e : Int) (radix : Nat) (rep : Int) : Res (List Char) :=
  staticText (scaledCapacity T e radix) (fun len => scaledToChars T e radix len rep)

end Cnl.Charconv
