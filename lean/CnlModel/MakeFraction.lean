import CnlModel.CFloat
/-!
# CnlModel.MakeFraction — `cnl::_impl::make_fraction<int_t>(FloatingPoint d)`

Transcription of `/repo/include/cnl/_impl/fraction/make_fraction.h` (the overload taking a
floating-point value; `fraction<T>(FloatingPoint)` in `ctors.h` forwards to it).

* `F : Fmt` is the floating type, `I : IntTy` the (signed) component type `int_t`; both are
  arguments, so theorems quantify over them.
* every floating operation is one `CFloat` operation (= exact, then rounded once; the x86-64
  targets have no fused multiply-add at the baseline ISA, so `d * a - b` is two roundings);
* every integer sub-expression goes through `CInt.cBin`/`cNeg`/`convert`, so promoted `int`
  arithmetic on 16-bit components, signed overflow (`ub`) on 32/64-bit ones, and the silent
  wrap of `static_cast<int_t>(…)` are what C++ does; `static_cast<int_t>(floating)` is `fToInt`
  (`ub .floatToIntRange` when out of range, NaN or ∞);
* the three `CNL_ASSERT`s are `unreachable` exits (a debug build prints the assertion text, a
  release build reaches `unreachable()`; the harness shows both as `UNREACHABLE`);
* the `for (;;)` loop is `mfLoop` with an explicit fuel argument: `diverges` when it runs out.
  One iteration is `mfStep`, a total function of the loop state, so non-termination can be
  *proved* by exhibiting a state that recurs (`CnlProofs/MakeFraction.lean`).
* the counters `lefts`/`rights` are C++ `int`s incremented once per iteration; they are unbounded
  `Int`s here (their overflow would need 2^31 iterations on one side, far beyond any fuel used).
* each returning branch is labelled (`Exit`) so that theorems can tell the exits that test
  `static_cast<FloatingPoint>(f) == d` from the one that does not (`zeroJump`).
-/
namespace Cnl.MakeFraction
open Cnl

structure Frac where
  num : Int
  den : Int
deriving DecidableEq, Repr, Inhabited

/-- which `return` statement produced the result -/
inductive Exit where
  /-- `static_cast<FP>(left) == d` before the loop -/
  | left0
  /-- `static_cast<FP>(right) == d` before the loop -/
  | right0
  /-- `return mid` (neither `mid_q < d` nor `mid_q > d`) -/
  | mid
  /-- `fn` returned `static_cast<FP>(f) == d` after a run-length jump -/
  | jumpEq
  /-- `fn` returned `true` because the jump length `n2` was zero (no equality test) -/
  | zeroJump
deriving DecidableEq, Repr, Inhabited

structure MFState where
  left : Frac
  right : Frac
  lefts : Int
  rights : Int
deriving DecidableEq, Repr, Inhabited

inductive Step where
  | cont (s : MFState)
  | ret (f : Frac) (e : Exit)
deriving DecidableEq, Repr

/-- `static_cast<FP>(fraction)`: `static_cast<FP>(numerator) / static_cast<FP>(denominator)` -/
def fracToF (F : Fmt) (fr : Frac) : FVal := F.div (F.ofInt fr.num) (F.ofInt fr.den)

/-- `static_cast<int_t>(x)` for an integer expression -/
def castI (I : IntTy) (x : TV) : Int := (convert I x).2

/-- the accelerated branch of the lambda `fn`, up to the computation of the jump length `n2` -/
def jumpCount (F : Fmt) (I : IntTy) (d : FVal) (f n : Frac) : Res Int :=
  let maxF := F.ofInt I.max
  let dividend := F.sub (F.mul d (F.ofInt f.den)) (F.ofInt f.num)
  let divisor := F.sub (F.ofInt n.num) (F.mul d (F.ofInt n.den))
  let n0 := F.div dividend divisor
  if fCmp .le n0 maxF = false then
    .unreachable "n0 <= static_cast<FloatingPoint>(std::numeric_limits<int_t>::max())"
  else do
    let n1 ←
      if fCmp .gt (F.add (F.ofInt f.den) (F.mul (F.ofInt n.den) n0)) maxF then do
        let diff ← cBin .sub (I, I.max) (I, f.den)
        fToInt I (F.div (F.ofInt diff.2) (F.ofInt n.den))
      else fToInt I n0
    let prod ← cBin .mul (I, n.num) (I, n1)
    if fCmp .gt (F.add (F.ofInt f.num) (F.ofInt prod.2)) maxF then do
      let a ← cBin .sub (I, I.max) (I, f.num)
      let b ← cBin .sub a (I, n.num)
      fToInt I (F.div (F.ofInt b.2) (F.ofInt n.num))
    else pure n1

/-- `f.numerator = int_t(f.numerator + n2 * n.numerator)`, likewise the denominator -/
def advance (I : IntTy) (f n : Frac) (n2 : Int) : Res Frac := do
  let pn ← cBin .mul (I, n2) (I, n.num)
  let sn ← cBin .add (I, f.num) pn
  let pd ← cBin .mul (I, n2) (I, n.den)
  let sd ← cBin .add (I, f.den) pd
  pure ⟨castI I sn, castI I sd⟩

/-- the lambda `fn(fars, f, nears, n)`: the new `f` and, if it returned `true`, through which exit -/
def fnStep (F : Fmt) (I : IntTy) (d : FVal) (mid : Frac) (fars : Int) (f n : Frac) : Res (Frac × Option Exit) :=
  if fars < 3 then pure (⟨I.wrap mid.num, I.wrap mid.den⟩, none)
  else do
    let n2 ← jumpCount F I d f n
    if n2 = 0 then pure (f, some .zeroJump)
    else do
      let f' ← advance I f n n2
      pure (f', if fCmp .eq (fracToF F f') d then some .jumpEq else none)

/-- `mid`, as `fraction<uint_t>`, with the two assertions on it -/
def midOf (I : IntTy) (l r : Frac) : Res Frac := do
  let U : IntTy := ⟨I.bits, false⟩
  let sn ← cBin .add (I, l.num) (I, r.num)
  let sd ← cBin .add (I, l.den) (I, r.den)
  let mid : Frac := ⟨(convert U sn).2, (convert U sd).2⟩
  if I.wrap mid.num < 0 then .unreachable "static_cast<int_t>(mid.numerator) >= 0"
  else if I.wrap mid.den < 0 then .unreachable "static_cast<int_t>(mid.denominator) >= 0"
  else pure mid

/-- one iteration of the `for (;;)` loop -/
def mfStep (F : Fmt) (I : IntTy) (d : FVal) (s : MFState) : Res Step := do
  let mid ← midOf I s.left s.right
  let midq := fracToF F mid
  if fCmp .lt midq d then do
    let r ← fnStep F I d mid s.lefts s.left s.right
    match r.2 with
    | some e => pure (.ret r.1 e)
    | none => pure (.cont ⟨r.1, s.right, s.lefts + 1, 0⟩)
  else if fCmp .gt midq d then do
    let r ← fnStep F I d mid s.rights s.right s.left
    match r.2 with
    | some e => pure (.ret r.1 e)
    | none => pure (.cont ⟨s.left, r.1, 0, s.rights + 1⟩)
  else pure (.ret ⟨I.wrap mid.num, I.wrap mid.den⟩ .mid)

/-- the loop: at most `fuel` iterations -/
def mfLoop (F : Fmt) (I : IntTy) (d : FVal) : Nat → MFState → Res (Frac × Exit)
  | 0, _ => .diverges
  | fuel + 1, s =>
    match mfStep F I d s with
    | .ok (.cont s') => mfLoop F I d fuel s'
    | .ok (.ret f e) => .ok (f, e)
    | .ub k => .ub k
    | .unreachable m => .unreachable m
    | .trap p => .trap p
    | .throws p => .throws p
    | .oob i => .oob i
    | .diverges => .diverges
    | .ill m => .ill m

/-- state on entry to the loop, or an early exit -/
def mfInit (F : Fmt) (I : IntTy) (d : FVal) : Res Step :=
  if fCmp .le d (F.ofInt I.max) = false then
    .unreachable "d <= static_cast<FloatingPoint>(std::numeric_limits<int_t>::max())"
  else do
    let l ← fToInt I d
    let r ← cBin .add (I, l) (i32, 1)
    let left : Frac := ⟨l, 1⟩
    let right : Frac := ⟨castI I r, 1⟩
    if fCmp .eq (fracToF F left) d then pure (.ret left .left0)
    else if fCmp .eq (fracToF F right) d then pure (.ret right .right0)
    else pure (.cont ⟨left, right, 0, 0⟩)

/-- `make_fraction<int_t>(d)` for `d` not below zero -/
def mfPos (F : Fmt) (I : IntTy) (d : FVal) (fuel : Nat) : Res (Frac × Exit) := do
  let s ← mfInit F I d
  match s with
  | .ret f e => pure (f, e)
  | .cont s => mfLoop F I d fuel s

/-- `make_fraction<int_t>(d)`; negative inputs: `fraction<int_t>(-make_fraction<int_t>(-d))` -/
def makeFractionX (F : Fmt) (I : IntTy) (d : FVal) (fuel : Nat) : Res (Frac × Exit) :=
  if fCmp .lt d F.zero then do
    let r ← mfPos F I d.neg fuel
    let nn ← cNeg (I, r.1.num)
    pure (⟨castI I nn, I.wrap r.1.den⟩, r.2)
  else mfPos F I d fuel

def makeFraction (F : Fmt) (I : IntTy) (d : FVal) (fuel : Nat) : Res Frac :=
  (makeFractionX F I d fuel).map (·.1)


/-! ## components that are CNL numbers (`wide_integer`, `overflow_integer`, `elastic_integer`, `rounding_integer`)

`make_fraction` is generic in `int_t`.  A component type enters the algorithm through four things
only: `numeric_limits<int_t>::max()`, `static_cast<int_t>(floating)`, the arithmetic operators
`+ - *` (whose result may be a wider type) and the narrowing `static_cast<int_t>(…)` of such a result
when it is stored in a fraction.  `Comp` describes them:

* `digits`: `numeric_limits<int_t>::digits` (`max = 2^digits − 1`, `lowest = −2^digits`);
* `arith`: what `+ - *` do with a result outside `[lowest, max]` — `ub` (built-in representation,
  `rounding_integer`), `sat`/`trap`/`throw` (`overflow_integer` with that tag), `keep` (the operator
  returns a wider type holding the exact value: `wide_integer`, `elastic_integer`);
* `fcvt`: the same for `static_cast<int_t>(floating)` with a truncated value outside `[lowest, max]`;
* `store`: width of the two's-complement pattern a stored component has; under `keep` a value that
  does not fit it is *not predicted* (`ill`: the real type wraps, traps in UBSan or widens depending
  on the wrapper — the driver then falls back to the property's oracle on the implementation's own
  result);
* `nearest`: `static_cast<int_t>(floating)` rounds half away from zero (`rounding_integer<…, nearest>`:
  `static_cast<Rep>(static_cast<long double>(x) ± .5L)`) instead of truncating.

`makeFractionC F C d fuel` is the same transcription of `make_fraction.h` as `makeFractionX`, expression
by expression, with these operations in place of the built-in ones; `Comp.builtin D` gives the
built-in behaviour on a `D+1`-bit signed type of rank ≥ `int` (`C17_generic_builtin_sweep` and the
driver's per-line cross-check tie the two). -/

inductive OvMode where
  | ub | sat | trap | throw | keep | unknown
deriving DecidableEq, Repr, Inhabited

structure Comp where
  digits : Nat
  store : Nat
  arith : OvMode
  fcvt : OvMode
  nearest : Bool
  /-- under `keep`: what an arithmetic result that does not fit `store` bits does — `keep` (the operator's
  result type is wide enough: `elastic_integer`), `ub` (single-word `wide_integer`: the word overflows),
  `unknown` (multi-word: wraps at the limb count of whichever operand type; not predicted) -/
  beyond : OvMode
  /-- `0`: `static_cast<FloatingPoint>(component)` is the correctly rounded conversion of a built-in integer;
  `w > 0`: the representation is a multi-word `uintwide_t` with `w`-bit limbs, whose conversion adds the limbs
  from the least significant one, rounding after every addition (`extract_builtin_floating_point_type`) -/
  limb : Nat
deriving DecidableEq, Repr, Inhabited

namespace Comp

def max (C : Comp) : Int := 2 ^ C.digits - 1
def lowest (C : Comp) : Int := -(2 ^ C.digits)

/-- a built-in signed type with `D` digits (`int`, `long`, `__int128`) -/
def builtin (D : Nat) : Comp := ⟨D, D + 1, .ub, .ub, false, .ub, 0⟩

def fits (C : Comp) (v : Int) : Bool := decide (-(2 ^ (C.store - 1) : Int) ≤ v ∧ v < 2 ^ (C.store - 1))

/-- outcome of an operation whose exact result is `v`, under mode `m` -/
def out (C : Comp) (m : OvMode) (k : UB) (v : Int) : Res Int :=
  if C.lowest ≤ v ∧ v ≤ C.max then .ok v else
  match m with
  | .ub => .ub k
  | .sat => .ok (if v < C.lowest then C.lowest else C.max)
  | .trap => .trap (decide (C.max < v))
  | .throw => .throws (decide (C.max < v))
  | .keep =>
    if C.fits v then .ok v else
    match C.beyond with
    | .keep => .ok v
    | .ub => .ub k
    | _ => .ill "arithmetic beyond the stored width"
  | .unknown => .ill "unknown"

/-- `a ∘ b` for an arithmetic operator with exact result `v` (possibly of a wider type) -/
def ar (C : Comp) (v : Int) : Res Int := C.out C.arith .signedOverflow v

/-- `static_cast<int_t>(v)` of an arithmetic result when it is stored as a component -/
def st (C : Comp) (v : Int) : Res Int :=
  if C.lowest ≤ v ∧ v ≤ C.max then .ok v
  else if C.fits v then .ok v else .ill "component beyond the stored width"

/-- round half away from zero -/
def nearInt (s : Bool) (m : Nat) (e : Int) : Int :=
  let a : Nat := if 0 ≤ e then m * 2 ^ e.toNat else (2 * m + 2 ^ (-e).toNat) / 2 ^ ((-e).toNat + 1)
  if s then -(a : Int) else a

/-- `static_cast<int_t>(x)` for a floating `x`.  Under `keep` the value goes to the representation as it is:
a built-in word (`limb = 0`) must hold it (undefined otherwise), a multi-word one is not predicted beyond its width -/
def ofF (C : Comp) : FVal → Res Int
  | .fin s m e =>
    let t := if C.nearest then nearInt s m e else truncInt s m e
    if C.fcvt = .keep then
      (if (C.lowest ≤ t ∧ t ≤ C.max) ∨ C.fits t then .ok t
       else if C.limb = 0 then .ub .floatToIntRange else .ill "floating value beyond the stored width")
    else C.out C.fcvt .floatToIntRange t
  | .inf s =>
    match C.fcvt with
    | .sat => .ok (if s then C.lowest else C.max)
    | .trap => .trap (!s)
    | .throw => .throws (!s)
    | .ub => .ub .floatToIntRange
    | _ => if C.limb = 0 then .ub .floatToIntRange else .ill "infinity to a multi-word component"
  | .nan => if C.fcvt = .keep ∧ C.limb ≠ 0 then .ill "NaN to a multi-word component" else .ub .floatToIntRange

/-- limbs of `a`, least significant first, each already scaled to its position -/
def limbTerms (w : Nat) : Nat → Nat → Nat → List Nat
  | 0, _, _ => []
  | fuel + 1, a, pos => if a = 0 then [] else (a % 2 ^ w) * 2 ^ pos :: limbTerms w fuel (a / 2 ^ w) (pos + w)

/-- `static_cast<FloatingPoint>(component)` -/
def toF (C : Comp) (F : Fmt) (v : Int) : FVal :=
  if C.limb = 0 then F.ofInt v
  else
    let a := (limbTerms C.limb (v.natAbs + 1) v.natAbs 0).foldl (fun acc (t : Nat) => F.add acc (F.ofInt (t : Int))) F.zero
    if v < 0 then a.neg else a

end Comp

/-- `static_cast<FP>(fraction)` for component type `C` -/
def fracToFC (F : Fmt) (C : Comp) (fr : Frac) : FVal := F.div (C.toF F fr.num) (C.toF F fr.den)

def jumpCountC (F : Fmt) (C : Comp) (d : FVal) (f n : Frac) : Res Int :=
  let maxF := C.toF F C.max
  let dividend := F.sub (F.mul d (C.toF F f.den)) (C.toF F f.num)
  let divisor := F.sub (C.toF F n.num) (F.mul d (C.toF F n.den))
  let n0 := F.div dividend divisor
  if fCmp .le n0 maxF = false then
    .unreachable "n0 <= static_cast<FloatingPoint>(std::numeric_limits<int_t>::max())"
  else do
    let n1 ←
      if fCmp .gt (F.add (C.toF F f.den) (F.mul (C.toF F n.den) n0)) maxF then do
        let diff ← C.ar (C.max - f.den)
        C.ofF (F.div (C.toF F diff) (C.toF F n.den))
      else C.ofF n0
    let prod ← C.ar (n.num * n1)
    if fCmp .gt (F.add (C.toF F f.num) (C.toF F prod)) maxF then do
      let a ← C.ar (C.max - f.num)
      let b ← C.ar (a - n.num)
      C.ofF (F.div (C.toF F b) (C.toF F n.num))
    else pure n1

def advanceC (C : Comp) (f n : Frac) (n2 : Int) : Res Frac := do
  let pn ← C.ar (n2 * n.num)
  let sn ← C.ar (f.num + pn)
  let pd ← C.ar (n2 * n.den)
  let sd ← C.ar (f.den + pd)
  let num ← C.st sn
  let den ← C.st sd
  pure ⟨num, den⟩

/-- `mid` with the two assertions on it; a negative sum converted to `uint_t` is only followed for the
built-in behaviour (it wraps and fails the assertion), not predicted for the wrappers; a sum of exactly
one digit more than `int_t` has is followed when `uint_t` shares the word with `int_t` (`elastic_integer<31>`) -/
def midOfC (C : Comp) (l r : Frac) : Res Frac := do
  let sn ← C.ar (l.num + r.num)
  let sd ← C.ar (l.den + r.den)
  if sn < 0 then
    (if C.arith = .ub then .unreachable "static_cast<int_t>(mid.numerator) >= 0" else .ill "negative sum to the unsigned component")
  else if sd < 0 then
    (if C.arith = .ub then .unreachable "static_cast<int_t>(mid.denominator) >= 0" else .ill "negative sum to the unsigned component")
  else if C.arith = .keep ∧ C.beyond = .keep ∧ C.store = C.digits + 1 ∧ (2 ^ C.digits ≤ sn ∧ sn < 2 ^ C.store) then
    -- `uint_t` has one more digit than `int_t` in the same word: the sum is held, `static_cast<int_t>` of it is negative
    .unreachable "static_cast<int_t>(mid.numerator) >= 0"
  else if C.arith = .keep ∧ C.beyond = .keep ∧ C.store = C.digits + 1 ∧ sn ≤ C.max ∧ (2 ^ C.digits ≤ sd ∧ sd < 2 ^ C.store) then
    .unreachable "static_cast<int_t>(mid.denominator) >= 0"
  else do
    let num ← C.st sn
    let den ← C.st sd
    pure ⟨num, den⟩

def fnStepC (F : Fmt) (C : Comp) (d : FVal) (mid : Frac) (fars : Int) (f n : Frac) : Res (Frac × Option Exit) :=
  if fars < 3 then pure (mid, none)
  else do
    let n2 ← jumpCountC F C d f n
    if n2 = 0 then pure (f, some .zeroJump)
    else do
      let f' ← advanceC C f n n2
      pure (f', if fCmp .eq (fracToFC F C f') d then some .jumpEq else none)

def mfStepC (F : Fmt) (C : Comp) (d : FVal) (s : MFState) : Res Step := do
  let mid ← midOfC C s.left s.right
  let midq := fracToFC F C mid
  if fCmp .lt midq d then do
    let r ← fnStepC F C d mid s.lefts s.left s.right
    match r.2 with
    | some e => pure (.ret r.1 e)
    | none => pure (.cont ⟨r.1, s.right, s.lefts + 1, 0⟩)
  else if fCmp .gt midq d then do
    let r ← fnStepC F C d mid s.rights s.right s.left
    match r.2 with
    | some e => pure (.ret r.1 e)
    | none => pure (.cont ⟨s.left, r.1, 0, s.rights + 1⟩)
  else pure (.ret mid .mid)

def mfLoopC (F : Fmt) (C : Comp) (d : FVal) : Nat → MFState → Res (Frac × Exit)
  | 0, _ => .diverges
  | fuel + 1, s =>
    match mfStepC F C d s with
    | .ok (.cont s') => mfLoopC F C d fuel s'
    | .ok (.ret f e) => .ok (f, e)
    | .ub k => .ub k
    | .unreachable m => .unreachable m
    | .trap p => .trap p
    | .throws p => .throws p
    | .oob i => .oob i
    | .diverges => .diverges
    | .ill m => .ill m

def mfInitC (F : Fmt) (C : Comp) (d : FVal) : Res Step :=
  if fCmp .le d (C.toF F C.max) = false then
    .unreachable "d <= static_cast<FloatingPoint>(std::numeric_limits<int_t>::max())"
  else do
    let l ← C.ofF d
    let r0 ← C.ar (l + 1)
    let r ← C.st r0
    let left : Frac := ⟨l, 1⟩
    let right : Frac := ⟨r, 1⟩
    if fCmp .eq (fracToFC F C left) d then pure (.ret left .left0)
    else if fCmp .eq (fracToFC F C right) d then pure (.ret right .right0)
    else pure (.cont ⟨left, right, 0, 0⟩)

def mfPosC (F : Fmt) (C : Comp) (d : FVal) (fuel : Nat) : Res (Frac × Exit) := do
  let s ← mfInitC F C d
  match s with
  | .ret f e => pure (f, e)
  | .cont s => mfLoopC F C d fuel s

/-- `make_fraction<int_t>(d)` for a component type described by `C` -/
def makeFractionC (F : Fmt) (C : Comp) (d : FVal) (fuel : Nat) : Res (Frac × Exit) :=
  if fCmp .lt d F.zero then do
    let r ← mfPosC F C d.neg fuel
    let nn ← C.ar (-r.1.num)
    pure (⟨nn, r.1.den⟩, r.2)
  else mfPosC F C d fuel

end Cnl.MakeFraction
