import CnlModel.CFloat
/-!
# CnlModel.MakeFraction — `cnl::_impl::make_fraction<int_t>(FloatingPoint d)`

Transcription of `/repo/include/cnl/_impl/fraction/make_fraction.h` (the overload taking a
floating-point value; `fraction<T>(FloatingPoint)` in `ctors.h` forwards to it).

* `F : Fmt` is the floating type, `I : IntTy` the (signed) component type `int_t`; both are
  arguments, so theorems quantify over them.
* every floating operation is one `CFloat` operation (= exact, then rounded once; the x86-64
  targets have no fused multiply-add at the baseline ISA, so `d * a - b` is two roundings);
* every integer sub-expression goes through `CInt.cBin`/`cNeg`/`convert`, so promoted `int`
  arithmetic on 16-bit components, signed overflow (`ub`) on 32/64-bit ones, and the silent
  wrap of `static_cast<int_t>(…)` are what C++ does; `static_cast<int_t>(floating)` is `fToInt`
  (`ub .floatToIntRange` when out of range, NaN or ∞);
* the three `CNL_ASSERT`s are `unreachable` exits (a debug build prints the assertion text, a
  release build reaches `unreachable()`; the harness shows both as `UNREACHABLE`);
* the `for (;;)` loop is `mfLoop` with an explicit fuel argument: `diverges` when it runs out.
  One iteration is `mfStep`, a total function of the loop state, so non-termination can be
  *proved* by exhibiting a state that recurs (`CnlProofs/MakeFraction.lean`).
* the counters `lefts`/`rights` are C++ `int`s incremented once per iteration; they are unbounded
  `Int`s here (their overflow would need 2^31 iterations on one side, far beyond any fuel used).
* each returning branch is labelled (`Exit`) so that theorems can tell the exits that test
  `static_cast<FloatingPoint>(f) == d` from the one that does not (`zeroJump`).
-/
namespace Cnl.MakeFraction
open Cnl

structure Frac where
  num : Int
  den : Int
deriving DecidableEq, Repr, Inhabited

/-- which `return` statement produced the result -/
inductive Exit where
  /-- `static_cast<FP>(left) == d` before the loop -/
  | left0
  /-- `static_cast<FP>(right) == d` before the loop -/
  | right0
  /-- `return mid` (neither `mid_q < d` nor `mid_q > d`) -/
  | mid
  /-- `fn` returned `static_cast<FP>(f) == d` after a run-length jump -/
  | jumpEq
  /-- `fn` returned `true` because the jump length `n2` was zero (no equality test) -/
  | zeroJump
deriving DecidableEq, Repr, Inhabited

structure MFState where
  left : Frac
  right : Frac
  lefts : Int
  rights : Int
deriving DecidableEq, Repr, Inhabited

inductive Step where
  | cont (s : MFState)
  | ret (f : Frac) (e : Exit)
deriving DecidableEq, Repr

/-- `static_cast<FP>(fraction)`: `static_cast<FP>(numerator) / static_cast<FP>(denominator)` -/
def fracToF (F : Fmt) (fr : Frac) : FVal := F.div (F.ofInt fr.num) (F.ofInt fr.den)

/-- `static_cast<int_t>(x)` for an integer expression -/
def castI (I : IntTy) (x : TV) : Int := (convert I x).2

/-- the accelerated branch of the lambda `fn`, up to the computation of the jump length `n2` -/
def jumpCount (F : Fmt) (I : IntTy) (d : FVal) (f n : Frac) : Res Int :=
  let maxF := F.ofInt I.max
  let dividend := F.sub (F.mul d (F.ofInt f.den)) (F.ofInt f.num)
  let divisor := F.sub (F.ofInt n.num) (F.mul d (F.ofInt n.den))
  let n0 := F.div dividend divisor
  if fCmp .le n0 maxF = false then
    .unreachable "n0 <= static_cast<FloatingPoint>(std::numeric_limits<int_t>::max())"
  else do
    let n1 ←
      if fCmp .gt (F.add (F.ofInt f.den) (F.mul (F.ofInt n.den) n0)) maxF then do
        let diff ← cBin .sub (I, I.max) (I, f.den)
        fToInt I (F.div (F.ofInt diff.2) (F.ofInt n.den))
      else fToInt I n0
    let prod ← cBin .mul (I, n.num) (I, n1)
    if fCmp .gt (F.add (F.ofInt f.num) (F.ofInt prod.2)) maxF then do
      let a ← cBin .sub (I, I.max) (I, f.num)
      let b ← cBin .sub a (I, n.num)
      fToInt I (F.div (F.ofInt b.2) (F.ofInt n.num))
    else pure n1

/-- `f.numerator = int_t(f.numerator + n2 * n.numerator)`, likewise the denominator -/
def advance (I : IntTy) (f n : Frac) (n2 : Int) : Res Frac := do
  let pn ← cBin .mul (I, n2) (I, n.num)
  let sn ← cBin .add (I, f.num) pn
  let pd ← cBin .mul (I, n2) (I, n.den)
  let sd ← cBin .add (I, f.den) pd
  pure ⟨castI I sn, castI I sd⟩

/-- the lambda `fn(fars, f, nears, n)`: the new `f` and, if it returned `true`, through which exit -/
def fnStep (F : Fmt) (I : IntTy) (d : FVal) (mid : Frac) (fars : Int) (f n : Frac) : Res (Frac × Option Exit) :=
  if fars < 3 then pure (⟨I.wrap mid.num, I.wrap mid.den⟩, none)
  else do
    let n2 ← jumpCount F I d f n
    if n2 = 0 then pure (f, some .zeroJump)
    else do
      let f' ← advance I f n n2
      pure (f', if fCmp .eq (fracToF F f') d then some .jumpEq else none)

/-- `mid`, as `fraction<uint_t>`, with the two assertions on it -/
def midOf (I : IntTy) (l r : Frac) : Res Frac := do
  let U : IntTy := ⟨I.bits, false⟩
  let sn ← cBin .add (I, l.num) (I, r.num)
  let sd ← cBin .add (I, l.den) (I, r.den)
  let mid : Frac := ⟨(convert U sn).2, (convert U sd).2⟩
  if I.wrap mid.num < 0 then .unreachable "static_cast<int_t>(mid.numerator) >= 0"
  else if I.wrap mid.den < 0 then .unreachable "static_cast<int_t>(mid.denominator) >= 0"
  else pure mid

/-- one iteration of the `for (;;)` loop -/
def mfStep (F : Fmt) (I : IntTy) (d : FVal) (s : MFState) : Res Step := do
  let mid ← midOf I s.left s.right
  let midq := fracToF F mid
  if fCmp .lt midq d then do
    let r ← fnStep F I d mid s.lefts s.left s.right
    match r.2 with
    | some e => pure (.ret r.1 e)
    | none => pure (.cont ⟨r.1, s.right, s.lefts + 1, 0⟩)
  else if fCmp .gt midq d then do
    let r ← fnStep F I d mid s.rights s.right s.left
    match r.2 with
    | some e => pure (.ret r.1 e)
    | none => pure (.cont ⟨s.left, r.1, 0, s.rights + 1⟩)
  else pure (.ret ⟨I.wrap mid.num, I.wrap mid.den⟩ .mid)

/-- the loop: at most `fuel` iterations -/
def mfLoop (F : Fmt) (I : IntTy) (d : FVal) : Nat → MFState → Res (Frac × Exit)
  | 0, _ => .diverges
  | fuel + 1, s =>
    match mfStep F I d s with
    | .ok (.cont s') => mfLoop F I d fuel s'
    | .ok (.ret f e) => .ok (f, e)
    | .ub k => .ub k
    | .unreachable m => .unreachable m
    | .trap p => .trap p
    | .throws p => .throws p
    | .oob i => .oob i
    | .diverges => .diverges
    | .ill m => .ill m

/-- state on entry to the loop, or an early exit -/
def mfInit (F : Fmt) (I : IntTy) (d : FVal) : Res Step :=
  if fCmp .le d (F.ofInt I.max) = false then
    .unreachable "d <= static_cast<FloatingPoint>(std::numeric_limits<int_t>::max())"
  else do
    let l ← fToInt I d
    let r ← cBin .add (I, l) (i32, 1)
    let left : Frac := ⟨l, 1⟩
    let right : Frac := ⟨castI I r, 1⟩
    if fCmp .eq (fracToF F left) d then pure (.ret left .left0)
    else if fCmp .eq (fracToF F right) d then pure (.ret right .right0)
    else pure (.cont ⟨left, right, 0, 0⟩)

/-- `make_fraction<int_t>(d)` for `d` not below zero -/
def mfPos (F : Fmt) (I : IntTy) (d : FVal) (fuel : Nat) : Res (Frac × Exit) := do
  let s ← mfInit F I d
  match s with
  | .ret f e => pure (f, e)
  | .cont s => mfLoop F I d fuel s

/-- `make_fraction<int_t>(d)`; negative inputs: `fraction<int_t>(-make_fraction<int_t>(-d))` -/
def makeFractionX (F : Fmt) (I : IntTy) (d : FVal) (fuel : Nat) : Res (Frac × Exit) :=
  if fCmp .lt d F.zero then do
    let r ← mfPos F I d.neg fuel
    let nn ← cNeg (I, r.1.num)
    pure (⟨castI I nn, I.wrap r.1.den⟩, r.2)
  else mfPos F I d fuel

def makeFraction (F : Fmt) (I : IntTy) (d : FVal) (fuel : Nat) : Res Frac :=
  (makeFractionX F I d fuel).map (·.1)

end Cnl.MakeFraction
