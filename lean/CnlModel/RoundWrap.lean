import CnlModel.Rounding
import CnlModel.Rep
/-!
# conversions between `scaled_integer<rounding_integer<Rep, Tag>, power<E>>` instantiations

The second route by which a finer scaled_integer becomes a coarser one under a rounding mode
(the first is the `convert<Tag, …>` functor of `rounding/convert_operator.h`, `CnlModel.RoundCvt`):
the rounding tag sits in the *representation*.  `scaled/convert_operator.h` evaluates
`static_cast<DestRep>(scale<eS - eD, 2>(to_rep(from)))`; for a `rounding_integer` representation
`scale<-k>` is `s / power_value<rounding_integer<Rep, Tag>, k, 2>()` (`rounding_integer.h`,
`num_traits/scale.h`), i.e. the *tagged division* of C08 by `2^k`, where the power is
`decltype(s >> constant<…>){1} << constant<k>` and therefore has the promoted representation type.
`scale<k>` for `k ≥ 0` is `from_rep<rounding_integer<Rep, Tag>>(scale<k, 2, Rep>(rep))`, which keeps the promoted type of the product.
Lean core only.
-/
namespace Cnl.RoundWrap
open Cnl

/-- result: representation type and value of the destination `rounding_integer<D, Tag>` -/
def convert (mode : RdMode) (S : IntTy) (eS : Int) (D : IntTy) (eD : Int) (v : Int) : Res TV :=
  if eD ≤ eS then do
    -- scale up in the (promoted) representation (`from_rep` adopts the promoted type), then into the destination
    let p ← scaleInt (eS - eD) 2 (S, v)
    pure (Cnl.convert D p)
  else do
    let k := (eD - eS).toNat
    let P := promote S
    let pw ← cBin .shl (promote P, 1) (i32, (k : Int))
    let q ← Rounding.binOp intOps mode .div (.int S, v) (.int pw.1, pw.2)
    match q.1 with
    | .int T => pure (Cnl.convert D (T, q.2))
    | _ => .ill "unexpected representation"

end Cnl.RoundWrap
