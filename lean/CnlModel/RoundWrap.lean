import CnlModel.Rounding
import CnlModel.Rep
/-!
# conversions between `scaled_integer<rounding_integer<Rep, Tag>, power<E>>` instantiations

The second route by which a finer scaled_integer becomes a coarser one under a rounding mode
(the first is the `convert<Tag, …>` functor of `rounding/convert_operator.h`, `CnlModel.RoundCvt`):
the rounding tag sits in the *representation*.  `scaled/convert_operator.h` evaluates
`static_cast<DestRep>(scale<eS - eD, 2>(to_rep(from)))`; for a `rounding_integer` representation
`scale<-k>` is `s / power_value<rounding_integer<Rep, Tag>, k, 2>()` (`rounding_integer.h`,
`num_traits/scale.h`), i.e. the *tagged division* of C08 by `2^k`, where the power is
`decltype(s >> constant<…>){1} << constant<k>` and therefore has the promoted representation type.
`scale<k>` for `k ≥ 0` is `from_rep<rounding_integer<Rep, Tag>>(scale<k, 2, Rep>(rep))`, which keeps the promoted type of the product.

Since the repair of `C09.wrapped_power_is_int_min` the divisor of `default_scale<-k>` is a `constexpr`
variable on which `static_assert(0 < divisor)` is made: an undefined shift in its evaluation and the
non-positive powers (`1 << digits` is the most negative number of a signed type) are ill-formed.
`convertOrig` is the conversion as found (the divisor unchecked).
Lean core only.
-/
namespace Cnl.RoundWrap
open Cnl

/-- the tagged division by the power `pw`, converted to the destination representation -/
def divideBy (mode : RdMode) (S D : IntTy) (v : Int) (pw : TV) : Res TV := do
  let q ← Rounding.binOp intOps mode .div (.int S, v) (.int pw.1, pw.2)
  match q.1 with
  | .int T => pure (Cnl.convert D (T, q.2))
  | _ => .ill "unexpected representation"

/-- result: representation type and value of the destination `rounding_integer<D, Tag>` -/
def convert (mode : RdMode) (S : IntTy) (eS : Int) (D : IntTy) (eD : Int) (v : Int) : Res TV :=
  if eD ≤ eS then do
    -- scale up in the (promoted) representation (`from_rep` adopts the promoted type), then into the destination
    let p ← scaleInt (eS - eD) 2 (S, v)
    pure (Cnl.convert D p)
  else
    let k := (eD - eS).toNat
    let P := promote S
    -- `constexpr auto divisor = power_value<rounding_integer<S, Tag>, k, 2>()`
    match cBin .shl (promote P, 1) (i32, (k : Int)) with
    | .ok pw =>
      if 0 < pw.2 then divideBy mode S D v pw
      else .ill "scale: attempted operation will result in overflow"
    | _ => .ill "scale: the divisor is not a constant expression"

/-- the conversion **as found**: the divisor `1 << k` is used whatever its value -/
def convertOrig (mode : RdMode) (S : IntTy) (eS : Int) (D : IntTy) (eD : Int) (v : Int) : Res TV :=
  if eD ≤ eS then do
    let p ← scaleIntOrig (eS - eD) 2 (S, v)
    pure (Cnl.convert D p)
  else do
    let k := (eD - eS).toNat
    let P := promote S
    let pw ← cBin .shl (promote P, 1) (i32, (k : Int))
    divideBy mode S D v pw

end Cnl.RoundWrap
