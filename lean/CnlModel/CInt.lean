import CnlModel.Basic
/-!
# CnlModel.CInt — the C++20 integer semantics everything else is built on

Built-in integer types of *any* width (`bits ≥ 1`), integral promotion, the usual arithmetic
conversions, conversion between integer types (two's-complement reduction, C++20), and the
arithmetic, bitwise, shift and comparison operators with their undefined cases.
`int` is 32 bits on the ABI under test (checked by the harness at start-up).
Validated against g++ and clang++ under UBSan by the `CS` correspondence table.
-/
namespace Cnl

structure IntTy where
  bits : Nat
  signed : Bool
deriving DecidableEq, Repr

namespace IntTy
def max (t : IntTy) : Int := if t.signed then 2^(t.bits-1) - 1 else 2^t.bits - 1
def lowest (t : IntTy) : Int := if t.signed then -(2^(t.bits-1)) else 0
/-- `numeric_limits<T>::digits` -/
def digits (t : IntTy) : Nat := if t.signed then t.bits - 1 else t.bits
def InRange (t : IntTy) (v : Int) : Prop := t.lowest ≤ v ∧ v ≤ t.max
instance (t : IntTy) (v : Int) : Decidable (t.InRange v) := by unfold InRange; exact inferInstance
def inRange (t : IntTy) (v : Int) : Bool := decide (t.InRange v)
/-- conversion of a mathematical integer into `t` (two's-complement reduction) -/
def wrap (t : IntTy) (v : Int) : Int :=
  if t.signed then ((v + 2^(t.bits-1)) % 2^t.bits) - 2^(t.bits-1) else v % 2^t.bits
def toString (t : IntTy) : String := (if t.signed then "i" else "u") ++ Nat.repr t.bits
end IntTy

def i8 : IntTy := ⟨8, true⟩
def u8 : IntTy := ⟨8, false⟩
def i16 : IntTy := ⟨16, true⟩
def u16 : IntTy := ⟨16, false⟩
def i32 : IntTy := ⟨32, true⟩
def u32 : IntTy := ⟨32, false⟩
def i64 : IntTy := ⟨64, true⟩
def u64 : IntTy := ⟨64, false⟩
def i128 : IntTy := ⟨128, true⟩
def u128 : IntTy := ⟨128, false⟩

/-- a typed value -/
abbrev TV := IntTy × Int

/-- integral promotion: everything of lower rank than `int` becomes `int` -/
def promote (t : IntTy) : IntTy := if t.bits < 32 then i32 else t

/-- the usual arithmetic conversions [expr.arith.conv] -/
def usualArith (a b : IntTy) : IntTy :=
  let a := promote a
  let b := promote b
  if a.signed == b.signed then (if a.bits ≥ b.bits then a else b)
  else
    let u := if a.signed then b else a
    let s := if a.signed then a else b
    if u.bits ≥ s.bits then u else s

def convert (t : IntTy) (a : TV) : TV := (t, t.wrap a.2)

inductive BinOp where
  | add | sub | mul | div | mod | band | bor | bxor | shl | shr
deriving DecidableEq, Repr

inductive CmpOp where
  | lt | le | gt | ge | eq | ne
deriving DecidableEq, Repr

/-- the result of signed arithmetic must be representable; unsigned arithmetic wraps -/
def arith (T : IntTy) (x : Int) : Res TV :=
  if T.signed then (if T.InRange x then .ok (T, x) else .ub .signedOverflow) else .ok (T, T.wrap x)

/-- type of the result of a built-in binary operator -/
def binResultTy (op : BinOp) (L R : IntTy) : IntTy :=
  match op with
  | .shl | .shr => promote L
  | _ => usualArith L R

/-- the object representation of `v` in `T`, as a natural number below `2^bits` -/
def bitPattern (T : IntTy) (v : Int) : Nat := (v % 2^T.bits).toNat

/-- built-in binary operators on typed values -/
def cBin (op : BinOp) (x y : TV) : Res TV :=
  let T := usualArith x.1 y.1
  let a := T.wrap x.2
  let b := T.wrap y.2
  match op with
  | .add => arith T (a + b)
  | .sub => arith T (a - b)
  | .mul => arith T (a * b)
  | .div => if b = 0 then .ub .divByZero
            else if T.signed ∧ a = T.lowest ∧ b = -1 then .ub .divOverflow else arith T (a.tdiv b)
  | .mod => if b = 0 then .ub .divByZero
            else if T.signed ∧ a = T.lowest ∧ b = -1 then .ub .divOverflow else arith T (a.tmod b)
  | .band => .ok (T, T.wrap (Int.ofNat (bitPattern T a &&& bitPattern T b)))
  | .bor => .ok (T, T.wrap (Int.ofNat (bitPattern T a ||| bitPattern T b)))
  | .bxor => .ok (T, T.wrap (Int.ofNat (bitPattern T a ^^^ bitPattern T b)))
  | .shl => let P := promote x.1
            if y.2 < 0 ∨ y.2 ≥ P.bits then .ub .shiftCount else .ok (P, P.wrap (x.2 * 2^y.2.toNat))
  | .shr => let P := promote x.1
            if y.2 < 0 ∨ y.2 ≥ P.bits then .ub .shiftCount else .ok (P, x.2 / 2^y.2.toNat)

/-- built-in comparisons: operands undergo the usual arithmetic conversions first -/
def cCmp (op : CmpOp) (x y : TV) : Bool :=
  let T := usualArith x.1 y.1
  let a := T.wrap x.2
  let b := T.wrap y.2
  match op with
  | .lt => decide (a < b)
  | .le => decide (a ≤ b)
  | .gt => decide (a > b)
  | .ge => decide (a ≥ b)
  | .eq => decide (a = b)
  | .ne => decide (a ≠ b)

def cNeg (x : TV) : Res TV := let P := promote x.1; arith P (-(P.wrap x.2))
def cNot (x : TV) : Res TV := let P := promote x.1; .ok (P, P.wrap (-(P.wrap x.2) - 1))
/-- unary plus: promotion only -/
def cPos (x : TV) : Res TV := let P := promote x.1; .ok (P, P.wrap x.2)

/-- `__builtin_{add,sub,mul}_overflow(a, b, T* result)`: exact result and "does not fit T" -/
def builtinOverflow (op : BinOp) (T : IntTy) (x y : TV) : TV × Bool :=
  let e : Int := match op with
    | .add => x.2 + y.2
    | .sub => x.2 - y.2
    | _ => x.2 * y.2
  ((T, T.wrap e), !T.inRange e)

end Cnl
