import CnlModel.CInt
import CnlModel.Generated.Numbers
/-!
# CnlModel.Numbers — `std::numbers::X_v<scaled_integer<Rep, power<E>>>` (`scaled_integer/numbers.h`)

Every specialisation is `scaled_integer<Rep, power<E>>{X_v<long double>}` — the long double constant scaled by `2^(−E)` (exact:
a power of two) and truncated by `static_cast<Rep>` — except `e_v` and `pi_v`, which go through `constant_with_fallback`:
the long double is used when it has at least as many fractional digits as the format
(`64 − used_digits(int(constant)) ≥ −E`), otherwise the series procedure `_impl::e` / `_impl::pi` is called.
For every rep of at most 64 bits that can hold the constant the first branch is taken
(`CnlProofs.Numbers.series_unreachable`), so the series are not modelled (`Res.ill`).
The long double constants are those the compiler prints (`Generated.ldConsts`).
-/
namespace Cnl.Numbers
open Cnl

def lookupLd (name : String) : List (String × Nat × Int) → Option (Nat × Int)
  | [] => none
  | (n, m, x) :: t => if n = name then some (m, x) else lookupLd name t

/-- `X_v<long double>` as `mantissa · 2^exponent` -/
def ld (name : String) : Option (Nat × Int) := lookupLd name Generated.ldConsts

/-- `used_digits(static_cast<int>(constant))` for the two constants with a fall-back (both truncate to 2 or 3: two digits) -/
def requiredIntegerDigits (name : String) : Nat := if name = "e" ∨ name = "pi" then 2 else 0

/-- `constant_with_fallback` takes the long double (true) or calls the series procedure (false) -/
def usesFloat (name : String) (E : Int) : Bool :=
  if name = "e" ∨ name = "pi" then decide ((64 : Int) - requiredIntegerDigits name ≥ -E) else true

/-- `static_cast<Rep>(constant * power_value<long double, −E>())` for a positive constant `m · 2^x` -/
def fromLd (m : Nat) (x : Int) (T : IntTy) (E : Int) : Res Int :=
  let s := x - E
  let t : Nat := if s ≥ 0 then m * 2^s.toNat else m / 2^(-s).toNat
  if (t : Int) ≤ T.max then .ok t else .ub .floatToIntRange

/-- representation stored in `std::numbers::<name>_v<scaled_integer<T, power<E>>>` -/
def stored (name : String) (T : IntTy) (E : Int) : Res Int :=
  match ld name with
  | none => .ill "unknown constant"
  | some (m, x) => if usesFloat name E then fromLd m x T E else .ill "series procedure (not modelled)"

end Cnl.Numbers
