import CnlModel.Elastic
/-!
# elastic_scaled_integer = scaled_integer<elastic_integer<D, N>, power<E>>  (`elastic_scaled_integer.h`)

No new arithmetic: the scaled layer aligns exponents with `scale<k>` (which for an elastic
representation adds `k` digits: `elastic_integer/scale.h`), the elastic layer does the rest.
`scaleDown` is `scale<-k>` of `elastic_integer/scale.h`: the representation divided by
`divisor_rep{1} << k`, where `divisor_rep` is the storage type of `elastic_integer<1 + k, N>`.
Lean core only.
-/
namespace Cnl.ElasticScaled
open Cnl Cnl.Elastic

structure ESNum where
  digits : Nat
  narrowest : IntTy
  exp : Int
  value : Int
deriving Repr, DecidableEq

def ESNum.toE (x : ESNum) : ENum := ⟨x.digits, x.narrowest, x.value⟩
def ofE (z : ENum) (e : Int) : ESNum := ⟨z.digits, z.narrowest, e, z.value⟩

def ESNum.InRange (x : ESNum) : Prop := x.toE.InRange
instance (x : ESNum) : Decidable x.InRange := by unfold ESNum.InRange; exact inferInstance

/-- `scale<k, 2>` for `k ≥ 0` (`elastic_integer/scale.h`): `elastic_integer<D + k, N>` — the narrowest type is kept,
unlike `<< constant<k>` — holding `to_rep(s) * power_value<result_rep, k, 2>()` computed in the result's storage type -/
def scaleUpE (x : ENum) (k : Nat) : Res ENum :=
  match repTy x.digits x.narrowest, repTy (x.digits + k) x.narrowest with
  | some rep, some rrep => do
    let v ← cBin .mul (convert rrep (rep, x.value)) (rrep, 2^k)
    pure ⟨x.digits + k, x.narrowest, (convert rrep v).2⟩
  | _, _ => .ill "digits exceed the widest integer"

def scaleUp (x : ESNum) (k : Nat) : Res ESNum :=
  if k = 0 then .ok x else do
    let z ← scaleUpE x.toE k
    pure (ofE z (x.exp - k))

/-- `scale<-k, 2>` on the elastic representation (`k > 0`): `elastic_integer<D - k, N>` holding
`to_rep(s) / (divisor_rep{1} << k)` -/
def scaleDown (x : ENum) (k : Nat) : Res ENum :=
  if k ≥ x.digits + 1 then .ill "negative digit count" else
  match repTy x.digits x.narrowest, repTy (1 + k) x.narrowest, repTy (x.digits - k) x.narrowest with
  | some rep, some drep, some rrep => do
    let d ← cBin .shl (drep, 1) (i32, (k : Int))
    let q ← cBin .div (rep, x.value) d
    pure ⟨x.digits - k, x.narrowest, (convert rrep q).2⟩
  | _, _, _ => .ill "digits exceed the widest integer"

def binOp (op : BinOp) (x y : ESNum) : Res ESNum :=
  match op with
  | .add | .sub => do
    let e := min x.exp y.exp
    let a ← scaleUp x (x.exp - e).toNat
    let b ← scaleUp y (y.exp - e).toNat
    let z ← Elastic.binOp op a.toE b.toE
    pure (ofE z e)
  | .mul => do
    let z ← Elastic.binOp op x.toE y.toE
    pure (ofE z (x.exp + y.exp))
  | .div => do
    let z ← Elastic.binOp op x.toE y.toE
    pure (ofE z (x.exp - y.exp))
  | .mod => do
    let z ← Elastic.binOp op x.toE y.toE
    pure (ofE z x.exp)
  | _ => .ill "operator outside the model"

def neg (x : ESNum) : Res ESNum := do
  let z ← Elastic.neg x.toE
  pure (ofE z x.exp)

/-- comparison: alignment to the smaller exponent (a wider elastic type), then by value -/
def cmp (op : CmpOp) (x y : ESNum) : Res Bool := do
  let e := min x.exp y.exp
  let a ← scaleUp x (x.exp - e).toNat
  let b ← scaleUp y (y.exp - e).toNat
  Elastic.cmp op a.toE b.toE

/-! ## a `cnl::constant<V>` operand meeting an elastic_scaled_integer (`scaled_integer/num_traits.h`)

`from_value<scaled_integer<…>, constant<V>>` turns the constant into
`scaled_integer<set_digits_t<int, max(digits<int>, used_digits(V) − trailing_bits(V))>, power<trailing_bits(V)>>`
holding `V`: a built-in representation (int / int64 / __int128) with the trailing zero bits moved into the
exponent.  The operators then meet an elastic representation on one side and that built-in one on the other:
`* /` hand both representations to the elastic operator (the built-in one becomes
`elastic_integer<digits<T>, set_width_t<T, width<Narrowest>>>`, `elastic_integer/from_value.h`); `+ −` first
align the exponents, and the built-in representation is scaled in its own type (`num_traits/scale.h`:
`s * power_value<T, k, 2>()`). -/

/-- `trailing_bits(n)` for `n ≠ 0` (`numeric.h`), the 2-adic valuation; 0 for 0 -/
def trailingBits : Nat → Nat → Nat
  | 0, _ => 0
  | f + 1, n => if n = 0 then 0 else if n % 2 = 0 then 1 + trailingBits f (n / 2) else 0

/-- number of binary digits of a natural number -/
def bitLen (n : Nat) : Nat := if n = 0 then 0 else Nat.log2 n + 1

/-- `_impl::used_digits(v)` (`used_digits.h`): for negative values the digits of `-1 - v` -/
def usedDigits (v : Int) : Nat := if v < 0 then bitLen (-1 - v).toNat else bitLen v.toNat

/-- the type, exponent and representation value a constant becomes: `(T, tz, V / 2^tz)` -/
def constOperand (v : Int) : Option (IntTy × Nat × Int) :=
  let tz := trailingBits 200 v.natAbs
  match setDigits true (max 31 (usedDigits v - tz)) with
  | some t => some (t, tz, v / 2^tz)
  | none => none

/-- `x op constant<v>` (`constLeft = false`) or `constant<v> op x` -/
def constBin (op : BinOp) (constLeft : Bool) (x : ESNum) (v : Int) : Res ESNum :=
  match constOperand v with
  | none => .ill "the constant needs more digits than the widest integer has"
  | some (t, tz, s) =>
    let mk (w : Int) (e : Int) : ESNum := ⟨t.digits, ⟨x.narrowest.bits, true⟩, e, w⟩
    let go (c : ESNum) : Res ESNum := if constLeft then binOp op c x else binOp op x c
    match op with
    | .add | .sub =>
      if (tz : Int) > x.exp then
        let k := ((tz : Int) - x.exp).toNat
        if k ≥ t.digits then .ill "power_value: attempted operation will result in overflow" else do
          let w ← cBin .mul (t, s) (t, 2^k)
          go (mk w.2 x.exp)
      else go (mk s tz)
    | _ => go (mk s tz)

end Cnl.ElasticScaled
