import CnlModel.Rep
/-!
# elastic_integer over built-in narrowest types

`elastic_tag/policy.h` (result digits and signedness), `elastic_tag/overloads.h` (result tag),
`elastic_tag/definition.h` + `num_traits/set_digits.h` (storage selection),
`elastic_tag/custom_operator.h` (operands are cast to a representation type, then the built-in
operator is applied), `elastic_integer/set_tag.h`, `set_rep.h` (type of the returned wrapper),
`elastic_integer/custom_operator.h` (comparison via the common type, unary operators, shifts by
a constant), `elastic_integer/scale.h`.
-/
namespace Cnl.Elastic

/-- `set_digits_t<T, need>` for built-in integers: the narrowest of the 8…128-bit types of the
requested signedness with at least `need` digits; ill-formed beyond the widest -/
def setDigits (signed : Bool) (need : Nat) : Option IntTy :=
  let dig (b : Nat) : Nat := if signed then b - 1 else b
  if need ≤ dig 8 then some ⟨8, signed⟩
  else if need ≤ dig 16 then some ⟨16, signed⟩
  else if need ≤ dig 32 then some ⟨32, signed⟩
  else if need ≤ dig 64 then some ⟨64, signed⟩
  else if need ≤ dig 128 then some ⟨128, signed⟩
  else none

/-- `elastic_tag<Digits, Narrowest>::rep` -/
def repTy (digits : Nat) (narrowest : IntTy) : Option IntTy :=
  setDigits narrowest.signed (max narrowest.digits digits)

/-- `policy<Operator, …>`: digits and signedness of the result -/
def policy (op : BinOp) (dL : Nat) (sL : Bool) (dR : Nat) (sR : Bool) : Option (Nat × Bool) :=
  match op with
  | .add => some (max dL dR + 1, sL || sR)
  | .sub => some (max dL dR + (if sL || sR then 1 else 0), true)
  | .mul => let c (d : Nat) := if d = 1 then 0 else d
            some (max 1 (c dL + c dR), sL || sR)
  | .div => some (dL, sL || sR)
  | .mod => some (min dL dR, sL || sR)
  | .band => some (min dL dR, sL || sR)
  | .bor => some (max dL dR, sL || sR)
  | .bxor => some (max dL dR, sL || sR)
  | _ => none

/-- an elastic number: declared digits, narrowest type, value -/
structure ENum where
  digits : Nat
  narrowest : IntTy
  value : Int
deriving Repr, DecidableEq

/-- the declared range `[-(2^D - 1), 2^D - 1]` (or `[0, 2^D - 1]`) of `numeric_limits` -/
def ENum.InRange (x : ENum) : Prop :=
  (if x.narrowest.signed then -(2^x.digits - 1 : Int) else 0) ≤ x.value ∧ x.value ≤ 2^x.digits - 1

instance (x : ENum) : Decidable x.InRange := by unfold ENum.InRange; exact inferInstance

/-- digits of the type the operands are converted to before the built-in operator runs:
`operand_rep = set_digits_t<result_rep, max(digits result_rep, LhsDigits, RhsDigits)>`
(wide enough for both operands as well as the result) -/
def operandDigits (resultRep : IntTy) (dL dR : Nat) : Nat := max resultRep.digits (max dL dR)

/-- binary arithmetic operator on two elastic numbers -/
def binOp (op : BinOp) (x y : ENum) : Res ENum :=
  match policy op x.digits x.narrowest.signed y.digits y.narrowest.signed with
  | none => .ill "no elastic policy for this operator"
  | some (d, sg) =>
    -- tag narrowest: signedness from the policy, width of the wider narrowest
    let tagNarrowest : IntTy := ⟨max x.narrowest.bits y.narrowest.bits, sg⟩
    match repTy d tagNarrowest with
    | none => .ill "result digits exceed the widest integer"
    | some resultRep =>
      match setDigits resultRep.signed (operandDigits resultRep x.digits y.digits) with
      | none => .ill "operand digits exceed the widest integer"
      | some operandRep =>
        let a : TV := convert operandRep (operandRep, x.value)
        let b : TV := convert operandRep (operandRep, y.value)
        match cBin op a b with
        | .ok v =>
          -- returned wrapper: width of the left narrowest, signedness of the built-in result
          let n : IntTy := ⟨x.narrowest.bits, v.1.signed⟩
          match repTy d n with
          | none => .ill "result digits exceed the widest integer"
          | some finalRep => .ok ⟨d, n, finalRep.wrap v.2⟩
        | .ub k => .ub k
        | _ => .ill "unexpected"


/-- the same with a pluggable representation operator: `rop` is the operator of the
representation type (the built-in one for plain integers, the rounding one under a rounding tag) -/
def binOpWith (rop : BinOp → TV → TV → Res TV) (op : BinOp) (x y : ENum) : Res ENum :=
  match policy op x.digits x.narrowest.signed y.digits y.narrowest.signed with
  | none => .ill "no elastic policy for this operator"
  | some (d, sg) =>
    -- tag narrowest: signedness from the policy, width of the wider narrowest
    let tagNarrowest : IntTy := ⟨max x.narrowest.bits y.narrowest.bits, sg⟩
    match repTy d tagNarrowest with
    | none => .ill "result digits exceed the widest integer"
    | some resultRep =>
      match setDigits resultRep.signed (operandDigits resultRep x.digits y.digits) with
      | none => .ill "operand digits exceed the widest integer"
      | some operandRep =>
        let a : TV := convert operandRep (operandRep, x.value)
        let b : TV := convert operandRep (operandRep, y.value)
        match rop op a b with
        | .ok v =>
          -- returned wrapper: width of the left narrowest, signedness of the built-in result
          let n : IntTy := ⟨x.narrowest.bits, v.1.signed⟩
          match repTy d n with
          | none => .ill "result digits exceed the widest integer"
          | some finalRep => .ok ⟨d, n, finalRep.wrap v.2⟩
        | .ub k => .ub k
        | _ => .ill "unexpected"

theorem binOp_eq_binOpWith (op : BinOp) (x y : ENum) : binOp op x y = binOpWith cBin op x y := rfl

/-- unary minus: `elastic_integer<D, signed narrowest>` -/
def neg (x : ENum) : Res ENum :=
  let n : IntTy := ⟨x.narrowest.bits, true⟩
  match repTy x.digits n with
  | none => .ill "digits exceed the widest integer"
  | some rep =>
    match cNeg (convert rep (rep, x.value)) with
    | .ok v => .ok ⟨x.digits, n, rep.wrap v.2⟩
    | .ub k => .ub k
    | _ => .ill "unexpected"

/-- `x << constant<k>`: `k` more digits -/
def shlConst (x : ENum) (k : Nat) : Res ENum :=
  match repTy (x.digits + k) x.narrowest with
  | none => .ill "digits exceed the widest integer"
  | some rep =>
    match cBin .shl (convert rep (rep, x.value)) (i32, (k : Int)) with
    | .ok v =>
      -- `from_rep` adopts the signedness of the (promoted) shifted representation
      let n : IntTy := ⟨x.narrowest.bits, v.1.signed⟩
      match repTy (x.digits + k) n with
      | some rep' => .ok ⟨x.digits + k, n, rep'.wrap v.2⟩
      | none => .ill "digits exceed the widest integer"
    | .ub u => .ub u
    | _ => .ill "unexpected"

/-- `x >> constant<k>`: `k` fewer digits -/
def shrConst (x : ENum) (k : Nat) : Res ENum :=
  match repTy x.digits x.narrowest with
  | some rep =>
    match cBin .shr (convert rep (rep, x.value)) (i32, (k : Int)) with
    | .ok v =>
      let n : IntTy := ⟨x.narrowest.bits, v.1.signed⟩
      match repTy (x.digits - k) n with
      | some rep'' => .ok ⟨x.digits - k, n, rep''.wrap v.2⟩
      | none => .ill "digits exceed the widest integer"
    | .ub u => .ub u
    | _ => .ill "unexpected"
  | none => .ill "digits exceed the widest integer"

/-- `std::common_type` of two built-in integer types -/
def commonType (a b : IntTy) : IntTy := if a = b then a else usualArith a b

/-- comparison: both operands are converted to the common elastic type, then the
representations are compared -/
def cmp (op : CmpOp) (x y : ENum) : Res Bool :=
  let s := x.narrowest.signed || y.narrowest.signed
  let nc := commonType ⟨x.narrowest.bits, s⟩ ⟨y.narrowest.bits, s⟩
  match repTy (max x.digits y.digits) nc with
  | none => .ill "digits exceed the widest integer"
  | some rep => .ok (cCmp op (convert rep (rep, x.value)) (convert rep (rep, y.value)))

end Cnl.Elastic
