import CnlModel.Rep
/-!
# rounding tags: `rounding/{nearest,tie_to_pos_inf,neg_inf,native}_rounding_tag.h`

Only division is special; every other operator under a rounding tag is the operator of the
representation.  Written against `RepOps` so the representation may be any number type.
-/
namespace Cnl.Rounding

def lit (v : Int) : Num := (.int i32, v)

/-- `_impl::abs(value)`: `static_cast<T>((value < 0) ? -value : +value)` for signed `T`, identity
for unsigned `T` -/
def absNum (R : RepOps) (isSigned : Bool) (x : Num) : Res Num :=
  if !isSigned then .ok x else do
    let neg ← R.cmp .lt x (lit 0)
    let v ← if neg then R.neg x else R.pos x
    R.cast x.1 v

/-- `nearest_rounding_tag` division: the truncated quotient is moved away from zero when twice
the remainder reaches the divisor (comparisons arranged so that no intermediate overflows) -/
def divNearest (R : RepOps) (resultTy : Ty) (x y : Num) : Res Num := do
  let q0 ← R.bin .div x y
  let quotient ← R.cast resultTy q0
  let rem ← R.bin .mod x y
  let remNeg ← R.cmp .lt rem (lit 0)
  let rn ← R.cmp .lt y (lit 0)
  let away ← (if remNeg then
      (if rn then do
        let d ← R.bin .sub y rem          -- remainder <= rhs - remainder
        R.cmp .le rem d
      else do
        let n ← R.neg rem                 -- -remainder >= rhs + remainder
        let s ← R.bin .add y rem
        R.cmp .ge n s)
    else
      (if rn then do
        let s ← R.bin .add y rem          -- rhs + remainder >= -remainder
        let n ← R.neg rem
        R.cmp .ge s n
      else do
        let d ← R.bin .sub y rem          -- remainder >= rhs - remainder
        R.cmp .ge rem d) : Res Bool)
  let nz ← R.cmp .ne rem (lit 0)
  if nz && away then do
    let ln ← R.cmp .lt x (lit 0)
    let rn' ← R.cmp .lt y (lit 0)
    let adj ← if ln != rn' then R.bin .sub quotient (lit 1) else R.bin .add quotient (lit 1)
    R.cast resultTy adj
  else pure quotient

/-- `tie_to_pos_inf_rounding_tag` division: floor division, then one up when twice the
(divisor-signed) remainder reaches the divisor -/
def divTiesUp (R : RepOps) (resultTy : Ty) (x y : Num) : Res Num := do
  let q0 ← R.bin .div x y
  let truncated ← R.cast resultTy q0
  let rem ← R.bin .mod x y
  let nz ← R.cmp .ne rem (lit 0)
  let remNeg ← R.cmp .lt rem (lit 0)
  let rn ← R.cmp .lt y (lit 0)
  let borrow := nz && (remNeg != rn)
  let quotient ← (if borrow then do
      let t ← R.bin .sub truncated (lit 1)
      R.cast resultTy t
    else pure truncated : Res Num)
  let rn2 ← R.cmp .lt y (lit 0)
  let up ← (if borrow then
      (if rn2 then do
        let s ← R.bin .add rem y          -- remainder + rhs <= -remainder
        let n ← R.neg rem
        R.cmp .le s n
      else do
        let s ← R.bin .add rem y          -- remainder + rhs >= -remainder
        let n ← R.neg rem
        R.cmp .ge s n)
    else
      (if rn2 then do
        let d ← R.bin .sub y rem          -- remainder <= rhs - remainder
        R.cmp .le rem d
      else do
        let d ← R.bin .sub y rem          -- remainder >= rhs - remainder
        R.cmp .ge rem d) : Res Bool)
  let nz2 ← R.cmp .ne rem (lit 0)
  if nz2 && up then do
    let t ← R.bin .add quotient (lit 1)
    R.cast resultTy t
  else pure quotient

/-- `neg_inf_rounding_tag` division -/
def divNegInf (R : RepOps) (resultTy : Ty) (x y : Num) : Res Num := do
  let rem0 ← R.bin .mod x y
  let rem ← R.cast resultTy rem0
  let nz ← R.cmp .ne rem (lit 0)
  let remNeg ← R.cmp .lt rem (lit 0)
  let rn ← R.cmp .lt y (lit 0)
  let q0 ← R.bin .div x y
  let q ← R.cast resultTy q0
  if nz && (remNeg != rn) then do
    let q1 ← R.bin .sub q (lit 1)
    R.cast resultTy q1
  else pure q

def signedOfInt : Ty → Bool
  | .int t => t.signed
  | _ => true

/-- result type `decltype(lhs / rhs)` for built-in representations -/
def divResultTy (x y : Num) : Ty :=
  match x.1, y.1 with
  | .int a, .int b => .int (usualArith a b)
  | t, _ => t

def binOp (R : RepOps) (mode : RdMode) (op : BinOp) (x y : Num) : Res Num :=
  match op, mode with
  | .div, .nrst => divNearest R (divResultTy x y) x y
  | .div, .tpi => divTiesUp R (divResultTy x y) x y
  | .div, .ninf => divNegInf R (divResultTy x y) x y
  | _, _ => R.bin op x y

end Cnl.Rounding
