import CnlModel.Rep
/-!
# rounding tags (placeholder: native only; the other modes arrive with C08)
-/
namespace Cnl.Rounding

def binOp (R : RepOps) (mode : RdMode) (op : BinOp) (x y : Num) : Res Num :=
  match mode, op with
  | .nat, _ => R.bin op x y
  | _, .div => .ill "rounding division: not yet modelled"
  | _, _ => R.bin op x y

end Cnl.Rounding
