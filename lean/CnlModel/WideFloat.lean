import CnlModel.Wide
import CnlModel.CFloat
/-!
# CnlModel.WideFloat — `uintwide_t` ⇄ `float` / `double` / `long double`

The two floating-point conversions of the vendored `uintwide_t.h`, as `cnl::wide_integer` reaches them
(`wide_tag`'s `convert_op` is `static_cast<Dest>(from)`, so `wide_integer<200>{1.5}` is the converting
constructor of the rep and `static_cast<double>(wide_integer<200>)` its `explicit operator double`).
Every floating operation of the C++ is one rounded operation of `CnlModel.CFloat`, in the type the C++
performs it in (`F` = the built-in type, `L` = `long double`, x87 double-extended on the platform checked).

## to floating point: `extract_builtin_floating_point_type<F>()`

    u     = is_neg(*this) ? -*this : *this                (as the unsigned type; `lowest` stays 2^(N-1))
    ilim  = ⌈(msb(u) + 1) / w⌉                              (`msb(0) = 0`, so one limb is always processed)
    a = 0; ldexp_runner = 1.0L
    for i < ilim:
        ld = 0.0L
        for j < w: if bit j of limb i: ld = ld + ldexp_runner      (long double addition)
                   ldexp_runner = ldexp_runner * 2.0L              (long double multiplication)
        a += static_cast<F>(ld)                                    (conversion L → F, then addition in F)
    return neg ? -a : a

so the limbs are accumulated from the least significant upwards with up to two roundings per limb
(conversion when `w > prec F`, addition).  The result is *not* always correctly rounded (see
`CnlProperties`-style witnesses in `CnlProofs/WideFloat.lean`); values above the largest finite `F`
(`float` from 129 bits up) become `±∞` in the conversion `L → F`.

## from floating point: `uintwide_t(FloatingPointType f)`

    !isfinite(f)           → 0                      (`my_own::isfinite`: `x != x`, `x > max`, `x < lowest`)
    a = |f|;  a < 1        → 0
    native_float_parts(a)  : `my_own::frexp` (divide by 2^32 while ≥ 2^32, then by 2 while ≥ 1), then `digits`
                             rounds of `man *= 2; n2 = (unsigned) man; man -= n2` collect the significand bits
                             into an `unsigned long long`; the top bit is forced on; exponent = e2 − 1
    *this = uintwide_t(mantissa)                    (the 64-bit unsigned constructor)
    p2 = exponent − (digits − 1);  p2 < 0 → `>>= unsigned(−p2)`,  p2 > 0 → `<<= unsigned(p2)`
    f < 0 → negate()

The shifts are the *unsigned-count* overloads (`≥ width` fills with zero), so magnitudes `≥ 2^N` are reduced
mod `2^N` (and to 0 once the whole significand is shifted out).

Lean core only; executable.  `FFmt` is the floating format (`Cnl.Fmt`), `WFmt` the limb format (`Cnl.Wide.Fmt`).
-/
namespace Cnl.WideFloat
open Cnl Cnl.Wide

abbrev FFmt := Cnl.Fmt
abbrev WFmt := Cnl.Wide.Fmt

/-! ## to floating point -/

/-- `msb` of a limb list: `msb_helper(top non-zero limb) + w · offset`, 0 for the value 0.
`limbs` is least significant first; `off` is the index of its first element. -/
def msbFrom (w : Nat) : Limbs → Nat → Nat
  | [], _ => 0
  | x :: xs, off =>
    let r := msbFrom w xs (off + 1)
    if xs.any (· != 0) then r else if x != 0 then x.log2 + w * off else 0

def msb (w : Nat) (a : Limbs) : Nat := msbFrom w a 0

/-- number of limbs the accumulation loop visits -/
def ilim (w : Nat) (a : Limbs) : Nat :=
  let b := msb w a + 1
  b / w + (if b % w ≠ 0 then 1 else 0)

/-- the inner loop over the `k` remaining bits of one limb, bit `j` first: returns `(ld, ldexp_runner)`.
`L` is the format of `long double`. -/
def bitLoop (L : FFmt) : Nat → Nat → FVal → FVal → FVal × FVal
  | 0, _, ld, runner => (ld, runner)
  | k+1, limb, ld, runner =>
    let ld' := if limb % 2 = 1 then L.add ld runner else ld
    bitLoop L k (limb / 2) ld' (L.mul runner (L.ofInt 2))

/-- the outer loop over the `cnt` limbs still to visit -/
def limbLoop (L F : FFmt) (w : Nat) : Nat → Limbs → FVal → FVal → FVal
  | 0, _, acc, _ => acc
  | _, [], acc, _ => acc
  | cnt+1, x :: xs, acc, runner =>
    let r := bitLoop L w x (L.ofInt 0) runner
    limbLoop L F w cnt xs (F.add acc (F.cvt r.1)) r.2

/-- `extract_builtin_floating_point_type<F>()` on a value of format `f` -/
def toFloat (L F : FFmt) (f : WFmt) (a : Limbs) : FVal :=
  let neg := isNeg f a
  let u := if neg then negate f.w a else a
  let r := limbLoop L F f.w (ilim f.w u) u (F.ofInt 0) (L.ofInt 1)
  if neg then r.neg else r

/-! ## from floating point -/

/-- `my_own::isfinite` -/
def isFiniteOwn (F : FFmt) (x : FVal) : Bool :=
  if fCmp .ne x x then false
  else !(fCmp .gt x F.maxFinite || fCmp .lt x (F.maxFinite true))

/-- first loop of `my_own::frexp`: `while (f >= 2^32) { f /= 2^32; e2 += 32; }` -/
def frexp32 (F : FFmt) : Nat → FVal → Int → FVal × Int
  | 0, f, e => (f, e)
  | fuel+1, f, e =>
    if fCmp .ge f (F.ofInt (2^32)) then frexp32 F fuel (F.div f (F.ofInt (2^32))) (e + 32) else (f, e)

/-- second loop: `while (f >= 1) { f /= 2; ++e2; }` -/
def frexp1 (F : FFmt) : Nat → FVal → Int → FVal × Int
  | 0, f, e => (f, e)
  | fuel+1, f, e =>
    if fCmp .ge f (F.ofInt 1) then frexp1 F fuel (F.div f (F.ofInt 2)) (e + 1) else (f, e)

/-- `my_own::frexp(x, &e)` for IEC 559 types; the loops end well inside the fuel for every finite `x` -/
def frexpOwn (F : FFmt) (x : FVal) : FVal × Int :=
  let neg := fCmp .lt x (F.ofInt 0)
  let f := if neg then x.neg else x
  let r1 := frexp32 F (F.emax.toNat / 32 + 2) f 0
  let r2 := frexp1 F 34 r1.1 r1.2
  (if neg then r2.1.neg else r2.1, r2.2)

/-- the bit-extraction loop of `native_float_parts`, `k` rounds to go; `mant` is `unsigned long long` -/
def mantLoop (F : FFmt) : Nat → FVal → Nat → Res Nat
  | 0, _, mant => .ok mant
  | k+1, man, mant =>
    let man2 := F.mul man (F.ofInt 2)
    match fToInt u32 man2 with
    | .ok n2 =>
      let man3 := F.sub man2 (F.ofInt n2)
      let mant1 := if n2 ≠ 0 then mant ||| 1 else mant
      let mant2 := if k ≠ 0 then (mant1 * 2) % 2^64 else mant1
      mantLoop F k man3 mant2
    | .ub u => .ub u
    | _ => .diverges

/-- `native_float_parts<F>(f)`: `(mantissa, exponent)` with `|f| = mantissa · 2^(exponent − (digits−1))` -/
def floatParts (F : FFmt) (x : FVal) : Res (Nat × Int) :=
  let ff := if fCmp .lt x (F.ofInt 0) then x.neg else x
  if fCmp .lt ff F.minNormal then .ok (0, 0)
  else
    let fr := frexpOwn F x
    match mantLoop F F.prec fr.1 0 with
    | .ok mant => .ok (mant ||| 2^(F.prec - 1), fr.2 - 1)
    | .ub u => .ub u
    | _ => .diverges

/-- `operator=(0U)` -/
def zeroW (f : WFmt) : Limbs := fromBuiltin f u32 0

/-- the constructor's integer tail, given the parts of `|x|` -/
def fromParts (f : WFmt) (F : FFmt) (neg : Bool) (mant : Nat) (ex : Int) : Limbs :=
  let v := fromBuiltin f u64 mant
  let p2 : Int := ex - ((F.prec : Int) - 1)
  let s := if p2 < 0 then shrOp f v (-p2) false else if p2 = 0 then v else shlOp f v p2 false
  if neg then negate f.w s else s

/-- `uintwide_t(FloatingPointType f)` -/
def fromFloat (f : WFmt) (F : FFmt) (x : FVal) : Res Limbs :=
  if !isFiniteOwn F x then .ok (zeroW f)
  else
    let neg := fCmp .lt x (F.ofInt 0)
    let a := if !neg then x else x.neg
    if fCmp .lt a (F.ofInt 1) then .ok (zeroW f)
    else
      match floatParts F a with
      | .ok p => .ok (fromParts f F neg p.1 p.2)
      | .ub u => .ub u
      | _ => .diverges

end Cnl.WideFloat
