import CnlModel.CInt
/-!
# CnlModel.Bits — `cnl/bit.h`, `cnl/numeric.h`, `cnl/_impl/used_digits.h` (property C18)

Transcription of the code, expression by expression.  The operand width `w` (and, for the helpers
that accept both, the signedness) is an *argument*: `uT w` is the unsigned and `sT w` the signed
built-in type of `w` bits, for any `w ≥ 1`; types narrower than `int` promote as in C++.

* every built-in operation on *values* (`<<`, `>>`, `&`, `|`, `-`, `/`, `~`, comparisons, conversions) goes
  through `CnlModel.CInt` (`cBin`, `cNot`, `cCmp`, `IntTy.wrap`), so promotion and the undefined shift
  counts are those of the C++ core, not re-stated here;
* the recursive templates become recursion on explicit fuel (`w + 1` steps always suffice — proved —
  and `Res.diverges` is what running out would mean: `_bit_impl::countr_zero(0)` really recurses forever);
  where the C++ recursion continues in the *promoted* type (`countr_one(x >> 1)`, `popcount(x & (x - 1))`,
  `used_digits_signed<false>{}(value / radix, …)`) the model's recursion carries that type along;
* the compiler intrinsics are modelled from the GCC documentation: `__builtin_clz` / `__builtin_ctz` are
  undefined (`ub .intrinsicArg`) at 0, `__builtin_popcount` and `__builtin_clrsb` are total;
* `Cfg` says which specialisations the preprocessor selected: `intrinsics` = `CNL_GCC_INTRINSICS_ENABLED`,
  `clang` = `__clang__` (the `countr_zero` and `countl_rsb` specialisations are GCC-only).  The
  specialisations exist for `unsigned int` (32 bits) and `unsigned long` / `unsigned long long` (64 bits).
* counts are C++ `int`s; they are computed here in ℤ.  Every count (and every intermediate `± 1`) lies in
  `[-1, w + 1]` (`counts_le_width`, `value_bits_le_digits` in C18), so no `int` operation can overflow for any width below `2^31 - 1`.

`AsFound.*` keeps the three definitions as they were before the `fix:` commits (rotl, rotr,
GCC `countr_zero(unsigned)`), for the refutation theorems of C18.
-/
namespace Cnl.Bits
open Cnl

structure Cfg where
  /-- `CNL_GCC_INTRINSICS_ENABLED` -/
  intrinsics : Bool
  /-- `__clang__` -/
  clang : Bool
deriving DecidableEq, Repr

def uT (w : Nat) : IntTy := ⟨w, false⟩
def sT (w : Nat) : IntTy := ⟨w, true⟩

/-- `static_cast<T>(e)`: the value of a built-in expression converted to `T` -/
def castV (T : IntTy) (r : Res TV) : Res Int := r >>= fun v => .ok (T.wrap v.2)

/-- widths that have an intrinsic specialisation (`unsigned int`, `unsigned long`, `unsigned long long`) -/
def isIntrinsicWidth (w : Nat) : Bool := w == 32 || w == 64

/-! ## compiler intrinsics, from their documentation -/

/-- bit length of a natural number (position of the most significant 1-bit, plus one) -/
def blen (n : Nat) : Nat := if n = 0 then 0 else Nat.log2 n + 1

/-- number of trailing 0 digits among the low `n` binary digits of `x` -/
def lowZeros : Nat → Nat → Nat
  | 0, _ => 0
  | n+1, x => if x % 2 = 1 then 0 else lowZeros n (x / 2) + 1

/-- number of 1 digits among the low `n` binary digits of `x` -/
def ones : Nat → Nat → Nat
  | 0, _ => 0
  | n+1, x => x % 2 + ones n (x / 2)

/-- `__builtin_clz{,l,ll}(x)` on a `w`-bit operand: leading 0-bits; undefined at 0 -/
def builtinClz (w x : Nat) : Res Int := if x = 0 then .ub .intrinsicArg else .ok ((w : Int) - blen x)
/-- `__builtin_ctz{,l,ll}(x)`: trailing 0-bits; undefined at 0 -/
def builtinCtz (w x : Nat) : Res Int := if x = 0 then .ub .intrinsicArg else .ok (lowZeros w x)
/-- `__builtin_popcount{,l,ll}(x)` -/
def builtinPopcount (w x : Nat) : Int := ones w x
/-- `__builtin_clrsb{,l,ll}(v)`: number of leading redundant sign bits of a `w`-bit signed value -/
def builtinClrsb (w : Nat) (v : Int) : Int := (w : Int) - 1 - blen (if v < 0 then -v - 1 else v).toNat

/-! ## rotations -/

/-- `_bit_impl::rotl(x, s, width)`:
`static_cast<T>((x << (s % width)) | (x >> ((width - (s % width)) % width)))`, `s`, `width` unsigned int -/
def rotl (w x s : Nat) : Res Nat := do
  let k := s % w
  let a ← cBin .shl (uT w, x) (u32, k)
  let b ← cBin .shr (uT w, x) (u32, ((w - k) % w : Nat))
  let c ← cBin .bor a b
  pure ((uT w).wrap c.2).toNat

/-- `_bit_impl::rotr`: `static_cast<T>((x >> (s % width)) | (x << ((width - (s % width)) % width)))` -/
def rotr (w x s : Nat) : Res Nat := do
  let k := s % w
  let a ← cBin .shr (uT w, x) (u32, k)
  let b ← cBin .shl (uT w, x) (u32, ((w - k) % w : Nat))
  let c ← cBin .bor a b
  pure ((uT w).wrap c.2).toNat

/-! ## countl_zero / countl_one -/

/-- primary template: `x ? countl_zero<T>(static_cast<T>(x >> 1)) - 1 : digits_v<T>` -/
def countlZeroGen (w : Nat) : Nat → Nat → Res Int
  | 0, _ => .diverges
  | fuel+1, x =>
    if x ≠ 0 then do
      let y ← castV (uT w) (cBin .shr (uT w, x) (i32, 1))
      let r ← countlZeroGen w fuel y.toNat
      pure (r - 1)
    else .ok w

/-- `countl_zero`: `x ? __builtin_clz(x) : digits_v<T>` where specialised, else the primary template -/
def countlZero (c : Cfg) (w x : Nat) : Res Int :=
  if c.intrinsics && isIntrinsicWidth w then (if x ≠ 0 then builtinClz w x else .ok w)
  else countlZeroGen w (w + 1) x

/-- primary template:
`(x & (T{1} << (digits_v<T> - 1))) ? countl_one<T>(static_cast<T>(x << 1)) + 1 : 0` -/
def countlOneGen (w : Nat) : Nat → Nat → Res Int
  | 0, _ => .diverges
  | fuel+1, x => do
    let m ← cBin .shl (uT w, 1) (i32, (w : Int) - 1)
    let t ← cBin .band (uT w, x) m
    if t.2 ≠ 0 then do
      let y ← castV (uT w) (cBin .shl (uT w, x) (i32, 1))
      let r ← countlOneGen w fuel y.toNat
      pure (r + 1)
    else .ok 0

/-- `countl_one`: `~x ? __builtin_clz(~x) : digits_v<T>` where specialised (there `T` does not promote) -/
def countlOne (c : Cfg) (w x : Nat) : Res Int :=
  if c.intrinsics && isIntrinsicWidth w then do
    let n ← cNot (uT w, x)
    if n.2 ≠ 0 then builtinClz w n.2.toNat else .ok w
  else countlOneGen w (w + 1) x

/-! ## countr_zero / countr_one -/

/-- `_bit_impl::countr_zero<T>`: `(x & 1) ? 0 : countr_zero<T>(static_cast<T>(x >> 1)) + 1` -/
def countrZeroImpl (w : Nat) : Nat → Nat → Res Int
  | 0, _ => .diverges
  | fuel+1, x => do
    let t ← cBin .band (uT w, x) (i32, 1)
    if t.2 ≠ 0 then .ok 0
    else do
      let y ← castV (uT w) (cBin .shr (uT w, x) (i32, 1))
      let r ← countrZeroImpl w fuel y.toNat
      pure (r + 1)

/-- `countr_zero`: GCC-only specialisations `x ? __builtin_ctz(x) : digits_v<T>` (after the repair, also for
`unsigned int`); primary template `x ? _bit_impl::countr_zero(x) : digits_v<T>` -/
def countrZero (c : Cfg) (w x : Nat) : Res Int :=
  if c.intrinsics && !c.clang && isIntrinsicWidth w then (if x ≠ 0 then builtinCtz w x else .ok w)
  else if x ≠ 0 then countrZeroImpl w (w + 1) x else .ok w

/-- primary template `(x & T{1}) ? countr_one(x >> 1) + 1 : 0`; the recursive call deduces the promoted type -/
def countrOneGen : IntTy → Nat → Nat → Res Int
  | _, 0, _ => .diverges
  | T, fuel+1, x => do
    let t ← cBin .band (T, x) (T, 1)
    if t.2 ≠ 0 then do
      let y ← cBin .shr (T, x) (i32, 1)
      let r ← countrOneGen y.1 fuel y.2.toNat
      pure (r + 1)
    else .ok 0

/-- `countr_one`: unconditional specialisation for `unsigned int`: `countr_zero(~x)` -/
def countrOne (c : Cfg) (w x : Nat) : Res Int :=
  if w = 32 then do
    let n ← cNot (uT 32, x)
    countrZero c 32 n.2.toNat
  else countrOneGen (uT w) (w + 1) x

/-! ## popcount, ispow2, ceil2, floor2, log2p1 -/

/-- primary template `x ? popcount(x & (x - 1)) + 1 : 0`; the recursive call deduces the promoted type -/
def popcountGen : IntTy → Nat → Nat → Res Int
  | _, 0, _ => .diverges
  | T, fuel+1, x =>
    if x ≠ 0 then do
      let d ← cBin .sub (T, x) (i32, 1)
      let y ← cBin .band (T, x) d
      let r ← popcountGen y.1 fuel y.2.toNat
      pure (r + 1)
    else .ok 0

def popcount (c : Cfg) (w x : Nat) : Res Int :=
  if c.intrinsics && isIntrinsicWidth w then .ok (builtinPopcount w x) else popcountGen (uT w) (w + 1) x

/-- `x && !(x & (x - 1))` -/
def ispow2 (w x : Nat) : Res Bool :=
  if x ≠ 0 then do
    let d ← cBin .sub (uT w, x) (i32, 1)
    let y ← cBin .band (uT w, x) d
    pure (y.2 == 0)
  else .ok false

/-- `x ? static_cast<T>(T{1} << (digits_v<T> - countl_zero(T(x - T{1})))) : T{0}` -/
def ceil2 (c : Cfg) (w x : Nat) : Res Nat :=
  if x ≠ 0 then do
    let d ← castV (uT w) (cBin .sub (uT w, x) (uT w, 1))
    let z ← countlZero c w d.toNat
    let p ← castV (uT w) (cBin .shl (uT w, 1) (i32, (w : Int) - z))
    pure p.toNat
  else .ok 0

/-- `x ? static_cast<T>(T{1} << (digits_v<T> - 1 - countl_zero(x))) : T{0}` -/
def floor2 (c : Cfg) (w x : Nat) : Res Nat :=
  if x ≠ 0 then do
    let z ← countlZero c w x
    let p ← castV (uT w) (cBin .shl (uT w, 1) (i32, (w : Int) - 1 - z))
    pure p.toNat
  else .ok 0

/-- `digits_v<T> - countl_zero(x)` -/
def log2p1 (c : Cfg) (w x : Nat) : Res Int := do
  let z ← countlZero c w x
  pure ((w : Int) - z)

/-! ## CNL's additions: countl_rsb, countl_rb, countr_used -/

/-- `countl_rsb` of a signed `w`-bit value: GCC-only `__builtin_clrsb` for int/long/long long, else
`((x < 0) ? countl_one(static_cast<unsigned_type>(x)) : countl_zero(static_cast<unsigned_type>(x))) - 1` -/
def countlRsb (c : Cfg) (w : Nat) (v : Int) : Res Int :=
  if c.intrinsics && !c.clang && isIntrinsicWidth w then .ok (builtinClrsb w v)
  else do
    let u := ((uT w).wrap v).toNat
    let n ← if cCmp .lt (sT w, v) (i32, 0) then countlOne c w u else countlZero c w u
    pure (n - 1)

/-- `countl_rb`: `countl_zero` for unsigned, `countl_rsb` for signed operands -/
def countlRb (c : Cfg) (T : IntTy) (v : Int) : Res Int :=
  if T.signed then countlRsb c T.bits v else countlZero c T.bits v.toNat

/-- `countr_used`: `digits_v<T> - countl_rb(x)` -/
def countrUsed (c : Cfg) (T : IntTy) (v : Int) : Res Int := do
  let n ← countlRb c T v
  pure ((T.digits : Int) - n)

/-! ## numeric.h: used_digits, leading_bits, trailing_bits -/

/-- `used_digits_signed<false>`: `(value > 0) ? 1 + used_digits_signed<false>{}(value / radix, radix) : 0`;
the recursive call's `Integer` is the type of `value / radix` (`radix` is an `int`) -/
def usedDigitsU : IntTy → Nat → Int → Int → Res Int
  | _, 0, _, _ => .diverges
  | T, fuel+1, v, r =>
    if cCmp .gt (T, v) (i32, 0) then do
      let q ← cBin .div (T, v) (i32, r)
      let n ← usedDigitsU q.1 fuel q.2 r
      pure (1 + n)
    else .ok 0

/-- `cnl::used_digits(value, radix)`; signed: `(value < 0) ? f(Integer{-1} - value, radix) : f(value, radix)` -/
def usedDigits (T : IntTy) (v r : Int) : Res Int :=
  if T.signed then
    if cCmp .lt (T, v) (i32, 0) then do
      let m ← cBin .sub (T, -1) (T, v)
      usedDigitsU m.1 (T.bits + 1) m.2 r
    else usedDigitsU T (T.bits + 1) v r
  else usedDigitsU T (T.bits + 1) v r

/-- `leading_bits`: `digits_v<Integer> - used_digits(value)` (radix 2) -/
def leadingBits (T : IntTy) (v : Int) : Res Int := do
  let n ← usedDigits T v 2
  pure ((T.digits : Int) - n)

/-- `trailing_bits`: `value ? countr_zero(static_cast<unsigned_type>(value)) : 0` -/
def trailingBits (c : Cfg) (T : IntTy) (v : Int) : Res Int :=
  if v ≠ 0 then countrZero c T.bits ((uT T.bits).wrap v).toNat else .ok 0

/-! ## the three definitions as found in the unrepaired tree -/
namespace AsFound

/-- `static_cast<T>((x << (s % width)) | (x >> (width - (s % width))))` -/
def rotl (w x s : Nat) : Res Nat := do
  let k := s % w
  let a ← cBin .shl (uT w, x) (u32, k)
  let b ← cBin .shr (uT w, x) (u32, ((w - k : Nat)))
  let c ← cBin .bor a b
  pure ((uT w).wrap c.2).toNat

def rotr (w x s : Nat) : Res Nat := do
  let k := s % w
  let a ← cBin .shr (uT w, x) (u32, k)
  let b ← cBin .shl (uT w, x) (u32, ((w - k : Nat)))
  let c ← cBin .bor a b
  pure ((uT w).wrap c.2).toNat

/-- GCC `countr_zero(unsigned int x)` was `int{__builtin_ctz(x)}` with no guard -/
def countrZero (c : Cfg) (w x : Nat) : Res Int :=
  if c.intrinsics && !c.clang && w == 32 then builtinCtz w x
  else Bits.countrZero c w x

def countrOne (c : Cfg) (w x : Nat) : Res Int :=
  if w = 32 then do
    let n ← cNot (uT 32, x)
    countrZero c 32 n.2.toNat
  else countrOneGen (uT w) (w + 1) x

def trailingBits (c : Cfg) (T : IntTy) (v : Int) : Res Int :=
  if v ≠ 0 then countrZero c T.bits ((uT T.bits).wrap v).toNat else .ok 0

end AsFound

end Cnl.Bits
