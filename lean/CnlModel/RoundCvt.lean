import CnlModel.ScaledFloat
import CnlModel.Layered
/-!
# Narrowing conversions under a rounding tag

`rounding/convert_operator.h` (floating point → integer) and
`scaled_integer/convert_operator.h` (scaled → coarser scaled, floating point → scaled),
reached through `cnl::convert<RoundingTag, Dest>`.
-/
namespace Cnl.RoundCvt
open Cnl

/-- the home-made `floor(x)` of the tie_to_pos_inf / neg_inf conversions:
`x_whole = static_cast<Source>(static_cast<Destination>(x))`, minus one when `x < 0 && x < x_whole` -/
def floorEmul (f : Fmt) (D : IntTy) (x : FVal) : Res FVal := do
  let w ← fToInt D x
  let xWhole := f.ofInt w
  let residual : Int := if fCmp .lt x (f.ofInt 0) && fCmp .lt x xWhole then 1 else 0
  -- floor_residual is a `Destination`; converted back to `Source` for the subtraction
  pure (f.sub xWhole (f.ofInt (D.wrap residual)))

/-- `convert<Tag, D>{}(x)` for a floating-point `x` of format `f` and a built-in integer `D` -/
def floatToInt (mode : RdMode) (f : Fmt) (D : IntTy) (x : FVal) : Res Int :=
  match mode with
  | .nat => fToInt D x
  | .nrst =>
    -- static_cast<D>(static_cast<long double>(from) + ((from >= Source{}) ? .5L : -.5L))
    let xl := x87ext.cvt x
    let half := x87ext.ofDyadic false 1 (-1)
    let biased := if fCmp .ge x (f.ofInt 0) then x87ext.add xl half else x87ext.sub xl half
    fToInt D biased
  | .tpi => do
    -- static_cast<D>(floor(from + static_cast<Source>(.5L)))
    let y := f.add x (f.ofDyadic false 1 (-1))
    let fl ← floorEmul f D y
    fToInt D fl
  | .ninf => do
    let fl ← floorEmul f D x
    fToInt D fl

/-- scaled → coarser scaled (`eD > eS`, radix 2, built-in representations).
`S`, `D` representation types, `v` the source representation value. -/
def scaledToScaled (mode : RdMode) (S : IntTy) (eS : Int) (D : IntTy) (eD : Int) (v : Int) : Res TV :=
  let k := (eD - eS).toNat
  let plain : Res TV := (Scaled.convert intOps 2 ⟨(.int S, v), eS⟩ (.int D) eD).map (fun r => (D, r.rep.2))
  if eD ≤ eS then plain else
  match mode with
  | .nat => plain
  | .ninf => do
    -- from_rep<result>(to_rep(from) >> (eD - eS)): the returned scaled_integer takes the
    -- (promoted) type of the shifted representation, not `ResultRep`
    let s ← cBin .shr (S, v) (i32, (k : Int))
    pure s
  | .tpi => do
    -- half = static_cast<input>(from_rep<result>(1)) / 2 ; from_rep<result>(to_rep(from + half) >> k)
    let one ← Scaled.convert intOps 2 ⟨(.int D, 1), eD⟩ (.int S) eS
    let h ← intOps.bin .div one.rep (.int i32, 2)
    let sum ← intOps.bin .add (.int S, v) h
    match sum.1 with
    | .int T => do
      let s ← cBin .shr (T, sum.2) (i32, (k : Int))
      pure (D, D.wrap s.2)
    | _ => .ill "unexpected"
  | .nrst => do
    -- static_cast<result>(from + ((from >= 0) ? half() : -half()))
    let one ← Scaled.convert intOps 2 ⟨(.int D, 1), eD⟩ (.int S) eS
    let h ← intOps.bin .div one.rep (.int i32, 2)
    -- `from >= 0`: comparison of a scaled number with the integer 0 (exponent 0): see Scaled.cmp
    let nonneg ← Scaled.cmp intOps .ge 2 ⟨(.int S, v), eS⟩ ⟨(.int i32, 0), 0⟩
    let hh ← if nonneg then pure h else intOps.neg h
    let sum ← intOps.bin .add (.int S, v) hh
    let r ← Scaled.convert intOps 2 ⟨sum, eS⟩ (.int D) eD
    pure (D, r.rep.2)

/-- floating point → scaled with representation `D`, exponent `eD`, radix 2 -/
def floatToScaled (mode : RdMode) (f : Fmt) (D : IntTy) (eD : Int) (x : FVal) : Res Int :=
  let half := ScaledFloat.powerValueF f 2 (eD - 1)
  match mode with
  | .nat => ScaledFloat.fromFloat f 2 D eD x
  | .ninf => ScaledFloat.fromFloat f 2 D eD x            -- static_cast<result>(from)
  | .tpi => ScaledFloat.fromFloat f 2 D eD (f.add x half)
  | .nrst =>
    let biased := if fCmp .ge x (f.ofInt 0) then f.add x half else f.sub x half
    ScaledFloat.fromFloat f 2 D eD biased

end Cnl.RoundCvt
