import CnlModel.ElasticScaled
import CnlModel.Layered
import CnlModel.Parse
import CnlModel.Wide
/-!
# `+ - *` and unary `-` of scaled_integer over wrapped representations (C01, table `C01w`)

Five operand kinds that the built-in / plain elastic grids of C01 do not reach.  No new arithmetic: every
function composes the existing layer models.

* **`scaled_integer<overflow_integer<T, tag>, power<e, radix>>`, every tag** (`binO`, `negO`).
  `Layered.ops` models `cnl::scale` of an overflow_integer for the native tag only; `overflow_integer.h` defines it
  for every tag as `default_scale` — `s * power_value<S, k, radix>()` with the *tagged* operators (the power is an
  overflow_integer over the promoted type: `Layered.powerValueWith`), returned as
  `decltype(from_rep<S>(scale<k, radix>(to_rep(s))))`, which instantiates `scale` of the representation.
  `scaleOv` is that definition for any tag (it coincides with `Layered.scaleWith` on the native tag), `ovOps` the
  operator set of the representation with it, and `binO` the scaled layer (`Scaled.binOp`) over `ovOps`.
  The tagged `+ - *` are `Overflow.checkedBin` on the intrinsic path, unary minus is `Overflow.checkedNeg`
  (judged in the *promoted* operand type: `-x` of an `overflow_integer<uint8_t>` is an `overflow_integer<int>`).
* **`scaled_integer<overflow_integer<elastic_integer<D, N>, tag>, power<e>>`** ("safe" fixed point): the overflow
  layer sees elastic operands, whose results are wider than the operands; every test of `is_overflow.h` for
  `+ - *` and unary minus is then either switched off by its digit pre-check or cannot fire (for two unsigned
  operands `a - b` the negative test `a < lowest(result) + b` is live, and false because `lowest(result) + b ≤ 0`),
  so the value and the elastic type are those of `ElasticScaled.binOp` / `ElasticScaled.neg` whatever the tag
  (`binOE`, `negOE`); the correspondence table checks exactly that claim against the code.
* **`scaled_integer<elastic_integer<D, N>, power<e>>` combined with a built-in integer** on either side (`binOpB`):
  the integer is lifted to `scaled_integer<T, power<0>>` (`scaled_integer/from_value.h`); `+ -` with different
  exponents scale both operands — the elastic one through `elastic_integer/scale.h` (more digits), the built-in one
  **in its own (promoted) type** (`scaleInt`, also for a shift of 0) —, then the representation-level operator turns
  the built-in operand into `elastic_integer<digits T, set_width_t<T, width N>>` (`elastic_integer/from_value.h`:
  the signedness of `T`, the width of the elastic operand's narrowest type) and `Elastic.binOp` does the rest.

* **`scaled_integer<wide_integer<D, N>, power<e, radix>>` with MULTI-WORD storage** (`wwBin`; `D` above
  `max_digits<N>`, storage `uintwide_t` of `⌈(D + sign) / width N⌉` limbs, `Wide.storage`).  `wide_integer/scale.h`
  sends every wide_integer to `default_scale`: `s * power_value<S, k, radix>()`, a product **in the wide type** (radix^k,
  not 2^k, whatever the storage); `+ - *` of two wide_integers (`wide_tag/custom_operator.h`) give
  `wide_integer<max(D1, D2), N>` and operate on the storage, i.e. modulo `2^(limbs·width)` in two's complement
  (`wrapTo`; that the limb routines of `uintwide_t` compute exactly that is C10's subject).  Modelled for operands of
  the same narrowest type and limb count (the digits may differ).
* **a `cnl::constant<V>` operand** (`binC`, and `Opnd.scb` for elastic representations): `from_value<scaled_integer<Rep,
  power<E, Radix>>, constant<V>>` (`scaled_integer/num_traits.h`) is `scaled_integer<set_digits_t<int, max(31,
  used_digits V - trailing_bits V)>, power<trailing_bits V>>` — always a *signed* built-in representation, whatever
  `Rep` (`Parse.makeScaledInteger`) —, and the operator is then the one between two scaled_integers.

Lean core only.
-/
namespace Cnl.ScaledReps
open Cnl Cnl.Elastic Cnl.ElasticScaled

/-! ## overflow_integer over a built-in integer, every tag -/

/-- `cnl::scale<k, radix>` of an `overflow_integer<T, tag>` (`overflow_integer.h`), any tag -/
def scaleOv (k : Int) (radix : Nat) (x : Num) : Res Num :=
  match x.1 with
  | .ov r _ => Layered.illOr (intOps.scale k radix (r, x.2)) (Layered.defaultScaleWith intOps k radix x)
  | _ => (Layered.ops 1).scale k radix x

/-- the operators of an `overflow_integer<built-in, tag>` representation -/
def ovOps : RepOps := { Layered.ops 1 with scale := scaleOv }

/-- a `scaled_integer<overflow_integer<T, tag>, power<e, radix>>` -/
def scOv (T : IntTy) (tag : OvTag) (e : Int) (radix : Nat) (v : Int) : Num := (.sc (.ov (.int T) tag) e radix, v)

/-- binary operator between two scaled integers over overflow_integer representations -/
def binO (op : BinOp) (x y : Num) : Res Num :=
  match x.1, y.1 with
  | .sc rL eL radix, .sc rR eR radix' =>
    if radix = radix' then
      (Scaled.binOp ovOps op radix ⟨(rL, x.2), eL⟩ ⟨(rR, y.2), eR⟩).map (Layered.wrapSc radix)
    else .ill "scaled operands of different radix"
  | _, _ => .ill "operand combination outside the model"

/-- unary minus: the tagged operator of the representation, exponent unchanged -/
def negO (x : Num) : Res Num := Layered.un .neg x

/-! ## overflow_integer over elastic_integer -/

/-- `+ - *` on `scaled_integer<overflow_integer<elastic_integer<D, N>, tag>, power<e>>`: no test of the overflow
layer fires, under any tag -/
def binOE (_tag : OvTag) (op : BinOp) (x y : ESNum) : Res ESNum :=
  match op with
  | .add | .sub | .mul => ElasticScaled.binOp op x y
  | _ => .ill "operator outside the model"

def negOE (_tag : OvTag) (x : ESNum) : Res ESNum := ElasticScaled.neg x

/-! ## elastic_integer representation combined with a built-in integer -/

inductive Opnd where
  | es (x : ESNum)
  | builtin (ty : IntTy) (v : Int)
  /-- a `scaled_integer<ty, power<e>>` over a built-in integer (what a `constant<V>` operand becomes) -/
  | scb (ty : IntTy) (e : Int) (v : Int)
deriving Repr, DecidableEq

def Opnd.exp : Opnd → Int
  | .es x => x.exp
  | .builtin _ _ => 0
  | .scb _ e _ => e

/-- `from_value<elastic_integer<_, N>, T>`: `elastic_integer<digits T, set_width_t<T, width N>>` -/
def ofBuiltin (n : IntTy) (ty : IntTy) (v : Int) (e : Int) : ESNum := ⟨ty.digits, ⟨n.bits, ty.signed⟩, e, v⟩

def Opnd.raw (n : IntTy) : Opnd → ESNum
  | .es x => x
  | .builtin ty v => ofBuiltin n ty v 0
  | .scb ty e v => ofBuiltin n ty v e

/-- the operand at the exponent `exp - k` (the two exponents differ) -/
def Opnd.align (n : IntTy) (o : Opnd) (k : Nat) : Res ESNum :=
  match o with
  | .es x => ElasticScaled.scaleUp x k
  | .builtin ty v =>
    match scaleInt (k : Int) 2 (ty, v) with
    | .ok r => .ok (ofBuiltin n r.1 r.2 (-(k : Int)))
    | .ub u => .ub u
    | _ => .ill "power_value: attempted operation will result in overflow"
  | .scb ty e v =>
    match scaleInt (k : Int) 2 (ty, v) with
    | .ok r => .ok (ofBuiltin n r.1 r.2 (e - (k : Int)))
    | .ub u => .ub u
    | _ => .ill "power_value: attempted operation will result in overflow"

/-- `+ - *` where either operand may be a built-in integer; `n` is the narrowest type of the elastic operand -/
def binOpB (n : IntTy) (op : BinOp) (s t : Opnd) : Res ESNum :=
  match op with
  | .add | .sub =>
    if s.exp = t.exp then do
      let z ← Elastic.binOp op (s.raw n).toE (t.raw n).toE
      pure (ofE z s.exp)
    else do
      let e := min s.exp t.exp
      let a ← s.align n (s.exp - e).toNat
      let b ← t.align n (t.exp - e).toNat
      let z ← Elastic.binOp op a.toE b.toE
      pure (ofE z e)
  | .mul => do
    let z ← Elastic.binOp op (s.raw n).toE (t.raw n).toE
    pure (ofE z (s.exp + t.exp))
  | _ => .ill "operator outside the model"

/-! ## a `cnl::constant<V>` operand -/

/-- `from_value<scaled_integer<Rep, power<E, Radix>>, constant<V>>{}(constant<V>{})`: independent of `Rep` -/
def constNum (v : Int) : Res Num := Parse.makeScaledInteger v >>= fun m => .ok (m.ty, m.value)

/-- the same as an operand next to an elastic representation -/
def constOpnd (v : Int) : Res Opnd :=
  constNum v >>= fun c =>
    match c.1 with
    | .sc (.int t) e 2 => .ok (.scb t e c.2)
    | _ => .ill "constant: not a scaled built-in"

/-- `x op constant<v>{}` (`left = false`) / `constant<v>{} op x` for a scaled_integer `x` over a built-in integer -/
def binC (op : BinOp) (left : Bool) (x : Num) (v : Int) : Res Num :=
  constNum v >>= fun c => if left then Layered.bin op c x else Layered.bin op x c

/-- the same for `x : scaled_integer<elastic_integer<D, N>, power<e>>` -/
def binCE (op : BinOp) (left : Bool) (x : ESNum) (v : Int) : Res ESNum :=
  constOpnd v >>= fun c => if left then binOpB x.narrowest op c (.es x) else binOpB x.narrowest op (.es x) c

/-! ## multi-word wide_integer representation -/

/-- `scaled_integer<wide_integer<digits, narrowest>, power<exp, radix>>`, value of the storage -/
structure WNum where
  digits : Nat
  narrowest : IntTy
  exp : Int
  value : Int
deriving Repr, DecidableEq

/-- two's-complement reduction to `N` bits -/
def wrapTo (N : Nat) (signed : Bool) (v : Int) : Int :=
  let m := v % (2 : Int)^N
  if signed && decide (m ≥ (2 : Int)^(N - 1)) then m - (2 : Int)^N else m

def wFmt (d : Nat) (n : IntTy) : Option Wide.Fmt :=
  match Wide.storage d n with
  | .multi f => some f
  | .builtin _ => none

/-- `default_scale<k, radix, wide_integer<…>>`: `s * power_value<S, k, radix>()` in the storage -/
def wScale (f : Wide.Fmt) (radix k : Nat) (v : Int) : Int :=
  wrapTo f.N f.signed (v * wrapTo f.N f.signed ((radix : Int)^k))

def wwBin (radix : Nat) (op : BinOp) (x y : WNum) : Res WNum :=
  match wFmt x.digits x.narrowest, wFmt y.digits y.narrowest with
  | some fx, some fy =>
    if fx ≠ fy ∨ x.narrowest ≠ y.narrowest then .ill "operands of different storage: outside the model" else
    let d := max x.digits y.digits
    let w := wrapTo fx.N fx.signed
    match op with
    | .mul => .ok ⟨d, x.narrowest, x.exp + y.exp, w (x.value * y.value)⟩
    | .add | .sub =>
      let c := min x.exp y.exp
      -- equal exponents: the operator of the representation, no scaling; otherwise BOTH operands are scaled
      let a := if x.exp = y.exp then x.value else wScale fx radix (x.exp - c).toNat x.value
      let b := if x.exp = y.exp then y.value else wScale fx radix (y.exp - c).toNat y.value
      .ok ⟨d, x.narrowest, c, w (if op = .add then a + b else a - b)⟩
    | _ => .ill "operator outside the model"
  | _, _ => .ill "single-word storage: outside this model"

end Cnl.ScaledReps
