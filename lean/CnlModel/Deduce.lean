import CnlModel.Parse
import CnlModel.Elastic
/-!
# CnlModel.Deduce — `from_value` and class template argument deduction (property C15)

* `cnl::from_value<Archetype, Value>` (`_impl/num_traits/from_value.h`, `_impl/scaled_integer/num_traits.h`,
  `_impl/elastic_integer/from_value.h`, `_impl/wrapper/from_value.h`, `elastic_tag/deduction.h`,
  `wide_tag/custom_operator.h`, `custom_operator/homogeneous_deduction_tag_base.h`) for an initializer that is a
  run-time value of a built-in integer type or a `constant<V>`, for every archetype of the type grammar `Cnl.Ty`
  (built-in, `scaled_integer` of any radix, `elastic_integer`, `wide_integer`, `overflow_integer`,
  `rounding_integer`, nests).
* class template argument deduction: the deduction guides of `cnl::fraction` (`_impl/fraction/definition.h`) and
  the alias templates `scaled_integer`, `elastic_integer`, `overflow_integer`, `rounding_integer`, `wide_integer`,
  `static_integer`, which have **no** guide: `T{v}` is `T<>{v}`, the default template arguments.

Lean core only.
-/
namespace Cnl.Deduce
open Cnl Cnl.Parse

/-- an initializer: a run-time value of a built-in type, or `constant<V>` -/
inductive Init where
  | val (S : IntTy) (v : Int)
  | const (v : Int)
deriving Repr, DecidableEq

def Init.value : Init → Int
  | .val _ v => v
  | .const v => v

/-- `set_width_t<S, width<N>>` for built-in types: the width of `N`, the signedness of `S` -/
def setWidth (S N : IntTy) : IntTy := ⟨N.bits, S.signed⟩

/-! ## `from_value<Archetype, S>` for a built-in `S` -/

/-- deduced type and its representation -/
def fromValueTy : Ty → IntTy → Option (Ty × IntTy)
  | .int _, S => some (.int S, S)
  -- `scaled_integer<Value, power<0, Radix>>`: the archetype's radix is kept, its exponent is not
  | .sc _ _ x, S => some (.sc (.int S) 0 x, S)
  -- `elastic_integer<digits_v<Value>, set_width_t<Value, width<Narrowest>>>`
  | .el _ (.int N), S =>
    (Elastic.repTy S.digits (setWidth S N)).map fun r => (.el S.digits (.int (setWidth S N)), r)
  -- `deduction<wide_tag<…>, Initializer>`: tag as for elastic, the representation is the initializer's type
  | .wd _ (.int N), S => some (.wd S.digits (.int (setWidth S N)), S)
  -- homogeneous tags: `wrapper<Initializer, Tag>`
  | .ov _ t, S => some (.ov (.int S) t, S)
  | .rd _ m, S => some (.rd (.int S) m, S)
  | _, _ => none

/-! ## `from_value<Archetype, constant<V>>` -/

/-- `from_value<Number, constant<V>>` for a built-in `Number`:
`set_digits_t<set_signedness_t<Number, true>, max(digits_v<int>, used_digits(V))>` -/
def fromConstInt (v : Int) : Res Made :=
  match builtinSigned (max 31 (usedDigits v)) with
  | some t => .ok ⟨.int t, .builtin t, v⟩
  | none => .ill "no such integer"

def fromValueConst : Ty → Int → Res Made
  | .int _, v => fromConstInt v
  -- radix 2 whatever the archetype's radix: `power<trailing_bits(V)>`
  | .sc _ _ _, v => makeScaledInteger v
  | .el _ _, v => makeElasticInteger v
  -- `make_wrapper<Tag>(from_value<Rep>(constant<V>{}))`
  | .ov r t, v => fromValueConst r v >>= fun m => .ok ⟨.ov m.ty t, m.rep, m.value⟩
  | .rd r md, v => fromValueConst r v >>= fun m => .ok ⟨.rd m.ty md, m.rep, m.value⟩
  -- the same for `wide_tag` over a built-in representation: the tag is kept, the representation is deduced
  | .wd d n, v => if d ≤ 127 then fromConstInt v >>= fun m => .ok ⟨.wd d n, m.rep, m.value⟩
                  else .ill "from_value<uintwide_t, constant>"
  | _, _ => .ill "no from_value"

def fromValue (A : Ty) : Init → Res Made
  | .val S v => match fromValueTy A S with
    | some (t, r) => .ok ⟨t, .builtin r, v⟩
    | none => .ill "no from_value"
  | .const v => fromValueConst A v

/-- exponent and radix that a result type applies to the value of its innermost representation -/
def scaleOf : Ty → Int × Nat
  | .sc _ e x => (e, x)
  | .ov r _ => scaleOf r
  | .rd r _ => scaleOf r
  | _ => (0, 2)

/-! ## class template argument deduction -/

/-- `fraction(Integer) -> fraction<Integer>` -/
def fractionGuideInt (S : IntTy) : Ty := .fr (.int S) (.int S)

/-- `fraction(F) -> fraction<set_width_t<int, sizeof(F) * CHAR_BIT>>` for `float`, `double`, x87 `long double`
(`sizeof` 4, 8, 16), keyed by the significand precision of the format -/
def fractionGuideFloat (prec : Nat) : Option IntTy :=
  if prec = 24 then some i32 else if prec = 53 then some i64 else if prec = 64 then some i128 else none

/-- the alias templates without a deduction guide -/
inductive Alias where
  | scaled | elastic | overflow | rounding | wide | staticInt
deriving Repr, DecidableEq

/-- `Alias<>`: the default template arguments -/
def Alias.ty : Alias → Ty
  | .scaled => .sc (.int i32) 0 2
  | .elastic => .el 31 (.int i32)
  | .overflow => .ov (.int i32) .und
  | .rounding => .rd (.int i32) .nrst
  | .wide => .wd 31 (.int i32)
  | .staticInt => staticIntegerTy 31

/-- `Alias{init}`: the initializer is converted to the `int` representation of `Alias<>`; the overflow layers
test it (an initializer type with no more digits than the destination is not tested), the others wrap -/
def ctadAlias (a : Alias) (init : Init) : Res Made :=
  let v := init.value
  let tested : Bool := match init with
    | .val S _ => decide ((promote S).digits > 31)
    | .const _ => true
  match a with
  | .overflow =>
    if v > i32.max then .trap true else if v < i32.lowest then .trap false else .ok ⟨a.ty, .builtin i32, v⟩
  | .staticInt => (if tested then staticInit 31 v else .ok v) >>= fun x => .ok ⟨a.ty, .builtin i32, i32.wrap x⟩
  | _ => .ok ⟨a.ty, .builtin i32, i32.wrap v⟩

end Cnl.Deduce
