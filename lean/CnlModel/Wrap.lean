import CnlModel.Elastic
import CnlModel.Ty
/-!
# `wrap` / `unwrap`, `from_rep` / `to_rep`  (`_impl/num_traits/{wrap,unwrap,from_rep,to_rep}.h`,
`wrapper/from_rep.h`, `scaled_integer/from_rep.h`, `elastic_integer/{from_rep,set_rep}.h`)

A number of the model is its type descriptor and the value of the innermost built-in representation, so the four
functions only change the descriptor — except where the code converts the value into a representation type that is
fixed by the archetype (`elastic_integer` chooses its own storage): there the conversion is the built-in one and the
value survives exactly when it fits.

* `cnl::wrap<Number>(rep)`: a non-composite `Number` returns `rep` itself (type `Rep`, NOT `Number`); a composite
  one returns `from_rep<Number>(wrap<rep_of_t<Number>>(rep))`, and `from_rep` of a wrapper / scaled_integer
  *rebinds* the representation type (`set_rep_t`), so the whole nest is rebuilt around the type of the argument.
  `set_rep<elastic_integer<D, N>, Rep>` is `elastic_integer<D, adopt_width_t<Rep, N>>`: the narrowest type keeps its
  width and adopts the signedness of `Rep`; the value is converted to the storage type of that elastic_integer.
* `cnl::unwrap(n)`: `to_rep` all the way down.
-/
namespace Cnl.Wrap
open Cnl

/-- the built-in type `unwrap` returns: the innermost representation; `elastic_integer<D, N>` stores
`Elastic.repTy D N`.  (`wide_integer`, floating point and fractions are outside this model.) -/
def leafTy : Ty → Option IntTy
  | .int T => some T
  | .sc r _ _ => leafTy r
  | .ov r _ => leafTy r
  | .rd r _ => leafTy r
  | .el d (.int n) => Elastic.repTy d n
  | _ => none

/-- the nest `wrap<T>` builds around an argument of built-in type `R` -/
def rebind : Ty → IntTy → Ty
  | .int _, R => .int R
  | .sc r e x, R => .sc (rebind r R) e x
  | .ov r t, R => .ov (rebind r R) t
  | .rd r m, R => .rd (rebind r R) m
  | .el d (.int n), R => .el d (.int ⟨n.bits, R.signed⟩)
  | t, _ => t

/-- `cnl::wrap<T>(r)` -/
def wrap (T : Ty) (r : TV) : Option Num :=
  let T' := rebind T r.1
  (leafTy T').map fun L => (T', (convert L r).2)

/-- `cnl::unwrap(x)` -/
def unwrap (x : Num) : Option TV := (leafTy x.1).map fun L => (L, x.2)

/-- `_impl::from_rep<T>(r)` for a built-in `r`: one layer of `T` around the type of `r` -/
def fromRep (T : Ty) (r : TV) : Option Num :=
  match T with
  | .int N => some (.int N, (convert N r).2)      -- `from_rep<integral>`: a static_cast
  | .sc _ e x => some (.sc (.int r.1) e x, r.2)
  | .ov _ t => some (.ov (.int r.1) t, r.2)
  | .rd _ m => some (.rd (.int r.1) m, r.2)
  | .el d (.int n) =>
    let N : IntTy := ⟨n.bits, r.1.signed⟩
    (Elastic.repTy d N).map fun L => (.el d (.int N), (convert L r).2)
  | _ => none

/-- `_impl::to_rep(x)` where the representation is a built-in integer -/
def toRep (x : Num) : Option TV :=
  match x.1 with
  | .int N => some (N, x.2)                        -- a built-in integer is its own representation
  | .sc (.int R) _ _ => some (R, x.2)
  | .ov (.int R) _ => some (R, x.2)
  | .rd (.int R) _ => some (R, x.2)
  | .el d (.int n) => (Elastic.repTy d n).map fun L => (L, x.2)
  | _ => none

/-- nests of `scaled_integer` / `overflow_integer` / `rounding_integer` over a built-in integer -/
def PureNest : Ty → Prop
  | .int _ => True
  | .sc r _ _ => PureNest r
  | .ov r _ => PureNest r
  | .rd r _ => PureNest r
  | _ => False

end Cnl.Wrap
