import CnlModel.Ty
/-!
# cnl::sqrt — `_impl/cmath/sqrt.h`, `_impl/elastic_integer/sqrt.h`, `_impl/scaled_integer/sqrt.h`

The integer overload is the binary digit-by-digit square root

    CNL_ASSERT(x >= Integer{0});
    auto root = +Integer{0};
    auto bit = Integer{1} << ((digits_v<Integer> - 1) & ~1);
    auto num = decltype(root + bit){x};
    while (bit > num) bit >>= 2;
    while (bit) {
        if (num >= root + bit) { num -= root + bit; root = (root >> 1) + bit; }
        else root >>= 1;
        bit >>= 2;
    }
    return root;

transcribed statement by statement over `CnlModel.CInt`: every `+ - << >> >=` is the built-in
operator (`cBin`, `cCmp`) on typed values, so the promotion of narrow operands, the type
`decltype(root + bit)` and any overflow / bad shift count are *values* of the model (`Res.ub`).
The two `while` loops carry explicit fuel (`digits + 2`, more than either loop can use); running
out of fuel is the value `Res.diverges`, so "terminates" is a theorem about the model and not an
assumption of it.  `digits_v<Integer>` (`D`) and the integer type are arguments.

The elastic_integer overload computes on the representation and re-wraps with `(Digits+1)/2`
digits; the scaled_integer overload requires an even exponent and re-wraps at half of it.
Lean core only (the driver links this file).
-/
namespace Cnl.Sqrt
open Cnl

/-- `(digits_v<Integer> - 1) & ~1`, a constant expression in `int`: the largest even number not
above `digits − 1`.  (`CnlProofs.Sqrt.startShift_cint` checks this closed form against the
`CInt` evaluation of the C++ expression.) -/
def startShift (D : Nat) : Nat := (D - 1) - (D - 1) % 2

/-- the same constant evaluated operator by operator as C++ does, in `int` -/
def startShiftC (D : Nat) : Res TV := do
  let a ← cBin .sub (i32, (D : Int)) (i32, 1)
  let m ← cNot (i32, 1)
  cBin .band a m

/-- `while (bit > num) bit >>= 2;` -/
def loop1 (num : TV) : Nat → TV → Res TV
  | 0, _ => .diverges
  | f+1, bit =>
    if cCmp .gt bit num then do
      let b ← cBin .shr bit (i32, 2)
      loop1 num f (convert bit.1 b)
    else .ok bit

/-- `while (bit) { … }`; arguments are the variables `bit`, `num`, `root` -/
def loop2 : Nat → TV → TV → TV → Res TV
  | 0, _, _, _ => .diverges
  | f+1, bit, num, root =>
    if bit.2 ≠ 0 then do
      let s ← cBin .add root bit                     -- root + bit   (condition)
      if cCmp .ge num s then do
        let s' ← cBin .add root bit                  -- root + bit   (evaluated again)
        let d ← cBin .sub num s'                     -- num -= root + bit
        let h ← cBin .shr root (i32, 1)              -- root >> 1
        let r ← cBin .add h bit                      -- (root >> 1) + bit
        let b ← cBin .shr bit (i32, 2)               -- bit >>= 2
        loop2 f (convert bit.1 b) (convert num.1 d) (convert root.1 r)
      else do
        let h ← cBin .shr root (i32, 1)              -- root >>= 1
        let b ← cBin .shr bit (i32, 2)               -- bit >>= 2
        loop2 f (convert bit.1 b) num (convert root.1 h)
    else .ok root

/-- `cnl::sqrt(Integer const& x)` for an integer type `T` whose `digits_v` is `D`.
For built-in types `D = T.digits`; for `wide_integer<D, _>` `T` is the storage type. -/
def sqrtWith (D : Nat) (T : IntTy) (x : Int) : Res TV :=
  if cCmp .ge (T, x) (T, 0) then do
    let root ← cPos (T, 0)
    let bit ← cBin .shl (T, 1) (i32, (startShift D : Int))
    let num := convert (binResultTy .add root.1 bit.1) (T, x)
    let bit ← loop1 num (D + 2) bit
    loop2 (D + 2) bit num root
  else .unreachable "sqrt.h assert: x >= Integer{0}"

/-- built-in integer of any width -/
def sqrtInt (T : IntTy) (x : Int) : Res TV := sqrtWith T.digits T x

/-! ## wrappers -/

/-- `set_digits_t<T, Digits>` for built-in `T` (`gnu++20`: 128-bit types enabled);
`none` = the `static_assert` "digits exceeds widest integer" -/
def setDigits (signed : Bool) (digits : Nat) : Option IntTy :=
  if signed then
    if digits ≤ 7 then some i8 else if digits ≤ 15 then some i16 else if digits ≤ 31 then some i32
    else if digits ≤ 63 then some i64 else if digits ≤ 127 then some i128 else none
  else
    if digits ≤ 8 then some u8 else if digits ≤ 16 then some u16 else if digits ≤ 32 then some u32
    else if digits ≤ 64 then some u64 else if digits ≤ 128 then some u128 else none

/-- `elastic_tag<Digits, Narrowest>::rep` -/
def elasticRep (D : Nat) (N : IntTy) : Option IntTy := setDigits N.signed (max N.digits D)

/-- `wide_tag<Digits, Narrowest>::rep` as an `IntTy`: a built-in type when the digits fit one,
otherwise `uintwide_t<ceil((Digits + signed) / limb) * limb, unsigned Narrowest, void, signed>` -/
def wideRep (D : Nat) (N : IntTy) : Option IntTy :=
  if D ≤ (if N.signed then 127 else 128) then setDigits N.signed (max N.digits D)
  else
    let minW := D + (if N.signed then 1 else 0)
    some ⟨(minW + N.bits - 1) / N.bits * N.bits, N.signed⟩

/-- `cnl::sqrt` on a number of type `t` whose innermost representation has value `x`.
* built-in integer: the algorithm above, result in the promoted type;
* `elastic_integer<D, N>`: `from_rep<elastic_integer<(D+1)/2, N>>(sqrt(to_rep(x)))`; `from_rep`
  makes the result's `Narrowest` adopt the signedness of the value it is given (`set_rep`,
  `adopt_width_t<Rep, Narrowest>`), and the constructor converts into the new representation;
* `wide_integer<D, N>` (storage of at least `int` width): the generic algorithm with
  `digits_v = D` on the storage type;
* `scaled_integer<Rep, power<e, radix>>`: `static_assert(!(e & 1))`, then
  `from_rep<scaled_integer<Rep, power<e/2, radix>>>(sqrt(to_rep(x)))` — the result's `Rep` is
  whatever `sqrt` of the representation returns;
* `overflow_integer<Rep, Tag>` / `rounding_integer<Rep, Mode>` (value level): these have no overload of
  their own; the generic algorithm runs with every `+ - << >> >= >` forwarded to the operator of
  `Rep` (for a checked tag preceded by the tag's overflow test of that one operation), and every
  intermediate type is the wrapper of the type the same expression has over `Rep`.  On the
  property's inputs no operation of the algorithm leaves the range of its type (`bit`, `root`,
  `root + bit ≤ num ≤ x`, `num - (root + bit) ≥ 0`), so no test fires, no rounding takes place
  (`>>` of a rounding_integer is the plain shift) and the result is the result over `Rep`,
  re-wrapped.  That no test fires is NOT derived inside the model: it is what the correspondence
  lines check (a `TRAP`/`THROW`/`UNREACHABLE` or a saturated value differs from the model and fails
  the oracle).  Where the computation over `Rep` is undefined (outside the property) a checked tag
  would report instead; that is left unmodelled (`ill`) and the harness does not emit such inputs. -/
def sqrtNum : Ty → Int → Res Num
  | .int T, x => (sqrtInt T x).map (fun r => (Ty.int r.1, r.2))
  | .el D (.int N), x =>
    match elasticRep D N with
    | none => .ill "elastic_integer: digits exceed the widest integer"
    | some R =>
      (sqrtInt R x) >>= fun r =>
        let D' := (D + 1) / 2
        let N' : IntTy := ⟨N.bits, r.1.signed⟩
        match elasticRep D' N' with
        | none => .ill "elastic_integer: digits exceed the widest integer"
        | some R' => .ok (Ty.el D' (.int N'), (convert R' r).2)
  | .wd D (.int N), x =>
    match wideRep D N with
    | none => .ill "wide_integer: no representation"
    | some R =>
      if R.bits < 32 then .ill "wide_integer with storage narrower than int: not modelled"
      else (sqrtWith D R x).map (fun r => (Ty.wd D (.int N), r.2))
  | .sc rep e radix, x =>
    if e % 2 ≠ 0 then .ill "static_assert(!(Exponent & 1))"
    else (sqrtNum rep x).map (fun r => (Ty.sc r.1 (e.tdiv 2) radix, r.2))
  | .ov rep tag, x =>
    match sqrtNum rep x with
    | .ub k => if tag = .nat then .ub k else .ill "overflow_integer: an overflow reported by the tag is not modelled"
    | r => r.map (fun r => (Ty.ov r.1 tag, r.2))
  | .rd rep mode, x => (sqrtNum rep x).map (fun r => (Ty.rd r.1 mode, r.2))
  | _, _ => .ill "sqrt: operand type outside the model"

end Cnl.Sqrt
