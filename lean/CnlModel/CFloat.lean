import CnlModel.CInt
/-!
# CnlModel.CFloat — parametric binary floating point (IEEE 754 round-to-nearest-even)

Everything the code under test does in `float`, `double` or (x87) `long double` bottoms out here.

* `Fmt = ⟨prec, emin, emax⟩`: significand bits, exponent of the smallest normal binade, exponent
  of the largest binade.  `binary32`, `binary64`, `x87ext` (prec 64) are the instances in use.
* `FVal`: a finite value `(-1)^neg · m · 2^e` (signed zero included: `m = 0`), `±∞`, or NaN.
  Every function of this file returns finite values in the **canonical form of the format**:
  `m < 2^prec`, `e ≥ f.qmin = emin − prec + 1`, and `m ≥ 2^(prec−1)` unless `e = qmin`
  (subnormals and zeros live at `e = qmin`).  Canonical values of one format are equal as
  `FVal`s iff they are the same floating-point datum (NaN payloads are not modelled), so
  `DecidableEq FVal` is bit equality and `fCmp .eq` is the C++ `==` (`-0 == +0`, `NaN ≠ NaN`).
* `Fmt.roundND f neg n d`: the value `±n/d` rounded to nearest, ties to even, with gradual
  underflow and overflow to `±∞`.  `Fmt.round : Fmt → Rat → FVal` is the same on a core `Rat`.
* operations = exact operation on the dyadic operands, then one rounding, with the IEEE special
  cases for `∞`, NaN, division by zero and the sign of an exact zero.
* `Fmt.ofInt` (int → float) is a rounding; `fToInt` (float → int) truncates toward zero and is
  `ub .floatToIntRange` when the truncated value does not fit the destination or the input is
  NaN/∞ ([conv.fpint]); `Fmt.cvt` is float → float conversion.

No `Rat` arithmetic is used internally (core's `Rat.add/mul` are irreducible): all functions are
structurally simple `Nat`/`Int` computations built from `Nat.log2`, `^`, `/`, `%`, so closed
instances reduce in the kernel (`decide +kernel`).  Lean core only; executable.
Validated bit-for-bit against g++/clang++ on x86-64 (SSE for float/double, x87 for long double)
by the `C17 cf …` correspondence table (`CnlDriver/C17.lean`, `harness/props/C17.h`).
-/
namespace Cnl

structure Fmt where
  prec : Nat
  emin : Int
  emax : Int
deriving DecidableEq, Repr

def binary32 : Fmt := ⟨24, -126, 127⟩
def binary64 : Fmt := ⟨53, -1022, 1023⟩
/-- x87 double-extended (64-bit significand, explicit integer bit) -/
def x87ext : Fmt := ⟨64, -16382, 16383⟩

inductive FVal where
  /-- `(-1)^neg · m · 2^e` -/
  | fin (neg : Bool) (m : Nat) (e : Int)
  | inf (neg : Bool)
  | nan
deriving DecidableEq, Repr, Inhabited

namespace Fmt
/-- exponent of the unit in the last place of subnormal numbers (the smallest quantum) -/
def qmin (f : Fmt) : Int := f.emin - ((f.prec : Int) - 1)
def zero (f : Fmt) (neg : Bool := false) : FVal := .fin neg 0 f.qmin
end Fmt

/-- `n/d` rounded to the nearest integer, ties to even (`d > 0`) -/
def roundHalfEven (n d : Nat) : Nat :=
  let q := n / d
  let r := n % d
  if 2 * r < d then q else if d < 2 * r then q + 1 else (if q % 2 = 0 then q else q + 1)

/-- `⌊log₂ (n/d)⌋` for `n, d > 0` -/
def ilog2Q (n d : Nat) : Int :=
  let e : Int := (n.log2 : Int) - (d.log2 : Int)
  let ok : Bool := if 0 ≤ e then decide (d * 2 ^ e.toNat ≤ n) else decide (d ≤ n * 2 ^ (-e).toNat)
  if ok then e else e - 1

namespace Fmt

/-- `(-1)^neg · n/d` rounded into the format (`d > 0`) -/
def roundND (f : Fmt) (neg : Bool) (n d : Nat) : FVal :=
  if n = 0 then .fin neg 0 f.qmin else
  let e0 := ilog2Q n d
  let e := if e0 < f.emin then f.emin else e0
  let sh : Int := e - ((f.prec : Int) - 1)
  let m := if 0 ≤ sh then roundHalfEven n (d * 2 ^ sh.toNat) else roundHalfEven (n * 2 ^ (-sh).toNat) d
  -- a significand rounded up to 2^prec moves to the next binade
  let m' := if m = 2 ^ f.prec then 2 ^ (f.prec - 1) else m
  let sh' := if m = 2 ^ f.prec then sh + 1 else sh
  if f.emax < sh' + ((f.prec : Int) - 1) then .inf neg else .fin neg m' sh'

/-- `(-1)^neg · m · 2^e` rounded into the format -/
def ofDyadic (f : Fmt) (neg : Bool) (m : Nat) (e : Int) : FVal :=
  if 0 ≤ e then f.roundND neg (m * 2 ^ e.toNat) 1 else f.roundND neg m (2 ^ (-e).toNat)

/-- round an exact rational into the format -/
def round (f : Fmt) (q : Rat) : FVal := f.roundND (decide (q.num < 0)) q.num.natAbs q.den

/-- `static_cast<F>(integer)` -/
def ofInt (f : Fmt) (v : Int) : FVal := f.roundND (decide (v < 0)) v.natAbs 1

/-- float → float conversion (`static_cast<F>(x)` from another format); exact when representable -/
def cvt (f : Fmt) : FVal → FVal
  | .fin neg m e => f.ofDyadic neg m e
  | x => x

/-- largest finite value -/
def maxFinite (f : Fmt) (neg : Bool := false) : FVal := .fin neg (2 ^ f.prec - 1) (f.emax - ((f.prec : Int) - 1))
/-- smallest positive normal value -/
def minNormal (f : Fmt) (neg : Bool := false) : FVal := .fin neg (2 ^ (f.prec - 1)) f.qmin
/-- smallest positive (subnormal) value -/
def minSubnormal (f : Fmt) (neg : Bool := false) : FVal := .fin neg 1 f.qmin

/-- the value is a canonical datum of the format -/
def Canonical (f : Fmt) : FVal → Bool
  | .fin _ m e => decide (m < 2 ^ f.prec) && decide (f.qmin ≤ e) && decide (e + ((f.prec : Int) - 1) ≤ f.emax)
                   && (decide (2 ^ (f.prec - 1) ≤ m) || decide (e = f.qmin))
  | _ => true
end Fmt

namespace FVal
def isNaN : FVal → Bool
  | nan => true
  | _ => false
def isInf : FVal → Bool
  | inf _ => true
  | _ => false
def isFinite : FVal → Bool
  | fin _ _ _ => true
  | _ => false
def isZero : FVal → Bool
  | fin _ 0 _ => true
  | _ => false
/-- sign bit (false for NaN) -/
def signBit : FVal → Bool
  | fin s _ _ => s
  | inf s => s
  | nan => false

/-- unary minus (exact; flips the sign of zeros and infinities) -/
def neg : FVal → FVal
  | fin s m e => fin (!s) m e
  | inf s => inf (!s)
  | nan => nan
def abs : FVal → FVal
  | fin _ m e => fin false m e
  | inf _ => inf false
  | nan => nan

/-- the exact value as a rational (none for ∞ and NaN) -/
def toRat? : FVal → Option Rat
  | fin s m e =>
    let a : Int := if s then -(m : Int) else m
    some (if 0 ≤ e then ((a * 2 ^ e.toNat : Int) : Rat) else mkRat a (2 ^ (-e).toNat))
  | _ => none

/-- the exact value as a fraction of integers `num / den`, `den > 0` (none for ∞ and NaN) -/
def toFrac? : FVal → Option (Int × Nat)
  | fin s m e =>
    let a : Int := if s then -(m : Int) else m
    some (if 0 ≤ e then (a * 2 ^ e.toNat, 1) else (a, 2 ^ (-e).toNat))
  | _ => none

/-- signed significand of a finite value scaled to the common quantum `2^q` (`q ≤ e`) -/
def scaled (s : Bool) (m : Nat) (e q : Int) : Int :=
  let a : Int := (m * 2 ^ (e - q).toNat : Nat)
  if s then -a else a

/-- three-way comparison; `none` when unordered (a NaN operand) -/
def cmp? : FVal → FVal → Option Ordering
  | nan, _ => none
  | _, nan => none
  | inf a, inf b => some (if a = b then .eq else if a then .lt else .gt)
  | inf a, fin _ _ _ => some (if a then .lt else .gt)
  | fin _ _ _, inf b => some (if b then .gt else .lt)
  | fin s1 m1 e1, fin s2 m2 e2 =>
    let q := if e1 ≤ e2 then e1 else e2
    let a := scaled s1 m1 e1 q
    let b := scaled s2 m2 e2 q
    some (if a < b then .lt else if a = b then .eq else .gt)
end FVal

/-- built-in floating comparisons (`NaN` makes everything but `!=` false; `-0 == +0`) -/
def fCmp (op : CmpOp) (x y : FVal) : Bool :=
  match x.cmp? y with
  | none => op == .ne
  | some o =>
    match op with
    | .lt => o == .lt
    | .le => o != .gt
    | .gt => o == .gt
    | .ge => o != .lt
    | .eq => o == .eq
    | .ne => o != .eq

namespace Fmt

/-- `x + y` -/
def add (f : Fmt) : FVal → FVal → FVal
  | .nan, _ => .nan
  | _, .nan => .nan
  | .inf a, .inf b => if a = b then .inf a else .nan
  | .inf a, .fin _ _ _ => .inf a
  | .fin _ _ _, .inf b => .inf b
  | .fin s1 m1 e1, .fin s2 m2 e2 =>
    let q := if e1 ≤ e2 then e1 else e2
    let c := FVal.scaled s1 m1 e1 q + FVal.scaled s2 m2 e2 q
    -- an exact zero sum is +0 under round-to-nearest unless both operands are negative (zeros)
    if c = 0 then .fin (s1 && s2) 0 f.qmin else f.ofDyadic (decide (c < 0)) c.natAbs q

/-- `x - y` -/
def sub (f : Fmt) (x y : FVal) : FVal := f.add x y.neg

/-- `x * y` -/
def mul (f : Fmt) : FVal → FVal → FVal
  | .nan, _ => .nan
  | _, .nan => .nan
  | .inf a, .inf b => .inf (a != b)
  | .inf a, .fin s m _ => if m = 0 then .nan else .inf (a != s)
  | .fin s m _, .inf b => if m = 0 then .nan else .inf (s != b)
  | .fin s1 m1 e1, .fin s2 m2 e2 => f.ofDyadic (s1 != s2) (m1 * m2) (e1 + e2)

/-- `x / y` (division by zero is defined in IEEE arithmetic: `±∞`, or NaN for `0/0`) -/
def div (f : Fmt) : FVal → FVal → FVal
  | .nan, _ => .nan
  | _, .nan => .nan
  | .inf _, .inf _ => .nan
  | .inf a, .fin s _ _ => .inf (a != s)
  | .fin s _ _, .inf b => .fin (s != b) 0 f.qmin
  | .fin s1 m1 e1, .fin s2 m2 e2 =>
    if m2 = 0 then (if m1 = 0 then .nan else .inf (s1 != s2))
    else
      let k := e1 - e2
      if 0 ≤ k then f.roundND (s1 != s2) (m1 * 2 ^ k.toNat) m2
      else f.roundND (s1 != s2) m1 (m2 * 2 ^ (-k).toNat)

end Fmt

/-- the integer part of a finite value (truncation toward zero) -/
def truncInt (s : Bool) (m : Nat) (e : Int) : Int :=
  let a : Nat := if 0 ≤ e then m * 2 ^ e.toNat else m / 2 ^ (-e).toNat
  if s then -(a : Int) else a

/-- a mathematical integer as a value of `t`, undefined when it does not fit -/
def intoRange (t : IntTy) (v : Int) : Res Int := if t.InRange v then .ok v else .ub .floatToIntRange

/-- `static_cast<T>(x)` for a floating `x`: truncation toward zero; undefined when the truncated
value is not representable in `T` or `x` is NaN/∞ -/
def fToInt (t : IntTy) : FVal → Res Int
  | .fin s m e => intoRange t (truncInt s m e)
  | _ => .ub .floatToIntRange

/-- floating operators by name (shared with the integer `BinOp`; only `+ - * /` exist) -/
def fBin (f : Fmt) (op : BinOp) (x y : FVal) : Option FVal :=
  match op with
  | .add => some (f.add x y)
  | .sub => some (f.sub x y)
  | .mul => some (f.mul x y)
  | .div => some (f.div x y)
  | _ => none

/-! ### sanity checks (kernel-evaluated) -/
example : binary32.round (1/10 : Rat) = .fin false 13421773 (-27) := by decide +kernel
example : binary32.ofInt 16777217 = .fin false 8388608 1 := by decide +kernel
example : binary32.ofDyadic false 1 (-150) = .fin false 0 (-149) := by decide +kernel   -- tie to even → 0
example : binary32.ofDyadic false 3 (-150) = .fin false 2 (-149) := by decide +kernel
example : binary32.ofDyadic false (2^24 - 1) 104 = binary32.maxFinite := by decide +kernel
example : binary32.ofDyadic false (2^25 - 1) 103 = .inf false := by decide +kernel
example : binary64.div (binary64.ofInt 1) (binary64.ofInt 3) = .fin false 6004799503160661 (-54) := by decide +kernel
example : binary32.div (binary32.ofInt (-1)) (binary32.zero) = .inf true := by decide +kernel
example : binary32.sub (binary32.ofInt 5) (binary32.ofInt 5) = binary32.zero := by decide +kernel
example : fToInt i8 (binary32.ofDyadic true 257 (-1)) = .ok (-128) := by decide +kernel   -- -128.5
example : fToInt i8 (binary32.ofDyadic true 129 0) = .ub .floatToIntRange := by decide +kernel
example : fToInt i8 (binary32.ofDyadic true 257 (-2)) = .ok (-64) := by decide +kernel
example : fToInt u8 (binary32.ofDyadic true 1 (-1)) = .ok 0 := by decide +kernel

end Cnl
