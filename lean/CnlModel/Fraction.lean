import CnlModel.CInt
/-!
# CnlModel.Fraction — what `cnl::fraction` does (property C16)

A `fraction<Numerator, Denominator>` over built-in integer types is a pair of typed values.
Every operator of `_impl/fraction/operators.h`, `reduce.h`, `canonical.h`, `gcd.h`, `hash.h`,
`abs.h`, the converting constructor of `ctors.h` and the floating-point conversion operator of
`definition.h` is transcribed expression by expression into `CnlModel.CInt` arithmetic, so integral
promotion, the usual arithmetic conversions, unsigned wrap-around and signed overflow (`ub`) are
*values* of the model; the component types of the result fraction are part of the result
(`make_fraction` deduces them from the promoted expressions).  Widths are arguments.

`std::gcd` follows libstdc++ 12 (`__abs_r` into the common type, Stein's algorithm on the unsigned
type — taken as `Nat.gcd` —, result converted back to the common type), so the model also predicts
what happens outside `std::gcd`'s precondition (`|lowest|` not representable).
`std::hash` of the components is a parameter: the theorems hold for every hash function.

The order operators are modelled after the repair `fix: fraction order operators honour the sign
of the denominators` (the comparison of the cross products is mirrored when exactly one
denominator is negative); `cmpUnrepaired` keeps the expression of the unrepaired code for the
record of the defect (findings/C16.json).

Lean core only (core `Rat` is used for the idealised quotient of the floating-point conversion).
-/
namespace Cnl.Fraction
open Cnl

/-- `cnl::fraction<nt, dt>{n, d}` -/
structure Frac where
  nt : IntTy
  dt : IntTy
  n : Int
  d : Int
deriving DecidableEq, Repr

namespace Frac
/-- `f.numerator` as a typed value -/
def num (a : Frac) : TV := (a.nt, a.n)
/-- `f.denominator` as a typed value -/
def den (a : Frac) : TV := (a.dt, a.d)
end Frac

/-- `_impl::make_fraction(n, d)`: component types deduced from the arguments -/
def mk (n d : TV) : Frac := ⟨n.1, d.1, n.2, d.2⟩

/-! ## operators.h — arithmetic -/

/-- `operator+(fraction)`: `make_fraction(+rhs.numerator, +rhs.denominator)` -/
def pos (a : Frac) : Res Frac := do
  let n ← cPos a.num
  let d ← cPos a.den
  pure (mk n d)

/-- `operator-(fraction)`: `make_fraction(-rhs.numerator, rhs.denominator)` (denominator not promoted) -/
def neg (a : Frac) : Res Frac := do
  let n ← cNeg a.num
  pure (mk n a.den)

/-- `lhs.numerator * rhs.denominator + rhs.numerator * lhs.denominator` over `lhs.denominator * rhs.denominator` -/
def add (a b : Frac) : Res Frac := do
  let x ← cBin .mul a.num b.den
  let y ← cBin .mul b.num a.den
  let s ← cBin .add x y
  let d ← cBin .mul a.den b.den
  pure (mk s d)

/-- `lhs.numerator * rhs.denominator - rhs.numerator * lhs.denominator` over `lhs.denominator * rhs.denominator` -/
def sub (a b : Frac) : Res Frac := do
  let x ← cBin .mul a.num b.den
  let y ← cBin .mul b.num a.den
  let s ← cBin .sub x y
  let d ← cBin .mul a.den b.den
  pure (mk s d)

/-- `lhs.numerator * rhs.numerator` over `lhs.denominator * rhs.denominator` -/
def mul (a b : Frac) : Res Frac := do
  let n ← cBin .mul a.num b.num
  let d ← cBin .mul a.den b.den
  pure (mk n d)

/-- `lhs.numerator * rhs.denominator` over `lhs.denominator * rhs.numerator` -/
def div (a b : Frac) : Res Frac := do
  let n ← cBin .mul a.num b.den
  let d ← cBin .mul a.den b.num
  pure (mk n d)

/-! ## operators.h — comparison -/

/-- `f.denominator < Denominator{}` -/
def negDen (a : Frac) : Bool := cCmp .lt a.den (a.dt, 0)

/-- the comparison applied to the cross products when exactly one denominator is negative -/
def mirror : CmpOp → CmpOp
  | .lt => .gt
  | .gt => .lt
  | .le => .ge
  | .ge => .le
  | .eq => .eq
  | .ne => .ne

/-- the six comparison operators: `lhs.numerator * rhs.denominator ⋈ rhs.numerator * lhs.denominator`;
for `< > <= >=` (repaired code) `⋈` is mirrored when
`(lhs.denominator < LhsDenominator{}) != (rhs.denominator < RhsDenominator{})` -/
def cmp (op : CmpOp) (a b : Frac) : Res Bool := do
  let x ← cBin .mul a.num b.den
  let y ← cBin .mul b.num a.den
  pure (cCmp (if (negDen a != negDen b) then mirror op else op) x y)

/-- the comparison operators as the unrepaired tree wrote them (no regard to denominator signs) -/
def cmpUnrepaired (op : CmpOp) (a b : Frac) : Res Bool := do
  let x ← cBin .mul a.num b.den
  let y ← cBin .mul b.num a.den
  pure (cCmp op x y)

/-! ## gcd.h, reduce.h, canonical.h -/

/-- `std::common_type_t<M, N>` of two integer types: the type of `false ? m : n` -/
def commonType (a b : IntTy) : IntTy := if a = b then a else usualArith a b

/-- libstdc++ `__detail::__abs_r<C>(val)`: `val >= 0 ? val : -static_cast<C>(val)`, returned as `C` -/
def absR (C : IntTy) (x : TV) : Res TV :=
  if cCmp .ge x (i32, 0) then pure (convert C x)
  else do
    let r ← cNeg (convert C x)
    pure (convert C r)

/-- `_impl::gcd(f)` = `std::gcd(f.numerator, f.denominator)` (libstdc++: magnitudes in the common type,
binary gcd on its unsigned counterpart, result converted back) -/
def gcd (a : Frac) : Res TV := do
  let C := commonType a.nt a.dt
  let m ← absR C a.num
  let n ← absR C a.den
  pure (C, C.wrap (Int.ofNat (Nat.gcd (bitPattern C m.2) (bitPattern C n.2))))

/-- `reduce_from_gcd(f, gcd(f))`: `make_fraction(f.numerator / gcd, f.denominator / gcd)` -/
def reduce (a : Frac) : Res Frac := do
  let g ← gcd a
  let n ← cBin .div a.num g
  let d ← cBin .div a.den g
  pure (mk n d)

/-- `negated(f)`: `make_fraction(-rhs.numerator, -rhs.denominator)` -/
def negated (a : Frac) : Res Frac := do
  let n ← cNeg a.num
  let d ← cNeg a.den
  pure (mk n d)

/-- `canonical_from_reduce(reduce(f))`: `(f.denominator < static_cast<Denominator>(0.)) ? negated(f) : f` -/
def canonical (a : Frac) : Res Frac := do
  let r ← reduce a
  if cCmp .lt r.den (r.dt, 0) then negated r else pure r

/-! ## ctors.h, hash.h -/

/-- converting constructor `fraction<nt, dt>(fraction<…> const& f)`:
`fraction(static_cast<Numerator>(f.numerator), static_cast<Numerator>(f.denominator))` — the denominator
passes through the *numerator* type before it is converted to the denominator type -/
def convertTo (nt dt : IntTy) (f : Frac) : Frac :=
  ⟨nt, dt, nt.wrap f.n, dt.wrap (nt.wrap f.d)⟩

/-- `cnl::rotl(d, width<size_t> / 2)` on a `w`-bit word (`w` even, `d < 2^w`) -/
def rotlHalf (w : Nat) (x : Nat) : Nat := ((x <<< (w / 2)) % 2 ^ w) ||| (x >>> (w - w / 2))

/-- `from_canonical_hashes(n, d)`: `n ^ rotl(d, width/2)` -/
def combine (w : Nat) (n d : Nat) : Nat := n ^^^ rotlHalf w d

/-- `std::hash<fraction<nt, dt>>{}(value)`: `from_canonical(canonical(value))`; the canonical form
(of promoted component types) is converted back to `fraction<nt, dt>` at the call;
`hn`, `hd` are `std::hash<Numerator>`, `std::hash<Denominator>` — arbitrary functions -/
def hashWith (w : Nat) (hn hd : Int → Nat) (a : Frac) : Res Nat := do
  let c ← canonical a
  let v := convertTo a.nt a.dt c
  pure (combine w (hn v.n) (hd v.d))

/-- libstdc++ `std::hash<Integer>`: `static_cast<size_t>(v)` -/
def stdHashInt (w : Nat) (v : Int) : Nat := (v % 2 ^ w).toNat

/-! ## abs.h -/

/-- `_impl::abs(value)`: `static_cast<T>((value < 0) ? -value : +value)`; identity for unsigned `T` -/
def absC (x : TV) : Res TV :=
  if x.1.signed then do
    let r ← (if cCmp .lt x (i32, 0) then cNeg x else cPos x)
    pure (convert x.1 r)
  else pure x

/-- `_impl::abs(f)`: `make_fraction(abs(f.numerator), abs(f.denominator))` -/
def abs (a : Frac) : Res Frac := do
  let n ← absC a.num
  let d ← absC a.den
  pure (mk n d)

/-! ## definition.h — conversion to floating point

`static_cast<Scalar>(numerator) / static_cast<Scalar>(denominator)`.  `toScalarExact` is that expression
over an exact scalar; `toFloat prec` is the same with every step rounded to nearest-even at `prec`
significand bits (exponent range not modelled: for components of at most 64 bits neither overflow
nor subnormals occur in binary32/64/x87). -/

def toScalarExact (a : Frac) : Rat := (a.n : Rat) / (a.d : Rat)

/-- a floating-point value: `± m · 2^e` (normalised: `m` odd, or `m = 0 ∧ e = 0`), infinities, NaN -/
inductive FVal where
  | fin (neg : Bool) (m : Nat) (e : Int)
  | inf (neg : Bool)
  | nan
deriving DecidableEq, Repr

/-- strip trailing zero bits (at most `fuel` of them) -/
def normOdd : Nat → Nat → Int → Nat × Int
  | 0, m, e => (m, e)
  | fuel + 1, m, e => if m ≠ 0 ∧ m % 2 = 0 then normOdd fuel (m / 2) (e + 1) else (m, e)

/-- `n / d` (`n, d > 0`) rounded to nearest, ties to even, at `prec` significand bits: `(m, e)`, value `m·2^e` -/
def roundDiv (prec : Nat) (n d : Nat) : Nat × Int :=
  -- scale so that the quotient lies in [2^(prec-1), 2^(prec+1))
  let e0 : Int := (Nat.log2 n : Int) - (Nat.log2 d : Int) - (prec : Int)
  let N := if e0 < 0 then n * 2 ^ e0.natAbs else n
  let D := if e0 < 0 then d else d * 2 ^ e0.natAbs
  -- one more halving if the quotient has prec+1 bits; one less if it has only prec-1
  let (N, D, e) :=
    if N / D ≥ 2 ^ prec then (N, D * 2, e0 + 1)
    else if N / D < 2 ^ (prec - 1) then (N * 2, D, e0 - 1)
    else (N, D, e0)
  let q := N / D
  let r := N % D
  let q := if 2 * r > D ∨ (2 * r = D ∧ q % 2 = 1) then q + 1 else q
  normOdd (prec + 2) q e

/-- integer → floating point (`static_cast<Scalar>(v)`), as sign and `(m, e)` -/
def intToFloat (prec : Nat) (v : Int) : Bool × Nat × Int :=
  if v = 0 then (false, 0, 0)
  else let (m, e) := roundDiv prec v.natAbs 1; (decide (v < 0), m, e)

/-- `static_cast<Scalar>(numerator) / static_cast<Scalar>(denominator)` in IEEE arithmetic -/
def toFloat (prec : Nat) (a : Frac) : FVal :=
  let (sn, mn, en) := intToFloat prec a.n
  let (sd, md, ed) := intToFloat prec a.d
  if md = 0 then (if mn = 0 then .nan else .inf sn)
  else if mn = 0 then .fin (sn != sd) 0 0
  else
    let (m, e) := roundDiv prec mn md
    .fin (sn != sd) m (e + en - ed)

end Cnl.Fraction
