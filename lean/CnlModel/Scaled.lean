import CnlModel.Rep
/-!
# scaled_integer: `scaled/binary_operator.h`, `scaled/unary_operator.h`, `scaled_integer/operators.h`

A `scaled_integer<Rep, power<e, radix>>` with representation value `r` denotes `r · radix^e`.
The functions here follow the `custom_operator` specialisations expression by expression and
are written against `RepOps`, so the representation may itself be any CNL number.
-/
namespace Cnl.Scaled

/-- a scaled number as the operators see it: representation and exponent -/
structure SNum where
  rep : Num
  exp : Int
deriving Repr, DecidableEq

/-- `is_zero_degree`: operators whose operands must be brought to a common exponent -/
def isZeroDegree : BinOp → Bool
  | .mul | .div | .mod => false
  | _ => true

/-- exponent of the result of `op` on exponents `eL`, `eR` (`scaled/definition.h`) -/
def resultExp (op : BinOp) (eL eR : Int) : Int :=
  match op with
  | .mul => eL + eR
  | .div => eL - eR
  | .mod => eL
  | _ => min eL eR

/-- binary arithmetic operators between two scaled numbers of the same radix -/
def binOp (R : RepOps) (op : BinOp) (radix : Nat) (x y : SNum) : Res SNum :=
  if x.exp = y.exp ∨ !isZeroDegree op then do
    let r ← R.bin op x.rep y.rep
    pure ⟨r, resultExp op x.exp y.exp⟩
  else do
    let c := min x.exp y.exp
    let a ← R.scale (x.exp - c) radix x.rep
    let b ← R.scale (y.exp - c) radix y.rep
    let r ← R.bin op a b
    pure ⟨r, c⟩

/-- unary minus / plus / not act on the representation, exponent unchanged -/
def neg (R : RepOps) (x : SNum) : Res SNum := do
  let r ← R.neg x.rep
  pure ⟨r, x.exp⟩

/-- conversion between scaled numbers of the same radix (`scaled/convert_operator.h`,
integer source and destination): `static_cast<Result>(scale<eS - eD, Radix>(from))` -/
def convert (R : RepOps) (radix : Nat) (src : SNum) (dstRep : Ty) (dstExp : Int) : Res SNum :=
  if src.exp = dstExp then do
    -- `scale<0>` multiplies by `power_value<_, 0, _>() = 1`; the model elides that identity
    let r ← R.cast dstRep src.rep
    pure ⟨r, dstExp⟩
  else do
  let scaled ← R.scale (src.exp - dstExp) radix src.rep
  let r ← R.cast dstRep scaled
  pure ⟨r, dstExp⟩

/-- comparison (`scaled_integer/operators.h`): the operand with the larger exponent is converted
to the smaller exponent in the type `decltype(rep << constant<shift>)`, then the
representations are compared -/
def cmp (R : RepOps) (op : CmpOp) (radix : Nat) (x y : SNum) : Res Bool :=
  if x.exp = y.exp then R.cmp op x.rep y.rep
  else if x.exp < y.exp then do
    let y' ← convert R radix y (R.shlConstTy y.rep.1 (y.exp - x.exp).toNat) x.exp
    R.cmp op x.rep y'.rep
  else do
    let x' ← convert R radix x (R.shlConstTy x.rep.1 (x.exp - y.exp).toNat) y.exp
    R.cmp op x'.rep y.rep

end Cnl.Scaled
