import CnlModel.Rep
/-!
# scaled_integer: `scaled/binary_operator.h`, `scaled/unary_operator.h`, `scaled_integer/operators.h`

A `scaled_integer<Rep, power<e, radix>>` with representation value `r` denotes `r · radix^e`.
The functions here follow the `custom_operator` specialisations expression by expression and
are written against `RepOps`, so the representation may itself be any CNL number.
-/
namespace Cnl.Scaled

/-- a scaled number as the operators see it: representation and exponent -/
structure SNum where
  rep : Num
  exp : Int
deriving Repr, DecidableEq

/-- `is_zero_degree`: operators whose operands must be brought to a common exponent -/
def isZeroDegree : BinOp → Bool
  | .mul | .div | .mod => false
  | _ => true

/-- exponent of the result of `op` on exponents `eL`, `eR` (`scaled/definition.h`) -/
def resultExp (op : BinOp) (eL eR : Int) : Int :=
  match op with
  | .mul => eL + eR
  | .div => eL - eR
  | .mod => eL
  | _ => min eL eR

/-- binary arithmetic operators between two scaled numbers of the same radix -/
def binOp (R : RepOps) (op : BinOp) (radix : Nat) (x y : SNum) : Res SNum :=
  if x.exp = y.exp ∨ !isZeroDegree op then do
    let r ← R.bin op x.rep y.rep
    pure ⟨r, resultExp op x.exp y.exp⟩
  else do
    let c := min x.exp y.exp
    let a ← R.scale (x.exp - c) radix x.rep
    let b ← R.scale (y.exp - c) radix y.rep
    let r ← R.bin op a b
    pure ⟨r, c⟩

/-- unary minus / plus / not act on the representation, exponent unchanged -/
def neg (R : RepOps) (x : SNum) : Res SNum := do
  let r ← R.neg x.rep
  pure ⟨r, x.exp⟩

/-- conversion between scaled numbers of the same radix (`scaled/convert_operator.h`,
integer source and destination): `static_cast<Result>(scale<eS - eD, Radix>(from))` -/
def convert (R : RepOps) (radix : Nat) (src : SNum) (dstRep : Ty) (dstExp : Int) : Res SNum :=
  if src.exp = dstExp then do
    -- `scale<0>` multiplies by `power_value<_, 0, _>() = 1`; the model elides that identity
    let r ← R.cast dstRep src.rep
    pure ⟨r, dstExp⟩
  else do
  let scaled ← R.scale (src.exp - dstExp) radix src.rep
  let r ← R.cast dstRep scaled
  pure ⟨r, dstExp⟩

/-- comparison (`scaled_integer/operators.h`): the operand with the larger exponent is converted
to the smaller exponent in the type `decltype(rep << constant<shift>)`, then the
representations are compared -/
def cmp (R : RepOps) (op : CmpOp) (radix : Nat) (x y : SNum) : Res Bool :=
  if x.exp = y.exp then R.cmp op x.rep y.rep
  else if x.exp < y.exp then do
    let y' ← convert R radix y (R.shlConstTy y.rep.1 (y.exp - x.exp).toNat) x.exp
    R.cmp op x.rep y'.rep
  else do
    let x' ← convert R radix x (R.shlConstTy x.rep.1 (x.exp - y.exp).toNat) y.exp
    R.cmp op x'.rep y.rep

end Cnl.Scaled

namespace Cnl.Scaled

/-- `set_digits_t<T, need>` on built-in integers (same table as `Elastic.setDigits`) -/
def setDigitsInt (signed : Bool) (need : Nat) : Option IntTy :=
  let dig (b : Nat) : Nat := if signed then b - 1 else b
  if need ≤ dig 8 then some ⟨8, signed⟩
  else if need ≤ dig 16 then some ⟨16, signed⟩
  else if need ≤ dig 32 then some ⟨32, signed⟩
  else if need ≤ dig 64 then some ⟨64, signed⟩
  else if need ≤ dig 128 then some ⟨128, signed⟩
  else none

/-- `cnl::quotient(a, b)` for scaled integers over built-in representations, radix 2
(`scaled_integer/named.h`, the fraction conversion of `scaled/convert_operator.h`,
`fixed_width_scale.h`): the dividend is widened to `digits L + digits R` digits, shifted left by
`digits R` and divided by the divisor's representation; result exponent `eL - eR - digits R`. -/
def quotient (L : IntTy) (eL : Int) (R : IntTy) (eR : Int) (l r : Int) : Res (IntTy × Int × Int) :=
  let T := usualArith L R
  match setDigitsInt T.signed (max (L.digits + R.digits) T.digits) with
  | none => .ill "quotient: digits exceed the widest integer"
  | some D => do
    let num := Cnl.convert D (L, l)
    let p ← powerValueInt D R.digits 2
    let scaled ← cBin .mul num p
    let fixed := Cnl.convert D scaled        -- fixed_width_scale: static_cast<S>
    let q ← cBin .div fixed (R, r)
    pure (D, eL - eR - R.digits, (Cnl.convert D q).2)

end Cnl.Scaled
