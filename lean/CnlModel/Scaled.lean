import CnlModel.Rep
/-!
# scaled_integer: `scaled/binary_operator.h`, `scaled/unary_operator.h`, `scaled_integer/operators.h`

A `scaled_integer<Rep, power<e, radix>>` with representation value `r` denotes `r · radix^e`.
The functions here follow the `custom_operator` specialisations expression by expression and
are written against `RepOps`, so the representation may itself be any CNL number.
-/
namespace Cnl.Scaled

/-- a scaled number as the operators see it: representation and exponent -/
structure SNum where
  rep : Num
  exp : Int
deriving Repr, DecidableEq

/-- `is_zero_degree`: operators whose operands must be brought to a common exponent -/
def isZeroDegree : BinOp → Bool
  | .mul | .div | .mod => false
  | _ => true

/-- exponent of the result of `op` on exponents `eL`, `eR` (`scaled/definition.h`) -/
def resultExp (op : BinOp) (eL eR : Int) : Int :=
  match op with
  | .mul => eL + eR
  | .div => eL - eR
  | .mod => eL
  | _ => min eL eR

/-- binary arithmetic operators between two scaled numbers of the same radix -/
def binOp (R : RepOps) (op : BinOp) (radix : Nat) (x y : SNum) : Res SNum :=
  if x.exp = y.exp ∨ !isZeroDegree op then do
    let r ← R.bin op x.rep y.rep
    pure ⟨r, resultExp op x.exp y.exp⟩
  else do
    let c := min x.exp y.exp
    let a ← R.scale (x.exp - c) radix x.rep
    let b ← R.scale (y.exp - c) radix y.rep
    let r ← R.bin op a b
    pure ⟨r, c⟩

/-- unary minus / plus / not act on the representation, exponent unchanged -/
def neg (R : RepOps) (x : SNum) : Res SNum := do
  let r ← R.neg x.rep
  pure ⟨r, x.exp⟩

end Cnl.Scaled
