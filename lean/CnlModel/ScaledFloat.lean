import CnlModel.CFloat
import CnlModel.Scaled
/-!
# scaled_integer ↔ floating point (`scaled/convert_operator.h`, `power_value.h`)

`power_value<Float, E, Radix>()` is computed by repeated squaring in the floating type itself;
conversions multiply by it.  For radix 2 every step is exact.
-/
namespace Cnl.ScaledFloat
open Cnl

def fone (f : Fmt) : FVal := f.ofInt 1

/-- `power_value_fn<S, e, Radix>` for `e ≥ 0`, floating `S` (fuel ≥ e suffices) -/
def powPos (f : Fmt) (radix : Nat) : Nat → Nat → FVal
  | 0, _ => fone f
  | fuel+1, e =>
    if e = 0 then fone f
    else if e % 2 = 0 then
      let h := powPos f radix fuel (e / 2)
      f.mul h h
    else f.mul (f.ofInt (radix : Int)) (powPos f radix fuel (e - 1))

/-- `power_value<S, e, Radix>()` for floating `S` and any `e` -/
def powerValueF (f : Fmt) (radix : Nat) (e : Int) : FVal :=
  if e = 0 then fone f
  else if e > 0 then powPos f radix (e.toNat + 1) e.toNat
  else f.div (fone f) (powPos f radix ((-e).toNat + 1) (-e).toNat)

/-- scaled integer → floating point: `static_cast<Dest>(from) * power_value<Dest, eS, Radix>()` -/
def toFloat (f : Fmt) (radix : Nat) (rep : Int) (exp : Int) : FVal :=
  f.mul (f.ofInt rep) (powerValueF f radix exp)

/-- floating point → scaled integer with representation type `D` and exponent `eD`:
`static_cast<Result>(from * power_value<Input, -eD, Radix>())` -/
def fromFloat (f : Fmt) (radix : Nat) (D : IntTy) (eD : Int) (x : FVal) : Res Int :=
  fToInt D (f.mul x (powerValueF f radix (-eD)))

end Cnl.ScaledFloat
