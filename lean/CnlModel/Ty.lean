import CnlModel.CInt
/-!
# Type descriptors of CNL numbers

A CNL number type is a nest of wrappers around a built-in integer; a *number* of the model is
such a descriptor together with the value of the innermost representation.
-/
namespace Cnl

inductive OvTag where | nat | sat | thr | trp | und
deriving DecidableEq, Repr
inductive RdMode where | nat | nrst | tpi | ninf
deriving DecidableEq, Repr

inductive Ty where
  | int (t : IntTy)
  /-- floating point with `prec` significand bits (24, 53, 64) -/
  | flt (prec : Nat)
  /-- `elastic_integer<digits, narrowest>` -/
  | el (digits : Nat) (narrowest : Ty)
  /-- `wide_integer<digits, narrowest>` -/
  | wd (digits : Nat) (narrowest : Ty)
  /-- `overflow_integer<rep, tag>` -/
  | ov (rep : Ty) (tag : OvTag)
  /-- `rounding_integer<rep, mode>` -/
  | rd (rep : Ty) (mode : RdMode)
  /-- `scaled_integer<rep, power<exp, radix>>` -/
  | sc (rep : Ty) (exp : Int) (radix : Nat)
  /-- `fraction<n, d>` -/
  | fr (n : Ty) (d : Ty)
deriving DecidableEq, Repr, Inhabited

/-- a number: its type and the value of the innermost built-in representation -/
abbrev Num := Ty × Int

namespace Ty
def depth : Ty → Nat
  | int _ => 0
  | flt _ => 0
  | el _ n => depth n + 1
  | wd _ n => depth n + 1
  | ov r _ => depth r + 1
  | rd r _ => depth r + 1
  | sc r _ _ => depth r + 1
  | fr n _ => depth n + 1
end Ty

end Cnl
