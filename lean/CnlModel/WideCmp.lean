import CnlModel.Wide
/-!
# CnlModel.WideCmp — comparison of `cnl::wide_integer`s of *different* types

`wide_integer/custom_operator.h` has one `custom_operator` for the six comparisons of
`wide_integer<DL, NL>` with `wide_integer<DR, NR>` (different types).  What happens depends on the two
representations (`Wide.storage`):

* both built-in: the built-in comparison (usual arithmetic conversions) — `cCmp`;
* one built-in, one multi-limb `uintwide_t`: `uintwide_t`'s `IntegralType` overloads construct a
  `uintwide_t` of the *other* operand's type from the built-in value (`fromBuiltin`) and call the member
  comparison (`cmpOp`);
* both multi-limb of the same width and signedness: the same `uintwide_t` type, member comparison;
* both multi-limb of **different widths** (same limb type): since the first repair (98dcf83), both operands are
  `static_cast` to the wider of the two representations — for the narrower one that is the converting
  constructor `uintwide_t(const uintwide_t<OtherWidth2, LimbType, AllocatorType, OtherIsSigned>&)`
  (`widenCtor`: copy the limbs and fill with zeros; a negative value is negated first and negated again
  in the wider format) — and then compared by the member comparison of the wider type: `cmpMixedOrig2`;
* both multi-limb of the same width and different signedness, or over different limb types: ill-formed
  (ambiguous / no conversion) — before and after the repairs;
* **different signedness and at least one multi-limb representation** (second repair): before anything is
  converted, the operand of the signed type is tested, `to_rep(x) < 0` (`negTestMulti` = the member comparison
  with `uintwide_t(0)`; the built-in `<` for a single-word representation); a negative operand decides the
  comparison, `Operator()(-1, 0)` or `Operator()(0, -1)` (`lhsNegative`, `rhsNegative`).  Otherwise as above:
  `cmpMixed`, `wideCmp`.

**As found** (`cmpMixedOrig`): `Operator()(to_rep(lhs), to_rep(rhs))` on two `uintwide_t`s of different
widths selected the *member* comparison of the left operand; the right operand reached its parameter
`const uintwide_t&` through the implicit conversion `operator uintwide_t<OtherWidth2, …>()` (`castOp`),
which *narrows* when the right operand is the wider one: `wide_integer<200>{5} == wide_integer<300>{2^250 + 5}`.
Kernel-checked refutation: `CnlProperties/C03.lean` (`wide_mixed_width_unrepaired_refuted`).

**After the first repair** (`cmpMixedOrig2`, `wideCmpOrig2`): a negative operand converted to a wider *unsigned*
representation compared as a huge positive number: `wide_integer<200, int>{-1} < wide_integer<300, unsigned>{5}`
was false, and so was `wide_integer<20, int>{-1} < wide_integer<200, unsigned>{5}`.
Kernel-checked refutation: `CnlProperties/C03.lean` (`wide_mixed_signedness_unrepaired_refuted`).
Lean core only.
-/
namespace Cnl.Wide

/-- the converting constructor `uintwide_t<g.N,…>(const uintwide_t<f.N,…>&)` for `f.N < g.N` (same limb type,
any signedness): `sz` = the source's limb count -/
def widenCtor (f g : Fmt) (a : Limbs) : Limbs :=
  if !isNeg f a then a ++ zeros (g.n - a.length)
  else
    let uv := negate f.w a                         -- `const other_wide_integer_type uv(-v);`
    negate g.w (uv ++ zeros (g.n - uv.length))     -- copy, fill, `negate()`

/-- the converting constructor for `g.N < f.N` (narrowing): the low `g.n` limbs -/
def narrowCtor (f g : Fmt) (a : Limbs) : Limbs :=
  if !isNeg f a then a.take g.n
  else negate g.w ((negate f.w a).take g.n)

/-- `static_cast<uintwide_t<g.N,…>>(x)` for `x` of format `f`: a copy when the type is the same -/
def convTo (f g : Fmt) (a : Limbs) : Limbs :=
  if f = g then a else if f.N < g.N then widenCtor f g a else narrowCtor f g a

/-- the implicit conversion `operator uintwide_t<g.N, LimbType, AllocatorType, g.signed>() const` of a value of
format `f` (what the unrepaired comparison applied to its right operand) -/
def castOp (f g : Fmt) (a : Limbs) : Limbs :=
  let sz := if f.N < g.N then f.n else g.n
  if !isNeg f a then a.take sz ++ zeros (g.n - sz)
  else
    let uv := negate g.w (convTo f g a)            -- `other_wide_integer_type uv(*this); uv.negate();`
    negate g.w (uv.take sz ++ zeros (g.n - sz))

/-- the two multi-limb representations convert into one another: same limb type; same width ⇒ same type -/
def cmpWellFormed (f g : Fmt) : Bool := f.w == g.w && (f.N != g.N || f.signed == g.signed)

/-- comparison of two multi-limb `wide_integer`s after the first repair (98dcf83): in the wider representation -/
def cmpMixedOrig2 (f g : Fmt) (op : CmpOp) (a b : Limbs) : Res Bool :=
  if !cmpWellFormed f g then .ill "no (unambiguous) conversion between the two uintwide_t types"
  else if f.N = g.N then .ok (cmpOp f op a b)
  else
    let W := if f.N < g.N then g else f
    .ok (cmpOp W op (convTo f W a) (convTo g W b))

/-- `to_rep(x) < 0` for a multi-limb representation: `uintwide_t`'s `operator<(const uintwide_t&, const IntegralType&)`
constructs `uintwide_t(0)` of the same type and calls the member comparison -/
def negTestMulti (f : Fmt) (a : Limbs) : Bool := cmpOp f .lt a (fromBuiltin f i32 0)

/-- `Operator()(-1, 0)`: the left operand is negative, the right one of an unsigned type -/
def lhsNegative (op : CmpOp) : Bool := cCmp op (i32, -1) (i32, 0)
/-- `Operator()(0, -1)` -/
def rhsNegative (op : CmpOp) : Bool := cCmp op (i32, 0) (i32, -1)

/-- comparison of two multi-limb `wide_integer`s, as repaired: for different signedness a negative operand decides;
otherwise in the wider representation -/
def cmpMixed (f g : Fmt) (op : CmpOp) (a b : Limbs) : Res Bool :=
  if !cmpWellFormed f g then .ill "no (unambiguous) conversion between the two uintwide_t types"
  else if f.signed && !g.signed && negTestMulti f a then .ok (lhsNegative op)
  else if !f.signed && g.signed && negTestMulti g b then .ok (rhsNegative op)
  else if f.N = g.N then .ok (cmpOp f op a b)
  else
    let W := if f.N < g.N then g else f
    .ok (cmpOp W op (convTo f W a) (convTo g W b))

/-- the same **before** the repairs: the member comparison of the left operand, the right operand implicitly
converted to the left operand's type -/
def cmpMixedOrig (f g : Fmt) (op : CmpOp) (a b : Limbs) : Res Bool :=
  if !cmpWellFormed f g then .ill "no (unambiguous) conversion between the two uintwide_t types"
  else if f.N = g.N then .ok (cmpOp f op a b)
  else .ok (cmpOp f op a (castOp g f b))

/-- the limbs of the `f.N`-bit two's-complement pattern of `v` -/
def encode (f : Fmt) (v : Int) : Limbs := ofNat f.w f.n (v % 2^f.N).toNat

/-- `wide_integer<dl, nl> OP wide_integer<dr, nr>` (different types) on the values `l`, `r`, **before the second
repair**; `cmpMulti` = `cmpMixedOrig2` (first repair) or `cmpMixedOrig` (as found) -/
def wideCmpWith (cmpMulti : Fmt → Fmt → CmpOp → Limbs → Limbs → Res Bool)
    (dl : Nat) (nl : IntTy) (dr : Nat) (nr : IntTy) (op : CmpOp) (l r : Int) : Res Bool :=
  match storage dl nl, storage dr nr with
  | .builtin s, .builtin t => .ok (cCmp op (s, l) (t, r))
  | .builtin s, .multi g => .ok (cmpOp g op (fromBuiltin g s l) (encode g r))
  | .multi f, .builtin t => .ok (cmpOp f op (encode f l) (fromBuiltin f t r))
  | .multi f, .multi g => cmpMulti f g op (encode f l) (encode g r)

def wideCmpOrig := wideCmpWith cmpMixedOrig
def wideCmpOrig2 := wideCmpWith cmpMixedOrig2

/-- `wide_integer<dl, nl> OP wide_integer<dr, nr>` (different types) on the values `l`, `r`, as repaired: where a
multi-limb representation meets a representation of the other signedness, the sign of the signed operand is tested
first (`to_rep(x) < 0`: the built-in comparison with the `int` 0 for a single-word representation) -/
def wideCmp (dl : Nat) (nl : IntTy) (dr : Nat) (nr : IntTy) (op : CmpOp) (l r : Int) : Res Bool :=
  match storage dl nl, storage dr nr with
  | .builtin s, .builtin t => .ok (cCmp op (s, l) (t, r))
  | .builtin s, .multi g =>
    if s.signed && !g.signed && cCmp .lt (s, l) (i32, 0) then .ok (lhsNegative op)
    else if !s.signed && g.signed && negTestMulti g (encode g r) then .ok (rhsNegative op)
    else .ok (cmpOp g op (fromBuiltin g s l) (encode g r))
  | .multi f, .builtin t =>
    if f.signed && !t.signed && negTestMulti f (encode f l) then .ok (lhsNegative op)
    else if !f.signed && t.signed && cCmp .lt (t, r) (i32, 0) then .ok (rhsNegative op)
    else .ok (cmpOp f op (encode f l) (fromBuiltin f t r))
  | .multi f, .multi g => cmpMixed f g op (encode f l) (encode g r)

/-! ## a built-in integer on one side of a multi-limb `wide_integer` (`wide_tag/custom_operator.h`, `overloads.h`)

`int ⊗ wide_integer<D, N>`: the wrapper operators turn the built-in operand into a `wide_integer<digits(T), …>`
whose representation is the built-in value itself; the `custom_operator` for two `wide_tag`s then calls
`Operator{}(lhs, rhs)` on the two *representations* — `uintwide_t`'s `IntegralType` overloads, which construct a
`uintwide_t` of the wide operand's type from the built-in value (`fromBuiltin`) and use the member operator — and
`static_cast`s the result to the representation of the result tag: `max(LhsDigits, RhsDigits)` digits, narrowest type
of the width of `N`, signed if either operand is.  That conversion (`convTo`) is the identity unless a signed built-in
operand meets an unsigned `wide_integer`: then the unsigned `f.N`-bit result is reinterpreted (same limb count) or
zero-extended (the sign bit needs one more limb) in the signed result type.
One operator takes another route: `wide % T` for an unsigned `T` no wider than a limb (`modSmall`). -/

/-- narrowest type of the result tag -/
def mixNarrowest (nw t : IntTy) : IntTy := { bits := nw.bits, signed := nw.signed || t.signed }

/-- `uintwide_t % UnsignedIntegralType` for a type no wider than a limb — a separate overload that returns a
**limb**: `|u| mod v` by `eval_divide_by_single_limb` (undefined for `v = 0`: the double-limb division by zero is
executed), and for negative `u` the limb `~rem + 1`, i.e. `2^w − rem` instead of `−rem`; the caller converts that
unsigned limb value to the result type -/
def modSmall (f g : Fmt) (v : Nat) (a : Limbs) : Res Limbs :=
  if v = 0 then .ub .divByZero
  else
    let neg := isNeg f a
    let rem := (divShort f.w v 0 (if neg then negate f.w a else a)).2
    let limb := if neg then lo f.w (2^f.w - 1 - rem + 1) else rem
    .ok (fromUnsigned g f.w limb)

/-- overload resolution picks the limb-returning `operator%`: `wide % T`, `T` unsigned and no wider than a limb -/
def takesModSmall (f : Fmt) (t : IntTy) (op : BinOp) (builtinLeft : Bool) : Bool :=
  !builtinLeft && !t.signed && decide (t.bits ≤ f.w) && decide (op = .mod)

/-- `T ⊗ wide` (`builtinLeft`) or `wide ⊗ T`; `f` = format of the wide operand, `g` = format of the result type -/
def mixArith (f g : Fmt) (t : IntTy) (op : BinOp) (builtinLeft : Bool) (v : Int) (a : Limbs) : Res Limbs :=
  let b := fromBuiltin f t v
  if takesModSmall f t op builtinLeft then
    modSmall f g v.toNat a
  else
    (if builtinLeft then binOp f op b a else binOp f op a b).map (convTo f g)

/-- the `wide_integer` a built-in operand of type `t` is wrapped as, next to a `wide_integer<_, nw>`:
`wide_integer<digits(t), set_width_t<t, width(nw)>>` (single-word representation) -/
def mixOperandDigits (t : IntTy) : Nat := t.digits
def mixOperandNarrowest (nw t : IntTy) : IntTy := { bits := nw.bits, signed := t.signed }

/-- comparison `T op wide` / `wide op T`: the comparison of two `wide_integer`s of different types (`wideCmp`) -/
def mixCmp (d : Nat) (nw t : IntTy) (op : CmpOp) (builtinLeft : Bool) (v x : Int) : Res Bool :=
  if builtinLeft then wideCmp (mixOperandDigits t) (mixOperandNarrowest nw t) d nw op v x
  else wideCmp d nw (mixOperandDigits t) (mixOperandNarrowest nw t) op x v

end Cnl.Wide
