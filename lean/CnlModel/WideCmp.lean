import CnlModel.Wide
/-!
# CnlModel.WideCmp — comparison of `cnl::wide_integer`s of *different* types

`wide_integer/custom_operator.h` has one `custom_operator` for the six comparisons of
`wide_integer<DL, NL>` with `wide_integer<DR, NR>` (different types).  What happens depends on the two
representations (`Wide.storage`):

* both built-in: the built-in comparison (usual arithmetic conversions) — `cCmp`;
* one built-in, one multi-limb `uintwide_t`: `uintwide_t`'s `IntegralType` overloads construct a
  `uintwide_t` of the *other* operand's type from the built-in value (`fromBuiltin`) and call the member
  comparison (`cmpOp`);
* both multi-limb of the same width and signedness: the same `uintwide_t` type, member comparison;
* both multi-limb of **different widths** (same limb type): since the repair, both operands are
  `static_cast` to the wider of the two representations — for the narrower one that is the converting
  constructor `uintwide_t(const uintwide_t<OtherWidth2, LimbType, AllocatorType, OtherIsSigned>&)`
  (`widenCtor`: copy the limbs and fill with zeros; a negative value is negated first and negated again
  in the wider format) — and then compared by the member comparison of the wider type: `cmpMixed`;
* both multi-limb of the same width and different signedness, or over different limb types: ill-formed
  (ambiguous / no conversion) — before and after the repair.

**As found** (`cmpMixedOrig`): `Operator()(to_rep(lhs), to_rep(rhs))` on two `uintwide_t`s of different
widths selected the *member* comparison of the left operand; the right operand reached its parameter
`const uintwide_t&` through the implicit conversion `operator uintwide_t<OtherWidth2, …>()` (`castOp`),
which *narrows* when the right operand is the wider one: `wide_integer<200>{5} == wide_integer<300>{2^250 + 5}`.
Kernel-checked refutation: `CnlProperties/C03.lean` (`wide_mixed_width_unrepaired_refuted`).
Lean core only.
-/
namespace Cnl.Wide

/-- the converting constructor `uintwide_t<g.N,…>(const uintwide_t<f.N,…>&)` for `f.N < g.N` (same limb type,
any signedness): `sz` = the source's limb count -/
def widenCtor (f g : Fmt) (a : Limbs) : Limbs :=
  if !isNeg f a then a ++ zeros (g.n - a.length)
  else
    let uv := negate f.w a                         -- `const other_wide_integer_type uv(-v);`
    negate g.w (uv ++ zeros (g.n - uv.length))     -- copy, fill, `negate()`

/-- the converting constructor for `g.N < f.N` (narrowing): the low `g.n` limbs -/
def narrowCtor (f g : Fmt) (a : Limbs) : Limbs :=
  if !isNeg f a then a.take g.n
  else negate g.w ((negate f.w a).take g.n)

/-- `static_cast<uintwide_t<g.N,…>>(x)` for `x` of format `f`: a copy when the type is the same -/
def convTo (f g : Fmt) (a : Limbs) : Limbs :=
  if f = g then a else if f.N < g.N then widenCtor f g a else narrowCtor f g a

/-- the implicit conversion `operator uintwide_t<g.N, LimbType, AllocatorType, g.signed>() const` of a value of
format `f` (what the unrepaired comparison applied to its right operand) -/
def castOp (f g : Fmt) (a : Limbs) : Limbs :=
  let sz := if f.N < g.N then f.n else g.n
  if !isNeg f a then a.take sz ++ zeros (g.n - sz)
  else
    let uv := negate g.w (convTo f g a)            -- `other_wide_integer_type uv(*this); uv.negate();`
    negate g.w (uv.take sz ++ zeros (g.n - sz))

/-- the two multi-limb representations convert into one another: same limb type; same width ⇒ same type -/
def cmpWellFormed (f g : Fmt) : Bool := f.w == g.w && (f.N != g.N || f.signed == g.signed)

/-- comparison of two multi-limb `wide_integer`s, as repaired: in the wider representation -/
def cmpMixed (f g : Fmt) (op : CmpOp) (a b : Limbs) : Res Bool :=
  if !cmpWellFormed f g then .ill "no (unambiguous) conversion between the two uintwide_t types"
  else if f.N = g.N then .ok (cmpOp f op a b)
  else
    let W := if f.N < g.N then g else f
    .ok (cmpOp W op (convTo f W a) (convTo g W b))

/-- the same **before** the repair: the member comparison of the left operand, the right operand implicitly
converted to the left operand's type -/
def cmpMixedOrig (f g : Fmt) (op : CmpOp) (a b : Limbs) : Res Bool :=
  if !cmpWellFormed f g then .ill "no (unambiguous) conversion between the two uintwide_t types"
  else if f.N = g.N then .ok (cmpOp f op a b)
  else .ok (cmpOp f op a (castOp g f b))

/-- the limbs of the `f.N`-bit two's-complement pattern of `v` -/
def encode (f : Fmt) (v : Int) : Limbs := ofNat f.w f.n (v % 2^f.N).toNat

/-- `wide_integer<dl, nl> OP wide_integer<dr, nr>` (different types) on the values `l`, `r`;
`cmpMulti` = `cmpMixed` (repaired) or `cmpMixedOrig` -/
def wideCmpWith (cmpMulti : Fmt → Fmt → CmpOp → Limbs → Limbs → Res Bool)
    (dl : Nat) (nl : IntTy) (dr : Nat) (nr : IntTy) (op : CmpOp) (l r : Int) : Res Bool :=
  match storage dl nl, storage dr nr with
  | .builtin s, .builtin t => .ok (cCmp op (s, l) (t, r))
  | .builtin s, .multi g => .ok (cmpOp g op (fromBuiltin g s l) (encode g r))
  | .multi f, .builtin t => .ok (cmpOp f op (encode f l) (fromBuiltin f t r))
  | .multi f, .multi g => cmpMulti f g op (encode f l) (encode g r)

def wideCmp := wideCmpWith cmpMixed
def wideCmpOrig := wideCmpWith cmpMixedOrig

end Cnl.Wide
