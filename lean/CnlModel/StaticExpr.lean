import CnlModel.Static
/-!
# Histories of static_number operations

A history is an expression tree whose leaves are static numbers and whose nodes are the operators
and the (narrowing or widening) conversion / assignment to `static_number<D, E>`.  `evalModel`
evaluates it with the operations of `CnlModel.Static`, left operand first; the first node that does
anything other than return a value (an overflow signal, undefined behaviour, an ill-formed
instantiation) ends the evaluation with that outcome.  Lean core only.
-/
namespace Cnl.Static
open Cnl

inductive SExpr where
  | lit (x : SNum)
  | add (a b : SExpr)
  | sub (a b : SExpr)
  | mul (a b : SExpr)
  | div (a b : SExpr)
  | neg (a : SExpr)
  | cvt (D : Nat) (E : Int) (a : SExpr)
deriving Repr, DecidableEq

/-- evaluation with the model's operations (structural recursion) -/
def evalModel (c : Cfg) : SExpr → Res SNum
  | .lit x => .ok x
  | .add a b => evalModel c a >>= fun x => evalModel c b >>= fun y => binOp c .add x y
  | .sub a b => evalModel c a >>= fun x => evalModel c b >>= fun y => binOp c .sub x y
  | .mul a b => evalModel c a >>= fun x => evalModel c b >>= fun y => binOp c .mul x y
  | .div a b => evalModel c a >>= fun x => evalModel c b >>= fun y => binOp c .div x y
  | .neg a => evalModel c a >>= fun x => neg x
  | .cvt D E a => evalModel c a >>= fun x => convert c D E x

end Cnl.Static
