import CnlModel.Static
/-!
# Histories of static_number operations

A history is an expression tree whose leaves are static numbers and whose nodes are the operators,
the shifts (run-time count; `cnl::constant` count on a static_number, where the exponent moves, and
on a bare static_integer, where the digits widen / narrow) and the (narrowing or widening)
conversion / assignment to `static_number<D, E>`.  The node of a left shift by a run-time count is
annotated with the digit count `D` of its operand's type (a side condition of the theorems says
the annotation is right): the ideal evaluation needs it to know which range the result must fit.  `evalModel`
evaluates it with the operations of `CnlModel.Static`, left operand first; the first node that does
anything other than return a value (an overflow signal, undefined behaviour, an ill-formed
instantiation) ends the evaluation with that outcome.  Lean core only.
-/
namespace Cnl.Static
open Cnl

inductive SExpr where
  | lit (x : SNum)
  | add (a b : SExpr)
  | sub (a b : SExpr)
  | mul (a b : SExpr)
  | div (a b : SExpr)
  | neg (a : SExpr)
  | cvt (D : Nat) (E : Int) (a : SExpr)
  /-- `a << k`, run-time count; `D` = declared digits of `a` -/
  | shl (D : Nat) (k : Nat) (a : SExpr)
  /-- `a >> k`, run-time count -/
  | shr (k : Nat) (a : SExpr)
  /-- `a << constant<k>` on a static_number (`a >> constant<k>` is `shlN (-k)`) -/
  | shlN (k : Int) (a : SExpr)
  /-- `a << constant<k>` on a bare static_integer -/
  | shlI (k : Nat) (a : SExpr)
  /-- `a >> constant<k>` on a bare static_integer -/
  | shrI (k : Nat) (a : SExpr)
deriving Repr, DecidableEq

/-- evaluation with the model's operations (structural recursion) -/
def evalModel (c : Cfg) : SExpr → Res SNum
  | .lit x => .ok x
  | .add a b => evalModel c a >>= fun x => evalModel c b >>= fun y => binOp c .add x y
  | .sub a b => evalModel c a >>= fun x => evalModel c b >>= fun y => binOp c .sub x y
  | .mul a b => evalModel c a >>= fun x => evalModel c b >>= fun y => binOp c .mul x y
  | .div a b => evalModel c a >>= fun x => evalModel c b >>= fun y => binOp c .div x y
  | .neg a => evalModel c a >>= fun x => neg x
  | .cvt D E a => evalModel c a >>= fun x => convert c D E x
  | .shl _ k a => evalModel c a >>= fun x => shiftRT c .shl x k
  | .shr k a => evalModel c a >>= fun x => shiftRT c .shr x k
  | .shlN k a => evalModel c a >>= fun x => shiftConstNum .shl x k
  | .shlI k a => evalModel c a >>= fun x => shiftConstInt c .shl x k
  | .shrI k a => evalModel c a >>= fun x => shiftConstInt c .shr x k

end Cnl.Static
