import CnlModel.CInt
import CnlModel.Ty
/-!
# CnlModel.Parse — literals, run-time `parse`, constant-driven deduction (property C15)

Transcription of `include/cnl/_impl/parse.h` (`scan_string / scan_base / scan_msb`,
`parse_string`, `parse`, `parse_real`), of the literal operators `_c` (`constant.h`), `_wide`
(`wide_integer/literals.h`), `_cnl`, `_cnl2` (`elastic_scaled_integer.h`: `make_from_udl` through
`descale<…, Precise = true>` of `charconv/descale.h`) and of the deduction done by
`make_elastic_integer`, `make_elastic_scaled_integer`, `make_scaled_integer`,
`make_static_integer`, `make_static_number` for a `constant<Value>` or a plain value.

Tokens are `List Char`.  Every digit chunk is accumulated in `int64` arithmetic and the running sum
in the arithmetic of the result type, both through `CnlModel.CInt`, so an overflow is a *value* of
the model (`ub` for signed built-in results, wrap-around for unsigned and multi-limb results).
Widths, strides and digit counts are data, not constants of the proofs.  Lean core only.
-/
namespace Cnl.Parse
open Cnl

def radixChar : Char := '.'
def separator : Char := '\''

/-! ## `char_to_digit` -/

def inRangeC (c lo hi : Char) : Bool := lo.toNat ≤ c.toNat && c.toNat ≤ hi.toNat

/-- `make_char_to_digit_positive(base)(c)`; `none` = `unreachable("invalid … digit")`.
The hexadecimal table accepts the whole alphabet (`'g'` is 16 … `'z'` is 35), as the code does. -/
def digitPos (base : Nat) (c : Char) : Option Nat :=
  if base = 2 then (if inRangeC c '0' '1' then some (c.toNat - 48) else none)
  else if base = 8 then (if inRangeC c '0' '7' then some (c.toNat - 48) else none)
  else if base = 10 then (if inRangeC c '0' '9' then some (c.toNat - 48) else none)
  else if base = 16 then
    (if inRangeC c '0' '9' then some (c.toNat - 48)
     else if inRangeC c 'a' 'z' then some (c.toNat - 87)
     else if inRangeC c 'A' 'Z' then some (c.toNat - 55)
     else none)
  else none

/-- `make_char_to_digit(is_negative, base)(c)`: the negative table yields the negated digit -/
def charToDigit (neg : Bool) (base : Nat) (c : Char) : Option Int :=
  (digitPos base c).map (fun d => if neg then -(d : Int) else (d : Int))

/-! ## `scan_string` -/

structure Params where
  isNegative : Bool
  base : Nat
  stride : Nat
  firstNumeral : Nat
  numBits : Nat
  numDigits : Nat
  numFrac : Nat
deriving Repr, DecidableEq

/-- decimal width estimate `(n·3322 + estimateBias) / 1000` (see `scan_base`): `⌈3.322 n⌉`.
(Before /repo commit 433014e the bias was 678, one bit short for n = 4, 7, 10, …) -/
def estimateBias : Nat := 999

def decimalBits (n : Nat) : Nat := (n * 3322 + estimateBias) / 1000

/-- `scan_msb`: the leading digit decides whether one bit can be saved.  The first numeral may be
preceded by a radix point (`.5`) or — since /repo commit a837792 — by a digit separator (`0'17`: the
character after the octal prefix). -/
def scanMsb (cs : List Char) (neg : Bool) (base stride offset maxBits numDigits numFrac : Nat) : Res Params :=
  let c0 := cs.getD offset '\x00'
  let c := cs.getD (offset + (if c0 == radixChar || c0 == separator then 1 else 0)) '\x00'
  match digitPos base c with
  | none => .unreachable "invalid digit"
  | some d => .ok ⟨neg, base, stride, offset, maxBits - (if d * 2 < base then 1 else 0), numDigits, numFrac⟩

/-- `scan_msb` as found (before /repo commit a837792): only the radix point is skipped, so the
separator of `0'17` is taken for the leading digit -/
def scanMsbOrig (cs : List Char) (neg : Bool) (base stride offset maxBits numDigits numFrac : Nat) : Res Params :=
  let c := cs.getD (offset + (if cs.getD offset '\x00' == radixChar then 1 else 0)) '\x00'
  match digitPos base c with
  | none => .unreachable "invalid digit"
  | some d => .ok ⟨neg, base, stride, offset, maxBits - (if d * 2 < base then 1 else 0), numDigits, numFrac⟩

/-- `scan_base` after the searched range `body` was fixed; `msb` is `scan_msb` -/
def scanBaseWith (msb : List Char → Bool → Nat → Nat → Nat → Nat → Nat → Nat → Res Params)
    (cs body : List Char) (neg : Bool) (offset length : Nat) : Res Params :=
  let found := body.idxOf radixChar
  let hasRadix : Bool := found < body.length
  let post := body.drop (found + 1)
  let preSeps := (body.take found).count separator
  let postSeps := post.count separator
  let numNonSep := length - (preSeps + postSeps + (if hasRadix then 1 else 0))
  let numFrac := post.length - postSeps
  let isDecimal := cs.getD offset '\x00' != '0' || hasRadix
  if isDecimal || offset + 1 ≥ numNonSep then
    msb cs neg 10 18 offset (decimalBits numNonSep) numNonSep numFrac
  else
    let c1 := cs.getD (offset + 1) '\x00'
    if c1 == 'B' || c1 == 'b' then
      msb cs neg 2 63 (offset + 2) (numNonSep - 2) (numNonSep - 2) numFrac
    else if c1 == 'X' || c1 == 'x' then
      msb cs neg 16 15 (offset + 2) ((numNonSep - 2) * 4) (numNonSep - 2) numFrac
    else
      msb cs neg 8 21 (offset + 1) ((numNonSep - 1) * 3) (numNonSep - 1) numFrac

/-- `scan_base(str, is_negative, offset, length)`: `length` counts the characters after the sign,
`str` still points at the sign, and `[str, str+offset+length)` — the whole token — is the range
searched for the radix point and the separators (since /repo commit 678a22e). -/
def scanBase (cs : List Char) (neg : Bool) (offset length : Nat) : Res Params :=
  scanBaseWith scanMsb cs (cs.take (offset + length)) neg offset length

/-- `scan_base` as found: the searched range was `[str, str+length)`, which for a signed token stops
one character early -/
def scanBaseOrig (cs : List Char) (neg : Bool) (offset length : Nat) : Res Params :=
  scanBaseWith scanMsbOrig cs (cs.take length) neg offset length

def scanString (cs : List Char) : Res Params :=
  match cs with
  | '+' :: _ => scanBase cs false 1 (cs.length - 1)
  | '-' :: _ => scanBase cs true 1 (cs.length - 1)
  | _ => scanBase cs false 0 cs.length

/-- `scan_string` as found (both scanner defects) -/
def scanStringOrig (cs : List Char) : Res Params :=
  match cs with
  | '+' :: _ => scanBaseOrig cs false 1 (cs.length - 1)
  | '-' :: _ => scanBaseOrig cs true 1 (cs.length - 1)
  | _ => scanBaseOrig cs false 0 cs.length

/-! ## `parse_string` -/

/-- the type the running sum lives in -/
inductive Storage where
  /-- a built-in integer type: C++ arithmetic, signed overflow is undefined -/
  | builtin (t : IntTy)
  /-- a multi-limb two's-complement integer of `bits` bits (`uintwide_t<bits, limb, void, true>`): wraps -/
  | wide (bits : Nat)
deriving Repr, DecidableEq

def Storage.holds : Storage → Int → Bool
  | .builtin t, v => t.inRange v
  | .wide bits, v => (IntTy.mk bits true).inRange v

/-- `make_scale_op(base)(sum)` on `int64` -/
def scaleOp (base : Nat) (sum : Int) : Res Int :=
  (if base = 10 then cBin .mul (i64, sum) (i32, 10)
   else if base = 2 then cBin .shl (i64, sum) (i32, 1)
   else if base = 8 then cBin .shl (i64, sum) (i32, 3)
   else if base = 16 then cBin .shl (i64, sum) (i32, 4)
   else .unreachable "unsupported number base") >>= fun v => .ok (i64.wrap v.2)

/-- the characters `parse_int64(n)` consumes: it reads until `n` digits were seen, skipping
separators and the radix point; returns the digit values and the unread rest.  Running out of
characters fails `CNL_ASSERT(digit)`; a character outside the digit table is `unreachable`. -/
def readDigits (base : Nat) : List Char → Nat → Res (List Nat × List Char)
  | cs, 0 => .ok ([], cs)
  | [], _+1 => .unreachable "assert: digit"
  | c :: cs, n+1 =>
    if c == separator || c == radixChar then readDigits base cs (n+1)
    else
      match digitPos base c with
      | none => .unreachable "invalid digit"
      | some d => readDigits base cs n >>= fun r => .ok (d :: r.1, r.2)

/-- `init = scale_op(init) + char_to_digit(digit)` over the digits of one chunk, in `int64`
(`char_to_digit` of a negative token yields the negated digit) -/
def accumulate (neg : Bool) (base : Nat) : Int → List Nat → Res Int
  | acc, [] => .ok acc
  | acc, d :: ds =>
    scaleOp base acc >>= fun s =>
    cBin .add (i64, s) (i32, if neg then -(d : Int) else (d : Int)) >>= fun a =>
    accumulate neg base a.2 ds

/-- `parse_int64(n)` starting from `init = 0` -/
def parseInt64 (neg : Bool) (base : Nat) (cs : List Char) (n : Nat) (acc : Int) : Res (Int × List Char) :=
  readDigits base cs n >>= fun r =>
  accumulate neg base acc r.1 >>= fun v => .ok (v, r.2)

/-- the factor `make_scale_op_chunk<Sum>(base)` applies: `* 10^18`, `<< 63`, `<< 63`, `<< 60` -/
def chunkShift (base : Nat) : Nat := if base = 16 then 60 else 63

/-- `init = chunk_scale_op(init) + parse_int64(stride)` in the arithmetic of the result type -/
def chunkStep (S : Storage) (base : Nat) (init chunk : Int) : Res Int :=
  match S with
  | .builtin t =>
    (if base = 10 then cBin .mul (t, init) (i64, 1000000000000000000)
     else if base = 2 ∨ base = 8 ∨ base = 16 then cBin .shl (t, init) (i32, (chunkShift base : Int))
     else .unreachable "unsupported number base") >>= fun p =>
    cBin .add (t, t.wrap p.2) (i64, chunk) >>= fun s =>
    .ok (t.wrap s.2)
  | .wide bits =>
    let t : IntTy := ⟨bits, true⟩
    if base = 10 then .ok (t.wrap (t.wrap (init * 1000000000000000000) + chunk))
    else if base = 2 ∨ base = 8 ∨ base = 16 then .ok (t.wrap (t.wrap (init * 2 ^ chunkShift base) + chunk))
    else .unreachable "unsupported number base"

/-- `Result init(parse_int64(...))`: conversion of the first chunk into the result type -/
def Storage.ofInt64 : Storage → Int → Int
  | .builtin t, v => t.wrap v
  | .wide bits, v => (IntTy.mk bits true).wrap v

/-- the `while (num_digits)` loop: `k` more full chunks -/
def parseChunks (S : Storage) (neg : Bool) (base stride : Nat) : Nat → List Char → Int → Res Int
  | 0, _, init => .ok init
  | k+1, cs, init =>
    parseInt64 neg base cs stride 0 >>= fun c =>
    chunkStep S base init c.1 >>= fun i =>
    parseChunks S neg base stride k c.2 i

/-- `parse_string<Result>(first, num_digits, is_negative, base, stride)` -/
def parseString (S : Storage) (cs : List Char) (numDigits : Nat) (neg : Bool) (base stride : Nat) : Res Int :=
  parseInt64 neg base cs ((numDigits + stride) % stride) 0 >>= fun c =>
  parseChunks S neg base stride (numDigits / stride) c.2 (S.ofInt64 c.1)

/-- run-time `parse<Narrowest>(char const*)` -/
def parse (S : Storage) (cs : List Char) : Res Int :=
  scanString cs >>= fun p =>
  parseString S (cs.drop p.firstNumeral) p.numDigits p.isNegative p.base p.stride

/-- run-time `parse` as found -/
def parseOrig (S : Storage) (cs : List Char) : Res Int :=
  scanStringOrig cs >>= fun p =>
  parseString S (cs.drop p.firstNumeral) p.numDigits p.isNegative p.base p.stride

/-! ## result type of the compile-time parser -/

/-- `set_digits_t<int, max(31, d)>`: the narrowest built-in signed type with at least `d` digits
(`none` beyond `__int128`) -/
def builtinSigned (d : Nat) : Option IntTy :=
  if d ≤ 31 then some i32 else if d ≤ 63 then some i64 else if d ≤ 127 then some i128 else none

/-- the representation of `wide_integer<digits, int>` (`wide_tag<…>::rep`): a built-in type up to
`max_digits<int> = 127` digits, beyond that `uintwide_t` of `digits + 1` bits rounded up to whole
32-bit limbs -/
def wideRep (digits : Nat) : Storage :=
  match builtinSigned digits with
  | some t => .builtin t
  | none => .wide (32 * ((digits + 1 + 31) / 32))

def Storage.name : Storage → String
  | .builtin t => t.toString
  | .wide bits => s!"uw({bits})"

/-- a constant-evaluated `parse_string`: anything but a value stops the compiler -/
def constEval {α : Type} (r : Res α) : Res α :=
  match r with
  | .ok a => .ok a
  | .diverges => .ill "constexpr loop limit"
  | _ => .ill "not a constant expression"

structure Parsed where
  significand : Int
  exponent : Int
  radix : Nat
  numBits : Nat
deriving Repr, DecidableEq

/-- `parse_real<Narrowest, Chars...>()` where `Narrowest` has `narrowDigits` digits and
`max_digits<Narrowest> = maxDigits`; `rep` maps the chosen digit count to the storage -/
def parseReal (narrowDigits maxDigits : Nat) (rep : Nat → Storage) (cs : List Char) : Res (Parsed × Nat) :=
  constEval (scanString cs) >>= fun p =>
  let resultDigits := max narrowDigits (min p.numBits maxDigits)
  constEval (parseString (rep resultDigits) (cs.drop p.firstNumeral) p.numDigits p.isNegative p.base p.stride) >>= fun v =>
  .ok (⟨v, -(p.numFrac : Int), p.base, p.numBits⟩, resultDigits)

/-- `parse_real<intmax_t, …>`: `intmax_t` is `__int128` (gnu++20) -/
def parseRealIntmax (cs : List Char) : Res Parsed :=
  (parseReal 127 127 (fun _ => .builtin i128) cs).map (·.1)

/-! ## used digits, trailing bits -/

/-- `_impl::used_digits_signed<false>` (radix 2): number of significant bits -/
def usedDigitsNat (v : Nat) : Nat := if v = 0 then 0 else v.log2 + 1

/-- `_impl::used_digits(value)` of a signed value: a negative `v` counts the digits of `-1 - v` -/
def usedDigits (v : Int) : Nat := if v < 0 then usedDigitsNat (-1 - v).toNat else usedDigitsNat v.toNat

/-- `digits_v<constant<Value>>` = `used_digits(Value < 0 ? -Value : Value)` -/
def constantDigits (v : Int) : Nat := usedDigits (if v < 0 then -v else v)

def tzFuel : Nat → Nat → Nat
  | 0, _ => 0
  | f+1, n => if n % 2 = 0 ∧ n ≠ 0 then tzFuel f (n / 2) + 1 else 0

/-- `cnl::trailing_bits(value)`: `countr_zero` of the two's-complement pattern, 0 for 0 -/
def trailingBits (v : Int) : Nat := tzFuel v.natAbs v.natAbs

/-! ## `descale<Significand, OutRadix, Precise = true>` -/

/-- `oob(n)` for a non-negative input: `n > numeric_limits<Significand>::max() / descale_headroom_radix`, where the
headroom radix is `OutRadix` in the loop for negative input exponents and the greater of `OutRadix`, `InRadix` in the
other (since /repo commit c459b7e; the literal operators enter that loop only with `in_exponent = 0`, where the test
is never evaluated) -/
def oob (sigT : IntTy) (headroomRadix : Nat) (n : Int) : Bool := n > sigT.max / (headroomRadix : Int)

/-- the loop of the `InExponent < 0` branch with `Precise = true` (input > 0).
State: significand, output exponent, `in_exponent`.  Fuel stands for the compiler's
constant-evaluation limit: running out is `diverges`.  Once `in_exponent` is 0 only factors of
`OutRadix` are moved into the exponent (since /repo commit 9c119b4). -/
def descaleNeg (sigT : IntTy) (outRadix inRadix : Nat) : Nat → Int → Int → Int → Res (Int × Int)
  | 0, _, _, _ => .diverges
  | fuel+1, sig, exp, ie =>
    if ie ≠ 0 ∨ sig % (outRadix : Int) = 0 then
      if ie = 0 then descaleNeg sigT outRadix inRadix fuel (sig / (outRadix : Int)) (exp + 1) ie
      else if sig % (inRadix : Int) ≠ 0 then
        if oob sigT outRadix sig then .unreachable "number cannot be represented in this form"
        else descaleNeg sigT outRadix inRadix fuel (sig * outRadix) (exp - 1) ie
      else descaleNeg sigT outRadix inRadix fuel (sig / (inRadix : Int)) exp (ie + 1)
    else .ok (sig, exp)

/-- the same loop as found: with `in_exponent = 0` and a significand still divisible by `OutRadix`
it went on dividing by `InRadix` and counting `in_exponent` up, never to return to 0 -/
def descaleNegOrig (sigT : IntTy) (outRadix inRadix : Nat) : Nat → Int → Int → Int → Res (Int × Int)
  | 0, _, _, _ => .diverges
  | fuel+1, sig, exp, ie =>
    if ie ≠ 0 ∨ sig % (outRadix : Int) = 0 then
      if sig % (inRadix : Int) ≠ 0 then
        if oob sigT outRadix sig then .unreachable "number cannot be represented in this form"
        else descaleNegOrig sigT outRadix inRadix fuel (sig * outRadix) (exp - 1) ie
      else descaleNegOrig sigT outRadix inRadix fuel (sig / (inRadix : Int)) exp (ie + 1)
    else .ok (sig, exp)

/-- the loop of the `InExponent ≥ 0` branch (input > 0) -/
def descalePos (sigT : IntTy) (outRadix inRadix : Nat) : Nat → Int → Int → Int → Res (Int × Int)
  | 0, _, _, _ => .diverges
  | fuel+1, sig, exp, ie =>
    if ie ≠ 0 ∨ sig % (outRadix : Int) = 0 then
      if sig % (outRadix : Int) = 0 ∨ oob sigT (max outRadix inRadix) sig = true then
        descalePos sigT outRadix inRadix fuel (sig / (outRadix : Int)) (exp + 1) ie
      else descalePos sigT outRadix inRadix fuel (sig * inRadix) exp (ie - 1)
    else .ok (sig, exp)

def descaleFuel : Nat := 4000

/-- `descale<Significand, OutRadix, true>(input, power<inExp, inRadix>)` for `input ≥ 0` -/
def descalePrecise (sigT : IntTy) (outRadix inRadix : Nat) (input inExp : Int) : Res (Int × Int) :=
  if input = 0 then .ok (0, 0)
  else if inExp < 0 then descaleNeg sigT outRadix inRadix descaleFuel input 0 inExp
  else descalePos sigT outRadix inRadix descaleFuel input 0 inExp

def descalePreciseOrig (sigT : IntTy) (outRadix inRadix : Nat) (input inExp : Int) : Res (Int × Int) :=
  if input = 0 then .ok (0, 0)
  else if inExp < 0 then descaleNegOrig sigT outRadix inRadix descaleFuel input 0 inExp
  else descalePos sigT outRadix inRadix descaleFuel input 0 inExp

/-! ## the literal operators -/

/-- what a literal or a `make_*` call yields: a type and the value of its innermost representation -/
structure Made where
  ty : Ty
  rep : Storage
  value : Int
deriving Repr, DecidableEq

/-- `elastic_integer<d, int>`'s representation -/
def elasticRep (d : Nat) : Res Storage :=
  match builtinSigned d with
  | some t => .ok (.builtin t)
  | none => .ill "elastic_integer wider than intmax_t"

/-- `operator"" _c` : `constant<parse<intmax_t, Chars...>()>`; result: value and `digits_v` -/
def litC (cs : List Char) : Res (Int × Nat) :=
  parseRealIntmax cs >>= fun p =>
  if p.exponent ≠ 0 then .ill "non-integer number" else .ok (p.significand, constantDigits p.significand)

/-- `operator"" _wide` : `parse<wide_integer<0>, Chars...>()` -/
def litWide (cs : List Char) : Res Made :=
  parseReal 0 2147483647 wideRep cs >>= fun (p, d) =>
  if p.exponent ≠ 0 then .ill "non-integer number"
  else .ok ⟨.wd d (.int i32), wideRep d, p.significand⟩

/-- `make_from_udl<Significand, Exponent, Radix, UdlRadix>()` -/
def makeFromUdl (p : Parsed) (udlRadix : Nat) : Res Made :=
  constEval (descalePrecise i128 udlRadix p.radix p.significand p.exponent) >>= fun (sig, e) =>
  let d := constantDigits sig
  elasticRep d >>= fun rep =>
  .ok ⟨.sc (.el d (.int i32)) e udlRadix, rep, sig⟩

def litCnl (cs : List Char) : Res Made := parseRealIntmax cs >>= fun p => makeFromUdl p p.radix
def litCnl2 (cs : List Char) : Res Made := parseRealIntmax cs >>= fun p => makeFromUdl p 2

/-- `make_from_udl` over the loop as found -/
def makeFromUdlOrig (p : Parsed) (udlRadix : Nat) : Res Made :=
  constEval (descalePreciseOrig i128 udlRadix p.radix p.significand p.exponent) >>= fun (sig, e) =>
  let d := constantDigits sig
  elasticRep d >>= fun rep =>
  .ok ⟨.sc (.el d (.int i32)) e udlRadix, rep, sig⟩

def litCnlOrig (cs : List Char) : Res Made := parseRealIntmax cs >>= fun p => makeFromUdlOrig p p.radix
def litCnl2Orig (cs : List Char) : Res Made := parseRealIntmax cs >>= fun p => makeFromUdlOrig p 2

/-! ## deduction from a constant or a value -/

/-- `v >> tz` for the exact right shift used when a scaled type with exponent `tz` is initialised
with the integer `v` -/
def shiftOut (v : Int) (tz : Nat) : Int := v / 2 ^ tz

/-- `make_elastic_integer(constant<v>)` -/
def makeElasticInteger (v : Int) : Res Made :=
  let d := constantDigits v
  elasticRep d >>= fun rep => .ok ⟨.el d (.int i32), rep, v⟩

/-- `make_elastic_scaled_integer(constant<v>)` -/
def makeElasticScaledInteger (v : Int) : Res Made :=
  let tz := trailingBits v
  let d := max (constantDigits v - tz) 1
  elasticRep d >>= fun rep => .ok ⟨.sc (.el d (.int i32)) tz 2, rep, shiftOut v tz⟩

/-- `make_scaled_integer(constant<v>)` = `from_value<scaled_integer<>, constant<v>>` -/
def makeScaledInteger (v : Int) : Res Made :=
  let tz := trailingBits v
  match builtinSigned (max 31 (usedDigits v - tz)) with
  | some t => .ok ⟨.sc (.int t) tz 2, .builtin t, shiftOut v tz⟩
  | none => .ill "no such integer"

/-- `static_integer<d, nearest, undefined, int>` around a `wide_integer<31, int>` -/
def staticIntegerTy (d : Nat) : Ty := .ov (.el d (.rd (.wd 31 (.int i32)) .nrst)) .und

/-- initialising a `static_integer<d>` with `x`: the overflow layer compares against the symmetric
range of `elastic_integer<d>`; out of range is reported by the (undefined-behaviour) overflow tag as
`negative overflow` / `positive overflow` -/
def staticInit (d : Nat) (x : Int) : Res Int :=
  if x > 2 ^ d - 1 then .trap true else if x < -(2 ^ d - 1) then .trap false else .ok x

/-- `_impl::make_static_integer(constant<v>)`: `digits_v<constant<v>>` digits, as
`make_elastic_integer` (since /repo commit b8663e1) -/
def makeStaticInteger (v : Int) : Res Made :=
  let d := constantDigits v
  elasticRep d >>= fun rep =>
  staticInit d v >>= fun x => .ok ⟨staticIntegerTy d, rep, x⟩

/-- `make_static_number(constant<v>)` -/
def makeStaticNumber (v : Int) : Res Made :=
  let tz := trailingBits v
  let d := constantDigits v - tz
  elasticRep d >>= fun rep =>
  staticInit d (shiftOut v tz) >>= fun x => .ok ⟨.sc (staticIntegerTy d) tz 2, rep, x⟩

/-- as found: the digits were `used_digits(v)`, the two's-complement count, one short of the
symmetric range of `elastic_integer` for `v = -2^k` -/
def makeStaticIntegerOrig (v : Int) : Res Made :=
  let d := usedDigits v
  elasticRep d >>= fun rep =>
  staticInit d v >>= fun x => .ok ⟨staticIntegerTy d, rep, x⟩

def makeStaticNumberOrig (v : Int) : Res Made :=
  let tz := trailingBits v
  let d := usedDigits v - tz
  elasticRep d >>= fun rep =>
  staticInit d (shiftOut v tz) >>= fun x => .ok ⟨.sc (staticIntegerTy d) tz 2, rep, x⟩

/-- `set_digits_t<unsigned, max(32, d)>` -/
def builtinUnsigned (d : Nat) : Option IntTy :=
  if d ≤ 32 then some u32 else if d ≤ 64 then some u64 else if d ≤ 128 then some u128 else none

/-- `make_*(Integral const& value)` for a value of the built-in type `T`: the deduced type depends
on `T` only (`numeric_limits<T>::digits`, signedness adopted by the narrowest type) -/
def makeFromValue (fn : String) (T : IntTy) (v : Int) : Option (Res Made) :=
  let d := T.digits
  let narrowest : IntTy := if T.signed then i32 else u32
  let elRep : Option IntTy := if T.signed then builtinSigned d else builtinUnsigned d
  match fn, elRep, builtinSigned d with
  | "elastic_integer", some r, _ => some (.ok ⟨.el d (.int narrowest), .builtin r, v⟩)
  | "elastic_scaled_integer", some r, _ => some (.ok ⟨.sc (.el d (.int narrowest)) 0 2, .builtin r, v⟩)
  | "scaled_integer", _, _ => some (.ok ⟨.sc (.int T) 0 2, .builtin T, v⟩)
  | "static_integer", _, some r => some (.ok ⟨staticIntegerTy d, .builtin r, v⟩)
  | "static_number", _, some r =>
    -- the value reaches `static_integer<d>` after integral promotion; the overflow layer only tests a
    -- source with more digits than `d`
    some ((if (promote T).digits > d then staticInit d v else .ok v) >>= fun x => .ok ⟨.sc (staticIntegerTy d) 0 2, .builtin r, x⟩)
  | _, _, _ => none

end Cnl.Parse
