import CnlModel.Rep
import CnlModel.Generated.Exp2Coeffs
/-!
# CnlModel.Exp2 — `cnl::exp2(scaled_integer<Rep, power<E>>)` as written in `scaled_integer/math.h`

Every C++ sub-expression of `exp2`, `fp::exp2`, `fractional`, `exp2m1_0to1`, `evaluate_polynomial`,
`safe_multiply`, `rounding_conversion` and `poly_coeffs` has one line here, evaluated with the C++20
integer semantics of `CnlModel.CInt` (promotion, usual arithmetic conversions, wrap-around of unsigned
arithmetic, undefined shifts / signed overflow).  Width, signedness and exponent of the format are
arguments.  Everything is structural: `decide +kernel` can evaluate the model.

`exp2` / `exp2With` follow the code as repaired (by-value test `fp::not_above_exponent`; negative inputs of positive-exponent formats
return zero before `floor(x)` is converted to `Rep`); `exp2Orig` / `exp2WithOrig` are the as-found definitions, refuted in
`CnlProperties.C20` from the witnesses of the two findings.

The coefficient table used by the model is the one the real compiler prints from the headers *now*
(`CnlModel.Generated.Exp2Coeffs`, rewritten on every run of the check); `derivedCoeffs` re-derives the
same numbers inside Lean from the decimal literals of `poly_coeffs` (decimal → binary64 → `rounding_conversion`),
and `CnlProofs.Exp2` proves the two tables equal, so a change of a literal in the header breaks a named equation.
-/
namespace Cnl.Exp2
open Cnl

/-- a `scaled_integer<Rep, power<exp, 2>>` format with a built-in `Rep` -/
structure Fmt where
  bits : Nat
  signed : Bool
  exp : Int
deriving DecidableEq, Repr

def Fmt.rep (f : Fmt) : IntTy := ⟨f.bits, f.signed⟩
/-- `fp::unsigned_rep` -/
def Fmt.urep (f : Fmt) : IntTy := ⟨f.bits, false⟩

/-! ## coefficients -/

/-- round-half-even of `n / d` -/
def roundHalfEven (n d : Nat) : Nat :=
  let q := n / d
  let r := n % d
  if 2 * r < d then q else if 2 * r > d then q + 1 else (if q % 2 = 0 then q else q + 1)

/-- `⌊log2 (n/d)⌋` for positive `n`, `d` -/
def ilog2Rat (n d : Nat) : Int :=
  let e : Int := (n.log2 : Int) - (d.log2 : Int)
  let ok : Bool := if e ≥ 0 then decide (d * 2^(e.toNat) ≤ n) else decide (d ≤ n * 2^((-e).toNat))
  if ok then e else e - 1

/-- the binary64 number nearest to `n/d` (normal range), as `m · 2^sh` with `2^52 ≤ m ≤ 2^53` -/
def toDouble (n d : Nat) : Nat × Int :=
  let e := ilog2Rat n d
  let sh : Int := e - 52
  let m := if sh ≥ 0 then roundHalfEven n (d * 2^sh.toNat) else roundHalfEven (n * 2^((-sh).toNat)) d
  (m, sh)

/-- the seven decimal literals of `poly_coeffs` (`a1 … a7`) as exact fractions -/
def coeffLits : List (Nat × Nat) :=
  [ (6931471860838825, 10^16), (2402263846181129, 10^16), (55505126858894846, 10^18),
    (9614017013719252, 10^18), (13422634797558564, 10^19), (14352314226313836, 10^20),
    (21498763160402416, 10^21) ]

/-- `rounding_conversion<scaled_integer<uW, power<-W>>>(d)`: the literal as a double, truncated into the
format with one more fractional bit, `+ 1`, `>> 1`, cast to `W` bits -/
def derivedCoeff (W : Nat) (lit : Nat × Nat) : Nat :=
  let md := toDouble lit.1 lit.2
  let k : Int := md.2 + (W + 1)
  let t : Nat := if k ≥ 0 then md.1 * 2^k.toNat else md.1 / 2^((-k).toNat)
  ((t + 1) / 2) % 2^W

def derivedCoeffs (W : Nat) : List Nat := coeffLits.map (derivedCoeff W)

def lookup (W : Nat) : List (Nat × List Nat) → Option (List Nat)
  | [] => none
  | (w, cs) :: t => if w = W then some cs else lookup W t

/-- the coefficient table the model evaluates with: the generated (compiler-printed) one where present -/
def coeffs (W : Nat) : List Nat :=
  match lookup W Generated.exp2Coeffs with
  | some cs => cs
  | none => derivedCoeffs W

/-! ## kernel-fast copies of the `CnlModel.CInt` operators

`decide +kernel` evaluates `(2 : Int)^n` by linear recursion (≈ 1 ms per `IntTy.wrap`), which makes a 65 536-case table
take an hour.  The definitions below are the `CInt` definitions verbatim with every `(2 : Int)^n` replaced by the cast
of the natural-number power (GMP-accelerated in the kernel).  `CnlProofs.Exp2` proves each of them *equal* to the `CInt`
original (`wrapF_eq`, `arithF_eq`, `cBinF_eq`, `cCmpF_eq`, `scale2F_eq`), so the model below is written with the
`CInt` semantics, not beside it. -/

/-! Strict sequencing: the kernel substitutes unevaluated terms for bound variables, so a chain of seven Horner
steps re-evaluates (or at least re-hashes) ever larger terms.  `forceInt x k` is `k x` (`forceInt_eq`), but its
`match` makes the kernel reduce `x` to a literal first; `x >>=! f` is `x >>= f` (`bindS_eq`) with the value forced. -/

def forceNat {α : Type} (n : Nat) (k : Nat → α) : α :=
  match n with
  | 0 => k 0
  | m + 1 => k (m + 1)

def forceInt {α : Type} (x : Int) (k : Int → α) : α :=
  match x with
  | .ofNat n => forceNat n fun n => k (.ofNat n)
  | .negSucc n => forceNat n fun n => k (.negSucc n)

def forceTV {α : Type} (v : TV) (k : TV → α) : α :=
  forceNat v.1.bits fun b =>
    match v.1.signed with
    | true => forceInt v.2 fun x => k (⟨b, true⟩, x)
    | false => forceInt v.2 fun x => k (⟨b, false⟩, x)

/-- strict bind on typed values -/
def bindS {β : Type} (x : Res TV) (f : TV → Res β) : Res β :=
  match x with
  | .ok v => forceTV v f
  | .ub k => .ub k
  | .trap p => .trap p
  | .throws p => .throws p
  | .unreachable m => .unreachable m
  | .oob i => .oob i
  | .diverges => .diverges
  | .ill m => .ill m

/-- strict bind on integers -/
def bindI {β : Type} (x : Res Int) (f : Int → Res β) : Res β :=
  match x with
  | .ok v => forceInt v f
  | .ub k => .ub k
  | .trap p => .trap p
  | .throws p => .throws p
  | .unreachable m => .unreachable m
  | .oob i => .oob i
  | .diverges => .diverges
  | .ill m => .ill m

infixl:55 " >>=! " => bindS
infixl:55 " >>=? " => bindI

/-- `2^n` as an integer, computed in `Nat` -/
def p2 (n : Nat) : Int := ((2^n : Nat) : Int)

def maxF (t : IntTy) : Int := if t.signed then p2 (t.bits-1) - 1 else p2 t.bits - 1
def lowestF (t : IntTy) : Int := if t.signed then -(p2 (t.bits-1)) else 0
def wrapF (t : IntTy) (v : Int) : Int :=
  if t.signed then ((v + p2 (t.bits-1)) % p2 t.bits) - p2 (t.bits-1) else v % p2 t.bits

def arithF (T : IntTy) (x : Int) : Res TV :=
  forceInt x fun x =>
  if T.signed then (if lowestF T ≤ x ∧ x ≤ maxF T then .ok (T, x) else .ub .signedOverflow) else .ok (T, wrapF T x)

def forceTy {α : Type} (t : IntTy) (k : IntTy → α) : α :=
  forceNat t.bits fun b =>
    match t.signed with
    | true => k ⟨b, true⟩
    | false => k ⟨b, false⟩

def cBinF (op : BinOp) (x y : TV) : Res TV :=
  forceTy (usualArith x.1 y.1) fun T =>
  forceInt (wrapF T x.2) fun a =>
  forceInt (wrapF T y.2) fun b =>
  match op with
  | .add => arithF T (a + b)
  | .sub => arithF T (a - b)
  | .mul => arithF T (a * b)
  | .div => if b = 0 then .ub .divByZero
            else if T.signed ∧ a = lowestF T ∧ b = -1 then .ub .divOverflow else arithF T (a.tdiv b)
  | .shl => forceTy (promote x.1) fun P =>
            if y.2 < 0 ∨ y.2 ≥ P.bits then .ub .shiftCount else .ok (P, wrapF P (x.2 * p2 y.2.toNat))
  | .shr => forceTy (promote x.1) fun P =>
            if y.2 < 0 ∨ y.2 ≥ P.bits then .ub .shiftCount else .ok (P, x.2 / p2 y.2.toNat)
  | o => cBin o x y

/-- `cCmp .le` -/
def cLeF (x y : TV) : Bool :=
  let T := usualArith x.1 y.1
  decide (wrapF T x.2 ≤ wrapF T y.2)

/-- `powerValueInt S k 2` -/
def powerValue2F (S : IntTy) (k : Nat) : Res TV :=
  if k = 0 then .ok (S, 1)
  else
    let P := promote S
    if k < P.digits then .ok (P, p2 k) else .ill "power_value: attempted operation will result in overflow"

/-- `scaleInt k 2 s` -/
def scale2F (k : Int) (s : TV) : Res TV :=
  if k ≥ 0 then
    powerValue2F s.1 k.toNat >>=! fun p =>
    cBinF .mul s p
  else
    powerValue2F s.1 (-k).toNat >>=! fun p =>
    if !(cLeF p (i32, 0)) then cBinF .div s p else .ill "scale: attempted operation will result in overflow"

/-! ## integer helpers -/

/-- `set_digits_t<T, d>` for a built-in integer: narrowest standard width with at least `d` digits -/
def setDigits (signed : Bool) (d : Nat) : IntTy :=
  let need := if signed then d + 1 else d
  ⟨if need ≤ 8 then 8 else if need ≤ 16 then 16 else if need ≤ 32 then 32 else if need ≤ 64 then 64 else 128, signed⟩

/-- `safe_multiply(a, b)` on representations (the exponents add) -/
def safeMul (a b : TV) : Res TV :=
  let dp := (usualArith a.1 b.1).digits
  let ds := a.1.digits + b.1.digits
  if dp < ds then
    cBinF .mul ((setDigits a.1.signed ds), a.2) ((setDigits b.1.signed ds), b.2)
  else if ds < dp then cBinF .mul a b
  else .ill "safe_multiply: ambiguous overload"

/-- `fp{product}`: `scaled<P, -2W>` → `scaled<uW, -W>`: `static_cast<uW>(scale<-W>(rep))` -/
def toFp (U : IntTy) (p : TV) : Res Int :=
  scale2F (-(U.bits : Int)) p >>=! fun q =>
  .ok (wrapF U q.2)

/-- one Horner step `fp{safe_multiply(xf, c + t)}` -/
def hornerStep (U : IntTy) (xf : Int) (c : Nat) (t : Int) : Res Int :=
  cBinF .add (U, (c : Int)) (U, t) >>=! fun s =>
  safeMul (U, xf) s >>=! fun p =>
  toFp U p

/-- `evaluate_polynomial(xf)` with coefficient list `[a1, …, a7]` -/
def evalPoly (U : IntTy) (cs : List Nat) (xf : Int) : Res Int :=
  match cs with
  | [a1, a2, a3, a4, a5, a6, a7] =>
    safeMul (U, (a7 : Int)) (U, xf) >>=! fun p7 =>
    toFp U p7 >>=? fun t7 =>
    hornerStep U xf a6 t7 >>=? fun t6 =>
    hornerStep U xf a5 t6 >>=? fun t5 =>
    hornerStep U xf a4 t5 >>=? fun t4 =>
    hornerStep U xf a3 t4 >>=? fun t3 =>
    hornerStep U xf a2 t3 >>=? fun t2 =>
    hornerStep U xf a1 t2
  | _ => .ill "coefficient table"

/-- `static_cast<Rep>(floor(x))` -/
def floored (f : Fmt) (rep : Int) : Res Int :=
  if f.exp < 0 then
    cBinF .shr (f.rep, rep) (i32, -f.exp) >>=! fun v =>
    .ok (wrapF f.rep v.2)
  else
    scale2F f.exp (f.rep, rep) >>=! fun v =>
    .ok (wrapF f.rep v.2)

/-- `fractional(x, floored)` converted to the parameter type `scaled_integer<Rep, power<E>>` of `exp2m1_0to1` -/
def fractional (f : Fmt) (rep fl : Int) : Res Int :=
  if -(f.rep.digits : Int) < f.exp then
    -- `x - floored`: the integer is lifted to `power<0>`, both sides are scaled to the lower exponent
    let c := min f.exp 0
    scale2F (f.exp - c) (f.rep, rep) >>=! fun a =>
    scale2F (0 - c) (f.rep, fl) >>=! fun b =>
    cBinF .sub a b >>=! fun d =>
    -- back to `scaled<Rep, E>` (exponent `c` → `E`)
    scale2F (c - f.exp) d >>=! fun r =>
    .ok (wrapF f.rep r.2)
  else .ok rep

/-- `to_rep(exp2m1_0to1<Rep, E>(frac))` -/
def exp2m1 (f : Fmt) (cs : List Nat) (frac : Int) : Res TV :=
  -- `from_rep<make_largest_ufraction<…>>(0)`: `from_rep` takes the representation type from its argument, an `int`
  if f.exp ≥ 0 then .ok (i32, 0)
  else
    let U := f.urep
    -- `scaled<uRep, E>{x}`, then `im{…}`: `scale<E − (−W)>`
    scale2F (f.exp + f.bits) (U, wrapF U frac) >>=! fun s =>
    forceInt (wrapF U s.2) fun xf =>
    evalPoly U cs xf >>=? fun p =>
    .ok (U, p)

/-- representation type of the value `exp2m1_0to1` returns -/
def polyTy (f : Fmt) : IntTy := if f.exp ≥ 0 then i32 else f.urep

/-- the arm of `fp::exp2<im>(x, floored)` that evaluates the polynomial, followed by the conversion to the return type `C → Rep` -/
def exp2Tail (cs : List Nat) (f : Fmt) (C : IntTy) (rep fl : Int) : Res Int :=
  let R := f.rep
  fractional f rep fl >>=? fun frac =>
  exp2m1 f cs frac >>=! fun poly =>
  cBinF .sub (i32, (f.bits : Int) + f.exp) (R, fl) >>=! fun cnt =>     -- −(−W) + E − floored
  cBinF .shr poly cnt >>=! fun sh =>
  cBinF .sub (R, fl) (i32, f.exp) >>=! fun k =>                          -- floored − E
  cBinF .shl (R, 1) k >>=! fun one =>
  cBinF .add sh one >>=! fun sum =>
  .ok (wrapF R (wrapF C sum.2))

/-- common type of the two arms of the conditional in `fp::exp2` (`uRep{1}` and the sum), by the usual conversions -/
def armTy (f : Fmt) : IntTy := usualArith f.urep (usualArith (promote (polyTy f)) (promote f.rep))

/-- `fp::not_above_exponent<Exponent>(floored)`: `floored <= Exponent` by value — `false` at compile time for an unsigned
`Rep` and a negative `Exponent`, the built-in comparison (value preserving in every remaining case) otherwise -/
def notAbove (f : Fmt) (fl : Int) : Bool :=
  if f.exp < 0 ∧ f.signed = false then false else cLeF (f.rep, fl) (i32, f.exp)

/-- `cnl::exp2` as repaired (`fix:` commits of C20): result = rep of `exp2(x)`.
* `Exponent > 0` and `x < 0`: returns zero before `floor(x)` is converted to `Rep` (the integer part `rep·2^E` need not fit);
* `fp::exp2<im>(x, floored)`: the test `floored <= Exponent` is made by value (`notAbove`). -/
def exp2With (cs : List Nat) (f : Fmt) (rep : Int) : Res Int :=
  let R := f.rep
  if f.exp > 0 ∧ rep < 0 then .ok 0 else
  floored f rep >>=? fun fl =>
  let C := armTy f
  if notAbove f fl then .ok (wrapF R (wrapF C 1))
  else exp2Tail cs f C rep fl

/-- the model of `cnl::exp2` on the format `f` with the coefficients the headers contain now -/
def exp2 (f : Fmt) (rep : Int) : Res Int := exp2With (coeffs f.bits) f rep

/-! ## as found (before the two repairs) -/

/-- `cnl::exp2` AS FOUND: `static_cast<Rep>(floor(x))` is evaluated for every `x` (wraps or overflows for a positive `Exponent`
when `rep·2^E` is outside `Rep`), and `floored <= Exponent` is the built-in comparison: for `Rep = uint32_t / uint64_t` the
negative `int` Exponent is converted to unsigned and the test is always true. -/
def exp2WithOrig (cs : List Nat) (f : Fmt) (rep : Int) : Res Int :=
  let R := f.rep
  floored f rep >>=? fun fl =>
  let C := armTy f
  if cLeF (R, fl) (i32, f.exp) then .ok (wrapF R (wrapF C 1))
  else exp2Tail cs f C rep fl

def exp2Orig (f : Fmt) (rep : Int) : Res Int := exp2WithOrig (coeffs f.bits) f rep

end Cnl.Exp2
