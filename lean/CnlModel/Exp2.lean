import CnlModel.Rep
import CnlModel.Generated.Exp2Coeffs
/-!
# CnlModel.Exp2 — `cnl::exp2(scaled_integer<Rep, power<E>>)` as written in `scaled_integer/math.h`

Every C++ sub-expression of `exp2`, `fp::exp2`, `fractional`, `exp2m1_0to1`, `evaluate_polynomial`,
`safe_multiply`, `rounding_conversion` and `poly_coeffs` has one line here, evaluated with the C++20
integer semantics of `CnlModel.CInt` (promotion, usual arithmetic conversions, wrap-around of unsigned
arithmetic, undefined shifts / signed overflow).  Width, signedness and exponent of the format are
arguments.  Everything is structural: `decide +kernel` can evaluate the model.

The coefficient table used by the model is the one the real compiler prints from the headers *now*
(`CnlModel.Generated.Exp2Coeffs`, rewritten on every run of the check); `derivedCoeffs` re-derives the
same numbers inside Lean from the decimal literals of `poly_coeffs` (decimal → binary64 → `rounding_conversion`),
and `CnlProofs.Exp2` proves the two tables equal, so a change of a literal in the header breaks a named equation.
-/
namespace Cnl.Exp2
open Cnl

/-- a `scaled_integer<Rep, power<exp, 2>>` format with a built-in `Rep` -/
structure Fmt where
  bits : Nat
  signed : Bool
  exp : Int
deriving DecidableEq, Repr

def Fmt.rep (f : Fmt) : IntTy := ⟨f.bits, f.signed⟩
/-- `fp::unsigned_rep` -/
def Fmt.urep (f : Fmt) : IntTy := ⟨f.bits, false⟩

/-! ## coefficients -/

/-- round-half-even of `n / d` -/
def roundHalfEven (n d : Nat) : Nat :=
  let q := n / d
  let r := n % d
  if 2 * r < d then q else if 2 * r > d then q + 1 else (if q % 2 = 0 then q else q + 1)

/-- `⌊log2 (n/d)⌋` for positive `n`, `d` -/
def ilog2Rat (n d : Nat) : Int :=
  let e : Int := (n.log2 : Int) - (d.log2 : Int)
  let ok : Bool := if e ≥ 0 then decide (d * 2^(e.toNat) ≤ n) else decide (d ≤ n * 2^((-e).toNat))
  if ok then e else e - 1

/-- the binary64 number nearest to `n/d` (normal range), as `m · 2^sh` with `2^52 ≤ m ≤ 2^53` -/
def toDouble (n d : Nat) : Nat × Int :=
  let e := ilog2Rat n d
  let sh : Int := e - 52
  let m := if sh ≥ 0 then roundHalfEven n (d * 2^sh.toNat) else roundHalfEven (n * 2^((-sh).toNat)) d
  (m, sh)

/-- the seven decimal literals of `poly_coeffs` (`a1 … a7`) as exact fractions -/
def coeffLits : List (Nat × Nat) :=
  [ (6931471860838825, 10^16), (2402263846181129, 10^16), (55505126858894846, 10^18),
    (9614017013719252, 10^18), (13422634797558564, 10^19), (14352314226313836, 10^20),
    (21498763160402416, 10^21) ]

/-- `rounding_conversion<scaled_integer<uW, power<-W>>>(d)`: the literal as a double, truncated into the
format with one more fractional bit, `+ 1`, `>> 1`, cast to `W` bits -/
def derivedCoeff (W : Nat) (lit : Nat × Nat) : Nat :=
  let md := toDouble lit.1 lit.2
  let k : Int := md.2 + (W + 1)
  let t : Nat := if k ≥ 0 then md.1 * 2^k.toNat else md.1 / 2^((-k).toNat)
  ((t + 1) / 2) % 2^W

def derivedCoeffs (W : Nat) : List Nat := coeffLits.map (derivedCoeff W)

def lookup (W : Nat) : List (Nat × List Nat) → Option (List Nat)
  | [] => none
  | (w, cs) :: t => if w = W then some cs else lookup W t

/-- the coefficient table the model evaluates with: the generated (compiler-printed) one where present -/
def coeffs (W : Nat) : List Nat :=
  match lookup W Generated.exp2Coeffs with
  | some cs => cs
  | none => derivedCoeffs W

/-! ## integer helpers -/

/-- `set_digits_t<T, d>` for a built-in integer: narrowest standard width with at least `d` digits -/
def setDigits (signed : Bool) (d : Nat) : IntTy :=
  let need := if signed then d + 1 else d
  ⟨if need ≤ 8 then 8 else if need ≤ 16 then 16 else if need ≤ 32 then 32 else if need ≤ 64 then 64 else 128, signed⟩

/-- `safe_multiply(a, b)` on representations (the exponents add) -/
def safeMul (a b : TV) : Res TV :=
  let dp := (usualArith a.1 b.1).digits
  let ds := a.1.digits + b.1.digits
  if dp < ds then
    cBin .mul ((setDigits a.1.signed ds), a.2) ((setDigits b.1.signed ds), b.2)
  else if ds < dp then cBin .mul a b
  else .ill "safe_multiply: ambiguous overload"

/-- `fp{product}`: `scaled<P, -2W>` → `scaled<uW, -W>`: `static_cast<uW>(scale<-W>(rep))` -/
def toFp (U : IntTy) (p : TV) : Res Int := do
  let q ← scaleInt (-(U.bits : Int)) 2 p
  pure (U.wrap q.2)

/-- one Horner step `fp{safe_multiply(xf, c + t)}` -/
def hornerStep (U : IntTy) (xf : Int) (c : Nat) (t : Int) : Res Int := do
  let s ← cBin .add (U, (c : Int)) (U, t)
  let p ← safeMul (U, xf) s
  toFp U p

/-- `evaluate_polynomial(xf)` with coefficient list `[a1, …, a7]` -/
def evalPoly (U : IntTy) (cs : List Nat) (xf : Int) : Res Int :=
  match cs with
  | [a1, a2, a3, a4, a5, a6, a7] => do
    let p7 ← safeMul (U, (a7 : Int)) (U, xf)
    let t7 ← toFp U p7
    let t6 ← hornerStep U xf a6 t7
    let t5 ← hornerStep U xf a5 t6
    let t4 ← hornerStep U xf a4 t5
    let t3 ← hornerStep U xf a3 t4
    let t2 ← hornerStep U xf a2 t3
    hornerStep U xf a1 t2
  | _ => .ill "coefficient table"

/-- `static_cast<Rep>(floor(x))` -/
def floored (f : Fmt) (rep : Int) : Res Int :=
  if f.exp < 0 then do
    let v ← cBin .shr (f.rep, rep) (i32, -f.exp)
    pure (f.rep.wrap v.2)
  else do
    let v ← scaleInt f.exp 2 (f.rep, rep)
    pure (f.rep.wrap v.2)

/-- `fractional(x, floored)` converted to the parameter type `scaled_integer<Rep, power<E>>` of `exp2m1_0to1` -/
def fractional (f : Fmt) (rep fl : Int) : Res Int :=
  if -(f.rep.digits : Int) < f.exp then do
    -- `x - floored`: the integer is lifted to `power<0>`, both sides are scaled to the lower exponent
    let c := min f.exp 0
    let a ← scaleInt (f.exp - c) 2 (f.rep, rep)
    let b ← scaleInt (0 - c) 2 (f.rep, fl)
    let d ← cBin .sub a b
    -- back to `scaled<Rep, E>` (exponent `c` → `E`)
    let r ← scaleInt (c - f.exp) 2 d
    pure (f.rep.wrap r.2)
  else pure rep

/-- `to_rep(exp2m1_0to1<Rep, E>(frac))` -/
def exp2m1 (f : Fmt) (cs : List Nat) (frac : Int) : Res TV :=
  -- `from_rep<make_largest_ufraction<…>>(0)`: `from_rep` takes the representation type from its argument, an `int`
  if f.exp ≥ 0 then pure (i32, 0)
  else do
    let U := f.urep
    let u := U.wrap frac                                     -- scaled<uRep, E>{x}
    let s ← scaleInt (f.exp + f.bits) 2 (U, u)               -- im{…}: scale<E − (−W)>
    let p ← evalPoly U cs (U.wrap s.2)
    pure (U, p)

/-- representation type of the value `exp2m1_0to1` returns -/
def polyTy (f : Fmt) : IntTy := if f.exp ≥ 0 then i32 else f.urep

/-- `fp::exp2<im>(x, floored)` followed by the conversion to the return type; result = rep of `exp2(x)` -/
def exp2With (cs : List Nat) (f : Fmt) (rep : Int) : Res Int := do
  let R := f.rep
  let U := f.urep
  let fl ← floored f rep
  -- the arms of the conditional: `uRep{1}` and the sum below; common type by the usual conversions
  let shT := promote (polyTy f)
  let oneT := promote R
  let sumT := usualArith shT oneT
  let C := usualArith U sumT
  if cCmp .le (R, fl) (i32, f.exp) then pure (R.wrap (C.wrap 1))
  else do
    let frac ← fractional f rep fl
    let poly ← exp2m1 f cs frac
    let cnt ← cBin .sub (i32, (f.bits : Int) + f.exp) (R, fl)       -- −(−W) + E − floored
    let sh ← cBin .shr poly cnt
    let k ← cBin .sub (R, fl) (i32, f.exp)                           -- floored − E
    let one ← cBin .shl (R, 1) k
    let sum ← cBin .add sh one
    pure (R.wrap (C.wrap sum.2))

/-- the model of `cnl::exp2` on the format `f` with the coefficients the headers contain now -/
def exp2 (f : Fmt) (rep : Int) : Res Int := exp2With (coeffs f.bits) f rep

end Cnl.Exp2
