import CnlModel.Ty
/-!
# scaled_integer over an elastic_integer (or a native-rounding nest over one): conversion to another exponent / to an integer

Value-level model (property C04, table `C04w ecvt`).  The route is `scaled/convert_operator.h` →
`_impl::scale<eS − eD>(rep)`:

* bare `elastic_integer<N, Nw>` (`elastic_integer/scale.h`): `to_rep(s) / (divisor_rep{1} << k)`, `divisor_rep` the storage of
  `elastic_integer<1 + k, Nw>` — a type that always holds `2^k` (whatever the width of the word holding the `N` digits),
  so the quotient is the exact truncated one;
* `overflow_integer<elastic_integer<N>>`, `static_number<N, E, native_rounding_tag>` (`overflow_integer.h`, `rounding_integer.h`
  → `_impl::default_scale`): the wrapper division `s / power_value<S, k>()`, the divisor an `elastic_integer<1 + k>`; the elastic
  operator (`elastic_tag/custom_operator.h`) divides in a type wide enough for **both** operands: the exact truncated quotient.

The quotient has no more digits than the source, so every later `static_cast` / checked narrowing keeps it whenever the
destination holds it (the grid only has such destinations).  `k ≤ 0` multiplies by `2^(−k)` in the widened type.
Lean core only.
-/
namespace Cnl.ElasticNarrow
open Cnl

/-- the representation brought from exponent `eS` to `eD = eS + k` -/
def rescale (v : Int) (k : Int) : Int :=
  if 0 ≤ k then v.tdiv (2 ^ k.toNat) else v * 2 ^ (-k).toNat

/-- digits and signedness of the elastic layer of a nest of overflow / rounding layers (`none`: no elastic layer) -/
def innerSigned : Ty → Option Bool
  | .int t => some t.signed
  | .wd _ n => innerSigned n
  | .rd r _ => innerSigned r
  | .ov r _ => innerSigned r
  | .el _ n => innerSigned n
  | _ => none

def elInfo : Ty → Option (Nat × Bool)
  | .el d n => (innerSigned n).map (fun s => (d, s))
  | .ov r _ => elInfo r
  | .rd r .nat => elInfo r
  | _ => none

/-- does a destination type hold the value?  (declared digits of an elastic destination, range of a built-in one) -/
def holds (D : Ty) (q : Int) : Bool :=
  match D with
  | .int t => t.inRange q
  | .sc r _ 2 =>
    match elInfo r with
    | some (n, sg) => decide (q.natAbs ≤ 2 ^ n - 1) && (sg || decide (0 ≤ q))
    | none => false
  | _ => false

/-- exponent of a destination -/
def expOf : Ty → Option Int
  | .int _ => some 0
  | .sc _ e 2 => some e
  | _ => none

/-- `static_cast<D>(S{v})`: `none` where the model does not apply -/
def convert (S D : Ty) (v : Int) : Option Num :=
  match S with
  | .sc r eS 2 =>
    match elInfo r, expOf D with
    | some _, some eD =>
      let q := rescale v (eD - eS)
      if holds D q then some (D, q) else none
    | _, _ => none
  | _ => none

/-- what the property demands of the result `r` of dropping `k` digits of `v`: `v / 2^k` truncated toward zero, stated
without division -/
def TruncTo (v : Int) (k : Nat) (r : Int) : Prop :=
  r.natAbs * 2 ^ k ≤ v.natAbs ∧ v.natAbs < (r.natAbs + 1) * 2 ^ k ∧ (r = 0 ∨ (0 < r ↔ 0 < v))

instance (v : Int) (k : Nat) (r : Int) : Decidable (TruncTo v k r) := by unfold TruncTo; exact inferInstance

end Cnl.ElasticNarrow
