import CnlModel.ElasticScaled
import CnlModel.Layered
/-!
# `/`, `%` and `cnl::quotient` on scaled_integer over wrapped representations (C02)

`/` and `%` are "non zero-degree" operators of `scaled/binary_operator.h`: they are applied to the two
representations directly, so over an `elastic_integer` representation they are `ElasticScaled.binOp` (the
elastic policy deduces digits and signedness of the result, `elastic_tag/custom_operator.h` picks the type the
division is executed in) and over an `overflow_integer` representation they are `Layered.bin` (the tagged
operator of `overflow/custom_operator.h` runs `is_overflow<divide_op>` first).  The radix only appears in
the type.  This file adds `cnl::quotient` for those two representations (`scaled_integer/named.h`,
the fraction conversion of `scaled/convert_operator.h`, `fixed_width_scale.h`), radix 2, and the C++
expression `(a/b)*b + a%b == a` evaluated operator by operator.  Lean core only.
-/
namespace Cnl.ScaledWrapped
open Cnl Cnl.Elastic Cnl.ElasticScaled

/-- `(a/b)*b + a%b == a` on elastic_scaled_integer: five operator applications -/
def identE (x y : ESNum) : Res Bool := do
  let q ← ElasticScaled.binOp .div x y
  let p ← ElasticScaled.binOp .mul q y
  let rm ← ElasticScaled.binOp .mod x y
  let s ← ElasticScaled.binOp .add p rm
  ElasticScaled.cmp .eq s x

/-- `cnl::quotient(a, b)` on elastic_scaled_integer (radix 2).
`natural_result = decltype(a / b)` has `digits a` digits; `rep_type = set_digits_t<natural_result, digits a + digits b>`,
so the result representation is `Dest = elastic_integer<digits a + digits b, N'>` with `N'` the narrowest type of
`a / b`, at exponent `exp a - exp b - digits b`.  The conversion from the fraction is
`static_cast<Dest>(fixed_width_scale<digits b>(static_cast<Dest>(num)) / den)`: the numerator's representation is
converted to the storage of `Dest`, multiplied by `2^(digits b)` there (a built-in product, `static_cast` back to the
storage), divided by the divisor with the elastic operator and converted to `Dest` again. -/
def quotientE (x y : ESNum) : Res ESNum := do
  let nat ← Elastic.binOp .div ⟨x.digits, x.narrowest, 0⟩ ⟨y.digits, y.narrowest, 1⟩
  let D := max (x.digits + y.digits) nat.digits
  match repTy x.digits x.narrowest, repTy D nat.narrowest with
  | some srep, some drep => do
    let num := Cnl.convert drep (srep, x.value)
    let p ← powerValueInt drep y.digits 2
    let scaled ← cBin .mul num p
    let fixed := Cnl.convert drep scaled
    let q ← Elastic.binOp .div ⟨D, nat.narrowest, fixed.2⟩ y.toE
    match repTy q.digits q.narrowest with
    | some qrep => pure ⟨D, nat.narrowest, x.exp - y.exp - y.digits, (Cnl.convert drep (qrep, q.value)).2⟩
    | none => .ill "quotient: digits exceed the widest integer"
  | _, _ => .ill "quotient: digits exceed the widest integer"

/-! ## an elastic_integer representation against an operand with a built-in representation

`scaled_integer<elastic_integer<D, N>, power<eL>>` combined with `scaled_integer<T, power<eR>>` (or a plain `T`, which
`scaled_integer/from_value.h` lifts to exponent 0), either operand order.  `/` and `%` strip the scaled layer and apply
the operator to `elastic_integer<D, N>` and `T`; "wrapper OP lower" (`wrapper/binary_arithmetic_operator.h`) lifts the
built-in operand with `from_value<elastic_integer<D, N>, T>` = `elastic_integer<digits T, set_width_t<T, width N>>`
(`elastic_integer/from_value.h`): the **signedness of `T`** at the width of `N`.  From there on both operands are
elastic and everything is the elastic/elastic model.  Every elastic result of an operator with the lifted operand has
a narrowest type of the width of `N` again, so the lifted type is the same in all five operators of the identity. -/

/-- `from_value<elastic_integer<_, N>, T>(v)` at exponent `e` -/
def ofBuiltin (n T : IntTy) (e : Int) (v : Int) : ESNum := ⟨T.digits, ⟨n.bits, T.signed⟩, e, v⟩

/-- `/` or `%`; `left`: the built-in operand is the left one -/
def binOpB (op : BinOp) (left : Bool) (x : ESNum) (T : IntTy) (eT : Int) (b : Int) : Res ESNum :=
  let y := ofBuiltin x.narrowest T eT b
  if left then ElasticScaled.binOp op y x else ElasticScaled.binOp op x y

def identB (left : Bool) (x : ESNum) (T : IntTy) (eT : Int) (b : Int) : Res Bool :=
  let y := ofBuiltin x.narrowest T eT b
  if left then identE y x else identE x y

def quotientB (left : Bool) (x : ESNum) (T : IntTy) (eT : Int) (b : Int) : Res ESNum :=
  let y := ofBuiltin x.narrowest T eT b
  if left then quotientE y x else quotientE x y

/-- a `scaled_integer<overflow_integer<T, tag>, power<e, radix>>` -/
def scOv (T : IntTy) (tag : OvTag) (e : Int) (radix : Nat) (v : Int) : Num := (.sc (.ov (.int T) tag) e radix, v)

/-- `(a/b)*b + a%b == a` on any two numbers of the layered model -/
def identL (x y : Num) : Res Bool := do
  let q ← Layered.bin .div x y
  let p ← Layered.bin .mul q y
  let rm ← Layered.bin .mod x y
  let s ← Layered.bin .add p rm
  Layered.cmp .eq s x

/-- conversion between two `overflow_integer`s of the same tag: checked, except under the native tag -/
def cvtO (tag : OvTag) (D : IntTy) (x : TV) : Res TV :=
  if tag == .nat then .ok (Cnl.convert D x) else Overflow.checkedConvert tag D x

/-- `cnl::quotient(a, b)` on `scaled_integer<overflow_integer<L, tag>, power<eL>>` and
`scaled_integer<overflow_integer<R, tag>, power<eR>>` (radix 2): as `Scaled.quotient`, with the two conversions to
the result representation `overflow_integer<D, tag>` and the division being the tagged operators; the pre-shift
`fixed_width_scale` acts on the built-in representation (`from_rep<Dest>(fixed_width_scale(to_rep(s)))`) and is
not checked. -/
def quotientO (tag : OvTag) (L : IntTy) (eL : Int) (R : IntTy) (eR : Int) (l r : Int) : Res (IntTy × Int × Int) :=
  let T := usualArith L R
  match Scaled.setDigitsInt T.signed (max (L.digits + R.digits) T.digits) with
  | none => .ill "quotient: digits exceed the widest integer"
  | some D => do
    let num ← cvtO tag D (L, l)
    let p ← powerValueInt D R.digits 2
    let scaled ← cBin .mul num p
    let fixed := Cnl.convert D scaled
    let q ← Overflow.checkedBin .builtin tag .div fixed (R, r)
    let z ← cvtO tag D q
    pure (D, eL - eR - R.digits, z.2)

end Cnl.ScaledWrapped
