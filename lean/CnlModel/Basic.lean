/-!
# CnlModel.Basic — result type shared by every model

`Res α` is what a C++ evaluation can do in the model: return a value, execute undefined
behaviour, trap / throw (the overflow tags' reactions), reach `unreachable`, write outside a
buffer, or fail to terminate.  Lean core only.
-/
namespace Cnl

/-- kinds of undefined behaviour the C++ semantics core distinguishes -/
inductive UB where
  | signedOverflow | divByZero | divOverflow | shiftCount | floatToIntRange | intrinsicArg
deriving DecidableEq, Repr

inductive Res (α : Type) where
  | ok (a : α)
  | ub (k : UB)
  | trap (pos : Bool)
  | throws (pos : Bool)
  | unreachable (msg : String)
  | oob (index : Nat)
  | diverges
  /-- the instantiation is ill-formed: the real program does not compile (outside every property's quantifier) -/
  | ill (msg : String)
deriving Repr, DecidableEq

namespace Res
@[inline] def bind {α β : Type} (x : Res α) (f : α → Res β) : Res β :=
  match x with
  | ok a => f a
  | ub k => ub k
  | trap p => trap p
  | throws p => throws p
  | unreachable m => unreachable m
  | oob i => oob i
  | diverges => diverges
  | ill m => ill m

instance : Monad Res where
  pure := ok
  bind := bind

@[simp] theorem bind_ok {α β : Type} (a : α) (f : α → Res β) : (ok a >>= f) = f a := rfl
@[simp] theorem bind_ub {α β : Type} (k : UB) (f : α → Res β) : ((ub k : Res α) >>= f) = ub k := rfl
@[simp] theorem pure_eq {α : Type} (a : α) : (pure a : Res α) = ok a := rfl

def isOk {α : Type} : Res α → Bool
  | ok _ => true
  | _ => false

def map {α β : Type} (f : α → β) (x : Res α) : Res β := x >>= fun a => ok (f a)

/-- an evaluation is *defined* when it does nothing the language leaves undefined and does
not reach an internal `unreachable` (traps and throws are defined reactions) -/
def isDefined {α : Type} : Res α → Bool
  | ub _ => false
  | unreachable _ => false
  | oob _ => false
  | diverges => false
  | _ => true
end Res

end Cnl
