import CnlModel.Rep
/-!
# scaled_integer conversion between different radixes (`scaled/convert_operator.h`, "integer -> integer")

    auto result{from_value<Result>(from)};                       // a variable of the SOURCE representation type
    if (SrcExponent  > 0) result = scale<SrcExponent,   SrcRadix >(result);
    if (DestExponent < 0) result = scale<-DestExponent, DestRadix>(result);
    if (SrcExponent  < 0) result = scale<SrcExponent,   SrcRadix >(result);
    if (DestExponent > 0) result = scale<-DestExponent, DestRadix>(result);
    return result;                                               // then converted to the destination representation

All multiplications come before all divisions; each step is computed in the promoted type and assigned back
to the variable (a conversion to the source representation type).  Built-in representations.  Lean core only.
-/
namespace Cnl.ScaledMixed
open Cnl

def step (S : IntTy) (k : Int) (radix : Nat) (t : TV) : Res TV :=
  if k = 0 then .ok t else do
    let r ← scaleInt k radix t
    pure (Cnl.convert S r)

def convert (S : IntTy) (eS : Int) (rS : Nat) (D : IntTy) (eD : Int) (rD : Nat) (v : Int) : Res TV := do
  let t0 : TV := (S, v)
  let t1 ← if eS > 0 then step S eS rS t0 else pure t0
  let t2 ← if eD < 0 then step S (-eD) rD t1 else pure t1
  let t3 ← if eS < 0 then step S eS rS t2 else pure t2
  let t4 ← if eD > 0 then step S (-eD) rD t3 else pure t3
  pure (Cnl.convert D t4)

end Cnl.ScaledMixed
