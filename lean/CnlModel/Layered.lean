import CnlModel.Scaled
import CnlModel.Overflow
import CnlModel.Rounding
/-!
# Nested wrappers: the dispatch of `wrapper/binary_arithmetic_operator.h` and friends

`ops n` is the generic operator set for numbers whose type has at most `n` wrapper layers.
A binary operator between a wrapper and a shallower number first lifts the latter with
`from_value` (one layer), then applies the tag-specific `custom_operator` to the two
representations using the operators of the level below, and wraps the result.
-/
namespace Cnl.Layered
open Cnl

/-- `from_value<Wrapper, Value>`: a `Value` wrapped in the outermost layer of `Wrapper` -/
def liftLike (w : Ty) (v : Ty) : Ty :=
  match w with
  | .sc _ _ radix => .sc v 0 radix
  | .ov _ tag => .ov v tag
  | .rd _ mode => .rd v mode
  | _ => v

/-- bring two operands to the same outermost wrapper (`number_can_wrap`) -/
def balance (x y : Num) : Num × Num :=
  if x.1.depth > y.1.depth then (x, (liftLike x.1 y.1, y.2))
  else if y.1.depth > x.1.depth then ((liftLike y.1 x.1, x.2), y)
  else (x, y)

/-- the count of a shift is unwrapped to its innermost representation -/
def innermost : Ty → Ty
  | .sc r _ _ => innermost r
  | .ov r _ => innermost r
  | .rd r _ => innermost r
  | .el _ n => innermost n
  | .wd _ n => innermost n
  | t => t

def wrapSc (radix : Nat) (r : Scaled.SNum) : Num := (.sc r.rep.1 r.exp radix, r.rep.2)

/-- tag-specific `custom_operator` on two operands with the same outermost wrapper -/
def binHeads (R : RepOps) (op : BinOp) (x y : Num) : Res Num :=
  match x.1, y.1 with
  | .int a, .int b => intOps.bin op (.int a, x.2) (.int b, y.2)
  | .sc rL eL radix, .sc rR eR radix' =>
    if radix = radix' then
      (Scaled.binOp R op radix ⟨(rL, x.2), eL⟩ ⟨(rR, y.2), eR⟩).map (wrapSc radix)
    else .ill "scaled operands of different radix"
  | .ov rL t, .ov rR t' =>
    if t = t' then (Overflow.binOp R t op (rL, x.2) (rR, y.2)).map (fun r => (.ov r.1 t, r.2))
    else .ill "overflow operands of different tags"
  | .rd rL m, .rd rR m' =>
    if m = m' then (Rounding.binOp R m op (rL, x.2) (rR, y.2)).map (fun r => (.rd r.1 m, r.2))
    else .ill "rounding operands of different modes"
  | _, _ => .ill "operand combination outside the model"

def binWith (R : RepOps) (op : BinOp) (x y : Num) : Res Num :=
  binHeads R op (balance x y).1 (balance x y).2

/-- shift operators: the count is unwrapped to its representation; the left operand's tag decides -/
def shiftWith (R : RepOps) (op : BinOp) (x y : Num) : Res Num :=
  let cnt : Num := (innermost y.1, y.2)
  match x.1 with
  | .int a => match cnt.1 with
    | .int b => intOps.bin op (.int a, x.2) (.int b, cnt.2)
    | _ => .ill "shift count outside the model"
  | .sc r e radix => (R.bin op (r, x.2) cnt).map (fun v => (.sc v.1 e radix, v.2))
  | .ov r t => (Overflow.binOp R t op (r, x.2) cnt).map (fun v => (.ov v.1 t, v.2))
  | .rd r m => (R.bin op (r, x.2) cnt).map (fun v => (.rd v.1 m, v.2))
  | _ => .ill "shift outside the model"

def cmpHeads (R : RepOps) (op : CmpOp) (x y : Num) : Res Bool :=
  match x.1, y.1 with
  | .int a, .int b => intOps.cmp op (.int a, x.2) (.int b, y.2)
  | .sc rL eL radix, .sc rR eR radix' =>
    if radix = radix' then Scaled.cmp R op radix ⟨(rL, x.2), eL⟩ ⟨(rR, y.2), eR⟩
    else .ill "scaled operands of different radix"
  | .ov rL t, .ov rR t' => if t = t' then R.cmp op (rL, x.2) (rR, y.2) else .ill "tags differ"
  | .rd rL m, .rd rR m' => if m = m' then R.cmp op (rL, x.2) (rR, y.2) else .ill "modes differ"
  | _, _ => .ill "operand combination outside the model"

def cmpWith (R : RepOps) (op : CmpOp) (x y : Num) : Res Bool :=
  cmpHeads R op (balance x y).1 (balance x y).2

inductive UnOp where | neg | bnot | pos
deriving DecidableEq, Repr

def unRep (R : RepOps) (u : UnOp) (x : Num) : Res Num :=
  match u with
  | .neg => R.neg x
  | .bnot => R.bnot x
  | .pos => R.pos x

def unWith (R : RepOps) (u : UnOp) (x : Num) : Res Num :=
  match x.1 with
  | .int a => unRep intOps u (.int a, x.2)
  | .sc r e radix => (unRep R u (r, x.2)).map (fun v => (.sc v.1 e radix, v.2))
  | .ov r t => (Overflow.unOp R t (u == .neg) (unRep R u) (r, x.2)).map (fun v => (.ov v.1 t, v.2))
  | .rd r m => (unRep R u (r, x.2)).map (fun v => (.rd v.1 m, v.2))
  | _ => .ill "unary operand outside the model"

/-- conversion between number types of the same wrapper structure with native tags: the
representation is converted layer by layer (used by compound assignment) -/
def castWith (R : RepOps) (t : Ty) (x : Num) : Res Num :=
  match t, x.1 with
  | .int d, .int a => intOps.cast (.int d) (.int a, x.2)
  | .sc rd e radix, .sc rs e' radix' =>
    if radix = radix' then (Scaled.convert R radix ⟨(rs, x.2), e'⟩ rd e).map (wrapSc radix)
    else .ill "scaled conversion between different radixes: not modelled"
  | .ov rd .nat, .ov rs .nat => (R.cast rd (rs, x.2)).map (fun v => (.ov v.1 .nat, v.2))
  | .rd rd .nat, .rd rs .nat => (R.cast rd (rs, x.2)).map (fun v => (.rd v.1 .nat, v.2))
  | _, _ => .ill "conversion outside the model"

/-- the type of `x << constant<k>` / `x >> constant<k>` when `x` is an `overflow_integer` or a
`rounding_integer` (`wrapper/shift_operator.h`: the wrapper of the shifted representation) -/
def shiftTyWith (R : RepOps) (t : Ty) (k : Nat) : Ty :=
  match t with
  | .ov r tag => .ov (R.shlConstTy r k) tag
  | .rd r m => .rd (R.shlConstTy r k) m
  | o => R.shlConstTy o k

/-- `std::numeric_limits<T>::max()` of a number type built from wrappers over a built-in integer:
the maximum of the innermost integer, as a `T` -/
def maxOfTy (t : Ty) : Res Num :=
  match innermost t with
  | .int a => .ok (t, a.max)
  | _ => .ill "numeric_limits::max: not modelled"

/-- `power_value_fn<S, n, Radix>` for `Radix != 2`: `S{1} * Radix * … * Radix`, each product the
wrapper's own operator with an `int` on the right.  Since the repair of `C04.unsigned_power_value_wraps`
each step asserts `lesser_power <= numeric_limits<decltype(lesser_power * Radix)>::max() / Radix`
(the division and the comparison are the wrapper's operators as well; the type of the product is
obtained from a product that cannot overflow — `decltype` does not evaluate). -/
def powerGoWith (R : RepOps) (radix : Nat) : Nat → Num → Res Num
  | 0, acc => .ok acc
  | n+1, acc =>
    binWith R .mul (acc.1, 0) (.int i32, (radix : Int)) >>= fun t =>
    maxOfTy t.1 >>= fun mx =>
    match binWith R .div mx (.int i32, (radix : Int)) with
    | .ok bound =>
      match cmpWith R .le acc bound with
      | .ok true => binWith R .mul acc (.int i32, (radix : Int)) >>= powerGoWith R radix n
      | .ok false => .ill "power_value: attempted operation will result in overflow"
      | _ => .ill "power_value: the assertion is not a constant expression"
    | _ => .ill "power_value: the assertion is not a constant expression"

/-- `power_value_fn` **as found**: no assertion -/
def powerGoWithOrig (R : RepOps) (radix : Nat) : Nat → Num → Res Num
  | 0, acc => .ok acc
  | n+1, acc => binWith R .mul acc (.int i32, (radix : Int)) >>= powerGoWithOrig R radix n

/-- `power_value<S, k, radix>()` (`_impl/power_value.h`) for a wrapper type `S`.  Radix 2:
`decltype(s >> constant<digits_v<S> - 1>){1} << constant<k>` — the shifts are the wrapper's own
operators, so the power has the promoted representation type and the shift is executed (and is
undefined for counts of the promoted width or more); there is no `static_assert` for a class type. -/
def powerValueWith (R : RepOps) (S : Ty) (k radix : Nat) : Res Num :=
  if k = 0 then .ok (S, 1)
  else if radix = 2 then shiftWith R .shl (shiftTyWith R S k, 1) (.int i32, (k : Int))
  else powerGoWith R radix k (S, 1)

/-- `_impl::default_scale<k, radix, S>` (`num_traits/scale.h`) for a wrapper type `S`:
`s * power_value<S, k, radix>()` resp. `s / power_value<S, -k, radix>()` with the wrapper's operators.
Since the repair of `C09.wrapped_power_is_int_min` the divisor is a `constexpr` variable (anything but a
value in its evaluation is ill-formed) under `static_assert(0 < divisor)`. -/
def defaultScaleWith (R : RepOps) (k : Int) (radix : Nat) (x : Num) : Res Num :=
  if k ≥ 0 then powerValueWith R x.1 k.toNat radix >>= fun p => binWith R .mul x p
  else
    match powerValueWith R x.1 (-k).toNat radix with
    | .ok p =>
      match cmpWith R .gt p (.int i32, 0) with
      | .ok true => binWith R .div x p
      | .ok false => .ill "scale: attempted operation will result in overflow"
      | _ => .ill "scale: the assertion is not a constant expression"
    | .ill m => .ill m
    | _ => .ill "scale: the divisor is not a constant expression"

/-- `d`, unless naming the type of `r` is already ill-formed -/
def illOr {α β : Type} (r : Res α) (d : Res β) : Res β :=
  match r with
  | .ill m => .ill m
  | _ => d

/-- `cnl::scale<k, radix>` of a wrapper.
* `rounding_integer.h`: `k ≥ 0` is `from_rep<rounding_integer<Rep, Tag>>(scale<k, radix, Rep>(to_rep(s)))`, which
  adopts the (promoted) type of the scaled representation; `k < 0` is specialised for radix 2 only and is
  `default_scale`, i.e. the tagged division by the power.
* `overflow_integer.h` (native tag modelled): `default_scale`, returned as
  `decltype(from_rep<S>(scale<k, radix>(to_rep(s))))`; naming that type instantiates `scale` of the
  representation, so the instantiation is ill-formed whenever that one is; the type itself is the type the
  product / quotient already has.
* no `scale` is defined for a `scaled_integer` (it cannot be the representation of another scaled_integer). -/
def scaleWith (R : RepOps) (k : Int) (radix : Nat) (x : Num) : Res Num :=
  match x.1 with
  | .rd r m =>
    if k ≥ 0 then (R.scale k radix (r, x.2)).map (fun v => (.rd v.1 m, v.2))
    else if radix = 2 then defaultScaleWith R k radix x
    else .ill "scale<negative, radix != 2> of a rounding_integer: no specialisation"
  | .ov r .nat =>
    illOr (R.scale k radix (r, x.2)) (defaultScaleWith R k radix x)
  | _ => .ill "scale of this representation: not defined / not modelled"

def ops : Nat → RepOps
  | 0 => intOps
  | n+1 =>
    let R := ops n
    { bin := fun op x y => match op with
        | .shl | .shr => shiftWith R op x y
        | _ => binWith R op x y
      cmp := cmpWith R
      neg := unWith R .neg
      bnot := unWith R .bnot
      pos := unWith R .pos
      scale := fun k radix x => match x.1 with
        | .int _ => intOps.scale k radix x
        | _ => scaleWith R k radix x
      cast := castWith R
      shlConstTy := fun t k => match t with
        | .int a => .int (promote a)
        | o => shiftTyWith R o k }

def level (x y : Num) : Nat := max x.1.depth y.1.depth

def bin (op : BinOp) (x y : Num) : Res Num := (ops (level x y)).bin op x y
def cmp (op : CmpOp) (x y : Num) : Res Bool := (ops (level x y)).cmp op x y
def un (u : UnOp) (x : Num) : Res Num := unWith (ops (x.1.depth - 1)) u x
def cast (t : Ty) (x : Num) : Res Num := (ops (max t.depth x.1.depth)).cast t x

/-- compound assignment `a op= b`: `a = static_cast<A>(a op b)` (`custom_operator/definition.h`) -/
def compound (op : BinOp) (x y : Num) : Res Num := do
  let r ← bin op x y
  cast x.1 r

end Cnl.Layered
