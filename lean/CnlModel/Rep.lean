import CnlModel.Ty
/-!
# Operations a layer needs from its representation type

Every CNL layer (`scaled_integer`, `overflow_integer`, …) is written against the generic
operators of its `Rep`.  `RepOps` is that interface; `intOps` is its instance for built-in
integers, `CnlModel.Layered` ties the knot for nested wrappers.
-/
namespace Cnl

structure RepOps where
  /-- `Operator()(lhs, rhs)` for the arithmetic, bitwise and shift operators -/
  bin : BinOp → Num → Num → Res Num
  /-- comparison operators -/
  cmp : CmpOp → Num → Num → Res Bool
  /-- unary minus, bitwise not, unary plus -/
  neg : Num → Res Num
  bnot : Num → Res Num
  pos : Num → Res Num
  /-- `cnl::scale<k, radix>(s)` : multiply (`k ≥ 0`) or divide (`k < 0`) by `radix^|k|` -/
  scale : Int → Nat → Num → Res Num
  /-- `static_cast<T>(s)` between representation types -/
  cast : Ty → Num → Res Num
  /-- the type of `rep << constant<k>` (used to align operands of a comparison) -/
  shlConstTy : Ty → Nat → Ty

/-- `power_value<S, k, radix>()` for a built-in integer `S`, `k ≥ 0`.
Ill-formed (`static_assert`) when the power does not fit the (promoted) type in which it is computed:
radix 2 is `decltype(…){1} << constant<k>`; every other radix multiplies `k` times by the `int`
radix, and since the repair of `C04.unsigned_power_value_wraps` each step asserts
`lesser_power <= numeric_limits<decltype(lesser_power * Radix)>::max() / Radix` (the lesser power is a
`constexpr` variable), for signed and unsigned types alike. -/
def powerValueInt (S : IntTy) (k : Nat) (radix : Nat) : Res TV :=
  if k = 0 then .ok (S, 1)
  else if radix = 2 then
    let P := promote S
    if k < P.digits then .ok (P, 2^k) else .ill "power_value: attempted operation will result in overflow"
  else
    -- S{1} * Radix * … * Radix, each step a built-in multiplication by an `int`
    let rec go : Nat → TV → Res TV
      | 0, acc => .ok acc
      | n+1, acc =>
        -- `T` = decltype(lesser_power * Radix); the bound and the comparison are built-in operators too
        let T := usualArith acc.1 i32
        match cBin .div (T, T.max) (i32, (radix : Int)) with
        | .ok bound =>
          if cCmp .le acc bound then
            match cBin .mul acc (i32, (radix : Int)) with
            | .ok v => go n v
            | _ => .ill "power_value: constant evaluation overflows"
          else .ill "power_value: attempted operation will result in overflow"
        | _ => .ill "power_value: the assertion is not a constant expression"
    go k (S, 1)

/-- `power_value` **as found** (before the repair): no assertion in the repeated multiplication, so an
unsigned (promoted) type wraps silently; a signed overflow is a constant-evaluation error. -/
def powerValueIntOrig (S : IntTy) (k : Nat) (radix : Nat) : Res TV :=
  if k = 0 then .ok (S, 1)
  else if radix = 2 then
    let P := promote S
    if k < P.digits then .ok (P, 2^k) else .ill "power_value: attempted operation will result in overflow"
  else
    let rec go : Nat → TV → Res TV
      | 0, acc => .ok acc
      | n+1, acc =>
        match cBin .mul acc (i32, (radix : Int)) with
        | .ok v => go n v
        | _ => .ill "power_value: constant evaluation overflows"
    go k (S, 1)

/-- `cnl::scale<k, radix>` on a built-in integer.  `k < 0`: since the repair of
`C09.wrapped_power_is_int_min` the divisor is a `constexpr` variable and `default_scale` asserts
`0 < divisor`; for a built-in `S` a well-formed power is positive (`ScaledP.powerValueInt_pos`), so the
assertion never fails there (it matters where the power is computed with a wrapper's operators:
`Layered.defaultScaleWith`, `RoundWrap.convert`). -/
def scaleInt (k : Int) (radix : Nat) (s : TV) : Res TV :=
  if k ≥ 0 then do
    let p ← powerValueInt s.1 k.toNat radix
    cBin .mul s p
  else do
    let p ← powerValueInt s.1 (-k).toNat radix
    if cCmp .gt p (i32, 0) then cBin .div s p else .ill "scale: attempted operation will result in overflow"

/-- `cnl::scale` **as found** (over `powerValueIntOrig`, no assertion on the divisor) -/
def scaleIntOrig (k : Int) (radix : Nat) (s : TV) : Res TV :=
  if k ≥ 0 then do
    let p ← powerValueIntOrig s.1 k.toNat radix
    cBin .mul s p
  else do
    let p ← powerValueIntOrig s.1 (-k).toNat radix
    cBin .div s p

def liftTV (r : Res TV) : Res Num := r.map (fun v => (Ty.int v.1, v.2))

/-- built-in integers as a representation type -/
def intOps : RepOps where
  bin := fun op x y =>
    match x.1, y.1 with
    | .int a, .int b => liftTV (cBin op (a, x.2) (b, y.2))
    | _, _ => .ill "intOps.bin: not built-in integers"
  cmp := fun op x y =>
    match x.1, y.1 with
    | .int a, .int b => .ok (cCmp op (a, x.2) (b, y.2))
    | _, _ => .ill "intOps.cmp: not built-in integers"
  neg := fun x => match x.1 with
    | .int a => liftTV (cNeg (a, x.2))
    | _ => .ill "intOps.neg"
  bnot := fun x => match x.1 with
    | .int a => liftTV (cNot (a, x.2))
    | _ => .ill "intOps.bnot"
  pos := fun x => match x.1 with
    | .int a => liftTV (cPos (a, x.2))
    | _ => .ill "intOps.pos"
  scale := fun k radix x => match x.1 with
    | .int a => liftTV (scaleInt k radix (a, x.2))
    | _ => .ill "intOps.scale"
  cast := fun t x => match t, x.1 with
    | .int d, .int a => .ok (Ty.int d, (convert d (a, x.2)).2)
    | _, _ => .ill "intOps.cast"
  shlConstTy := fun t _ => match t with
    | .int a => .int (promote a)
    | o => o

end Cnl
