import CnlModel.Rep
/-!
# overflow tags (placeholder: native only; the checked tags arrive with C06)
-/
namespace Cnl.Overflow

def binOp (R : RepOps) (tag : OvTag) (op : BinOp) (x y : Num) : Res Num :=
  match tag with
  | .nat => R.bin op x y
  | _ => .ill "checked overflow tags: not yet modelled"

def unOp (_R : RepOps) (tag : OvTag) (_isNeg : Bool) (plain : Num → Res Num) (x : Num) : Res Num :=
  match tag with
  | .nat => plain x
  | _ => .ill "checked overflow tags: not yet modelled"

end Cnl.Overflow
