import CnlModel.Rep
/-!
# overflow tags: `overflow/is_overflow.h`, `builtin_overflow.h`, `custom_operator.h`,
# `saturated.h`, `throwing.h`, `trapping.h`, `undefined.h`, `native.h`, `polarity.h`

Two detection paths: the compiler intrinsics (`__builtin_*_overflow` followed by a polarity
deduced from the operands) and the portable predicates.  Every sub-expression of a predicate is
evaluated with the C semantics core, so undefined behaviour *inside* the overflow test is a
value of the model.
-/
namespace Cnl.Overflow

inductive Path where | builtin | portable
deriving DecidableEq, Repr

/-- `overflow_digits<T, positive>` / `<T, negative>` -/
def posDigits (t : IntTy) : Nat := t.digits
def negDigits (t : IntTy) : Nat := if t.signed then t.digits else 0

def tmax (t : IntTy) : TV := (t, t.max)
def tlow (t : IntTy) : TV := (t, t.lowest)
def zero (t : IntTy) : TV := (t, 0)
def lit (v : Int) : TV := (i32, v)

def rbool (b : Bool) : Res Bool := .ok b

/-- `has_most_negative_number<T>`: signed and `lowest() < -max()` (every two's complement type) -/
def hasMostNegative (t : IntTy) : Bool := t.signed && decide (t.lowest < -t.max)

/-- `a && b` with C++ short-circuit evaluation -/
def andThen (a : Bool) (b : Res Bool) : Res Bool := if a then b else .ok false

/-- the tag's reaction to a detected overflow of the given polarity in result type `T` -/
def react (tag : OvTag) (pos : Bool) (T : IntTy) : Res TV :=
  match tag with
  | .sat => .ok (T, if pos then T.max else T.lowest)
  | .thr => .throws pos
  | .trp => .trap pos
  | .und => .unreachable (if pos then "positive overflow" else "negative overflow")
  | .nat => .ill "native tag does not react"

/-- `is_overflow<Operator, polarity>` for the binary arithmetic and shift operators -/
def isOverflowBin (op : BinOp) (pos : Bool) (x y : TV) : Res Bool :=
  let L := x.1; let R := y.1
  let T := binResultTy op L R
  match op, pos with
  | .add, true =>
    andThen (decide (max (posDigits L) (posDigits R) + 1 > posDigits T)) <|
    andThen (cCmp .gt x (zero L)) <| andThen (cCmp .gt y (zero R)) <| do
      let d ← cBin .sub (tmax T) y
      pure (cCmp .gt (convert T x) d)
  | .add, false =>
    andThen (decide (max (posDigits L) (posDigits R) + 1 > posDigits T)) <|
    andThen (cCmp .lt x (zero L)) <| andThen (cCmp .lt y (zero R)) <| do
      let d ← cBin .sub (tlow T) y
      pure (cCmp .lt (convert T x) d)
  | .sub, true =>
    andThen (decide (max (posDigits L) (negDigits R) + 1 > posDigits T)) <|
    andThen (cCmp .lt y (zero R)) <| do
      -- lhs > traits::max() + rhs
      let d ← cBin .add (tmax T) y
      pure (cCmp .gt x d)
  | .sub, false =>
    andThen (decide (max (posDigits L) (posDigits R) + 1 > posDigits T)) <|
    andThen (cCmp .ge y (lit 0)) <| do
      let d ← cBin .add (tlow T) y
      pure (cCmp .lt x d)
  | .mul, true =>
    andThen (decide (posDigits L + posDigits R > posDigits T)) <|
    if cCmp .gt x (zero L) then
      andThen (cCmp .gt y (zero R)) <| do
        let q ← cBin .div (tmax T) y
        pure (cCmp .lt q x)
    else
      andThen (cCmp .lt y (zero R)) <| do
        let q ← cBin .div (tmax T) y
        pure (cCmp .gt q x)
  | .mul, false =>
    andThen (decide (posDigits L + posDigits R > posDigits T)) <|
    if cCmp .lt x (zero L) then
      andThen (cCmp .gt y (zero R)) <| do
        let q ← cBin .div (tlow T) y
        pure (cCmp .gt q x)
    else
      andThen (cCmp .lt y (zero R)) <| andThen (cCmp .ne y (lit (-1))) <| do
        let q ← cBin .div (tlow T) y
        pure (cCmp .lt q x)
  | .div, true =>
    if L.signed then andThen (cCmp .eq y (lit (-1))) (rbool (cCmp .eq x (tlow T))) else .ok false
  | .shl, true =>
    andThen (cCmp .gt x (lit 0)) <| andThen (cCmp .gt y (lit 0)) <|
    if cCmp .lt y (lit (posDigits T)) then do
      let k ← cBin .sub (lit (posDigits T)) y
      let s ← cBin .shr x k
      pure (cCmp .ne s (lit 0))
    else .ok true
  | .shl, false =>
    if !L.signed then .ok false else
    andThen (cCmp .lt x (lit 0)) <| andThen (cCmp .gt y (lit 0)) <|
    -- max_shift = positive_digits + has_most_negative_number<result>: `-1 << digits` is the lowest
    -- value of a two's complement result and is in range (repair of C06.shl_minus_one_to_lowest)
    if cCmp .lt y (lit (posDigits T + (if hasMostNegative T then 1 else 0))) then do
      let k ← cBin .sub (lit (posDigits T)) y
      let s ← cBin .shr x k
      pure (cCmp .ne s (lit (-1)))
    else .ok true
  | _, _ => .ok false

/-- **as found** (before the repair of `C06.shl_minus_one_to_lowest`):
`is_overflow<shift_left_op, negative>` compared the count with `positive_digits` only, so
`-1 << digits` — the lowest value of the result type — was flagged -/
def isOverflowShlNegOrig (x y : TV) : Res Bool :=
  let L := x.1
  let T := binResultTy .shl L y.1
  if !L.signed then .ok false else
  andThen (cCmp .lt x (lit 0)) <| andThen (cCmp .gt y (lit 0)) <|
  if cCmp .lt y (lit (posDigits T)) then do
    let k ← cBin .sub (lit (posDigits T)) y
    let s ← cBin .shr x k
    pure (cCmp .ne s (lit (-1)))
  else .ok true

/-- `measure_polarity` : 1, 0, -1 -/
def measurePolarity (x : TV) : Int :=
  if cCmp .gt x (zero x.1) then 1 else if cCmp .lt x (zero x.1) then -1 else 0

/-- `overflow_polarity<Operator>` used after an intrinsic reported overflow -/
def overflowPolarity (op : BinOp) (x y : TV) : Int :=
  match op with
  | .add => if cCmp .gt x (zero x.1) && cCmp .gt y (zero y.1) then 1 else -1
  | .sub => if cCmp .lt y (zero y.1) then 1 else -1
  | _ => measurePolarity x * measurePolarity y

/-- `shift_op` -/
def isShift (op : BinOp) : Bool := op == .shl || op == .shr

/-- does `builtin_overflow_operator<Operator, Lhs, Rhs>` exist on this path -/
def hasBuiltin (path : Path) (op : BinOp) : Bool :=
  path == .builtin && (op == .add || op == .sub || op == .mul)

/-- tagged binary operator on built-in operands -/
def checkedBin (path : Path) (tag : OvTag) (op : BinOp) (x y : TV) : Res TV :=
  if tag == .nat then cBin op x y else
  let T := binResultTy op x.1 y.1
  if hasBuiltin path op then
    let (r, ovf) := builtinOverflow op T x y
    if !ovf then .ok r
    else
      let p := overflowPolarity op x y
      if p == 1 then react tag true T
      else if p == -1 then react tag false T
      else .unreachable "CNL internal error"
  else do
    let pos ← isOverflowBin op true x y
    if pos then react tag true T else do
      let neg ← isOverflowBin op false x y
      if neg then react tag false T
      -- shift_op custom_operator:
      -- `rhs >= max(width<result>, width<Lhs>) ? result(lhs < 0 ? -1 : 0) : Operator{}(lhs, rhs)`
      -- (`width<T> = digits_v<T> + signedness_v<T>`, the bit count of a built-in type; every bit of
      -- lhs is shifted out of the result and the fundamental operator would be undefined) — repair
      -- of C06/C07.shl_zero_by_wide_count and C07.shr_count_ge_width
      else if isShift op && cCmp .ge y (lit (max T.bits x.1.bits : Nat)) then
        .ok (convert T (lit (if cCmp .lt x (lit 0) then -1 else 0)))
      else cBin op x y

/-- **as found** (before the repairs of `shl_zero_by_wide_count`, `shr_count_ge_width`,
`shl_minus_one_to_lowest`): the tagged shift operators ran the two tests (the negative one as found)
and then the fundamental operator with whatever count they were given -/
def checkedShiftOrig (tag : OvTag) (op : BinOp) (x y : TV) : Res TV :=
  if tag == .nat then cBin op x y else
  let T := binResultTy op x.1 y.1
  do
    let pos ← isOverflowBin op true x y
    if pos then react tag true T else do
      let neg ← if op == .shl then isOverflowShlNegOrig x y else isOverflowBin op false x y
      if neg then react tag false T else cBin op x y

/-- `is_overflow<minus_op, polarity>` -/
def isOverflowNeg (pos : Bool) (x : TV) : Res Bool :=
  let T := promote x.1      -- operator_overflow_traits<minus_op, Rhs>::result
  if pos then
    -- has_most_negative_number<result>::value && rhs < -traits::max()
    andThen T.signed <| do
      let m ← cNeg (tmax T)
      pure (cCmp .lt x m)
  else
    -- !signedness_v<result> && rhs
    .ok (!T.signed && x.2 != 0)

/-- tagged unary minus on a built-in operand; result type `op_result<minus_op, Operand>` -/
def checkedNeg (tag : OvTag) (x : TV) : Res TV :=
  if tag == .nat then cNeg x else
  let T := promote x.1
  do
    let pos ← isOverflowNeg true x
    if pos then react tag true T else do
      let neg ← isOverflowNeg false x
      if neg then react tag false T else cNeg x

/-- `is_overflow_convert` for integer source and destination, then `static_cast` -/
def checkedConvert (tag : OvTag) (D : IntTy) (x : TV) : Res TV :=
  let S := x.1
  let pos := decide (posDigits D < posDigits S) && cCmp .gt x (convert S (tmax D))
  if pos then react tag true D else
  let neg := decide (negDigits D < negDigits S) && cCmp .lt x (convert S (tlow D))
  if neg then react tag false D else .ok (convert D x)

/-! ### conversions in which an overflow_integer takes part as a number

`_impl::wrapper<Rep, Tag>`'s converting constructors (`wrapper/definition.h`) hand the source's representation to
`convert<Tag, Rep, SrcTag>` — the tagged conversion above, with `common_overflow_tag_t<Tag, SrcTag>`:
overflow_integer → overflow_integer of the same tag (two different overflow tags have no common tag: ill-formed),
overflow_integer → built-in (`explicit operator S()`: `convert<native_tag, S, Tag>`), built-in or unrelated
wrapper → overflow_integer (`convert<Tag, Rep, native_tag>`).  Every one of them is `checkedConvert tag D (S, v)`
with `S` the source's (innermost) integer type — of any width: `elastic_integer<20>` is a 21-bit signed source. -/

/-- the converting constructor / conversion operator of `overflow_integer`, between representation types -/
def wrapperConvert (tag : OvTag) (D : IntTy) (x : TV) : Res TV := checkedConvert tag D x

/-! ### `scaled_integer` conversion between different radixes into an overflow_integer representation
(`scaled/convert_operator.h`, "integer -> integer (different radixes)")

    auto result{from_value<Result>(from)};     // overflow_integer<Input, Tag>: the SOURCE's integer type under the tag
    if (SrcExponent  > 0) result = scale<SrcExponent,   SrcRadix >(result);
    if (DestExponent < 0) result = scale<-DestExponent, DestRadix>(result);
    if (SrcExponent  < 0) result = scale<SrcExponent,   SrcRadix >(result);
    if (DestExponent > 0) result = scale<-DestExponent, DestRadix>(result);
    return result;                             // then the wrapper's constructor converts to Result under the tag

`scale<k, radix>(overflow_integer<T>)` is `s * power_value<S, k, radix>()` / `s / power_value<S, -k, radix>()`
under the tag (the power is an overflow_integer over the promoted type; it must fit: `static_assert`), and the
assignment back to `result` is the tagged conversion to `T`. -/

/-- one `result = scale<k, radix>(result)` on a variable of type `overflow_integer<T, tag>` -/
def scaleStep (path : Path) (tag : OvTag) (T : IntTy) (k : Int) (radix : Nat) (t : TV) : Res TV :=
  if k = 0 then .ok t else
  let P := promote T
  let p : Int := (radix : Int) ^ k.natAbs
  if !P.inRange p then .ill "power_value: attempted operation will result in overflow" else do
    let r ← checkedBin path tag (if k > 0 then .mul else .div) t (P, p)
    checkedConvert tag T r

/-- `scaled_integer<overflow_integer<D, tag>, power<eD, rD>>{scaled_integer<S, power<eS, rS>>}`, `rS ≠ rD`:
the representation value of the result -/
def radixConvert (path : Path) (tag : OvTag) (S : IntTy) (eS : Int) (rS : Nat) (D : IntTy) (eD : Int) (rD : Nat)
    (v : Int) : Res TV := do
  let t0 : TV := (S, v)
  let t1 ← if eS > 0 then scaleStep path tag S eS rS t0 else pure t0
  let t2 ← if eD < 0 then scaleStep path tag S (-eD) rD t1 else pure t1
  let t3 ← if eS < 0 then scaleStep path tag S eS rS t2 else pure t2
  let t4 ← if eD > 0 then scaleStep path tag S (-eD) rD t3 else pure t3
  checkedConvert tag D t4

/-! ### generic layer interface used by `CnlModel.Layered` (representations that are built-in
integers; other representations only under the native tag) -/

def asTV (x : Num) : Option TV :=
  match x.1 with
  | .int t => some (t, x.2)
  | _ => none

/-- the detection path the layered model assumes (the compiler default of the build under test
is passed by the driver; proofs quantify over both) -/
def binOpOn (path : Path) (R : RepOps) (tag : OvTag) (op : BinOp) (x y : Num) : Res Num :=
  match tag with
  | .nat => R.bin op x y
  | _ =>
    match asTV x, asTV y with
    | some a, some b => liftTV (checkedBin path tag op a b)
    | _, _ => .ill "checked overflow tags over wrapped representations: see CnlModel.Static"

def binOp (R : RepOps) (tag : OvTag) (op : BinOp) (x y : Num) : Res Num := binOpOn .builtin R tag op x y

def unOp (_R : RepOps) (tag : OvTag) (isNeg : Bool) (plain : Num → Res Num) (x : Num) : Res Num :=
  match tag with
  | .nat => plain x
  | _ =>
    match asTV x with
    | some a => if isNeg then liftTV (checkedNeg tag a) else plain x
    | none => .ill "checked overflow tags over wrapped representations: see CnlModel.Static"

end Cnl.Overflow
