import CnlModel.Elastic
import CnlModel.Rounding
import CnlModel.Overflow
/-!
# static_integer / static_number: the composition of the layers

`static_integer<D, R, O, N> = overflow_integer<elastic_integer<D, rounding_integer<wide_integer<digits N, N>, R>>, O>`
`static_number<D, E, R, O, N> = scaled_integer<static_integer<D, R, O, N>, power<E>>`

No new arithmetic: an operator goes through the scaled layer (exponent alignment by `scale`,
which for an elastic representation adds digits), the overflow layer (whose digit test is false
for `+ - *` because the elastic result is wider, and whose division test is false because the
elastic range is symmetric), the elastic layer (policy, storage, operand conversion) and the
rounding layer (division).

## Narrowest type and storage (section "typed static numbers")

The narrowest type `N` is a parameter of every operand (`TNum`): signed or unsigned, any width.
The elastic layer's narrowest type is `rounding_integer<wide_integer<digits N, N>, R>`, so
* the storage of `D` digits is the representation of `wide_integer<max(digits N, D), N>`
  (`wide_tag/definition.h`): the narrowest built-in integer of `N`'s signedness with that many digits, and
  beyond the widest built-in (127 / 128 digits) the multi-word `uintwide_t` of
  `ceil((digits + signed) / width N)` limbs of `width N` bits (`wide-integer.h`, `make_uintwide`) — `storage`.
  **This rests on C10**: property C10 (`CnlProperties/C10.lean`, format `Wide.storage` of `CnlModel/Wide.lean`)
  proves that such a multi-word integer is an `N`-bit two's-complement integer, `N` = limb width × limb count;
  the model therefore treats it as the two's-complement `IntTy` of that width (`CnlModel/CInt.lean` is written
  for any `bits`; integral promotion leaves every type of 32 bits or more alone, so it never applies to
  multi-word storage).  `storage_multiword_is_C10_format` (CnlProperties/C11.lean) ties `storage` to `Wide.storage`,
  `storage_spec` (CnlProofs/StaticT.lean) is the only fact about it the proofs use.
* the result narrowest of a binary operator (`elastic_tag/overloads.h`) has the width of the wider operand
  narrowest and the signedness of the policy (no integral promotion: the representation is a `wide_integer`);
  unary minus yields the signed narrowest; `scale<k>` keeps the narrowest; `<< constant<k>` adopts the signedness
  of the promoted storage (`elastic_integer/custom_operator.h`).
* a built-in operand `T` of a binary operator / comparison is turned by `from_value` into
  `elastic_integer<digits T, set_width_t<T, width N>>` (`elastic_integer/from_value.h`): `T`'s own signedness at
  the width of the static operand's narrowest (`ofBuiltin`).  Against a static_number with a negative exponent
  the scaled layer first scales the built-in operand **in its own (promoted) type** (`scaleInt`): that product can
  overflow — the open finding `C11.builtin_operand_scaled_in_its_own_type`.

The functions `binOp`, `neg`, `cmp`, `convert`, the shifts and the histories of `StaticExpr.lean` are the instances
for `Narrowest = int` (`narrowest`), any digit count.

## Shifts (section "shifts" below)

* **run-time count** (`x << n`, `x >> n`, `n` a built-in integer or a static_integer — the wrapper
  shift operators unwrap a CNL count to its innermost value, and every comparison the overflow layer
  makes with it is by value, so the count is an `Int`): the scaled layer (`scaled/binary_operator.h`,
  shift_op with a scaled tag) hands the representation to the overflow layer
  (`overflow/custom_operator.h`, shift_op): `is_overflow<shift_left_op, positive / negative>`
  (`overflow/is_overflow.h`) on the `elastic_integer<D>` operand — whose `positive_digits` is `D`,
  which has **no** most negative number and whose `width` is `D + 1` — then the tag's reaction, the
  "every bit shifted out" result for counts `≥ D + 1`, else the elastic run-time shift
  (`elastic_integer/custom_operator.h`: the representation's operator, rewrapped in the same type);
  the rounding layer and the wide storage pass shifts through to the built-in operator (`cBin`).
  The result has the operand's digits and exponent.  A negative run-time count reaches the built-in
  shift (undefined, as for built-in operands; outside the property's quantifier, C06/C07 likewise).
* **`cnl::constant<k>` count on a bare static_integer**: the same overflow-layer operator with
  `Rhs = constant<k>`; the result type of `<<` is `static_integer<D + k>` (`elShlConst`), so
  `positive_digits = D + k` and neither test can fire; `>>` yields `static_integer<D − k>`
  (`elShrConst`).  `k < 0` compiles and executes a built-in shift by a negative count; `k > D`
  on `>>` compiles to a type with a negative digit count: both are outside the quantifier.
* **`cnl::constant<k>` count on a static_number** (`scaled_integer/operators.h`): only the exponent
  changes, for every `k` of either sign.
* **`<<=`, `>>=`** (`custom_operator/definition.h`): `lhs = convert(lhs OP rhs)`, i.e. the shift
  followed by `Static.convert` to the left operand's type.
* a static_number used as a *count* compiles and is unwrapped to its representation value (its
  exponent is ignored); not a count kind of this model.
-/
namespace Cnl.Static
open Cnl

/-- a static number: declared digits, exponent and the representation value -/
structure SNum where
  digits : Nat
  exp : Int
  value : Int
deriving Repr, DecidableEq

/-- the instantiation's tags -/
structure Cfg where
  mode : RdMode
  tag : OvTag
deriving Repr, DecidableEq

/-- the default narrowest type `int` -/
def narrowest : IntTy := i32

/-! ## typed static numbers: the narrowest type is part of the operand -/

/-- a static number together with the narrowest type of its instantiation -/
structure TNum where
  n : IntTy
  x : SNum
deriving Repr, DecidableEq

/-- `wide_tag<max(digits N, D), N>::rep`: the storage of `D` digits over the narrowest type `N` — the built-in
integer `set_digits` selects, or (beyond the widest built-in) the multi-word two's-complement integer of
`ceil((digits + signed) / width N)` limbs of `width N` bits (C10) -/
def storage (n : IntTy) (digits : Nat) : Option IntTy :=
  match Elastic.repTy digits n with
  | some t => some t
  | none =>
    if n.bits = 0 then none
    else
      let minWidth := max n.digits digits + (if n.signed then 1 else 0)
      some ⟨n.bits * ((minWidth + n.bits - 1) / n.bits), n.signed⟩

def TNum.toE (t : TNum) : Elastic.ENum := ⟨t.x.digits, t.n, t.x.value⟩
def ofE (z : Elastic.ENum) (e : Int) : TNum := ⟨z.narrowest, ⟨z.digits, e, z.value⟩⟩

/-- "in range" of a typed static number: `[-(2^D − 1), 2^D − 1]`, non-negative under an unsigned narrowest type -/
def TNum.InRange (t : TNum) : Prop := t.toE.InRange
instance (t : TNum) : Decidable t.InRange := by unfold TNum.InRange; exact inferInstance

/-- the elastic layer's binary operator (`elastic_tag/custom_operator.h`) over the storage rule of a
`wide_integer` narrowest; `rop` is the operator of the representation (the rounding layer's) -/
def elBin (rop : BinOp → TV → TV → Res TV) (op : BinOp) (x y : Elastic.ENum) : Res Elastic.ENum :=
  match Elastic.policy op x.digits x.narrowest.signed y.digits y.narrowest.signed with
  | none => .ill "no elastic policy for this operator"
  | some (d, sg) =>
    -- tag narrowest: signedness from the policy, width of the wider narrowest
    let n : IntTy := ⟨max x.narrowest.bits y.narrowest.bits, sg⟩
    match storage n d with
    | none => .ill "no storage for the result digits"
    | some resultRep =>
      -- operate in a type wide enough for both operands as well as the result
      match storage n (max d (max x.digits y.digits)) with
      | none => .ill "no storage for the operand digits"
      | some operandRep =>
        let a : TV := convert operandRep (operandRep, x.value)
        let b : TV := convert operandRep (operandRep, y.value)
        match rop op a b with
        | .ok v => .ok ⟨d, n, resultRep.wrap v.2⟩
        | .ub k => .ub k
        | _ => .ill "unexpected"

/-- unary minus: `elastic_integer<D, signed narrowest>` -/
def elNegE (x : Elastic.ENum) : Res Elastic.ENum :=
  let n : IntTy := ⟨x.narrowest.bits, true⟩
  match storage n x.digits with
  | none => .ill "no storage for the digits"
  | some rep =>
    match cNeg (convert rep (rep, x.value)) with
    | .ok v => .ok ⟨x.digits, n, rep.wrap v.2⟩
    | .ub k => .ub k
    | _ => .ill "unexpected"

/-- `x << constant<k>`: `k` more digits -/
def elShlConst (x : Elastic.ENum) (k : Nat) : Res Elastic.ENum :=
  match storage x.narrowest (x.digits + k) with
  | none => .ill "no storage for the digits"
  | some rep =>
    match cBin .shl (convert rep (rep, x.value)) (i32, (k : Int)) with
    | .ok v =>
      -- `from_rep` adopts the signedness of the (promoted) shifted representation
      let n : IntTy := ⟨x.narrowest.bits, v.1.signed⟩
      match storage n (x.digits + k) with
      | some rep' => .ok ⟨x.digits + k, n, rep'.wrap v.2⟩
      | none => .ill "no storage for the digits"
    | .ub u => .ub u
    | _ => .ill "unexpected"

/-- `x >> constant<k>`: `k` fewer digits -/
def elShrConst (x : Elastic.ENum) (k : Nat) : Res Elastic.ENum :=
  match storage x.narrowest x.digits with
  | some rep =>
    match cBin .shr (convert rep (rep, x.value)) (i32, (k : Int)) with
    | .ok v =>
      let n : IntTy := ⟨x.narrowest.bits, v.1.signed⟩
      match storage n (x.digits - k) with
      | some rep'' => .ok ⟨x.digits - k, n, rep''.wrap v.2⟩
      | none => .ill "no storage for the digits"
    | .ub u => .ub u
    | _ => .ill "unexpected"
  | none => .ill "no storage for the digits"

/-- `scale<k, 2>` (`elastic_integer/scale.h`, `k ≥ 0`): `elastic_integer<D + k, N>` — the narrowest type is kept —
holding the representation times `2^k`, computed in the result's storage -/
def elScaleUp (x : Elastic.ENum) (k : Nat) : Res Elastic.ENum :=
  match storage x.narrowest (x.digits + k) with
  | none => .ill "no storage for the digits"
  | some rrep =>
    match cBin .mul (convert rrep (rrep, x.value)) (rrep, 2^k) with
    | .ok v => .ok ⟨x.digits + k, x.narrowest, rrep.wrap v.2⟩
    | .ub u => .ub u
    | _ => .ill "unexpected"

/-- comparison: both operands are converted to the common elastic type, then the representations are compared -/
def elCmp (op : CmpOp) (x y : Elastic.ENum) : Res Bool :=
  let s := x.narrowest.signed || y.narrowest.signed
  let nc : IntTy := ⟨max x.narrowest.bits y.narrowest.bits, s⟩
  match storage nc (max x.digits y.digits) with
  | none => .ill "no storage for the digits"
  | some rep => .ok (cCmp op (convert rep (rep, x.value)) (convert rep (rep, y.value)))

/-- the representation operator under the rounding tag, on storage-typed values -/
def repOp (c : Cfg) (op : BinOp) (a b : TV) : Res TV :=
  match Rounding.binOp intOps c.mode op (.int a.1, a.2) (.int b.1, b.2) with
  | .ok (.int t, v) => .ok (t, v)
  | .ok _ => .ill "unexpected representation"
  | .ub k => .ub k
  | .trap p => .trap p
  | .throws p => .throws p
  | .unreachable m => .unreachable m
  | .oob i => .oob i
  | .diverges => .diverges
  | .ill m => .ill m

/-- `cnl::scale<k, 2>` on a static number (`k ≥ 0`): `k` more digits, value times `2^k`, same narrowest -/
def scaleUpT (t : TNum) (k : Nat) : Res TNum :=
  if k = 0 then .ok t else
  (elScaleUp t.toE k).map (fun z => ofE z (t.x.exp - k))

/-- binary arithmetic on two typed static numbers -/
def binOpT (c : Cfg) (op : BinOp) (s t : TNum) : Res TNum :=
  match op with
  | .add | .sub => do
    let e := min s.x.exp t.x.exp
    let a ← scaleUpT s (s.x.exp - e).toNat
    let b ← scaleUpT t (t.x.exp - e).toNat
    let z ← elBin (repOp c) op a.toE b.toE
    pure (ofE z e)
  | .mul => do
    let z ← elBin (repOp c) op s.toE t.toE
    pure (ofE z (s.x.exp + t.x.exp))
  | .div => do
    let z ← elBin (repOp c) op s.toE t.toE
    pure (ofE z (s.x.exp - t.x.exp))
  | _ => .ill "operator outside the static model"

def negT (t : TNum) : Res TNum := (elNegE t.toE).map (fun z => ofE z t.x.exp)

/-- `%` (also the operator of `%=`) on two typed static numbers, whose narrowest types may differ in width and
signedness: modulo is not a zero-degree operator (`scaled/binary_operator.h`), so the representations are never
aligned; the elastic layer (`elastic_tag/policy.h`: `min` of the digits, signed when either operand is; both
operands converted to one storage type that holds either of them) applies the built-in `%` — the rounding and
overflow layers pass it through (`is_overflow<modulo_op>` is always false) — and the result keeps the dividend's
exponent (`operator%(power, power)`, `scaled/definition.h`): the exact remainder of the truncating division at the
resolution `2^(eL − eR)` of the quotient, for any pair of exponents -/
def remT (c : Cfg) (s t : TNum) : Res TNum := do
  let z ← elBin (repOp c) .mod s.toE t.toE
  pure (ofE z s.x.exp)

/-- comparison: alignment to the smaller exponent (wider elastic type), then by value -/
def cmpT (op : CmpOp) (s t : TNum) : Res Bool := do
  let e := min s.x.exp t.x.exp
  let a ← scaleUpT s (s.x.exp - e).toNat
  let b ← scaleUpT t (t.x.exp - e).toNat
  elCmp op a.toE b.toE

/-- the overflow-checked conversion of an elastic value into `D` digits of the given signedness: flagged iff the
value is outside `[-(2^D − 1), 2^D − 1]` (unsigned: `[0, 2^D − 1]`), then the tag reacts (saturation to the
declared limits) -/
def narrowTo (c : Cfg) (signed : Bool) (D : Nat) (v : Int) : Res Int :=
  let hi : Int := 2^D - 1
  let lo : Int := if signed then -hi else 0
  if v > hi then
    (match c.tag with
     | .sat => .ok hi
     | .thr => .throws true
     | .trp => .trap true
     | .und => .unreachable "positive overflow"
     | .nat => .ill "native tag: not modelled")
  else if v < lo then
    (match c.tag with
     | .sat => .ok lo
     | .thr => .throws false
     | .trp => .trap false
     | .und => .unreachable "negative overflow"
     | .nat => .ill "native tag: not modelled")
  else .ok v

/-- the same into the symmetric range of a signed narrowest type -/
def narrowDigits (c : Cfg) (D : Nat) (v : Int) : Res Int :=
  let hi : Int := 2^D - 1
  if v > hi then
    (match c.tag with
     | .sat => .ok hi
     | .thr => .throws true
     | .trp => .trap true
     | .und => .unreachable "positive overflow"
     | .nat => .ill "native tag: not modelled")
  else if v < -hi then
    (match c.tag with
     | .sat => .ok (-hi)
     | .thr => .throws false
     | .trp => .trap false
     | .und => .unreachable "negative overflow"
     | .nat => .ill "native tag: not modelled")
  else .ok v

/-- the tag's reaction to a detected overflow of a result with `D` digits of the given signedness -/
def reactTo (tag : OvTag) (pos : Bool) (signed : Bool) (D : Nat) : Res Int :=
  match tag with
  | .sat => .ok (if pos then 2^D - 1 else if signed then -(2^D - 1) else 0)
  | .thr => .throws pos
  | .trp => .trap pos
  | .und => .unreachable (if pos then "positive overflow" else "negative overflow")
  | .nat => .ill "native tag: not modelled"

/-- `numeric_limits<elastic_integer<d − k, N>>` with `k > d` (a negative digit count) shifts the limits of the
narrowest storage right by `digits − (d − k)`: defined only while that count is below the promoted width -/
def negDigitsOK (N : IntTy) (k d : Nat) : Bool :=
  match storage N 0 with
  | some r0 => decide (r0.digits + (k - d) < (promote r0).bits)
  | none => false

/-- conversion / assignment to `static_number<D, E, R, O, N>` (`scaled/convert_operator.h`:
`static_cast<Result>(scale<SrcExp − DestExp>(from_value<Result>(from)))`): `from_value` first turns the source
into `elastic_integer<SrcDigits, N>` — the destination's narrowest type: an overflow-checked conversion whose
digit preconditions (`is_overflow_convert`) leave only one test active, a negative value of a signed source under an
unsigned `N` —, then an exact rescaling when `E ≤ x.exp`, otherwise
a division of the rounding_integer representation by `2^(E - x.exp)` (the rounding division of
C08 in the storage type), followed by the overflow-checked narrowing of the digits -/
def convertT (c : Cfg) (N : IntTy) (D : Nat) (E : Int) (t : TNum) : Res TNum := do
  let v0 ← (if N.signed = false ∧ t.n.signed = true ∧ t.x.value < 0 then
      (if c.tag = .nat then .ill "native tag: not modelled" else reactTo c.tag false false t.x.digits)
    else .ok t.x.value : Res Int)
  let s : TNum := ⟨N, ⟨t.x.digits, t.x.exp, v0⟩⟩
  if E ≤ s.x.exp then do
    let a ← scaleUpT s (s.x.exp - E).toNat
    let v ← narrowTo c N.signed D a.x.value
    pure ⟨N, ⟨D, E, v⟩⟩
  else
    let k := (E - s.x.exp).toNat
    match storage N s.x.digits with
    | none => .ill "no storage for the digits"
    | some rep =>
      -- `scale<-k>` of an elastic_integer<Dx> yields elastic_integer<Dx - k>: constructing it from
      -- the quotient is itself an overflow-checked conversion into `Dx - k` digits
      -- an elastic_integer with a negative digit count `Dx - k`: its numeric_limits shift the limits of the
      -- narrowest storage right by `digits − (Dx − k)`: undefined when that count reaches the promoted width
      -- (always, for a narrowest type of 32 bits or more), otherwise the limits are `[0, 0]`
      if k > s.x.digits ∧ negDigitsOK N k s.x.digits = false then .ub .shiftCount
      else
        -- the divisor `divisor_rep{1} << k` has its own type `elastic_integer<1 + k>::rep`
        match storage N (1 + k) with
        | none => .ill "no storage for the digits"
        | some drep => do
        let q ← repOp c .div (rep, s.x.value) (drep, 2^k)
        let mid ← narrowTo c N.signed (s.x.digits - k) q.2
        let v ← narrowTo c N.signed D mid
        pure ⟨N, ⟨D, E, v⟩⟩

/-! ## built-in operands -/

/-- `from_value<elastic_integer<_, N>, T>`: a built-in `T` becomes `elastic_integer<digits T, set_width_t<T, width N>>` -/
def ofBuiltin (n : IntTy) (ty : IntTy) (v : Int) (e : Int) : TNum := ⟨⟨n.bits, ty.signed⟩, ⟨ty.digits, e, v⟩⟩

/-- an operand of a binary operator / comparison -/
inductive Opnd where
  | stat (t : TNum)
  | builtin (ty : IntTy) (v : Int)
deriving Repr, DecidableEq

def Opnd.exp : Opnd → Int
  | .stat t => t.x.exp
  | .builtin _ _ => 0

/-- the operand at the exponent `exp − k`, when the two exponents differ: a static number through `scale<k>` of
the elastic layer (more digits), a built-in integer through `scale<k>` **of its own type** (`value * 2^k` in the
promoted type, also for `k = 0`: undefined when a signed product overflows, reduced modulo `2^width` when
unsigned), then `from_value` -/
def Opnd.align (n : IntTy) (o : Opnd) (k : Nat) : Res TNum :=
  match o with
  | .stat t => scaleUpT t k
  | .builtin ty v =>
    match scaleInt (k : Int) 2 (ty, v) with
    | .ok r => .ok (ofBuiltin n r.1 r.2 (-(k : Int)))
    | .ub u => .ub u
    | _ => .ill "power_value: constant evaluation overflows"

def Opnd.raw (n : IntTy) : Opnd → TNum
  | .stat t => t
  | .builtin ty v => ofBuiltin n ty v 0

def Opnd.isBuiltinSigned : Opnd → Bool
  | .builtin ty _ => ty.signed
  | _ => false

/-- the overflow layer's tests (`overflow/is_overflow.h`) when one operand is a built-in integer: the layer sees
the built-in operand itself and the limits of the elastic result type.  For `+ −` the digit test is false; for `*`
it is active when the other operand has one digit (a product of `digits T + 0` digits) and then compares
`max / rhs` and `lowest / rhs` — **quotients of the elastic layer, rounded by the rounding tag** — with `lhs`; for `/`
with a signed built-in dividend it fires on `rhs == −1 ∧ lhs == lowest(result)` — the symmetric lowest
`−(2^digits T − 1)`, where the quotient `2^digits T − 1` would fit.  `some pos` = an overflow of that polarity. -/
def mixedOverflow (c : Cfg) (op : BinOp) (s : Opnd) (a b : TNum) (d : Nat) (sg : Bool) : Res (Option Bool) :=
  match op with
  | .mul =>
    if a.x.digits + b.x.digits > d then do
      let nres : IntTy := ⟨max a.n.bits b.n.bits, sg⟩
      let quo (lim : Int) : Res Int := (elBin (repOp c) .div ⟨d, nres, lim⟩ b.toE).map (·.value)
      let lhs := a.x.value
      let rhs := b.x.value
      let pos ← (if lhs > 0 then (if rhs > 0 then (quo (2^d - 1)).map (fun q => decide (q < lhs)) else pure false)
                 else (if rhs < 0 then (quo (2^d - 1)).map (fun q => decide (q > lhs)) else pure false) : Res Bool)
      if pos then pure (some true) else do
      let lowest : Int := if sg then -(2^d - 1 : Int) else 0
      let neg ← (if lhs < 0 then (if rhs > 0 then (quo lowest).map (fun q => decide (q > lhs)) else pure false)
                 else (if rhs < 0 ∧ rhs ≠ -1 then (quo lowest).map (fun q => decide (q < lhs)) else pure false) : Res Bool)
      pure (if neg then some false else none)
    else pure none
  | .div =>
    pure (if s.isBuiltinSigned && b.x.value == -1 && a.x.value == -(2^d - 1 : Int) then some true else none)
  | _ => pure none

/-- binary arithmetic where either operand may be a built-in integer; `n` is the narrowest type of the static
operand (only its width matters).  `+ −` align the exponents only when they differ (`scaled_integer/operators.h`) -/
def binOpO (c : Cfg) (n : IntTy) (op : BinOp) (s t : Opnd) : Res TNum :=
  match op with
  | .add | .sub =>
    if s.exp = t.exp then do
      let z ← elBin (repOp c) op (s.raw n).toE (t.raw n).toE
      pure (ofE z s.exp)
    else do
      let e := min s.exp t.exp
      let a ← s.align n (s.exp - e).toNat
      let b ← t.align n (t.exp - e).toNat
      let z ← elBin (repOp c) op a.toE b.toE
      pure (ofE z e)
  | .mul | .div =>
    let a := s.raw n
    let b := t.raw n
    match Elastic.policy op a.x.digits a.n.signed b.x.digits b.n.signed with
    | none => .ill "no elastic policy for this operator"
    | some (d, sg) =>
      let e := if op = .mul then a.x.exp + b.x.exp else a.x.exp - b.x.exp
      match mixedOverflow c op s a b d sg with
      | .ok (some pos) =>
        if c.tag = .nat then .ill "native tag: not modelled"
        else (reactTo c.tag pos sg d).map (fun v => ⟨⟨max a.n.bits b.n.bits, sg⟩, ⟨d, e, v⟩⟩)
      | .ok none => binOpT c op a b
      | .ub u => .ub u
      | _ => .ill "unexpected"
  | _ => .ill "operator outside the static model"

/-- `%` where either operand may be a built-in integer (`from_value`, never scaled: not a zero-degree operator) -/
def remO (c : Cfg) (n : IntTy) (s t : Opnd) : Res TNum := remT c (s.raw n) (t.raw n)

/-- comparison with a built-in operand (`scaled_integer/operators.h`): the operand with the larger exponent is
scaled to the smaller one -/
def cmpO (n : IntTy) (op : CmpOp) (s t : Opnd) : Res Bool :=
  if s.exp = t.exp then elCmp op (s.raw n).toE (t.raw n).toE
  else do
    let e := min s.exp t.exp
    let a ← if s.exp = e then pure (s.raw n) else s.align n (s.exp - e).toNat
    let b ← if t.exp = e then pure (t.raw n) else t.align n (t.exp - e).toNat
    elCmp op a.toE b.toE

/-! ## the instances for `Narrowest = int` -/

def toE (x : SNum) : Elastic.ENum := ⟨x.digits, narrowest, x.value⟩

def scaleUp (x : SNum) (k : Nat) : Res SNum := (scaleUpT ⟨narrowest, x⟩ k).map (·.x)

/-- binary arithmetic on two static numbers -/
def binOp (c : Cfg) (op : BinOp) (x y : SNum) : Res SNum := (binOpT c op ⟨narrowest, x⟩ ⟨narrowest, y⟩).map (·.x)

def neg (x : SNum) : Res SNum := (negT ⟨narrowest, x⟩).map (·.x)

def cmp (op : CmpOp) (x y : SNum) : Res Bool := cmpT op ⟨narrowest, x⟩ ⟨narrowest, y⟩

def convert (c : Cfg) (D : Nat) (E : Int) (x : SNum) : Res SNum := (convertT c narrowest D E ⟨narrowest, x⟩).map (·.x)

/-! ## shifts -/

/-- the tag's reaction to a detected overflow of a `D`-digit result: `numeric_limits` of the
elastic_integer are `±(2^D − 1)` -/
def reactDigits (tag : OvTag) (pos : Bool) (D : Nat) : Res Int :=
  match tag with
  | .sat => .ok (if pos then 2^D - 1 else -(2^D - 1))
  | .thr => .throws pos
  | .trp => .trap pos
  | .und => .unreachable (if pos then "positive overflow" else "negative overflow")
  | .nat => .ill "native tag: not modelled"

/-- `elastic_integer<D> OP n` for a run-time count (`elastic_integer/custom_operator.h`):
`from_rep<lhs_type>(Operator{}(to_rep(lhs), rhs))` — the built-in shift of the storage type -/
def elShift (op : BinOp) (D : Nat) (v k : Int) : Res Int :=
  match storage narrowest D with
  | none => .ill "no storage for the digits"
  | some rep =>
    match cBin op (rep, v) (i32, k) with
    | .ok r => .ok (rep.wrap r.2)
    | .ub u => .ub u
    | _ => .ill "unexpected"

/-- unary minus of the `elastic_integer<D>` operand, by value -/
def elNeg (D : Nat) (v : Int) : Res Int :=
  match elNegE ⟨D, narrowest, v⟩ with
  | .ok z => .ok z.value
  | .ub u => .ub u
  | _ => .ill "digits exceed the widest integer"

/-- `is_overflow<shift_left_op, Polarity>` (`overflow/is_overflow.h`) on an operand that is an
`elastic_integer<D>`; `pd` is `positive_digits` of the *result* type (`D` for a run-time count,
`D + k` for `constant<k>`).  The result type has no most negative number: `max_shift = pd`, and the
negative test is the positive test of the negated operand (`(-lhs >> (pd - rhs)) != 0`). -/
def isOverflowShl (pos : Bool) (pd D : Nat) (x k : Int) : Res Bool :=
  if pos then
    if x > 0 then
      if k > 0 then
        if k < pd then do
          let s ← elShift .shr D x (pd - k)
          pure (s != 0)
        else .ok true
      else .ok false
    else .ok false
  else
    if x < 0 then
      if k > 0 then
        if k < pd then do
          let n ← elNeg D x
          let s ← elShift .shr D n (pd - k)
          pure (s != 0)
        else .ok true
      else .ok false
    else .ok false

/-- **as found** (before the repair of `C11.shl_to_minus_two_pow_digits_not_flagged`): the negative
test compared `lhs >> (pd - rhs)` with `-1` whatever the result type, so `-2^(D-k) << k = -2^D` —
one below the lowest value `-(2^D - 1)` of the symmetric elastic range — was let through -/
def isOverflowShlNegOrig (pd D : Nat) (x k : Int) : Res Bool :=
  if x < 0 then
    if k > 0 then
      if k < pd then do
        let s ← elShift .shr D x (pd - k)
        pure (s != -1)
      else .ok true
    else .ok false
  else .ok false

def mkS (D : Nat) (E : Int) (r : Res Int) : Res SNum := r.map (fun v => ⟨D, E, v⟩)

/-- the overflow layer's left shift operator (`overflow/custom_operator.h`, shift_op) with the negative
test as a parameter; `pd` is the digit count of the result type (its `positive_digits`), `D` that of
the operand, and `sh` the elastic layer's shift, reached when neither test fires and the count is
below `max(width<result>, width<Lhs>) = max(pd, D) + 1` -/
def checkedShl (negTest : Res Bool) (c : Cfg) (pd D : Nat) (E : Int) (x k : Int) (sh : Res SNum) : Res SNum :=
  if c.tag = .nat then .ill "native tag: not modelled" else do
  let p ← isOverflowShl true pd D x k
  if p then mkS pd E (reactDigits c.tag true pd) else do
  let n ← negTest
  if n then mkS pd E (reactDigits c.tag false pd)
  -- every bit of lhs is shifted out of the result: `rhs >= max(width<result>, width<Lhs>)`
  else if k ≥ (max (pd + 1) (D + 1) : Nat) then .ok ⟨pd, E, if x < 0 then -1 else 0⟩
  else sh

/-- `x << n`, `x >> n` with a run-time count `n` (by value); static_integer and static_number alike -/
def shiftRT (c : Cfg) (op : BinOp) (x : SNum) (k : Int) : Res SNum :=
  match op with
  | .shl =>
    checkedShl (isOverflowShl false x.digits x.digits x.value k) c x.digits x.digits x.exp x.value k
      (mkS x.digits x.exp (elShift .shl x.digits x.value k))
  | .shr =>
    if c.tag = .nat then .ill "native tag: not modelled"
    else if k ≥ (x.digits + 1 : Nat) then .ok ⟨x.digits, x.exp, if x.value < 0 then -1 else 0⟩
    else mkS x.digits x.exp (elShift .shr x.digits x.value k)
  | _ => .ill "operator outside the static model"

/-- **as found**: `shiftRT` with the as-found negative test -/
def shiftRTOrig (c : Cfg) (op : BinOp) (x : SNum) (k : Int) : Res SNum :=
  match op with
  | .shl =>
    checkedShl (isOverflowShlNegOrig x.digits x.digits x.value k) c x.digits x.digits x.exp x.value k
      (mkS x.digits x.exp (elShift .shl x.digits x.value k))
  | _ => shiftRT c op x k

/-- `x << constant<k>`, `x >> constant<k>` on a bare static_integer (`k ≥ 0`; `>>`: `k ≤ D`) -/
def shiftConstInt (c : Cfg) (op : BinOp) (x : SNum) (k : Nat) : Res SNum :=
  match op with
  | .shl =>
    checkedShl (isOverflowShl false (x.digits + k) x.digits x.value k) c (x.digits + k) x.digits x.exp x.value k
      (match elShlConst (toE x) k with
       | .ok z => .ok ⟨z.digits, x.exp, z.value⟩
       | .ub u => .ub u
       | _ => .ill "digits exceed the widest integer")
  | .shr =>
    if c.tag = .nat then .ill "native tag: not modelled"
    else if k > x.digits then .ill "negative digit count"
    else
      match elShrConst (toE x) k with
      | .ok z => .ok ⟨z.digits, x.exp, z.value⟩
      | .ub u => .ub u
      | _ => .ill "digits exceed the widest integer"
  | _ => .ill "operator outside the static model"

/-- `x << constant<k>`, `x >> constant<k>` on a static_number: the exponent moves, `k` of either sign -/
def shiftConstNum (op : BinOp) (x : SNum) (k : Int) : Res SNum :=
  match op with
  | .shl => .ok ⟨x.digits, x.exp + k, x.value⟩
  | .shr => .ok ⟨x.digits, x.exp - k, x.value⟩
  | _ => .ill "operator outside the static model"

/-- `x <<= n`, `x >>= n`: the shift, then the conversion back to the left operand's type -/
def shiftAssign (c : Cfg) (sh : Res SNum) (x : SNum) : Res SNum := sh >>= fun z => convert c x.digits x.exp z

end Cnl.Static
