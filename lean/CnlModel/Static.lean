import CnlModel.Elastic
import CnlModel.Rounding
import CnlModel.Overflow
/-!
# static_integer / static_number: the composition of the layers

`static_integer<D, R, O, N> = overflow_integer<elastic_integer<D, rounding_integer<wide_integer<digits N, N>, R>>, O>`
`static_number<D, E, R, O, N> = scaled_integer<static_integer<D, R, O, N>, power<E>>`

No new arithmetic: an operator goes through the scaled layer (exponent alignment by `scale`,
which for an elastic representation adds digits), the overflow layer (whose digit test is false
for `+ - *` because the elastic result is wider, and whose division test is false because the
elastic range is symmetric), the elastic layer (policy, storage, operand conversion) and the
rounding layer (division).  The storage is modelled as a two's-complement integer of the width
`set_digits` selects (C10 shows wide_integer is exactly that).
-/
namespace Cnl.Static
open Cnl

/-- a static number: declared digits, exponent and the representation value -/
structure SNum where
  digits : Nat
  exp : Int
  value : Int
deriving Repr, DecidableEq

/-- the instantiation's tags; the narrowest type is `int` (signed 32-bit) -/
structure Cfg where
  mode : RdMode
  tag : OvTag
deriving Repr, DecidableEq

def narrowest : IntTy := i32

def toE (x : SNum) : Elastic.ENum := ⟨x.digits, narrowest, x.value⟩

/-- the representation operator under the rounding tag, on storage-typed values -/
def repOp (c : Cfg) (op : BinOp) (a b : TV) : Res TV :=
  match Rounding.binOp intOps c.mode op (.int a.1, a.2) (.int b.1, b.2) with
  | .ok (.int t, v) => .ok (t, v)
  | .ok _ => .ill "unexpected representation"
  | .ub k => .ub k
  | .trap p => .trap p
  | .throws p => .throws p
  | .unreachable m => .unreachable m
  | .oob i => .oob i
  | .diverges => .diverges
  | .ill m => .ill m

/-- `cnl::scale<k, 2>` on a static_integer (`k ≥ 0`): `k` more digits, value times `2^k` -/
def scaleUp (x : SNum) (k : Nat) : Res SNum :=
  if k = 0 then .ok x else
  match Elastic.shlConst (toE x) k with
  | .ok z => .ok ⟨z.digits, x.exp - k, z.value⟩
  | .ub u => .ub u
  | _ => .ill "digits exceed the widest integer"

/-- binary arithmetic on two static numbers -/
def binOp (c : Cfg) (op : BinOp) (x y : SNum) : Res SNum :=
  match op with
  | .add | .sub => do
    let e := min x.exp y.exp
    let a ← scaleUp x (x.exp - e).toNat
    let b ← scaleUp y (y.exp - e).toNat
    let z ← Elastic.binOpWith (repOp c) op (toE a) (toE b)
    pure ⟨z.digits, e, z.value⟩
  | .mul => do
    let z ← Elastic.binOpWith (repOp c) op (toE x) (toE y)
    pure ⟨z.digits, x.exp + y.exp, z.value⟩
  | .div => do
    let z ← Elastic.binOpWith (repOp c) op (toE x) (toE y)
    pure ⟨z.digits, x.exp - y.exp, z.value⟩
  | _ => .ill "operator outside the static model"

def neg (x : SNum) : Res SNum :=
  match Elastic.neg (toE x) with
  | .ok z => .ok ⟨z.digits, x.exp, z.value⟩
  | .ub u => .ub u
  | _ => .ill "digits exceed the widest integer"

/-- comparison: alignment to the smaller exponent (wider elastic type), then by value -/
def cmp (op : CmpOp) (x y : SNum) : Res Bool := do
  let e := min x.exp y.exp
  let a ← scaleUp x (x.exp - e).toNat
  let b ← scaleUp y (y.exp - e).toNat
  Elastic.cmp op (toE a) (toE b)

/-- the overflow-checked conversion of an elastic value into `D` digits: flagged iff the value
is outside `[-(2^D - 1), 2^D - 1]`, then the tag reacts (saturation to the declared limits) -/
def narrowDigits (c : Cfg) (D : Nat) (v : Int) : Res Int :=
  let hi : Int := 2^D - 1
  if v > hi then
    (match c.tag with
     | .sat => .ok hi
     | .thr => .throws true
     | .trp => .trap true
     | .und => .unreachable "positive overflow"
     | .nat => .ill "native tag: not modelled")
  else if v < -hi then
    (match c.tag with
     | .sat => .ok (-hi)
     | .thr => .throws false
     | .trp => .trap false
     | .und => .unreachable "negative overflow"
     | .nat => .ill "native tag: not modelled")
  else .ok v

/-- conversion / assignment to `static_number<D, E>`: exact rescaling when `E ≤ x.exp`, otherwise
a division of the rounding_integer representation by `2^(E - x.exp)` (the rounding division of
C08 in the storage type), followed by the overflow-checked narrowing of the digits -/
def convert (c : Cfg) (D : Nat) (E : Int) (x : SNum) : Res SNum :=
  if E ≤ x.exp then do
    let a ← scaleUp x (x.exp - E).toNat
    let v ← narrowDigits c D a.value
    pure ⟨D, E, v⟩
  else
    let k := (E - x.exp).toNat
    match Elastic.repTy x.digits narrowest with
    | none => .ill "digits exceed the widest integer"
    | some rep =>
      -- `scale<-k>` of an elastic_integer<Dx> yields elastic_integer<Dx - k>: constructing it from
      -- the quotient is itself an overflow-checked conversion into `Dx - k` digits
      if k > x.digits then
        -- elastic_integer with a negative digit count: its numeric_limits shift by a
        -- negative count
        .ub .shiftCount
      else
        -- the divisor `divisor_rep{1} << k` has its own type `elastic_integer<1 + k>::rep`
        match Elastic.repTy (1 + k) narrowest with
        | none => .ill "digits exceed the widest integer"
        | some drep => do
        let q ← repOp c .div (rep, x.value) (drep, 2^k)
        let mid ← narrowDigits c (x.digits - k) q.2
        let v ← narrowDigits c D mid
        pure ⟨D, E, v⟩

end Cnl.Static
