import CnlModel.Elastic
import CnlModel.Rounding
import CnlModel.Overflow
/-!
# static_integer / static_number: the composition of the layers

`static_integer<D, R, O, N> = overflow_integer<elastic_integer<D, rounding_integer<wide_integer<digits N, N>, R>>, O>`
`static_number<D, E, R, O, N> = scaled_integer<static_integer<D, R, O, N>, power<E>>`

No new arithmetic: an operator goes through the scaled layer (exponent alignment by `scale`,
which for an elastic representation adds digits), the overflow layer (whose digit test is false
for `+ - *` because the elastic result is wider, and whose division test is false because the
elastic range is symmetric), the elastic layer (policy, storage, operand conversion) and the
rounding layer (division).  The storage is modelled as a two's-complement integer of the width
`set_digits` selects (C10 shows wide_integer is exactly that).

## Shifts (section "shifts" below)

* **run-time count** (`x << n`, `x >> n`, `n` a built-in integer or a static_integer — the wrapper
  shift operators unwrap a CNL count to its innermost value, and every comparison the overflow layer
  makes with it is by value, so the count is an `Int`): the scaled layer (`scaled/binary_operator.h`,
  shift_op with a scaled tag) hands the representation to the overflow layer
  (`overflow/custom_operator.h`, shift_op): `is_overflow<shift_left_op, positive / negative>`
  (`overflow/is_overflow.h`) on the `elastic_integer<D>` operand — whose `positive_digits` is `D`,
  which has **no** most negative number and whose `width` is `D + 1` — then the tag's reaction, the
  "every bit shifted out" result for counts `≥ D + 1`, else the elastic run-time shift
  (`elastic_integer/custom_operator.h`: the representation's operator, rewrapped in the same type);
  the rounding layer and the wide storage pass shifts through to the built-in operator (`cBin`).
  The result has the operand's digits and exponent.  A negative run-time count reaches the built-in
  shift (undefined, as for built-in operands; outside the property's quantifier, C06/C07 likewise).
* **`cnl::constant<k>` count on a bare static_integer**: the same overflow-layer operator with
  `Rhs = constant<k>`; the result type of `<<` is `static_integer<D + k>` (`Elastic.shlConst`), so
  `positive_digits = D + k` and neither test can fire; `>>` yields `static_integer<D − k>`
  (`Elastic.shrConst`).  `k < 0` compiles and executes a built-in shift by a negative count; `k > D`
  on `>>` compiles to a type with a negative digit count: both are outside the quantifier.
* **`cnl::constant<k>` count on a static_number** (`scaled_integer/operators.h`): only the exponent
  changes, for every `k` of either sign.
* **`<<=`, `>>=`** (`custom_operator/definition.h`): `lhs = convert(lhs OP rhs)`, i.e. the shift
  followed by `Static.convert` to the left operand's type.
* a static_number used as a *count* compiles and is unwrapped to its representation value (its
  exponent is ignored); not a count kind of this model.
-/
namespace Cnl.Static
open Cnl

/-- a static number: declared digits, exponent and the representation value -/
structure SNum where
  digits : Nat
  exp : Int
  value : Int
deriving Repr, DecidableEq

/-- the instantiation's tags; the narrowest type is `int` (signed 32-bit) -/
structure Cfg where
  mode : RdMode
  tag : OvTag
deriving Repr, DecidableEq

def narrowest : IntTy := i32

def toE (x : SNum) : Elastic.ENum := ⟨x.digits, narrowest, x.value⟩

/-- the representation operator under the rounding tag, on storage-typed values -/
def repOp (c : Cfg) (op : BinOp) (a b : TV) : Res TV :=
  match Rounding.binOp intOps c.mode op (.int a.1, a.2) (.int b.1, b.2) with
  | .ok (.int t, v) => .ok (t, v)
  | .ok _ => .ill "unexpected representation"
  | .ub k => .ub k
  | .trap p => .trap p
  | .throws p => .throws p
  | .unreachable m => .unreachable m
  | .oob i => .oob i
  | .diverges => .diverges
  | .ill m => .ill m

/-- `cnl::scale<k, 2>` on a static_integer (`k ≥ 0`): `k` more digits, value times `2^k` -/
def scaleUp (x : SNum) (k : Nat) : Res SNum :=
  if k = 0 then .ok x else
  match Elastic.shlConst (toE x) k with
  | .ok z => .ok ⟨z.digits, x.exp - k, z.value⟩
  | .ub u => .ub u
  | _ => .ill "digits exceed the widest integer"

/-- binary arithmetic on two static numbers -/
def binOp (c : Cfg) (op : BinOp) (x y : SNum) : Res SNum :=
  match op with
  | .add | .sub => do
    let e := min x.exp y.exp
    let a ← scaleUp x (x.exp - e).toNat
    let b ← scaleUp y (y.exp - e).toNat
    let z ← Elastic.binOpWith (repOp c) op (toE a) (toE b)
    pure ⟨z.digits, e, z.value⟩
  | .mul => do
    let z ← Elastic.binOpWith (repOp c) op (toE x) (toE y)
    pure ⟨z.digits, x.exp + y.exp, z.value⟩
  | .div => do
    let z ← Elastic.binOpWith (repOp c) op (toE x) (toE y)
    pure ⟨z.digits, x.exp - y.exp, z.value⟩
  | _ => .ill "operator outside the static model"

def neg (x : SNum) : Res SNum :=
  match Elastic.neg (toE x) with
  | .ok z => .ok ⟨z.digits, x.exp, z.value⟩
  | .ub u => .ub u
  | _ => .ill "digits exceed the widest integer"

/-- comparison: alignment to the smaller exponent (wider elastic type), then by value -/
def cmp (op : CmpOp) (x y : SNum) : Res Bool := do
  let e := min x.exp y.exp
  let a ← scaleUp x (x.exp - e).toNat
  let b ← scaleUp y (y.exp - e).toNat
  Elastic.cmp op (toE a) (toE b)

/-- the overflow-checked conversion of an elastic value into `D` digits: flagged iff the value
is outside `[-(2^D - 1), 2^D - 1]`, then the tag reacts (saturation to the declared limits) -/
def narrowDigits (c : Cfg) (D : Nat) (v : Int) : Res Int :=
  let hi : Int := 2^D - 1
  if v > hi then
    (match c.tag with
     | .sat => .ok hi
     | .thr => .throws true
     | .trp => .trap true
     | .und => .unreachable "positive overflow"
     | .nat => .ill "native tag: not modelled")
  else if v < -hi then
    (match c.tag with
     | .sat => .ok (-hi)
     | .thr => .throws false
     | .trp => .trap false
     | .und => .unreachable "negative overflow"
     | .nat => .ill "native tag: not modelled")
  else .ok v

/-- conversion / assignment to `static_number<D, E>`: exact rescaling when `E ≤ x.exp`, otherwise
a division of the rounding_integer representation by `2^(E - x.exp)` (the rounding division of
C08 in the storage type), followed by the overflow-checked narrowing of the digits -/
def convert (c : Cfg) (D : Nat) (E : Int) (x : SNum) : Res SNum :=
  if E ≤ x.exp then do
    let a ← scaleUp x (x.exp - E).toNat
    let v ← narrowDigits c D a.value
    pure ⟨D, E, v⟩
  else
    let k := (E - x.exp).toNat
    match Elastic.repTy x.digits narrowest with
    | none => .ill "digits exceed the widest integer"
    | some rep =>
      -- `scale<-k>` of an elastic_integer<Dx> yields elastic_integer<Dx - k>: constructing it from
      -- the quotient is itself an overflow-checked conversion into `Dx - k` digits
      if k > x.digits then
        -- elastic_integer with a negative digit count: its numeric_limits shift by a
        -- negative count
        .ub .shiftCount
      else
        -- the divisor `divisor_rep{1} << k` has its own type `elastic_integer<1 + k>::rep`
        match Elastic.repTy (1 + k) narrowest with
        | none => .ill "digits exceed the widest integer"
        | some drep => do
        let q ← repOp c .div (rep, x.value) (drep, 2^k)
        let mid ← narrowDigits c (x.digits - k) q.2
        let v ← narrowDigits c D mid
        pure ⟨D, E, v⟩

/-! ## shifts -/

/-- the tag's reaction to a detected overflow of a `D`-digit result: `numeric_limits` of the
elastic_integer are `±(2^D − 1)` -/
def reactDigits (tag : OvTag) (pos : Bool) (D : Nat) : Res Int :=
  match tag with
  | .sat => .ok (if pos then 2^D - 1 else -(2^D - 1))
  | .thr => .throws pos
  | .trp => .trap pos
  | .und => .unreachable (if pos then "positive overflow" else "negative overflow")
  | .nat => .ill "native tag: not modelled"

/-- `elastic_integer<D> OP n` for a run-time count (`elastic_integer/custom_operator.h`):
`from_rep<lhs_type>(Operator{}(to_rep(lhs), rhs))` — the built-in shift of the storage type -/
def elShift (op : BinOp) (D : Nat) (v k : Int) : Res Int :=
  match Elastic.repTy D narrowest with
  | none => .ill "digits exceed the widest integer"
  | some rep =>
    match cBin op (rep, v) (i32, k) with
    | .ok r => .ok (rep.wrap r.2)
    | .ub u => .ub u
    | _ => .ill "unexpected"

/-- unary minus of the `elastic_integer<D>` operand, by value -/
def elNeg (D : Nat) (v : Int) : Res Int :=
  match Elastic.neg ⟨D, narrowest, v⟩ with
  | .ok z => .ok z.value
  | .ub u => .ub u
  | _ => .ill "digits exceed the widest integer"

/-- `is_overflow<shift_left_op, Polarity>` (`overflow/is_overflow.h`) on an operand that is an
`elastic_integer<D>`; `pd` is `positive_digits` of the *result* type (`D` for a run-time count,
`D + k` for `constant<k>`).  The result type has no most negative number: `max_shift = pd`, and the
negative test is the positive test of the negated operand (`(-lhs >> (pd - rhs)) != 0`). -/
def isOverflowShl (pos : Bool) (pd D : Nat) (x k : Int) : Res Bool :=
  if pos then
    if x > 0 then
      if k > 0 then
        if k < pd then do
          let s ← elShift .shr D x (pd - k)
          pure (s != 0)
        else .ok true
      else .ok false
    else .ok false
  else
    if x < 0 then
      if k > 0 then
        if k < pd then do
          let n ← elNeg D x
          let s ← elShift .shr D n (pd - k)
          pure (s != 0)
        else .ok true
      else .ok false
    else .ok false

/-- **as found** (before the repair of `C11.shl_to_minus_two_pow_digits_not_flagged`): the negative
test compared `lhs >> (pd - rhs)` with `-1` whatever the result type, so `-2^(D-k) << k = -2^D` —
one below the lowest value `-(2^D - 1)` of the symmetric elastic range — was let through -/
def isOverflowShlNegOrig (pd D : Nat) (x k : Int) : Res Bool :=
  if x < 0 then
    if k > 0 then
      if k < pd then do
        let s ← elShift .shr D x (pd - k)
        pure (s != -1)
      else .ok true
    else .ok false
  else .ok false

def mkS (D : Nat) (E : Int) (r : Res Int) : Res SNum := r.map (fun v => ⟨D, E, v⟩)

/-- the overflow layer's left shift operator (`overflow/custom_operator.h`, shift_op) with the negative
test as a parameter; `pd` is the digit count of the result type (its `positive_digits`), `D` that of
the operand, and `sh` the elastic layer's shift, reached when neither test fires and the count is
below `max(width<result>, width<Lhs>) = max(pd, D) + 1` -/
def checkedShl (negTest : Res Bool) (c : Cfg) (pd D : Nat) (E : Int) (x k : Int) (sh : Res SNum) : Res SNum :=
  if c.tag = .nat then .ill "native tag: not modelled" else do
  let p ← isOverflowShl true pd D x k
  if p then mkS pd E (reactDigits c.tag true pd) else do
  let n ← negTest
  if n then mkS pd E (reactDigits c.tag false pd)
  -- every bit of lhs is shifted out of the result: `rhs >= max(width<result>, width<Lhs>)`
  else if k ≥ (max (pd + 1) (D + 1) : Nat) then .ok ⟨pd, E, if x < 0 then -1 else 0⟩
  else sh

/-- `x << n`, `x >> n` with a run-time count `n` (by value); static_integer and static_number alike -/
def shiftRT (c : Cfg) (op : BinOp) (x : SNum) (k : Int) : Res SNum :=
  match op with
  | .shl =>
    checkedShl (isOverflowShl false x.digits x.digits x.value k) c x.digits x.digits x.exp x.value k
      (mkS x.digits x.exp (elShift .shl x.digits x.value k))
  | .shr =>
    if c.tag = .nat then .ill "native tag: not modelled"
    else if k ≥ (x.digits + 1 : Nat) then .ok ⟨x.digits, x.exp, if x.value < 0 then -1 else 0⟩
    else mkS x.digits x.exp (elShift .shr x.digits x.value k)
  | _ => .ill "operator outside the static model"

/-- **as found**: `shiftRT` with the as-found negative test -/
def shiftRTOrig (c : Cfg) (op : BinOp) (x : SNum) (k : Int) : Res SNum :=
  match op with
  | .shl =>
    checkedShl (isOverflowShlNegOrig x.digits x.digits x.value k) c x.digits x.digits x.exp x.value k
      (mkS x.digits x.exp (elShift .shl x.digits x.value k))
  | _ => shiftRT c op x k

/-- `x << constant<k>`, `x >> constant<k>` on a bare static_integer (`k ≥ 0`; `>>`: `k ≤ D`) -/
def shiftConstInt (c : Cfg) (op : BinOp) (x : SNum) (k : Nat) : Res SNum :=
  match op with
  | .shl =>
    checkedShl (isOverflowShl false (x.digits + k) x.digits x.value k) c (x.digits + k) x.digits x.exp x.value k
      (match Elastic.shlConst (toE x) k with
       | .ok z => .ok ⟨z.digits, x.exp, z.value⟩
       | .ub u => .ub u
       | _ => .ill "digits exceed the widest integer")
  | .shr =>
    if c.tag = .nat then .ill "native tag: not modelled"
    else if k > x.digits then .ill "negative digit count"
    else
      match Elastic.shrConst (toE x) k with
      | .ok z => .ok ⟨z.digits, x.exp, z.value⟩
      | .ub u => .ub u
      | _ => .ill "digits exceed the widest integer"
  | _ => .ill "operator outside the static model"

/-- `x << constant<k>`, `x >> constant<k>` on a static_number: the exponent moves, `k` of either sign -/
def shiftConstNum (op : BinOp) (x : SNum) (k : Int) : Res SNum :=
  match op with
  | .shl => .ok ⟨x.digits, x.exp + k, x.value⟩
  | .shr => .ok ⟨x.digits, x.exp - k, x.value⟩
  | _ => .ill "operator outside the static model"

/-- `x <<= n`, `x >>= n`: the shift, then the conversion back to the left operand's type -/
def shiftAssign (c : Cfg) (sh : Res SNum) (x : SNum) : Res SNum := sh >>= fun z => convert c x.digits x.exp z

end Cnl.Static
