import CnlModel.Elastic
/-!
# elastic_integer results that need multi-word storage

When the policy's digits exceed the widest built-in integer, `set_digits_t` selects
`wide_integer<digits, Narrowest>` (`_impl/wide_integer/…`): a two's-complement integer of as many machine words as
the digits need.  `CnlModel.Elastic.binOp` / `neg` model built-in storage only and return `.ill` there.  `xBin` /
`xNeg` extend them: the type follows the same rule as for built-in storage (the policy's digits; the narrowest type
of the result tag), and the value is the exact mathematical result — **that the multi-word storage computes it
exactly is property C10's theorem** (`CnlProperties/C10.lean`: `wide_integer` arithmetic is arithmetic modulo
`2^bits`, and the policy's digits fit the storage); this model takes it as the definition.  Validated against the
real code by the `xbin` / `xneg` / `xident` lines of the `C05` correspondence table (`/` and `%`: divisors of 1, 2,
3, … limbs of 8/16/32/64 bits, every sign combination, dividend smaller than / equal to / a multiple of the divisor,
operands that take step D6 "add back" of Knuth's algorithm D).  A zero divisor in multi-word storage is outside the
property (the vendored routine returns its maximum value instead of trapping); it is not modelled and the harness
does not send it.  Lean core only.
-/
namespace Cnl.Elastic
open Cnl

/-- the exact mathematical result of an arithmetic operator (`/` truncates toward zero, `%` has the sign of the
dividend) -/
def exactBin (op : BinOp) (l r : Int) : Int :=
  match op with
  | .add => l + r | .sub => l - r | .mul => l * r | .div => l.tdiv r | .mod => l.tmod r
  | _ => 0

/-- binary arithmetic operator, multi-word results included: `binOp` wherever that is well-formed (built-in
storage), otherwise the policy's digits, the tag's narrowest type and the exact value -/
def xBin (op : BinOp) (x y : ENum) : Res ENum :=
  match binOp op x y with
  | .ill _ =>
    (match policy op x.digits x.narrowest.signed y.digits y.narrowest.signed with
     | some (d, sg) => .ok ⟨d, ⟨max x.narrowest.bits y.narrowest.bits, sg⟩, exactBin op x.value y.value⟩
     | none => .ill "no policy")
  | r => r

/-- `(x / y) * y + x % y`, each operator applied to the elastic result of the one before (the `xident` lines of the
correspondence table) -/
def xDivModIdentity (x y : ENum) : Res ENum :=
  match xBin .div x y, xBin .mod x y with
  | .ok q, .ok m =>
    (match xBin .mul q y with
     | .ok p => xBin .add p m
     | e => e)
  | .ok _, e => e
  | e, _ => e

/-- unary minus, multi-word results included -/
def xNeg (x : ENum) : Res ENum :=
  match neg x with
  | .ill _ => .ok ⟨x.digits, ⟨x.narrowest.bits, true⟩, -x.value⟩
  | r => r

end Cnl.Elastic
