import CnlModel.ElasticScaled
import CnlModel.RoundWrap
import CnlModel.Static
import CnlModel.Layered
/-!
# Narrowing conversions under a rounding mode where the representation is itself a CNL number

Two operand kinds of C09 that `RoundCvt` (built-in representations) and `RoundWrap`
(`rounding_integer` over a built-in, scaled → scaled) do not reach.

## `elastic_scaled_integer<DS, power<eS>, N>` → `elastic_scaled_integer<DD, power<eD>, N>`

The operators are those of `scaled_integer/convert_operator.h` and `scaled/convert_operator.h`, but every
step runs in the elastic layer (`CnlModel.Elastic`, `CnlModel.ElasticScaled`):

* plain conversion (`static_cast`, `convert<native_rounding_tag, …>`):
  `static_cast<ResultRep>(scale<eS − eD>(from_value<ResultRep>(rep)))`; `scale<-k>` of an elastic_integer
  (`elastic_integer/scale.h`) divides the representation by `divisor_rep{1} << k`, `divisor_rep` the storage of
  `elastic_integer<1 + k, N>` (`ElasticScaled.scaleDown`) — a type with `k + 1` *digits*, so that the power is
  positive in it; the quotient is truncated;
* nearest: `static_cast<result>(from + ((from >= 0) ? half() : -half()))`,
  `half() = static_cast<input>(from_rep<result>(1)) / 2`: `from_rep<result>(1)` is a `scaled_integer<int, power<eD>>`,
  its conversion to the input type scales `elastic_integer<31, set_width_t<int, width N>>{1}` up by `k` digits and
  stores the power in the source's storage (where it wraps for `k ≥` the storage's digits: class
  `C09.scaled_half_unit_exceeds_source_rep`); the sum is an `elastic_integer<DS + 1>` and cannot overflow;
* tie_to_pos_inf: `from_rep<result>(to_rep(from + half()) >> k)` — the run-time shift of the elastic layer
  (`elastic_integer/custom_operator.h`: the storage's `>>`, rewrapped in the same digits), then the conversion to the
  declared return type `result`;
* neg_inf: `from_rep<result>(to_rep(from) >> k)`, returned as is: the result keeps the **source's** digits.

## scaled_integer with the rounding mode in its representation → fundamental integer

`wrapper::operator S()` (`wrapper/definition.h`): `convert<native_tag, S, power<E>>{}(_rep)` =
`static_cast<S>(scale<E>(from_value<S>(_rep)))` (`scaled/convert_operator.h`, `from_value<S, Wrapper>` is the
wrapper itself).  `scale<-k>` of the representation is the representation's own *tagged division* by `2^k`
(`rounding_integer.h`, `overflow_integer.h`: `default_scale`; C08), then every layer's `operator S()` hands its
representation down (an overflow layer through its checked conversion).
* `toIntWrapped`  — `scaled_integer<rounding_integer<S, Tag>, power<E>>`: `RoundWrap.convert` to exponent 0;
* `toIntStatic`   — `static_number<Digits, E, Tag, OTag, N>`: as `Static.convertT`, the tagged division of the
  rounding_integer storage by `divisor_rep{1} << k` and the overflow-checked narrowing to `Digits − k` digits;
* `toIntNest`     — other nests of rounding / overflow layers over a built-in: `CnlModel.Layered`.
Lean core only.
-/
namespace Cnl.RoundElastic
open Cnl Cnl.Elastic Cnl.ElasticScaled

/-- `static_cast<elastic_integer<D, N>>(x)`: the representation converted to the destination's storage type -/
def castE (x : ENum) (D : Nat) (N : IntTy) : Res ENum :=
  match repTy x.digits x.narrowest, repTy D N with
  | some s, some d => .ok ⟨D, N, (Cnl.convert d (s, x.value)).2⟩
  | _, _ => .ill "digits exceed the widest integer"

/-- `x >> n` with a run-time `int` count: the storage's operator, `from_rep<lhs_type>` of the (promoted) result -/
def shrRT (x : ENum) (k : Nat) : Res ENum :=
  match repTy x.digits x.narrowest with
  | some rep => do
    let v ← cBin .shr (rep, x.value) (i32, (k : Int))
    let n : IntTy := ⟨x.narrowest.bits, v.1.signed⟩
    match repTy x.digits n with
    | some rep' => pure ⟨x.digits, n, rep'.wrap v.2⟩
    | none => .ill "digits exceed the widest integer"
  | none => .ill "digits exceed the widest integer"

/-- the plain conversion to `elastic_scaled_integer<DD, power<eD>, N>` -/
def plain (x : ESNum) (DD : Nat) (N : IntTy) (eD : Int) : Res ESNum := do
  -- from_value<elastic_integer<DD, N>>(elastic_integer<DS, NS>) : elastic_integer<DS, N>
  let y ← castE x.toE x.digits N
  let z ← if eD ≤ x.exp then scaleUpE y (x.exp - eD).toNat else scaleDown y (eD - x.exp).toNat
  let r ← castE z DD N
  pure (ofE r eD)

/-- `int` as an operand of an elastic operator next to narrowest type `N` -/
def intNarrowest (N : IntTy) : IntTy := ⟨N.bits, true⟩

/-- `half()`: the destination's unit in the source type, divided by two -/
def half (x : ESNum) (eD : Int) : Res ENum := do
  let N1 := intNarrowest x.narrowest
  let p ← scaleUpE ⟨31, N1, 1⟩ (eD - x.exp).toNat
  let h ← castE p x.digits x.narrowest
  Elastic.binOp .div h ⟨31, N1, 2⟩

def nearest (x : ESNum) (DD : Nat) (N : IntTy) (eD : Int) : Res ESNum := do
  let h ← half x eD
  -- `from >= 0` (comparison of a scaled_integer with a built-in): for `eS < 0` the `int` is brought to the source's
  -- exponent **in its own type** (`scale<-eS>` of an `int`; `power_value<int, -eS, 2>` asserts `-eS < 31`), then the
  -- representations are compared in the elastic layer; for `eS ≥ 0` the source is widened by `eS` digits
  let N1 := intNarrowest x.narrowest
  let nonneg ← (if x.exp < 0 then
      (if (-x.exp).toNat ≥ 31 then .ill "power_value: attempted operation will result in overflow"
       else Elastic.cmp .ge x.toE ⟨31, N1, 0⟩)
    else ElasticScaled.cmp .ge x ⟨31, N1, 0, 0⟩ : Res Bool)
  let hh ← if nonneg then pure h else Elastic.neg h
  let sum ← Elastic.binOp .add x.toE hh
  plain (ofE sum x.exp) DD N eD

def tiesUp (x : ESNum) (DD : Nat) (N : IntTy) (eD : Int) : Res ESNum := do
  let h ← half x eD
  let sum ← Elastic.binOp .add x.toE h
  let s ← shrRT sum (eD - x.exp).toNat
  plain (ofE s eD) DD N eD

def negInf (x : ESNum) (eD : Int) : Res ESNum := do
  let s ← shrRT x.toE (eD - x.exp).toNat
  pure (ofE s eD)

/-- `how = none`: `static_cast`; `some tag`: `convert<tag, elastic_scaled_integer<DD, power<eD>, N>>` -/
def convert (how : Option RdMode) (x : ESNum) (DD : Nat) (N : IntTy) (eD : Int) : Res ESNum :=
  if eD ≤ x.exp then plain x DD N eD else
  match how with
  | none => plain x DD N eD
  | some .nat => plain x DD N eD
  | some .nrst => nearest x DD N eD
  | some .tpi => tiesUp x DD N eD
  | some .ninf => negInf x eD

/-! ## to a fundamental integer -/

/-- `static_cast<D>(scaled_integer<rounding_integer<S, mode>, power<e>>)` -/
def toIntWrapped (mode : RdMode) (S : IntTy) (e : Int) (D : IntTy) (v : Int) : Res TV :=
  (RoundWrap.convert mode S e D 0 v).map (fun r => (D, r.2))

/-- `static_cast<D>(static_number<Dg, e, mode, tag, N>)`, `e < 0`, `k = -e ≤ Dg`: as in `Static.convertT`,
`scale<-k>` reaches the elastic layer (`elastic_integer/scale.h`): the rounding_integer storage divided by
`divisor_rep{1} << k` — the *tagged* division —, and the quotient is constructed as a `static_integer<Dg − k>` by an
overflow-checked conversion (a rounded quotient of magnitude `2^(Dg−k)` does not fit it: the open class
`C11.rounded_value_exceeds_intermediate_digits` of property C11 — the tag reacts).  Then every layer hands its
representation down to `D`; the grid keeps `Dg − k` digits inside `D` (nothing is left to check there). -/
def toIntStatic (c : Static.Cfg) (N : IntTy) (Dg : Nat) (e : Int) (D : IntTy) (v : Int) : Res TV :=
  if e ≥ 0 then .ill "static_number with a non-negative exponent: not modelled here" else
  let k := (-e).toNat
  if k > Dg then .ill "negative digit count: not modelled here" else
  match Static.storage N Dg, Static.storage N (1 + k) with
  | some rep, some drep => do
    let q ← Static.repOp c .div (rep, v) (drep, 2^k)
    let mid ← Static.narrowTo c N.signed (Dg - k) q.2
    if D.inRange mid then pure (D, mid) else .ill "quotient outside the destination: not modelled here"
  | _, _ => .ill "no storage for the digits"

/-- every layer's `operator S()` hands its representation down; an overflow layer checks the conversion -/
def unwrapTo (D : IntTy) (t : Ty) (v : Int) : Res TV :=
  match t with
  | .int s => .ok (Cnl.convert D (s, v))
  | .rd r _ => unwrapTo D r v
  | .ov r tag =>
    match Layered.innermost r with
    | .int s => Overflow.checkedConvert tag D (s, v)
    | _ => .ill "representation outside the model"
  | _ => .ill "representation outside the model"

/-- `static_cast<D>(scaled_integer<rep, power<e>>)` for a nest of rounding / overflow layers over a built-in -/
def toIntNest (rep : Ty) (e : Int) (D : IntTy) (v : Int) : Res TV := do
  -- (`Layered.scaleWith`: a rounding layer anywhere, an overflow layer with a checked tag below a rounding layer,
  --  a native overflow layer anywhere)
  let r ← (Layered.ops rep.depth).scale e 2 (rep, v)
  unwrapTo D r.1 r.2

end Cnl.RoundElastic
