import CnlModel.Overflow
import CnlModel.CFloat
/-!
# overflow-checked conversion from floating point (`is_overflow_convert<polarity, false, true>`)

`rhs > static_cast<Source>(numeric_limits<Destination>::max())` flags positive overflow,
`rhs < static_cast<Source>(numeric_limits<Destination>::lowest())` negative overflow; otherwise
`static_cast<Destination>(rhs)` (undefined when the truncated value does not fit).
-/
namespace Cnl.Overflow

def checkedConvertFloat (tag : OvTag) (f : Fmt) (D : IntTy) (x : FVal) : Res TV :=
  if tag == .nat then (fToInt D x).map (fun v => (D, v)) else
  if fCmp .gt x (f.ofInt D.max) then react tag true D
  else if fCmp .lt x (f.ofInt D.lowest) then react tag false D
  else (fToInt D x).map (fun v => (D, v))

end Cnl.Overflow
