import CnlModel.Overflow
import CnlModel.CFloat
/-!
# overflow-checked conversion from floating point (`is_overflow_convert<polarity, false, true>`)

After the repair of `C06/C07/C11.float_at_limit_not_flagged`:

    float_holds_limit<Source, Destination, polarity>::value
        ? rhs >  static_cast<Source>(numeric_limits<Destination>::max())
        : rhs >= static_cast<Source>(numeric_limits<Destination>::max())

(and `<` / `<=` against `lowest()` for the negative polarity), where `float_holds_limit` is
`digits_v<Destination> <= numeric_limits<Source>::digits`, and always true for the negative limit
of an unsigned type (0) or of a type with a most negative number (a power of two).  A limit the
source format does not hold rounds away from zero to the next power of two, which is itself out of
range, hence the non-strict comparison.  Otherwise `static_cast<Destination>(rhs)` (undefined when
the truncated value does not fit).

The destination is described by its two limits and its digit count so that the same predicate
serves built-in integers (`lowest = -2^digits` or 0) and elastic_integer (`lowest = -max`).

**As found** (`isOverflowConvertFloatOrig`, `checkedConvertFloatOrig`): the strict comparison in
every case; `float 2^31 → int32` passed the test and the cast was executed out of range.
-/
namespace Cnl.Overflow

/-- an integer destination as the test sees it: `numeric_limits<D>::lowest()`, `::max()`,
`digits_v<D>`, `has_most_negative_number<D>`, `signedness_v<D>` -/
structure DestLimits where
  lowest : Int
  max : Int
  digits : Nat
  signed : Bool
deriving Repr, DecidableEq

def DestLimits.hasMostNegative (d : DestLimits) : Bool := d.signed && decide (d.lowest < -d.max)

/-- a built-in integer type -/
def DestLimits.ofIntTy (D : IntTy) : DestLimits := ⟨D.lowest, D.max, D.digits, D.signed⟩

/-- `elastic_integer<D>` (signed narrowest): symmetric range -/
def DestLimits.elastic (D : Nat) : DestLimits := ⟨-(2^D - 1), 2^D - 1, D, true⟩

/-- `float_holds_limit<Source, Destination, polarity>` -/
def floatHoldsLimit (f : Fmt) (d : DestLimits) (pos : Bool) : Bool :=
  if !pos && (!d.signed || d.hasMostNegative) then true else decide (d.digits ≤ f.prec)

/-- `is_overflow_convert<polarity, false, true>` -/
def isOverflowConvertFloat (f : Fmt) (d : DestLimits) (pos : Bool) (x : FVal) : Bool :=
  if pos then
    (if floatHoldsLimit f d true then fCmp .gt x (f.ofInt d.max) else fCmp .ge x (f.ofInt d.max))
  else
    (if floatHoldsLimit f d false then fCmp .lt x (f.ofInt d.lowest) else fCmp .le x (f.ofInt d.lowest))

/-- **as found**: strict comparison against the converted limit whatever it rounded to -/
def isOverflowConvertFloatOrig (f : Fmt) (d : DestLimits) (pos : Bool) (x : FVal) : Bool :=
  if pos then fCmp .gt x (f.ofInt d.max) else fCmp .lt x (f.ofInt d.lowest)

def checkedConvertFloatWith (test : Fmt → DestLimits → Bool → FVal → Bool)
    (tag : OvTag) (f : Fmt) (D : IntTy) (x : FVal) : Res TV :=
  if tag == .nat then (fToInt D x).map (fun v => (D, v)) else
  if test f (.ofIntTy D) true x then react tag true D
  else if test f (.ofIntTy D) false x then react tag false D
  else (fToInt D x).map (fun v => (D, v))

def checkedConvertFloat := checkedConvertFloatWith isOverflowConvertFloat
def checkedConvertFloatOrig := checkedConvertFloatWith isOverflowConvertFloatOrig

end Cnl.Overflow
