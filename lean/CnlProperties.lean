import CnlProperties.C12
