import CnlDriver.Proto
import CnlDriver.CS
import CnlDriver.C12
