import CnlProofs.Elastic
/-!
# C05 — elastic_integer arithmetic never overflows and stays within its declared digits

Theorems about the executable model `CnlModel/Elastic.lean` (validated against the real code by
the `C05` correspondence table).  They hold for **all** digit counts, all signedness mixes, all
narrowest widths and all in-range operand values.  "Whenever the result type exists" is the
hypothesis `∀ m, f … ≠ .ill m`: the model returns `.ill` exactly when a storage selection
(`set_digits_t`) fails, i.e. when the real program does not compile.  (`binOp_exact_of_types`
states the same with the storage selections as explicit hypotheses.)

* `binOp_exact`     `+ - * / %`: the exact result, in the policy's digits, in the declared range,
                    never undefined behaviour.
* `neg_exact`       unary minus.
* `shlConst_exact`  `x << constant<k>` is `x·2^k` in `digits + k` digits.
* `shrConst_exact`  `x >> constant<k>` is `⌊x / 2^k⌋` (held exactly by the storage) in
                    `digits − k` digits; it is inside the declared range if `x ≥ 0` or the quotient
                    is not `−2^(D−k)`.
* `shrConst_refuted` the remaining case is a genuine violation of the property (open finding
                    `C05.shr_negative_below_declared_range`): `elastic_integer<40>{−(2^40−1)} >> 5`
                    is `−2^35`, one below the lowest value of the 35-digit result type.
* `cmp_exact`       all six comparisons compare the mathematical values, for every signedness mix.

Nothing is left unproved; the only part of the property that fails is the one refuted by
`shrConst_refuted`.
-/
namespace Cnl.C05
open Cnl Cnl.Elastic Cnl.Spec

/-! ## `+ - * / %` -/

/-- For every operator, all digit counts, signedness mixes and narrowest widths, and all in-range
operands (non-zero divisor for `/ %`), whenever the result type exists the elastic operator returns
(never undefined behaviour) a number `z` whose value is the exact mathematical result, whose digits
and signedness `sg` are the policy's, which lies in its declared range
`[-(2^D-1), 2^D-1]` (`[0, 2^D-1]` if its narrowest type is unsigned), and which is non-negative
whenever the policy says unsigned. -/
theorem binOp_exact (op : AOp) (x y : ENum) (hx : x.InRange) (hy : y.InRange)
    (h0 : (op = .div ∨ op = .mod) → y.value ≠ 0)
    (hwf : ∀ m, binOp (AOp.toBin op) x y ≠ .ill m) :
    ∃ z sg, binOp (AOp.toBin op) x y = .ok z ∧
      z.value = exact op x.value y.value ∧
      policy (AOp.toBin op) x.digits x.narrowest.signed y.digits y.narrowest.signed = some (z.digits, sg) ∧
      z.InRange ∧ (sg = false → 0 ≤ z.value) := by
  obtain ⟨d, sg, n, hp, h1, he, hs⟩ := binOp_wf op x y hx hy h0 hwf
  exact ⟨_, sg, h1, rfl, hp, he.mono hs, fun h => (fits_iff.mp he).2 h⟩

/-- in particular no in-range operands execute undefined behaviour (signed overflow, division
overflow) inside the operator -/
theorem binOp_no_ub (op : AOp) (x y : ENum) (hx : x.InRange) (hy : y.InRange)
    (h0 : (op = .div ∨ op = .mod) → y.value ≠ 0)
    (hwf : ∀ m, binOp (AOp.toBin op) x y ≠ .ill m) (k : UB) : binOp (AOp.toBin op) x y ≠ .ub k := by
  obtain ⟨z, _, h1, _⟩ := binOp_exact op x y hx hy h0 hwf
  rw [h1]; intro h; cases h

/-- the same with the three storage selections of `binOp` as explicit hypotheses; the returned
wrapper has the width of the left narrowest type and the signedness of the promoted operand
representation -/
theorem binOp_exact_of_types (op : AOp) (x y : ENum) (hx : x.InRange) (hy : y.InRange)
    (h0 : (op = .div ∨ op = .mod) → y.value ≠ 0)
    {d : Nat} {sg : Bool} {R O F : IntTy}
    (hp : policy (AOp.toBin op) x.digits x.narrowest.signed y.digits y.narrowest.signed = some (d, sg))
    (hR : repTy d ⟨max x.narrowest.bits y.narrowest.bits, sg⟩ = some R)
    (hO : setDigits R.signed (operandDigits R x.digits y.digits) = some O)
    (hF : repTy d ⟨x.narrowest.bits, (promote O).signed⟩ = some F) :
    binOp (AOp.toBin op) x y = .ok ⟨d, ⟨x.narrowest.bits, (promote O).signed⟩, exact op x.value y.value⟩ ∧
      (⟨d, ⟨x.narrowest.bits, (promote O).signed⟩, exact op x.value y.value⟩ : ENum).InRange := by
  have ⟨h1, he, hs⟩ := binOp_core op x y hx hy h0 hp hR hO hF
  exact ⟨h1, he.mono hs⟩

/-- the policy is total on the five arithmetic operators, so `binOp_exact` is never vacuous for
lack of a policy -/
theorem policy_total (op : AOp) (dL dR : Nat) (sL sR : Bool) :
    ∃ d sg, policy (AOp.toBin op) dL sL dR sR = some (d, sg) := policy_some op dL dR sL sR

-- the formerly failing instances (finding `C05.divmod_operands_narrowed`, repaired)
example : binOp .mod ⟨40, i32, 1099511627775⟩ ⟨10, i32, 1023⟩ = .ok ⟨10, i32, 0⟩ := by decide
example : binOp .mod ⟨40, i32, 1099511627775⟩ ⟨10, i32, 1000⟩ = .ok ⟨10, i32, 775⟩ := by decide
example : binOp .div ⟨10, i32, 1023⟩ ⟨40, i32, 1099511627775⟩ = .ok ⟨10, i32, 0⟩ := by decide
-- hypotheses of `binOp_exact` are satisfiable on non-trivial instances, signedness mixes included
example : (⟨40, i32, 1099511627775⟩ : ENum).InRange ∧ (⟨10, i32, 1023⟩ : ENum).InRange ∧
    (∀ m, binOp (AOp.toBin .mod) ⟨40, i32, 1099511627775⟩ ⟨10, i32, 1023⟩ ≠ .ill m) := by
  refine ⟨by decide, by decide, fun m h => ?_⟩
  have e : binOp (AOp.toBin .mod) ⟨40, i32, 1099511627775⟩ ⟨10, i32, 1023⟩ = .ok ⟨10, i32, 0⟩ := by decide
  rw [e] at h; cases h
example : binOp .sub ⟨8, u8, 0⟩ ⟨8, u8, 255⟩ = .ok ⟨8, i8, -255⟩ := by decide
example : binOp .mul ⟨31, i32, -2147483647⟩ ⟨32, u32, 4294967295⟩ = .ok ⟨63, i32, -9223372030412324865⟩ := by decide
example : binOp .add ⟨63, i64, 9223372036854775807⟩ ⟨63, i64, 9223372036854775807⟩
    = .ok ⟨64, i64, 18446744073709551614⟩ := by decide
example : binOp .mul ⟨1, u8, 1⟩ ⟨7, i8, -127⟩ = .ok ⟨7, i8, -127⟩ := by decide
-- beyond the widest storage the instantiation is ill-formed (outside the quantifier)
example : binOp .mul ⟨64, i64, 5⟩ ⟨64, i64, 5⟩ = .ill "result digits exceed the widest integer" := by decide

/-! ## unary minus -/

/-- `-x` is the exact negation, in the same number of digits, signed, in range, never undefined -/
theorem neg_exact (x : ENum) (hx : x.InRange) (hwf : ∀ m, neg x ≠ .ill m) :
    ∃ z, neg x = .ok z ∧ z.value = -x.value ∧ z.digits = x.digits ∧ z.narrowest.signed = true ∧
      z.InRange := by
  have ⟨h1, hf⟩ := neg_wf x hx hwf
  exact ⟨_, h1, rfl, rfl, rfl, hf⟩

example : neg ⟨32, u32, 4294967295⟩ = .ok ⟨32, i32, -4294967295⟩ := by decide
example : neg ⟨31, i32, -2147483647⟩ = .ok ⟨31, i32, 2147483647⟩ := by decide

/-! ## shifts by a compile-time constant -/

/-- `x << constant<k>` is `x · 2^k` in `digits + k` digits, in range, never undefined -/
theorem shlConst_exact (x : ENum) (k : Nat) (hx : x.InRange) (hd : 1 ≤ x.digits)
    (hwf : ∀ m, shlConst x k ≠ .ill m) :
    ∃ z, shlConst x k = .ok z ∧ z.value = x.value * 2^k ∧ z.digits = x.digits + k ∧ z.InRange := by
  obtain ⟨n, h1, hs⟩ := shlConst_wf x k hx hd hwf
  exact ⟨_, h1, rfl, rfl, (shl_bound (k := k) hx).mono hs⟩

example : shlConst ⟨20, i32, -1048575⟩ 30 = .ok ⟨50, i32, -1048575 * 2^30⟩ := by decide
example : shlConst ⟨8, u8, 255⟩ 8 = .ok ⟨16, i8, 65280⟩ := by decide

/-- `x >> constant<k>` (`k < digits`) is `⌊x / 2^k⌋` in `digits − k` digits for every in-range `x`,
never undefined; the value lies in `[-2^(D−k), 2^(D−k) − 1]`, and in the declared range of the result
type provided `x ≥ 0` or the quotient is not the extra value `-2^(D−k)` -/
theorem shrConst_exact (x : ENum) (k : Nat) (hx : x.InRange) (hk : k < x.digits)
    (hwf : ∀ m, shrConst x k ≠ .ill m) :
    ∃ z, shrConst x k = .ok z ∧ z.value = x.value / 2^k ∧ z.digits = x.digits - k ∧
      (-(2^(x.digits - k) : Int) ≤ z.value ∧ z.value ≤ 2^(x.digits - k) - 1) ∧
      ((0 ≤ x.value ∨ -(2^(x.digits - k) - 1 : Int) ≤ x.value / 2^k) → z.InRange) := by
  obtain ⟨n, h1, hs⟩ := shrConst_wf x k hx hk hwf
  have ⟨b1, b2, b3⟩ := shr_bound hx (Nat.le_of_lt hk)
  refine ⟨_, h1, rfl, rfl, ⟨b1, b2⟩, fun h => ?_⟩
  have hq := two_pow_pos k
  have hlo : -(2^(x.digits - k) - 1 : Int) ≤ x.value / 2^k := by
    cases h with
    | inl h => have := Int.ediv_nonneg h (Int.le_of_lt hq); have := two_pow_pos (x.digits - k); omega
    | inr h => exact h
  exact fits_iff.mpr ⟨⟨hlo, b2⟩, fun h => b3 (hs h)⟩

/-- the unconditional range claim for `>>` is false: the open finding
`C05.shr_negative_below_declared_range` -/
theorem shrConst_refuted :
    ¬ (∀ (x : ENum) (k : Nat), x.InRange → k < x.digits → ∀ z, shrConst x k = .ok z → z.InRange) := by
  intro h
  exact absurd (h ⟨40, i32, -1099511627775⟩ 5 (by decide) (by decide) ⟨35, i32, -34359738368⟩ (by decide))
    (by decide)

example : shrConst ⟨40, i32, 1099511627775⟩ 5 = .ok ⟨35, i32, 34359738367⟩ := by decide
example : shrConst ⟨40, i32, -1099511627744⟩ 5 = .ok ⟨35, i32, -34359738367⟩ := by decide

/-! ## comparison -/

/-- every comparison of two in-range elastic numbers — any digits, any signedness mix, any narrowest
widths for which the common type exists — is the comparison of their mathematical values -/
theorem cmp_exact (op : CmpOp) (x y : ENum) (hx : x.InRange) (hy : y.InRange)
    (hwf : ∀ m, cmp op x y ≠ .ill m) : cmp op x y = .ok (cmpExact op x.value y.value) :=
  cmp_wf op x y hx hy hwf

/-- `cmp_exact` spelled out for the six operators -/
theorem cmp_exact_all (x y : ENum) (hx : x.InRange) (hy : y.InRange)
    (hwf : ∀ op m, cmp op x y ≠ .ill m) :
    cmp .lt x y = .ok (decide (x.value < y.value)) ∧ cmp .le x y = .ok (decide (x.value ≤ y.value)) ∧
    cmp .gt x y = .ok (decide (x.value > y.value)) ∧ cmp .ge x y = .ok (decide (x.value ≥ y.value)) ∧
    cmp .eq x y = .ok (decide (x.value = y.value)) ∧ cmp .ne x y = .ok (decide (x.value ≠ y.value)) :=
  ⟨cmp_exact .lt x y hx hy (hwf _), cmp_exact .le x y hx hy (hwf _), cmp_exact .gt x y hx hy (hwf _),
   cmp_exact .ge x y hx hy (hwf _), cmp_exact .eq x y hx hy (hwf _), cmp_exact .ne x y hx hy (hwf _)⟩

-- an unsigned and a negative elastic_integer compare by value (no conversion of −1 to 2^32−1)
example : cmp .lt ⟨31, i32, -1⟩ ⟨32, u32, 4294967295⟩ = .ok true := by decide
example : cmp .gt ⟨8, u8, 255⟩ ⟨7, i8, -127⟩ = .ok true := by decide
example : cmp .eq ⟨64, u64, 18446744073709551615⟩ ⟨7, i8, -1⟩ = .ok false := by decide

end Cnl.C05
