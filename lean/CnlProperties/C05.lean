import CnlModel.Elastic
