import CnlProofs.Elastic
import CnlProofs.ElasticScaled
import CnlProofs.ElasticWide
/-!
# C05 — elastic_integer arithmetic never overflows and stays within its declared digits

Theorems about the executable model `CnlModel/Elastic.lean` (validated against the real code by
the `C05` correspondence table).  They hold for **all** digit counts, all signedness mixes, all
narrowest widths and all in-range operand values.  "Whenever the result type exists" is the
hypothesis `∀ m, f … ≠ .ill m`: the model returns `.ill` exactly when a storage selection
(`set_digits_t`) fails, i.e. when the real program does not compile.  (`binOp_exact_of_types`
states the same with the storage selections as explicit hypotheses.)

* `binOp_exact`     `+ - * / %`: the exact result, in the policy's digits, in the declared range,
                    never undefined behaviour.
* `neg_exact`       unary minus.
* `shlConst_exact`  `x << constant<k>` is `x·2^k` in `digits + k` digits.
* `shrConst_exact`  `x >> constant<k>` is `⌊x / 2^k⌋` (held exactly by the storage) in
                    `digits − k` digits; it is inside the declared range if `x ≥ 0` or the quotient
                    is not `−2^(D−k)`.
* `shrConst_refuted` the remaining case is a genuine violation of the property (open finding
                    `C05.shr_negative_below_declared_range`): `elastic_integer<40>{−(2^40−1)} >> 5`
                    is `−2^35`, one below the lowest value of the 35-digit result type.
* `cmp_exact`       all six comparisons compare the mathematical values, for every signedness mix.

* `wide_binOp_exact`, `wide_neg_exact` (last section) — results that need multi-word storage (`xBin`, `xNeg` of
                    `CnlModel/ElasticWide.lean`): the policy's digits, the exact value, inside the declared range.
* `wide_divmod_identity`, `wide_divmod_roundtrip` — `/` and `%` over any storage: truncated quotient, `q·d + r = n`,
                    `|r| < |d|`, remainder with the sign of the dividend; `(n / d) * d + n % d` evaluated in elastic
                    arithmetic gives `n` back inside its declared range.

Nothing is left unproved; the only part of the property that fails is the one refuted by
`shrConst_refuted`.

## elastic_scaled_integer = scaled_integer<elastic_integer<D, N>, power<E>>  (last section)

Model `CnlModel/ElasticScaled.lean` (validated by the same correspondence table).  An `ESNum` with
representation `value` and exponent `exp` denotes `value · 2^exp`.

* `scaleUpE_exact`, `scaleUp_exact` — `scale<k>` (`k ≥ 0`, the alignment step of `+ - < …`) is exactly
  `value · 2^k` in `D + k` digits: the multiplication in the result's storage type cannot overflow.
* `scaleDown_exact`    — `scale<-k>` is the truncated `value / 2^k` in `D − k` digits; the divisor
  `divisor_rep{1} << k` is computed in the storage of `elastic_integer<1 + k, N>`, which has more than
  `k` digits, so the shift is defined and positive (`scaleDown_divisor_needs_digits`: in a `k+1`-*bit*
  signed type `1 << 31` would be `INT_MIN`).
* `scaled_binOp_exact` — `+ - * / %`: exponent `min`, `+`, `−`, left; representation the exact
  result on the aligned representations; in the declared range of the result's digits; never
  undefined.  `scaled_add_exact` … `scaled_mod_exact` spell the five cases out.
* `scaled_neg_exact`, `scaled_cmp_by_value`, `scaled_cmp_denoted` — unary minus; the six comparisons
  compare the denoted values `value · 2^exp` for every signedness mix.

A `cnl::constant<V>` operand meeting an elastic_scaled_integer (`ElasticScaled.constOperand`, `constBin`: the
constant becomes `scaled_integer<set_digits_t<int, max(31, significand digits)>, power<trailing_bits V>>`, then
`scaled_binOp_exact` applies to the pair) is covered by correspondence only (`sconst` lines, exact-value oracle
`result · 2^e = x · 2^E op V`); no theorem about the deduction of the constant's type.
-/
namespace Cnl.C05
open Cnl Cnl.Elastic Cnl.Spec

/-! ## `+ - * / %` -/

/-- For every operator, all digit counts, signedness mixes and narrowest widths, and all in-range
operands (non-zero divisor for `/ %`), whenever the result type exists the elastic operator returns
(never undefined behaviour) a number `z` whose value is the exact mathematical result, whose digits
and signedness `sg` are the policy's, which lies in its declared range
`[-(2^D-1), 2^D-1]` (`[0, 2^D-1]` if its narrowest type is unsigned), and which is non-negative
whenever the policy says unsigned. -/
theorem binOp_exact (op : AOp) (x y : ENum) (hx : x.InRange) (hy : y.InRange)
    (h0 : (op = .div ∨ op = .mod) → y.value ≠ 0)
    (hwf : ∀ m, binOp (AOp.toBin op) x y ≠ .ill m) :
    ∃ z sg, binOp (AOp.toBin op) x y = .ok z ∧
      z.value = exact op x.value y.value ∧
      policy (AOp.toBin op) x.digits x.narrowest.signed y.digits y.narrowest.signed = some (z.digits, sg) ∧
      z.InRange ∧ (sg = false → 0 ≤ z.value) := by
  obtain ⟨d, sg, n, hp, h1, he, hs⟩ := binOp_wf op x y hx hy h0 hwf
  exact ⟨_, sg, h1, rfl, hp, he.mono hs, fun h => (fits_iff.mp he).2 h⟩

/-- in particular no in-range operands execute undefined behaviour (signed overflow, division
overflow) inside the operator -/
theorem binOp_no_ub (op : AOp) (x y : ENum) (hx : x.InRange) (hy : y.InRange)
    (h0 : (op = .div ∨ op = .mod) → y.value ≠ 0)
    (hwf : ∀ m, binOp (AOp.toBin op) x y ≠ .ill m) (k : UB) : binOp (AOp.toBin op) x y ≠ .ub k := by
  obtain ⟨z, _, h1, _⟩ := binOp_exact op x y hx hy h0 hwf
  rw [h1]; intro h; cases h

/-- the same with the three storage selections of `binOp` as explicit hypotheses; the returned
wrapper has the width of the left narrowest type and the signedness of the promoted operand
representation -/
theorem binOp_exact_of_types (op : AOp) (x y : ENum) (hx : x.InRange) (hy : y.InRange)
    (h0 : (op = .div ∨ op = .mod) → y.value ≠ 0)
    {d : Nat} {sg : Bool} {R O F : IntTy}
    (hp : policy (AOp.toBin op) x.digits x.narrowest.signed y.digits y.narrowest.signed = some (d, sg))
    (hR : repTy d ⟨max x.narrowest.bits y.narrowest.bits, sg⟩ = some R)
    (hO : setDigits R.signed (operandDigits R x.digits y.digits) = some O)
    (hF : repTy d ⟨x.narrowest.bits, (promote O).signed⟩ = some F) :
    binOp (AOp.toBin op) x y = .ok ⟨d, ⟨x.narrowest.bits, (promote O).signed⟩, exact op x.value y.value⟩ ∧
      (⟨d, ⟨x.narrowest.bits, (promote O).signed⟩, exact op x.value y.value⟩ : ENum).InRange := by
  have ⟨h1, he, hs⟩ := binOp_core op x y hx hy h0 hp hR hO hF
  exact ⟨h1, he.mono hs⟩

/-- the policy is total on the five arithmetic operators, so `binOp_exact` is never vacuous for
lack of a policy -/
theorem policy_total (op : AOp) (dL dR : Nat) (sL sR : Bool) :
    ∃ d sg, policy (AOp.toBin op) dL sL dR sR = some (d, sg) := policy_some op dL dR sL sR

-- the formerly failing instances (finding `C05.divmod_operands_narrowed`, repaired)
example : binOp .mod ⟨40, i32, 1099511627775⟩ ⟨10, i32, 1023⟩ = .ok ⟨10, i32, 0⟩ := by decide
example : binOp .mod ⟨40, i32, 1099511627775⟩ ⟨10, i32, 1000⟩ = .ok ⟨10, i32, 775⟩ := by decide
example : binOp .div ⟨10, i32, 1023⟩ ⟨40, i32, 1099511627775⟩ = .ok ⟨10, i32, 0⟩ := by decide
-- hypotheses of `binOp_exact` are satisfiable on non-trivial instances, signedness mixes included
example : (⟨40, i32, 1099511627775⟩ : ENum).InRange ∧ (⟨10, i32, 1023⟩ : ENum).InRange ∧
    (∀ m, binOp (AOp.toBin .mod) ⟨40, i32, 1099511627775⟩ ⟨10, i32, 1023⟩ ≠ .ill m) := by
  refine ⟨by decide, by decide, fun m h => ?_⟩
  have e : binOp (AOp.toBin .mod) ⟨40, i32, 1099511627775⟩ ⟨10, i32, 1023⟩ = .ok ⟨10, i32, 0⟩ := by decide
  rw [e] at h; cases h
example : binOp .sub ⟨8, u8, 0⟩ ⟨8, u8, 255⟩ = .ok ⟨8, i8, -255⟩ := by decide
example : binOp .mul ⟨31, i32, -2147483647⟩ ⟨32, u32, 4294967295⟩ = .ok ⟨63, i32, -9223372030412324865⟩ := by decide
example : binOp .add ⟨63, i64, 9223372036854775807⟩ ⟨63, i64, 9223372036854775807⟩
    = .ok ⟨64, i64, 18446744073709551614⟩ := by decide
example : binOp .mul ⟨1, u8, 1⟩ ⟨7, i8, -127⟩ = .ok ⟨7, i8, -127⟩ := by decide
-- beyond the widest storage the instantiation is ill-formed (outside the quantifier)
example : binOp .mul ⟨64, i64, 5⟩ ⟨64, i64, 5⟩ = .ill "result digits exceed the widest integer" := by decide

/-! ## unary minus -/

/-- `-x` is the exact negation, in the same number of digits, signed, in range, never undefined -/
theorem neg_exact (x : ENum) (hx : x.InRange) (hwf : ∀ m, neg x ≠ .ill m) :
    ∃ z, neg x = .ok z ∧ z.value = -x.value ∧ z.digits = x.digits ∧ z.narrowest.signed = true ∧
      z.InRange := by
  have ⟨h1, hf⟩ := neg_wf x hx hwf
  exact ⟨_, h1, rfl, rfl, rfl, hf⟩

example : neg ⟨32, u32, 4294967295⟩ = .ok ⟨32, i32, -4294967295⟩ := by decide
example : neg ⟨31, i32, -2147483647⟩ = .ok ⟨31, i32, 2147483647⟩ := by decide

/-! ## shifts by a compile-time constant -/

/-- `x << constant<k>` is `x · 2^k` in `digits + k` digits, in range, never undefined -/
theorem shlConst_exact (x : ENum) (k : Nat) (hx : x.InRange) (hd : 1 ≤ x.digits)
    (hwf : ∀ m, shlConst x k ≠ .ill m) :
    ∃ z, shlConst x k = .ok z ∧ z.value = x.value * 2^k ∧ z.digits = x.digits + k ∧ z.InRange := by
  obtain ⟨n, h1, hs⟩ := shlConst_wf x k hx hd hwf
  exact ⟨_, h1, rfl, rfl, (shl_bound (k := k) hx).mono hs⟩

example : shlConst ⟨20, i32, -1048575⟩ 30 = .ok ⟨50, i32, -1048575 * 2^30⟩ := by decide
example : shlConst ⟨8, u8, 255⟩ 8 = .ok ⟨16, i8, 65280⟩ := by decide

/-- `x >> constant<k>` (`k < digits`) is `⌊x / 2^k⌋` in `digits − k` digits for every in-range `x`,
never undefined; the value lies in `[-2^(D−k), 2^(D−k) − 1]`, and in the declared range of the result
type provided `x ≥ 0` or the quotient is not the extra value `-2^(D−k)` -/
theorem shrConst_exact (x : ENum) (k : Nat) (hx : x.InRange) (hk : k < x.digits)
    (hwf : ∀ m, shrConst x k ≠ .ill m) :
    ∃ z, shrConst x k = .ok z ∧ z.value = x.value / 2^k ∧ z.digits = x.digits - k ∧
      (-(2^(x.digits - k) : Int) ≤ z.value ∧ z.value ≤ 2^(x.digits - k) - 1) ∧
      ((0 ≤ x.value ∨ -(2^(x.digits - k) - 1 : Int) ≤ x.value / 2^k) → z.InRange) := by
  obtain ⟨n, h1, hs⟩ := shrConst_wf x k hx hk hwf
  have ⟨b1, b2, b3⟩ := shr_bound hx (Nat.le_of_lt hk)
  refine ⟨_, h1, rfl, rfl, ⟨b1, b2⟩, fun h => ?_⟩
  have hq := two_pow_pos k
  have hlo : -(2^(x.digits - k) - 1 : Int) ≤ x.value / 2^k := by
    cases h with
    | inl h => have := Int.ediv_nonneg h (Int.le_of_lt hq); have := two_pow_pos (x.digits - k); omega
    | inr h => exact h
  exact fits_iff.mpr ⟨⟨hlo, b2⟩, fun h => b3 (hs h)⟩

/-- the unconditional range claim for `>>` is false: the open finding
`C05.shr_negative_below_declared_range` -/
theorem shrConst_refuted :
    ¬ (∀ (x : ENum) (k : Nat), x.InRange → k < x.digits → ∀ z, shrConst x k = .ok z → z.InRange) := by
  intro h
  exact absurd (h ⟨40, i32, -1099511627775⟩ 5 (by decide) (by decide) ⟨35, i32, -34359738368⟩ (by decide))
    (by decide)

example : shrConst ⟨40, i32, 1099511627775⟩ 5 = .ok ⟨35, i32, 34359738367⟩ := by decide
example : shrConst ⟨40, i32, -1099511627744⟩ 5 = .ok ⟨35, i32, -34359738367⟩ := by decide

/-! ## comparison -/

/-- every comparison of two in-range elastic numbers — any digits, any signedness mix, any narrowest
widths for which the common type exists — is the comparison of their mathematical values -/
theorem cmp_exact (op : CmpOp) (x y : ENum) (hx : x.InRange) (hy : y.InRange)
    (hwf : ∀ m, cmp op x y ≠ .ill m) : cmp op x y = .ok (cmpExact op x.value y.value) :=
  cmp_wf op x y hx hy hwf

/-- `cmp_exact` spelled out for the six operators -/
theorem cmp_exact_all (x y : ENum) (hx : x.InRange) (hy : y.InRange)
    (hwf : ∀ op m, cmp op x y ≠ .ill m) :
    cmp .lt x y = .ok (decide (x.value < y.value)) ∧ cmp .le x y = .ok (decide (x.value ≤ y.value)) ∧
    cmp .gt x y = .ok (decide (x.value > y.value)) ∧ cmp .ge x y = .ok (decide (x.value ≥ y.value)) ∧
    cmp .eq x y = .ok (decide (x.value = y.value)) ∧ cmp .ne x y = .ok (decide (x.value ≠ y.value)) :=
  ⟨cmp_exact .lt x y hx hy (hwf _), cmp_exact .le x y hx hy (hwf _), cmp_exact .gt x y hx hy (hwf _),
   cmp_exact .ge x y hx hy (hwf _), cmp_exact .eq x y hx hy (hwf _), cmp_exact .ne x y hx hy (hwf _)⟩

-- an unsigned and a negative elastic_integer compare by value (no conversion of −1 to 2^32−1)
example : cmp .lt ⟨31, i32, -1⟩ ⟨32, u32, 4294967295⟩ = .ok true := by decide
example : cmp .gt ⟨8, u8, 255⟩ ⟨7, i8, -127⟩ = .ok true := by decide
example : cmp .eq ⟨64, u64, 18446744073709551615⟩ ⟨7, i8, -1⟩ = .ok false := by decide

/-! ## elastic_scaled_integer -/

open Cnl.ElasticScaled (ESNum scaleUpE scaleUp scaleDown shifted kL kR opKL opKR resultExp resultValue)

/-- `scale<k>` on an elastic representation (`elastic_integer/scale.h`, `k ≥ 0`): whenever the
storage of the `D + k`-digit result exists, the result is exactly `x · 2^k`, in `D + k` digits with
the same narrowest type, inside its declared range; the multiplication in the result's storage type
never overflows (no undefined behaviour) -/
theorem scaleUpE_exact (x : ENum) (k : Nat) (hx : x.InRange) {rrep : IntTy}
    (hR : repTy (x.digits + k) x.narrowest = some rrep) :
    ∃ z, scaleUpE x k = .ok z ∧ z.digits = x.digits + k ∧ z.narrowest = x.narrowest ∧
      z.value = x.value * 2^k ∧ z.InRange := by
  have ⟨h1, hf⟩ := ElasticScaled.scaleUpE_core x k hx hR
  exact ⟨_, h1, rfl, rfl, rfl, hf⟩

example : (⟨40, i32, -1099511627775⟩ : ENum).InRange ∧ repTy (40 + 31) i32 = some i128 ∧
    scaleUpE ⟨40, i32, -1099511627775⟩ 31 = .ok ⟨71, i32, -1099511627775 * 2^31⟩ := by decide
example : scaleUpE ⟨8, u8, 255⟩ 24 = .ok ⟨32, u8, 4278190080⟩ := by decide
example : scaleUpE ⟨7, i8, -127⟩ 24 = .ok ⟨31, i8, -2130706432⟩ := by decide
-- beyond the widest storage the instantiation is ill-formed
example : scaleUpE ⟨100, i32, 1⟩ 31 = .ill "digits exceed the widest integer" := by decide

/-- the same on the scaled number: `k` more fractional digits, the denoted value unchanged
(`shifted x k` has representation `x.value · 2^k` and exponent `x.exp − k`) -/
theorem scaleUp_exact (x : ESNum) (k : Nat) (hx : x.InRange) (hwf : ∀ m, scaleUp x k ≠ .ill m) :
    scaleUp x k = .ok ⟨x.digits + k, x.narrowest, x.exp - k, x.value * 2^k⟩ ∧
      (⟨x.digits + k, x.narrowest, x.exp - k, x.value * 2^k⟩ : ESNum).InRange :=
  ElasticScaled.scaleUp_wf x k hx hwf

/-- `scale<-k>` on an elastic representation (`k ≤ D`): whenever the three storage types exist
(the operand's, the divisor's `elastic_integer<1 + k, N>`, the result's), the result is the truncated
quotient `x / 2^k` in `D − k` digits, inside its declared range, with no undefined behaviour: the
divisor `divisor_rep{1} << k` is a defined shift with the positive value `2^k` -/
theorem scaleDown_exact (x : ENum) (k : Nat) (hx : x.InRange) (hk : k ≤ x.digits)
    (hwf : ∀ m, scaleDown x k ≠ .ill m) :
    ∃ z, scaleDown x k = .ok z ∧ z.digits = x.digits - k ∧ z.narrowest = x.narrowest ∧
      z.value = x.value.tdiv (2^k) ∧ z.InRange := by
  have ⟨h1, hf⟩ := ElasticScaled.scaleDown_wf x k hx hk hwf
  exact ⟨_, h1, rfl, rfl, rfl, hf⟩

/-- … with the storage selections as explicit hypotheses -/
theorem scaleDown_exact_of_types (x : ENum) (k : Nat) (hx : x.InRange) (hk : k ≤ x.digits)
    {rep drep rrep : IntTy} (hRep : repTy x.digits x.narrowest = some rep)
    (hD : repTy (1 + k) x.narrowest = some drep) (hRr : repTy (x.digits - k) x.narrowest = some rrep) :
    scaleDown x k = .ok ⟨x.digits - k, x.narrowest, x.value.tdiv (2^k)⟩ ∧
      (⟨x.digits - k, x.narrowest, x.value.tdiv (2^k)⟩ : ENum).InRange :=
  ElasticScaled.scaleDown_core x k hx hk hRep hD hRr

example : (⟨40, i32, -1099511627775⟩ : ENum).InRange ∧ repTy 40 i32 = some i64 ∧ repTy (1 + 31) i32 = some i64 ∧
    repTy (40 - 31) i32 = some i32 ∧
    scaleDown ⟨40, i32, -1099511627775⟩ 31 = .ok ⟨9, i32, -511⟩ := by decide
example : scaleDown ⟨31, i32, -2147483647⟩ 31 = .ok ⟨0, i32, 0⟩ := by decide
example : scaleDown ⟨32, u32, 4294967295⟩ 31 = .ok ⟨1, u32, 1⟩ := by decide
example : scaleDown ⟨8, u8, 255⟩ 8 = .ok ⟨0, u8, 0⟩ := by decide
/-- why the divisor type needs `1 + k` *digits*: in a signed type of `k + 1` bits (`int` for `k = 31`)
the shift `1 << 31` is `INT_MIN`, and the quotient would change sign -/
theorem scaleDown_divisor_needs_digits :
    cBin .shl (i32, 1) (i32, 31) = .ok (i32, -2147483648) ∧
    cBin .shl (i64, 1) (i32, 31) = .ok (i64, 2147483648) ∧ repTy (1 + 31) i32 = some i64 := by decide

/-- `+ - * / %` on elastic_scaled_integer: for all digit counts, exponents, signedness mixes and
narrowest widths, and all in-range operands (non-zero divisor for `/ %`), whenever the result type
exists the operator returns — never undefined behaviour — a number `z` with the exponent
`resultExp` (`min` for `+ −`, sum for `*`, difference for `/`, the left one for `%`), whose
representation is the exact result on the representations (for `+ −`: on the representations
aligned to the smaller exponent, `value · 2^(exp − min)`), whose digits are the elastic policy's for
the (aligned) operand digits, and which lies in the declared range of those digits -/
theorem scaled_binOp_exact (op : AOp) (x y : ESNum) (hx : x.InRange) (hy : y.InRange)
    (h0 : (op = .div ∨ op = .mod) → y.value ≠ 0)
    (hwf : ∀ m, ElasticScaled.binOp (AOp.toBin op) x y ≠ .ill m) :
    ∃ z sg, ElasticScaled.binOp (AOp.toBin op) x y = .ok z ∧
      z.exp = resultExp op x.exp y.exp ∧ z.value = resultValue op x y ∧
      policy (AOp.toBin op) (x.digits + opKL op x y) x.narrowest.signed
        (y.digits + opKR op x y) y.narrowest.signed = some (z.digits, sg) ∧
      z.InRange ∧ (sg = false → 0 ≤ z.value) := by
  obtain ⟨d, sg, n, hp, h1, he, hs⟩ := ElasticScaled.binOp_wf op x y hx hy h0 hwf
  exact ⟨_, sg, h1, rfl, rfl, hp, he.mono hs, fun h => (fits_iff.mp he).2 h⟩

theorem scaled_binOp_no_ub (op : AOp) (x y : ESNum) (hx : x.InRange) (hy : y.InRange)
    (h0 : (op = .div ∨ op = .mod) → y.value ≠ 0)
    (hwf : ∀ m, ElasticScaled.binOp (AOp.toBin op) x y ≠ .ill m) (k : UB) :
    ElasticScaled.binOp (AOp.toBin op) x y ≠ .ub k := by
  obtain ⟨z, _, h1, _⟩ := scaled_binOp_exact op x y hx hy h0 hwf
  rw [h1]; intro h; cases h

/-- `+`: exponent `e = min`, representation `x·2^(ex − e) + y·2^(ey − e)`, i.e. `z·2^e` is the exact sum
of the denoted values -/
theorem scaled_add_exact (x y : ESNum) (hx : x.InRange) (hy : y.InRange)
    (hwf : ∀ m, ElasticScaled.binOp .add x y ≠ .ill m) :
    ∃ z, ElasticScaled.binOp .add x y = .ok z ∧ z.exp = min x.exp y.exp ∧
      z.value = x.value * 2^(x.exp - min x.exp y.exp).toNat + y.value * 2^(y.exp - min x.exp y.exp).toNat ∧
      z.digits = max (x.digits + (x.exp - min x.exp y.exp).toNat) (y.digits + (y.exp - min x.exp y.exp).toNat) + 1 ∧
      z.InRange := by
  obtain ⟨z, sg, h1, he, hv, hp, hr, _⟩ := scaled_binOp_exact .add x y hx hy (by simp) hwf
  simp only [AOp.toBin, policy, Option.some.injEq, Prod.mk.injEq] at hp
  exact ⟨z, h1, he, hv, hp.1.symm, hr⟩

/-- `−` -/
theorem scaled_sub_exact (x y : ESNum) (hx : x.InRange) (hy : y.InRange)
    (hwf : ∀ m, ElasticScaled.binOp .sub x y ≠ .ill m) :
    ∃ z, ElasticScaled.binOp .sub x y = .ok z ∧ z.exp = min x.exp y.exp ∧
      z.value = x.value * 2^(x.exp - min x.exp y.exp).toNat - y.value * 2^(y.exp - min x.exp y.exp).toNat ∧
      z.InRange := by
  obtain ⟨z, sg, h1, he, hv, hp, hr, _⟩ := scaled_binOp_exact .sub x y hx hy (by simp) hwf
  exact ⟨z, h1, he, hv, hr⟩

/-- `*`: exponents add, representations multiply -/
theorem scaled_mul_exact (x y : ESNum) (hx : x.InRange) (hy : y.InRange)
    (hwf : ∀ m, ElasticScaled.binOp .mul x y ≠ .ill m) :
    ∃ z, ElasticScaled.binOp .mul x y = .ok z ∧ z.exp = x.exp + y.exp ∧ z.value = x.value * y.value ∧
      z.InRange := by
  obtain ⟨z, sg, h1, he, hv, hp, hr, _⟩ := scaled_binOp_exact .mul x y hx hy (by simp) hwf
  exact ⟨z, h1, he, hv, hr⟩

/-- `/` (non-zero divisor): exponents subtract, the representation is the truncated quotient -/
theorem scaled_div_exact (x y : ESNum) (hx : x.InRange) (hy : y.InRange) (h0 : y.value ≠ 0)
    (hwf : ∀ m, ElasticScaled.binOp .div x y ≠ .ill m) :
    ∃ z, ElasticScaled.binOp .div x y = .ok z ∧ z.exp = x.exp - y.exp ∧ z.value = x.value.tdiv y.value ∧
      z.digits = x.digits ∧ z.InRange := by
  obtain ⟨z, sg, h1, he, hv, hp, hr, _⟩ := scaled_binOp_exact .div x y hx hy (fun _ => h0) hwf
  simp only [AOp.toBin, policy, Option.some.injEq, Prod.mk.injEq] at hp
  exact ⟨z, h1, he, hv, hp.1.symm, hr⟩

/-- `%` (non-zero divisor): the left exponent, the remainder of the representations -/
theorem scaled_mod_exact (x y : ESNum) (hx : x.InRange) (hy : y.InRange) (h0 : y.value ≠ 0)
    (hwf : ∀ m, ElasticScaled.binOp .mod x y ≠ .ill m) :
    ∃ z, ElasticScaled.binOp .mod x y = .ok z ∧ z.exp = x.exp ∧ z.value = x.value.tmod y.value ∧
      z.InRange := by
  obtain ⟨z, sg, h1, he, hv, hp, hr, _⟩ := scaled_binOp_exact .mod x y hx hy (fun _ => h0) hwf
  exact ⟨z, h1, he, hv, hr⟩

-- 40 digits at 2^-31 plus 20 digits at 2^0: the right operand is widened by 31 digits (storage `int64`)
example : ElasticScaled.binOp .add ⟨40, i32, -31, -1099511627775⟩ ⟨20, i32, 0, 1048575⟩
    = .ok ⟨52, i32, -31, -1099511627775 + 1048575 * 2^31⟩ := by decide
example : (⟨40, i32, -31, -1099511627775⟩ : ESNum).InRange ∧ (⟨20, i32, 0, 1048575⟩ : ESNum).InRange ∧
    (∀ m, ElasticScaled.binOp (AOp.toBin .add) ⟨40, i32, -31, -1099511627775⟩ ⟨20, i32, 0, 1048575⟩ ≠ .ill m) := by
  refine ⟨by decide, by decide, fun m h => ?_⟩
  have e : ElasticScaled.binOp (AOp.toBin .add) ⟨40, i32, -31, -1099511627775⟩ ⟨20, i32, 0, 1048575⟩
      = .ok ⟨52, i32, -31, -1099511627775 + 1048575 * 2^31⟩ := by decide
  rw [e] at h; cases h
example : ElasticScaled.binOp .sub ⟨8, u8, 3, 255⟩ ⟨8, u8, -5, 255⟩ = .ok ⟨16, i8, -5, 255 * 2^8 - 255⟩ := by decide
example : ElasticScaled.binOp .mul ⟨31, i32, -16, -2147483647⟩ ⟨32, u32, -8, 4294967295⟩
    = .ok ⟨63, i32, -24, -9223372030412324865⟩ := by decide
example : ElasticScaled.binOp .div ⟨40, i32, -31, -1099511627775⟩ ⟨10, i32, 4, -1000⟩
    = .ok ⟨40, i32, -35, 1099511627⟩ := by decide
example : ElasticScaled.binOp .mod ⟨40, i32, -31, -1099511627775⟩ ⟨10, i32, 4, 1000⟩
    = .ok ⟨10, i32, -31, -775⟩ := by decide

/-- unary minus: the exact negation, same digits and exponent, signed, in range, never undefined -/
theorem scaled_neg_exact (x : ESNum) (hx : x.InRange) (hwf : ∀ m, ElasticScaled.neg x ≠ .ill m) :
    ∃ z, ElasticScaled.neg x = .ok z ∧ z.value = -x.value ∧ z.exp = x.exp ∧ z.digits = x.digits ∧
      z.narrowest.signed = true ∧ z.InRange := by
  have ⟨h1, hf⟩ := ElasticScaled.neg_core x hx hwf
  exact ⟨_, h1, rfl, rfl, rfl, rfl, hf⟩

example : ElasticScaled.neg ⟨32, u32, -7, 4294967295⟩ = .ok ⟨32, i32, -7, -4294967295⟩ := by decide
example : (⟨40, i32, -31, -1099511627775⟩ : ESNum).InRange ∧
    ElasticScaled.neg ⟨40, i32, -31, -1099511627775⟩ = .ok ⟨40, i32, -31, 1099511627775⟩ := by decide

/-- every comparison of two in-range elastic_scaled_integers — any digits, exponents, signedness mix
and narrowest widths for which the aligned common type exists — is the comparison of the integers
`value · 2^(exp − e)`, `e` the smaller exponent: of the denoted values `value · 2^exp` in units of `2^e` -/
theorem scaled_cmp_by_value (op : CmpOp) (x y : ESNum) (hx : x.InRange) (hy : y.InRange)
    (hwf : ∀ m, ElasticScaled.cmp op x y ≠ .ill m) :
    ElasticScaled.cmp op x y = .ok (cmpExact op (x.value * 2^(x.exp - min x.exp y.exp).toNat)
      (y.value * 2^(y.exp - min x.exp y.exp).toNat)) :=
  ElasticScaled.cmp_core op x y hx hy hwf

/-- … and the unit does not matter: for every `e0` at or below both exponents the result is the
comparison of `x.value · 2^(x.exp − e0)` with `y.value · 2^(y.exp − e0)` -/
theorem scaled_cmp_denoted (op : CmpOp) (x y : ESNum) (hx : x.InRange) (hy : y.InRange)
    (hwf : ∀ m, ElasticScaled.cmp op x y ≠ .ill m) (e0 : Int) (hx0 : e0 ≤ x.exp) (hy0 : e0 ≤ y.exp) :
    ElasticScaled.cmp op x y = .ok (cmpExact op (x.value * 2^(x.exp - e0).toNat) (y.value * 2^(y.exp - e0).toNat)) := by
  rw [scaled_cmp_by_value op x y hx hy hwf]
  exact congrArg Res.ok (ElasticScaled.cmpExact_aligned op x y e0 hx0 hy0)

-- -1·2^-31 < (2^32 − 1)·2^0 across signedness; 255·2^3 = 2040 > 2039·2^0; 3·2^-1 = 6·2^-2
example : ElasticScaled.cmp .lt ⟨31, i32, -31, -1⟩ ⟨32, u32, 0, 4294967295⟩ = .ok true := by decide
example : ElasticScaled.cmp .gt ⟨8, u8, 3, 255⟩ ⟨11, i16, 0, 2039⟩ = .ok true := by decide
example : ElasticScaled.cmp .eq ⟨40, i32, -1, 3⟩ ⟨40, u32, -2, 6⟩ = .ok true := by decide
example : (⟨31, i32, -31, -1⟩ : ESNum).InRange ∧ (⟨32, u32, 0, 4294967295⟩ : ESNum).InRange ∧
    (∀ m, ElasticScaled.cmp .lt ⟨31, i32, -31, -1⟩ ⟨32, u32, 0, 4294967295⟩ ≠ .ill m) := by
  refine ⟨by decide, by decide, fun m h => ?_⟩
  have e : ElasticScaled.cmp .lt ⟨31, i32, -31, -1⟩ ⟨32, u32, 0, 4294967295⟩ = .ok true := by decide
  rw [e] at h; cases h

/-! ## results that need multi-word storage (`CnlModel/ElasticWide.lean`)

Beyond 127/128 digits `set_digits_t` selects `wide_integer<digits, Narrowest>`; `binOp` / `neg` (built-in storage)
are `.ill` there and `xBin` / `xNeg` continue them with "the policy's digits + the exact value".  **That the
multi-word storage computes the exact value is property C10's theorem; the model takes it as the definition**, so
the content of the theorems below is the type rule and the range claim: for every operator, every digit count —
now unbounded — every signedness mix and all in-range operands, the exact result lies in the declared range of the
digits the policy gives, and `xBin` is `binOp` (hence everything `binOp_exact` says, with its proof through the
built-in operators) wherever the result has built-in storage.  No well-formedness hypothesis is left: `xBin` is
total on the five arithmetic operators.
-/

/-- `xBin` agrees with `binOp` wherever that is well-formed (built-in storage) -/
theorem wide_binOp_agrees (op : BinOp) (x y : ENum) (hwf : ∀ m, binOp op x y ≠ .ill m) :
    xBin op x y = binOp op x y :=
  xBin_eq_binOp op x y hwf

/-- `+ - * / %` whatever storage the result needs: when the policy yields `(d, sg)`, `xBin` returns (never undefined
behaviour, never ill-formed) a number `z` with the exact value, `d` digits, inside its declared range, and
non-negative whenever the policy says unsigned -/
theorem wide_binOp_exact (op : AOp) (x y : ENum) (hx : x.InRange) (hy : y.InRange)
    (h0 : (op = .div ∨ op = .mod) → y.value ≠ 0) {d : Nat} {sg : Bool}
    (hp : policy (AOp.toBin op) x.digits x.narrowest.signed y.digits y.narrowest.signed = some (d, sg)) :
    ∃ z, xBin (AOp.toBin op) x y = .ok z ∧
      z.value = exact op x.value y.value ∧ z.value = Elastic.exactBin (AOp.toBin op) x.value y.value ∧
      z.digits = d ∧ z.InRange ∧ (sg = false → 0 ≤ z.value) := by
  obtain ⟨n, h1, he, hs⟩ := xBin_wf op x y hx hy h0 hp
  exact ⟨_, h1, rfl, (exactBin_eq op _ _).symm, rfl, he.mono hs, fun h => (fits_iff.mp he).2 h⟩

/-- unary minus whatever storage the result needs: exact, same digits, signed, in range -/
theorem wide_neg_exact (x : ENum) (hx : x.InRange) :
    ∃ z, xNeg x = .ok z ∧ z.value = -x.value ∧ z.digits = x.digits ∧ z.narrowest.signed = true ∧ z.InRange ∧
      ((∀ m, neg x ≠ .ill m) → xNeg x = neg x) := by
  have ⟨h1, hf⟩ := xNeg_wf x hx
  exact ⟨_, h1, rfl, rfl, rfl, hf, xNeg_eq_neg x⟩

/-- `/` and `%` together, whatever storage the operation needs (the multi-word `wide_integer` division routine
included — its exactness is C10's theorem, its use by `elastic_integer` is validated by the `xbin div`, `xbin mod`
lines of the correspondence table, which run divisors of 1, 2, 3, … limbs, every sign combination, dividends smaller
than the divisor and Knuth "add-back" operands): for in-range operands and a non-zero divisor, quotient and remainder
are the truncated quotient and its remainder, both inside their declared ranges, `q·d + r = n`, `|r| < |d|`, and the
remainder carries the sign of the dividend -/
theorem wide_divmod_identity (x y : ENum) (hx : x.InRange) (hy : y.InRange) (h0 : y.value ≠ 0) :
    ∃ q r, xBin .div x y = .ok q ∧ xBin .mod x y = .ok r ∧ q.InRange ∧ r.InRange ∧
      q.value = x.value.tdiv y.value ∧ r.value = x.value.tmod y.value ∧
      q.value * y.value + r.value = x.value ∧ r.value.natAbs < y.value.natAbs ∧
      (0 ≤ x.value → 0 ≤ r.value) ∧ (x.value ≤ 0 → r.value ≤ 0) := by
  obtain ⟨q, hq, hqv, _, _, hqr, _⟩ := wide_binOp_exact .div x y hx hy (fun _ => h0) rfl
  obtain ⟨r, hr, hrv, _, _, hrr, _⟩ := wide_binOp_exact .mod x y hx hy (fun _ => h0) rfl
  have hqv' : q.value = x.value.tdiv y.value := hqv
  have hrv' : r.value = x.value.tmod y.value := hrv
  refine ⟨q, r, hq, hr, hqr, hrr, hqv', hrv', ?_, ?_, ?_, ?_⟩
  · rw [hqv', hrv']; exact Int.tdiv_mul_add_tmod _ _
  · rw [hrv', Int.natAbs_tmod]; exact Nat.mod_lt _ (Int.natAbs_pos.mpr h0)
  · intro h; rw [hrv']; exact Int.tmod_nonneg _ h
  · intro h; rw [hrv']
    have h1 : 0 ≤ (-x.value).tmod y.value := Int.tmod_nonneg _ (by omega)
    rw [Int.neg_tmod] at h1; omega

/-- the identity evaluated in elastic arithmetic (`xident` lines): `(n / d) * d + n % d`, each operator applied to the
elastic result of the one before, is defined, equals `n`, and lies inside the declared range of its (wider) type -/
theorem wide_divmod_roundtrip (x y : ENum) (hx : x.InRange) (hy : y.InRange) (h0 : y.value ≠ 0) :
    ∃ z, xDivModIdentity x y = .ok z ∧ z.value = x.value ∧ z.InRange := by
  obtain ⟨q, r, hq, hr, hqr, hrr, _, _, hid, _⟩ := wide_divmod_identity x y hx hy h0
  obtain ⟨p, hp, hpv, _, _, hpr, _⟩ := wide_binOp_exact .mul q y hqr hy (fun h => by cases h <;> contradiction) rfl
  obtain ⟨z, hz, hzv, _, _, hzr, _⟩ := wide_binOp_exact .add p r hpr hrr (fun h => by cases h <;> contradiction) rfl
  refine ⟨z, ?_, ?_, hzr⟩
  · unfold xDivModIdentity
    rw [hq, hr]
    show (match xBin .mul q y with | .ok p => xBin .add p r | e => e) = _
    rw [show xBin .mul q y = .ok p from hp]
    exact hz
  · rw [hzv]; show p.value + r.value = _
    rw [hpv]; exact hid

-- opposite signs, multi-word storage: the remainder has the sign of the dividend
example : xDivModIdentity ⟨150, i32, -(100 * 2^140 + 100)⟩ ⟨150, i32, 1000⟩ = .ok ⟨301, i32, -(100 * 2^140 + 100)⟩
    ∧ xBin .mod ⟨150, i32, -(100 * 2^140 + 100)⟩ ⟨150, i32, 1000⟩ = .ok ⟨150, i32, -700⟩
    ∧ xBin .mod ⟨150, i32, 100 * 2^140 + 100⟩ ⟨150, i32, -1000⟩ = .ok ⟨150, i32, 700⟩ := by decide +kernel
-- the classic add-back operands of Knuth's algorithm D (32-bit limbs)
example : xBin .div ⟨160, i32, 0x7fffffff800000000000000000000000 * 2^64⟩ ⟨160, i32, 0x800000000000000000000001 * 2^64⟩
    = .ok ⟨160, i32, 0xfffffffe⟩ := by decide +kernel

-- 100-digit operands: the product needs 200 digits (two or more machine words), the sum 101
example : binOp .mul ⟨100, i32, 2^100 - 1⟩ ⟨100, i32, -(2^100 - 1)⟩ = .ill "result digits exceed the widest integer"
    ∧ xBin .mul ⟨100, i32, 2^100 - 1⟩ ⟨100, i32, -(2^100 - 1)⟩ = .ok ⟨200, i32, -((2^100 - 1) * (2^100 - 1))⟩ := by
  decide +kernel
example : xBin .add ⟨127, i64, 2^127 - 1⟩ ⟨127, u8, 2^127 - 1⟩ = .ok ⟨128, i64, 2^128 - 2⟩
    ∧ xBin .sub ⟨128, u32, 0⟩ ⟨128, u32, 2^128 - 1⟩ = .ok ⟨128, i32, -(2^128 - 1)⟩
    ∧ xBin .mod ⟨200, i32, -(2^200 - 1)⟩ ⟨10, i32, 1000⟩ = .ok ⟨10, i32, -375⟩
    ∧ xNeg ⟨128, u32, 2^128 - 1⟩ = .ok ⟨128, i32, -(2^128 - 1)⟩ := by decide +kernel
example : (⟨100, i32, 2^100 - 1⟩ : ENum).InRange ∧ (⟨100, i32, -(2^100 - 1)⟩ : ENum).InRange
    ∧ policy (AOp.toBin .mul) 100 true 100 true = some (200, true) := by decide +kernel
-- built-in storage: the same result as `binOp`
example : xBin .mul ⟨31, i32, -2147483647⟩ ⟨32, u32, 4294967295⟩ = .ok ⟨63, i32, -9223372030412324865⟩ := by decide

end Cnl.C05
