import CnlProofs.Fraction
/-!
# C16 — `cnl::fraction` follows the rationals

`Frac` is a `cnl::fraction<nt, dt>` over built-in integer component types of **any** width and
signedness; `Cnl.Fraction.{add, sub, mul, div, neg, pos, cmp, reduce, canonical, hashWith}` transcribe
`_impl/fraction/{operators, reduce, canonical, gcd, hash}.h` into `CnlModel.CInt` arithmetic
(promotion, usual arithmetic conversions, wrap-around and undefined signed overflow included).
`val a = numerator / denominator : Rat` (core `Rat`).

The property's restriction "non-zero denominators and operands small enough that the cross products
fit" is the explicit guard of each theorem (`CnlSpec.Fraction`): every operand is representable in
the common type the built-in operator converts it to and every mathematical product / sum / negation
is representable in the type C++ computes it in.  Under the guard each theorem says the C++
evaluation is *defined* (the model returns `ok`, no UB) **and** denotes the exact rational result.

* `add_value sub_value mul_value div_value neg_value pos_value` — `val (a ⊕ b) = val a ⊕ val b`, with the
  deduced component types of the result;
* `cmp_correct` — all six comparison operators return the order / equality of the rational values,
  **for denominators of either sign** (this is the theorem the unrepaired tree violated — see
  `order_unrepaired_refuted` and findings/C16.json; the model follows the repaired `operators.h`);
* `reduce_correct`, `canonical_correct` — value preserved, coprime parts, positive denominator;
  `canonical_lowest_terms`, `canonical_unique` — the canonical form *is* the lowest-terms representation of
  the value, so fractions of one type with equal values have equal canonical forms;
* `hash_eq_of_value_eq`, `hash_eq_of_compare_equal` — hence equal `std::hash` values, **for every hash
  function on the components** and every word size;
* `to_scalar_exact` — the conversion expression `static_cast<S>(numerator) / static_cast<S>(denominator)`
  over an exact scalar is the value.  The IEEE rounding of that expression (`Fraction.toFloat`) is executable
  and tied to the code by the correspondence check only — it is not the subject of a theorem here
  (no `CFloat` theory of rounding yet);
* `abs_components` — `abs` returns `|numerator| / |denominator|` (not part of the property text; abs.h is anchored).

`std::gcd` enters through the libstdc++ transcription `Fraction.gcd` (binary gcd itself taken as `Nat.gcd`);
within `ReduceGuard` (its precondition) it is `Int.gcd`.
-/
namespace Cnl.C16
open Cnl Cnl.Fraction Cnl.FractionSpec Cnl.FractionProofs

/-- the rational number a fraction denotes -/
def val (a : Frac) : Rat := value a.n a.d

/-! ## arithmetic -/

theorem add_value (a b : Frac) (ha : a.d ≠ 0) (hb : b.d ≠ 0) (g : AddGuard a.num a.den b.num b.den) :
    ∃ c, add a b = .ok c ∧ c.nt = usualArith (usualArith a.nt b.dt) (usualArith b.nt a.dt)
      ∧ c.dt = usualArith a.dt b.dt ∧ c.d ≠ 0 ∧ val c = val a + val b := by
  obtain ⟨g1, g2, g3, g4⟩ := g
  refine ⟨⟨_, _, a.n * b.d + b.n * a.d, a.d * b.d⟩, ?_, rfl, rfl, Int.mul_ne_zero ha hb, value_add _ _ _ _ ha hb⟩
  unfold add
  rw [cBin_mul_exact _ _ g1, cBin_mul_exact _ _ g2]
  simp only [Res.bind_ok]
  rw [cBin_add_exact _ _ g3, cBin_mul_exact _ _ g4]
  rfl

theorem sub_value (a b : Frac) (ha : a.d ≠ 0) (hb : b.d ≠ 0) (g : SubGuard a.num a.den b.num b.den) :
    ∃ c, sub a b = .ok c ∧ c.nt = usualArith (usualArith a.nt b.dt) (usualArith b.nt a.dt)
      ∧ c.dt = usualArith a.dt b.dt ∧ c.d ≠ 0 ∧ val c = val a - val b := by
  obtain ⟨g1, g2, g3, g4⟩ := g
  refine ⟨⟨_, _, a.n * b.d - b.n * a.d, a.d * b.d⟩, ?_, rfl, rfl, Int.mul_ne_zero ha hb, value_sub _ _ _ _ ha hb⟩
  unfold sub
  rw [cBin_mul_exact _ _ g1, cBin_mul_exact _ _ g2]
  simp only [Res.bind_ok]
  rw [cBin_sub_exact _ _ g3, cBin_mul_exact _ _ g4]
  rfl

theorem mul_value (a b : Frac) (ha : a.d ≠ 0) (hb : b.d ≠ 0) (g : MulGuard a.num a.den b.num b.den) :
    ∃ c, mul a b = .ok c ∧ c.nt = usualArith a.nt b.nt ∧ c.dt = usualArith a.dt b.dt ∧ c.d ≠ 0
      ∧ val c = val a * val b := by
  obtain ⟨g1, g2⟩ := g
  refine ⟨⟨_, _, a.n * b.n, a.d * b.d⟩, ?_, rfl, rfl, Int.mul_ne_zero ha hb, value_mul _ _ _ _⟩
  unfold mul
  rw [cBin_mul_exact _ _ g1, cBin_mul_exact _ _ g2]
  rfl

/-- division: the divisor's numerator must not be zero (it becomes a factor of the denominator) -/
theorem div_value (a b : Frac) (ha : a.d ≠ 0) (hbn : b.n ≠ 0) (g : DivGuard a.num a.den b.num b.den) :
    ∃ c, div a b = .ok c ∧ c.nt = usualArith a.nt b.dt ∧ c.dt = usualArith a.dt b.nt ∧ c.d ≠ 0
      ∧ val c = val a / val b := by
  obtain ⟨g1, g2⟩ := g
  refine ⟨⟨_, _, a.n * b.d, a.d * b.n⟩, ?_, rfl, rfl, Int.mul_ne_zero ha hbn, value_div _ _ _ _⟩
  unfold div
  rw [cBin_mul_exact _ _ g1, cBin_mul_exact _ _ g2]
  rfl

/-- unary minus: the numerator is promoted and negated, the denominator keeps its type -/
theorem neg_value (a : Frac) (g : NegFits a.num) :
    ∃ c, neg a = .ok c ∧ c.nt = promote a.nt ∧ c.dt = a.dt ∧ c.d = a.d ∧ val c = -val a := by
  refine ⟨⟨_, _, -a.n, a.d⟩, ?_, rfl, rfl, rfl, value_neg _ _⟩
  unfold neg
  rw [cNeg_exact _ g]
  rfl

/-- unary plus: both components are promoted -/
theorem pos_value (a : Frac) (hn : a.nt.InRange a.n) (hd : a.dt.InRange a.d) :
    ∃ c, pos a = .ok c ∧ c.nt = promote a.nt ∧ c.dt = promote a.dt ∧ c.d = a.d ∧ val c = val a := by
  refine ⟨⟨_, _, a.n, a.d⟩, ?_, rfl, rfl, rfl, rfl⟩
  unfold pos
  rw [cPos_exact a.num (inRange_promote _ _ hn), cPos_exact a.den (inRange_promote _ _ hd)]
  rfl

/-! ## comparison -/

/-- `== != < > <= >=` return the equality / order of the rational values, whatever the signs of the
denominators -/
theorem cmp_correct (op : CmpOp) (a b : Frac) (wa : a.dt.InRange a.d) (wb : b.dt.InRange b.d)
    (ha : a.d ≠ 0) (hb : b.d ≠ 0) (g : CmpGuard a.num a.den b.num b.den) :
    cmp op a b = .ok (cmpRat op (val a) (val b)) := by
  obtain ⟨g1, g2, g3⟩ := g
  unfold cmp
  rw [cBin_mul_exact _ _ g1, cBin_mul_exact _ _ g2]
  simp only [Res.bind_ok, Res.pure_eq]
  rw [cCmp_exact _ _ _ g3, negDen_eq a wa, negDen_eq b wb]
  unfold val
  rw [cmpRat_value op _ _ _ _ ha hb]
  rfl

/-- the expression of the unrepaired tree is wrong as soon as exactly one denominator is negative:
`fraction<int8>(-128, -128) < fraction<int8>(-128, 5)` was `true` although `1 < -25.6` is false -/
theorem order_unrepaired_refuted :
    ∃ a b : Frac, a.d ≠ 0 ∧ b.d ≠ 0 ∧ CmpGuard a.num a.den b.num b.den
      ∧ cmpUnrepaired .lt a b = .ok true ∧ cmpRat .lt (val a) (val b) = false :=
  ⟨⟨i8, i8, -128, -128⟩, ⟨i8, i8, -128, 5⟩, by decide, by decide, by decide, by decide, by
    unfold val
    rw [cmpRat_value _ _ _ _ _ (by decide) (by decide)]
    decide⟩

/-! ## reduce, canonical -/

theorem reduce_correct (a : Frac) (g : ReduceGuard a.num a.den) :
    ∃ r, reduce a = .ok r ∧ r.d ≠ 0 ∧ val r = val a ∧ Coprime r.n r.d :=
  ⟨_, reduce_exact a g, reduced_den_ne_zero _ _ g.dnz, reduced_value _ _ g.dnz, reduced_coprime _ _ g.dnz⟩

/-- the canonical form is the lowest-terms representation of the value (numerator and denominator of
the normalised rational), in the promoted component types -/
theorem canonical_lowest_terms (a : Frac) (g : CanonGuard a.num a.den) :
    canonical a = .ok ⟨usualArith a.nt (commonTy a.nt a.dt), usualArith a.dt (commonTy a.nt a.dt),
      (val a).num, (val a).den⟩ :=
  canonical_exact a g

theorem canonical_correct (a : Frac) (g : CanonGuard a.num a.den) :
    ∃ r, canonical a = .ok r ∧ 0 < r.d ∧ val r = val a ∧ Coprime r.n r.d :=
  ⟨_, canonical_exact a g, lowestTerms_pos _ _, lowestTerms_value _ _, lowestTerms_coprime _ _⟩

/-- equal values ⇒ equal canonical forms (fractions of one type) -/
theorem canonical_unique (a b : Frac) (hn : a.nt = b.nt) (hd : a.dt = b.dt)
    (ga : CanonGuard a.num a.den) (gb : CanonGuard b.num b.den) (hv : val a = val b) :
    canonical a = canonical b := by
  rw [canonical_lowest_terms a ga, canonical_lowest_terms b gb, hv, hn, hd]

/-! ## hash -/

/-- equal values ⇒ equal hashes, for every word size and every pair of component hash functions -/
theorem hash_eq_of_value_eq (w : Nat) (hashN hashD : Int → Nat) (a b : Frac) (hn : a.nt = b.nt) (hd : a.dt = b.dt)
    (ga : CanonGuard a.num a.den) (gb : CanonGuard b.num b.den) (hv : val a = val b) :
    hashWith w hashN hashD a = hashWith w hashN hashD b := by
  unfold hashWith
  rw [canonical_unique a b hn hd ga gb hv, hn, hd]

/-- the `std::hash` contract: fractions that compare equal with `operator==` hash equally -/
theorem hash_eq_of_compare_equal (w : Nat) (hashN hashD : Int → Nat) (a b : Frac) (hn : a.nt = b.nt) (hd : a.dt = b.dt)
    (ga : CanonGuard a.num a.den) (gb : CanonGuard b.num b.den) (g : CmpGuard a.num a.den b.num b.den)
    (heq : cmp .eq a b = .ok true) :
    hashWith w hashN hashD a = hashWith w hashN hashD b := by
  apply hash_eq_of_value_eq w hashN hashD a b hn hd ga gb
  rw [cmp_correct .eq a b ga.dwf gb.dwf ga.dnz gb.dnz g] at heq
  simpa [cmpRat] using heq

/-! ## abs -/

/-- `abs(f)` is `|numerator| / |denominator|` in the component types of `f` (signed components whose
negations are representable) -/
theorem abs_components (a : Frac) (bn : 1 ≤ a.nt.bits) (bd : 1 ≤ a.dt.bits) (sn : a.nt.signed = true)
    (sd : a.dt.signed = true) (wn : a.nt.InRange a.n) (wd : a.dt.InRange a.d)
    (nn : a.nt.InRange (-a.n)) (nd : a.dt.InRange (-a.d)) :
    Fraction.abs a = .ok ⟨a.nt, a.dt, (a.n.natAbs : Int), (a.d.natAbs : Int)⟩ := by
  unfold Fraction.abs
  rw [absC_exact a.num bn sn wn nn, absC_exact a.den bd sd wd nd]
  rfl

/-! ## conversion to floating point -/

/-- `static_cast<S>(numerator) / static_cast<S>(denominator)` over an exact scalar is the value -/
theorem to_scalar_exact (a : Frac) : toScalarExact a = val a := rfl

/-! ## Non-vacuity: the hypotheses are satisfiable on non-trivial instances, and the model computes -/

-- 8-bit components: -7/-12 + 5/-9 = (-7·-9 + 5·-12)/(-12·-9) = 3/108, computed in `int`
example : AddGuard (i8, -7) (i8, -12) (i8, 5) (i8, -9) := by decide
example : add ⟨i8, i8, -7, -12⟩ ⟨i8, i8, 5, -9⟩ = .ok ⟨i32, i32, 3, 108⟩ := by decide
-- 32-bit components near the limit of the guard, and just beyond it (undefined behaviour)
example : MulGuard (i32, 46341) (i32, -46340) (i32, 46340) (i32, 46340) := by decide
example : mul ⟨i32, i32, 46341, -46340⟩ ⟨i32, i32, 46341, 46340⟩ = .ub .signedOverflow := by decide
example : DivGuard (i16, 100) (i16, -3) (i16, -7) (i16, 9) := by decide
example : SubGuard (i64, 3) (i64, 4) (i32, 1) (i32, -4) := by decide
example : NegFits (i8, -128) := by decide
example : ¬ NegFits (i32, -2147483648) := by decide
example : Fraction.abs ⟨i8, i8, -127, -3⟩ = .ok ⟨i8, i8, 127, 3⟩ := by decide
example : Fraction.abs ⟨i8, i8, -128, 3⟩ = .ok ⟨i8, i8, -128, 3⟩ := by decide
-- the comparison guard with denominators of different signs; the repaired operator's answer
example : CmpGuard (i8, -128) (i8, -128) (i8, -128) (i8, 5) := by decide
example : cmp .lt ⟨i8, i8, -128, -128⟩ ⟨i8, i8, -128, 5⟩ = .ok false := by decide
example : cmp .ge ⟨i8, i8, 1, 2⟩ ⟨i8, i8, 1, -3⟩ = .ok true := by decide
example : cmp .eq ⟨i8, i8, 2, -4⟩ ⟨i8, i8, -64, -128⟩ = .ok false := by decide
example : cmp .eq ⟨i8, i8, 2, -4⟩ ⟨i8, i8, 64, -128⟩ = .ok true := by decide
-- reduce / canonical / hash
example : canonical ⟨i16, i16, 6, -8⟩ = .ok ⟨i32, i32, -3, 4⟩ := by decide
example : reduce ⟨i16, i16, 6, -8⟩ = .ok ⟨i32, i32, 3, -4⟩ := by decide
example : canonical ⟨i8, i8, -128, -128⟩ = .ok ⟨i32, i32, 1, 1⟩ := by decide
example : canonical ⟨i32, i32, -2147483648, 2⟩ = .ub .signedOverflow := by decide
example : hashWith 64 (stdHashInt 64) (stdHashInt 64) ⟨i8, i8, 2, -4⟩
    = hashWith 64 (stdHashInt 64) (stdHashInt 64) ⟨i8, i8, -3, 6⟩ := by decide +kernel
example : CanonGuard (i16, 6) (i16, -8) := by
  refine { nbits := ?_, dbits := ?_, nwf := ?_, dwf := ?_, dnz := ?_, cn := ?_, cd := ?_, cna := ?_, cda := ?_,
           qn := ?_, qng := ?_, qd := ?_, qdg := ?_, negn := ?_, negd := ?_ } <;> decide
example : CanonGuard (i32, -2147483647) (i64, -9223372036854775807) := by
  refine { nbits := ?_, dbits := ?_, nwf := ?_, dwf := ?_, dnz := ?_, cn := ?_, cd := ?_, cna := ?_, cda := ?_,
           qn := ?_, qng := ?_, qd := ?_, qdg := ?_, negn := ?_, negd := ?_ } <;> decide +kernel

end Cnl.C16
