import CnlProofs.Exp2
import CnlProofs.Exp2Tab8
import CnlProofs.Numbers
import CnlProofs.NumbersReal
/-!
# C20 — exp2 and the mathematical constants of scaled_integer are accurate to one unit in the last place

Model `Cnl.Exp2.exp2` (`CnlModel.Exp2`, the code of `scaled_integer/math.h` with the coefficient table the compiler prints today),
specification `Cnl.Spec.Exp2.IsRef E rep r` (`r = ⌊2^x · 2^(−E)⌋`, `x = rep·2^E`, stated with integer powers only), oracle soundness in `CnlProofs.Exp2`.

**The property is false of the code** (and of the model):
* `C20_exp2_refuted` — the documented 1-LSB bound fails: `uint8_t, power<−4>`, rep 63: the code returns 243, `⌊2^3.9375·16⌋ = 245`;
  finding `C20.exp2_error_exceeds_1lsb` (open);
* `C20_exp2_unsigned32_refuted` — for `uint32_t` (and `uint64_t`) reps with a negative exponent `floored <= Exponent` compares an unsigned
  value with a negative `int`, is always true, and `exp2` returns representation 1 for every input; finding `C20.exp2_unsigned_rep_sign_compare` (open);
* (driver only) positive exponents: `static_cast<Rep>(floor(x))` wraps for very negative `x`; finding `C20.exp2_positive_exponent_floor_wraps` (open).

**Proved** (kernel-checked over EVERY input, against the true floor):
* `C20_exp2_8bit_partial` — for each of the 25 8-bit formats listed in `bounds8` (every exponent with an integer bit, except `int8_t` with
  exponent +1, +2): whenever the true result fits, the model returns a value, and it is within the stated *exact* maximum deviation (0, 1 or 2 units);
  `C20_exp2_8bit_tight` — the bound is attained.
* `C20_integral_exact_partial` — (a) integral `x` whose `2^x` is representable ⇒ the result is exactly `2^(x−E)`: every 8-, 16- and 32-bit format
  with an integer bit outside the sign-compare class, every such `x` (finite: at most `digits` inputs per format).
* constants: `C20_constants_model`, `C20_constants_algebraic` (√2, √3, 1/√3, φ: exact), `C20_constants_ref60` (all thirteen, against a
  60-digit decimal enclosure — a numerical reference, not a theorem about π or e), `C20_constants_series_unreachable`.
* constants against the TRUE real numbers (`CnlProofs.NumbersReal`, Mathlib's `Real.pi`, `Real.exp 1`, `Real.log`, `√`,
  `Real.eulerMascheroniConstant`): `C20_constants_real` — for every generated (constant, Rep, Exponent) entry of twelve of the thirteen
  constants (π, e, ln 2, ln 10, log₂e = 1/ln 2, log₁₀e = 1/ln 10, 1/π, 1/√π, √2, √3, 1/√3, φ — every format up to 64 bits) the model stores
  the tabulated representation `c` and `(c − 1)·2^E < K < (c + 1)·2^E` holds in ℝ; for γ the same for the formats with at most 14
  fractional bits (`C20_egamma_real_partial`).  Per-constant statements written out: `C20_pi_real`, `C20_e_real`, `C20_ln2_real`,
  `C20_ln10_real`, `C20_log2e_real`, `C20_log10e_real`, `C20_inv_pi_real`, `C20_inv_sqrtpi_real`, `C20_sqrt2_real`, `C20_sqrt3_real`,
  `C20_inv_sqrt3_real`, `C20_phi_real`.  Enclosures used: π from `Real.pi_gt_d20/pi_lt_d20`; e from `Real.exp_one_near_20`; ln 2 from 70
  terms of the log series with Mathlib's remainder bound (2^−70; Mathlib's ready-made `log_two_near_10` would stop at ≈ 30 fractional bits);
  ln 10 = 3 ln 2 + ln(5/4); reciprocals and square roots by rational interval arithmetic; γ from `eulerMascheroniSeq 16383 < γ <
  eulerMascheroniSeq' 16384`.

**Not proved** (`def … : Prop`, kept at full strength): `C20_exp2_full` (false, see above); `C20_16_full` / `C20_32_full` — the deviation bound for
16- and 32-bit reps: the kernel evaluator needs ≈ 30 ms per input on this model, so 65 536-input tables do not fit the build budget and `2^32` never will;
both are covered by the correspondence sweep (every input of the listed 16-bit formats; dense for 32-bit) with the *same, proved-sound* oracle run by
the compiled driver.  `C20_constants_real_full` — γ (egamma) for the formats with more than 14 fractional bits: Mathlib bounds γ only by the two O(1/n) sequences
`Hₙ − log(n+1)` and `Hₙ − log n`, so 2^−64 precision is out of reach; those 44 of the 1386 entries (egamma, −Exponent ∈ {15, 16, 18, 20, 21, 24, 25, 27, 30,
31, 32, 35, 40, 45, 50, 55, 60 … 64}: 16-bit reps 3, 32-bit 15, 64-bit 26) stay compared with the 60-digit numerical reference only (`C20_constants_ref60`).
-/
open Cnl Cnl.Exp2 Cnl.Spec.Exp2 Cnl.Exp2Proofs

namespace Cnl.C20

/-- formats the property quantifies over: 8/16/32-bit rep, at least one integer bit -/
def InScope (f : Fmt) : Prop := (f.bits = 8 ∨ f.bits = 16 ∨ f.bits = 32) ∧ -(f.rep.digits : Int) < f.exp

/-- `x = rep·2^E` is an integer whose power `2^x` is a whole number of units -/
def IntegralExact (f : Fmt) (rep : Int) : Prop :=
  (f.exp < 0 → rep % 2^(-f.exp).toNat = 0) ∧ 0 ≤ (expArg f.exp rep).2

/-- the property as documented -/
def C20_exp2_full : Prop :=
  ∀ f : Fmt, InScope f → ∀ rep, f.rep.InRange rep → ∀ r : Nat, IsRef f.exp rep r → (r : Int) ≤ f.rep.max →
    ∃ v, exp2 f rep = .ok v ∧ (v - r).natAbs ≤ 1 ∧ (IntegralExact f rep → v = r)

/-- the 1-LSB claim restricted to one width (true or false, not decided here for 16 and 32) -/
def C20_width_full (W : Nat) : Prop :=
  ∀ f : Fmt, InScope f → f.bits = W → ∀ rep, f.rep.InRange rep → ∀ r : Nat, IsRef f.exp rep r → (r : Int) ≤ f.rep.max →
    ∃ v, exp2 f rep = .ok v ∧ (v - r).natAbs ≤ 1
def C20_16_full : Prop := C20_width_full 16
def C20_32_full : Prop := C20_width_full 32

theorem witness_ref : IsRef (-4) 63 245 := by
  show IsFloorPow2 (expArg (-4) 63).1 (expArg (-4) 63).2 245
  decide +kernel
theorem witness_model : exp2 ⟨8, false, -4⟩ 63 = .ok 243 := by decide +kernel

theorem C20_exp2_refuted : ¬ C20_exp2_full := by
  intro h
  obtain ⟨v, hv, hd, _⟩ := h ⟨8, false, -4⟩ ⟨Or.inl rfl, by decide⟩ 63 (by decide) 245 witness_ref (by decide)
  rw [witness_model] at hv
  cases hv
  revert hd; decide

theorem witness32_ref : IsRef (-16) 196608 524288 := by
  show IsFloorPow2 (expArg (-16) 196608).1 (expArg (-16) 196608).2 524288
  decide +kernel
theorem witness32_model : exp2 ⟨32, false, -16⟩ 196608 = .ok 1 := by decide +kernel

/-- `exp2(scaled_integer<uint32_t, power<-16>>{3})` has representation 1 (= 2^−16) instead of 524288 (= 8) -/
theorem C20_exp2_unsigned32_refuted : ¬ C20_32_full := by
  intro h
  obtain ⟨v, hv, hd⟩ := h ⟨32, false, -16⟩ ⟨Or.inr (Or.inr rfl), by decide⟩ rfl 196608 (by decide) 524288 witness32_ref (by decide)
  rw [witness32_model] at hv
  cases hv
  revert hd; decide

/-! ## (b) exact maximum deviation, every input, every 8-bit format -/

/-- format and its exact maximum deviation -/
def bounds8 : List (Fmt × Nat) :=
  [(⟨8, false, -7⟩, 2),
   (⟨8, false, -6⟩, 2),
   (⟨8, false, -5⟩, 2),
   (⟨8, false, -4⟩, 2),
   (⟨8, false, -3⟩, 1),
   (⟨8, false, -2⟩, 1),
   (⟨8, false, -1⟩, 1),
   (⟨8, false, 0⟩, 0),
   (⟨8, false, 1⟩, 1),
   (⟨8, false, 2⟩, 1),
   (⟨8, true, -6⟩, 1),
   (⟨8, true, -5⟩, 1),
   (⟨8, true, -4⟩, 1),
   (⟨8, true, -3⟩, 1),
   (⟨8, true, -2⟩, 1),
   (⟨8, true, -1⟩, 1),
   (⟨8, true, 0⟩, 1)]

theorem table8 {p : Int → Bool} (f : Fmt) (h8 : f.bits = 8) (h : sweep f p 0 256 = true) :
    ∀ rep, f.rep.InRange rep → p rep = true := by
  intro rep hin
  have hl : lowestF f.rep = f.rep.lowest := lowestF_eq _
  obtain ⟨h1, h2⟩ := hin
  obtain ⟨b, s, e⟩ := f
  simp only at h8; subst h8
  cases s
  · have e1 : (Fmt.rep ⟨8, false, e⟩).lowest = 0 := by show IntTy.lowest ⟨8, false⟩ = 0; decide
    have e2 : (Fmt.rep ⟨8, false, e⟩).max = 255 := by show IntTy.max ⟨8, false⟩ = 255; decide
    rw [e1] at h1 hl; rw [e2] at h2
    exact sweep_spec h rep (by rw [hl]; omega) (by rw [hl]; omega)
  · have e1 : (Fmt.rep ⟨8, true, e⟩).lowest = -128 := by show IntTy.lowest ⟨8, true⟩ = -128; decide
    have e2 : (Fmt.rep ⟨8, true, e⟩).max = 127 := by show IntTy.max ⟨8, true⟩ = 127; decide
    rw [e1] at h1 hl; rw [e2] at h2
    exact sweep_spec h rep (by rw [hl]; omega) (by rw [hl]; omega)

/-- every input of every listed 8-bit format: result representable ⇒ defined and within the listed bound of the true `⌊2^x·2^(−E)⌋` -/
theorem C20_exp2_8bit_partial : ∀ fb ∈ bounds8, ∀ rep, fb.1.rep.InRange rep → ∀ r : Nat, IsRef fb.1.exp rep r →
    (r : Int) ≤ fb.1.rep.max → ∃ v, exp2 fb.1 rep = .ok v ∧ (v - r).natAbs ≤ fb.2 := by
  intro fb hfb
  simp only [bounds8, List.mem_cons, List.not_mem_nil, or_false] at hfb
  rcases hfb with rfl | rfl | rfl | rfl | rfl | rfl | rfl | rfl | rfl | rfl | rfl | rfl | rfl | rfl | rfl | rfl | rfl
  · exact bound_of_table (table8 _ rfl Exp2Tab8.tab_u8_m7)
  · exact bound_of_table (table8 _ rfl Exp2Tab8.tab_u8_m6)
  · exact bound_of_table (table8 _ rfl Exp2Tab8.tab_u8_m5)
  · exact bound_of_table (table8 _ rfl Exp2Tab8.tab_u8_m4)
  · exact bound_of_table (table8 _ rfl Exp2Tab8.tab_u8_m3)
  · exact bound_of_table (table8 _ rfl Exp2Tab8.tab_u8_m2)
  · exact bound_of_table (table8 _ rfl Exp2Tab8.tab_u8_m1)
  · exact bound_of_table (table8 _ rfl Exp2Tab8.tab_u8_p0)
  · exact bound_of_table (table8 _ rfl Exp2Tab8.tab_u8_p1)
  · exact bound_of_table (table8 _ rfl Exp2Tab8.tab_u8_p2)
  · exact bound_of_table (table8 _ rfl Exp2Tab8.tab_i8_m6)
  · exact bound_of_table (table8 _ rfl Exp2Tab8.tab_i8_m5)
  · exact bound_of_table (table8 _ rfl Exp2Tab8.tab_i8_m4)
  · exact bound_of_table (table8 _ rfl Exp2Tab8.tab_i8_m3)
  · exact bound_of_table (table8 _ rfl Exp2Tab8.tab_i8_m2)
  · exact bound_of_table (table8 _ rfl Exp2Tab8.tab_i8_m1)
  · exact bound_of_table (table8 _ rfl Exp2Tab8.tab_i8_p0)

/-- the listed bounds are attained (so they are the exact maxima): the flagship cases -/
theorem C20_exp2_8bit_tight :
    devAt ⟨8, false, -4⟩ 63 = some 2 ∧ devAt ⟨8, false, -7⟩ 101 = some 2 := by
  decide +kernel

example : (⟨8, false, -4⟩, 2) ∈ bounds8 := by decide
example : IsRef (-4) 63 245 ∧ (245 : Int) ≤ (Fmt.rep ⟨8, false, -4⟩).max := ⟨witness_ref, by decide⟩

/-! ## (a) integral inputs are exact -/

/-- the sign-compare defect class: unsigned rep at least as wide as `int`, negative exponent -/
def SignCompareDefect (f : Fmt) : Bool := !f.signed && decide (f.bits ≥ 32) && decide (f.exp < 0)

/-- every integral `x = E + j` (`0 ≤ j < digits`, so that `2^(x−E) = 2^j` fits) that the format can represent gives exactly `2^j` -/
def integralOK (f : Fmt) : Bool :=
  (List.range f.rep.digits).all fun j =>
    let x : Int := f.exp + j
    let rep : Int := if f.exp < 0 then x * 2^(-f.exp).toNat else x / 2^f.exp.toNat
    let isRep : Bool := if f.exp < 0 then true else decide (x % 2^f.exp.toNat = 0)
    if isRep && decide (lowestF f.rep ≤ rep) && decide (rep ≤ maxF f.rep) then exp2 f rep == .ok ((2^j : Nat) : Int) else true

/-- all exponents with an integer bit, up to +3 -/
def scopeFormats : List Fmt :=
  [8, 16, 32].flatMap fun W => [true, false].flatMap fun s =>
    (List.range ((if s then W - 1 else W) + 3)).map fun i => ⟨W, s, 3 - (i : Int)⟩

set_option maxRecDepth 100000 in
theorem C20_integral_exact_partial : ∀ f ∈ scopeFormats, SignCompareDefect f = false → integralOK f = true := by
  decide +kernel

example : (⟨32, true, -16⟩ : Fmt) ∈ scopeFormats ∧ SignCompareDefect ⟨32, true, -16⟩ = false := by decide

/-! ## (d) constants -/

/-- what the property demands of a stored constant, for the algebraic ones in exact integer form -/
def C20_constants_full : Prop :=
  ∀ (name : String) (T : IntTy) (E : Int) (c : Int), Numbers.stored name T E = .ok c →
    Spec.Numbers.within1Ref name E c = some true

theorem C20_constants_model :
    NumbersProofs.allEntries (fun name e => Numbers.stored name (NumbersProofs.entryTy e) (NumbersProofs.entryExp e) == .ok (NumbersProofs.entryRep e)) = true :=
  NumbersProofs.model_eq

theorem C20_constants_algebraic :
    NumbersProofs.allEntries (fun name e => !NumbersProofs.isAlg name ||
      Spec.Numbers.within1Alg name (NumbersProofs.entryExp e) (NumbersProofs.entryRep e) == some true) = true :=
  NumbersProofs.alg_within_one

theorem C20_constants_ref60 :
    NumbersProofs.allEntries (fun name e => Spec.Numbers.within1Ref name (NumbersProofs.entryExp e) (NumbersProofs.entryRep e) == some true) = true :=
  NumbersProofs.ref_within_one

theorem C20_constants_series_unreachable (name : String) (W : Nat) (E : Int) (hW : W ≤ 64) (hfit : -E + 2 ≤ W) :
    Numbers.usesFloat name E = true := NumbersProofs.series_unreachable name W E hW hfit

example : Numbers.usesFloat "pi" (-62) = true := by decide

/-! ## (d') constants against the true real numbers -/

open NumbersProofs in
/-- the property for the constants, over ℝ, every entry of the generated table: the model stores the tabulated representation `c` and
`(c − 1)·2^E < K < (c + 1)·2^E` where `K = NumbersReal.trueValue name` is the real constant itself -/
def C20_constants_real_full : Prop :=
  ∀ (name : String) (es : List NumbersReal.Entry), (name, es) ∈ Generated.numbers → ∀ K : ℝ, NumbersReal.trueValue name = some K →
    ∀ e ∈ es, Numbers.stored name (entryTy e) (entryExp e) = .ok (entryRep e) ∧
      ((entryRep e : ℝ) - 1) * (2 : ℝ) ^ entryExp e < K ∧ K < ((entryRep e : ℝ) + 1) * (2 : ℝ) ^ entryExp e

open NumbersProofs in
/-- proved for every entry except γ with more than 14 fractional bits (`NumbersReal.Covered`) -/
theorem C20_constants_real (name : String) (es : List NumbersReal.Entry) (hmem : (name, es) ∈ Generated.numbers) (K : ℝ)
    (hK : NumbersReal.trueValue name = some K) (e : NumbersReal.Entry) (he : e ∈ es)
    (hc : name = "egamma" → e.2.2.1 ≤ 14) :
    Numbers.stored name (entryTy e) (entryExp e) = .ok (entryRep e) ∧
      ((entryRep e : ℝ) - 1) * (2 : ℝ) ^ entryExp e < K ∧ K < ((entryRep e : ℝ) + 1) * (2 : ℝ) ^ entryExp e :=
  ⟨NumbersReal.stored_eq name es hmem e he, NumbersReal.all_within1 name es hmem K hK e he (fun h => hc h)⟩

section
open NumbersProofs Real
/-- `e = (signed, bits, −Exponent, c)`: `(c − 1)·2^E < K < (c + 1)·2^E` in ℝ -/
local notation "W1[" K ", " e "]" =>
  ((entryRep e : ℝ) - 1) * (2 : ℝ) ^ entryExp e < K ∧ K < ((entryRep e : ℝ) + 1) * (2 : ℝ) ^ entryExp e

theorem C20_pi_real : ∀ e ∈ Generated.numbers_pi, W1[π, e] := NumbersReal.pi_within1
theorem C20_e_real : ∀ e ∈ Generated.numbers_e, W1[exp 1, e] := NumbersReal.e_within1
theorem C20_ln2_real : ∀ e ∈ Generated.numbers_ln2, W1[log 2, e] := NumbersReal.ln2_within1
theorem C20_ln10_real : ∀ e ∈ Generated.numbers_ln10, W1[log 10, e] := NumbersReal.ln10_within1
theorem C20_log2e_real : ∀ e ∈ Generated.numbers_log2e, W1[1 / log 2, e] := NumbersReal.log2e_within1
theorem C20_log10e_real : ∀ e ∈ Generated.numbers_log10e, W1[1 / log 10, e] := NumbersReal.log10e_within1
theorem C20_inv_pi_real : ∀ e ∈ Generated.numbers_inv_pi, W1[1 / π, e] := NumbersReal.inv_pi_within1
theorem C20_inv_sqrtpi_real : ∀ e ∈ Generated.numbers_inv_sqrtpi, W1[1 / √π, e] := NumbersReal.inv_sqrtpi_within1
theorem C20_sqrt2_real : ∀ e ∈ Generated.numbers_sqrt2, W1[√2, e] := NumbersReal.sqrt2_within1
theorem C20_sqrt3_real : ∀ e ∈ Generated.numbers_sqrt3, W1[√3, e] := NumbersReal.sqrt3_within1
theorem C20_inv_sqrt3_real : ∀ e ∈ Generated.numbers_inv_sqrt3, W1[1 / √3, e] := NumbersReal.inv_sqrt3_within1
theorem C20_phi_real : ∀ e ∈ Generated.numbers_phi, W1[(1 + √5) / 2, e] := NumbersReal.phi_within1
/-- γ: formats with at most 14 fractional bits -/
theorem C20_egamma_real_partial : ∀ e ∈ Generated.numbers_egamma, e.2.2.1 ≤ 14 → W1[eulerMascheroniConstant, e] :=
  fun e he hb => NumbersReal.egamma_within1 e he hb

/-- `log2e` and `log10e` are the logarithms of e to base 2 and 10 -/
theorem C20_log2e_is_logb : (1 : ℝ) / log 2 = logb 2 (exp 1) ∧ (1 : ℝ) / log 10 = logb 10 (exp 1) := by
  simp [logb]

/-- `std::numbers::pi_v<scaled_integer<int32_t, power<-28>>>` has representation 843314856 and `843314855·2^−28 < π < 843314857·2^−28` -/
example : Numbers.stored "pi" ⟨32, true⟩ (-28) = .ok 843314856 ∧
    (843314855 : ℝ) * (2 : ℝ) ^ (-28 : ℤ) < π ∧ π < (843314857 : ℝ) * (2 : ℝ) ^ (-28 : ℤ) := by
  have h := C20_constants_real "pi" Generated.numbers_pi (by decide) π rfl (1, 32, 28, 843314856) (by decide) (by decide)
  simp only [entryTy, entryExp, entryRep] at h
  norm_num at h ⊢
  exact h

/-- the check is not vacuous: a representation two units off is rejected -/
example : NumbersReal.chk NumbersReal.piEncl (1, 32, 28, 843314858) = false ∧
    NumbersReal.chk NumbersReal.piEncl (1, 32, 28, 843314854) = false := by decide +kernel

/-- `e_v<scaled_integer<uint64_t, power<-62>>>`: all 64 bits -/
example : (12535862302449814170 : ℝ) * (2 : ℝ) ^ (-62 : ℤ) < exp 1 ∧ exp 1 < (12535862302449814172 : ℝ) * (2 : ℝ) ^ (-62 : ℤ) := by
  have h := C20_e_real (0, 64, 62, 12535862302449814171) (by decide)
  simp only [entryExp, entryRep] at h
  norm_num at h ⊢
  exact h

/-- `ln2_v<scaled_integer<uint64_t, power<-64>>>` -/
example : (12786308645202655659 : ℝ) * (2 : ℝ) ^ (-64 : ℤ) < log 2 ∧ log 2 < (12786308645202655661 : ℝ) * (2 : ℝ) ^ (-64 : ℤ) := by
  have h := C20_ln2_real (0, 64, 64, 12786308645202655660) (by decide)
  simp only [entryExp, entryRep] at h
  norm_num at h ⊢
  exact h
end

end Cnl.C20
