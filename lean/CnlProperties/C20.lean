import CnlProofs.Exp2
import CnlProofs.Exp2Tab8
import CnlProofs.Numbers
import CnlProofs.NumbersReal
/-!
# C20 — exp2 and the mathematical constants of scaled_integer are accurate to one unit in the last place

Model `Cnl.Exp2.exp2` (`CnlModel.Exp2`, the code of `scaled_integer/math.h` with the coefficient table the compiler prints today),
specification `Cnl.Spec.Exp2.IsRef E rep r` (`r = ⌊2^x · 2^(−E)⌋`, `x = rep·2^E`, stated with integer powers only), oracle soundness in `CnlProofs.Exp2`.

**The property is false of the code** (and of the model):
* `C20_exp2_refuted` — the documented 1-LSB bound fails: `uint8_t, power<−4>`, rep 63: the code returns 243, `⌊2^3.9375·16⌋ = 245`;
  finding `C20.exp2_error_exceeds_1lsb` (open).

**Repaired in /repo** (the as-found definitions are `Cnl.Exp2.exp2Orig` / `exp2WithOrig`, refuted here from the witnesses):
* `C20_exp2_unsigned32_orig_refuted` — AS FOUND, for `uint32_t` (and `uint64_t`) reps with a negative exponent `floored <= Exponent` compared an
  unsigned value with a negative `int`, was always true, and `exp2` returned representation 1 for every input; finding
  `C20.exp2_unsigned_rep_sign_compare` (fixed).  `C20_exp2_unsigned32_repaired`: the witness now gives 524288 = 8·2^16;
  `C20_early_return_by_value`: the repaired test is `floored ≤ Exponent` by value for every standard `Rep`, and is never taken for an
  unsigned `Rep` with a negative exponent.
* `C20_exp2_floor_wraps_orig_refuted` — AS FOUND, positive exponents: `static_cast<Rep>(floor(x))` wrapped / overflowed for negative `x`
  (`int8_t, power<1>`, rep −123: undefined shift; `int32_t, power<3>`, rep −2^31: signed overflow); finding
  `C20.exp2_positive_exponent_floor_wraps` (fixed).  `C20_exp2_below_range_exact`: for EVERY width, every positive exponent and every
  negative input the repaired `exp2` returns 0, which is the true `⌊2^x·2^(−E)⌋`.

**Proved** (kernel-checked over EVERY input, against the true floor):
* `C20_exp2_8bit_partial` — for each of the 19 8-bit formats listed in `bounds8` (every exponent with an integer bit, up to +2, signed and
  unsigned): whenever the true result fits, the model returns a value, and it is within the stated *exact* maximum deviation (0, 1 or 2 units);
  `C20_exp2_8bit_tight` — the bound is attained.
* `C20_integral_exact` — (a) integral `x` whose `2^x` is representable ⇒ the result is exactly `2^(x−E)`: EVERY 8-, 16- and 32-bit format
  with an integer bit, signed and unsigned (`InScope`), every representation, stated against the true floor `IsRef`.  It rests on the kernel-checked table
  `C20_integral_exact_table` (every format with exponent ≤ +5, at most `digits` integral inputs each), on `isFloor_pow` (the floor of `2^(j·2^n/2^n)` is `2^j`) and on
  `two_pow_ge` (`E + 32 ≤ 2^E` for `E ≥ 6`: beyond exponent +5 no integral input has a representable power in a rep of at most 32 bits).
* constants: `C20_constants_model`, `C20_constants_algebraic` (√2, √3, 1/√3, φ: exact), `C20_constants_ref60` (all thirteen, against a
  60-digit decimal enclosure — a numerical reference, not a theorem about π or e), `C20_constants_series_unreachable`.
* constants against the TRUE real numbers (`CnlProofs.NumbersReal`, Mathlib's `Real.pi`, `Real.exp 1`, `Real.log`, `√`,
  `Real.eulerMascheroniConstant`): `C20_constants_real` — for every generated (constant, Rep, Exponent) entry of twelve of the thirteen
  constants (π, e, ln 2, ln 10, log₂e = 1/ln 2, log₁₀e = 1/ln 10, 1/π, 1/√π, √2, √3, 1/√3, φ — every format up to 64 bits) the model stores
  the tabulated representation `c` and `(c − 1)·2^E < K < (c + 1)·2^E` holds in ℝ; for γ the same for the formats with at most 14
  fractional bits (`C20_egamma_real_partial`).  Per-constant statements written out: `C20_pi_real`, `C20_e_real`, `C20_ln2_real`,
  `C20_ln10_real`, `C20_log2e_real`, `C20_log10e_real`, `C20_inv_pi_real`, `C20_inv_sqrtpi_real`, `C20_sqrt2_real`, `C20_sqrt3_real`,
  `C20_inv_sqrt3_real`, `C20_phi_real`.  Enclosures used: π from `Real.pi_gt_d20/pi_lt_d20`; e from `Real.exp_one_near_20`; ln 2 from 70
  terms of the log series with Mathlib's remainder bound (2^−70; Mathlib's ready-made `log_two_near_10` would stop at ≈ 30 fractional bits);
  ln 10 = 3 ln 2 + ln(5/4); reciprocals and square roots by rational interval arithmetic; γ from `eulerMascheroniSeq 16383 < γ <
  eulerMascheroniSeq' 16384`.

**Not proved** (`def … : Prop`, kept at full strength): `C20_exp2_full` (false, see above); `C20_32_full` is false as well
(`C20_exp2_unsigned32_refuted`: since the sign-compare repair `uint32_t` reps reach the polynomial, and results in the top few percent of the range
are 2 units low: `uint32_t, power<−16>`, rep 1048150 → 4275659308, true floor 4275659310; finding `C20.exp2_error_exceeds_1lsb_unsigned32`, open);
`C20_16_full` and the 32-bit bound for signed reps — the deviation bound for
16- and 32-bit reps: the kernel evaluator needs ≈ 30 ms per input on this model, so 65 536-input tables do not fit the build budget and `2^32` never will;
both are covered by the correspondence sweep (every input of the listed 16-bit formats; dense for 32-bit) with the *same, proved-sound* oracle run by
the compiled driver.  `C20_constants_real_full` — γ (egamma) for the formats with more than 14 fractional bits: Mathlib bounds γ only by the two O(1/n) sequences
`Hₙ − log(n+1)` and `Hₙ − log n`, so 2^−64 precision is out of reach; those 44 of the 1386 entries (egamma, −Exponent ∈ {15, 16, 18, 20, 21, 24, 25, 27, 30,
31, 32, 35, 40, 45, 50, 55, 60 … 64}: 16-bit reps 3, 32-bit 15, 64-bit 26) stay compared with the 60-digit numerical reference only (`C20_constants_ref60`).
-/
open Cnl Cnl.Exp2 Cnl.Spec.Exp2 Cnl.Exp2Proofs

namespace Cnl.C20

/-- formats the property quantifies over: 8/16/32-bit rep, at least one integer bit -/
def InScope (f : Fmt) : Prop := (f.bits = 8 ∨ f.bits = 16 ∨ f.bits = 32) ∧ -(f.rep.digits : Int) < f.exp

/-- `x = rep·2^E` is an integer whose power `2^x` is a whole number of units -/
def IntegralExact (f : Fmt) (rep : Int) : Prop :=
  (f.exp < 0 → rep % 2^(-f.exp).toNat = 0) ∧ 0 ≤ (expArg f.exp rep).2

/-- the property as documented -/
def C20_exp2_full : Prop :=
  ∀ f : Fmt, InScope f → ∀ rep, f.rep.InRange rep → ∀ r : Nat, IsRef f.exp rep r → (r : Int) ≤ f.rep.max →
    ∃ v, exp2 f rep = .ok v ∧ (v - r).natAbs ≤ 1 ∧ (IntegralExact f rep → v = r)

/-- the 1-LSB claim restricted to one width (true or false, not decided here for 16 and 32) -/
def C20_width_full (W : Nat) : Prop :=
  ∀ f : Fmt, InScope f → f.bits = W → ∀ rep, f.rep.InRange rep → ∀ r : Nat, IsRef f.exp rep r → (r : Int) ≤ f.rep.max →
    ∃ v, exp2 f rep = .ok v ∧ (v - r).natAbs ≤ 1
def C20_16_full : Prop := C20_width_full 16
def C20_32_full : Prop := C20_width_full 32

theorem witness_ref : IsRef (-4) 63 245 := by
  show IsFloorPow2 (expArg (-4) 63).1 (expArg (-4) 63).2 245
  decide +kernel
theorem witness_model : exp2 ⟨8, false, -4⟩ 63 = .ok 243 := by decide +kernel

theorem C20_exp2_refuted : ¬ C20_exp2_full := by
  intro h
  obtain ⟨v, hv, hd, _⟩ := h ⟨8, false, -4⟩ ⟨Or.inl rfl, by decide⟩ 63 (by decide) 245 witness_ref (by decide)
  rw [witness_model] at hv
  cases hv
  revert hd; decide

theorem witness32_ref : IsRef (-16) 196608 524288 := by
  show IsFloorPow2 (expArg (-16) 196608).1 (expArg (-16) 196608).2 524288
  decide +kernel

/-! ### repaired defect 1: `floored <= Exponent` compared an unsigned `Rep` with a negative `int` -/

/-- the 1-LSB claim for one width about the AS-FOUND definition -/
def C20_width_full_orig (W : Nat) : Prop :=
  ∀ f : Fmt, InScope f → f.bits = W → ∀ rep, f.rep.InRange rep → ∀ r : Nat, IsRef f.exp rep r → (r : Int) ≤ f.rep.max →
    ∃ v, exp2Orig f rep = .ok v ∧ (v - r).natAbs ≤ 1

theorem witness32_orig : exp2Orig ⟨32, false, -16⟩ 196608 = .ok 1 := by decide +kernel

/-- AS FOUND: `exp2(scaled_integer<uint32_t, power<-16>>{3})` had representation 1 (= 2^−16) instead of 524288 (= 8) -/
theorem C20_exp2_unsigned32_orig_refuted : ¬ C20_width_full_orig 32 := by
  intro h
  obtain ⟨v, hv, hd⟩ := h ⟨32, false, -16⟩ ⟨Or.inr (Or.inr rfl), by decide⟩ rfl 196608 (by decide) 524288 witness32_ref (by decide)
  rw [witness32_orig] at hv
  cases hv
  revert hd; decide

/-- repaired: the witness is exact, and so is the `uint64_t` one (`exp2(3)` at `power<-40>`) -/
theorem C20_exp2_unsigned32_repaired :
    exp2 ⟨32, false, -16⟩ 196608 = .ok 524288 ∧ exp2 ⟨64, false, -40⟩ 3298534883328 = .ok 8796093022208 := by
  decide +kernel

/-- the repaired test `fp::not_above_exponent` is `floored ≤ Exponent` by value for every standard `Rep` (8 … 64 bits, either
signedness), is never taken for an unsigned `Rep` with a negative exponent, while the as-found built-in comparison held for `3u <= -16` -/
theorem C20_early_return_by_value :
    (∀ (f : Fmt) (fl : Int), (f.bits = 8 ∨ f.bits = 16 ∨ f.bits = 32 ∨ f.bits = 64) → f.rep.InRange fl → i32.InRange f.exp →
      (notAbove f fl = true ↔ fl ≤ f.exp)) ∧
    (∀ (f : Fmt) (fl : Int), f.signed = false → f.exp < 0 → notAbove f fl = false) ∧
    cLeF (u32, 3) (i32, -16) = true :=
  ⟨notAbove_iff, notAbove_unsigned_neg, cLe_orig_not_by_value.1⟩

example : (Fmt.rep ⟨32, false, -16⟩).InRange 3 ∧ i32.InRange (-16) ∧ notAbove ⟨32, false, -16⟩ 3 = false := by decide

/-! ### new since the repair: 32-bit unsigned reps reach the polynomial, and its error exceeds one unit near the top of the range -/

theorem witness32acc_ref : IsRef (-16) 1048150 4275659310 := by
  show IsFloorPow2 (expArg (-16) 1048150).1 (expArg (-16) 1048150).2 4275659310
  decide +kernel
theorem witness32acc_model : exp2 ⟨32, false, -16⟩ 1048150 = .ok 4275659308 := by decide +kernel

/-- the 1-LSB claim fails for 32-bit reps too: `exp2(scaled_integer<uint32_t, power<-16>>)` at rep 1048150 (`x ≈ 15.9935`) returns
4275659308, the true floor is 4275659310; finding `C20.exp2_error_exceeds_1lsb_unsigned32` (open) -/
theorem C20_exp2_unsigned32_refuted : ¬ C20_32_full := by
  intro h
  obtain ⟨v, hv, hd⟩ := h ⟨32, false, -16⟩ ⟨Or.inr (Or.inr rfl), by decide⟩ rfl 1048150 (by decide) 4275659310 witness32acc_ref (by decide)
  rw [witness32acc_model] at hv
  cases hv
  revert hd; decide

/-! ### repaired defect 2: positive exponent, `x` below the range of `Rep` -/

/-- the demand on negative inputs of positive-exponent formats, about the AS-FOUND definition: a value within one unit of the true result 0 -/
def C20_below_range_orig : Prop :=
  ∀ f : Fmt, InScope f → 0 < f.exp → ∀ rep, f.rep.InRange rep → rep < 0 → ∃ v, exp2Orig f rep = .ok v ∧ v.natAbs ≤ 1

theorem witness_wrap8_orig : exp2Orig ⟨8, true, 1⟩ (-123) = .ub .shiftCount := by decide +kernel
theorem witness_wrap32_orig : exp2Orig ⟨32, true, 3⟩ (-2147483648) = .ub .signedOverflow := by decide +kernel

/-- AS FOUND: `exp2(scaled_integer<int8_t, power<1>>)` at rep −123 (`x = −246`) executed an out-of-range shift -/
theorem C20_exp2_floor_wraps_orig_refuted : ¬ C20_below_range_orig := by
  intro h
  obtain ⟨v, hv, _⟩ := h ⟨8, true, 1⟩ ⟨Or.inl rfl, by decide⟩ (by decide) (-123) (by decide) (by decide)
  rw [witness_wrap8_orig] at hv
  cases hv

/-- repaired, for EVERY width, every positive exponent, every negative input and every coefficient table: the result is 0 and 0 is the
true `⌊2^x · 2^(−E)⌋`; no conversion of `floor(x)` to `Rep` is evaluated -/
theorem C20_exp2_below_range_exact (f : Fmt) (rep : Int) (he : 0 < f.exp) (hr : rep < 0) :
    exp2 f rep = .ok 0 ∧ IsRef f.exp rep 0 :=
  ⟨exp2_neg_posExp f rep he hr, isRef_neg_posExp f.exp rep he hr⟩

example : exp2 ⟨8, true, 1⟩ (-123) = .ok 0 ∧ exp2 ⟨32, true, 3⟩ (-2147483648) = .ok 0 :=
  ⟨(C20_exp2_below_range_exact _ _ (by decide) (by decide)).1, (C20_exp2_below_range_exact _ _ (by decide) (by decide)).1⟩

/-! ## (b) exact maximum deviation, every input, every 8-bit format -/

/-- format and its exact maximum deviation -/
def bounds8 : List (Fmt × Nat) :=
  [(⟨8, false, -7⟩, 2),
   (⟨8, false, -6⟩, 2),
   (⟨8, false, -5⟩, 2),
   (⟨8, false, -4⟩, 2),
   (⟨8, false, -3⟩, 1),
   (⟨8, false, -2⟩, 1),
   (⟨8, false, -1⟩, 1),
   (⟨8, false, 0⟩, 0),
   (⟨8, false, 1⟩, 1),
   (⟨8, false, 2⟩, 1),
   (⟨8, true, -6⟩, 1),
   (⟨8, true, -5⟩, 1),
   (⟨8, true, -4⟩, 1),
   (⟨8, true, -3⟩, 1),
   (⟨8, true, -2⟩, 1),
   (⟨8, true, -1⟩, 1),
   (⟨8, true, 0⟩, 1),
   (⟨8, true, 1⟩, 1),
   (⟨8, true, 2⟩, 1)]

theorem table8 {p : Int → Bool} (f : Fmt) (h8 : f.bits = 8) (h : sweep f p 0 256 = true) :
    ∀ rep, f.rep.InRange rep → p rep = true := by
  intro rep hin
  have hl : lowestF f.rep = f.rep.lowest := lowestF_eq _
  obtain ⟨h1, h2⟩ := hin
  obtain ⟨b, s, e⟩ := f
  simp only at h8; subst h8
  cases s
  · have e1 : (Fmt.rep ⟨8, false, e⟩).lowest = 0 := by show IntTy.lowest ⟨8, false⟩ = 0; decide
    have e2 : (Fmt.rep ⟨8, false, e⟩).max = 255 := by show IntTy.max ⟨8, false⟩ = 255; decide
    rw [e1] at h1 hl; rw [e2] at h2
    exact sweep_spec h rep (by rw [hl]; omega) (by rw [hl]; omega)
  · have e1 : (Fmt.rep ⟨8, true, e⟩).lowest = -128 := by show IntTy.lowest ⟨8, true⟩ = -128; decide
    have e2 : (Fmt.rep ⟨8, true, e⟩).max = 127 := by show IntTy.max ⟨8, true⟩ = 127; decide
    rw [e1] at h1 hl; rw [e2] at h2
    exact sweep_spec h rep (by rw [hl]; omega) (by rw [hl]; omega)

/-- every input of every listed 8-bit format: result representable ⇒ defined and within the listed bound of the true `⌊2^x·2^(−E)⌋` -/
theorem C20_exp2_8bit_partial : ∀ fb ∈ bounds8, ∀ rep, fb.1.rep.InRange rep → ∀ r : Nat, IsRef fb.1.exp rep r →
    (r : Int) ≤ fb.1.rep.max → ∃ v, exp2 fb.1 rep = .ok v ∧ (v - r).natAbs ≤ fb.2 := by
  intro fb hfb
  simp only [bounds8, List.mem_cons, List.not_mem_nil, or_false] at hfb
  rcases hfb with rfl | rfl | rfl | rfl | rfl | rfl | rfl | rfl | rfl | rfl | rfl | rfl | rfl | rfl | rfl | rfl | rfl | rfl | rfl
  · exact bound_of_table (table8 _ rfl Exp2Tab8.tab_u8_m7)
  · exact bound_of_table (table8 _ rfl Exp2Tab8.tab_u8_m6)
  · exact bound_of_table (table8 _ rfl Exp2Tab8.tab_u8_m5)
  · exact bound_of_table (table8 _ rfl Exp2Tab8.tab_u8_m4)
  · exact bound_of_table (table8 _ rfl Exp2Tab8.tab_u8_m3)
  · exact bound_of_table (table8 _ rfl Exp2Tab8.tab_u8_m2)
  · exact bound_of_table (table8 _ rfl Exp2Tab8.tab_u8_m1)
  · exact bound_of_table (table8 _ rfl Exp2Tab8.tab_u8_p0)
  · exact bound_of_table (table8 _ rfl Exp2Tab8.tab_u8_p1)
  · exact bound_of_table (table8 _ rfl Exp2Tab8.tab_u8_p2)
  · exact bound_of_table (table8 _ rfl Exp2Tab8.tab_i8_m6)
  · exact bound_of_table (table8 _ rfl Exp2Tab8.tab_i8_m5)
  · exact bound_of_table (table8 _ rfl Exp2Tab8.tab_i8_m4)
  · exact bound_of_table (table8 _ rfl Exp2Tab8.tab_i8_m3)
  · exact bound_of_table (table8 _ rfl Exp2Tab8.tab_i8_m2)
  · exact bound_of_table (table8 _ rfl Exp2Tab8.tab_i8_m1)
  · exact bound_of_table (table8 _ rfl Exp2Tab8.tab_i8_p0)
  · exact bound_of_table (table8 _ rfl Exp2Tab8.tab_i8_p1)
  · exact bound_of_table (table8 _ rfl Exp2Tab8.tab_i8_p2)

/-- the listed bounds are attained (so they are the exact maxima): the flagship cases -/
theorem C20_exp2_8bit_tight :
    devAt ⟨8, false, -4⟩ 63 = some 2 ∧ devAt ⟨8, false, -7⟩ 101 = some 2 := by
  decide +kernel

example : (⟨8, false, -4⟩, 2) ∈ bounds8 := by decide
example : IsRef (-4) 63 245 ∧ (245 : Int) ≤ (Fmt.rep ⟨8, false, -4⟩).max := ⟨witness_ref, by decide⟩

/-! ## (a) integral inputs are exact -/

/-- AS FOUND the table below needed the exclusion of this class (unsigned rep at least as wide as `int`, negative exponent): the sign-compare defect -/
def SignCompareDefect (f : Fmt) : Bool := !f.signed && decide (f.bits ≥ 32) && decide (f.exp < 0)

/-- every integral `x = E + j` (`0 ≤ j < digits`, so that `2^(x−E) = 2^j` fits) that the format can represent gives exactly `2^j` -/
def integralOKWith (ex : Fmt → Int → Res Int) (f : Fmt) : Bool :=
  (List.range f.rep.digits).all fun j =>
    let x : Int := f.exp + j
    let rep : Int := if f.exp < 0 then x * 2^(-f.exp).toNat else x / 2^f.exp.toNat
    let isRep : Bool := if f.exp < 0 then true else decide (x % 2^f.exp.toNat = 0)
    if isRep && decide (lowestF f.rep ≤ rep) && decide (rep ≤ maxF f.rep) then ex f rep == .ok ((2^j : Nat) : Int) else true

def integralOK (f : Fmt) : Bool := integralOKWith exp2 f

/-- all exponents with an integer bit, up to +5 -/
def scopeFormats : List Fmt :=
  [8, 16, 32].flatMap fun W => [true, false].flatMap fun s =>
    (List.range ((if s then W - 1 else W) + 5)).map fun i => ⟨W, s, 5 - (i : Int)⟩

set_option maxRecDepth 100000 in
/-- the table: every format of `scopeFormats` — unsigned 32-bit reps with negative exponents included since the repair -/
theorem C20_integral_exact_table : ∀ f ∈ scopeFormats, integralOK f = true := by
  decide +kernel

/-- AS FOUND the table failed on every format of the sign-compare class, e.g. `uint32_t, power<-16>` -/
theorem C20_integral_exact_orig_refuted : integralOKWith exp2Orig ⟨32, false, -16⟩ = false := by
  decide +kernel

example : (⟨32, false, -16⟩ : Fmt) ∈ scopeFormats ∧ SignCompareDefect ⟨32, false, -16⟩ = true := by decide

/-- reading one row of the table -/
theorem integralOK_spec {f : Fmt} (h : integralOK f = true) (j : Nat) (hj : j < f.rep.digits) (rep : Int)
    (hrep : rep = if f.exp < 0 then (f.exp + j) * 2^(-f.exp).toNat else (f.exp + j) / 2^f.exp.toNat)
    (hisrep : ¬ f.exp < 0 → (f.exp + j) % 2^f.exp.toNat = 0) (hin : f.rep.InRange rep) :
    exp2 f rep = .ok ((2^j : Nat) : Int) := by
  unfold integralOK integralOKWith at h
  rw [List.all_eq_true] at h
  have h1 := h j (List.mem_range.2 hj)
  simp only [← hrep, lowestF_eq, maxF_eq] at h1
  have hr1 : decide (f.rep.lowest ≤ rep) = true := by simpa using hin.1
  have hr2 : decide (rep ≤ f.rep.max) = true := by simpa using hin.2
  by_cases hE : f.exp < 0
  · simpa [hE, hr1, hr2] using h1
  · have := hisrep hE
    simpa [hE, hr1, hr2, this] using h1

/-- `scopeFormats` is every in-scope format with exponent at most +5 -/
theorem mem_scope (f : Fmt) (hb : f.bits = 8 ∨ f.bits = 16 ∨ f.bits = 32) (h1 : -(f.rep.digits : Int) < f.exp) (h2 : f.exp ≤ 5) :
    f ∈ scopeFormats := by
  obtain ⟨b, s, e⟩ := f
  simp only at hb h2
  rcases hb with rfl | rfl | rfl <;> cases s <;>
    simp [scopeFormats, Fmt.rep, IntTy.digits] at h1 ⊢ <;>
    exact ⟨(5 - e).toNat, by omega, by omega⟩

/-- **integral inputs are exact**, every 8/16/32-bit format with an integer bit (signed and unsigned), every representation: if `x = rep·2^E` is an
integer, `2^x` is a whole number of units and the true `⌊2^x·2^(−E)⌋ = r` fits the type, then `exp2` returns exactly `r`.
(For exponents above +5 the hypotheses are unsatisfiable for reps of at most 32 bits: `x ≥ 2^E` then exceeds `E + 32`.) -/
theorem C20_integral_exact (f : Fmt) (hs : InScope f) (rep : Int) (hin : f.rep.InRange rep) (hI : IntegralExact f rep)
    (r : Nat) (hr : IsRef f.exp rep r) (hmax : (r : Int) ≤ f.rep.max) : exp2 f rep = .ok (r : Int) := by
  obtain ⟨hb, hsc⟩ := hs
  obtain ⟨hdiv, hk⟩ := hI
  unfold IsRef at hr
  by_cases hE : f.exp < 0
  · -- fractional bits: rep = m·2^n
    have hdiv := hdiv hE
    simp only [expArg, hE, if_true] at hr hk
    obtain ⟨n, hn⟩ : ∃ n : Nat, (-f.exp).toNat = n := ⟨_, rfl⟩
    have hnE : (n : Int) = -f.exp := by omega
    rw [hn] at hr hk hdiv
    obtain ⟨m, hm⟩ := Int.dvd_of_emod_eq_zero hdiv
    have hp : (0 : Int) < 2^n := two_pow_pos n
    have hkk : rep + -f.exp * 2^n = (m + n) * 2^n := by rw [hm, ← hnE]; ring
    rw [hkk] at hr hk
    have hmn : 0 ≤ m + n := by
      by_contra hc
      have : (m + n) * 2^n < 0 := Int.mul_neg_of_neg_of_pos (by omega) hp
      omega
    obtain ⟨j, hj⟩ : ∃ j : Nat, (j : Int) = m + n := ⟨(m + n).toNat, by omega⟩
    have hcast : (m + n) * 2^n = ((j * 2^n : Nat) : Int) := by push_cast; rw [hj]
    rw [hcast] at hr
    have hrj := isFloor_pow n j r hr
    subst hrj
    have hjd := lt_digits_of_le_max f.rep j hmax
    have hmem := mem_scope f hb hsc (by omega)
    refine integralOK_spec (C20_integral_exact_table f hmem) j hjd rep ?_ (fun h => absurd hE h) hin
    simp only [hE, if_true, hn]
    rw [hm]
    have : f.exp + j = m := by omega
    rw [this]; ring
  · -- no fractional bits
    simp only [expArg, hE, if_false] at hr hk
    unfold IsFloorPow2 at hr
    have hk' : ¬ (rep * 2 ^ f.exp.toNat - f.exp < 0) := by omega
    simp only [hk', if_false, Nat.pow_zero, Nat.pow_one] at hr
    obtain ⟨j, hj⟩ : ∃ j : Nat, (rep * 2 ^ f.exp.toNat - f.exp).toNat = j := ⟨_, rfl⟩
    rw [hj] at hr
    have hrj : r = 2^j := by omega
    subst hrj
    have hjd := lt_digits_of_le_max f.rep j hmax
    have hjk : (j : Int) = rep * 2 ^ f.exp.toNat - f.exp := by omega
    have hp : (0 : Int) < 2^f.exp.toNat := two_pow_pos _
    have hd32 : f.rep.digits ≤ 32 := by
      clear hr hk hjd hjk hmax hin hdiv hsc hj
      obtain ⟨b, s, e⟩ := f
      simp only at hb
      rcases hb with rfl | rfl | rfl <;> cases s <;> simp [Fmt.rep, IntTy.digits]
    have hE5 : f.exp ≤ 5 := by
      by_contra hc
      obtain ⟨e, he⟩ : ∃ e : Nat, f.exp.toNat = e := ⟨_, rfl⟩
      have heE : (e : Int) = f.exp := by omega
      have h6 : 6 ≤ e := by omega
      have hge := two_pow_ge e h6
      have hge' : ((e + 32 : Nat) : Int) ≤ ((2^e : Nat) : Int) := by exact_mod_cast hge
      push_cast at hge'
      rw [he] at hjk hp
      have hrep1 : 1 ≤ rep := by
        by_contra hc2
        have : rep * 2^e ≤ 0 := Int.mul_nonpos_of_nonpos_of_nonneg (by omega) (by omega)
        omega
      have : (2:Int)^e ≤ rep * 2^e := by nlinarith
      omega
    have hmem := mem_scope f hb hsc hE5
    refine integralOK_spec (C20_integral_exact_table f hmem) j hjd rep ?_ (fun _ => ?_) hin
    · simp only [hE, if_false]
      have : f.exp + j = rep * 2 ^ f.exp.toNat := by omega
      rw [this, Int.mul_ediv_cancel _ (by omega)]
    · have : f.exp + j = rep * 2 ^ f.exp.toNat := by omega
      rw [this, Int.mul_emod_left]

example : InScope ⟨32, false, -16⟩ ∧ (Fmt.rep ⟨32, false, -16⟩).InRange 196608 ∧ IntegralExact ⟨32, false, -16⟩ 196608 ∧
    IsRef (-16) 196608 524288 ∧ ((524288 : Nat) : Int) ≤ (Fmt.rep ⟨32, false, -16⟩).max :=
  ⟨⟨Or.inr (Or.inr rfl), by decide⟩, by decide, by unfold IntegralExact; decide, witness32_ref, by decide⟩

/-! ## (d) constants -/

/-- what the property demands of a stored constant, for the algebraic ones in exact integer form -/
def C20_constants_full : Prop :=
  ∀ (name : String) (T : IntTy) (E : Int) (c : Int), Numbers.stored name T E = .ok c →
    Spec.Numbers.within1Ref name E c = some true

theorem C20_constants_model :
    NumbersProofs.allEntries (fun name e => Numbers.stored name (NumbersProofs.entryTy e) (NumbersProofs.entryExp e) == .ok (NumbersProofs.entryRep e)) = true :=
  NumbersProofs.model_eq

theorem C20_constants_algebraic :
    NumbersProofs.allEntries (fun name e => !NumbersProofs.isAlg name ||
      Spec.Numbers.within1Alg name (NumbersProofs.entryExp e) (NumbersProofs.entryRep e) == some true) = true :=
  NumbersProofs.alg_within_one

theorem C20_constants_ref60 :
    NumbersProofs.allEntries (fun name e => Spec.Numbers.within1Ref name (NumbersProofs.entryExp e) (NumbersProofs.entryRep e) == some true) = true :=
  NumbersProofs.ref_within_one

theorem C20_constants_series_unreachable (name : String) (W : Nat) (E : Int) (hW : W ≤ 64) (hfit : -E + 2 ≤ W) :
    Numbers.usesFloat name E = true := NumbersProofs.series_unreachable name W E hW hfit

example : Numbers.usesFloat "pi" (-62) = true := by decide

/-! ## (d') constants against the true real numbers -/

open NumbersProofs in
/-- the property for the constants, over ℝ, every entry of the generated table: the model stores the tabulated representation `c` and
`(c − 1)·2^E < K < (c + 1)·2^E` where `K = NumbersReal.trueValue name` is the real constant itself -/
def C20_constants_real_full : Prop :=
  ∀ (name : String) (es : List NumbersReal.Entry), (name, es) ∈ Generated.numbers → ∀ K : ℝ, NumbersReal.trueValue name = some K →
    ∀ e ∈ es, Numbers.stored name (entryTy e) (entryExp e) = .ok (entryRep e) ∧
      ((entryRep e : ℝ) - 1) * (2 : ℝ) ^ entryExp e < K ∧ K < ((entryRep e : ℝ) + 1) * (2 : ℝ) ^ entryExp e

open NumbersProofs in
/-- proved for every entry except γ with more than 14 fractional bits (`NumbersReal.Covered`) -/
theorem C20_constants_real (name : String) (es : List NumbersReal.Entry) (hmem : (name, es) ∈ Generated.numbers) (K : ℝ)
    (hK : NumbersReal.trueValue name = some K) (e : NumbersReal.Entry) (he : e ∈ es)
    (hc : name = "egamma" → e.2.2.1 ≤ 14) :
    Numbers.stored name (entryTy e) (entryExp e) = .ok (entryRep e) ∧
      ((entryRep e : ℝ) - 1) * (2 : ℝ) ^ entryExp e < K ∧ K < ((entryRep e : ℝ) + 1) * (2 : ℝ) ^ entryExp e :=
  ⟨NumbersReal.stored_eq name es hmem e he, NumbersReal.all_within1 name es hmem K hK e he (fun h => hc h)⟩

section
open NumbersProofs Real
/-- `e = (signed, bits, −Exponent, c)`: `(c − 1)·2^E < K < (c + 1)·2^E` in ℝ -/
local notation "W1[" K ", " e "]" =>
  ((entryRep e : ℝ) - 1) * (2 : ℝ) ^ entryExp e < K ∧ K < ((entryRep e : ℝ) + 1) * (2 : ℝ) ^ entryExp e

theorem C20_pi_real : ∀ e ∈ Generated.numbers_pi, W1[π, e] := NumbersReal.pi_within1
theorem C20_e_real : ∀ e ∈ Generated.numbers_e, W1[exp 1, e] := NumbersReal.e_within1
theorem C20_ln2_real : ∀ e ∈ Generated.numbers_ln2, W1[log 2, e] := NumbersReal.ln2_within1
theorem C20_ln10_real : ∀ e ∈ Generated.numbers_ln10, W1[log 10, e] := NumbersReal.ln10_within1
theorem C20_log2e_real : ∀ e ∈ Generated.numbers_log2e, W1[1 / log 2, e] := NumbersReal.log2e_within1
theorem C20_log10e_real : ∀ e ∈ Generated.numbers_log10e, W1[1 / log 10, e] := NumbersReal.log10e_within1
theorem C20_inv_pi_real : ∀ e ∈ Generated.numbers_inv_pi, W1[1 / π, e] := NumbersReal.inv_pi_within1
theorem C20_inv_sqrtpi_real : ∀ e ∈ Generated.numbers_inv_sqrtpi, W1[1 / √π, e] := NumbersReal.inv_sqrtpi_within1
theorem C20_sqrt2_real : ∀ e ∈ Generated.numbers_sqrt2, W1[√2, e] := NumbersReal.sqrt2_within1
theorem C20_sqrt3_real : ∀ e ∈ Generated.numbers_sqrt3, W1[√3, e] := NumbersReal.sqrt3_within1
theorem C20_inv_sqrt3_real : ∀ e ∈ Generated.numbers_inv_sqrt3, W1[1 / √3, e] := NumbersReal.inv_sqrt3_within1
theorem C20_phi_real : ∀ e ∈ Generated.numbers_phi, W1[(1 + √5) / 2, e] := NumbersReal.phi_within1
/-- γ: formats with at most 14 fractional bits -/
theorem C20_egamma_real_partial : ∀ e ∈ Generated.numbers_egamma, e.2.2.1 ≤ 14 → W1[eulerMascheroniConstant, e] :=
  fun e he hb => NumbersReal.egamma_within1 e he hb

/-- `log2e` and `log10e` are the logarithms of e to base 2 and 10 -/
theorem C20_log2e_is_logb : (1 : ℝ) / log 2 = logb 2 (exp 1) ∧ (1 : ℝ) / log 10 = logb 10 (exp 1) := by
  simp [logb]

/-- `std::numbers::pi_v<scaled_integer<int32_t, power<-28>>>` has representation 843314856 and `843314855·2^−28 < π < 843314857·2^−28` -/
example : Numbers.stored "pi" ⟨32, true⟩ (-28) = .ok 843314856 ∧
    (843314855 : ℝ) * (2 : ℝ) ^ (-28 : ℤ) < π ∧ π < (843314857 : ℝ) * (2 : ℝ) ^ (-28 : ℤ) := by
  have h := C20_constants_real "pi" Generated.numbers_pi (by decide) π rfl (1, 32, 28, 843314856) (by decide) (by decide)
  simp only [entryTy, entryExp, entryRep] at h
  norm_num at h ⊢
  exact h

/-- the check is not vacuous: a representation two units off is rejected -/
example : NumbersReal.chk NumbersReal.piEncl (1, 32, 28, 843314858) = false ∧
    NumbersReal.chk NumbersReal.piEncl (1, 32, 28, 843314854) = false := by decide +kernel

/-- `e_v<scaled_integer<uint64_t, power<-62>>>`: all 64 bits -/
example : (12535862302449814170 : ℝ) * (2 : ℝ) ^ (-62 : ℤ) < exp 1 ∧ exp 1 < (12535862302449814172 : ℝ) * (2 : ℝ) ^ (-62 : ℤ) := by
  have h := C20_e_real (0, 64, 62, 12535862302449814171) (by decide)
  simp only [entryExp, entryRep] at h
  norm_num at h ⊢
  exact h

/-- `ln2_v<scaled_integer<uint64_t, power<-64>>>` -/
example : (12786308645202655659 : ℝ) * (2 : ℝ) ^ (-64 : ℤ) < log 2 ∧ log 2 < (12786308645202655661 : ℝ) * (2 : ℝ) ^ (-64 : ℤ) := by
  have h := C20_ln2_real (0, 64, 64, 12786308645202655660) (by decide)
  simp only [entryExp, entryRep] at h
  norm_num at h ⊢
  exact h
end

end Cnl.C20
