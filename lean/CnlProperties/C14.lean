import CnlProofs.Charconv
/-!
# C14 — text output denotes the value

Spec: `CnlSpec.Decimal` (`numeralValue`, `decimalValue`: readers written without reference to the
printer; they are also the driver's oracle on the implementation's characters).

Proved for every base 2…36 and every integer (any width, EVERY value — the most negative one has a numeral since
the repair of the negative branch, `most_negative_numeral_witness`): the numeral the model emits
(`intText`, the digit string of `to_chars_natural` with the sign) reads back as exactly the value
(`integer_numeral_denotes`) and has no leading zero (`integer_numeral_canonical`); it is exactly what a
successful call leaves in `[first, p)` (`integer_text_is_numeral`, `integer_digits_in_buffer`).
`descale_keeps_sign`: the rescaled significand has the sign of the value and is never zero.

Kernel-checked witnesses: the unrepaired `descale` produced no text for non-negative exponents
(`descale_unrepaired_diverges`); the repaired code still loses the last digit of some short expansions
(`lossy_short_expansion_witness` — open finding `C14.lossy_rescaling_of_short_expansion`).

The fractional half (EVERY significand type, signed or unsigned — `int64_t` for all reps of at most 63 digits,
`uint64_t`, `__int128`, `unsigned __int128`, wider reps — every value, exponent, buffer length and EVERY radix `≥ 2`
with `10·radix ≤ max` of the significand type, i.e. every `int` radix — `C13.radix_fits`; the as-found headroom test
is refuted for radixes above ten by `radix_above_ten_unrepaired_refuted`):
* `descale_value_invariant`: `|s|·10^x ≤ |v|·radix^e`, the shortfall is at most `lossy·lossUnit/max` of the value
  (`lossUnit = 10(radix−1)` for negative, `9·max(radix,10)` — `90` for the radixes 2…10 — for non-negative exponents;
  `loss_unit_figures`), equality when no
  lossy division happened; `descale_invariant_signed` / `descale_invariant` (= `FullDescaleInvariant`, formerly open for
  unsigned types) restate it with the oracle's `Dec.within`/`Dec.exactly`;
* `fill_denotes_truncation`, `layout_truncates`: the text of either layout reads back (independent reader) as the
  significand truncated toward zero to the digits kept: `0 ≤ s·10^x − printed < 10^(last printed digit)`, exact
  when nothing was cut, and nothing is cut when a complete notation fits;
* `scaled_text_denotes`: the composition for `cnl::to_chars(scaled_integer)` — sign, never above, less than one
  unit of the last digit plus `lossy·lossUnit/max` below, exact when `lossy = 0` and a complete notation fits;
  `scaled_zero_denotes`; `descale_lossless_binary`: for a binary negative exponent no division is lossy when
  `|v|·5^|e| ≤ max/10` (the expansion has at most 18 significant digits on `int64_t`); `descale_lossless_small`:
  nor for a non-negative exponent when `|v|·radix^e ≤ max/10`.

Still open: a static criterion for `lossy = 0` when the exponent is non-negative and the value
exceeds `max/10` (there the claim "exact whenever the expansion has ≤ 18 digits" is *false*:
`lossy_short_expansion_witness`), or the input radix is not 2 with a negative exponent.  It is
checked by the oracle on every swept case.
-/
namespace Cnl.C14
open Cnl Cnl.Charconv Cnl.Spec

/-- the numeral of an integer reads back as its sign and magnitude, in every base the code supports -/
theorem integer_numeral_denotes (base : Nat) (v : Int) (h2 : 2 ≤ base) (h36 : base ≤ 36) :
    numeralValue base (intText base v) = some (decide (v < 0), v.natAbs) :=
  intText_value base v h2 h36

example : numeralValue 16 (intText 16 (-255)) = some (true, 255) := by decide

/-- canonical: the first digit of a non-zero value is not `0` -/
theorem integer_numeral_canonical (base : Nat) (v : Int) (h2 : 2 ≤ base) (h36 : base ≤ 36) (hv : v ≠ 0) :
    ∃ c rest, natDigits base v.natAbs = c :: rest ∧ c ≠ '0' :=
  intText_canonical base v h2 h36 hv

/-- `cnl::to_chars` on an integer of any width, ANY value, any base 2…36, any buffer length: when it
succeeds, the characters `[first, p)` are exactly the canonical numeral — which (`integer_numeral_denotes`)
reads back as the value -/
theorem integer_text_is_numeral (T : IntTy) (len : Nat) (v : Int) (base : Nat)
    (hb : 2 ≤ base ∧ base ≤ 36) (hu : T.signed = false → 0 ≤ v) :
    ∃ r, intToChars T (Buf.fresh len) v base = .ok r ∧
      (r.ok = true → r.text = intText base v ∧
        numeralValue base r.text = some (decide (v < 0), v.natAbs)) := by
  obtain ⟨r, h1, h2⟩ := intToChars_text T len v base hb hu
  refine ⟨r, h1, fun hok => ?_⟩
  have := h2 hok
  exact ⟨this, by rw [this]; exact intText_value base v hb.1 hb.2⟩

example : (u64.signed = false → (0 : Int) ≤ 18446744073709551615) ∧ (i64.signed = false → (0 : Int) ≤ -9223372036854775808) := by
  decide

/-- the most negative value: as found no numeral at all (failed assertion / undefined negation); repaired, the
canonical numeral, which reads back as the value -/
theorem most_negative_numeral_witness :
    intToCharsOrig i64 (Buf.fresh 20) (-9223372036854775808) 10 = .unreachable "assert: most negative value" ∧
    (intToChars i64 (Buf.fresh 20) (-9223372036854775808) 10).map TCR.text = .ok "-9223372036854775808".toList ∧
    numeralValue 10 "-9223372036854775808".toList = some (true, 9223372036854775808) := by
  decide +kernel

/-- what integer `to_chars_positive` leaves in the buffer: cell `first + k` holds digit `k` of the numeral -/
theorem integer_digits_in_buffer (b : Buf) (first v base : Nat) (hw : b.WF) (hf : first ≤ b.len) :
    ∃ r, natToChars b first v base = .ok r ∧
      ∀ i, r.buf.cells[i]? =
        if first ≤ i ∧ i < first + (natDigits base v).length ∧ i < b.len
        then ((natDigits base v)[i - first]?).map some else b.cells[i]? := by
  obtain ⟨r, hr, _, _, _, _, hc⟩ := natToChars_spec b first v base hw hf
  exact ⟨r, hr, hc⟩

/-- rescaling keeps the sign and never yields zero or leaves the significand type (every input, exponent,
input radix `≥ 2` with `10·R ≤ max`, significand type signed or unsigned): the printed sign is the value's sign -/
theorem descale_keeps_sign (S : IntTy) (h8 : 8 ≤ S.bits) (input e : Int) (R : Nat)
    (hR2 : 2 ≤ R) (hRS : 10 * (R : Int) ≤ S.max) (hr : S.InRange input) (h0 : input ≠ 0) :
    ∃ d, descale S input e R = .ok d ∧ (input < 0 ↔ d.sig < 0) ∧ d.sig ≠ 0 := by
  obtain ⟨d, hd, _, _, h3⟩ := descale_ok S h8 input e R hR2 hRS hr h0
  refine ⟨d, hd, ?_, ?_⟩
  · by_cases hn : input < 0 <;> simp [hn] at h3 ⊢ <;> omega
  · by_cases hn : input < 0 <;> simp [hn] at h3 <;> omega

/-- the unrepaired `descale` never returned for non-negative exponents once out of headroom -/
theorem descale_unrepaired_diverges : descaleOrig i64 3 70 2 = .diverges := by decide +kernel

/-- as found, an input radix above ten with a positive exponent produced no text for significands in
`(max/radix, max/10]` (`significand *= radix` overflowed or wrapped to zero): `scaled_integer<int64_t, power<1,16>>`
rep `2^59`; repaired: `9223372036854775680`, which is `2^63` within the precision allowance (one lossy division) -/
theorem radix_above_ten_unrepaired_refuted :
    descaleTenOrig i64 576460752303423488 1 16 = .ub .signedOverflow ∧
    descaleTenOrig u64 1152921504606846976 1 16 = .diverges ∧
    descale i64 576460752303423488 1 16 = .ok ⟨922337203685477568, 1, 1⟩ ∧
    (scaledToChars i64 1 16 30 576460752303423488).map TCR.text = .ok "9223372036854775680".toList := by
  decide +kernel

/-- open finding: `5^26 · 2^1 = 2980232238769531250` (18 significant digits) is rescaled with one lossy
division: significand `298023223876953124`, exponent 1 -/
theorem lossy_short_expansion_witness :
    descale i64 (5 ^ 26) 1 2 = .ok ⟨298023223876953124, 1, 1⟩ ∧ (298023223876953124 : Int) * 10 ≠ 5 ^ 26 * 2 := by
  decide +kernel

/-- an exact case: `scaled_integer<int8_t, power<-4>>` rep −99 = −6.1875 -/
theorem descale_exact_witness : descale i64 (-99) (-4) 2 = .ok ⟨-61875, -4, 0⟩ := by decide +kernel

/-! ## the fractional half -/

/-- **value invariant of `descale`** (target 1).  For every significand type (signed or unsigned) of at least 8 bits, every
input in range, every input exponent and input radix `≥ 2` (`10·R ≤ max`): with `num/den = |input|·radix^e` and the returned
`s = |d.sig|`, `x = d.exp`
* the sign is kept and `s ≠ 0`;
* `s·10^x ≤ num/den` (written `s·10^x⁺·den ≤ num·10^x⁻`);
* `num/den − s·10^x ≤ (num/den)·lossy·lossUnit/max`: every lossy division (one that happens out of headroom,
  `|sig| > max/10`, or `max/max(R,10)` in the loop for non-negative exponents, with a non-zero remainder) loses less
  than one unit of the new significand, i.e. at most `lossUnit/max` of the value, `lossUnit = 10(radix−1)` for negative
  and `9·max(radix,10)` for non-negative exponents;
* equality when no lossy division happened;
* for a negative exponent at most `|e|` divisions are lossy (`descale_lossy_count` bounds the count by `|e| + 1` for
  the radixes 2…10 and non-negative exponents — so the whole allowance is at most `(|e|+1)·90/max` of the value there,
  which is what the oracle of the driver grants, `(|e|+1)·100/max`). -/
theorem descale_value_invariant (S : IntTy) (h8 : 8 ≤ S.bits) (input e : Int) (R : Nat)
    (hR2 : 2 ≤ R) (hRS : 10 * (R : Int) ≤ S.max) (hr : S.InRange input) (h0 : input ≠ 0) :
    ∃ d, descale S input e R = .ok d ∧ (input < 0 ↔ d.sig < 0) ∧ d.sig ≠ 0 ∧
      d.sig.natAbs * 10 ^ d.exp.toNat * (exactFrac input.natAbs R e).2 ≤
        (exactFrac input.natAbs R e).1 * 10 ^ (-d.exp).toNat ∧
      (exactFrac input.natAbs R e).1 * 10 ^ (-d.exp).toNat * S.max.toNat ≤
        d.sig.natAbs * 10 ^ d.exp.toNat * (exactFrac input.natAbs R e).2 * S.max.toNat +
        (exactFrac input.natAbs R e).1 * 10 ^ (-d.exp).toNat * (d.lossy * lossUnit R e) ∧
      (d.lossy = 0 → d.sig.natAbs * 10 ^ d.exp.toNat * (exactFrac input.natAbs R e).2 =
        (exactFrac input.natAbs R e).1 * 10 ^ (-d.exp).toNat) ∧
      (e < 0 → d.lossy ≤ e.natAbs) := by
  obtain ⟨d, hd, hsg, hne⟩ := descale_keeps_sign S h8 input e R hR2 hRS hr h0
  obtain ⟨h1, h2⟩ := descale_value S h8 input e R hR2 hRS hr h0 d hd
  have hM : 0 < S.max.toNat := by have := max_ge_127_any S h8; omega
  refine ⟨d, hd, hsg, hne, h1, h2, ?_, fun he => descale_lossy_le S h8 input e R hR2 hRS hr h0 he d hd⟩
  intro hl
  rw [hl] at h2
  simp only [Nat.zero_mul, Nat.mul_zero, Nat.add_zero] at h2
  have := Nat.le_of_mul_le_mul_right h2 hM
  omega

example : 8 ≤ i64.bits ∧ i64.InRange (-99) ∧ (-99 : Int) ≠ 0 ∧ 10 * ((16 : Nat) : Int) ≤ i64.max := by decide

/-- the number of lossy divisions for the radixes 2…10: at most `|e| + 1` (after a division by ten the significand is
back inside the headroom for a factor of ten, so only a multiplication takes it out again).  For a radix above ten
several divisions by ten may precede one multiplication; there only the bound per division (`lossUnit`) is proved. -/
theorem descale_lossy_count (S : IntTy) (h8 : 8 ≤ S.bits) (input e : Int) (R : Nat)
    (hR2 : 2 ≤ R) (hR : R ≤ 10) (hr : S.InRange input) (h0 : input ≠ 0) (d : Desc)
    (hd : descale S input e R = .ok d) : d.lossy ≤ e.natAbs + 1 :=
  descale_lossy_le_succ S h8 input e R hR2 hR hr h0 d hd

example : descale i64 3 70 2 = .ok ⟨354177486215223384, 4, 4⟩ := by decide +kernel

/-- the allowance in figures: for a binary negative exponent a lossy halving costs at most `10/max` of the value,
which for the 64-bit significand is below `2^-59`; for non-negative exponents `90/max < 2^-56` (radixes 2…10);
for any radix the unit is at most `10·max(R,10)` -/
theorem loss_unit_figures :
    (∀ e : Int, e < 0 → lossUnit 2 e = 10) ∧ (∀ (R : Nat) (e : Int), R ≤ 10 → lossUnit R e ≤ 90) ∧
    (∀ (R : Nat) (e : Int), lossUnit R e ≤ 10 * max R 10) ∧
    10 * 2 ^ 59 < i64.max.toNat ∧ 90 * 2 ^ 56 < i64.max.toNat := by
  refine ⟨?_, fun R e h => lossUnit_le R e h, ?_, by decide, by decide⟩
  · intro e he; simp [lossUnit, he]
  · intro R e; unfold lossUnit headroomRadix; split <;> omega

/-- the rescaling invariant in the oracle's terms (`Dec.within`, `Dec.exactly` of `CnlSpec.Decimal`), for one
significand type; the allowance per lossy division is `10·max(radix,10)/max` of the value (`100/max` for the
radixes 2…10) -/
def DescaleInvariant (S : IntTy) : Prop :=
  ∀ (input e : Int) (radix : Nat) (d : Desc), 2 ≤ radix → 10 * (radix : Int) ≤ S.max → S.InRange input →
    descale S input e radix = .ok d →
    (0 ≤ input ↔ 0 ≤ d.sig) ∧
    (⟨false, d.sig.natAbs, d.exp⟩ : Dec).within (exactFrac input.natAbs radix e).1 (exactFrac input.natAbs radix e).2
      (d.lossy * (10 * max radix 10)) S.max.toNat = true ∧
    (d.lossy = 0 → (⟨false, d.sig.natAbs, d.exp⟩ : Dec).exactly
      (exactFrac input.natAbs radix e).1 (exactFrac input.natAbs radix e).2 = true)

/-- … proved for every significand type: `int64_t`, every wider signed rep, and (the name is historical) the
unsigned ones `uint64_t`, `unsigned __int128`, wide unsigned reps, where the headroom test `oob` alone keeps
`significand *= radix` from wrapping -/
theorem descale_invariant_signed (S : IntTy) (h8 : 8 ≤ S.bits) : DescaleInvariant S := by
  intro input e R d hR2 hR hr hd
  have hM : 0 < S.max.toNat := by have := max_ge_127_any S h8; omega
  by_cases h0 : input = 0
  · subst h0
    simp [descale] at hd
    subst hd
    have hz : (exactFrac (0 : Int).natAbs R e).1 = 0 := by unfold exactFrac; split <;> simp
    refine ⟨by simp, ?_, ?_⟩
    · apply within_intro
      · rw [hz]; simp
      · rw [hz]
        have := exactFrac_den_pos (0 : Int).natAbs R e (by omega)
        have hp := Nat.mul_pos this hM
        simp only [Nat.zero_mul, Nat.zero_add, Nat.add_zero, Int.toNat_zero, Nat.pow_zero, Nat.one_mul,
          Int.natAbs_zero, Nat.mul_one]
        exact hp
    · intro _
      apply exactly_intro
      rw [hz]; simp
  · obtain ⟨d', hd', hsg, hne, h1, h2, h3, _⟩ := descale_value_invariant S h8 input e R hR2 hR hr h0
    rw [hd] at hd'; cases hd'
    refine ⟨by omega, ?_, ?_⟩
    · apply within_intro _ _ _ _ _ _ _ h1
      have hu : 0 < 10 ^ d.exp.toNat * (exactFrac input.natAbs R e).2 * S.max.toNat :=
        Nat.mul_pos (Nat.mul_pos (Nat.pow_pos (by omega)) (exactFrac_den_pos _ _ _ (by omega))) hM
      have hl : d.lossy * lossUnit R e ≤ d.lossy * (10 * max R 10) :=
        Nat.mul_le_mul_left _ (by unfold lossUnit headroomRadix; split <;> omega)
      have := Nat.mul_le_mul_left ((exactFrac input.natAbs R e).1 * 10 ^ (-d.exp).toNat) hl
      omega
    · intro hl
      exact exactly_intro _ _ _ _ _ (h3 hl)

/-- full statement of the rescaling invariant: every significand type, signed or not -/
def FullDescaleInvariant : Prop := ∀ S : IntTy, 8 ≤ S.bits → DescaleInvariant S

theorem descale_invariant : FullDescaleInvariant := fun S h8 => descale_invariant_signed S h8

example : 8 ≤ u64.bits := by decide

/-- **the layouts truncate** (target 2).  `_impl::to_chars_positive` on the digit string `ds` of `sig > 0` with
decimal exponent `x`, any buffer and offset: when it succeeds, the text `t` written at `[first, first+|t|)` reads
back, with the independent reader, as `m·10^e'` where either `x ≥ 0`, `m = sig·10^x`, `e' = 0` (all digits and the
trailing zeros), or `m = ⌊sig / 10^dropped⌋` and `e' = x + dropped` with `dropped = |ds| − kept`, `0 < kept ≤ |ds|`
(predicate `Kept`): the printed value is the significand truncated toward zero to the digits kept.  No digit is
dropped when one of the two complete notations fits (`FullFits`). -/
theorem fill_denotes_truncation (b : Buf) (first sig : Nat) (x : Int) (r : TCR) (h0 : 0 < sig) (hf : first ≤ b.len)
    (hrun : toCharsPositive b first (natDigits 10 sig) x = .ok r) (hok : r.ok = true) :
    ∃ (t : List Char) (m : Nat) (e' ns : Int), 0 < t.length ∧ first + t.length ≤ b.len ∧
      r = ⟨some (first + t.length), true,
        ⟨b.len, b.cells.take first ++ t.map some ++ b.cells.drop (first + t.length)⟩⟩ ∧
      unsignedDecimal t = some (m, e') ∧ Kept sig x (natDigits 10 sig).length ns m e' ∧
      (FullFits (infoOf b.len first (natDigits 10 sig).length x) → ns = (natDigits 10 sig).length) := by
  rcases toCharsPositive_denotes b first sig h0 x hf with h | ⟨t, m, e', ns, h1, h2, h, hu, hK, hF⟩
  · rw [h] at hrun; cases hrun; simp at hok
  · rw [h] at hrun; cases hrun
    exact ⟨t, m, e', ns, h1, h2, rfl, hu, hK, hF⟩

example : (0 < 61875) ∧ (0 ≤ (Buf.fresh 6).len) ∧
    toCharsPositive (Buf.fresh 6) 0 (natDigits 10 61875) (-4) =
      .ok ⟨some 6, true, ⟨6, "6.1875".toList.map some⟩⟩ := by decide +kernel

/-- … hence `0 ≤ sig·10^x − printed < 10^(exponent of the last printed digit)`, and `printed = sig·10^x` when
nothing was cut — in the oracle's terms, with no allowance (replaces the former unproved `FullLayoutTruncates`) -/
theorem layout_truncates (b : Buf) (first sig : Nat) (x : Int) (r : TCR) (h0 : 0 < sig) (hf : first ≤ b.len)
    (hrun : toCharsPositive b first (natDigits 10 sig) x = .ok r) (hok : r.ok = true) :
    ∃ (t : List Char) (d : Dec),
      r = ⟨some (first + t.length), true,
        ⟨b.len, b.cells.take first ++ t.map some ++ b.cells.drop (first + t.length)⟩⟩ ∧
      decimalValue t = some d ∧ d.neg = false ∧
      d.within (exactFrac sig 10 x).1 (exactFrac sig 10 x).2 0 1 = true ∧
      (FullFits (infoOf b.len first (natDigits 10 sig).length x) →
        d.exactly (exactFrac sig 10 x).1 (exactFrac sig 10 x).2 = true) := by
  obtain ⟨t, m, e', ns, _, _, hr, hu, hK, hF⟩ := fill_denotes_truncation b first sig x r h0 hf hrun hok
  have hself : sig * 10 ^ x.toNat * (exactFrac sig 10 x).2 = (exactFrac sig 10 x).1 * 10 ^ (-x).toNat := by
    unfold exactFrac
    by_cases hx : x ≥ 0
    · have : (-x).toNat = 0 := by omega
      simp [hx, this]
    · have : x.toNat = 0 := by omega
      simp [hx, this]
  refine ⟨t, ⟨false, m, e'⟩, hr, decimalValue_pos t m e' hu, rfl, ?_, ?_⟩
  · apply kept_within false sig x _ ns m e' hK _ _ 1 0 (by omega) (exactFrac_den_pos _ _ _ (by omega))
    · omega
    · omega
  · intro hff
    exact kept_exactly false sig x _ ns m e' hK (hF hff) _ _ hself

/-- **the text of a non-zero `scaled_integer` denotes its value** (target 3 = 1 ∘ 2).  For every rep type (the
significand type is `int64_t` for every rep of at most 63 digits, else the rep itself, signed or unsigned), every exponent,
radix `≥ 2` (`10·radix ≤ max`: every `int` radix), buffer length and non-zero value: when `cnl::to_chars` succeeds, the characters `[first, p)`, read by
the independent reader `decimalValue`, are a decimal `d = ±m·10^x'` with
* `d.neg ↔ rep < 0`;
* `m·10^x' ≤ |rep|·radix^e` — never above the true magnitude;
* `|rep|·radix^e − m·10^x' < 10^x' + |rep|·radix^e · lossy·lossUnit/max` — less than one unit of the last printed
  digit below it, plus the significand precision allowance (`lossy` = lossy divisions of `descale`,
  `loss_unit_figures`: `< lossy·2^-59` of the value for binary negative exponents on `int64_t`);
* `m·10^x' = |rep|·radix^e` exactly when `descale` took no lossy division and a complete notation fits. -/
theorem scaled_text_denotes (T : IntTy) (e : Int) (radix len : Nat) (rep : Int)
    (hr : (sigTy T).InRange rep) (hR2 : 2 ≤ radix) (hRS : 10 * (radix : Int) ≤ (sigTy T).max)
    (hrep : rep ≠ 0) (r : TCR) (hrun : scaledToChars T e radix len rep = .ok r) (hok : r.ok = true) :
    ∃ dsc d, descale (sigTy T) rep e radix = .ok dsc ∧ decimalValue r.text = some d ∧
      d.neg = decide (rep < 0) ∧
      d.within (exactFrac rep.natAbs radix e).1 (exactFrac rep.natAbs radix e).2
        (dsc.lossy * lossUnit radix e) (sigTy T).max.toNat = true ∧
      (dsc.lossy = 0 →
        FullFits (infoOf len (if rep < 0 then 1 else 0) (natDigits 10 dsc.sig.natAbs).length dsc.exp) →
        d.exactly (exactFrac rep.natAbs radix e).1 (exactFrac rep.natAbs radix e).2 = true) :=
  scaledToChars_denotes T e radix len rep hr hR2 hRS hrep r hrun hok

example : (sigTy i8).InRange (-99) ∧ (-99 : Int) ≠ 0 ∧ 10 * ((2 : Nat) : Int) ≤ (sigTy i8).max ∧
    scaledToChars i8 (-4) 2 8 (-99) = .ok ⟨some 7, true, ⟨8, "-6.1875".toList.map some ++ [none]⟩⟩ := by
  decide +kernel

/-- **exact for short binary fractions**: `scaled_integer<Rep, power<e, 2>>` with `e < 0`, when the exact
expansion's significand `|rep|·5^|e|` is at most `max/10` (at most 18 digits for `int64_t`): `descale` takes no lossy
division — with `scaled_text_denotes`, the text is then exactly the value whenever a complete notation fits,
and plain truncation otherwise -/
theorem descale_lossless_binary (S : IntTy) (h8 : 8 ≤ S.bits) (input e : Int)
    (hr : S.InRange input) (h0 : input ≠ 0) (he : e < 0)
    (hB : 10 * (input.natAbs * 5 ^ e.natAbs) ≤ S.max.toNat) (d : Desc)
    (hd : descale S input e 2 = .ok d) : d.lossy = 0 :=
  Charconv.descale_lossless_binary S h8 input e hr h0 he hB d hd

example : i64.InRange (-99) ∧ 10 * ((-99 : Int).natAbs * 5 ^ (-4 : Int).natAbs) ≤ i64.max.toNat := by decide

/-- … and for non-negative exponents when the value itself is at most `max/10`.  (Beyond that the claim is false:
`lossy_short_expansion_witness`.) -/
theorem descale_lossless_small (S : IntTy) (h8 : 8 ≤ S.bits) (input e : Int) (R : Nat)
    (hR1 : 1 ≤ R) (hRS : 10 * (R : Int) ≤ S.max) (hr : S.InRange input) (h0 : input ≠ 0) (he : 0 ≤ e)
    (hB : 10 * (input.natAbs * R ^ e.natAbs) ≤ S.max.toNat) (d : Desc)
    (hd : descale S input e R = .ok d) : d.lossy = 0 :=
  Charconv.descale_lossless_small S h8 input e R hR1 hRS hr h0 he hB d hd

example : i64.InRange 3 ∧ 10 * ((3 : Int).natAbs * 16 ^ (10 : Int).natAbs) ≤ i64.max.toNat ∧
    10 * ((16 : Nat) : Int) ≤ i64.max := by decide

/-- zero prints as `0`, which denotes zero -/
theorem scaled_zero_denotes (T : IntTy) (e : Int) (radix len : Nat) (r : TCR)
    (hrun : scaledToChars T e radix len 0 = .ok r) (hok : r.ok = true) :
    decimalValue r.text = some ⟨false, 0, 0⟩ := by
  by_cases hlen : len = 0
  · subst hlen
    simp [scaledToChars, scaledToCharsWith] at hrun
    subst hrun; simp at hok
  · have hpos : 0 < len := Nat.pos_of_ne_zero hlen
    simp only [scaledToChars, scaledToCharsWith, hlen, if_false, if_true, Buf.write, Buf.fresh, hpos] at hrun
    cases hrun
    have : TCR.text ⟨some 1, true, ⟨len, (List.replicate len none).set 0 (some '0')⟩⟩ = ['0'] := by
      cases len with
      | zero => omega
      | succ k => simp [TCR.text, List.replicate_succ]
    rw [this]; decide

end Cnl.C14
