import CnlProofs.Charconv
/-!
# C14 — text output denotes the value

Spec: `CnlSpec.Decimal` (`numeralValue`, `decimalValue`: readers written without reference to the
printer; they are also the driver's oracle on the implementation's characters).

Proved for every base 2…36 and every integer (any width): the numeral the model emits
(`intText`, the digit string of `to_chars_natural` with the sign) reads back as exactly the value
(`integer_numeral_denotes`) and has no leading zero (`integer_numeral_canonical`); it is exactly what a
successful call leaves in `[first, p)` (`integer_text_is_numeral`, `integer_digits_in_buffer`).
`descale_keeps_sign`: the rescaled significand has the sign of the value and is never zero.

Kernel-checked witnesses: the unrepaired `descale` produced no text for non-negative exponents
(`descale_unrepaired_diverges`); the repaired code still loses the last digit of some short expansions
(`lossy_short_expansion_witness` — open finding `C14.lossy_rescaling_of_short_expansion`).

Not proved (`FullDescaleInvariant`, `FullLayoutTruncates`): the loop invariant
`|s·10^x| ≤ |input·radix^e|` (equality while no lossy division happened) and "printed = significand
truncated to the digits kept"; both are checked by the oracle on every swept case instead
(`within`, `exactly` in `CnlSpec.Decimal`).
-/
namespace Cnl.C14
open Cnl Cnl.Charconv Cnl.Spec

/-- the numeral of an integer reads back as its sign and magnitude, in every base the code supports -/
theorem integer_numeral_denotes (base : Nat) (v : Int) (h2 : 2 ≤ base) (h36 : base ≤ 36) :
    numeralValue base (intText base v) = some (decide (v < 0), v.natAbs) :=
  intText_value base v h2 h36

example : numeralValue 16 (intText 16 (-255)) = some (true, 255) := by decide

/-- canonical: the first digit of a non-zero value is not `0` -/
theorem integer_numeral_canonical (base : Nat) (v : Int) (h2 : 2 ≤ base) (h36 : base ≤ 36) (hv : v ≠ 0) :
    ∃ c rest, natDigits base v.natAbs = c :: rest ∧ c ≠ '0' :=
  intText_canonical base v h2 h36 hv

/-- `cnl::to_chars` on an integer of any width, any supported value, any base 2…36, any buffer length: when it
succeeds, the characters `[first, p)` are exactly the canonical numeral — which (`integer_numeral_denotes`)
reads back as the value -/
theorem integer_text_is_numeral (T : IntTy) (len : Nat) (v : Int) (base : Nat)
    (hb : 2 ≤ base ∧ base ≤ 36) (hm : ¬ MostNegative T v) (hu : T.signed = false → 0 ≤ v) :
    ∃ r, intToChars T (Buf.fresh len) v base = .ok r ∧
      (r.ok = true → r.text = intText base v ∧
        numeralValue base r.text = some (decide (v < 0), v.natAbs)) := by
  obtain ⟨r, h1, h2⟩ := intToChars_text T len v base hb hm hu
  refine ⟨r, h1, fun hok => ?_⟩
  have := h2 hok
  exact ⟨this, by rw [this]; exact intText_value base v hb.1 hb.2⟩

example : ¬ MostNegative u64 18446744073709551615 ∧ (u64.signed = false → (0 : Int) ≤ 18446744073709551615) := by decide

/-- what integer `to_chars_positive` leaves in the buffer: cell `first + k` holds digit `k` of the numeral -/
theorem integer_digits_in_buffer (b : Buf) (first v base : Nat) (hw : b.WF) (hf : first ≤ b.len) :
    ∃ r, natToChars b first v base = .ok r ∧
      ∀ i, r.buf.cells[i]? =
        if first ≤ i ∧ i < first + (natDigits base v).length ∧ i < b.len
        then ((natDigits base v)[i - first]?).map some else b.cells[i]? := by
  obtain ⟨r, hr, _, _, _, _, hc⟩ := natToChars_spec b first v base hw hf
  exact ⟨r, hr, hc⟩

/-- rescaling keeps the sign and never yields zero or leaves the significand type (every input, exponent,
input radix 2…10, signed significand type): the printed sign is the value's sign -/
theorem descale_keeps_sign (S : IntTy) (hs : S.signed = true) (h8 : 8 ≤ S.bits) (input e : Int) (R : Nat)
    (hR2 : 2 ≤ R) (hR : R ≤ 10) (hr : S.InRange input) (h0 : input ≠ 0) :
    ∃ d, descale S input e R = .ok d ∧ (input < 0 ↔ d.sig < 0) ∧ d.sig ≠ 0 := by
  obtain ⟨d, hd, _, _, h3⟩ := descale_ok S hs h8 input e R hR2 hR hr h0
  refine ⟨d, hd, ?_, ?_⟩
  · by_cases hn : input < 0 <;> simp [hn] at h3 ⊢ <;> omega
  · by_cases hn : input < 0 <;> simp [hn] at h3 <;> omega

/-- the unrepaired `descale` never returned for non-negative exponents once out of headroom -/
theorem descale_unrepaired_diverges : descaleOrig i64 3 70 2 = .diverges := by decide +kernel

/-- open finding: `5^26 · 2^1 = 2980232238769531250` (18 significant digits) is rescaled with one lossy
division: significand `298023223876953124`, exponent 1 -/
theorem lossy_short_expansion_witness :
    descale i64 (5 ^ 26) 1 2 = .ok ⟨298023223876953124, 1, 1⟩ ∧ (298023223876953124 : Int) * 10 ≠ 5 ^ 26 * 2 := by
  decide +kernel

/-- an exact case: `scaled_integer<int8_t, power<-4>>` rep −99 = −6.1875 -/
theorem descale_exact_witness : descale i64 (-99) (-4) 2 = .ok ⟨-61875, -4, 0⟩ := by decide +kernel

/-- full statement of the rescaling invariant (not proved) -/
def FullDescaleInvariant : Prop :=
  ∀ (S : IntTy) (input e : Int) (radix : Nat) (d : Desc), 8 ≤ S.bits → 2 ≤ radix → radix ≤ 10 → S.InRange input →
    descale S input e radix = .ok d →
    (0 ≤ input ↔ 0 ≤ d.sig) ∧
    (let (num, den) := exactFrac input.natAbs radix e
     (⟨false, d.sig.natAbs, d.exp⟩ : Dec).within num den (d.lossy * 100) S.max.toNat = true ∧
     (d.lossy = 0 → (⟨false, d.sig.natAbs, d.exp⟩ : Dec).exactly num den = true))

/-- full statement for the layouts (not proved): the text reads back as the significand truncated to the
digits kept -/
def FullLayoutTruncates : Prop :=
  ∀ (b : Buf) (sig : Nat) (x : Int) (r : TCR), 0 < sig → b.WF →
    toCharsPositive b 0 (natDigits 10 sig) x = .ok r → r.ok = true →
    ∃ d, decimalValue r.text = some d ∧ d.neg = false ∧ d.within sig 1 0 1 = true ∨ x < 0

end Cnl.C14
