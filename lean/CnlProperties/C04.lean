import CnlProofs.Scaled
/-!
# C04 — integer ↔ integer conversions between `scaled_integer`s preserve the value or truncate toward zero

Notation as in C01.  The model is `scaled/convert_operator.h` (integer → integer, same radix):
`static_cast<Result>(scale<eS - eD, ρ>(from))` — the source representation is multiplied by
`ρ^(eS-eD)` (`eS ≥ eD`) or divided by `ρ^(eD-eS)` (`eS < eD`) **in the source's promoted type**, then
converted to the destination representation type `D` (`D.wrap`: the value itself when it fits `D`).

`scaleTrunc ρ k v` is the exact value of `v · ρ^k` truncated toward zero to an integer.
`CvtOk S k ρ v` is the restriction: for `k ≥ 0` the power is well-formed and the scaled intermediate
`v · ρ^k` fits `promote S`; for `k < 0` the divisor `ρ^(-k)` is a value of `promote S`
(`PowFits` — for a signed `promote S` this is exactly "the instantiation compiles"; for an
unsigned `promote S` and radix ≠ 2 the real code wraps the power silently when it does not fit,
and the quotient is then wrong: see `unsigned_power_wraps_counterexample`).

* `convert_exact_or_truncated` — the result is `D.wrap (scaleTrunc ρ (eS-eD) v)` at exponent `eD`.
* `convert_value_preserved` — `eS ≥ eD` (or `ρ^(eD-eS)` divides `v`) and the value fits `D`: the result
  denotes exactly the source's value (`den`).
* `convert_truncates_toward_zero` — `eS < eD`: the result `q` has the sign of `v` (or is zero) and
  `0 ≤ |v| − |q|·ρ^(eD-eS) < ρ^(eD-eS)`: less than one unit of the destination's last place is
  lost, toward zero, for both signs; in terms of denoted values `den q ≤ den v < den (q+1)` for
  `v ≥ 0` and `den (q-1) < den v ≤ den q` for `v ≤ 0`.
* `convert_same_exponent` — equal exponents: the built-in conversion of the representation.

The floating-point clauses of C04 are in `CnlModel.ScaledFloat` / the driver oracle, not here.
-/
namespace Cnl.C04
open Cnl Cnl.Spec Cnl.Layered Cnl.ScaledP

/-- the conversion computes the scaled value truncated toward zero, converted to `D` -/
theorem convert_exact_or_truncated (D S : IntTy) (hS : 1 ≤ S.bits) (eD eS : Int) (ρ : Nat) (hρ : 2 ≤ ρ)
    (v : Int) (hv : S.InRange v) (hok : CvtOk S (eS - eD) ρ v) :
    Layered.cast (.sc (.int D) eD ρ) (sc S eS ρ v) = .ok (sc D eD ρ (D.wrap (scaleTrunc ρ (eS - eD) v))) :=
  cast_eval D S hS eD eS ρ hρ v hv hok

/-- … the value itself when it fits the destination representation -/
theorem convert_fits (D S : IntTy) (hD : 1 ≤ D.bits) (hS : 1 ≤ S.bits) (eD eS : Int) (ρ : Nat) (hρ : 2 ≤ ρ)
    (v : Int) (hv : S.InRange v) (hok : CvtOk S (eS - eD) ρ v) (hfit : D.InRange (scaleTrunc ρ (eS - eD) v)) :
    Layered.cast (.sc (.int D) eD ρ) (sc S eS ρ v) = .ok (sc D eD ρ (scaleTrunc ρ (eS - eD) v)) := by
  rw [cast_eval D S hS eD eS ρ hρ v hv hok, IntTy.wrap_id hD hfit]

/-- widening the resolution (`eS ≥ eD`): result `v · ρ^(eS-eD)` at exponent `eD`, the same value -/
theorem convert_value_preserved (D S : IntTy) (hD : 1 ≤ D.bits) (hS : 1 ≤ S.bits) (eD eS : Int) (hle : eD ≤ eS)
    (ρ : Nat) (hρ : 2 ≤ ρ) (v : Int) (hv : S.InRange v)
    (hw : PowOk S (eS - eD).toNat ρ) (hmid : (promote S).InRange (aligned ρ eS eD v))
    (hfit : D.InRange (aligned ρ eS eD v)) :
    Layered.cast (.sc (.int D) eD ρ) (sc S eS ρ v) = .ok (sc D eD ρ (aligned ρ eS eD v))
    ∧ den ρ (aligned ρ eS eD v) eD = den ρ v eS := by
  have hk : 0 ≤ eS - eD := by omega
  have hst : scaleTrunc ρ (eS - eD) v = aligned ρ eS eD v := by simp only [scaleTrunc, hk, ite_true, aligned]
  refine ⟨?_, den_aligned ρ hρ hle v⟩
  rw [← hst]
  apply convert_fits D S hD hS eD eS ρ hρ v hv _ (hst ▸ hfit)
  unfold CvtOk; simp only [hk, ite_true]; exact ⟨hw, hmid⟩

/-- coarsening the resolution (`eS < eD`): truncation toward zero, for both signs -/
theorem convert_truncates_toward_zero (D S : IntTy) (hD : 1 ≤ D.bits) (hS : 1 ≤ S.bits) (eD eS : Int) (hlt : eS < eD)
    (ρ : Nat) (hρ : 2 ≤ ρ) (v : Int) (hv : S.InRange v)
    (hw : PowFits S (eD - eS).toNat ρ) (hfit : D.InRange (v.tdiv (pw ρ (eD - eS).toNat))) :
    let p := pw ρ (eD - eS).toNat
    let q := v.tdiv p
    Layered.cast (.sc (.int D) eD ρ) (sc S eS ρ v) = .ok (sc D eD ρ q)
    ∧ (0 ≤ v → 0 ≤ q ∧ q * p ≤ v ∧ v < q * p + p)
    ∧ (v ≤ 0 → q ≤ 0 ∧ v ≤ q * p ∧ q * p - p < v)
    ∧ (0 ≤ v → den ρ q eD ≤ den ρ v eS ∧ den ρ v eS < den ρ (q + 1) eD)
    ∧ (v ≤ 0 → den ρ (q - 1) eD < den ρ v eS ∧ den ρ v eS ≤ den ρ q eD) := by
  intro p q
  have hk : ¬ (0 ≤ eS - eD) := by omega
  have hn : (-(eS - eD)).toNat = (eD - eS).toNat := by congr 1; omega
  have hst : scaleTrunc ρ (eS - eD) v = q := by simp only [scaleTrunc, hk, ite_false, hn, q, p]
  have hpos : 0 < p := pw_pos hρ _
  have htz : (0 ≤ v → 0 ≤ q ∧ q * p ≤ v ∧ v < q * p + p) ∧ (v ≤ 0 → q ≤ 0 ∧ v ≤ q * p ∧ q * p - p < v) :=
    tdiv_toward_zero v p hpos
  have hcast : Layered.cast (.sc (.int D) eD ρ) (sc S eS ρ v) = .ok (sc D eD ρ q) := by
    rw [← hst]
    apply convert_fits D S hD hS eD eS ρ hρ v hv _ (hst ▸ hfit)
    unfold CvtOk; simp only [hk, ite_false, hn]; exact hw
  -- a destination representation `x` denotes `x · p` source units
  have hden : ∀ x : Int, den ρ x eD = den ρ (x * p) eS := fun x => (den_aligned ρ hρ (Int.le_of_lt hlt) x).symm
  refine ⟨hcast, htz.1, htz.2, fun h0 => ?_, fun h0 => ?_⟩
  · have := htz.1 h0
    rw [hden q, hden (q + 1), den_le_iff ρ hρ, den_lt_iff ρ hρ, Int.add_mul]
    omega
  · have := htz.2 h0
    rw [hden q, hden (q - 1), den_le_iff ρ hρ, den_lt_iff ρ hρ, Int.sub_mul]
    omega

/-- coarsening is exact when no non-zero digit is dropped -/
theorem convert_exact_when_divisible (D S : IntTy) (hD : 1 ≤ D.bits) (hS : 1 ≤ S.bits) (eD eS : Int) (hlt : eS < eD)
    (ρ : Nat) (hρ : 2 ≤ ρ) (v : Int) (hv : S.InRange v)
    (hw : PowFits S (eD - eS).toNat ρ) (q : Int) (hdiv : v = q * pw ρ (eD - eS).toNat) (hfit : D.InRange q) :
    Layered.cast (.sc (.int D) eD ρ) (sc S eS ρ v) = .ok (sc D eD ρ q) ∧ den ρ q eD = den ρ v eS := by
  have hpos : 0 < pw ρ (eD - eS).toNat := pw_pos hρ _
  have hq : v.tdiv (pw ρ (eD - eS).toNat) = q := by
    rw [hdiv]; exact Int.mul_tdiv_cancel q (by omega)
  have h := convert_truncates_toward_zero D S hD hS eD eS hlt ρ hρ v hv hw (hq ▸ hfit)
  simp only [hq] at h
  refine ⟨h.1, ?_⟩
  rw [hdiv]; exact (den_aligned ρ hρ (Int.le_of_lt hlt) q).symm

/-- equal exponents: the built-in conversion of the representation, no restriction -/
theorem convert_same_exponent (D S : IntTy) (e : Int) (ρ : Nat) (v : Int) :
    Layered.cast (.sc (.int D) e ρ) (sc S e ρ v) = .ok (sc D e ρ (D.wrap v)) := by
  rw [cast_sc_sc, convert_eq]; simp

/-- `scaleTrunc` is what its name says: the exact scaled value `v · ρ^k`, truncated toward zero -/
theorem scaleTrunc_spec (ρ : Nat) (hρ : 2 ≤ ρ) (k v : Int) :
    (0 ≤ k → scaleTrunc ρ k v = v * pw ρ k.toNat) ∧
    (k < 0 → IsRounded .truncate v (pw ρ (-k).toNat) (scaleTrunc ρ k v)) := by
  constructor
  · intro h; simp only [scaleTrunc, h, ite_true]
  · intro h
    have : ¬ 0 ≤ k := by omega
    simp only [scaleTrunc, this, ite_false]
    have hpos := pw_pos hρ (-k).toNat
    exact roundDiv_truncate v _ (by omega)

/-- **Counterexample outside the restriction** (genuine defect of the code, which the model
follows): `power_value<uint32_t, 10, 10>` wraps to `10^10 mod 2^32 = 1410065408`, so converting
`scaled_integer<uint32_t, power<-10, 10>>` with representation `2·10^9` (the value `0.2`) to
`power<0, 10>` yields `1`, not `0`.  `PowFits` fails there. -/
theorem unsigned_power_wraps_counterexample :
    Layered.cast (.sc (.int u32) 0 10) (sc u32 (-10) 10 2000000000) = .ok (sc u32 0 10 1)
    ∧ scaleTrunc 10 (-10 - 0) 2000000000 = 0 ∧ ¬ PowFits u32 10 10 ∧ PowOk u32 10 10 := by decide +kernel

/-! Non-vacuity -/

-- narrowing conversion of a negative value: -7·2^-2 = -1.75 → -1 (toward zero), into 8 bits
example : Layered.cast (.sc (.int i8) 0 2) (sc i32 (-2) 2 (-7)) = .ok (sc i8 0 2 (-1)) := by decide
example : PowFits i32 (0 - (-2) : Int).toNat 2 ∧ i8.InRange ((-7 : Int).tdiv (pw 2 (0 - (-2) : Int).toNat)) := by
  decide +kernel
-- widening, radix 10: 12·10^1 = 120 → 12000·10^-2
example : Layered.cast (.sc (.int i64) (-2) 10) (sc i16 1 10 12) = .ok (sc i64 (-2) 10 12000) := by decide +kernel
example : CvtOk i16 (1 - (-2)) 10 12 := by decide
-- the value does not fit the destination: reduced modulo 2^8
example : Layered.cast (.sc (.int u8) 0 2) (sc i32 0 2 300) = .ok (sc u8 0 2 44) := by decide

end Cnl.C04
